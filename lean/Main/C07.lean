import DFV.DrvLoop
import DFV.Drv.C07
def main : IO Unit := DFV.drvMain DFV.Drv.c07
