import DFV.DrvLoop
import DFV.Drv.C10
def main : IO Unit := DFV.drvMain DFV.Drv.c10
