import DFV.DrvLoop
import DFV.Drv.C05
def main : IO Unit := DFV.drvMain DFV.Drv.c05
