import DFV.DrvLoop
import DFV.Drv.C06
def main : IO Unit := DFV.drvMain DFV.Drv.c06
