import DFV.DrvLoop
import DFV.Drv.C04
def main : IO Unit := DFV.drvMain DFV.Drv.c04
