import DFV.DrvLoop
import DFV.Drv.C18
def main : IO Unit := DFV.drvMain DFV.Drv.c18
