import DFV.DrvLoop
import DFV.Drv.C02
def main : IO Unit := DFV.drvMain DFV.Drv.c02
