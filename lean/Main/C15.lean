import DFV.DrvLoop
import DFV.Drv.C15
def main : IO Unit := DFV.drvMain DFV.Drv.c15
