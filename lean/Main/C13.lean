import DFV.DrvLoop
import DFV.Drv.C13
def main : IO Unit := DFV.drvMain DFV.Drv.c13
