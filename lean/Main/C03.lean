import DFV.DrvLoop
import DFV.Drv.C03
def main : IO Unit := DFV.drvMain DFV.Drv.c03
