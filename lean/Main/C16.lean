import DFV.DrvLoop
import DFV.Drv.C16
def main : IO Unit := DFV.drvMain DFV.Drv.c16
