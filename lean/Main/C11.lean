import DFV.DrvLoop
import DFV.Drv.C11
def main : IO Unit := DFV.drvMain DFV.Drv.c11
