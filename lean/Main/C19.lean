import DFV.DrvLoop
import DFV.Drv.C19
def main : IO Unit := DFV.drvMain DFV.Drv.c19
