import DFV.DrvLoop
import DFV.Drv.C14
def main : IO Unit := DFV.drvMain DFV.Drv.c14
