import DFV.DrvLoop
import DFV.Drv.C01
def main : IO Unit := DFV.drvMain DFV.Drv.c01
