import DFV.DrvLoop
import DFV.Drv.C12
def main : IO Unit := DFV.drvMain DFV.Drv.c12
