import DFV.DrvLoop
import DFV.Drv.C17
def main : IO Unit := DFV.drvMain DFV.Drv.c17
