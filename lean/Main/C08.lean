import DFV.DrvLoop
import DFV.Drv.C08
def main : IO Unit := DFV.drvMain DFV.Drv.c08
