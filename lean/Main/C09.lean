import DFV.DrvLoop
import DFV.Drv.C09
def main : IO Unit := DFV.drvMain DFV.Drv.c09
