import DFV.DrvLoop
import DFV.Drv.C20
def main : IO Unit := DFV.drvMain DFV.Drv.c20
