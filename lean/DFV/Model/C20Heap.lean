import DFV.Model.C20
/-!
C20 model, third part: the plot functions on a HEAP of numpy buffers — which arrays are
copied, which are views, and where the in-place writes of `_filter_values`
(`values[filter == 0] = nan`, `values[~valid] = nan`) land.

The property says that plotting never modifies the field, its mesh or its validity.  In
`Model/C20.lean` fields are values, so nothing can be modified by construction; here the arrays
of the plotted field and of the filter / colour fields are OBJECTS (addresses into a heap of
buffers), `array.copy()` allocates, derived fields (`_valid_as_field`, `resample`) allocate,
`reshape` / `transpose` / component selection are views (index maps onto the same buffer), and
the NaN writes happen in place at an address.  Code-shaped: same statements in the same order
as `MplField.scalar`, `contour`, `vector` and `_filter_values`.  The only simplification:
`array.copy().reshape(n)` is one allocation of the reshaped contents (the reshape is a view of a
copy nobody else holds).  Buffers hold `Option Rat` (`none` = NaN); a validity buffer holds
`1` / `0`.
Core Lean only.
-/
namespace DFV.C20
open DFV

/-- a numpy buffer: total function from the multi-index to the entry (`none` = NaN) -/
abbrev ABuf := List Nat → Option Rat

/-- heap of buffers: the address of a buffer is its position -/
abbrev AHeap := List ABuf

/-- the buffer at an address -/
def AHeap.buf (h : AHeap) (a : Nat) : ABuf := h.getD a (fun _ => none)

/-- a new buffer; returns the heap and the new address -/
def AHeap.alloc (h : AHeap) (b : ABuf) : AHeap × Nat := (h ++ [b], h.length)

/-- `arr[mask] = np.nan`, in place, on the buffer at address `a` -/
def AHeap.nanWhere (h : AHeap) (a : Nat) (mask : List Nat → Bool) : AHeap :=
  setAt h a (fun i => if mask i then none else h.buf a i)

/-- a field whose arrays live on the heap -/
structure HFld where
  mesh : Mesh
  nvdim : Nat
  /-- address of `field.array`, indexed `[i, j, c]` -/
  arr : Nat
  /-- address of `field.valid`, indexed `[i, j]`, entries `1` / `0` -/
  val : Nat
  vdims : Option (List String)
  vmap : List (String × String)
  unit : Option String

/-- `field.valid[i]` read from the heap -/
def HFld.validAt (h : AHeap) (f : HFld) (i : List Nat) : Bool := h.buf f.val i == some 1

/-- the field as a value: what the arrays on the heap currently hold (NaN read as 0) -/
def HFld.abs (h : AHeap) (f : HFld) : Fld :=
  { mesh := f.mesh, nvdim := f.nvdim,
    data := ⟨f.mesh.n, fun i => tab f.nvdim fun c => (h.buf f.arr (i ++ [c])).getD 0⟩,
    valid := ⟨f.mesh.n, fun i => f.validAt h i⟩,
    vdims := f.vdims, vmap := f.vmap, unit := f.unit }

/-- keyword arguments with heap fields -/
structure HOpts where
  mult : Option Rat := none
  filter : Option HFld := none
  aux : Option HFld := none
  vdimsArg : Option (List (Option String)) := none
  useColor : Bool := true
  pick : Nat := 0

def HOpts.abs (h : AHeap) (o : HOpts) : Opts :=
  { mult := o.mult, filter := o.filter.map (·.abs h), aux := o.aux.map (·.abs h),
    vdimsArg := o.vdimsArg, useColor := o.useColor, clim := none, pick := o.pick }

/-! ## `field._valid_as_field` and `filter_field.resample(n)`: new fields, new buffers -/

/-- `field._valid_as_field`: a new field; its array is a fresh buffer holding `1.0` / `0.0`, its
validity a fresh buffer of ones -/
def validAsFieldH (h : AHeap) (f : HFld) : AHeap × HFld :=
  ((h.alloc (fun i => some (if f.validAt h (i.take 2) then 1 else 0))).1.alloc (fun _ => some 1) |>.1,
   { mesh := f.mesh, nvdim := 1, arr := h.length, val := h.length + 1, vdims := none, vmap := [],
     unit := none })

/-- array used for the mask `filter_field.array.reshape(n) == 0`: the filter's own buffer when the
cell counts agree, else the fresh buffer of `filter_field.resample(n)` -/
def filterArrH (h : AHeap) (f g : HFld) : M (AHeap × Nat) :=
  if g.mesh.n = f.mesh.n then .ok (h, g.arr)
  else
    match auxOnMesh (f.abs h) (g.abs h) with
    | .error e => .error e
    | .ok a => .ok (h.alloc fun i => some ((a.get i.dropLast).getD 0 0))

/-- `_filter_values(filter_field, values)` for `values` = the buffer at address `v` whose leading
two axes are the cells: checks, optional resampling, the two in-place NaN writes -/
def filterValuesH (h : AHeap) (f g : HFld) (v : Nat) : M AHeap :=
  if g.nvdim ≠ 1 then .error .value
  else if g.mesh.region.ndim ≠ 2 then .error .value
  else
    match filterArrH h f g with
    | .error e => .error e
    | .ok hp =>
      .ok ((hp.1.nanWhere v fun i => decide ((hp.1.buf hp.2 (i.take 2 ++ [0])).getD 0 = 0)).nanWhere v
            fun i => !f.validAt hp.1 (i.take 2))

/-- the filter field in force: the given one, or a fresh `_valid_as_field` -/
def filterFieldH (h : AHeap) (f : HFld) (flt : Option HFld) : AHeap × HFld :=
  match flt with
  | some g => (h, g)
  | none => validAsFieldH h f

/-- the buffer at address `v` (shape `n`) transposed for matplotlib -/
def imgOfBuf (n : List Nat) (b : ABuf) : NDA (Option Rat) :=
  (⟨n, b⟩ : NDA (Option Rat)).transpose [1, 0]

/-! ## scalar / contour -/

/-- the common part of `scalar` and `contour`: `values = field.array.copy().reshape(n)`, default
filter, `_filter_values`; returns the heap and the address of `values` -/
def maskedValuesH (h : AHeap) (f : HFld) (flt : Option HFld) : M (AHeap × Nat) :=
  match filterValuesH (filterFieldH (h.alloc fun i => h.buf f.arr (i.take 2 ++ [0])).1 f flt).1 f
      (filterFieldH (h.alloc fun i => h.buf f.arr (i.take 2 ++ [0])).1 f flt).2 h.length with
  | .error e => .error e
  | .ok h' => .ok (h', h.length)

/-- `field.mpl.scalar(multiplier=…, filter_field=…)` on the heap -/
def scalarH (h : AHeap) (f : HFld) (o : HOpts) : AHeap × M (List PlotCall) :=
  if f.mesh.region.ndim ≠ 2 then (h, .error .runtime)
  else if f.nvdim > 1 then (h, .error .runtime)
  else
    match setupMultiplier (f.abs h) o.mult with
    | .error e => (h, .error e)
    | .ok m =>
      match extent f.mesh.region m with
      | .error e => (h, .error e)
      | .ok ext =>
        match maskedValuesH h f o.filter with
        | .error e => (h, .error e)
        | .ok hv =>
          match axisLabels f.mesh.region m with
          | .error e => (hv.1, .error e)
          | .ok lab => (hv.1, .ok [.imshow (imgOfBuf f.mesh.n (hv.1.buf hv.2)) "lower" ext, lab])

/-- `field.mpl.contour(multiplier=…, filter_field=…)` on the heap -/
def contourH (h : AHeap) (f : HFld) (o : HOpts) : AHeap × M (List PlotCall) :=
  if f.mesh.region.ndim ≠ 2 then (h, .error .runtime)
  else if f.nvdim ≠ 1 then (h, .error .runtime)
  else
    match setupMultiplier (f.abs h) o.mult with
    | .error e => (h, .error e)
    | .ok m =>
      match maskedValuesH h f o.filter with
      | .error e => (h, .error e)
      | .ok hv =>
        match axisLabels f.mesh.region m with
        | .error e => (hv.1, .error e)
        | .ok lab =>
          (hv.1, .ok [.contour (pointsAx f.mesh 0 m) (pointsAx f.mesh 1 m)
                        (imgOfBuf f.mesh.n (hv.1.buf hv.2)), lab])

/-! ## vector -/

/-- `np.transpose(values[..., c])`: a view of the buffer `b`, or zeros -/
def arrowOfBuf (n : List Nat) (b : ABuf) : Option Nat → NDA (Option Rat)
  | some c => (⟨n, fun i => b (i.take 2 ++ [c])⟩ : NDA (Option Rat)).transpose [1, 0]
  | none => (⟨n, fun _ => some 0⟩ : NDA (Option Rat)).transpose [1, 0]

/-- `field.mpl.vector(...)` on the heap: `values = field.array.copy()`, `_filter_values` with a
fresh `_valid_as_field`, arrow components as views of `values`; the colour argument is computed
from the (unchanged) fields -/
def vectorH (h : AHeap) (f : HFld) (o : HOpts) : AHeap × M (List PlotCall) :=
  if f.mesh.region.ndim ≠ 2 then (h, .error .runtime)
  else if o.vdimsArg.isNone && f.vmap.isEmpty then (h, .error .value)
  else
    match setupMultiplier (f.abs h) o.mult with
    | .error e => (h, .error e)
    | .ok m =>
      match filterValuesH (validAsFieldH (h.alloc (h.buf f.arr)).1 f).1 f
          (validAsFieldH (h.alloc (h.buf f.arr)).1 f).2 h.length with
      | .error e => (h, .error e)
      | .ok h' =>
        match vectorVdims (f.abs h') (o.abs h') with
        | .error e => (h', .error e)
        | .ok vd =>
          match arrowIdx (f.abs h') (vd.getD 0 none) with
          | .error e => (h', .error e)
          | .ok ax =>
            match arrowIdx (f.abs h') (vd.getD 1 none) with
            | .error e => (h', .error e)
            | .ok ay =>
              if ax.isNone && ay.isNone then (h', .error .value)
              else
                match colourOf (f.abs h') (o.abs h') vd with
                | .error e => (h', .error e)
                | .ok c =>
                  match axisLabels f.mesh.region m with
                  | .error e => (h', .error e)
                  | .ok lab =>
                    (h', .ok [.quiver (pointsAx f.mesh 0 m) (pointsAx f.mesh 1 m)
                                (arrowOfBuf f.mesh.n (h'.buf h.length) ax)
                                (arrowOfBuf f.mesh.n (h'.buf h.length) ay) c, lab])

/-! ## lightness

The final stage of `lightness` (the code path of a one-component hue field, reached by the 2- and
3-component branches through `inplane_angle(...).mpl.lightness(...)`): besides `values`, the
LIGHTNESS array is normalised IN PLACE by `normalise_to_range` — on `lightness =
lightness_field.array.reshape(n).copy()`, a fresh buffer — and the NaN writes of `_filter_values`
land in the fresh `rgb` array.  The numbers of `rgb` are the trusted colour conversion; the
buffer `rgb` of the model holds `0` where a colour is and NaN where `_filter_values` wrote. -/

/-- `arr = f(arr)` elementwise, in place, on the buffer at address `a` -/
def AHeap.mapAt (h : AHeap) (a : Nat) (fn : Rat → Rat) : AHeap :=
  setAt h a (fun i => (h.buf a i).map fn)

/-- a derived one-component field on the mesh of `f` (`field.norm`, `getattr(field, label)`): a new
field with fresh arrays -/
def derivedH (h : AHeap) (f : HFld) (vals : List Nat → Rat) : AHeap × HFld :=
  (((h.alloc fun i => some (vals i.dropLast)).1.alloc
      fun i => some (if f.validAt h (i.take 2) then 1 else 0)).1,
   { mesh := f.mesh, nvdim := 1, arr := h.length, val := h.length + 1, vdims := none, vmap := [],
     unit := none })

/-- the lightness field in force: the given one (checked), or a fresh `field.norm` -/
def lightFieldH (h : AHeap) (f : HFld) (lf : Option HFld) (dflt : List Nat → Rat) : M (AHeap × HFld) :=
  match lf with
  | none => .ok (derivedH h f dflt)
  | some g =>
    if g.nvdim ≠ 1 then .error .value
    else if g.mesh.region.ndim ≠ 2 then .error .value
    else .ok (h, g)

/-- `values = …copy().reshape(n)`, optional `resample`, `lightness = ….reshape(n).copy()`, the
in-place normalisation of `lightness`, the fresh `rgb`, `_filter_values(filter_field, rgb)`.
Returns the heap and the addresses of `lightness` and `rgb`. -/
def lightArraysH (h : AHeap) (f lf flt : HFld) (clim : Rat × Rat) : M (AHeap × Nat × Nat) :=
  match filterArrH (h.alloc fun i => h.buf f.arr (i.take 2 ++ [0])).1 f lf with
  | .error e => .error e
  | .ok hp =>
    match filterValuesH
        (((hp.1.alloc fun i => hp.1.buf hp.2 (i.take 2 ++ [0])).1.mapAt hp.1.length
            (normalise (ndaMin ⟨f.mesh.n, fun i => (hp.1.buf hp.2 (i ++ [0])).getD 0⟩)
              (ndaMax ⟨f.mesh.n, fun i => (hp.1.buf hp.2 (i ++ [0])).getD 0⟩) clim)).alloc fun _ => some 0).1
        f flt (hp.1.length + 1) with
    | .error e => .error e
    | .ok h' => .ok (h', hp.1.length, hp.1.length + 1)

/-- the final stage of `lightness` on the heap -/
def lightCoreH (h : AHeap) (f : HFld) (o : HOpts) (clim : Option (Rat × Rat)) (hue : List Nat → Hue)
    (dflt : List Nat → Rat) : AHeap × M (List PlotCall) :=
  match setupMultiplier (f.abs h) o.mult with
  | .error e => (h, .error e)
  | .ok m =>
    match extent f.mesh.region m with
    | .error e => (h, .error e)
    | .ok ext =>
      match lightFieldH (filterFieldH h f o.filter).1 f o.aux dflt with
      | .error e => (h, .error e)
      | .ok hl =>
        match lightArraysH hl.1 f hl.2 (filterFieldH h f o.filter).2 (clim.getD (0, 1)) with
        | .error e => (h, .error e)
        | .ok hr =>
          match axisLabels f.mesh.region m with
          | .error e => (hr.1, .error e)
          | .ok lab =>
            (hr.1, .ok [.imshowHL
              ((⟨f.mesh.n, fun i =>
                  if (hr.1.buf hr.2.2 (i ++ [0])).isNone then none
                  else some (hue i, (hr.1.buf hr.2.1 i).getD 0)⟩ : NDA (Option (Hue × Rat))).transpose [1, 0])
              "lower" ext, lab])

/-- `field.mpl.lightness(...)` on the heap.  The 2- and 3-component branches build new fields
(`field.norm`, `getattr(field, label)`, `inplane_angle`: fresh arrays) and end in the final stage
with the caller's `filter_field` / `lightness_field` OBJECTS handed through unchanged. -/
def lightnessH (sqrtF : Rat → Rat) (h : AHeap) (f : HFld) (o : HOpts) (clim : Option (Rat × Rat)) :
    AHeap × M (List PlotCall) :=
  if f.mesh.region.ndim ≠ 2 then (h, .error .runtime)
  else if f.nvdim = 2 then
    match angleComps (f.abs h) with
    | .error e => (h, .error e)
    | .ok xy =>
      lightCoreH h f o clim
        (fun i => .angle (((f.abs h).data.get i).getD xy.2 0) (((f.abs h).data.get i).getD xy.1 0))
        (fun i => sqrtF (normSq ((f.abs h).data.get i)))
  else if f.nvdim = 3 then
    match o.aux with
    | some _ =>
      match angleComps (f.abs h) with
      | .error e => (h, .error e)
      | .ok xy =>
        lightCoreH h f o clim
          (fun i => .angle (((f.abs h).data.get i).getD xy.2 0) (((f.abs h).data.get i).getD xy.1 0))
          (fun _ => 0)
    | none =>
      if f.vmap.isEmpty then (h, .error .value)
      else
        match thirdComp (f.abs h) (inplaneVdims (f.abs h)) o.pick with
        | .error e => (h, .error e)
        | .ok c =>
          match angleComps (f.abs h) with
          | .error e => (h, .error e)
          | .ok xy =>
            lightCoreH h f o clim
              (fun i => .angle (((f.abs h).data.get i).getD xy.2 0) (((f.abs h).data.get i).getD xy.1 0))
              (fun i => ((f.abs h).data.get i).getD c 0)
  else if f.nvdim > 3 then (h, .error .runtime)
  else
    lightCoreH h f o clim (fun i => .val (((f.abs h).data.get i).getD 0 0))
      (fun i => absR (((f.abs h).data.get i).getD 0 0))

/-! ## default plot `field.mpl()`

`scalar_kw.setdefault("filter_field", self.field._valid_as_field)` builds the default filter (a
fresh field) in `__call__`; for three components `getattr(self.field, label)` builds the scalar
field (fresh arrays); then `scalar(...)` and `vector(...)` run one after the other on the same
heap. -/

/-- `getattr(field, label)`: a new one-component field with fresh arrays, same mesh and validity -/
def compFieldH (h : AHeap) (f : HFld) (c : Nat) : AHeap × HFld :=
  derivedH h f fun i => ((f.abs h).data.get i).getD c 0

/-- `field.mpl(multiplier=…, scalar_kw={filter_field}, vector_kw={…})` on the heap -/
def defaultH (h : AHeap) (f : HFld) (o : HOpts) : AHeap × M (List PlotCall) :=
  if f.mesh.region.ndim ≠ 2 then (h, .error .runtime)
  else
    match setupMultiplier (f.abs h) o.mult with
    | .error e => (h, .error e)
    | .ok m =>
      if f.nvdim = 1 then
        match (scalarH (filterFieldH h f o.filter).1 f
            { o with mult := some m, filter := some (filterFieldH h f o.filter).2 }).2 with
        | .error e => ((scalarH (filterFieldH h f o.filter).1 f
            { o with mult := some m, filter := some (filterFieldH h f o.filter).2 }).1, .error e)
        | .ok cs =>
          match axisLabels f.mesh.region m with
          | .error e => ((scalarH (filterFieldH h f o.filter).1 f
              { o with mult := some m, filter := some (filterFieldH h f o.filter).2 }).1, .error e)
          | .ok lab => ((scalarH (filterFieldH h f o.filter).1 f
              { o with mult := some m, filter := some (filterFieldH h f o.filter).2 }).1, .ok (cs ++ [lab]))
      else if f.nvdim = 2 then
        match (vectorH h f { o with mult := some m }).2 with
        | .error e => ((vectorH h f { o with mult := some m }).1, .error e)
        | .ok cv =>
          match axisLabels f.mesh.region m with
          | .error e => ((vectorH h f { o with mult := some m }).1, .error e)
          | .ok lab => ((vectorH h f { o with mult := some m }).1, .ok (cv ++ [lab]))
      else if f.nvdim = 3 then
        match thirdComp (f.abs h) (inplaneVdims (f.abs h)) o.pick with
        | .error e => (h, .error e)
        | .ok c =>
          match (scalarH (filterFieldH (compFieldH h f c).1 f o.filter).1 (compFieldH h f c).2
              { o with mult := some m, filter := some (filterFieldH (compFieldH h f c).1 f o.filter).2 }).2 with
          | .error e => ((scalarH (filterFieldH (compFieldH h f c).1 f o.filter).1 (compFieldH h f c).2
              { o with mult := some m, filter := some (filterFieldH (compFieldH h f c).1 f o.filter).2 }).1,
              .error e)
          | .ok cs =>
            match (vectorH (scalarH (filterFieldH (compFieldH h f c).1 f o.filter).1 (compFieldH h f c).2
                { o with mult := some m, filter := some (filterFieldH (compFieldH h f c).1 f o.filter).2 }).1
                f { o with mult := some m }).2 with
            | .error e => ((vectorH (scalarH (filterFieldH (compFieldH h f c).1 f o.filter).1 (compFieldH h f c).2
                { o with mult := some m, filter := some (filterFieldH (compFieldH h f c).1 f o.filter).2 }).1
                f { o with mult := some m }).1, .error e)
            | .ok cv =>
              match axisLabels f.mesh.region m with
              | .error e => ((vectorH (scalarH (filterFieldH (compFieldH h f c).1 f o.filter).1 (compFieldH h f c).2
                  { o with mult := some m, filter := some (filterFieldH (compFieldH h f c).1 f o.filter).2 }).1
                  f { o with mult := some m }).1, .error e)
              | .ok lab => ((vectorH (scalarH (filterFieldH (compFieldH h f c).1 f o.filter).1 (compFieldH h f c).2
                  { o with mult := some m, filter := some (filterFieldH (compFieldH h f c).1 f o.filter).2 }).1
                  f { o with mult := some m }).1, .ok (cs ++ cv ++ [lab]))
      else (h, .error .runtime)

/-! ## sessions of direct method calls

`field.mpl.scalar(...)`, `.contour(...)`, `.vector(...)`, `.lightness(...)` and `field.mpl(...)`
take plain keyword arguments; what successive calls share is the HEAP: the arrays of the fields
they are given (the same field, filter, colour or lightness field may be handed to many calls).
A session serves its requests one after the other on one heap. -/

inductive Kind where
  | scalar | contour | vector | lightness | default
  deriving DecidableEq, Repr, Inhabited

/-- one direct call: which method, on which field, with which keyword arguments -/
structure HReq where
  kind : Kind
  field : HFld
  opts : HOpts := {}
  clim : Option (Rat × Rat) := none

/-- one call on the heap -/
def callH (sqrtF : Rat → Rat) (h : AHeap) (r : HReq) : AHeap × M (List PlotCall) :=
  match r.kind with
  | .scalar => scalarH h r.field r.opts
  | .contour => contourH h r.field r.opts
  | .vector => vectorH h r.field r.opts
  | .lightness => lightnessH sqrtF h r.field r.opts r.clim
  | .default => defaultH h r.field r.opts

/-- a session of direct calls: the requests are served one after the other on the same heap -/
def runHeapSession (sqrtF : Rat → Rat) (h : AHeap) : List HReq → AHeap × List (M (List PlotCall))
  | [] => (h, [])
  | r :: rs =>
    ((runHeapSession sqrtF (callH sqrtF h r).1 rs).1,
     (callH sqrtF h r).2 :: (runHeapSession sqrtF (callH sqrtF h r).1 rs).2)

/-- specification of one call: the value model on the fields as they read on the heap `h` -/
def specH (sqrtF : Rat → Rat) (h : AHeap) (r : HReq) : M (List PlotCall) :=
  match r.kind with
  | .scalar => mplScalar (r.field.abs h) (r.opts.abs h)
  | .contour => mplContour (r.field.abs h) (r.opts.abs h)
  | .vector => mplVector (r.field.abs h) (r.opts.abs h)
  | .lightness => mplLightness sqrtF (r.field.abs h) { r.opts.abs h with clim := r.clim }
  | .default => mplDefault (r.field.abs h) (r.opts.abs h)

end DFV.C20
