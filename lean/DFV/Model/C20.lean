import DFV.Model.Field
import DFV.Model.C07
/-!
C20 model: the ARGUMENT ASSEMBLY of `discretisedfield/plotting/mpl_field.py` — what
`MplField.scalar / vector / contour / lightness / __call__` hand to matplotlib
(`imshow` image + origin + extent, `quiver` X/Y/U/V/C, `contour` X/Y/Z, axis labels) —
plus the SI prefix table and the multiplier search of `ubermagutil.units`.
Rendering is matplotlib's and is not modelled; its placement contract is stated in
`Props/C20.lean` (`PixelCovers`).

Code-shaped: same order of checks and the same intermediate quantities as the Python
(`_setup_multiplier`, `_extent` through `Region.scale` and the region constructor,
`_filter_values` with its resampling branch, `_r_dim_mapping`, `vdims.index`, the set
difference that picks the third component, `normalise_to_range`).  NaN is `none`.
Transcendental leaves: the in-plane angle is kept as the token `Hue.angle y x` (the pair
handed to `arctan2`), the hue scaling by `2π` and `colorsys.hls_to_rgb` are applied by the
harness; `sqrt` (norm of a 2-component field used as default lightness) is a parameter.
Core Lean only.
-/
namespace DFV.C20
open DFV

/-! ## SI prefixes (`ubermagutil.units.si_prefixes`, mirrored; cross-checked by the harness) -/

/-- `1000 ^ k` for an integer exponent -/
def p1000 (k : Int) : Rat :=
  if 0 ≤ k then (1000 : Rat) ^ k.toNat else 1 / (1000 : Rat) ^ (-k).toNat

/-- prefix and exponent `k` of its multiplier `1000^k`, in the order of `si_prefixes` -/
def siExps : List (String × Int) :=
  [("y", -8), ("z", -7), ("a", -6), ("f", -5), ("p", -4), ("n", -3), ("u", -2), ("m", -1),
   ("", 0), ("k", 1), ("M", 2), ("G", 3), ("T", 4), ("P", 5), ("E", 6), ("Z", 7), ("Y", 8)]

/-- `si_prefixes` : prefix ↦ multiplier -/
def siTable : List (String × Rat) := siExps.map fun p => (p.1, p1000 p.2)

/-- `rsi_prefixes[multiplier]` (`none` = `KeyError`) -/
def rsiPrefix? (m : Rat) : Option String := (siTable.find? fun p => p.2 == m).map (·.1)

/-- the decade test of `si_multiplier` -/
def inDecade (v m : Rat) : Bool := decide (1 ≤ absR v / m) && decide (absR v / m < 1000)

/-- `si_multiplier(value)`: `1` for zero, else the first multiplier of the reversed table
with `1 ≤ |value| / multiplier < 1000`; `none` when there is none -/
def siMultiplier (v : Rat) : Option Rat :=
  if v = 0 then some 1 else (siTable.reverse.find? fun p => inDecade v p.2).map (·.2)

/-- `max` of a list of optional multipliers the way Python evaluates it on two or more
entries: comparing with `None` is a `TypeError` -/
def maxOpt : List (Option Rat) → M Rat
  | [] => .error .value
  | none :: _ => .error .type
  | some a :: rest =>
    match rest with
    | [] => .ok a
    | _ :: _ =>
      match maxOpt rest with
      | .error e => .error e
      | .ok b => .ok (max a b)

/-- `si_max_multiplier(values)` -/
def siMaxMultiplier (vs : List Rat) : M Rat := maxOpt (vs.map siMultiplier)

/-! ## plot calls -/

/-- hue handed to the colour conversion: a plain value (scalar field, radians) or the pair
given to `arctan2` (in-plane angle of a vector field) -/
inductive Hue where
  | val (v : Rat)
  | angle (y x : Rat)
  deriving DecidableEq, Repr, Inhabited

inductive PlotCall where
  /-- `ax.imshow(img, origin=…, extent=…)`, `none` = NaN pixel -/
  | imshow (img : NDA (Option Rat)) (origin : String) (extent : List Rat)
  /-- lightness plot: `ax.imshow(rgba, …)` with `rgba = hls_to_rgb(hue, lightness, 1), 1`
  and `none` = transparent pixel `(0,0,0,0)` -/
  | imshowHL (img : NDA (Option (Hue × Rat))) (origin : String) (extent : List Rat)
  /-- `ax.quiver(X, Y, U, V[, C], pivot="mid")` -/
  | quiver (X Y : List Rat) (U V : NDA (Option Rat)) (C : Option (NDA Rat))
  /-- `ax.contour(X, Y, Z)` -/
  | contour (X Y : List Rat) (Z : NDA (Option Rat))
  /-- `ax.set_xlabel / set_ylabel` -/
  | labels (xl yl : String)

/-- keyword arguments that influence what is handed over -/
structure Opts where
  mult : Option Rat := none
  /-- `filter_field` -/
  filter : Option Fld := none
  /-- `color_field` (vector) / `lightness_field` (lightness) -/
  aux : Option Fld := none
  /-- `vdims=` of `vector` (`none` entries are Python `None`) -/
  vdimsArg : Option (List (Option String)) := none
  useColor : Bool := true
  clim : Option (Rat × Rat) := none
  /-- which element `set.pop()` returns when more than one component is left over
  (unspecified in Python; irrelevant whenever exactly one is left) -/
  pick : Nat := 0

/-! ## helpers shared by all plot kinds -/

/-- `_setup_multiplier` -/
def setupMultiplier (f : Fld) (mult : Option Rat) : M Rat :=
  match mult with
  | some m => .ok m
  | none => siMaxMultiplier f.mesh.region.edges

/-- `_axis_labels`: `"<dim> (<prefix><unit>)"`, `KeyError` for a multiplier outside the table -/
def axisLabels (r : Region) (m : Rat) : M PlotCall :=
  match rsiPrefix? m with
  | none => .error .key
  | some pre =>
    .ok (.labels (r.dims.getD 0 "" ++ " (" ++ pre ++ r.units.getD 0 "" ++ ")")
                 (r.dims.getD 1 "" ++ " (" ++ pre ++ r.units.getD 1 "" ++ ")"))

/-- `_extent`: `region.scale(1 / multiplier, reference_point=(0, 0))` through the region
constructor, then `[pmin[0], pmax[0], pmin[1], pmax[1]]` -/
def extent (r : Region) (m : Rat) : M (List Rat) :=
  if m = 0 then .error .value
  else
    match Region.mk? (tab r.ndim fun a => 0 - (0 - r.lo a) * (1 / m))
            (tab r.ndim fun a => (0 - (0 - r.lo a) * (1 / m)) + r.edge a * (1 / m))
            (some r.dims) (some r.units) r.tol with
    | .error e => .error e
    | .ok s => .ok [s.lo 0, s.hi 0, s.lo 1, s.hi 1]

/-- `field._valid_as_field` -/
def validAsField (f : Fld) : Fld :=
  { mesh := f.mesh, nvdim := 1,
    data := ⟨f.mesh.n, fun i => [if f.valid.get i then 1 else 0]⟩,
    valid := ⟨f.mesh.n, fun _ => true⟩, vdims := none, vmap := [], unit := none }

/-- value array of an auxiliary scalar field on the cell counts of the plotted field:
taken as is when the counts agree, else `aux.resample(field.mesh.n)` -/
def auxOnMesh (f : Fld) (g : Fld) : M (NDA (List Rat)) :=
  if g.mesh.n = f.mesh.n then .ok g.data
  else
    match C07.resample g (f.mesh.n.map Int.ofNat) with
    | .error e => .error e
    | .ok h => .ok h.data

/-- `_filter_values`: which cells keep their value (`true`) and which become NaN: zero in the
filter field -> NaN, and (whatever the filter) invalid cells of the plotted field -> NaN -/
def filterKeep (f : Fld) (flt : Fld) : M (NDA Bool) :=
  if flt.nvdim ≠ 1 then .error .value
  else if flt.mesh.region.ndim ≠ 2 then .error .value
  else
    match auxOnMesh f flt with
    | .error e => .error e
    | .ok a => .ok ⟨f.mesh.n, fun i => !decide ((a.get i).getD 0 0 = 0) && f.valid.get i⟩

/-- the filter actually used by `scalar`, `contour`, `lightness` -/
def filterOf (f : Fld) (o : Opts) : Fld := o.filter.getD (validAsField f)

/-- masked array (cell order) transposed for matplotlib: entry `[r, c]` is cell `(c, r)` -/
def imgOf {α} (n : List Nat) (keep : NDA Bool) (val : List Nat → α) : NDA (Option α) :=
  (⟨n, fun i => if keep.get i then some (val i) else none⟩ : NDA (Option α)).transpose [1, 0]

/-- `mesh.cells[a] / multiplier` -/
def pointsAx (m : Mesh) (a : Nat) (mult : Rat) : List Rat := (m.cells.getD a []).map (· / mult)

/-- `Field._r_dim_mapping[dim]`: the dict comprehension keeps the LAST component label
mapped to `dim` -/
def rDimLast (f : Fld) (dim : String) : Option String :=
  (f.vmap.reverse.find? fun p => p.2 == dim).map (·.1)

/-- component labels along the two plot axes -/
def inplaneVdims (f : Fld) : List (Option String) :=
  [rDimLast f (f.mesh.region.dims.getD 0 ""), rDimLast f (f.mesh.region.dims.getD 1 "")]

/-- `set(field.vdims) - set(vdims)` in label order -/
def leftover (f : Fld) (vd : List (Option String)) : List String :=
  (f.vdims.getD []).filter fun v => !vd.contains (some v)

/-- `(set(field.vdims) - set(vdims)).pop()` followed by `field.vdims.index` -/
def thirdComp (f : Fld) (vd : List (Option String)) (pick : Nat) : M Nat :=
  match (leftover f vd)[pick % (leftover f vd).length]? with
  | none => .error .key
  | some l =>
    match f.vdimIndex l with
    | none => .error .value
    | some c => .ok c

/-- `field.vdims.index(label) if label else None` -/
def arrowIdx (f : Fld) (l : Option String) : M (Option Nat) :=
  match l with
  | none => .ok none
  | some s =>
    if s = "" then .ok none
    else
      match f.vdims with
      | none => .error .type
      | some vs =>
        match indexOf? vs s with
        | none => .error .value
        | some c => .ok (some c)

/-! ## scalar -/

def scalarCore (f : Fld) (o : Opts) (m : Rat) : M (List PlotCall) :=
  match extent f.mesh.region m with
  | .error e => .error e
  | .ok ext =>
    match filterKeep f (filterOf f o) with
    | .error e => .error e
    | .ok keep =>
      match axisLabels f.mesh.region m with
      | .error e => .error e
      | .ok lab =>
        .ok [.imshow (imgOf f.mesh.n keep fun i => (f.data.get i).getD 0 0) "lower" ext, lab]

/-- `field.mpl.scalar(multiplier=…, filter_field=…)` -/
def mplScalar (f : Fld) (o : Opts) : M (List PlotCall) :=
  if f.mesh.region.ndim ≠ 2 then .error .runtime
  else if f.nvdim > 1 then .error .runtime
  else
    match setupMultiplier f o.mult with
    | .error e => .error e
    | .ok m => scalarCore f o m

/-! ## contour -/

/-- `field.mpl.contour(multiplier=…, filter_field=…)` -/
def mplContour (f : Fld) (o : Opts) : M (List PlotCall) :=
  if f.mesh.region.ndim ≠ 2 then .error .runtime
  else if f.nvdim ≠ 1 then .error .runtime
  else
    match setupMultiplier f o.mult with
    | .error e => .error e
    | .ok m =>
      match filterKeep f (filterOf f o) with
      | .error e => .error e
      | .ok keep =>
        match axisLabels f.mesh.region m with
        | .error e => .error e
        | .ok lab =>
          .ok [.contour (pointsAx f.mesh 0 m) (pointsAx f.mesh 1 m)
                 (imgOf f.mesh.n keep fun i => (f.data.get i).getD 0 0), lab]

/-! ## vector -/

/-- one arrow component array: the NaN-filtered component, or zeros for `None` -/
def arrowArr (f : Fld) (keep : NDA Bool) : Option Nat → NDA (Option Rat)
  | some c => imgOf f.mesh.n keep fun i => (f.data.get i).getD c 0
  | none => imgOf f.mesh.n ⟨f.mesh.n, fun _ => true⟩ fun _ => 0

/-- array handed as `C`: `color_field.array.reshape(n).transpose()` -/
def colourArr (n : List Nat) (a : NDA (List Rat)) : NDA Rat :=
  (⟨n, fun i => (a.get i).getD 0 0⟩ : NDA Rat).transpose [1, 0]

/-- the colour argument of `quiver` -/
def colourOf (f : Fld) (o : Opts) (vd : List (Option String)) : M (Option (NDA Rat)) :=
  if !o.useColor then .ok none
  else
    match o.aux with
    | some g =>
      if g.nvdim ≠ 1 then .error .value
      else if g.mesh.region.ndim ≠ 2 then .error .value
      else
        match auxOnMesh f g with
        | .error e => .error e
        | .ok a => .ok (some (colourArr f.mesh.n a))
    | none =>
      if f.nvdim ≠ 3 then .ok none
      else
        match thirdComp f vd o.pick with
        | .error e => .error e
        | .ok c => .ok (some (colourArr f.mesh.n ⟨f.mesh.n, fun i => [(f.data.get i).getD c 0]⟩))

/-- the two labels used for the arrows -/
def vectorVdims (f : Fld) (o : Opts) : M (List (Option String)) :=
  match o.vdimsArg with
  | none => .ok (inplaneVdims f)
  | some l => if l.length ≠ 2 then .error .value else .ok l

def vectorCore (f : Fld) (o : Opts) (m : Rat) : M (List PlotCall) :=
  match filterKeep f (validAsField f) with
  | .error e => .error e
  | .ok keep =>
    match vectorVdims f o with
    | .error e => .error e
    | .ok vd =>
      match arrowIdx f (vd.getD 0 none) with
      | .error e => .error e
      | .ok ax =>
        match arrowIdx f (vd.getD 1 none) with
        | .error e => .error e
        | .ok ay =>
          if ax.isNone && ay.isNone then .error .value
          else
            match colourOf f o vd with
            | .error e => .error e
            | .ok c =>
              match axisLabels f.mesh.region m with
              | .error e => .error e
              | .ok lab =>
                .ok [.quiver (pointsAx f.mesh 0 m) (pointsAx f.mesh 1 m)
                       (arrowArr f keep ax) (arrowArr f keep ay) c, lab]

/-- `field.mpl.vector(multiplier=…, vdims=…, use_color=…, color_field=…)` -/
def mplVector (f : Fld) (o : Opts) : M (List PlotCall) :=
  if f.mesh.region.ndim ≠ 2 then .error .runtime
  else if o.vdimsArg.isNone && f.vmap.isEmpty then .error .value
  else
    match setupMultiplier f o.mult with
    | .error e => .error e
    | .ok m => vectorCore f o m

/-! ## default plot `field.mpl()` -/

/-- scalar component field `getattr(field, label)` (validity and mesh kept) -/
def compField (f : Fld) (c : Nat) : Fld :=
  { f with nvdim := 1, data := ⟨f.mesh.n, fun i => [(f.data.get i).getD c 0]⟩, vdims := none,
           vmap := [] }

/-- `field.mpl(multiplier=…, scalar_kw={filter_field}, vector_kw={…})`: scalar plot of the
out-of-plane component (3 components) or of the field (1), vector plot (2, 3), labels.
`vector_kw` defaults: `use_color=False`. -/
def mplDefault (f : Fld) (o : Opts) : M (List PlotCall) :=
  if f.mesh.region.ndim ≠ 2 then .error .runtime
  else
    match setupMultiplier f o.mult with
    | .error e => .error e
    | .ok m =>
      if f.nvdim = 1 then
        match mplScalar f { o with mult := some m, filter := some (filterOf f o) } with
        | .error e => .error e
        | .ok cs =>
          match axisLabels f.mesh.region m with
          | .error e => .error e
          | .ok lab => .ok (cs ++ [lab])
      else if f.nvdim = 2 then
        match mplVector f { o with mult := some m } with
        | .error e => .error e
        | .ok cs =>
          match axisLabels f.mesh.region m with
          | .error e => .error e
          | .ok lab => .ok (cs ++ [lab])
      else if f.nvdim = 3 then
        match thirdComp f (inplaneVdims f) o.pick with
        | .error e => .error e
        | .ok c =>
          match mplScalar (compField f c) { o with mult := some m, filter := some (filterOf f o) } with
          | .error e => .error e
          | .ok cs =>
            match mplVector f { o with mult := some m } with
            | .error e => .error e
            | .ok cv =>
              match axisLabels f.mesh.region m with
              | .error e => .error e
              | .ok lab => .ok (cs ++ cv ++ [lab])
      else .error .runtime

/-! ## lightness -/

/-- `normalise_to_range(values, to_range, from_range=None, int_round=False)` at one entry,
given the minimum and maximum of the whole array -/
def normalise (lo hi : Rat) (r : Rat × Rat) (v : Rat) : Rat :=
  (if hi - lo = 0 then v - lo else (v - lo) / (hi - lo)) * (r.2 - r.1) + r.1

/-- minimum / maximum of the cell values of an array over the whole shape -/
def ndaMin (a : NDA Rat) : Rat := listMin a.toList
def ndaMax (a : NDA Rat) : Rat := listMax a.toList

/-- lightness source of the final (scalar-hue) stage: `field.norm` or the given field on
the cell counts of the plotted field -/
def lightSrc (f : Fld) (lf : Option Fld) (dflt : NDA Rat) : M (NDA Rat) :=
  match lf with
  | none => .ok dflt
  | some g =>
    if g.nvdim ≠ 1 then .error .value
    else if g.mesh.region.ndim ≠ 2 then .error .value
    else
      match auxOnMesh f g with
      | .error e => .error e
      | .ok a => .ok ⟨f.mesh.n, fun i => (a.get i).getD 0 0⟩

/-- the final stage of `lightness` (the code path of a one-component hue field):
`hue` per cell, default lightness `dflt` (= norm of the hue field), filter, extent, image -/
def lightCore (f : Fld) (o : Opts) (hue : List Nat → Hue) (dflt : NDA Rat) (flt : Fld) :
    M (List PlotCall) :=
  match setupMultiplier f o.mult with
  | .error e => .error e
  | .ok m =>
    match extent f.mesh.region m with
    | .error e => .error e
    | .ok ext =>
      match lightSrc f o.aux dflt with
      | .error e => .error e
      | .ok l =>
        match filterKeep f flt with
        | .error e => .error e
        | .ok keep =>
          match axisLabels f.mesh.region m with
          | .error e => .error e
          | .ok lab =>
            .ok [.imshowHL (imgOf f.mesh.n keep fun i =>
                    (hue i, normalise (ndaMin ⟨f.mesh.n, l.get⟩) (ndaMax ⟨f.mesh.n, l.get⟩)
                              (o.clim.getD (0, 1)) (l.get i))) "lower" ext, lab]

/-- in-plane component indices `(x, y)` for `plot_util.inplane_angle(field, x, y)` -/
def angleComps (f : Fld) : M (Nat × Nat) :=
  match rDimLast f (f.mesh.region.dims.getD 0 ""), rDimLast f (f.mesh.region.dims.getD 1 "") with
  | some lx, some ly =>
    match f.vdimIndex lx, f.vdimIndex ly with
    | some cx, some cy => .ok (cx, cy)
    | _, _ => .error .value
  | none, none => .error .value
  | _, _ => .error .type

/-- sum of squares of the components of a cell (argument of the norm's square root) -/
def normSq (v : List Rat) : Rat := (v.map fun x => x * x).foldl (· + ·) 0

/-- `field.mpl.lightness(multiplier=…, filter_field=…, lightness_field=…, clim=…)`.
`sqrtF` stands for `sqrt` in `field.norm` (2-component default lightness). -/
def mplLightness (sqrtF : Rat → Rat) (f : Fld) (o : Opts) : M (List PlotCall) :=
  if f.mesh.region.ndim ≠ 2 then .error .runtime
  else if f.nvdim = 2 then
    match angleComps f with
    | .error e => .error e
    | .ok xy =>
      lightCore f { o with aux := some (o.aux.getD
            { validAsField f with data := ⟨f.mesh.n, fun i => [sqrtF (normSq (f.data.get i))]⟩ }) }
        (fun i => .angle ((f.data.get i).getD xy.2 0) ((f.data.get i).getD xy.1 0))
        ⟨f.mesh.n, fun _ => 0⟩ (filterOf f o)
  else if f.nvdim = 3 then
    match o.aux with
    | some _ =>
      match angleComps f with
      | .error e => .error e
      | .ok xy =>
        lightCore f o
          (fun i => .angle ((f.data.get i).getD xy.2 0) ((f.data.get i).getD xy.1 0))
          ⟨f.mesh.n, fun _ => 0⟩ (filterOf f o)
    | none =>
      if f.vmap.isEmpty then .error .value
      else
        match thirdComp f (inplaneVdims f) o.pick with
        | .error e => .error e
        | .ok c =>
          match angleComps f with
          | .error e => .error e
          | .ok xy =>
            lightCore f { o with aux := some (compField f c) }
              (fun i => .angle ((f.data.get i).getD xy.2 0) ((f.data.get i).getD xy.1 0))
              ⟨f.mesh.n, fun _ => 0⟩ (filterOf f o)
  else if f.nvdim > 3 then .error .runtime
  else
    lightCore f o (fun i => .val ((f.data.get i).getD 0 0))
      ⟨f.mesh.n, fun i => absR ((f.data.get i).getD 0 0)⟩ (filterOf f o)

/-! ## matplotlib's own precondition on `contour(X, Y, Z)`

`matplotlib.contour.QuadContourSet._check_xyz` (the documented requirement of `Axes.contour`):
`Z` is two-dimensional and at least `(2, 2)` ("Input z must be at least a (2, 2) shaped array"),
`len(X)` is the number of columns of `Z`, `len(Y)` its number of rows; otherwise `TypeError`.
The call is made before the axis labels are set. -/

/-- the precondition of `ax.contour(X, Y, Z)` -/
def contourArgsOk (X Y : List Rat) (Z : NDA (Option Rat)) : Bool :=
  decide (Z.shape.length = 2) && decide (2 ≤ Z.shape.getD 0 0) && decide (2 ≤ Z.shape.getD 1 0) &&
  decide (X.length = Z.shape.getD 1 0) && decide (Y.length = Z.shape.getD 0 0)

/-- does matplotlib accept every `contour` call of a list of calls? -/
def callsAccepted : List PlotCall → Bool
  | [] => true
  | .contour X Y Z :: rest => contourArgsOk X Y Z && callsAccepted rest
  | _ :: rest => callsAccepted rest

/-- `field.mpl.contour(...)` including matplotlib's refusal (`TypeError` out of `ax.contour`) -/
def mplContourMpl (f : Fld) (o : Opts) : M (List PlotCall) :=
  match mplContour f o with
  | .error e => .error e
  | .ok calls => if callsAccepted calls then .ok calls else .error .type

end DFV.C20
