import DFV.Model.C10
/-!
C10 model, second layer: the HDF5 file as h5py presents it to the reader — every attribute and
dataset the reader asks for may be ABSENT (`KeyError`) or of ANOTHER TYPE than the writer's, and
the file may hold any number of entries nobody asks for (`extras`); element WIDTHS of the value
array (float32 / complex64 / int32 … next to the 64-bit types); and a directory of such files
(`to_file` opens with mode `"w"`: whatever the path held is gone).

`RawFile.parse` follows the reader's accesses (`io/hdf5.py`): which names it looks up, which it
only tests for presence (`"subregions" in h5_mesh`), which it never touches; the result is the
typed store `H5File` of `Model/C10.lean`, which `h5Load` reads.
-/
namespace DFV.C10
open DFV

/-- what the reader finds under a name, as far as it can tell: nothing (`KeyError`), a value of
the type the writer emits, or a value of another type class (a number where a string or a list of
strings is expected, a string where a number or a numeric array is expected, a float where an
integer is expected) -/
inductive AV (α : Type) where
  | absent
  | other
  | ok (v : α)
  deriving DecidableEq, Repr, Inhabited

def AV.get {α : Type} : AV α → M α
  | .absent => .error .key
  | .other => .error .type
  | .ok v => .ok v

def AV.present {α : Type} : AV α → Bool
  | .absent => false
  | _ => true

/-- `group[name]` / `"name" in group` for groups and datasets -/
def optGet {α : Type} : Option α → M α
  | none => .error .key
  | some a => .ok a

/-- element width of the value array's dtype, in bits per real component (float16/32/64,
complex64/128 = 2 × 32/64, int8 … int64) -/
inductive W where
  | b8 | b16 | b32 | b64
  deriving DecidableEq, Repr, Inhabited

def W.bits : W → Nat
  | .b8 => 8 | .b16 => 16 | .b32 => 32 | .b64 => 64

/-- attributes of group `field/mesh/region` -/
structure RawRegion where
  pmin : AV NumArr
  pmax : AV NumArr
  dims : AV (List String)
  /-- looked up (all of `_h5_attrs` are) and then dropped by `Region(**kwargs)`: whatever it holds -/
  ndim : AV Nat
  units : AV (List String)
  tol : AV Num
  deriving DecidableEq, Repr, Inhabited

structure RawMesh where
  region : Option RawRegion
  n : AV (List Int)
  bc : AV String
  /-- dataset `subregion_names` -/
  names : Option (List String)
  /-- dataset `subregions`: dtype kind and rows -/
  table : Option (NK × List NumArr)
  deriving DecidableEq, Repr, Inhabited

structure RawField where
  mesh : Option RawMesh
  nvdim : AV Int
  vdims : AV VdimsAttr
  unit : AV String
  /-- dataset `array` with its element width -/
  array : Option (W × DArr)
  valid : Option VArr
  deriving DecidableEq, Repr, Inhabited

structure RawFile where
  /-- attribute `ubermag-hdf5-file-version` -/
  version : AV String
  /-- attribute `type` -/
  type : AV String
  /-- group `field` -/
  field : Option RawField
  /-- the datasets of the legacy layout (`field/mesh/region/p1`, `p2`, `field/mesh/n`, `field/dim`,
  `field/array`) if all are there, with the side-car next to the file -/
  legacy : Option (W × Legacy)
  /-- names of everything else in the file (`discretisedfield.__version__`,
  `file-creation-time-UTC`, foreign attributes, datasets, groups): never looked at -/
  extras : List String
  deriving DecidableEq, Repr, Inhabited

/-! ## The reader's accesses -/

/-- an attribute that is looked up but whose value is never used -/
def needPresent {α : Type} (a : AV α) : M Unit := if a.present then .ok () else .error .key

/-- `{attr: h5_region.attrs[attr] for attr in _h5_attrs}` in the order of `_h5_attrs` -/
def RawRegion.parse (r : RawRegion) : M H5Region :=
  r.pmin.get.bind fun pmin =>
  r.pmax.get.bind fun pmax =>
  r.dims.get.bind fun dims =>
  (needPresent r.ndim).bind fun _ =>
  r.units.get.bind fun units =>
  r.tol.get.bind fun tol =>
  .ok { pmin := pmin, pmax := pmax, dims := dims, units := units,
        ndim := (match r.ndim with | .ok k => k | _ => 0), tol := tol }

/-- `if "subregions" in h5_mesh: zip(h5_mesh["subregion_names"], h5_mesh["subregions"]) else {}` -/
def RawMesh.subsParse (m : RawMesh) : M (Option H5Subs) :=
  match m.table with
  | none => .ok none
  | some kr => (optGet m.names).bind fun names => .ok (some { names := names, kind := kr.1, rows := kr.2 })

/-- `_MeshIO_HDF5._h5_load`: the region group, then `"subregions" in h5_mesh` decides whether
`subregion_names` is looked up at all, then `n` and `bc` -/
def RawMesh.parse (m : RawMesh) : M H5Mesh :=
  (optGet m.region).bind fun rr =>
  rr.parse.bind fun region =>
  m.subsParse.bind fun subs =>
  m.n.get.bind fun n =>
  m.bc.get.bind fun bc =>
  .ok { region := region, n := n, bc := bc, subs := subs }

/-- `_h5_load_field`: `vdims`, `unit`, the mesh group, `nvdim`, `array`, `valid` -/
def RawField.parse (f : RawField) : M (W × H5Field) :=
  f.vdims.get.bind fun vdims =>
  f.unit.get.bind fun unit =>
  (optGet f.mesh).bind fun rm =>
  rm.parse.bind fun mesh =>
  f.nvdim.get.bind fun nvdim =>
  (optGet f.array).bind fun wa =>
  (optGet f.valid).bind fun valid =>
  .ok (wa.1, { mesh := mesh, nvdim := nvdim, vdims := vdims, unit := unit, array := wa.2, valid := valid })

/-- `_from_hdf5` up to the typed store: no version attribute → the legacy datasets; otherwise
`type` (looked up, compared), the version (asserted), the group `field` -/
def RawFile.parse (r : RawFile) : M (W × H5File) :=
  match r.version with
  | .absent => (optGet r.legacy).bind fun wl => .ok (wl.1, .unversioned wl.2)
  | ver =>
    r.type.get.bind fun t =>
    if t ≠ "discretisedfield.Field" then .error .value
    else ver.get.bind fun v =>
      if v ≠ "0.1" then .error .runtime
      else (optGet r.field).bind fun rf =>
        rf.parse.bind fun wh => .ok (wh.1, .versioned v t wh.2)

/-- `Field.from_file` on an HDF5 file (widths aside) -/
def rawLoad (r : RawFile) : M TFld := r.parse.bind fun wh => h5Load wh.2

/-! ## The writer, at this level -/

def H5Region.toRaw (h : H5Region) : RawRegion :=
  { pmin := .ok h.pmin, pmax := .ok h.pmax, dims := .ok h.dims, ndim := .ok h.ndim, units := .ok h.units, tol := .ok h.tol }

def H5Mesh.toRaw (h : H5Mesh) : RawMesh :=
  { region := some h.region.toRaw, n := .ok h.n, bc := .ok h.bc,
    names := h.subs.map (·.names), table := h.subs.map fun s => (s.kind, s.rows) }

def H5Field.toRaw (w : W) (h : H5Field) : RawField :=
  { mesh := some h.mesh.toRaw, nvdim := .ok h.nvdim, vdims := .ok h.vdims, unit := .ok h.unit,
    array := some (w, h.array), valid := some h.valid }

def H5File.toRaw (w : W) (extras : List String) : H5File → RawFile
  | .versioned v t fld => { version := .ok v, type := .ok t, field := some (fld.toRaw w), legacy := none, extras := extras }
  | .unversioned l => { version := .absent, type := .absent, field := none, legacy := some (w, l), extras := extras }

/-- the two attributes `_to_hdf5` writes that nobody reads -/
def writerExtras : List String := ["@discretisedfield.__version__", "@file-creation-time-UTC"]

/-- a field with the element width of its value array -/
structure WFld where
  f : TFld
  w : W
  deriving DecidableEq, Repr, Inhabited

/-- the file `Field._to_hdf5` leaves behind, as h5py shows it: the dataset `array` has the
array's dtype (`dtype=self.array.dtype`), width included -/
def rawSave (x : WFld) : RawFile := (h5Save x.f).toRaw x.w writerExtras

/-! ## Widths -/

/-- `max(val.dtype, np.float64)` in `_as_array`: integer and real data become float64; complex
data keep their width (neither of complex64 / float64 casts safely to the other, and `max`
returns its first argument) -/
def widen : DK → W → W
  | .complex, w => w
  | _, _ => .b64

/-- `Field.from_file` with the width of the array it returns: the constructor's second
`_as_array` pass always goes through `np.full(…, dtype=max(dtype, float64))` -/
def rawLoadW (r : RawFile) : M WFld :=
  r.parse.bind fun wh =>
    (h5Load wh.2).bind fun g =>
      .ok { f := g,
            w := widen (match wh.2 with
                        | .versioned _ _ fld => fld.array.buf.kind
                        | .unversioned l => l.array.buf.kind) wh.1 }

/-- binary floating-point format: precision `p` (significand bits), exponent of the least
subnormal `2^emin`, and `2^emaxp1` the first power of two beyond the finite range -/
structure FFmt where
  p : Nat
  emin : Int
  emaxp1 : Nat
  deriving DecidableEq, Repr, Inhabited

def FFmt.ofW : W → FFmt
  | .b8 => { p := 4, emin := -9, emaxp1 := 9 }           -- float8 (not a numpy dtype; never generated)
  | .b16 => { p := 11, emin := -24, emaxp1 := 16 }
  | .b32 => { p := 24, emin := -149, emaxp1 := 128 }
  | .b64 => { p := 53, emin := -1074, emaxp1 := 1024 }

/-- strip factors of two: `oddPart fuel n = (m, t)` with `n = m · 2^t`, `m` odd (for `0 < n < 2^fuel`) -/
def oddPart : Nat → Nat → Nat × Nat
  | 0, n => (n, 0)
  | fuel + 1, n => if n % 2 = 0 ∧ n ≠ 0 then ((oddPart fuel (n / 2)).1, (oddPart fuel (n / 2)).2 + 1) else (n, 0)

/-- number of factors of two of a power of two `2^d` (and `none` for any other number) -/
def log2Exact (n : Nat) : Option Nat := if 2 ^ n.log2 = n then some n.log2 else none

/-- a rational is a value of the format: `q = k · 2^e` with `|k| < 2^p`, `e ≥ emin`, `|q| < 2^emaxp1` -/
def FFmt.repQ (f : FFmt) (q : Rat) : Bool :=
  if q = 0 then true
  else match log2Exact q.den with
    | none => false
    | some d =>
      -- q = num / 2^d, num = m · 2^t with m odd: q = m · 2^(t - d)
      let mt := oddPart (q.num.natAbs.log2 + 1) q.num.natAbs
      decide (mt.1 < 2 ^ f.p) && decide (f.emin ≤ (mt.2 : Int) - (d : Int)) &&
      decide (q.num.natAbs < 2 ^ f.emaxp1 * q.den)

/-- a binary64 bit pattern is (the widening of) a value of the narrower format: finite values as
above, zeros and infinities always, a NaN iff its payload uses only the narrower format's high bits -/
def FFmt.rep (f : FFmt) : FV → Bool
  | .fin q => f.repQ q
  | .negZero => true
  | .inf _ => true
  | .nan _ payload => decide (payload % 2 ^ (53 - f.p) = 0)

/-- every entry of the buffer is a value of the dtype of width `w`: integers in the two's
complement range, real and imaginary parts values of the binary format -/
def DBuf.exactB (w : W) : DBuf → Bool
  | .ints v => v.all fun i => decide (-(2 ^ (w.bits - 1) : Int) ≤ i ∧ i < 2 ^ (w.bits - 1))
  | .floats v => v.all fun x => (FFmt.ofW w).rep x
  | .complexes v => v.all fun z => (FFmt.ofW w).rep z.1 && (FFmt.ofW w).rep z.2

def WFld.exactB (x : WFld) : Bool := x.f.data.buf.exactB x.w

/-! ## A directory of files -/

/-- `d[k]` -/
def fsGet (fs : List (String × RawFile)) (path : String) : Option RawFile :=
  (fs.find? fun p => p.1 == path).map (·.2)

/-- `field.to_file(path)`: `h5py.File(path, "w")` truncates — the new content replaces whatever
the path held (a larger file, a legacy file, a damaged one) -/
def fsWrite (fs : List (String × RawFile)) (path : String) (x : WFld) : List (String × RawFile) :=
  dictInsert fs path (rawSave x)

/-- `Field.from_file(path)` -/
def fsRead (fs : List (String × RawFile)) (path : String) : M WFld :=
  match fsGet fs path with
  | none => .error .runtime
  | some r => rawLoadW r

/-- a history of `to_file` calls -/
def fsRun (fs : List (String × RawFile)) (ws : List (String × WFld)) : List (String × RawFile) :=
  ws.foldl (fun acc w => fsWrite acc w.1 w.2) fs

/-- removing one entry from a file, by its h5py name (`@a` file attribute, `g@a` attribute of
group `g`, otherwise an object path); unknown names (extras) are removed from `extras` -/
def RawRegion.del (name : String) (r : RawRegion) : RawRegion :=
  if name = "field/mesh/region@pmin" then { r with pmin := .absent }
  else if name = "field/mesh/region@pmax" then { r with pmax := .absent }
  else if name = "field/mesh/region@dims" then { r with dims := .absent }
  else if name = "field/mesh/region@ndim" then { r with ndim := .absent }
  else if name = "field/mesh/region@units" then { r with units := .absent }
  else if name = "field/mesh/region@tolerance_factor" then { r with tol := .absent }
  else r

def RawMesh.del (name : String) (m : RawMesh) : RawMesh :=
  if name = "field/mesh/region" then { m with region := none }
  else if name = "field/mesh@n" then { m with n := .absent }
  else if name = "field/mesh@bc" then { m with bc := .absent }
  else if name = "field/mesh/subregion_names" then { m with names := none }
  else if name = "field/mesh/subregions" then { m with table := none }
  else { m with region := m.region.map (RawRegion.del name) }

def RawField.del (name : String) (f : RawField) : RawField :=
  if name = "field/mesh" then { f with mesh := none }
  else if name = "field@nvdim" then { f with nvdim := .absent }
  else if name = "field@vdims" then { f with vdims := .absent }
  else if name = "field@unit" then { f with unit := .absent }
  else if name = "field/array" then { f with array := none }
  else if name = "field/valid" then { f with valid := none }
  else { f with mesh := f.mesh.map (RawMesh.del name) }

def RawFile.del (name : String) (r : RawFile) : RawFile :=
  if name = "@ubermag-hdf5-file-version" then { r with version := .absent }
  else if name = "@type" then { r with type := .absent }
  else if name = "field" then { r with field := none }
  else { r with field := r.field.map (RawField.del name), extras := r.extras.filter (· ≠ name) }

/-! ## The names present in a file (h5py's view: `@a` file attribute, `g@a` attribute of `g`, object paths) -/

def avName {α : Type} (a : AV α) (name : String) : List String := if a.present then [name] else []
def optName {α : Type} (a : Option α) (name : String) : List String := if a.isSome then [name] else []

def RawRegion.entryNames (r : RawRegion) : List String :=
  avName r.pmin "field/mesh/region@pmin" ++ avName r.pmax "field/mesh/region@pmax" ++ avName r.dims "field/mesh/region@dims" ++
  avName r.ndim "field/mesh/region@ndim" ++ avName r.units "field/mesh/region@units" ++
  avName r.tol "field/mesh/region@tolerance_factor"

def RawMesh.entryNames (m : RawMesh) : List String :=
  (match m.region with
   | none => []
   | some r => "field/mesh/region" :: r.entryNames) ++
  avName m.n "field/mesh@n" ++ avName m.bc "field/mesh@bc" ++
  optName m.names "field/mesh/subregion_names" ++ optName m.table "field/mesh/subregions"

def RawField.entryNames (f : RawField) : List String :=
  (match f.mesh with
   | none => []
   | some m => "field/mesh" :: m.entryNames) ++
  avName f.nvdim "field@nvdim" ++ avName f.vdims "field@vdims" ++ avName f.unit "field@unit" ++
  optName f.array "field/array" ++ optName f.valid "field/valid"

def RawFile.entryNames (r : RawFile) : List String :=
  avName r.version "@ubermag-hdf5-file-version" ++ avName r.type "@type" ++
  (match r.field with
   | none => []
   | some f => "field" :: f.entryNames) ++
  (match r.legacy with
   | none => []
   | some _ => ["field", "field/array", "field/dim", "field/mesh", "field/mesh/n", "field/mesh/region",
                "field/mesh/region/p1", "field/mesh/region/p2"]) ++
  r.extras

/-- the names the reader needs in a file of the versioned layout (everything `_to_hdf5` writes
except its two stamps; the two subregion datasets are treated separately) -/
def requiredNames : List String :=
  ["@ubermag-hdf5-file-version", "@type", "field", "field@nvdim", "field@vdims", "field@unit", "field/array", "field/valid",
   "field/mesh", "field/mesh@n", "field/mesh@bc", "field/mesh/region", "field/mesh/region@pmin", "field/mesh/region@pmax",
   "field/mesh/region@dims", "field/mesh/region@ndim", "field/mesh/region@units", "field/mesh/region@tolerance_factor"]

end DFV.C10
