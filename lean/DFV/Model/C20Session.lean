import DFV.Model.C20
/-!
C20 model, second part: `MplField.__call__` with its keyword DICTIONARIES as objects, and
sessions (histories of `field.mpl(...)` calls that share dictionary objects).

`field.mpl(scalar_kw=d1, vector_kw=d2)` receives two dictionaries from the caller.  The code
works on copies (`scalar_kw = {} if scalar_kw is None else scalar_kw.copy()`), fills the
defaults into the copies with `setdefault` (`use_color`, `colorbar`, `colorbar_label`,
`filter_field = field._valid_as_field`) and passes them on with `**`.  A dictionary is a
mutable object, so whether a default written during one call can be seen by a later call is a
question about object identity.  This file models exactly that: an object store of
dictionaries (address = position), `{}` and `.copy()` allocate, `setdefault` writes in place
at an address.  Code-shaped: same order of statements as `__call__`.
Core Lean only.
-/
namespace DFV.C20
open DFV

/-- a keyword dictionary (`scalar_kw` or `vector_kw`): the keys that influence what is handed to
matplotlib, `none` = key absent -/
structure Kw where
  /-- `"filter_field"` -/
  filter : Option Fld := none
  /-- `"use_color"` -/
  useColor : Option Bool := none
  /-- `"colorbar"` -/
  colorbar : Option Bool := none
  /-- `"color_field"` -/
  colorField : Option Fld := none
  /-- `"colorbar_label"` -/
  cbLabel : Option String := none
  /-- `"vdims"` -/
  vdims : Option (List (Option String)) := none

/-- which keys are present (what the harness can observe of a caller's dictionary) -/
def Kw.keys (k : Kw) : List String :=
  (if k.filter.isSome then ["filter_field"] else []) ++
  (if k.useColor.isSome then ["use_color"] else []) ++
  (if k.colorbar.isSome then ["colorbar"] else []) ++
  (if k.colorField.isSome then ["color_field"] else []) ++
  (if k.cbLabel.isSome then ["colorbar_label"] else []) ++
  (if k.vdims.isSome then ["vdims"] else [])

/-- object store of dictionaries: the address of a dictionary is its position -/
abbrev Store := List Kw

/-- the dictionary at an address -/
def Store.read (s : Store) (a : Nat) : Kw := s.getD a {}

/-- a new dictionary object; returns the store and the new address -/
def Store.alloc (s : Store) (k : Kw) : Store × Nat := (s ++ [k], s.length)

/-- in-place update of the dictionary at an address -/
def Store.write (s : Store) (a : Nat) (k : Kw) : Store := setAt s a k

/-- `{} if kw is None else kw.copy()` -/
def kwLocal (s : Store) : Option Nat → Store × Nat
  | none => s.alloc {}
  | some a => s.alloc (s.read a)

/-- `d.setdefault("use_color", v)` on the dictionary at address `a` -/
def setdefaultUseColor (s : Store) (a : Nat) (v : Bool) : Store :=
  s.write a { s.read a with useColor := some ((s.read a).useColor.getD v) }

/-- `d.setdefault("colorbar", v)` -/
def setdefaultColorbar (s : Store) (a : Nat) (v : Bool) : Store :=
  s.write a { s.read a with colorbar := some ((s.read a).colorbar.getD v) }

/-- `d.setdefault("colorbar_label", v)` -/
def setdefaultCbLabel (s : Store) (a : Nat) (v : String) : Store :=
  s.write a { s.read a with cbLabel := some ((s.read a).cbLabel.getD v) }

/-- `d.setdefault("filter_field", v)` -/
def setdefaultFilter (s : Store) (a : Nat) (v : Fld) : Store :=
  s.write a { s.read a with filter := some ((s.read a).filter.getD v) }

/-- one request `field.mpl(multiplier=mult, scalar_kw=<dict at skw>, vector_kw=<dict at vkw>)` -/
structure Req where
  field : Fld
  mult : Option Rat := none
  skw : Option Nat := none
  vkw : Option Nat := none
  pick : Nat := 0

/-- the options `scalar(**scalar_kw)` / `vector(**vector_kw)` finally see -/
def optsOfKw (mult : Option Rat) (sk vk : Kw) (pick : Nat) : Opts :=
  { mult := mult, filter := sk.filter, aux := vk.colorField, vdimsArg := vk.vdims,
    useColor := vk.useColor.getD true, clim := none, pick := pick }

/-- the label of the component drawn by the scalar part of a 3-component field -/
def scalarLabel (f : Fld) (pick : Nat) : String :=
  match (leftover f (inplaneVdims f))[pick % (leftover f (inplaneVdims f)).length]? with
  | none => ""
  | some l => l

/-- store after the dictionary statements of `__call__`, given the addresses `sa`, `va` of the
two local dictionaries -/
def fillDefaults (s : Store) (f : Fld) (pick : Nat) (sa va : Nat) : Store :=
  setdefaultFilter
    (if f.nvdim = 3 then
      setdefaultCbLabel (setdefaultColorbar (setdefaultUseColor s va false) va false) sa
        (scalarLabel f pick ++ "-component")
     else setdefaultColorbar (setdefaultUseColor s va false) va false)
    sa (validAsField f)

/-- `field.mpl(...)` on a store of dictionary objects: new store and what is handed to matplotlib.
Order of the code: `MplField.__init__` (2-d test), multiplier, the two local dictionaries,
`setdefault`s, the branch on the number of components, `setdefault("filter_field", …)`,
`scalar(**scalar_kw)`, `vector(**vector_kw)`, labels. -/
def callMpl (s : Store) (r : Req) : Store × M (List PlotCall) :=
  if r.field.mesh.region.ndim ≠ 2 then (s, .error .runtime)
  else
    match setupMultiplier r.field r.mult with
    | .error e => (s, .error e)
    | .ok _ =>
      ((fillDefaults (kwLocal (kwLocal s r.skw).1 r.vkw).1 r.field r.pick (kwLocal s r.skw).2
          (kwLocal (kwLocal s r.skw).1 r.vkw).2),
       mplDefault r.field
         (optsOfKw r.mult
           ((fillDefaults (kwLocal (kwLocal s r.skw).1 r.vkw).1 r.field r.pick (kwLocal s r.skw).2
              (kwLocal (kwLocal s r.skw).1 r.vkw).2).read (kwLocal s r.skw).2)
           ((fillDefaults (kwLocal (kwLocal s r.skw).1 r.vkw).1 r.field r.pick (kwLocal s r.skw).2
              (kwLocal (kwLocal s r.skw).1 r.vkw).2).read (kwLocal (kwLocal s r.skw).1 r.vkw).2)
           r.pick))

/-- a session: the requests are served one after the other on the same store -/
def runSession (s : Store) : List Req → Store × List (M (List PlotCall))
  | [] => (s, [])
  | r :: rs => ((runSession (callMpl s r).1 rs).1, (callMpl s r).2 :: (runSession (callMpl s r).1 rs).2)

/-! ## specification: a call is a pure function of its own arguments -/

/-- what a call hands over according to the property: the default plot of the field with the
options read from the caller's dictionaries AS THEY ARE AT THE CALL (absent dictionary = no
options), `use_color` defaulting to `False` -/
def callSpec (s : Store) (r : Req) : M (List PlotCall) :=
  mplDefault r.field
    { mult := r.mult,
      filter := (r.skw.map s.read).bind (·.filter),
      aux := (r.vkw.map s.read).bind (·.colorField),
      vdimsArg := (r.vkw.map s.read).bind (·.vdims),
      useColor := ((r.vkw.map s.read).bind (·.useColor)).getD false,
      clim := none, pick := r.pick }

end DFV.C20
