import DFV.Model.C09Lex
/-!
C09 model, byte level, **text data sections**: what `_to_ovf` writes after the data line of a
`txt` file and what `_from_ovf` makes of it (`discretisedfield/io/ovf.py`).

Writer: `data = pd.DataFrame(reordered.reshape((-1, nvdim)))`, an empty string column in front
(`leading_space`), two zero columns for `extend_scalar`, then
`data.to_csv(f, sep=" ", header=False, index=False)`: every row is the empty string, a blank and the
values separated by blanks, ended by `\n`; pandas formats a float64 column with `astype(str)`, the
shortest text that reads back (`TextIO.fmt`).  For values that are *short decimals* (a terminating
decimal expansion, written in fixed notation, e.g. `1.5`, `-0.0009765625`, `121.0`) that text is
modelled here (`fmtDec`).

Reader: `pd.read_csv(f, sep=" ", header=None, dtype=np.float64, skipinitialspace=True,
nrows=nodes, comment="#")` - the tokenizer of pandas' C parser (`csvGo`: states START_FIELD /
IN_FIELD, blanks at the start of a field skipped, `#` ends the record, an empty line and a line that
starts with `#` give no record), conversion of every field to float64 with an empty field read as
NaN (`csvConv`), the float parser on a field (`TextIO.pfloat`; for plain decimals `parseDec`).
`readText` (Model/C09.lean) then takes the first `nodes` records.

Limits (documented, the harness stays inside them): `\r`, tab, `"` and `\` are ordinary characters
here; numbers are compared through `pfloat`, which is Python's own result for everything that is not
a plain decimal.
-/
namespace DFV.C09
open DFV

/-! ## Text of numbers -/

/-- how the text writer / reader move payload values between `α` and text -/
structure TextIO (α : Type) where
  fmt : α → List Char
  pfloat : List Char → Option α

/-- `fmt` / `pfloat` round-trip on the values that satisfy `P`, and the text of such a value is one
field for the tokenizer: not empty, ASCII, no blank, no `#`, no newline -/
structure TextIO.LawfulOn {α} (T : TextIO α) (P : α → Prop) : Prop where
  parse_fmt : ∀ x, P x → T.pfloat (T.fmt x) = some x
  clean : ∀ x, P x → T.fmt x ≠ [] ∧ ∀ c ∈ T.fmt x, c ≠ ' ' ∧ c ≠ '#' ∧ c ≠ '\n' ∧ c.toNat < 128

/-- `n` as exactly `k` decimal digits (leading zeros kept) -/
def padDigits : Nat → Nat → List Char
  | 0, _ => []
  | k + 1, n => padDigits k (n / 10) ++ [Nat.digitChar (n % 10)]

/-- smallest `k` (searched from `k` upwards, at most `fuel` steps) with `x·10^k` an integer -/
def decScale (x : Rat) : Nat → Nat → Nat
  | 0, k => k
  | fuel + 1, k => if (x * (10 : Rat) ^ k).den = 1 then k else decScale x fuel (k + 1)

/-- number of digits after the decimal point -/
def decK (x : Rat) : Nat := decScale x x.den 0

/-- all digits of `|x|` as one number: `|x|·10^decK` -/
def decMant (x : Rat) : Nat := (x * (10 : Rat) ^ decK x).num.natAbs

/-- `x` has a terminating decimal expansion (found by the search) -/
def ShortDec (x : Rat) : Prop := (x * (10 : Rat) ^ decK x).den = 1

instance (x : Rat) : Decidable (ShortDec x) := by unfold ShortDec; infer_instance

/-- fixed notation with at least one digit after the point: `m / 10^k` as `123.45`, `7.0` -/
def fmtU (m k : Nat) : List Char :=
  (toString (m / 10 ^ k)).toList ++ '.' :: (if k = 0 then ['0'] else padDigits k (m % 10 ^ k))

/-- `repr(float)` / `numpy.astype(str)` of a short decimal between 1e-4 and 1e16 -/
def fmtDec (x : Rat) : List Char :=
  if x < 0 then '-' :: fmtU (decMant x) (decK x) else fmtU (decMant x) (decK x)

/-- digits, optionally a point and more digits; at least one digit -/
def parseUDec (cs : List Char) : Option Rat :=
  if (cs.takeWhile (· != '.')).isEmpty && ((cs.dropWhile (· != '.')).drop 1).isEmpty then none
  else
    match digitsVal (cs.takeWhile (· != '.')) 0, digitsVal ((cs.dropWhile (· != '.')).drop 1) 0 with
    | some a, some b => some ((a : Rat) + (b : Rat) / (10 : Rat) ^ ((cs.dropWhile (· != '.')).drop 1).length)
    | _, _ => none

/-- `float(text)` on a plain decimal (`-12.5`, `3`, `.5`, `7.`); everything else is `none` here -/
def parseDec : List Char → Option Rat
  | '-' :: r => (parseUDec r).map fun q => -q
  | r => parseUDec r

/-- the text codec on short decimals -/
def decIO : TextIO Rat := ⟨fmtDec, parseDec⟩

/-! ## Writer: the rows `to_csv` writes -/

/-- one row: the empty `leading_space` entry, then the values, separated by blanks -/
def rowChars {α} (T : TextIO α) (r : List α) : List Char := ' ' :: joinSp (r.map T.fmt)

/-- the data section of a `txt` file: rows, then the footer lines, each ended by `\n` -/
def textBytes {α} (T : TextIO α) (rows : List (List α)) (footer : List String) : List Byte :=
  rows.flatMap (fun r => utf8Enc (rowChars T r) ++ [10]) ++ footer.flatMap (fun l => utf8Enc l.toList ++ [10])

/-- the bytes of a file, binary or text -/
def fileBytesT {α} (N : NumIO) (T : TextIO α) (F : OvfFile α) : List Byte :=
  match F.body with
  | .bin b => headerBytes N F ++ b
  | .text rows footer => headerBytes N F ++ textBytes T rows footer

/-- `Field._to_ovf` down to the bytes of the file, all three representations -/
def toOvfBytesT {α} (N : NumIO) (T : TextIO α) (c : Codec α) (f : OField α) (rep : String) (extend : Bool) :
    M (List Byte) :=
  match toOvf c f rep extend with
  | .error e => .error e
  | .ok F => .ok (fileBytesT N T F)

/-! ## Reader: `read_csv` on the bytes after the data line -/

/-- the lines of a byte string (without their `\n`); a last line without newline counts unless empty -/
def csvLines : List Byte → List Byte → List (List Byte)
  | [], cur => if cur.isEmpty then [] else [cur.reverse]
  | b :: bs, cur => if b = 10 then cur.reverse :: csvLines bs [] else csvLines bs (b :: cur)

/-- the tokenizer on one line: `none` = START_FIELD, `some f` = IN_FIELD with the characters so far
(newest first).  A blank at the start of a field is skipped, a blank ends a field, `#` ends the
record (with the field that is open, an empty one at the start of a field). -/
def csvGo : Option (List Char) → List Char → List (List Char)
  | none, [] => [[]]
  | some cur, [] => [cur.reverse]
  | none, c :: cs =>
    if c = ' ' then csvGo none cs else if c = '#' then [[]] else csvGo (some [c]) cs
  | some cur, c :: cs =>
    if c = ' ' then cur.reverse :: csvGo none cs else if c = '#' then [cur.reverse]
    else csvGo (some (c :: cur)) cs

/-- one line → one record; nothing for an empty line and for a line that starts with `#` -/
def csvRecord : List Char → Option (List (List Char))
  | [] => none
  | c :: cs => if c = '#' then none else some (csvGo none (c :: cs))

/-- the fields of a record as float64: an empty field is NaN; `none` when the parser refuses a field -/
def csvConvGo {α} (T : TextIO α) (nan : α) : List (List Char) → Option (List α)
  | [] => some []
  | f :: fs =>
    match (if f.isEmpty then some nan else T.pfloat f), csvConvGo T nan fs with
    | some v, some r => some (v :: r)
    | _, _ => none

/-- ... with `[]` for a record that cannot be converted (what `readText` refuses) -/
def csvConv {α} (T : TextIO α) (nan : α) (fs : List (List Char)) : List α :=
  (csvConvGo T nan fs).getD []

/-- what pandas makes of the bytes of a text data section: the records, and (for the record) the
comment lines -/
def csvBody {α} (T : TextIO α) (nan : α) (bytes : List Byte) : List (List α) × List String :=
  ((csvLines bytes []).filterMap fun l => (csvRecord (l.map Char.ofNat)).map (csvConv T nan),
   ((csvLines bytes []).filter fun l => l.head? == some 35).map latin1)

/-- `Field._from_ovf` on the bytes of a file, the text data section read by the model of `read_csv` -/
def fromOvfBytesT {α} [DecidableEq α] (N : NumIO) (T : TextIO α) (c : Codec α) (isWord : Char → Bool)
    (reserved : String → Bool) (bytes : List Byte) (side : Option (List (String × Region))) : M (OField α) :=
  fromOvfBytes N (csvBody T c.nan) c isWord reserved bytes side

end DFV.C09
