import DFV.Model.Field
/-!
C11 model (core Lean only).

(a) k-mesh geometry over `Rat`: `scipy.fft.fftfreq` / `rfftfreq`, `Mesh.fftn`, `Mesh.ifftn`
    (discretisedfield/mesh.py), following the control flow of the Python.
(b) The transforms of `Field.fftn / ifftn / rfftn / irfftn` (discretisedfield/field.py) over an
    arbitrary type `R` carrying `0 1 + *`: `scipy.fft.fftn` & co. are modelled by their
    documented contract (the n-dimensional DFT as a nested sum with a root-of-unity parameter
    per axis), `fftshift / ifftshift` as index rotations, `_fftn` (labels, mapping, constructor
    checks) as code.  The hypotheses on the roots (ω^n = 1, orthogonality, …) are NOT part of
    the model; they are explicit hypotheses of the theorems (`DFV/Lemmas/C11Ring.lean`).
    The driver instantiates `R` with formal rational combinations of root-of-unity monomials
    (`Poly`, end of this file).
-/
namespace DFV.C11
open DFV

/-! ## (a) frequencies and k-mesh geometry -/

/-- entry `j` of `fftfreq(n, d)`: `[0, 1, …, N-1, -(n//2), …, -1] * (1/(n·d))`, `N = (n-1)//2 + 1` -/
def fftfreqAt (n : Nat) (d : Rat) (j : Nat) : Rat :=
  if j < (n - 1) / 2 + 1 then (j : Rat) * (1 / ((n : Rat) * d))
  else ((j : Rat) - (n : Rat)) * (1 / ((n : Rat) * d))

/-- `scipy.fft.fftfreq(n, d)` -/
def fftfreq (n : Nat) (d : Rat) : List Rat := tab n (fftfreqAt n d)

/-- `scipy.fft.rfftfreq(n, d)`: `[0, 1, …, n//2] * (1/(n·d))` -/
def rfftfreq (n : Nat) (d : Rat) : List Rat := tab (n / 2 + 1) fun j => (j : Rat) * (1 / ((n : Rat) * d))

/-- `np.fft.fftshift` of a 1-d list: `roll` by `n // 2` -/
def fftshiftL (xs : List Rat) : List Rat :=
  tab xs.length fun j => xs.getD ((j + (xs.length - xs.length / 2)) % xs.length) 0

/-- `abs(freqs[1] - freqs[0]) / 2` -/
def dfreq (fr : List Rat) : Rat := absR (fr.getD 1 0 - fr.getD 0 0) / 2

/-- the frequency list `Mesh.fftn` uses for axis `i` (axes with more than one cell) -/
def kFreqs (m : Mesh) (rfft : Bool) (i : Nat) : List Rat :=
  if rfft && (i == m.ndim - 1) then rfftfreq (m.nAt i) (m.cellAt i) else fftfreq (m.nAt i) (m.cellAt i)

def kP1 (m : Mesh) (rfft : Bool) (i : Nat) : Rat :=
  if m.nAt i = 1 then -(1 / 2) / m.cellAt i
  else listMin (kFreqs m rfft i) - dfreq (kFreqs m rfft i)

def kP2 (m : Mesh) (rfft : Bool) (i : Nat) : Rat :=
  if m.nAt i = 1 then (1 / 2) / m.cellAt i
  else listMax (kFreqs m rfft i) + dfreq (kFreqs m rfft i)

def kN (m : Mesh) (rfft : Bool) (i : Nat) : Nat :=
  if m.nAt i = 1 then 1 else (kFreqs m rfft i).length

def kDim (d : String) : String := "k_" ++ d
def kUnit (u : String) : String := "(" ++ u ++ ")$^{-1}$"

/-- `Mesh.fftn(rfft)`: per axis frequency list with half-spacing margins, single-cell axes
centred at 0, reciprocal names and units, `Region(...)`, `Mesh(region, n)` (no bc, no
subregions). -/
def meshFftn (m : Mesh) (rfft : Bool) : M Mesh :=
  match Region.mk? (tab m.ndim (kP1 m rfft)) (tab m.ndim (kP2 m rfft))
      (some (m.region.dims.map kDim)) (some (m.region.units.map kUnit)) m.region.tol with
  | .error e => .error e
  | .ok r => Mesh.mkN? r (tab m.ndim (kN m rfft))

/-- `s[len(p):] if s.startswith(p) else s` -/
def stripPre (p s : String) : String :=
  if p.toList.isPrefixOf s.toList then String.ofList (s.toList.drop p.toList.length) else s

/-- `u[1:-8] if u.startswith("(") and u.endswith(")$^{-1}$") else u` -/
def stripUnit (u : String) : String :=
  if "(".toList.isPrefixOf u.toList && ")$^{-1}$".toList.isSuffixOf u.toList
  then String.ofList ((u.toList.drop 1).take (u.toList.length - 1 - 8)) else u

/-- the `shape` argument handling of `Mesh.ifftn`: length, leading entries, last entry
`s // 2 + 1 = n_last`; default = `n` with the last entry `(n_last - 1)·2` for the real
transform unless `n_last = 1`. -/
def ifftShape (m : Mesh) (rfft : Bool) : Option (List Nat) → M (List Nat)
  | some s =>
    if s.length ≠ m.ndim then .error .value
    else if !allLt (m.ndim - 1) (fun a => s.getD a 0 == m.nAt a) then .error .value
    else if s.getD (m.ndim - 1) 0 / 2 + 1 ≠ m.nAt (m.ndim - 1) then .error .value
    else .ok s
  | none =>
    .ok (if rfft && (m.nAt (m.ndim - 1) != 1) then setAt m.n (m.ndim - 1) ((m.nAt (m.ndim - 1) - 1) * 2)
         else m.n)

def rP1 (m : Mesh) (s : List Nat) (i : Nat) : Rat :=
  if s.getD i 0 = 1 then 0
  else listMin (fftfreq (s.getD i 0) (m.cellAt i)) - dfreq (fftfreq (s.getD i 0) (m.cellAt i))

def rP2 (m : Mesh) (s : List Nat) (i : Nat) : Rat :=
  if s.getD i 0 = 1 then 1 / m.cellAt i
  else listMax (fftfreq (s.getD i 0) (m.cellAt i)) + dfreq (fftfreq (s.getD i 0) (m.cellAt i))

def rN (s : List Nat) (i : Nat) : Nat :=
  if s.getD i 0 = 1 then 1 else (fftfreq (s.getD i 0) 1).length

/-- in-place translation by `-center` -/
def recentre (m : Mesh) : Mesh :=
  { m with region := { m.region with
      pmin := tab m.ndim fun a => m.region.lo a + -((m.region.lo a + m.region.hi a) / 2),
      pmax := tab m.ndim fun a => m.region.hi a + -((m.region.lo a + m.region.hi a) / 2) } }

/-- `Mesh.ifftn(rfft, shape)` -/
def meshIfftn (m : Mesh) (rfft : Bool) (shape : Option (List Nat)) : M Mesh :=
  match ifftShape m rfft shape with
  | .error e => .error e
  | .ok s =>
    if s.any (· = 0) then .error .value   -- fftfreq(0, ·) raises
    else
      match Region.mk? (tab m.ndim (rP1 m s)) (tab m.ndim (rP2 m s))
          (some (m.region.dims.map (stripPre "k_"))) (some (m.region.units.map stripUnit)) m.region.tol with
      | .error e => .error e
      | .ok r =>
        match Mesh.mkN? r (tab m.ndim (rN s)) with
        | .error e => .error e
        | .ok k => .ok (recentre k)

/-! ## (b) the transforms -/

section ring
variable {R : Type} [Zero R] [One R] [Add R] [Mul R]

/-- `f 0 + f 1 + … + f (n-1)` -/
def sumN : Nat → (Nat → R) → R
  | 0, _ => 0
  | n + 1, f => sumN n f + f n

/-- `x^k` -/
def powN (x : R) : Nat → R
  | 0 => 1
  | k + 1 => powN x k * x

/-- per-axis parameters: `w` stands for `exp(-2πi/n)`, `wi` for its inverse, `ninv` for `1/n` -/
structure Root (R : Type) where
  w : R
  wi : R
  ninv : R

/-- the twiddle factor `w^(m·r)`, exponent reduced mod `n` -/
def tw (w : R) (n m r : Nat) : R := powN w ((m * r) % n)

/-- contract of `scipy.fft.fftn` over all axes: `A[m] = Σ_r a[r] · Π_a w_a^(m_a·r_a)`,
as nested sums, first axis outermost -/
def dftN : List (Root R) → List Nat → (List Nat → R) → List Nat → R
  | _, [], f, _ => f []
  | ρs, n :: ns, f, m =>
    sumN n fun r => dftN ρs.tail ns (fun rs => f (r :: rs)) m.tail * tw (ρs.headD ⟨1, 1, 1⟩).w n (m.headD 0) r

/-- contract of `scipy.fft.ifftn`: `a[j] = Π(1/n_a) Σ_k A[k] · Π_a w_a^(-j_a·k_a)`; the axes
are inverted one after the other, first axis first -/
def idftN : List (Root R) → List Nat → (List Nat → R) → List Nat → R
  | _, [], F, _ => F []
  | ρs, n :: ns, F, j =>
    idftN ρs.tail ns
      (fun ms => (ρs.headD ⟨1, 1, 1⟩).ninv *
        sumN n fun k => F (k :: ms) * tw (ρs.headD ⟨1, 1, 1⟩).wi n (j.headD 0) k) j.tail

/-- `fftshift` over all axes as a map on indices: entry `j` of the shifted array is entry
`fshift shape j` of the unshifted one (`roll` by `n // 2`) -/
def fshift : List Nat → List Nat → List Nat
  | n :: ns, j :: js => ((j + (n - n / 2)) % n) :: fshift ns js
  | _, _ => []

/-- `ifftshift` over all axes (`roll` by `-(n // 2)`) -/
def ishift : List Nat → List Nat → List Nat
  | n :: ns, j :: js => ((j + n / 2) % n) :: ishift ns js
  | _, _ => []

/-- `fftshift(…, axes=axes[:-1])`: every axis but the last (pointwise) -/
def fshiftR (ns m : List Nat) : List Nat :=
  tab m.length fun a =>
    if a + 1 = m.length then m.getD a 0
    else (m.getD a 0 + (ns.getD a 0 - ns.getD a 0 / 2)) % ns.getD a 0

/-- `ifftshift(…, axes=axes[:-1])` -/
def ishiftR (ns m : List Nat) : List Nat :=
  tab m.length fun a =>
    if a + 1 = m.length then m.getD a 0 else (m.getD a 0 + ns.getD a 0 / 2) % ns.getD a 0

/-- shape of the half spectrum: last entry `n // 2 + 1` -/
def halfShape (ns : List Nat) : List Nat :=
  tab ns.length fun a => if a + 1 = ns.length then ns.getD a 0 / 2 + 1 else ns.getD a 0

/-- index negation mod shape: `(-m) mod n` per axis -/
def negIdx : List Nat → List Nat → List Nat
  | n :: ns, j :: js => ((n - j % n) % n) :: negIdx ns js
  | _, _ => []

/-- the full spectrum a half spectrum `G` stands for (Hermitian extension along the last
axis): `F[k', k] = G[k', k]` for `k ≤ n // 2`, else `conj G[-k', n - k]` -/
def hermExt (conj : R → R) (shape : List Nat) (G : List Nat → R) (k : List Nat) : R :=
  if k.getLastD 0 ≤ shape.getLastD 0 / 2 then G k else conj (G (negIdx shape k))

/-- the cell of the opposite frequency in the coordinates of the half-spectrum ARRAY (leading
axes shifted, last axis not): un-shift, negate mod the output counts `s`, shift back -/
def mirrorR (s m : List Nat) : List Nat := ishiftR s (negIdx s (fshiftR s m))

/-- What pocketfft's `irfftn` (c2r) makes of a half spectrum that is NOT Hermitian-consistent:
after the leading axes are inverted it ignores the imaginary part of the entries with last
index 0 and (even output count) `n/2` — equivalently, the two last-axis planes that are their
own mirror image are replaced by their Hermitian part `(A[m] + conj A[mirror m]) / 2`; every
other entry is used as it is.  `half` stands for `1/2`.  (Numpy's convention, tied to the
library by the correspondence check on arbitrary half spectra.) -/
def symPlanes (conj : R → R) (half : R) (s : List Nat) (A : List Nat → R) (m : List Nat) : R :=
  if m.getLastD 0 = 0 ∨ 2 * m.getLastD 0 = s.getLastD 0 then half * (A m + conj (A (mirrorR s m))) else A m

/-- field with values in `R` (state of a `discretisedfield.Field` with complex data; after a
transform every cell is valid, so validity is not carried) -/
structure CF (R : Type) where
  mesh : Mesh
  nvdim : Nat
  data : NDA (List R)
  vdims : Option (List String)
  vmap : List (String × String)
  unit : Option String

def dictGet (m : List (String × String)) (k : String) : Option String := Fld.lookup m k

/-- `d[k] = v` on an insertion-ordered dict -/
def dictSet : List (String × String) → String → String → List (String × String)
  | [], k, v => [(k, v)]
  | (k', v') :: rest, k, v => if k' == k then (k, v) :: rest else (k', v') :: dictSet rest k v

/-- the mapping loop of `_fftn` -/
def renameMap (vmap : List (String × String)) (fk : String → String) (fv : String → String) :
    List String → List (String × String) → List (String × String)
  | [], acc => acc
  | v :: vs, acc =>
    match dictGet vmap v with
    | some d => renameMap vmap fk fv vs (dictSet acc (fk v) (fv d))
    | none => renameMap vmap fk fv vs acc

/-- Field attribute names the generators avoid are not modelled (`hasattr(self, c)`). -/
def vdimsSetter (nvdim : Nat) : Option (List String) → M (Option (List String))
  | none => .ok (Fld.defaultVdims nvdim)
  | some vs =>
    if vs.length = 0 then .ok none
    else if vs.length ≠ nvdim then .error .value
    else if hasDup vs then .error .value
    else .ok (some vs)

/-- the `vdim_mapping` setter -/
def vmapSetter (nvdim : Nat) (dims : List String) (vdims : Option (List String)) :
    Option (List (String × String)) → M (List (String × String))
  | none =>
    if nvdim = 1 then .ok []
    else if nvdim = dims.length then .ok (List.zip (vdims.getD []) dims)
    else .ok []
  | some mp =>
    if mp.length = 1 && nvdim = 1 && vdims.isNone then .ok []
    else if mp.length > 0 && !((mp.map (·.1)).isPerm (vdims.getD [])) then .error .value
    else .ok mp

/-- `Field(mesh, nvdim, value=array, vdims, unit, vdim_mapping)` for an array value: shape
check, vdims setter, mapping setter -/
def mkCF (mesh : Mesh) (nvdim : Nat) (data : NDA (List R)) (vdims : Option (List String))
    (vmap : Option (List (String × String))) (unit : Option String) : M (CF R) :=
  if nvdim < 1 then .error .value
  else if data.shape ≠ mesh.n then .error .value
  else
    match vdimsSetter nvdim vdims with
    | .error e => .error e
    | .ok vd =>
      match vmapSetter nvdim mesh.region.dims vd vmap with
      | .error e => .error e
      | .ok mp => .ok { mesh := mesh, nvdim := nvdim, data := data, vdims := vd, vmap := mp, unit := unit }

/-- `Field._fftn(mesh, array, ifftn)` -/
def finish (f : CF R) (mesh : Mesh) (data : NDA (List R)) (inverse : Bool) : M (CF R) :=
  match f.vdims with
  | none => mkCF mesh f.nvdim data none none f.unit
  | some vs =>
    if inverse then
      mkCF mesh f.nvdim data (some (vs.map (stripPre "ft_")))
        (some (renameMap f.vmap (stripPre "ft_") (stripPre "k_") vs [])) f.unit
    else
      mkCF mesh f.nvdim data (some (vs.map ("ft_" ++ ·)))
        (some (renameMap f.vmap ("ft_" ++ ·) ("k_" ++ ·) vs [])) f.unit

/-- component `c` of an array of component lists, as a scalar index function -/
def compA (a : NDA (List R)) (c : Nat) (i : List Nat) : R := (a.get i).getD c 0

/-- `fftshift(fftn(array, axes), axes)` for an array of shape `(*n, nvdim)` -/
def fftnArr (ρs : List (Root R)) (nvdim : Nat) (a : NDA (List R)) : NDA (List R) :=
  ⟨a.shape, fun m => tab nvdim fun c => dftN ρs a.shape (compA a c) (fshift a.shape m)⟩

/-- `ifftn(ifftshift(array, axes), axes)` -/
def ifftnArr (ρs : List (Root R)) (nvdim : Nat) (a : NDA (List R)) : NDA (List R) :=
  ⟨a.shape, fun j => tab nvdim fun c => idftN ρs a.shape (fun m => compA a c (ishift a.shape m)) j⟩

/-- `fftshift(rfftn(array, axes), axes[:-1])`; the contract of `rfftn` is the DFT restricted
to the half shape -/
def rfftnArr (ρs : List (Root R)) (nvdim : Nat) (a : NDA (List R)) : NDA (List R) :=
  ⟨halfShape a.shape, fun m => tab nvdim fun c => dftN ρs a.shape (compA a c) (fshiftR a.shape m)⟩

/-- `irfftn(ifftshift(array, axes[:-1]), axes, s)`.  Contract of `irfftn` with output shape
`s`: the inverse DFT of the Hermitian extension of the half spectrum. -/
def irfftnArr (conj : R → R) (ρs : List (Root R)) (nvdim : Nat) (s : List Nat) (a : NDA (List R)) :
    NDA (List R) :=
  ⟨s, fun j => tab nvdim fun c =>
    idftN ρs s (hermExt conj s fun m => compA a c (ishiftR a.shape m)) j⟩

/-- the half-spectrum array with its self-mirror planes replaced by their Hermitian part -/
def symArr (conj : R → R) (half : R) (nvdim : Nat) (s : List Nat) (a : NDA (List R)) : NDA (List R) :=
  ⟨a.shape, fun m => tab nvdim fun c => symPlanes conj half s (compA a c) m⟩

/-- `irfftn(ifftshift(array, axes[:-1]), axes, s)` on ANY half spectrum, as pocketfft computes
it: the inverse DFT of the Hermitian extension of the half spectrum whose self-mirror planes
were replaced by their Hermitian part (`symPlanes`).  On Hermitian-consistent half spectra this
is `irfftnArr` (`Lemmas/C11Irf.lean`). -/
def irfftnArrNP (conj : R → R) (half : R) (ρs : List (Root R)) (nvdim : Nat) (s : List Nat)
    (a : NDA (List R)) : NDA (List R) :=
  irfftnArr conj ρs nvdim s (symArr conj half nvdim s a)

/-- `Field.fftn` on `mesh.fftn()` -/
def fftn (ρs : List (Root R)) (f : CF R) : M (CF R) :=
  match meshFftn f.mesh false with
  | .error e => .error e
  | .ok k => finish f k (fftnArr ρs f.nvdim f.data) false

/-- `Field.ifftn` on `mesh.ifftn()` -/
def ifftn (ρs : List (Root R)) (f : CF R) : M (CF R) :=
  match meshIfftn f.mesh false none with
  | .error e => .error e
  | .ok k => finish f k (ifftnArr ρs f.nvdim f.data) true

/-- `Field.rfftn` on `mesh.fftn(rfft=True)` -/
def rfftn (ρs : List (Root R)) (f : CF R) : M (CF R) :=
  match meshFftn f.mesh true with
  | .error e => .error e
  | .ok k => finish f k (rfftnArr ρs f.nvdim f.data) false

/-- `Field.irfftn(shape)` on `mesh.ifftn(rfft=True, shape)` -/
def irfftn (conj : R → R) (ρs : List (Root R)) (f : CF R) (shape : Option (List Nat)) : M (CF R) :=
  match meshIfftn f.mesh true shape with
  | .error e => .error e
  | .ok k => finish f k (irfftnArr conj ρs f.nvdim k.n f.data) true

/-- `Field.irfftn(shape)` on an arbitrary (not necessarily Hermitian-consistent) half spectrum:
what the library computes (`irfftnArrNP`) -/
def irfftnNP (conj : R → R) (half : R) (ρs : List (Root R)) (f : CF R) (shape : Option (List Nat)) : M (CF R) :=
  match meshIfftn f.mesh true shape with
  | .error e => .error e
  | .ok k => finish f k (irfftnArrNP conj half ρs f.nvdim k.n f.data) true

end ring

/-! ## the driver's instance of `R`: formal combinations of root-of-unity monomials

A term `(e, re, im)` stands for `(re + i·im) · Π_a ζ_a^(e_a)`; the harness substitutes
`ζ_a ↦ exp(-2πi/n_a)` (exponents reduced mod `n_a`).  Sums are concatenations, products
add exponent vectors: no hypothesis on the `ζ_a` is used to *compute* a transform. -/

structure Poly where
  terms : List (List Nat × Rat × Rat)

def addExp : List Nat → List Nat → List Nat
  | [], ys => ys
  | xs, [] => xs
  | x :: xs, y :: ys => (x + y) :: addExp xs ys

instance : Zero Poly := ⟨⟨[]⟩⟩
instance : One Poly := ⟨⟨[([], 1, 0)]⟩⟩
instance : Add Poly := ⟨fun a b => ⟨a.terms ++ b.terms⟩⟩
instance : Mul Poly := ⟨fun a b => ⟨a.terms.flatMap fun t1 => b.terms.map fun t2 =>
  (addExp t1.1 t2.1, t1.2.1 * t2.2.1 - t1.2.2 * t2.2.2, t1.2.1 * t2.2.2 + t1.2.2 * t2.2.1)⟩⟩

namespace Poly

def const (re im : Rat) : Poly := ⟨[([], re, im)]⟩

/-- the constant `1/2` (parameter `half` of `irfftnNP`) -/
def half : Poly := const (1 / 2) 0

/-- the monomial `ζ_a^k` among `d` axes -/
def mono (a k : Nat) : Poly := ⟨[(List.replicate a 0 ++ [k], 1, 0)]⟩

/-- complex conjugation: `ζ_a ↦ ζ_a⁻¹ = ζ_a^(n_a - 1)`, `i ↦ -i` -/
def conj (ns : List Nat) (p : Poly) : Poly :=
  ⟨p.terms.map fun t => (tab ns.length (fun a => (ns.getD a 1 - t.1.getD a 0 % ns.getD a 1) % ns.getD a 1), t.2.1, -t.2.2)⟩

/-- the formal root of axis `a` with `n` samples -/
def root (a n : Nat) : Root Poly := ⟨mono a 1, mono a (n - 1), const (1 / (n : Rat)) 0⟩

def roots (ns : List Nat) : List (Root Poly) := tab ns.length fun a => root a (ns.getD a 1)

/-! ### output form: like monomials collected, exponents reduced mod the counts

This is what the driver prints and the harness evaluates: entry `k` of `dense ns p` is the
coefficient of the monomial whose exponent vector has flat index `k` (C order) in the box
`ns`.  `Lemmas/C11Poly.lean` proves that `Σ_k dense[k] · ζ^(unflat k)` is the value of `p`
whenever `ζ_a^(n_a) = 1`. -/

/-- exponent vector on `ns.length` axes, reduced mod the counts -/
def redExp (ns : List Nat) (e : List Nat) : List Nat := tab ns.length fun a => e.getD a 0 % ns.getD a 1

/-- sum of the coefficients of the terms `(flat index, re, im)` whose flat index is `k` -/
def coefAt (k : Nat) : List (Nat × Rat × Rat) → Rat × Rat
  | [] => (0, 0)
  | t :: ts => if t.1 = k then (t.2.1 + (coefAt k ts).1, t.2.2 + (coefAt k ts).2) else coefAt k ts

def denseOf (N : Nat) (ts : List (Nat × Rat × Rat)) : List (Rat × Rat) := tab N fun k => coefAt k ts

/-- dense table of Gaussian-rational coefficients, one per monomial of the box `ns` -/
def dense (ns : List Nat) (p : Poly) : List (Rat × Rat) :=
  denseOf (natProd ns) (p.terms.map fun t => (flatC ns (redExp ns t.1), t.2.1, t.2.2))

end Poly

end DFV.C11
