import DFV.Model.Field
/-!
C10 model: `discretisedfield/io/hdf5.py` (`_RegionIO_HDF5`, `_MeshIO_HDF5`, `_FieldIO_HDF5`,
legacy reader), the suffix dispatch of `io/__init__.py`, and the constructor chain the
reader runs (`Region.__init__` incl. the `pmin`/`pmax` keyword form, `Mesh.__init__` with
the `bc` and `subregions` setters, `Field.__init__` with `_as_array`, the `valid`, `vdims`
and `vdim_mapping` setters).

What HDF5 adds to the picture is *storage types*: every attribute / dataset has a dtype,
and writing a value into a dataset of another dtype casts it (float → int truncates toward
zero).  Numeric arrays therefore carry their dtype kind (`NumArr.ints` / `NumArr.floats`,
`DBuf.ints/floats/complexes`), and `cast` is the conversion numpy/h5py perform.
Field values are binary64 *bit patterns* (`FV`): a finite value is the rational it is, and the
patterns that are not numbers (−0, ±inf, NaN with sign and payload) are tokens, so "bit-identical"
is equality in the model.  `int64 → float64` on data is the C cast (`rne53`: round to nearest,
ties to even).  The time-series helpers (`_h5_save_structure` with a larger `data_shape`,
`_h5_save_data` / `_h5_load_field` with a `location`) are modelled on the flat C-order buffer
(`writeLoc`, `readLoc`).  h5py/libhdf5 byte encoding is not modelled (trusted).  Core Lean only.
-/
namespace DFV.C10
open DFV

/-! ## Except plumbing (explicit `bind`, no `do`, so that proofs can rewrite step by step) -/

def mapE {α β : Type} (f : α → M β) : List α → M (List β)
  | [] => .ok []
  | a :: as => (f a).bind fun b => (mapE f as).bind fun bs => .ok (b :: bs)

/-- Python `dict` insertion: a repeated key keeps its first position and takes the new value -/
def dictInsert {α : Type} : List (String × α) → String → α → List (String × α)
  | [], k, v => [(k, v)]
  | (k', v') :: t, k, v => if k' = k then (k, v) :: t else (k', v') :: dictInsert t k v

/-- `{k: v for k, v in pairs}` -/
def dictOf {α : Type} (ps : List (String × α)) : List (String × α) :=
  ps.foldl (fun d p => dictInsert d p.1 p.2) []

/-! ## dtype kinds and typed numeric arrays -/

/-- dtype kind of a real array (`int64` / `float64`) -/
inductive NK where
  | int | float
  deriving DecidableEq, Repr, Inhabited

/-- `np.result_type` on {int64, float64} -/
def NK.join : NK → NK → NK
  | .int, .int => .int
  | _, _ => .float

/-- `np.result_type(*kinds)`: integer iff every argument is integer -/
def joinAll (ks : List NK) : NK := if ks.all (fun k => k = NK.int) then .int else .float

/-- C cast float → integer (numpy `astype(int)`, h5py write into an integer dataset):
truncation toward zero -/
def truncR (q : Rat) : Int := if 0 ≤ q then q.floor else -((-q).floor)

/-- a numpy scalar with its dtype kind -/
inductive Num where
  | int (i : Int)
  | float (q : Rat)
  deriving DecidableEq, Repr, Inhabited

def Num.val : Num → Rat
  | .int i => (i : Rat)
  | .float q => q

def Num.kind : Num → NK
  | .int _ => .int
  | .float _ => .float

/-- 1-d numeric array with its dtype kind -/
inductive NumArr where
  | ints (v : List Int)
  | floats (v : List Rat)
  deriving DecidableEq, Repr, Inhabited

namespace NumArr

def kind : NumArr → NK
  | ints _ => .int
  | floats _ => .float

/-- the numbers held, as rationals -/
def vals : NumArr → List Rat
  | ints v => v.map fun (i : Int) => (i : Rat)
  | floats v => v

def length : NumArr → Nat
  | ints v => v.length
  | floats v => v.length

/-- `a.astype(k)` / assignment into storage of dtype `k` -/
def cast : NK → NumArr → NumArr
  | .int, ints v => ints v
  | .int, floats v => ints (v.map truncR)
  | .float, ints v => floats (v.map fun (i : Int) => (i : Rat))
  | .float, floats v => floats v

def take (k : Nat) : NumArr → NumArr
  | ints v => ints (v.take k)
  | floats v => floats (v.take k)

def drop (k : Nat) : NumArr → NumArr
  | ints v => ints (v.drop k)
  | floats v => floats (v.drop k)

/-- `np.asarray([*a, *b])`: common dtype of the two -/
def append : NumArr → NumArr → NumArr
  | ints a, ints b => ints (a ++ b)
  | a, b => floats (a.vals ++ b.vals)

/-- `np.minimum(a, b)` (equal lengths): element-wise, in the common dtype -/
def minimum : NumArr → NumArr → NumArr
  | ints a, ints b => ints (List.zipWith min a b)
  | a, b => floats (List.zipWith min a.vals b.vals)

def maximum : NumArr → NumArr → NumArr
  | ints a, ints b => ints (List.zipWith max a b)
  | a, b => floats (List.zipWith max a.vals b.vals)

end NumArr

/-! ## Region with typed corners -/

/-- state of a `Region`: the two corner arrays keep their dtype, the tolerance factor its
Python/numpy number type -/
structure TReg where
  pmin : NumArr
  pmax : NumArr
  dims : List String
  units : List String
  tol : Num
  deriving DecidableEq, Repr, Inhabited

namespace TReg

def ndim (r : TReg) : Nat := r.pmin.length

/-- the untyped region of the shared foundation (values only) -/
def toRegion (r : TReg) : Region :=
  { pmin := r.pmin.vals, pmax := r.pmax.vals, dims := r.dims, units := r.units, tol := r.tol.val }

/-- the default `tolerance_factor=1e-12`, as the binary64 number it is -/
def defaultTol : Num := .float (4951760157141521/4951760157141521099596496896)

/-- `Region.__init__(p1, p2, dims, units, tolerance_factor)`: length checks, dims / units
setters, `np.minimum` / `np.maximum`, zero-edge rejection -/
def init (p1 p2 : NumArr) (dims units : Option (List String)) (tol : Num) : M TReg :=
  if p1.length ≠ p2.length then .error .value
  else if p1.length = 0 then .error .value
  else
    match Region.dimsOk p1.length dims with
    | .error e => .error e
    | .ok d =>
      match Region.unitsOk p1.length units with
      | .error e => .error e
      | .ok u =>
        if !allLt p1.length (fun a => decide (p1.vals.getD a 0 ≠ p2.vals.getD a 0)) then .error .value
        else .ok { pmin := NumArr.minimum p1 p2, pmax := NumArr.maximum p1 p2,
                   dims := d, units := u, tol := tol }

/-- the `pmin=…, pmax=…` keyword form (region.py:84-94): every component of `pmin` must be
strictly smaller, then the ordinary constructor runs.  (Arrays of different lengths either
fail to broadcast or fail the length check of the constructor: an error in both cases.) -/
def initKw (pmin pmax : NumArr) (dims units : Option (List String)) (tol : Num) : M TReg :=
  if pmin.length ≠ pmax.length then .error .value
  else if !allLt pmin.length (fun a => decide (pmin.vals.getD a 0 < pmax.vals.getD a 0)) then .error .value
  else init pmin pmax dims units tol

end TReg

/-! ## Mesh -/

structure TMesh where
  region : TReg
  n : List Nat
  bc : String
  subs : List (String × TReg)
  deriving DecidableEq, Repr, Inhabited

/-- `np.allclose(a, b, rtol, atol)` on equally long lists -/
def allcloseL (a b : List Rat) (rtol atol : Rat) : Bool :=
  allLt a.length fun i => Region.isclose (a.getD i 0) (b.getD i 0) rtol atol

/-- `Mesh.is_aligned(other, tolerance=1e-12)`: same cell (np.allclose, default rtol 1e-5),
and both corner offsets are whole multiples of the cell up to `tolerance` -/
def isAligned (m o : Mesh) : Bool :=
  allcloseL m.cell o.cell (1/100000) (1/1000000000000) &&
  (allLt m.ndim fun a =>
    !Mesh.notDivisible (absR (m.region.lo a - o.region.lo a)) (m.cellAt a) (1/1000000000000)) &&
  (allLt m.ndim fun a =>
    !Mesh.notDivisible (absR (m.region.hi a - o.region.hi a)) (m.cellAt a) (1/1000000000000))

/-- the three tests the `subregions` setter applies to one candidate: inside the region,
an aggregate of cells (`Mesh(region=value, cell=self.cell)` does not raise), aligned -/
def subAccept (r : Region) (n : List Nat) (s : Region) : Bool :=
  r.containsReg s &&
  match Mesh.mkCell? s (Mesh.cell { region := r, n := n, bc := "", subs := [] }) with
  | .error _ => false
  | .ok sm => isAligned { region := r, n := n, bc := "", subs := [] } sm

/-- the setter stores `Region(p1=sr.pmin, p2=sr.pmax, dims=region.dims, units=region.units,
tolerance_factor=region.tolerance_factor)` -/
def rebuildSub (r : TReg) (p : String × TReg) : M (String × TReg) :=
  (TReg.init p.2.pmin p.2.pmax (some r.dims) (some r.units) r.tol).bind fun s => .ok (p.1, s)

/-- one candidate of the `subregions` setter (repo fix 5591fed0, D132): a candidate of the mesh's
dimension is first rebuilt with the mesh region's names, units and tolerance factor — what is going
to be stored — and the three tests are made on THAT copy (the candidate's own tolerance factor has
no say); a candidate of another dimension is tested as it is (and fails the containment test) -/
def candOk (r : TReg) (n : List Nat) (s : TReg) : Bool :=
  match (if s.ndim = r.ndim then TReg.init s.pmin s.pmax (some r.dims) (some r.units) r.tol else .ok s) with
  | .error _ => false
  | .ok v => subAccept r.toRegion n v.toRegion

/-- `Mesh.subregions` setter -/
def setSubs (r : TReg) (n : List Nat) (subs : List (String × TReg)) : M (List (String × TReg)) :=
  if !subs.all (fun p => candOk r n p.2) then .error .value
  else mapE (rebuildSub r) subs

/-- `Mesh(region=…, n=…, bc=…, subregions=…)` -/
def TMesh.init (r : TReg) (n : List Int) (bc : String) (subs : List (String × TReg)) : M TMesh :=
  if n.length ≠ r.ndim then .error .value
  else if n.any (fun k => decide (k ≤ 0)) then .error .value
  else if !Mesh.bcOk r.dims bc.toLower then .error .value
  else (setSubs r (n.map Int.toNat) subs).bind fun ss =>
    .ok { region := r, n := n.map Int.toNat, bc := bc.toLower, subs := ss }

/-! ## Field values -/

/-- a binary64 value by bit pattern: finite values as the rational they are (`fin 0` is +0), the
rest as tokens -/
inductive FV where
  | fin (q : Rat)
  | negZero
  | inf (neg : Bool)
  | nan (neg : Bool) (payload : Nat)
  deriving DecidableEq, Repr, Inhabited

/-- number of low bits a natural number has beyond 53 (search upward from `e`, with fuel) -/
def dropE (n : Nat) : Nat → Nat → Nat
  | 0, e => e
  | fuel + 1, e => if n / 2 ^ e < 2 ^ 53 then e else dropE n fuel (e + 1)

/-- round-to-nearest, ties-to-even of `n` to a multiple of `2 ^ e` -/
def rneNat (n e : Nat) : Nat :=
  if 2 * (n % 2 ^ e) < 2 ^ e then n / 2 ^ e * 2 ^ e
  else if 2 ^ e < 2 * (n % 2 ^ e) then (n / 2 ^ e + 1) * 2 ^ e
  else if n / 2 ^ e % 2 = 0 then n / 2 ^ e * 2 ^ e
  else (n / 2 ^ e + 1) * 2 ^ e

/-- C cast `int64 → double` (what `np.full(…, dtype=float64)` does to an integer array): exact up
to 2^53 in magnitude, beyond that rounded to 53 significant bits, ties to even (fuel 64 covers
every `int64`) -/
def rne53 (i : Int) : Int :=
  if i.natAbs ≤ 2 ^ 53 then i
  else i.sign * (rneNat i.natAbs (dropE i.natAbs 64 0) : Nat)

/-- C cast `double → int64` for the values that have one (finite, in range): truncation; the
result for the other bit patterns is platform-defined and never relied upon -/
def FV.trunc : FV → Int
  | .fin q => truncR q
  | _ => 0

/-! ## Field arrays -/

inductive DK where
  | int | float | complex
  deriving DecidableEq, Repr, Inhabited

/-- flat C-order buffer of the value array with its dtype kind -/
inductive DBuf where
  | ints (v : List Int)
  | floats (v : List FV)
  | complexes (v : List (FV × FV))
  deriving DecidableEq, Repr, Inhabited

namespace DBuf

def kind : DBuf → DK
  | ints _ => .int
  | floats _ => .float
  | complexes _ => .complex

def length : DBuf → Nat
  | ints v => v.length
  | floats v => v.length
  | complexes v => v.length

/-- the values held, as (re, im) -/
def vals : DBuf → List (FV × FV)
  | ints v => v.map fun (i : Int) => (FV.fin (i : Rat), FV.fin 0)
  | floats v => v.map fun q => (q, FV.fin 0)
  | complexes v => v

/-- `np.full(shape, val, dtype=max(val.dtype, np.float64))`: integer data become float (C cast) -/
def upcast : DBuf → DBuf
  | ints v => floats (v.map fun (i : Int) => FV.fin ((rne53 i : Int) : Rat))
  | b => b

/-- pick the entries at the given flat positions -/
def gather (idx : List Nat) : DBuf → DBuf
  | ints v => ints (idx.map fun k => v.getD k 0)
  | floats v => floats (idx.map fun k => v.getD k (FV.fin 0))
  | complexes v => complexes (idx.map fun k => v.getD k (FV.fin 0, FV.fin 0))

/-- a freshly created dataset is zero-filled -/
def zeros : DK → Nat → DBuf
  | .int, k => ints (List.replicate k 0)
  | .float, k => floats (List.replicate k (FV.fin 0))
  | .complex, k => complexes (List.replicate k (FV.fin 0, FV.fin 0))

/-- conversion libhdf5 performs when an array is written into a dataset of another dtype: C casts
between int and float, no conversion path between real and complex (`OSError`) -/
def castTo : DK → DBuf → M DBuf
  | .int, ints v => .ok (ints v)
  | .int, floats v => .ok (ints (v.map FV.trunc))
  | .float, ints v => .ok (floats (v.map fun (i : Int) => FV.fin ((rne53 i : Int) : Rat)))
  | .float, floats v => .ok (floats v)
  | .complex, complexes v => .ok (complexes v)
  | _, _ => .error .runtime

/-- `len` entries from flat position `start` -/
def slice (start len : Nat) : DBuf → DBuf
  | ints v => ints ((v.drop start).take len)
  | floats v => floats ((v.drop start).take len)
  | complexes v => complexes ((v.drop start).take len)

/-- the buffer with the entries from flat position `start` on replaced by those of `b` (same
dtype kind; otherwise unchanged) -/
def splice (start : Nat) : DBuf → DBuf → DBuf
  | ints v, ints w => ints (v.take start ++ w ++ v.drop (start + w.length))
  | floats v, floats w => floats (v.take start ++ w ++ v.drop (start + w.length))
  | complexes v, complexes w => complexes (v.take start ++ w ++ v.drop (start + w.length))
  | d, _ => d

end DBuf

structure DArr where
  shape : List Nat
  buf : DBuf
  deriving DecidableEq, Repr, Inhabited

structure VArr where
  shape : List Nat
  buf : List Bool
  deriving DecidableEq, Repr, Inhabited

/-- numpy broadcasting rule for shape `src` against `tgt` (trailing axes aligned) -/
def bcastOk (src tgt : List Nat) : Bool :=
  decide (src.length ≤ tgt.length) &&
  allLt src.length fun a =>
    src.getD a 0 == 1 || src.getD a 0 == tgt.getD (a + (tgt.length - src.length)) 0

/-- for every flat C-order position of the target, the flat position of the source entry
that broadcasting puts there -/
def bcastIdx (src tgt : List Nat) : List Nat :=
  tab (natProd tgt) fun k =>
    flatC src (tab src.length fun a =>
      if src.getD a 0 = 1 then 0 else (unflatC tgt k).getD (a + (tgt.length - src.length)) 0)

/-- `Field._as_array(val, mesh, nvdim, dtype=None)` for an array value: a mesh-shaped
array is taken as a scalar field as it is; otherwise the last axis must be `nvdim` and the
array is broadcast into `np.full((*n, nvdim), val, dtype=max(val.dtype, float64))` -/
def asArray (val : DArr) (n : List Nat) (nvdim : Nat) : M DArr :=
  if nvdim = 1 ∧ val.shape = n then .ok { shape := n ++ [1], buf := val.buf }
  else if val.shape.getLast? ≠ some nvdim then .error .value
  else if !bcastOk val.shape (n ++ [nvdim]) then .error .value
  else .ok { shape := n ++ [nvdim],
             buf := (val.buf.gather (bcastIdx val.shape (n ++ [nvdim]))).upcast }

/-- the `valid` setter: `_as_array(valid, mesh, nvdim=1, dtype=bool)[..., 0]`; `none` is
the default `True` -/
def asValid (val : Option VArr) (n : List Nat) : M VArr :=
  match val with
  | none => .ok { shape := n, buf := List.replicate (natProd n) true }
  | some v =>
    if v.shape = n then .ok { shape := n, buf := v.buf }
    else if v.shape.getLast? ≠ some 1 then .error .value
    else if !bcastOk v.shape (n ++ [1]) then .error .value
    else .ok { shape := n, buf := (bcastIdx v.shape (n ++ [1])).map fun k => v.buf.getD k false }

/-- `vdims` setter on a fresh field -/
def vdimsSet (nvdim : Nat) : Option (List String) → M (Option (List String))
  | none => .ok (Fld.defaultVdims nvdim)
  | some [] => .ok none
  | some (x :: l) =>
    if (x :: l).length ≠ nvdim then .error .value
    else if hasDup (x :: l) then .error .value
    else .ok (some (x :: l))

/-- `vdim_mapping` setter with `None` -/
def defaultVmap (nvdim : Nat) (dims : List String) (vdims : Option (List String)) :
    List (String × String) :=
  if nvdim = 1 then []
  else if nvdim = dims.length then
    match vdims with
    | some l => List.zip l dims
    | none => []
  else []

/-- state of a `Field` -/
structure TFld where
  mesh : TMesh
  nvdim : Nat
  data : DArr
  valid : VArr
  vdims : Option (List String)
  vmap : List (String × String)
  unit : Option String
  deriving DecidableEq, Repr, Inhabited

/-- `Field(mesh, nvdim=…, value=array, vdims=…, unit=…, valid=…)` (dtype, norm and
vdim_mapping left at their defaults, as both readers do).  `nvdim = none` is Python's
`None`, which `Field.__init__` rejects with `TypeError`. -/
def TFld.init (mesh : TMesh) (nvdim : Option Int) (value : DArr) (vdims : Option (List String))
    (unit : Option String) (valid : Option VArr) : M TFld :=
  match nvdim with
  | none => .error .type
  | some k =>
    if k < 1 then .error .value
    -- `update_field_values` converts the value and then assigns through the `array` setter,
    -- which converts once more
    else (asArray value mesh.n k.toNat).bind fun d1 =>
      (asArray d1 mesh.n k.toNat).bind fun data =>
      (asValid valid mesh.n).bind fun v =>
      (vdimsSet k.toNat vdims).bind fun vd =>
      -- `vdim_mapping` setter with `None`: the default mapping (empty when there are no labels)
      .ok { mesh := mesh, nvdim := k.toNat, data := data, valid := v, vdims := vd,
            vmap := defaultVmap k.toNat mesh.region.dims vd, unit := unit }

/-! ## The HDF5 file as a typed store -/

/-- attributes of group `field/mesh/region` -/
structure H5Region where
  pmin : NumArr
  pmax : NumArr
  dims : List String
  units : List String
  ndim : Nat
  tol : Num
  deriving DecidableEq, Repr, Inhabited

/-- datasets `subregion_names` and `subregions` (shape `(len, 2·ndim)`, one dtype) -/
structure H5Subs where
  names : List String
  kind : NK
  rows : List NumArr
  deriving DecidableEq, Repr, Inhabited

structure H5Mesh where
  region : H5Region
  n : List Int
  bc : String
  subs : Option H5Subs
  deriving DecidableEq, Repr, Inhabited

/-- attribute `vdims`: a string or a list of strings -/
inductive VdimsAttr where
  | str (s : String)
  | list (l : List String)
  deriving DecidableEq, Repr, Inhabited

structure H5Field where
  mesh : H5Mesh
  nvdim : Int
  vdims : VdimsAttr
  unit : String
  array : DArr
  valid : VArr
  deriving DecidableEq, Repr, Inhabited

/-- legacy layout: datasets `field/mesh/region/p1`, `p2`, `field/mesh/n`, `field/dim`,
`field/array`, and the optional `<file>.subregions.json` side-car -/
structure Legacy where
  p1 : NumArr
  p2 : NumArr
  n : List Int
  dim : Int
  array : DArr
  sidecar : Option (List (String × H5Region))
  deriving DecidableEq, Repr, Inhabited

/-- a file either carries the attribute `ubermag-hdf5-file-version` (and `type`) or not -/
inductive H5File where
  | versioned (version type : String) (field : H5Field)
  | unversioned (l : Legacy)
  deriving DecidableEq, Repr, Inhabited

/-! ## Writing -/

/-- `_RegionIO_HDF5._h5_save`: every attribute stored with the type of its Python value -/
def regionSave (r : TReg) : H5Region :=
  { pmin := r.pmin, pmax := r.pmax, dims := r.dims, units := r.units, ndim := r.ndim, tol := r.tol }

/-- dtype of the corner table: `np.result_type(region.pmin.dtype, *(s.pmin.dtype …),
*(s.pmax.dtype …))` -/
def tableKind (m : TMesh) : NK :=
  joinAll (m.region.pmin.kind :: (m.subs.map (fun p => p.2.pmin.kind) ++ m.subs.map (fun p => p.2.pmax.kind)))

/-- one row: `h5_mesh_subregions[i] = [*subregion.pmin, *subregion.pmax]`, cast to the
table's dtype by the assignment -/
def subRow (k : NK) (s : TReg) : NumArr := (s.pmin.append s.pmax).cast k

def subsSave (m : TMesh) : Option H5Subs :=
  if 0 < m.subs.length then
    some { names := m.subs.map (fun p => p.1), kind := tableKind m,
           rows := m.subs.map (fun p => subRow (tableKind m) p.2) }
  else none

def meshSave (m : TMesh) : H5Mesh :=
  { region := regionSave m.region, n := m.n.map (fun (k : Nat) => (k : Int)), bc := m.bc, subs := subsSave m }

def encVdims : Option (List String) → VdimsAttr
  | none => .str "None"
  | some l => .list l

/-- `str(self.unit)` -/
def encUnit : Option String → String
  | none => "None"
  | some s => s

def fieldSave (f : TFld) : H5Field :=
  { mesh := meshSave f.mesh, nvdim := (f.nvdim : Int), vdims := encVdims f.vdims, unit := encUnit f.unit,
    array := f.data, valid := f.valid }

/-- the store `Field._to_hdf5` leaves behind (spec form: the array dataset *is* the array;
`toHdf5` below is the code-shaped writer, `toHdf5_eq_h5Save` relates them) -/
def h5Save (f : TFld) : H5File := .versioned "0.1" "discretisedfield.Field" (fieldSave f)

/-- the `location` / `data_location` argument of `_h5_save_data` / `_h5_load_field`:
`slice(None)` (the whole dataset) or an integer index along an extra leading axis (one field
of a series) -/
inductive Loc where
  | all
  | idx (t : Int)
  deriving DecidableEq, Repr, Inhabited

/-- `h5_field_data[location] = array`: the index must lie in `[-T, T)` (`IndexError`), the
shapes must agree (h5py would try to broadcast; only equal shapes are modelled as accepted),
the values are converted to the dataset's dtype -/
def writeLoc (ds : DArr) (loc : Loc) (a : DArr) : M DArr :=
  match loc with
  | .all =>
    if a.shape ≠ ds.shape then .error .type
    else (a.buf.castTo ds.buf.kind).bind fun b => .ok { shape := ds.shape, buf := b }
  | .idx t =>
    match ds.shape with
    | [] => .error .index
    | T :: rest =>
      if t < -(T : Int) ∨ (T : Int) ≤ t then .error .index
      else if a.shape ≠ rest then .error .type
      else (a.buf.castTo ds.buf.kind).bind fun b =>
        .ok { shape := ds.shape, buf := ds.buf.splice ((t % (T : Int)).toNat * natProd rest) b }

/-- `h5_field["array"][data_location]` -/
def readLoc (ds : DArr) (loc : Loc) : M DArr :=
  match loc with
  | .all => .ok ds
  | .idx t =>
    match ds.shape with
    | [] => .error .index
    | T :: rest =>
      if t < -(T : Int) ∨ (T : Int) ≤ t then .error .index
      else .ok { shape := rest, buf := ds.buf.slice ((t % (T : Int)).toNat * natProd rest) (natProd rest) }

/-- `_h5_save_structure(h5_field, data_shape)`: mesh, attributes, validity, and an empty
(zero-filled) dataset `array` of the given shape and of the field's dtype -/
def saveStructure (f : TFld) (dataShape : List Nat) : H5Field :=
  { mesh := meshSave f.mesh, nvdim := (f.nvdim : Int), vdims := encVdims f.vdims, unit := encUnit f.unit,
    array := { shape := dataShape, buf := DBuf.zeros f.data.buf.kind (natProd dataShape) }, valid := f.valid }

/-- `_h5_save_data(h5_field_data, location)` -/
def saveData (h : H5Field) (loc : Loc) (f : TFld) : M H5Field :=
  (writeLoc h.array loc f.data).bind fun a => .ok { h with array := a }

/-- `Field._to_hdf5`, code-shaped: structure with `data_shape = (*n, nvdim)`, then the data at
`slice(None)` -/
def toHdf5 (f : TFld) : M H5File :=
  (saveData (saveStructure f (f.mesh.n ++ [f.nvdim])) .all f).bind fun h =>
    .ok (.versioned "0.1" "discretisedfield.Field" h)

/-! ## Reading -/

/-- `_RegionIO_HDF5._h5_load`: `Region(pmin=…, pmax=…, dims=…, ndim=…, units=…,
tolerance_factor=…)` (`ndim` disappears in `**kwargs`) -/
def regionLoad (h : H5Region) : M TReg :=
  TReg.initKw h.pmin h.pmax (some h.dims) (some h.units) h.tol

/-- `Region(p1=data[:ndim], p2=data[ndim:])` for one row of the table -/
def rowRegion (ndim : Nat) (p : String × NumArr) : M (String × TReg) :=
  (TReg.init (p.2.take ndim) (p.2.drop ndim) none none TReg.defaultTol).bind fun s => .ok (p.1, s)

/-- the dict comprehension over `zip(subregion_names, subregions)` -/
def subsLoad (ndim : Nat) : Option H5Subs → M (List (String × TReg))
  | none => .ok []
  | some s => (mapE (rowRegion ndim) (List.zip s.names s.rows)).bind fun l => .ok (dictOf l)

/-- `_MeshIO_HDF5._h5_load` -/
def meshLoad (h : H5Mesh) : M TMesh :=
  (regionLoad h.region).bind fun r =>
    (subsLoad r.ndim h.subs).bind fun ss =>
      TMesh.init r h.n h.bc ss

/-- attribute `vdims`: the string `"None"` stands for no labels; any other plain string is
rejected by the `vdims` setter (`TypeError`) -/
def decVdims : VdimsAttr → M (Option (List String))
  | .str s => if s = "None" then .ok none else .error .type
  | .list l => .ok (some l)

/-- attribute `unit`: the string `"None"` stands for no unit -/
def decUnit (s : String) : Option String := if s = "None" then none else some s

/-- `_h5_load_field(h5_field, data_location)` -/
def fieldLoadAt (h : H5Field) (loc : Loc) : M TFld :=
  (meshLoad h.mesh).bind fun m =>
    (decVdims h.vdims).bind fun vd =>
      (readLoc h.array loc).bind fun a =>
        TFld.init m (some h.nvdim) a vd (decUnit h.unit) (some h.valid)

/-- `_h5_load_field(f["field"], slice(None))` -/
def fieldLoad (h : H5Field) : M TFld := fieldLoadAt h .all

/-- `mesh.load_subregions(filename)` when the side-car exists:
`mesh.subregions = {key: Region(**val) …}` -/
def sidecarLoad (m : TMesh) : Option (List (String × H5Region)) → M TMesh
  | none => .ok m
  | some l =>
    (mapE (fun p => (regionLoad p.2).bind fun s => .ok (p.1, s)) l).bind fun ss =>
      (setSubs m.region m.n (dictOf ss)).bind fun ss' => .ok { m with subs := ss' }

/-- `_h5_legacy_load_field`: `Mesh(region=Region(p1=p1, p2=p2), n=n)`, the side-car's
subregions if the file exists, `cls(mesh, nvdim=dim, value=array[:])` -/
def legacyLoad (l : Legacy) : M TFld :=
  (TReg.init l.p1 l.p2 none none TReg.defaultTol).bind fun r =>
    (TMesh.init r l.n "" []).bind fun m =>
      (sidecarLoad m l.sidecar).bind fun m' =>
        TFld.init m' (some l.dim) l.array none none none

/-- `Field._from_hdf5` -/
def h5Load : H5File → M TFld
  | .unversioned l => legacyLoad l
  | .versioned v t fld =>
    if t ≠ "discretisedfield.Field" then .error .value
    else if v ≠ "0.1" then .error .runtime
    else fieldLoad fld

/-! ## Suffix dispatch (`io/__init__.py`) -/

inductive Fmt where
  | ovf | vtk | hdf5
  deriving DecidableEq, Repr, Inhabited

/-- `Field.to_file` -/
def writeFmt (suffix : String) : M Fmt :=
  if suffix = ".omf" ∨ suffix = ".ovf" ∨ suffix = ".ohf" then .ok .ovf
  else if suffix = ".vtk" then .ok .vtk
  else if suffix = ".hdf5" ∨ suffix = ".h5" then .ok .hdf5
  else .error .value

/-- `Field.from_file` -/
def readFmt (suffix : String) : M Fmt :=
  if suffix = ".omf" ∨ suffix = ".ovf" ∨ suffix = ".ohf" ∨ suffix = ".oef" then .ok .ovf
  else if suffix = ".vtk" then .ok .vtk
  else if suffix = ".hdf5" ∨ suffix = ".h5" then .ok .hdf5
  else .error .value

/-! ## Spec layer: what a round trip is allowed to change -/

/-- the corner arrays converted to dtype `k`, everything else kept -/
def TReg.castCorners (k : NK) (s : TReg) : TReg := { s with pmin := s.pmin.cast k, pmax := s.pmax.cast k }

/-- the mesh a reader returns: the same, with the subregion corner arrays in the dtype of
the corner table -/
def TMesh.loaded (m : TMesh) : TMesh :=
  { m with subs := m.subs.map fun p => (p.1, p.2.castCorners (tableKind m)) }

/-- The field a reader returns for the file of `f`, as the property describes it: the same
state, except that the subregion corner arrays carry the dtype of the corner table, integer
data arrive as floats, and the (unsaved) component-to-axis mapping is the default one. -/
def loaded (f : TFld) : TFld :=
  { f with
    mesh := f.mesh.loaded
    data := { f.data with buf := f.data.buf.upcast }
    vmap := defaultVmap f.nvdim f.mesh.region.dims f.vdims }

/-- what the attribute `vdims` of the file makes of the labels: absent labels are stored as the
string `"None"`, which the reader hands to `Field` as `vdims=None` — the constructor's default -/
def recodeVdims (nvdim : Nat) : Option (List String) → Option (List String)
  | none => Fld.defaultVdims nvdim
  | some l => some l

def rereadVdims (f : TFld) : Option (List String) := recodeVdims f.nvdim f.vdims

/-- The field the reader returns for the file of `f` *as the code stands*: `loaded f`, except that
the unit went through `str(unit)` / `"None"` and the labels through `"None"` / the constructor
default (`reread_eq_loaded`: no difference unless the unit is the string `"None"` or a field with
more than one component has no labels). -/
def reread (f : TFld) : TFld :=
  { loaded f with
    unit := decUnit (encUnit f.unit)
    vdims := rereadVdims f
    vmap := defaultVmap f.nvdim f.mesh.region.dims (rereadVdims f) }

/-- integer data that survive the conversion to binary64 on reading (`rne53_eq_iff`: exactly the
integers with at most 53 significant bits, in particular all with |i| ≤ 2^53) -/
def DBuf.intSafeB : DBuf → Bool
  | .ints v => v.all fun i => decide (rne53 i = i)
  | _ => true

def DBuf.IntSafe (b : DBuf) : Prop := b.intSafeB = true

/-- value-level equality of regions: everything but the dtype of the corner arrays -/
def TReg.sameValues (a b : TReg) : Prop :=
  a.pmin.vals = b.pmin.vals ∧ a.pmax.vals = b.pmax.vals ∧ a.dims = b.dims ∧ a.units = b.units ∧ a.tol = b.tol

/-! ## Invariants of states built by the constructors (decidable: the harness evaluates
them on the states of real fields, the theorems take them as hypotheses).  `Inv` includes that
every stored subregion passes the setter's three tests as it is stored (with the mesh's names,
units and tolerance factor): what the setter guarantees since repo fix 5591fed0. -/

/-- what `Region.__init__` guarantees -/
def TReg.invB (r : TReg) : Bool :=
  decide (0 < r.pmin.length) && decide (r.pmax.length = r.pmin.length) && decide (r.pmin.kind = r.pmax.kind) &&
  decide (r.dims.length = r.pmin.length) && decide (r.units.length = r.pmin.length) && !hasDup r.dims &&
  allLt r.pmin.length fun a => decide (r.pmin.vals.getD a 0 < r.pmax.vals.getD a 0)

def TReg.Inv (r : TReg) : Prop := r.invB = true

/-- the region `Region(p1=pmin, p2=pmax)` with default names, units, tolerance: how the
reader presents a stored corner pair to the `subregions` setter -/
def plainRegion (pmin pmax : List Rat) : Region :=
  { pmin := pmin, pmax := pmax, dims := Region.defaultDims pmin.length,
    units := List.replicate pmin.length "m", tol := TReg.defaultTol.val }

/-- one subregion of a mesh: rebuilt by the setter with the region's names / units /
tolerance, corners ordered, and — as it is stored — accepted by the setter's three tests -/
def subInvB (r : TReg) (n : List Nat) (s : TReg) : Bool :=
  decide (s.pmin.length = r.ndim) && decide (s.pmax.length = r.ndim) && decide (s.pmin.kind = s.pmax.kind) &&
  decide (s.dims = r.dims) && decide (s.units = r.units) && decide (s.tol = r.tol) &&
  (allLt r.ndim fun a => decide (s.pmin.vals.getD a 0 < s.pmax.vals.getD a 0)) &&
  subAccept r.toRegion n s.toRegion

/-- what `Mesh.__init__` guarantees (counts positive, bc lower-cased and checked, distinct
subregion names, every subregion as above) -/
def TMesh.invB (m : TMesh) : Bool :=
  m.region.invB && decide (m.n.length = m.region.ndim) && m.n.all (fun k => decide (0 < k)) &&
  decide (m.bc.toLower = m.bc) && Mesh.bcOk m.region.dims m.bc &&
  !hasDup (m.subs.map fun p => p.1) && m.subs.all fun p => subInvB m.region m.n p.2

def TMesh.Inv (m : TMesh) : Prop := m.invB = true

/-- what `Field.__init__` and the setters guarantee (labels: a non-empty duplicate-free list of
`nvdim` names, or none at all — `vdims=[]` — whatever the component count) -/
def TFld.invB (f : TFld) : Bool :=
  f.mesh.invB && decide (1 ≤ f.nvdim) &&
  decide (f.data.shape = f.mesh.n ++ [f.nvdim]) && decide (f.data.buf.length = natProd (f.mesh.n ++ [f.nvdim])) &&
  decide (f.valid.shape = f.mesh.n) && decide (f.valid.buf.length = natProd f.mesh.n) &&
  (match f.vdims with
   | none => true
   | some l => !l.isEmpty && decide (l.length = f.nvdim) && !hasDup l)

def TFld.Inv (f : TFld) : Prop := f.invB = true

/-! ### the weak invariant: `Inv` without the acceptance clause

Before repo fix 5591fed0 (D132) the `subregions` setter tested a candidate with the candidate's
OWN tolerance factor and stored it with the mesh's: a stored subregion did not necessarily pass the
tests, and the HDF5 reader could refuse the file the writer wrote.  Since the fix the tests are made
on the copy that is stored, `Inv` holds for every mesh the constructor returns
(`mesh_constructor_inv`).  `invWB` is `invB` without the acceptance clause; it is kept to state for
ARBITRARY states when the reader accepts the writer's file (`h5_reread_accepts_iff`). -/

def subInvWB (r : TReg) (s : TReg) : Bool :=
  decide (s.pmin.length = r.ndim) && decide (s.pmax.length = r.ndim) && decide (s.pmin.kind = s.pmax.kind) &&
  decide (s.dims = r.dims) && decide (s.units = r.units) && decide (s.tol = r.tol) &&
  (allLt r.ndim fun a => decide (s.pmin.vals.getD a 0 < s.pmax.vals.getD a 0))

def TMesh.invWB (m : TMesh) : Bool :=
  m.region.invB && decide (m.n.length = m.region.ndim) && m.n.all (fun k => decide (0 < k)) &&
  decide (m.bc.toLower = m.bc) && Mesh.bcOk m.region.dims m.bc &&
  !hasDup (m.subs.map fun p => p.1) && m.subs.all fun p => subInvWB m.region p.2

def TMesh.InvW (m : TMesh) : Prop := m.invWB = true

def TFld.invWB (f : TFld) : Bool :=
  f.mesh.invWB && decide (1 ≤ f.nvdim) &&
  decide (f.data.shape = f.mesh.n ++ [f.nvdim]) && decide (f.data.buf.length = natProd (f.mesh.n ++ [f.nvdim])) &&
  decide (f.valid.shape = f.mesh.n) && decide (f.valid.buf.length = natProd f.mesh.n) &&
  (match f.vdims with
   | none => true
   | some l => !l.isEmpty && decide (l.length = f.nvdim) && !hasDup l)

def TFld.InvW (f : TFld) : Prop := f.invWB = true

/-- every stored subregion passes the setter's three tests (so the HDF5 reader, which presents the
stored corner pairs to the setter again, accepts them) -/
def TMesh.rereadableB (m : TMesh) : Bool :=
  m.subs.all fun p => subAccept m.region.toRegion m.n p.2.toRegion

end DFV.C10
