import DFV.Model.Basic
/-!
C01 additions to the shared mesh model (no import outside core Lean): the coordinate field,
the cell volume and the region volume.  Definitions follow `discretisedfield/mesh.py`
(`coordinate_field`, `dV`) and `region.py` (`volume`).
-/
namespace DFV

namespace Region
/-- `Region.volume`: product of the edge lengths -/
def volume (r : Region) : Rat := ratProd r.edges
end Region

namespace Mesh

/-- `Mesh.dV`: product of the cell edge lengths -/
def dV (m : Mesh) : Rat := ratProd m.cell

/-- `Mesh.coordinate_field().array[idx]`: component `a` is filled with
`cells[a].reshape(1,…,n_a,…,1)` broadcast over the other axes, i.e. entry `idx[a]` of the
per-axis list of cell centres. -/
def coordField (m : Mesh) (idx : List Nat) : List Rat :=
  tab m.ndim fun a => (m.cells.getD a []).getD (idx.getD a 0) 0

/-- shape of the array assigned to component `i` of the coordinate field:
`tuple(n[i] if i == j else 1 for j in range(ndim))` -/
def coordShape (m : Mesh) (i : Nat) : List Nat := tab m.ndim fun j => if i = j then m.nAt i else 1

/-- NumPy broadcasting of an array of shape `s` in an assignment to a larger array: along an
axis of length 1 every index reads entry 0 -/
def coordBcast (s idx : List Nat) : List Nat := tab s.length fun j => if s.getD j 0 = 1 then 0 else idx.getD j 0

/-- code-shaped `Mesh.coordinate_field().array[idx]`: for each component `i`,
`field.array[..., i] = cells[i].reshape(coordShape i)` (C-order reshape of the 1-d list,
then broadcast over the other axes) -/
def coordFieldCode (m : Mesh) (idx : List Nat) : List Rat :=
  tab m.ndim fun i =>
    (m.cells.getD i []).getD (flatC (m.coordShape i) (coordBcast (m.coordShape i) idx)) 0

/-! ### the same index ↔ coordinate maps with every arithmetic operation rounded by `fl`
(`fl` = binary64 rounding for the real code; a parameter here).  The sequence of operations
is the one of `Mesh.cell`, `Mesh.index2point`, `Mesh.point2index` and `Region.__contains__`. -/

/-- `Mesh.cell[a]` as computed: `fl(fl(pmax − pmin) / n)` (`n` is converted exactly) -/
def cellAtFl (fl : Rat → Rat) (m : Mesh) (a : Nat) : Rat :=
  fl (fl (m.region.hi a - m.region.lo a) / (m.nAt a : Rat))

/-- `(point − pmin) / cell` as computed -/
def quotAxFl (fl : Rat → Rat) (m : Mesh) (a : Nat) (x : Rat) : Rat :=
  fl (fl (x - m.region.lo a) / m.cellAtFl fl a)

/-- `clip(floor(·).astype(int), 0, n − 1)` of the computed quotient (`floor`, the conversion and `clip` are exact) -/
def indexAxFl (fl : Rat → Rat) (m : Mesh) (a : Nat) (x : Rat) : Nat :=
  (clipInt (m.quotAxFl fl a x).floor 0 ((m.nAt a : Int) - 1)).toNat

/-- `pmin + (index + 0.5) * cell` as computed (`index + 0.5` is exact below 2^52) -/
def centreAxFl (fl : Rat → Rat) (m : Mesh) (a : Nat) (i : Int) : Rat :=
  fl (m.region.lo a + fl (((i : Rat) + 1/2) * m.cellAtFl fl a))

end Mesh

namespace Region

/-- `np.isclose(a, b, rtol, atol)` as computed: `|fl(a − b)| ≤ fl(atol + fl(rtol·|b|))` -/
def iscloseFl (fl : Rat → Rat) (a b rtol atol : Rat) : Bool :=
  decide (absR (fl (a - b)) ≤ fl (atol + fl (rtol * absR b)))

/-- `np.min(self.edges) * self.tolerance_factor` as computed -/
def atolFl (fl : Rat → Rat) (r : Region) : Rat :=
  fl (listMin (tab r.ndim fun a => fl (r.hi a - r.lo a)) * r.tol)

def containsAxFl (fl : Rat → Rat) (r : Region) (a : Nat) (x : Rat) : Bool :=
  (decide (r.lo a ≤ x) || iscloseFl fl (r.lo a) x r.tol (r.atolFl fl)) &&
  (decide (x ≤ r.hi a) || iscloseFl fl (r.hi a) x r.tol (r.atolFl fl))

def containsPtFl (fl : Rat → Rat) (r : Region) (p : List Rat) : Bool :=
  decide (p.length = r.ndim) && allLt r.ndim fun a => r.containsAxFl fl a (p.getD a 0)

end Region

namespace Mesh

/-- `Mesh.point2index` with rounded arithmetic -/
def point2indexFl (fl : Rat → Rat) (m : Mesh) (p : List Rat) : M (List Nat) :=
  if p.length ≠ m.ndim then .error .value
  else if !m.region.containsPtFl fl p then .error .value
  else .ok (tab m.ndim fun a => m.indexAxFl fl a (p.getD a 0))

/-- `Mesh.index2point` with rounded arithmetic -/
def index2pointFl (fl : Rat → Rat) (m : Mesh) (idx : List Int) : M (List Rat) :=
  if idx.length ≠ m.ndim then .error .index
  else if !allLt m.ndim (fun a => decide (0 ≤ idx.getD a 0) && decide (idx.getD a 0 < (m.nAt a : Int)))
    then .error .index
  else .ok (tab m.ndim fun a => m.centreAxFl fl a (idx.getD a 0))

end Mesh

/-- `np.linspace(a, b, n)` as computed: `delta = fl(b − a)`, `step = fl(delta/(n − 1))`,
`y_j = fl(fl(j·step) + a)`, and the last entry is overwritten with `b` -/
def linspaceFl (fl : Rat → Rat) (a b : Rat) (n : Nat) : List Rat :=
  if n = 1 then [a]
  else tab n fun j => if j + 1 = n then b else fl (fl ((j : Rat) * fl (fl (b - a) / ((n : Rat) - 1))) + a)

namespace Mesh

/-- `Mesh.cells` as computed -/
def cellsFl (fl : Rat → Rat) (m : Mesh) : List (List Rat) :=
  tab m.ndim fun a =>
    linspaceFl fl (fl (m.region.lo a + fl (m.cellAtFl fl a / 2))) (fl (m.region.hi a - fl (m.cellAtFl fl a / 2))) (m.nAt a)

/-- `Mesh.vertices` as computed -/
def verticesFl (fl : Rat → Rat) (m : Mesh) : List (List Rat) :=
  tab m.ndim fun a => linspaceFl fl (m.region.lo a) (m.region.hi a) (m.nAt a + 1)

end Mesh

/-- `np.prod` of a non-empty 1-d array as computed: sequential, `acc = fl(acc·x)` from the left -/
def prodFl (fl : Rat → Rat) : List Rat → Rat
  | [] => 1
  | x :: xs => xs.foldl (fun acc y => fl (acc * y)) x

/-- `Mesh.dV` as computed: `np.prod(self.cell)` -/
def Mesh.dVFl (fl : Rat → Rat) (m : Mesh) : Rat := prodFl fl (tab m.ndim (m.cellAtFl fl))

/-- `Region.volume` of a float-cornered region as computed: `np.prod(self.edges)` -/
def Region.volumeFl (fl : Rat → Rat) (r : Region) : Rat := prodFl fl (tab r.ndim fun a => fl (r.hi a - r.lo a))

/-- odometer successor of a multi-index, first dimension fastest (spec of the iteration order) -/
def succF : List Nat → List Nat → List Nat
  | n :: ns, i :: is => if i + 1 < n then (i + 1) :: is else 0 :: succF ns is
  | _, _ => []

end DFV
