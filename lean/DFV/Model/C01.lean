import DFV.Model.Basic
/-!
C01 additions to the shared mesh model (no import outside core Lean): the coordinate field,
the cell volume and the region volume.  Definitions follow `discretisedfield/mesh.py`
(`coordinate_field`, `dV`) and `region.py` (`volume`).
-/
namespace DFV

namespace Region
/-- `Region.volume`: product of the edge lengths -/
def volume (r : Region) : Rat := ratProd r.edges
end Region

namespace Mesh

/-- `Mesh.dV`: product of the cell edge lengths -/
def dV (m : Mesh) : Rat := ratProd m.cell

/-- `Mesh.coordinate_field().array[idx]`: component `a` is filled with
`cells[a].reshape(1,…,n_a,…,1)` broadcast over the other axes, i.e. entry `idx[a]` of the
per-axis list of cell centres. -/
def coordField (m : Mesh) (idx : List Nat) : List Rat :=
  tab m.ndim fun a => (m.cells.getD a []).getD (idx.getD a 0) 0

end Mesh
end DFV
