import DFV.Model.Field
/-!
C07 model: `Mesh._sel_convert_input`, `Mesh.sel`, `Field.sel`, `Mesh.__getitem__`,
`Field.__getitem__`, `Mesh.region2slices`, `Mesh.pad`, `Field.pad` (numpy pad modes as
index maps), `Field.resample` (nearest source cell through coordinate lookup; `resampleFast`: the
same in closed form), and the same entry points on requests with non-finite coordinates (`ExtRat`,
IEEE comparisons: `selConvertE`, `selMeshE`, `selFldE`, `point2indexE`, `getRegionE`, `getItemE`,
`region2slicesE`).
Code-shaped: same order of checks, same intermediate quantities (cell centres, half
cells, `floor` / `ceil - 1`), constructor paths (`Region.mk?`, `Mesh.mkCell?`, the
subregion setter) exactly where the Python goes through constructors; the `Field(...)` call that
ends every field operation runs the `vdims` and `vdim_mapping` setters (`ctorVdims`, `ctorVmap`,
`mkFld`); the element type of the result is reduced to numpy dtype kinds (`resultKind`).
Core Lean only.
-/
namespace DFV.C07
open DFV

/-! ## small helpers -/

/-- list with `x` inserted before position `a` -/
def insertAt {α} (l : List α) (a : Nat) (x : α) : List α := l.take a ++ x :: l.drop a

def natsToInts (l : List Nat) : List Int := l.map Int.ofNat

/-! ## Mesh constructor with subregions (`Mesh(region=…, cell=…, bc=…, subregions=…)`) -/

/-- `tol < rem < cell - tol` on `rem = remainder(|d|, cell)` : `true` = misaligned -/
def remTest (d c tol : Rat) : Bool :=
  decide (tol < Mesh.remainder (absR d) c) && decide (Mesh.remainder (absR d) c < c - tol)

/-- `np.allclose(a, b, atol=atol)` (rtol = 1e-5) -/
def allclose (a b : List Rat) (atol : Rat) : Bool :=
  decide (a.length = b.length) &&
    allLt a.length fun i => Region.isclose (a.getD i 0) (b.getD i 0) (1/100000) atol

/-- `Mesh.is_aligned(other, tolerance)` -/
def isAligned (m o : Mesh) (tol : Rat := 1/1000000000000) : Bool :=
  allclose m.cell o.cell tol &&
  allLt m.ndim (fun a => !remTest (m.region.lo a - o.region.lo a) (m.cellAt a) tol) &&
  allLt m.ndim (fun a => !remTest (m.region.hi a - o.region.hi a) (m.cellAt a) tol)

/-- the three tests of the subregion setter for one subregion -/
def checkSub (m : Mesh) (s : Region) : M Unit :=
  if !m.region.containsReg s then .error .value
  else
    match Mesh.mkCell? s m.cell with
    | .error _ => .error .value
    | .ok sm => if !isAligned m sm then .error .value else .ok ()

def checkSubs (m : Mesh) : List (String × Region) → M Unit
  | [] => .ok ()
  | p :: rest =>
    match checkSub m p.2 with
    | .error e => .error e
    | .ok _ => checkSubs m rest

/-- subregion as stored: corners kept, dims / units / tolerance of the mesh region -/
def storeSub (m : Mesh) (p : String × Region) : String × Region :=
  (p.1, { pmin := p.2.pmin, pmax := p.2.pmax, dims := m.region.dims, units := m.region.units,
          tol := m.region.tol })

/-- `Mesh.subregions` setter -/
def setSubs? (m : Mesh) (subs : List (String × Region)) : M Mesh :=
  match checkSubs m subs with
  | .error e => .error e
  | .ok _ => .ok { m with subs := subs.map (storeSub m) }

/-- `Mesh(region=r, cell=cell, bc=bc, subregions=subs)` -/
def mkMesh? (r : Region) (cell : List Rat) (bc : String) (subs : List (String × Region)) : M Mesh :=
  match Mesh.mkCell? r cell bc with
  | .error e => .error e
  | .ok m => setSubs? m subs

/-! ## `_sel_convert_input` -/

/-- the value passed to `sel`: nothing (positional axis name), a number, a pair, or
something malformed (wrong length / wrong type) -/
inductive SelArg where
  | centre
  | point (x : Rat)
  | range (x y : Rat)
  | bad
  deriving Repr, DecidableEq

/-- normalised selection: cell-centre coordinate(s) and index / inclusive index range -/
inductive SelIdx where
  | plane (c : Rat) (k : Nat)
  | range (c1 c2 : Rat) (k1 k2 : Nat)
  deriving Repr, DecidableEq

/-- `region.pmin` with coordinate `a` replaced by `x` -/
def testPoint (m : Mesh) (a : Nat) (x : Rat) : List Rat := setAt m.region.pmin a x

/-- `(index2point(point2index(p))[a], point2index(p)[a])` -/
def cellOf (m : Mesh) (a : Nat) (p : List Rat) : M (Rat × Nat) :=
  match m.point2index p with
  | .error e => .error e
  | .ok idx =>
    match m.index2point (natsToInts idx) with
    | .error e => .error e
    | .ok c => .ok (c.getD a 0, idx.getD a 0)

/-- selection of one in-range coordinate: range test (strict, no tolerance), then `cellOf` -/
def selOne (m : Mesh) (a : Nat) (x : Rat) : M (Rat × Nat) :=
  if x < m.region.lo a ∨ m.region.hi a < x then .error .value
  else cellOf m a (testPoint m a x)

def selConvert (m : Mesh) (dim : String) (arg : SelArg) : M (Nat × SelIdx) :=
  match m.region.dim2index dim with
  | .error e => .error e
  | .ok a =>
    match arg with
    | .bad => .error .value
    | .point x =>
      match selOne m a x with
      | .error e => .error e
      | .ok ck => .ok (a, .plane ck.1 ck.2)
    | .range x y =>
      match selOne m a (min x y) with
      | .error e => .error e
      | .ok ck1 =>
        match selOne m a (max x y) with
        | .error e => .error e
        | .ok ck2 => .ok (a, .range ck1.1 ck2.1 ck1.2 ck2.2)
    | .centre =>
      match cellOf m a m.region.center with
      | .error e => .error e
      | .ok ck => .ok (a, .plane ck.1 ck.2)

/-! ## `Mesh.sel` -/

/-- subregions of a plane selection: dropped when the plane's coordinate (a cell centre)
is outside `[sub.lo a, sub.hi a]`, otherwise axis `a` removed (plain `Region(p1, p2)`) -/
def planeSubs (a : Nat) (c : Rat) : List (String × Region) → M (List (String × Region))
  | [] => .ok []
  | p :: rest =>
    if p.2.hi a < c ∨ c < p.2.lo a then planeSubs a c rest
    else
      match Region.mk? (removeAt p.2.pmin a) (removeAt p.2.pmax a) none none with
      | .error e => .error e
      | .ok r =>
        match planeSubs a c rest with
        | .error e => .error e
        | .ok l => .ok ((p.1, r) :: l)

/-- subregions of a range selection `[lo, hi]` (faces): kept only when they overlap the slab
by more than half a cell (`step`; subregions consist of whole cells, a smaller overlap is a
rounding artefact at a shared face), then clipped along axis `a` -/
def rangeSubs (a : Nat) (lo hi step : Rat) : List (String × Region) → M (List (String × Region))
  | [] => .ok []
  | p :: rest =>
    if hi - step ≤ p.2.lo a ∨ p.2.hi a - step ≤ lo then rangeSubs a lo hi step rest
    else
      match Region.mk? (setAt p.2.pmin a (max lo (p.2.lo a))) (setAt p.2.pmax a (min hi (p.2.hi a)))
          none none with
      | .error e => .error e
      | .ok r =>
        match rangeSubs a lo hi step rest with
        | .error e => .error e
        | .ok l => .ok ((p.1, r) :: l)

/-- mesh of a plane selection through the cell with centre `c` along axis `a` -/
def selPlaneMesh (m : Mesh) (a : Nat) (c : Rat) : M Mesh :=
  match planeSubs a c m.subs with
  | .error e => .error e
  | .ok subs =>
    match Region.mk? (removeAt m.region.pmin a) (removeAt m.region.pmax a)
        (some (removeAt m.region.dims a)) (some (removeAt m.region.units a)) m.region.tol with
    | .error e => .error e
    | .ok r => mkMesh? r (removeAt m.cell a) "" subs

/-- mesh of a range selection from the cell with centre `c1` to the cell with centre `c2` -/
def selRangeMesh (m : Mesh) (a : Nat) (c1 c2 : Rat) : M Mesh :=
  match rangeSubs a (c1 - m.cellAt a / 2) (c2 + m.cellAt a / 2) (m.cellAt a / 2) m.subs with
  | .error e => .error e
  | .ok subs =>
    match Region.mk? (setAt m.region.pmin a (c1 - m.cellAt a / 2))
        (setAt m.region.pmax a (c2 + m.cellAt a / 2))
        (some m.region.dims) (some m.region.units) m.region.tol with
    | .error e => .error e
    | .ok r => mkMesh? r m.cell "" subs

def selMeshOf (m : Mesh) (a : Nat) : SelIdx → M Mesh
  | .plane c _ => selPlaneMesh m a c
  | .range c1 c2 _ _ => selRangeMesh m a c1 c2

/-- `Mesh.sel` -/
def selMesh (m : Mesh) (dim : String) (arg : SelArg) : M Mesh :=
  match selConvert m dim arg with
  | .error e => .error e
  | .ok ai => selMeshOf m ai.1 ai.2

/-! ## `Field.sel` -/

/-- the `vdims` setter as `Field.__init__` runs it on the labels handed over by an operation
(`vdims=self.vdims`): no labels -> the default labels of the component count, an empty list ->
no labels, otherwise length and uniqueness tests.  (The `hasattr` name-clash test is not
modelled: the labels come from an existing field, which passed it.) -/
def ctorVdims (k : Nat) : Option (List String) → M (Option (List String))
  | none => .ok (Fld.defaultVdims k)
  | some [] => .ok none
  | some (x :: l) =>
    if (x :: l).length ≠ k then .error .value
    else if hasDup (x :: l) then .error .value
    else .ok (some (x :: l))

/-- the `vdim_mapping` setter run on the source's dictionary (`vdim_mapping=self.vdim_mapping`,
never `None`): a one-entry dictionary of an unlabelled scalar field is emptied; a non-empty
dictionary must have exactly the labels as keys (`sorted(keys) != sorted(vdims)` -> `ValueError`,
`sorted(None)` -> `TypeError`); otherwise it is stored as it is — also when it names an axis
the result no longer has. -/
def ctorVmap (k : Nat) (vd : Option (List String)) (vm : List (String × String)) :
    M (List (String × String)) :=
  if vm.length = 1 ∧ k = 1 ∧ vd = none then .ok []
  else if vm.length = 0 then .ok vm
  else
    match vd with
    | none => .error .type
    | some l => if (vm.map (·.1)).isPerm l then .ok vm else .error .value

/-- labels and mapping of the result of an operation on `f` (both setters, in the order of
`Field.__init__`) -/
def ctorMeta (f : Fld) : M (Option (List String) × List (String × String)) :=
  match ctorVdims f.nvdim f.vdims with
  | .error e => .error e
  | .ok vd =>
    match ctorVmap f.nvdim vd f.vmap with
    | .error e => .error e
    | .ok vm => .ok (vd, vm)

def metaOk (f : Fld) : Bool :=
  match ctorMeta f with
  | .ok _ => true
  | .error _ => false

def metaOf (f : Fld) : Option (List String) × List (String × String) :=
  match ctorMeta f with
  | .ok p => p
  | .error _ => (f.vdims, f.vmap)

/-- the `Field(mesh, nvdim=self.nvdim, value=…, vdims=self.vdims, unit=self.unit, valid=…,
vdim_mapping=self.vdim_mapping)` call at the end of every operation: the value array and the
mask must have the shape of the mesh, the label and mapping setters must accept; component
count and unit are handed over unchanged -/
def mkFld (m : Mesh) (f : Fld) (data : NDA (List Rat)) (valid : NDA Bool) : M Fld :=
  if data.shape ≠ m.n ∨ valid.shape ≠ m.n ∨ metaOk f = false then .error .value
  else .ok { f with mesh := m, data := data, valid := valid,
                    vdims := (metaOf f).1, vmap := (metaOf f).2 }

inductive SelOut where
  | field (f : Fld)
  | values (v : List Rat)

/-- array part of `Field.sel` -/
def selData {α} (x : NDA α) (a : Nat) : SelIdx → NDA α
  | .plane _ k => x.take a k
  | .range _ _ k1 k2 => x.slice a k1 (k2 + 1)

/-- `Field.sel`: slicing by the normalised index, mesh by `Mesh.sel`; on a 1-d mesh a plane
selection returns the bare value (the mesh constructor's "empty" error is caught) -/
def selFld (f : Fld) (dim : String) (arg : SelArg) : M SelOut :=
  match selConvert f.mesh dim arg with
  | .error e => .error e
  | .ok ai =>
    match selMesh f.mesh dim arg with
    | .error e =>
      match ai.2 with
      | .plane _ _ =>
        if f.mesh.ndim = 1 then .ok (.values ((selData f.data ai.1 ai.2).get [])) else .error e
      | .range _ _ _ _ => .error e
    | .ok m =>
      match mkFld m f (selData f.data ai.1 ai.2) (selData f.valid ai.1 ai.2) with
      | .error e => .error e
      | .ok g => .ok (.field g)

/-! ## `Mesh.__getitem__`, `Field.__getitem__`, `region2slices` -/

/-- index of the last cell needed to cover `x` from below: `ceil((x - pmin)/cell) - 1` -/
def upperIdx (m : Mesh) (a : Nat) (x : Rat) : Int := ((x - m.region.lo a) / m.cellAt a).ceil - 1

/-- … clipped to the valid indices (`np.clip(p2_idx, 0, n - 1)`) -/
def upperIdxC (m : Mesh) (a : Nat) (x : Rat) : Int :=
  Mesh.clipInt (upperIdx m a x) 0 ((m.nAt a : Int) - 1)

/-- `mesh[region]`: smallest block of whole cells containing `item` -/
def getRegion (m : Mesh) (item : Region) : M Mesh :=
  if !m.region.containsReg item then .error .value
  else
    match m.point2index item.pmin with
    | .error e => .error e
    | .ok i1 =>
      match m.index2point (natsToInts i1) with
      | .error e => .error e
      | .ok c1 =>
        match m.index2point (tab m.ndim fun a => upperIdxC m a (item.hi a)) with
        | .error e => .error e
        | .ok c2 =>
          match Region.mk? (tab m.ndim fun a => c1.getD a 0 - m.cellAt a / 2)
              (tab m.ndim fun a => c2.getD a 0 + m.cellAt a / 2)
              (some m.region.dims) (some m.region.units) m.region.tol with
          | .error e => .error e
          | .ok r => Mesh.mkCell? r m.cell ""

def findSub (subs : List (String × Region)) (name : String) : Option Region :=
  (subs.find? fun p => p.1 == name).map (·.2)

/-- `mesh[name]` -/
def getName (m : Mesh) (name : String) : M Mesh :=
  match findSub m.subs name with
  | none => .error .key
  | some s => Mesh.mkCell? s m.cell ""

inductive Item where
  | name (s : String)
  | region (r : Region)

def getMesh (m : Mesh) : Item → M Mesh
  | .name s => getName m s
  | .region r => getRegion m r

/-- `a[lo₀ : lo₀+n₀, lo₁ : lo₁+n₁, …]` with NumPy's clamping of slices to the shape -/
def sliceBlock {α} (x : NDA α) (lo n : List Nat) : NDA α :=
  ⟨tab x.shape.length fun b =>
      min (lo.getD b 0 + n.getD b 0) (x.shape.getD b 0) - min (lo.getD b 0) (x.shape.getD b 0),
   fun i => x.get (tab x.shape.length fun b => i.getD b 0 + lo.getD b 0)⟩

/-- `field[item]` -/
def getItem (f : Fld) (item : Item) : M Fld :=
  match getMesh f.mesh item with
  | .error e => .error e
  | .ok sm =>
    match sm.index2point (List.replicate sm.ndim 0) with
    | .error e => .error e
    | .ok p0 =>
      match f.mesh.point2index p0 with
      | .error e => .error e
      | .ok imin => mkFld sm f (sliceBlock f.data imin sm.n) (sliceBlock f.valid imin sm.n)

/-- `Mesh.region2slices`: `(start, stop)` per axis -/
def region2slices (m : Mesh) (r : Region) : M (List (Nat × Nat)) :=
  if r.ndim ≠ m.ndim then .error .value
  else
    match m.point2index (tab m.ndim fun a => r.lo a + m.cellAt a / 2) with
    | .error e => .error e
    | .ok i1 =>
      match m.point2index (tab m.ndim fun a => r.hi a - m.cellAt a / 2) with
      | .error e => .error e
      | .ok i2 => .ok (tab m.ndim fun a => (i1.getD a 0, i2.getD a 0 + 1))

/-! ## padding -/

/-- one entry of the `pad_width` dictionary -/
structure PadW where
  dim : String
  lo : Int
  hi : Int
  deriving Repr

/-- the loop of `Mesh.pad` over the dictionary -/
def padCorners (m : Mesh) : List PadW → List Rat → List Rat → M (List Rat × List Rat)
  | [], pmin, pmax => .ok (pmin, pmax)
  | w :: rest, pmin, pmax =>
    match m.region.dim2index w.dim with
    | .error e => .error e
    | .ok a =>
      padCorners m rest (setAt pmin a (pmin.getD a 0 - (w.lo : Rat) * m.cellAt a))
        (setAt pmax a (pmax.getD a 0 + (w.hi : Rat) * m.cellAt a))

/-- `Mesh.pad` -/
def padMesh (m : Mesh) (pw : List PadW) : M Mesh :=
  match padCorners m pw m.region.pmin m.region.pmax with
  | .error e => .error e
  | .ok pp =>
    match Region.mk? pp.1 pp.2 (some m.region.dims) (some m.region.units) m.region.tol with
    | .error e => .error e
    | .ok r => Mesh.mkCell? r m.cell m.bc

/-- the dictionary axis ↦ (before, after) built by `Field.pad` -/
def padAxes (m : Mesh) : List PadW → M (List (Nat × Int × Int))
  | [] => .ok []
  | w :: rest =>
    match m.region.dim2index w.dim with
    | .error e => .error e
    | .ok a =>
      match padAxes m rest with
      | .error e => .error e
      | .ok l => .ok ((a, w.lo, w.hi) :: l)

/-- pad widths of axis `b`: the dictionary entry, else `(0, 0)` (keys of a dict are distinct) -/
def widthOf : List (Nat × Int × Int) → Nat → Int × Int
  | [], _ => (0, 0)
  | e :: rest, b => if e.1 = b then e.2 else widthOf rest b

inductive PadMode where
  | constant | edge | wrap | symmetric | reflect
  deriving Repr, DecidableEq

/-- `numpy.pad` along one axis as an index map: source index of result position `j` for an
axis of `n` cells padded by `lo` cells in front; `none` = the constant fill value -/
def padSrc (mode : PadMode) (n lo j : Nat) : Option Nat :=
  if lo ≤ j ∧ j < lo + n then some (j - lo)
  else
    match mode with
    | .constant => none
    | .edge => if j < lo then some 0 else some (n - 1)
    | .wrap => some (((j : Int) - (lo : Int)) % (n : Int)).toNat
    | .symmetric =>
      if (((j : Int) - (lo : Int)) % (2 * (n : Int))) < (n : Int)
      then some (((j : Int) - (lo : Int)) % (2 * (n : Int))).toNat
      else some (2 * (n : Int) - 1 - (((j : Int) - (lo : Int)) % (2 * (n : Int)))).toNat
    | .reflect =>
      if n = 1 then some 0
      else if (((j : Int) - (lo : Int)) % (2 * (n : Int) - 2)) < (n : Int)
      then some (((j : Int) - (lo : Int)) % (2 * (n : Int) - 2)).toNat
      else some (2 * (n : Int) - 2 - (((j : Int) - (lo : Int)) % (2 * (n : Int) - 2))).toNat

/-- source multi-index of result multi-index `j` (`none` if some axis hits the constant fill) -/
def padSrcIdx (mode : PadMode) (shape : List Nat) (w : Nat → Int × Int) (j : List Nat) :
    Option (List Nat) :=
  if allLt shape.length (fun b =>
      (padSrc mode (shape.getD b 0) (w b).1.toNat (j.getD b 0)).isSome)
  then some (tab shape.length fun b =>
      (padSrc mode (shape.getD b 0) (w b).1.toNat (j.getD b 0)).getD 0)
  else none

/-- `np.pad(x, widths, mode)` on the spatial axes -/
def padNDA {α} (mode : PadMode) (w : Nat → Int × Int) (fill : α) (x : NDA α) : NDA α :=
  ⟨tab x.shape.length fun b => x.shape.getD b 0 + (w b).1.toNat + (w b).2.toNat,
   fun j => match padSrcIdx mode x.shape w j with
     | some i => x.get i
     | none => fill⟩

/-- `Field.pad` -/
def padFld (f : Fld) (pw : List PadW) (mode : PadMode) : M Fld :=
  match padAxes f.mesh pw with
  | .error e => .error e
  | .ok d =>
    if d.any (fun e => decide (e.2.1 < 0) || decide (e.2.2 < 0)) then .error .value
    else
      match padMesh f.mesh pw with
      | .error e => .error e
      | .ok m =>
        mkFld m f (padNDA mode (widthOf d) (List.replicate f.nvdim 0) f.data)
          (padNDA mode (widthOf d) false f.valid)

/-! ## resampling -/

/-- nearest entry of the coordinate table `cs 0 … cs m`; among equally near entries the
one with the larger index (pandas `get_indexer(method="nearest")` on an increasing index) -/
def nearestUpTo (cs : Nat → Rat) (x : Rat) : Nat → Nat
  | 0 => 0
  | k + 1 =>
    if absR (cs (k + 1) - x) ≤ absR (cs (nearestUpTo cs x k) - x) then k + 1
    else nearestUpTo cs x k

/-- coordinate `k` of axis `a` (`mesh.cells`) -/
def coord (m : Mesh) (a k : Nat) : Rat := (m.cells.getD a []).getD k 0

/-- index of the source cell whose centre coordinate is nearest to `x` along axis `a` -/
def nearestAx (m : Mesh) (a : Nat) (x : Rat) : Nat := nearestUpTo (coord m a) x (m.nAt a - 1)

/-- the lookup `val.to_xarray().sel(**target.cells, method="nearest")` -/
def resampleNDA {α} (src tgt : Mesh) (x : NDA α) : NDA α :=
  ⟨tgt.n, fun j => x.get (tab src.ndim fun a => nearestAx src a (coord tgt a (j.getD a 0)))⟩

/-- `Field.resample(n)` -/
def resample (f : Fld) (n : List Int) : M Fld :=
  if n.length ≠ f.mesh.ndim then .error .value
  else if n.any (fun k => decide (k ≤ 0)) then .error .value
  else
    match Mesh.mkN? f.mesh.region (n.map Int.toNat) with
    | .error e => .error e
    | .ok m =>
      if !f.mesh.region.containsReg m.region then .error .value
      else mkFld m f (resampleNDA f.mesh m f.data) (resampleNDA f.mesh m f.valid)

/-- source index of target cell `j` along an axis of `n` source and `n'` target cells, in closed form -/
def resampleIdx (n n' j : Nat) : Nat := ((2 * j + 1) * n) / (2 * n')

/-- the lookup of `resampleNDA` in closed form (no coordinate tables) -/
def resampleNDAFast {α} (src tgt : Mesh) (x : NDA α) : NDA α :=
  ⟨tgt.n, fun j => x.get (tab src.ndim fun a => resampleIdx (src.nAt a) (tgt.nAt a) (j.getD a 0))⟩

/-- `Field.resample(n)` with the nearest-coordinate lookup replaced by its closed form: linear
instead of quadratic in the axis length.  Equal to `resample` on every cell of every result
(theorem `resample_fast_refines`); the driver uses it for axes of thousands of cells. -/
def resampleFast (f : Fld) (n : List Int) : M Fld :=
  if n.length ≠ f.mesh.ndim then .error .value
  else if n.any (fun k => decide (k ≤ 0)) then .error .value
  else
    match Mesh.mkN? f.mesh.region (n.map Int.toNat) with
    | .error e => .error e
    | .ok m =>
      if !f.mesh.region.containsReg m.region then .error .value
      else mkFld m f (resampleNDAFast f.mesh m f.data) (resampleNDAFast f.mesh m f.valid)

/-! ## non-finite requests

Binary64 coordinates the code may be handed that are not numbers of the rational model: `+inf`,
`-inf`, `nan`.  The comparisons the code makes on them are modelled with their IEEE-754 meaning
(`nan` compares false with everything, also with itself; `-inf < q < +inf` for every finite `q`),
`numpy.isclose` of a finite bound with a non-finite value is false, `numpy.minimum` / `maximum`
propagate `nan`, and Python's `sorted` of a two-element sequence swaps exactly when the second
element compares `<` the first.  Everything after the containment test of `point2index` works on
finite numbers only (proved: `containsAxE_fin`), so from there on the rational model applies. -/

/-- a coordinate as the code may receive it: a finite number or one of the non-finite values -/
inductive ExtRat where
  | fin (q : Rat)
  | posInf
  | negInf
  | nan
  deriving Repr, DecidableEq

namespace ExtRat

/-- IEEE `<` -/
def lt : ExtRat → ExtRat → Bool
  | nan, _ => false
  | _, nan => false
  | fin a, fin b => decide (a < b)
  | fin _, posInf => true
  | fin _, negInf => false
  | posInf, _ => false
  | negInf, negInf => false
  | negInf, _ => true

/-- IEEE `<=` -/
def le : ExtRat → ExtRat → Bool
  | nan, _ => false
  | _, nan => false
  | fin a, fin b => decide (a ≤ b)
  | fin _, posInf => true
  | fin _, negInf => false
  | posInf, posInf => true
  | posInf, _ => false
  | negInf, _ => true

/-- `x + c` for a finite `c` -/
def addRat : ExtRat → Rat → ExtRat
  | fin q, c => fin (q + c)
  | posInf, _ => posInf
  | negInf, _ => negInf
  | nan, _ => nan

def toRat? : ExtRat → Option Rat
  | fin q => some q
  | _ => none

/-- `numpy.minimum` (propagates `nan`) -/
def minE (x y : ExtRat) : ExtRat :=
  match x, y with
  | nan, _ => nan
  | _, nan => nan
  | _, _ => if lt y x then y else x

/-- `numpy.maximum` (propagates `nan`) -/
def maxE (x y : ExtRat) : ExtRat :=
  match x, y with
  | nan, _ => nan
  | _, nan => nan
  | _, _ => if lt x y then y else x

/-- `x - y != 0` in IEEE arithmetic: only two equal finite numbers have difference zero -/
def diffNonzero : ExtRat → ExtRat → Bool
  | fin a, fin b => decide (a ≠ b)
  | _, _ => true

end ExtRat

/-- all entries finite -> the rational list -/
def finList? : List ExtRat → Option (List Rat)
  | [] => some []
  | x :: rest =>
    match x.toRat?, finList? rest with
    | some q, some l => some (q :: l)
    | _, _ => none

/-- `np.isclose(a, b, rtol, atol)` for a finite bound `a` and a possibly non-finite `b` -/
def iscloseE (a : Rat) (b : ExtRat) (rtol atol : Rat) : Bool :=
  match b with
  | .fin q => Region.isclose a q rtol atol
  | _ => false

/-- one axis of `point in region` with IEEE comparisons -/
def containsAxE (r : Region) (a : Nat) (x : ExtRat) : Bool :=
  (ExtRat.le (.fin (r.lo a)) x || iscloseE (r.lo a) x r.tol r.atol) &&
  (ExtRat.le x (.fin (r.hi a)) || iscloseE (r.hi a) x r.tol r.atol)

/-- `point in region` -/
def containsPtE (r : Region) (p : List ExtRat) : Bool :=
  decide (p.length = r.ndim) && allLt r.ndim fun a => containsAxE r a (p.getD a (.fin 0))

/-- `Mesh.point2index` on a point that may have non-finite coordinates: length test, containment
test, then floor and clip (on finite numbers: a contained point is finite) -/
def point2indexE (m : Mesh) (p : List ExtRat) : M (List Nat) :=
  if p.length ≠ m.ndim then .error .value
  else if !containsPtE m.region p then .error .value
  else
    match finList? p with
    | none => .error .value
    | some q => .ok (tab m.ndim fun a => m.indexAx a (q.getD a 0))

inductive SelArgE where
  | centre
  | point (x : ExtRat)
  | range (x y : ExtRat)
  | bad
  deriving Repr, DecidableEq

/-- `region.pmin` with coordinate `a` replaced by `x` -/
def testPointE (m : Mesh) (a : Nat) (x : ExtRat) : List ExtRat := setAt (m.region.pmin.map .fin) a x

def cellOfE (m : Mesh) (a : Nat) (p : List ExtRat) : M (Rat × Nat) :=
  match point2indexE m p with
  | .error e => .error e
  | .ok idx =>
    match m.index2point (natsToInts idx) with
    | .error e => .error e
    | .ok c => .ok (c.getD a 0, idx.getD a 0)

/-- `range_ < pmin[a] or range_ > pmax[a]` (both false for `nan`), then the cell lookup -/
def selOneE (m : Mesh) (a : Nat) (x : ExtRat) : M (Rat × Nat) :=
  if ExtRat.lt x (.fin (m.region.lo a)) || ExtRat.lt (.fin (m.region.hi a)) x then .error .value
  else cellOfE m a (testPointE m a x)

/-- `sorted((x, y))`: the two are swapped exactly when `y < x` -/
def sort2 (x y : ExtRat) : ExtRat × ExtRat := if ExtRat.lt y x then (y, x) else (x, y)

/-- `_sel_convert_input` on possibly non-finite values -/
def selConvertE (m : Mesh) (dim : String) (arg : SelArgE) : M (Nat × SelIdx) :=
  match m.region.dim2index dim with
  | .error e => .error e
  | .ok a =>
    match arg with
    | .bad => .error .value
    | .point x =>
      match selOneE m a x with
      | .error e => .error e
      | .ok ck => .ok (a, .plane ck.1 ck.2)
    | .range x y =>
      match selOneE m a (sort2 x y).1 with
      | .error e => .error e
      | .ok ck1 =>
        match selOneE m a (sort2 x y).2 with
        | .error e => .error e
        | .ok ck2 => .ok (a, .range ck1.1 ck2.1 ck1.2 ck2.2)
    | .centre =>
      match cellOf m a m.region.center with
      | .error e => .error e
      | .ok ck => .ok (a, .plane ck.1 ck.2)

/-- `Mesh.sel` -/
def selMeshE (m : Mesh) (dim : String) (arg : SelArgE) : M Mesh :=
  match selConvertE m dim arg with
  | .error e => .error e
  | .ok ai => selMeshOf m ai.1 ai.2

/-- `Field.sel` -/
def selFldE (f : Fld) (dim : String) (arg : SelArgE) : M SelOut :=
  match selConvertE f.mesh dim arg with
  | .error e => .error e
  | .ok ai =>
    match selMeshE f.mesh dim arg with
    | .error e =>
      match ai.2 with
      | .plane _ _ =>
        if f.mesh.ndim = 1 then .ok (.values ((selData f.data ai.1 ai.2).get [])) else .error e
      | .range _ _ _ _ => .error e
    | .ok m =>
      match mkFld m f (selData f.data ai.1 ai.2) (selData f.valid ai.1 ai.2) with
      | .error e => .error e
      | .ok g => .ok (.field g)

/-- corners of `Region(p1=…, p2=…)` (default names and units) when the coordinates may be
non-finite: length tests, `numpy.minimum` / `maximum`, zero-edge test -/
def boxMkE? (p1 p2 : List ExtRat) : M (List ExtRat × List ExtRat) :=
  if p1.length ≠ p2.length then .error .value
  else if p1.length = 0 then .error .value
  else if !allLt p1.length (fun a => ExtRat.diffNonzero (p1.getD a (.fin 0)) (p2.getD a (.fin 0)))
    then .error .value
  else .ok (tab p1.length fun a => ExtRat.minE (p1.getD a (.fin 0)) (p2.getD a (.fin 0)),
            tab p1.length fun a => ExtRat.maxE (p1.getD a (.fin 0)) (p2.getD a (.fin 0)))

/-- the finite box as the `Region` the rational model works with (only the corners are read by
`mesh[region]` and `region2slices`) -/
def boxRegion (pmin pmax : List Rat) : Region :=
  { pmin := pmin, pmax := pmax, dims := Region.defaultDims pmin.length,
    units := List.replicate pmin.length "m", tol := 1/1000000000000 }

/-- `mesh[region]` for a region with corners `pmin`, `pmax`: `item not in self.region` with IEEE
comparisons, then (all coordinates finite) the rational model -/
def getRegionE (m : Mesh) (pmin pmax : List ExtRat) : M Mesh :=
  if !(containsPtE m.region pmin && containsPtE m.region pmax) then .error .value
  else
    match finList? pmin, finList? pmax with
    | some a, some b => getRegion m (boxRegion a b)
    | _, _ => .error .value

/-- `field[region]` -/
def getItemE (f : Fld) (pmin pmax : List ExtRat) : M Fld :=
  match getRegionE f.mesh pmin pmax with
  | .error e => .error e
  | .ok sm =>
    match sm.index2point (List.replicate sm.ndim 0) with
    | .error e => .error e
    | .ok p0 =>
      match f.mesh.point2index p0 with
      | .error e => .error e
      | .ok imin => mkFld sm f (sliceBlock f.data imin sm.n) (sliceBlock f.valid imin sm.n)

/-- `Mesh.region2slices` for a region with corners `pmin`, `pmax` -/
def region2slicesE (m : Mesh) (pmin pmax : List ExtRat) : M (List (Nat × Nat)) :=
  if pmin.length ≠ m.ndim then .error .value
  else
    match point2indexE m (tab m.ndim fun a => (pmin.getD a (.fin 0)).addRat (m.cellAt a / 2)) with
    | .error e => .error e
    | .ok i1 =>
      match point2indexE m (tab m.ndim fun a => (pmax.getD a (.fin 0)).addRat (-(m.cellAt a / 2))) with
      | .error e => .error e
      | .ok i2 => .ok (tab m.ndim fun a => (i1.getD a 0, i2.getD a 0 + 1))


/-! ## element type of the result's value array -/

/-- numpy dtype kinds `b`, `i` (also `u`), `f`, `c` -/
inductive DKind where
  | bool | int | float | complex
  deriving Repr, DecidableEq

/-- `dtype or max(np.asarray(val).dtype, np.float64)` of `_as_array` on an array, reduced to
kinds (everything that casts safely to `float64` becomes `float64`, complex stays complex) -/
def asArrayKind (dtype : Option DKind) (val : DKind) : DKind :=
  match dtype with
  | some d => d
  | none => match val with
    | .complex => .complex
    | _ => .float

inductive OpFam where
  | sel | getitem | pad | resample
  deriving Repr, DecidableEq

/-- kind of the result's value array for a source array of kind `k`: `sel`, `__getitem__` and
`pad` hand an array to the constructor without a `dtype`; `resample` hands the field itself,
and the field branch of `_as_array` returns the looked-up values as they are -/
def resultKind : OpFam → DKind → DKind
  | .resample, k => k
  | _, k => asArrayKind none k

end DFV.C07
