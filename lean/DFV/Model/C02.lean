import DFV.Model.Field
/-!
C02 model: `Field._as_array` (all overloads), `Field.update_field_values` / the `array`
setter (which re-validates), `Field.__call__`, `Field.__getattr__` (component access),
`Field.__iter__`, `Mesh.region2slices`, `Mesh.line`, `Field.line` + `Line.__init__`.

The cell value type `V` is a parameter: every function here only *moves* values (the one
test performed on a value is `val != 0`, passed as `isZero`), so the theorems hold verbatim
for int, float, complex and bool fields.  Arrays have the shape the property names,
`(*n, nvdim)`: an entry is addressed by `i ++ [c]` (cell `i`, component `c`).
Core Lean only.
-/
namespace DFV.C02
open DFV

variable {V : Type}

/-! ### NumPy broadcasting (`np.full(shape, value)`, `array[slices] = value`) -/

/-- may an array of shape `s` be broadcast to the fixed target shape `t`?  Trailing axes are
aligned; a source axis must have length 1 or the target's length. -/
def bcastOk (t s : List Nat) : Bool :=
  decide (s.length ≤ t.length) &&
    allLt s.length fun k => s.getD k 0 == 1 || s.getD k 0 == t.getD (t.length - s.length + k) 0

/-- source index read by target index `j` -/
def bcastIdx (t s : List Nat) (j : List Nat) : List Nat :=
  tab s.length fun k => if s.getD k 0 = 1 then 0 else j.getD (t.length - s.length + k) 0

def bcast (t : List Nat) (a : NDA V) : M (NDA V) :=
  if bcastOk t a.shape then .ok ⟨t, fun j => a.get (bcastIdx t a.shape j)⟩ else .error .value

/-! ### field state relevant to C02 -/

structure VF (V : Type) where
  mesh : Mesh
  nvdim : Nat
  /-- shape `mesh.n ++ [nvdim]` -/
  data : NDA V
  vdims : Option (List String)

/-- the `nvdim` values of cell `i` -/
def row (a : NDA V) (nv : Nat) (i : List Nat) : List V := tab nv fun c => a.get (i ++ [c])

/-- `Field.__call__`: `array[mesh.point2index(point)]` -/
def VF.call (f : VF V) (p : List Rat) : M (List V) :=
  match f.mesh.point2index p with
  | .error e => .error e
  | .ok i => .ok (row f.data f.nvdim i)

/-! ### nearest-neighbour selection (xarray `.sel(method="nearest")`, modelled by contract:
nearest coordinate, ties go to the larger index) -/

def pick (cf : Nat → Rat) (x : Rat) (b k : Nat) : Nat :=
  if absR (cf k - x) ≤ absR (cf b - x) then k else b

/-- nearest of the coordinates `cf 0 … cf N` to `x` -/
def nearestFn (cf : Nat → Rat) (x : Rat) : Nat → Nat
  | 0 => 0
  | N + 1 => pick cf x (nearestFn cf x N) (N + 1)

/-- per axis: index of the source cell whose centre (`src.mesh.cells`) is nearest to the
target cell's centre (`mesh.cells`) -/
def nearestIdx (sm m : Mesh) (i : List Nat) : List Nat :=
  tab m.ndim fun a =>
    nearestFn (fun k => (sm.cells.getD a []).getD k 0) ((m.cells.getD a []).getD (i.getD a 0) 0)
      (sm.nAt a - 1)

/-! ### value specifications -/

/-- a value specification that is not a dictionary -/
inductive Leaf (V : Type) where
  /-- `numbers.Complex` -/
  | scalar (v : V)
  /-- any (regular) iterable: tuple, list, ndarray; `np.shape(val) = a.shape` -/
  | arr (a : NDA V)
  /-- callable; the result is flattened with `np.asarray(·).reshape(nvdim)` -/
  | func (f : List Rat → List V)
  /-- another field -/
  | field (src : VF V)
  /-- `str`, `None`, … : no overload -/
  | bad

/-- the `"default"` entry of a dictionary -/
inductive Dflt (V : Type) where
  /-- not callable: handed to `np.full` (a scalar is a 0-d array) -/
  | val (a : NDA V)
  /-- callable -/
  | func (f : List Rat → List V)
  /-- a field (fields are callable: sampled with `__call__`) -/
  | field (src : VF V)
  /-- not callable and not convertible (`str`) -/
  | bad

inductive Spec (V : Type) where
  | leaf (l : Leaf V)
  /-- keys other than `"default"` in insertion order, and the default -/
  | dict (items : List (String × Leaf V)) (dflt : Option (Dflt V))

section
variable [Inhabited V]

/-- `array[idx] = vs` for a spatial index `idx` (all components of one cell) -/
def setCell (a : NDA V) (idx : List Nat) (vs : List V) : NDA V :=
  ⟨a.shape, fun j => if j.dropLast = idx then vs.getD (j.getLastD 0) default else a.get j⟩

/-- the loop of the callable overload:
`for index, point in zip(mesh.indices, mesh): array[index] = asarray(val(point)).reshape(nvdim)` -/
def funcLoop (f : List Rat → List V) (nv : Nat) : List (List Nat × List Rat) → NDA V → M (NDA V)
  | [], a => .ok a
  | (idx, pt) :: rest, a =>
    if (f pt).length ≠ nv then .error .value else funcLoop f nv rest (setCell a idx (f pt))

/-- `_as_array` for everything but dictionaries -/
def asLeaf (isZero : V → Bool) (l : Leaf V) (m : Mesh) (nv : Nat) : M (NDA V) :=
  match l with
  | .bad => .error .type
  | .scalar v =>
    if 1 < nv ∧ isZero v = false then .error .value else .ok (NDA.const (m.n ++ [nv]) v)
  | .arr a =>
    if nv = 1 ∧ a.shape = m.n then .ok ⟨m.n ++ [1], fun j => a.get j.dropLast⟩
    else if a.shape.getLast? ≠ some nv then .error .value
    else bcast (m.n ++ [nv]) a
  | .func f => funcLoop f nv ((indicesCode m.n).zip m.iter) (NDA.const (m.n ++ [nv]) default)
  | .field src =>
    if !src.mesh.region.containsReg m.region then .error .value
    else if src.nvdim ≠ nv then .error .value
    else if m.region.dims ≠ src.mesh.region.dims then .error .key
    else .ok ⟨m.n ++ [src.nvdim],
              fun j => src.data.get (nearestIdx src.mesh m j.dropLast ++ [j.getLastD 0])⟩

/-! ### dictionaries -/

/-- `Mesh.region2slices`: `(start, stop)` per axis -/
def region2slices (m : Mesh) (r : Region) : M (List Nat × List Nat) :=
  match m.point2index (tab m.ndim fun a => r.lo a + m.cellAt a / 2) with
  | .error e => .error e
  | .ok i1 =>
    match m.point2index (tab m.ndim fun a => r.hi a - m.cellAt a / 2) with
    | .error e => .error e
    | .ok i2 => .ok (i1, tab m.ndim fun a => i2.getD a 0 + 1)

/-- is the spatial part of index `i` inside the slices -/
def inBox (lo hi i : List Nat) : Bool :=
  allLt lo.length fun a => decide (lo.getD a 0 ≤ i.getD a 0) && decide (i.getD a 0 < hi.getD a 0)

def boxShape (lo hi : List Nat) : List Nat := tab lo.length fun a => hi.getD a 0 - lo.getD a 0

/-- index relative to the start of the slices (the component axis is not shifted) -/
def localIdx (lo j : List Nat) : List Nat := tab j.length fun a => j.getD a 0 - lo.getD a 0

/-- `array[slices] = sub; unset[slices] = False`.  The pair (array, Boolean mask `unset` of the
cells still waiting for the default) is modelled as one array of `Option V`: `none` = unset. -/
def paint (a : NDA (Option V)) (lo hi : List Nat) (nv : Nat) (sub : NDA V) : M (NDA (Option V)) :=
  match bcast (boxShape lo hi ++ [nv]) sub with
  | .error e => .error e
  | .ok sb => .ok ⟨a.shape, fun j => if inBox lo hi j then some (sb.get (localIdx lo j)) else a.get j⟩

def lookupLeaf (items : List (String × Leaf V)) (name : String) : Option (Leaf V) :=
  (items.find? fun p => p.1 == name).map (·.2)

/-- the body of `for subregion in reversed(mesh.subregions.keys())`, over the subregions in
the order given (the caller passes the reversed list) -/
def dictLoop (isZero : V → Bool) (items : List (String × Leaf V)) (m : Mesh) (nv : Nat) :
    List (String × Region) → NDA (Option V) → M (NDA (Option V))
  | [], a => .ok a
  | (name, reg) :: rest, a =>
    match Mesh.mkCell? reg m.cell with          -- submesh = mesh[subregion]
    | .error e => .error e
    | .ok sm =>
      match lookupLeaf items name with          -- subval = val[subregion]; KeyError → continue
      | none => dictLoop isZero items m nv rest a
      | some l =>
        match region2slices m sm.region with
        | .error e => .error e
        | .ok sl =>
          match asLeaf isZero l sm nv with
          | .error e => .error e
          | .ok sub =>
            match paint a sl.1 sl.2 nv sub with
            | .error e => .error e
            | .ok a' => dictLoop isZero items m nv rest a'

/-- initial state: the non-callable default everywhere with `unset` all `False`, else every cell
unset (independent of the dtype: the mask is Boolean) -/
def fillOf (dflt : Option (Dflt V)) (m : Mesh) (nv : Nat) : M (NDA (Option V)) :=
  match dflt with
  | some (.val a) =>
    match bcast (m.n ++ [nv]) a with
    | .error e => .error e
    | .ok b => .ok (b.map some)
  | some .bad => .error .value
  | _ => .ok (NDA.const (m.n ++ [nv]) none)

/-- `subval(mesh.index2point(idx))` -/
def dfltCell (d : Dflt V) (m : Mesh) (i : List Nat) : M (List V) :=
  match m.index2point (i.map Int.ofNat) with
  | .error e => .error e
  | .ok p =>
    match d with
    | .func f => .ok (f p)
    | .field src => src.call p
    | _ => .error .type

def setCellO (a : NDA (Option V)) (idx : List Nat) (vs : List V) : NDA (Option V) :=
  ⟨a.shape, fun j => if j.dropLast = idx then some (vs.getD (j.getLastD 0) default) else a.get j⟩

/-- `for idx in np.argwhere(unset): array[tuple(idx)] = …reshape(nvdim)` -/
def dfltLoop (d : Dflt V) (m : Mesh) (nv : Nat) : List (List Nat) → NDA (Option V) → M (NDA (Option V))
  | [], a => .ok a
  | i :: rest, a =>
    match dfltCell d m i with
    | .error e => .error e
    | .ok vs => if vs.length ≠ nv then .error .value else dfltLoop d m nv rest (setCellO a i vs)

/-- `np.any(unset)` -/
def anyNone (a : NDA (Option V)) : Bool := (indicesC a.shape).any fun j => (a.get j).isNone

/-- `np.argwhere(unset)` (C order) -/
def nanCells (m : Mesh) (a : NDA (Option V)) : List (List Nat) :=
  (indicesC m.n).filter fun i => (a.get (i ++ [0])).isNone

def unwrap (a : NDA (Option V)) : NDA V := a.map fun o => o.getD default

/-- `Field._as_array(val, mesh, nvdim, dtype)` -/
def asArray (isZero : V → Bool) (s : Spec V) (m : Mesh) (nv : Nat) : M (NDA V) :=
  match s with
  | .leaf l => asLeaf isZero l m nv
  | .dict items dflt =>
    match fillOf dflt m nv with
    | .error e => .error e
    | .ok a0 =>
      match dictLoop isZero items m nv m.subs.reverse a0 with
      | .error e => .error e
      | .ok a1 =>
        if anyNone a1 then
          match dflt with
          | none => .error .key
          | some d =>
            match dfltLoop d m nv (nanCells m a1) a1 with
            | .error e => .error e
            | .ok a2 => .ok (unwrap a2)
        else .ok (unwrap a1)

/-- `Field.update_field_values(value)`: `self.array = self._as_array(value, …)`, and the
`array` setter converts once more (`self._array = self._as_array(val, …)`) -/
def updateValues (isZero : V → Bool) (s : Spec V) (m : Mesh) (nv : Nat) : M (NDA V) :=
  match asArray isZero s m nv with
  | .error e => .error e
  | .ok a => asLeaf isZero (.arr a) m nv

/-- `Field(mesh, nvdim=…, value=…, vdims=…)` as far as the values are concerned -/
def VF.mk? (isZero : V → Bool) (m : Mesh) (nv : Nat) (s : Spec V)
    (vdims : Option (List String)) : M (VF V) :=
  match updateValues isZero s m nv with
  | .error e => .error e
  | .ok a => .ok ⟨m, nv, a, vdims⟩

/-- `field.array = val` on an existing field: the new state, or the error (state kept) -/
def VF.setArray (isZero : V → Bool) (f : VF V) (l : Leaf V) : M (VF V) :=
  match asLeaf isZero l f.mesh f.nvdim with
  | .error e => .error e
  | .ok a => .ok { f with data := a }

/-- `field.update_field_values(val)` on an existing field -/
def VF.update (isZero : V → Bool) (f : VF V) (s : Spec V) : M (VF V) :=
  match updateValues isZero s f.mesh f.nvdim with
  | .error e => .error e
  | .ok a => .ok { f with data := a }

/-- `field.array = val` for ANY value the dispatcher of `_as_array` knows — also a dictionary over
subregions: the setter converts once (`self._array = self._as_array(val, …)`) -/
def VF.setSpec (isZero : V → Bool) (f : VF V) (s : Spec V) : M (VF V) :=
  match asArray isZero s f.mesh f.nvdim with
  | .error e => .error e
  | .ok a => .ok { f with data := a }

/-- what the object holds after an attempted assignment: exceptions are raised before
`self._array` is rebound -/
def VF.after (f : VF V) (r : M (VF V)) : VF V :=
  match r with
  | .error _ => f
  | .ok g => g

/-- one assignment to an existing field -/
inductive Assign (V : Type) where
  /-- `field.array = val` -/
  | set (l : Leaf V)
  /-- `field.update_field_values(val)` -/
  | upd (s : Spec V)
  /-- `field.array = val` with any specification (also a dictionary) -/
  | setS (s : Spec V)

/-- the field object after one (accepted or rejected) assignment -/
def VF.step (isZero : V → Bool) (f : VF V) (op : Assign V) : VF V :=
  match op with
  | .set l => f.after (f.setArray isZero l)
  | .upd s => f.after (f.update isZero s)
  | .setS s => f.after (f.setSpec isZero s)

/-- the field object after a sequence of assignments, each one accepted or rejected -/
def VF.run (isZero : V → Bool) (f : VF V) (ops : List (Assign V)) : VF V := ops.foldl (VF.step isZero) f

/-- `Field.__getattr__(label)`: `array[..., vdims.index(label), np.newaxis]` handed to the
constructor of a scalar field -/
def VF.comp (isZero : V → Bool) (f : VF V) (label : String) : M (VF V) :=
  match f.vdims with
  | none => .error .value
  | some vs =>
    match indexOf? vs label with
    | none => .error .value
    | some k =>
      VF.mk? isZero f.mesh 1
        (.leaf (.arr ⟨f.mesh.n ++ [1], fun j => f.data.get (j.dropLast ++ [k])⟩)) none

/-- `Field.__iter__`: `for point in self.mesh: yield self(point)` -/
def VF.iter (f : VF V) : List (M (List V)) := f.mesh.iter.map f.call

end

/-! ### a field as value, computed with the closed formula of the source cell

Driver efficiency for source fields with thousands of cells (the nearest-centre scan of `asLeaf` is
quadratic in the source size).  `Lemmas/C02Fast.lean` proves that both conversions give the same
array whenever `fieldFastOk` holds. -/

/-- both meshes satisfy the mesh invariant, have the same number of dimensions, and the source region
contains the target region exactly -/
def fieldFastOk (src : VF V) (m : Mesh) : Bool :=
  m.invB && src.mesh.invB && decide (src.mesh.ndim = m.ndim) &&
    allLt m.ndim fun a =>
      decide (src.mesh.region.lo a ≤ m.region.lo a) && decide (m.region.hi a ≤ src.mesh.region.hi a)

/-- the `.field` case of `asLeaf` with the source cell `floor((centre − src.pmin) / src.cell)` per axis -/
def asLeafFieldFast (src : VF V) (m : Mesh) (nv : Nat) : M (NDA V) :=
  if !src.mesh.region.containsReg m.region then .error .value
  else if src.nvdim ≠ nv then .error .value
  else if m.region.dims ≠ src.mesh.region.dims then .error .key
  else .ok ⟨m.n ++ [src.nvdim],
            fun j => src.data.get ((tab m.ndim fun a =>
              src.mesh.indexAx a (m.centreAx a (j.dropLast.getD a 0 : Nat))) ++ [j.getLastD 0])⟩

/-! ### value types: which kind of array `_as_array` returns

`dtype` is what the caller asked for (`Field(…, dtype=…)`, kept in `self.dtype`; `none` = not
requested).  `vk` is the kind of the VALUE as NumPy sees it (`np.asarray(val).dtype`: a Python
`bool`/`int`/`float`/`complex`, the dtype of an array, the dtype of a source field's array).  The
four kinds are ordered by safe casting. -/

inductive Kind where
  | bool | int | float | complex
  deriving DecidableEq, Repr, Inhabited

def Kind.rank : Kind → Nat
  | .bool => 0 | .int => 1 | .float => 2 | .complex => 3

/-- Python's `max(a, b)` on NumPy dtypes (`b` if `b > a` else `a`; `>` = "can be cast safely from,
and different") -/
def Kind.pmax (a b : Kind) : Kind := if a.rank < b.rank then b else a

/-- kind of the array each overload of `_as_array` returns for a leaf -/
def leafKind (dtype : Option Kind) (vk : Kind) (l : Leaf V) (m : Mesh) (nv : Nat) : Kind :=
  match l with
  | .bad => dtype.getD .float                 -- (raises)
  | .scalar _ =>                               -- `dtype = dtype or max(np.asarray(val).dtype, np.float64); np.full(…, dtype=dtype)`
    match dtype with
    | some k => k
    | none => Kind.pmax vk .float
  | .arr a =>
    if nv = 1 ∧ a.shape = m.n then             -- `np.expand_dims(np.array(val, dtype=dtype), axis=-1)`
      match dtype with
      | some k => k
      | none => vk
    else
      match dtype with
      | some k => k
      | none => Kind.pmax vk .float
  | .func _ => dtype.getD .float              -- `np.empty((*mesh.n, nvdim), dtype=dtype)`
  | .field _ =>                                -- `value if dtype is None else np.array(value, dtype=dtype)`
    match dtype with
    | none => vk
    | some k => k

/-- kind of the array `_as_array` returns (dictionaries: `dtype = dtype or np.float64`, whatever the
kinds of the entries) — this is what the `array` setter stores -/
def specKind (dtype : Option Kind) (vk : Kind) (s : Spec V) (m : Mesh) (nv : Nat) : Kind :=
  match s with
  | .leaf l => leafKind dtype vk l m nv
  | .dict _ _ => dtype.getD .float

/-- kind of the array after `update_field_values` / the constructor: the first conversion's result
(an array of shape `(*n, nvdim)` of kind `specKind …`) is converted once more by the setter -/
def updKind [Inhabited V] (dtype : Option Kind) (vk : Kind) (s : Spec V) (m : Mesh) (nv : Nat) : Kind :=
  leafKind dtype (specKind dtype vk s m nv) (Leaf.arr (NDA.const (m.n ++ [nv]) (default : V))) m nv

/-! ### ownership: every conversion returns a NEW array

A session holds array buffers (`store`, addressed by position) and field objects pointing to
their `_array` buffer.  Buffers that no field points to are the caller's own arrays.  Assignments
allocate; in-place writes (`arr[j] = v`, `field.array[j] = v`) change one buffer. -/

structure Obj where
  mesh : Mesh
  nvdim : Nat
  vdims : Option (List String)
  /-- address of `_array` -/
  addr : Nat

structure Sess (V : Type) where
  store : List (NDA V)
  objs : List Obj

/-- where the assigned value comes from -/
inductive Src (V : Type) where
  /-- another field object of the session -/
  | obj (j : Nat)
  /-- an array of the session (the caller's, or some field's `.array`) -/
  | buf (b : Nat)
  /-- a value that owns no array: number, function, dictionary of such -/
  | pure (s : Spec V)

inductive Stmt (V : Type) where
  /-- `objs[i].array = src` -/
  | set (i : Nat) (src : Src V)
  /-- `objs[i].update_field_values(src)` -/
  | upd (i : Nat) (src : Src V)
  /-- `objs.append(Field(objs[i].mesh, nvdim=objs[i].nvdim, value=src, vdims=objs[i].vdims))` -/
  | new (i : Nat) (src : Src V)
  /-- `store[b][j] = v` in place -/
  | poke (b : Nat) (j : List Nat) (v : V)
  /-- `store[b][...] = v` in place -/
  | fill (b : Nat) (v : V)

section
variable [Inhabited V]

def Sess.buf (st : Sess V) (b : Nat) : NDA V := st.store.getD b (NDA.const [] default)

def Sess.obj (st : Sess V) (i : Nat) : Obj := st.objs.getD i ⟨default, 0, none, 0⟩

/-- field object `i` as a value: its array is the buffer it points to -/
def Sess.field (st : Sess V) (i : Nat) : VF V :=
  ⟨(st.obj i).mesh, (st.obj i).nvdim, st.buf (st.obj i).addr, (st.obj i).vdims⟩

/-- the specification a source stands for, read from the store NOW -/
def Sess.spec (st : Sess V) : Src V → Spec V
  | .obj j => .leaf (.field (st.field j))
  | .buf b => .leaf (.arr (st.buf b))
  | .pure s => s

/-- `a[j] = v` -/
def pokeNDA (a : NDA V) (j : List Nat) (v : V) : NDA V := ⟨a.shape, fun k => if k = j then v else a.get k⟩

/-- one statement; a rejected assignment leaves the session as it was (`none` = rejected) -/
def Sess.step (isZero : V → Bool) (st : Sess V) : Stmt V → Sess V × Bool
  | .set i src =>
    if i < st.objs.length then
      match asArray isZero (st.spec src) (st.obj i).mesh (st.obj i).nvdim with
      | .error _ => (st, false)
      | .ok a => ({ store := st.store ++ [a], objs := st.objs.set i { st.obj i with addr := st.store.length } }, true)
    else (st, false)
  | .upd i src =>
    if i < st.objs.length then
      match updateValues isZero (st.spec src) (st.obj i).mesh (st.obj i).nvdim with
      | .error _ => (st, false)
      | .ok a => ({ store := st.store ++ [a], objs := st.objs.set i { st.obj i with addr := st.store.length } }, true)
    else (st, false)
  | .new i src =>
    if i < st.objs.length then
      match updateValues isZero (st.spec src) (st.obj i).mesh (st.obj i).nvdim with
      | .error _ => (st, false)
      | .ok a => ({ store := st.store ++ [a], objs := st.objs ++ [{ st.obj i with addr := st.store.length }] }, true)
    else (st, false)
  | .poke b j v =>
    if b < st.store.length then ({ st with store := st.store.set b (pokeNDA (st.buf b) j v) }, true) else (st, false)
  | .fill b v =>
    if b < st.store.length then ({ st with store := st.store.set b (NDA.const (st.buf b).shape v) }, true)
    else (st, false)

def Sess.run (isZero : V → Bool) (st : Sess V) (prog : List (Stmt V)) : Sess V :=
  prog.foldl (fun s c => (s.step isZero c).1) st

end

/-! ### lines -/

/-- `Mesh.line(p1, p2, n)` -/
def meshLine (m : Mesh) (p1 p2 : List Rat) (n : Nat) : M (List (List Rat)) :=
  if !m.region.containsPt p1 || !m.region.containsPt p2 then .error .value
  else if n < 2 then .error .value
  else .ok (tab n fun i => tab m.ndim fun a =>
    p1.getD a 0 + (i : Rat) * ((p2.getD a 0 - p1.getD a 0) / ((n : Rat) - 1)))

def seqM {α : Type} : List (M α) → M (List α)
  | [] => .ok []
  | x :: xs =>
    match x with
    | .error e => .error e
    | .ok v =>
      match seqM xs with
      | .error e => .error e
      | .ok vs => .ok (v :: vs)

def listSum : List Rat → Rat
  | [] => 0
  | x :: xs => x + listSum xs

/-- squared Euclidean distance (the data frame's `r` column is its square root) -/
def sqDist (p q : List Rat) : Rat :=
  listSum (tab p.length fun a => (p.getD a 0 - q.getD a 0) * (p.getD a 0 - q.getD a 0))

structure LineOut (V : Type) where
  points : List (List Rat)
  values : List (List V)
  /-- squared distance of every point from the first one -/
  r2 : List Rat

/-- `Field.line(p1, p2, n)` + `Line.__init__` (the point table has one column per spatial
dimension, also on 1-d meshes) -/
def VF.line (f : VF V) (p1 p2 : List Rat) (n : Nat) : M (LineOut V) :=
  match meshLine f.mesh p1 p2 n with
  | .error e => .error e
  | .ok pts =>
    match seqM (pts.map f.call) with
    | .error e => .error e
    | .ok vals => .ok ⟨pts, vals, pts.map fun p => sqDist p (pts.getD 0 [])⟩

/-! ### the data frame of a line (`Line.__init__`) and its column names (`Field.line`) -/

/-- a column of the data frame: the distances from the first point (held SQUARED: the frame's
`r` column is their square root), coordinates, or field values -/
inductive Col (V : Type) where
  | dist2 (xs : List Rat)
  | num (xs : List Rat)
  | val (xs : List V)

/-- `data[name] = col` on a pandas data frame: an existing column is overwritten in place (it
keeps its position), a new name is appended -/
def setCol (fr : List (String × Col V)) (name : String) (c : Col V) : List (String × Col V) :=
  match fr with
  | [] => [(name, c)]
  | (k, x) :: rest => if k = name then (k, c) :: rest else (k, x) :: setCol rest name c

/-- `value_columns=[f"v{dim}" for dim in self.vdims] if self.vdims is not None else (["v"] if
self.nvdim == 1 else [f"v{i}" for i in range(self.nvdim)])`: labelled components are `v<label>`, an
unlabelled scalar field has the one column `v`, an unlabelled vector field `v0, v1, …` -/
def valueColumns (vdims : Option (List String)) (nv : Nat) : List String :=
  match vdims with
  | some vs => vs.map fun d => "v" ++ d
  | none => if nv = 1 then ["v"] else (List.range nv).map fun i => s!"v{i}"

/-- the assignments `Line.__init__` performs, in order: `data["r"] = …`, then
`for i, column in enumerate(point_columns): data[column] = points[..., i]`, then
`for i, column in zip(range(values.shape[-1]), value_columns): data[column] = values[..., i]`
(`zip` stops at the shorter of the two).  The distance column is held squared. -/
def frameAssigns [Inhabited V] (dims vcols : List String) (nv : Nat) (o : LineOut V) : List (String × Col V) :=
  ("r", Col.dist2 o.r2) ::
    ((tab dims.length fun a => (dims.getD a "", Col.num (o.points.map fun p => p.getD a 0))) ++
     (tab (min nv vcols.length) fun c => (vcols.getD c "", Col.val (o.values.map fun v => v.getD c default))))

def applyAssigns (fr : List (String × Col V)) : List (String × Col V) → List (String × Col V)
  | [] => fr
  | p :: rest => applyAssigns (setCol fr p.1 p.2) rest

/-- `Line(points, values, point_columns, value_columns).data` -/
def lineFrame [Inhabited V] (dims vcols : List String) (nv : Nat) (o : LineOut V) : List (String × Col V) :=
  applyAssigns [] (frameAssigns dims vcols nv o)

/-- `data[name]` -/
def colOf (fr : List (String × Col V)) (name : String) : Option (Col V) :=
  (fr.find? fun p => p.1 == name).map (·.2)

/-- `Field.line(p1, p2, n).data`: point columns are named after the mesh dimensions, value columns
`v<label>` (or `v`) -/
def VF.lineData [Inhabited V] (f : VF V) (p1 p2 : List Rat) (n : Nat) : M (List (String × Col V)) :=
  match f.line p1 p2 n with
  | .error e => .error e
  | .ok o => .ok (lineFrame f.mesh.region.dims (valueColumns f.vdims f.nvdim) f.nvdim o)

/-! ### component labels: the `vdims` setter as the constructor runs it (`_vdims` is `None` before) -/

/-- labels given when the caller passes `vdims=None` -/
def defaultLabels (nv : Nat) : Option (List String) :=
  if 2 ≤ nv ∧ nv ≤ 3 then some (["x", "y", "z"].take nv)
  else if 3 < nv then some ((List.range nv).map fun i => s!"v{i}")
  else none

/-- `self.vdims = vdims` in `Field.__init__`; `reserved` = the names for which `hasattr(self, c)`
holds on a field without labels (attributes, properties and methods of the class) -/
def vdimsSet (reserved : List String) (nv : Nat) (vdims : Option (List String)) : M (Option (List String)) :=
  match vdims with
  | none => .ok (defaultLabels nv)
  | some vs =>
    if vs.length = 0 then .ok none
    else if vs.length ≠ nv then .error .value
    else if hasDup vs then .error .value
    else if vs.any fun c => reserved.contains c then .error .value
    else .ok (some vs)

/-- `Field(mesh, nvdim=…, value=…, vdims=…)`: `nvdim` check, `update_field_values`, `vdims` setter
(in this order) -/
def VF.new? [Inhabited V] (isZero : V → Bool) (reserved : List String) (m : Mesh) (nv : Nat) (s : Spec V)
    (vdims : Option (List String)) : M (VF V) :=
  if nv < 1 then .error .value
  else
    match updateValues isZero s m nv with
    | .error e => .error e
    | .ok a =>
      match vdimsSet reserved nv vdims with
      | .error e => .error e
      | .ok vd => .ok ⟨m, nv, a, vd⟩

end DFV.C02
