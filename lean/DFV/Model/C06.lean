import DFV.Model.Field
/-!
C06 model: `Field.integrate`, `Field.mean`, `Mesh.sel(dim)` (axis removal) and `Mesh.dV`.
Core Lean only.  Follows discretisedfield/field.py (`integrate`, `mean`) and mesh.py
(`sel`, `_sel_convert_input`, the `subregions` setter, `dV`) as they are now.

NumPy calls are modelled by their contract as index maps on `NDA`:
`np.sum(a, axis=k)` (`sumAxis`), `np.sum(a, axis=tuple(range(ndim)))` (`sumAll`, the sum of the
flat C-order buffer), `np.cumsum(a, axis=k)` (`cumTo`, the running accumulation),
`a.mean(axis=k)` = sum / count, `a.mean(axis=(k1,…))` = sum over the *set* of axes / count
(`maskSum`: an axis is summed iff its entry in the keep-mask is `false`).
-/
namespace DFV.C06
open DFV

/-! ## sums -/

/-- `f 0 + f 1 + … + f (n-1)` -/
def sumTo : Nat → (Nat → Rat) → Rat
  | 0, _ => 0
  | n + 1, f => sumTo n f + f n

/-- `np.cumsum(x)[k]` : running accumulation `x 0 + … + x k` -/
def cumTo (x : Nat → Rat) : Nat → Rat
  | 0 => x 0
  | k + 1 => cumTo x k + x (k + 1)

/-- sum of a list (left to right) -/
def lsum : List Rat → Rat
  | [] => 0
  | x :: xs => x + lsum xs

/-- multi-index with entry `k` inserted at position `ax` -/
def insertAt {α} (i : List α) (ax : Nat) (k : α) : List α := i.take ax ++ k :: i.drop ax

/-- nested sum over a whole shape: `Σ_{i0<n0} Σ_{i1<n1} … g [i0,i1,…]` (spec layer) -/
def nestSum : List Nat → (List Nat → Rat) → Rat
  | [], g => g []
  | n :: ns, g => sumTo n fun x => nestSum ns fun t => g (x :: t)

/-- sum over the axes whose keep-flag is `false`, at the reduced index `i` (which lists the
kept axes in their original order); a missing flag counts as `true` -/
def maskSum : List Nat → List Bool → (List Nat → Rat) → List Nat → Rat
  | [], _, g, _ => g []
  | n :: ns, false :: ks, g, i => sumTo n fun x => maskSum ns ks (fun t => g (x :: t)) i
  | _ :: ns, true :: ks, g, i => maskSum ns ks (fun t => g (i.headD 0 :: t)) i.tail
  | _ :: ns, [], g, i => maskSum ns [] (fun t => g (i.headD 0 :: t)) i.tail

/-- entries of `xs` whose flag is `true` (a missing flag counts as `true`) -/
def filterMask {α} : List Bool → List α → List α
  | _, [] => []
  | true :: ks, x :: xs => x :: filterMask ks xs
  | false :: ks, _ :: xs => filterMask ks xs
  | [], x :: xs => x :: filterMask [] xs

/-- product of the entries whose flag is `false` -/
def dropProd : List Bool → List Nat → Nat
  | false :: ks, n :: ns => n * dropProd ks ns
  | true :: ks, _ :: ns => dropProd ks ns
  | _, _ => 1

/-! ## array operations (value arrays carry a component list per cell) -/

/-- component `c` of cell `i` -/
def cget (a : NDA (List Rat)) (i : List Nat) (c : Nat) : Rat := (a.get i).getD c 0

/-- `np.sum(a, axis=ax)` for a spatial axis `ax` -/
def sumAxis (nv : Nat) (a : NDA (List Rat)) (ax : Nat) : NDA (List Rat) :=
  ⟨removeAt a.shape ax, fun i => tab nv fun c => sumTo (a.shape.getD ax 0) fun j => cget a (insertAt i ax j) c⟩

/-- `np.sum(a, axis=tuple(range(ndim)))`, component `c`: the sum of the C-order buffer -/
def sumAll (a : NDA (List Rat)) (c : Nat) : Rat := lsum (a.toList.map fun v => v.getD c 0)

/-- `a * h` -/
def scaleBy (nv : Nat) (h : Rat) (a : NDA (List Rat)) : NDA (List Rat) :=
  ⟨a.shape, fun i => tab nv fun c => cget a i c * h⟩

/-- `a / h` -/
def divBy (nv : Nat) (h : Rat) (a : NDA (List Rat)) : NDA (List Rat) :=
  ⟨a.shape, fun i => tab nv fun c => cget a i c / h⟩

/-- the cumulative branch of `Field.integrate`:
`tmp = a / 2; tmp[1:] += np.cumsum(a, axis)[:-1]; tmp * h` along axis `ax` -/
def cumAxis (nv : Nat) (h : Rat) (a : NDA (List Rat)) (ax : Nat) : NDA (List Rat) :=
  ⟨a.shape, fun i => tab nv fun c =>
    (if i.getD ax 0 = 0 then cget a i c / 2
     else cget a i c / 2 + cumTo (fun l => cget a (setAt i ax l) c) (i.getD ax 0 - 1)) * h⟩

/-- keep-mask of `a.mean(axis=tuple(axes))`: axis `k` is kept iff it is not listed -/
def keepMask (ndim : Nat) (axes : List Nat) : List Bool := tab ndim fun k => !axes.contains k

/-- `np.sum(a, axis=tuple(axes))` -/
def sumAxes (nv : Nat) (a : NDA (List Rat)) (axes : List Nat) : NDA (List Rat) :=
  ⟨filterMask (keepMask a.shape.length axes) a.shape, fun i => tab nv fun c =>
    maskSum a.shape (keepMask a.shape.length axes) (fun t => cget a t c) i⟩

/-- `a.mean(axis=tuple(axes))` = sum over the axes / number of summed entries -/
def meanAxes (nv : Nat) (a : NDA (List Rat)) (axes : List Nat) : NDA (List Rat) :=
  ⟨filterMask (keepMask a.shape.length axes) a.shape, fun i => tab nv fun c =>
    maskSum a.shape (keepMask a.shape.length axes) (fun t => cget a t c) i
      / (dropProd (keepMask a.shape.length axes) a.shape : Rat)⟩

/-! ## mesh: cell volume and axis removal -/

/-- `Mesh.dV = np.prod(self.cell)` -/
def dV (m : Mesh) : Rat := ratProd m.cell

/-- the coordinate along `ax` of the centre of the cell that contains the region centre
(`_sel_convert_input` with a bare dimension name) -/
def selCentre (m : Mesh) (ax : Nat) : M Rat :=
  match m.point2index m.region.center with
  | .error e => .error e
  | .ok idx =>
    match m.index2point (idx.map Int.ofNat) with
    | .error e => .error e
    | .ok p => .ok (p.getD ax 0)

/-- subregions that contain the selected coordinate along `ax`, with that axis removed
(`df.Region(p1=sub_p_1, p2=sub_p_2)`: default dims/units, may fail) -/
def projSubs (ax : Nat) (s : Rat) : List (String × Region) → M (List (String × Region))
  | [] => .ok []
  | (k, r) :: rest =>
    if r.hi ax < s || s < r.lo ax then projSubs ax s rest
    else
      match Region.mk? (removeAt r.pmin ax) (removeAt r.pmax ax) none none with
      | .error e => .error e
      | .ok r' =>
        match projSubs ax s rest with
        | .error e => .error e
        | .ok t => .ok ((k, r') :: t)

/-- `Mesh.is_aligned(other, tolerance)` of two meshes of the same dimension -/
def aligned (m o : Mesh) (tol : Rat) : Bool :=
  allLt m.ndim (fun a => Region.isclose (m.cellAt a) (o.cellAt a) (1/100000) tol) &&
  allLt m.ndim (fun a =>
    !(decide (tol < Mesh.remainder (absR (m.region.lo a - o.region.lo a)) (m.cellAt a)) &&
      decide (Mesh.remainder (absR (m.region.lo a - o.region.lo a)) (m.cellAt a) < m.cellAt a - tol))) &&
  allLt m.ndim (fun a =>
    !(decide (tol < Mesh.remainder (absR (m.region.hi a - o.region.hi a)) (m.cellAt a)) &&
      decide (Mesh.remainder (absR (m.region.hi a - o.region.hi a)) (m.cellAt a) < m.cellAt a - tol)))

/-- the `subregions` setter of a freshly built mesh: each subregion must lie in the region,
consist of whole cells and be aligned; it is stored with the mesh's dims, units, tolerance -/
def setSubs (m : Mesh) : List (String × Region) → M (List (String × Region))
  | [] => .ok []
  | (k, r) :: rest =>
    if !m.region.containsReg r then .error .value
    else
      match Mesh.mkCell? r m.cell with
      | .error _ => .error .value
      | .ok o =>
        if !aligned m o (1/1000000000000) then .error .value
        else
          match setSubs m rest with
          | .error e => .error e
          | .ok t => .ok ((k, { pmin := r.pmin, pmax := r.pmax, dims := m.region.dims,
                                units := m.region.units, tol := m.region.tol }) :: t)

/-- `Mesh.sel(dim)` with a bare dimension name: the mesh with that axis removed (region
corners, dims, units of the remaining axes; `cell` of the remaining axes, from which the new
mesh recomputes `n`; no boundary conditions; projected subregions) -/
def sel (m : Mesh) (d : String) : M Mesh :=
  match m.region.dim2index d with
  | .error e => .error e
  | .ok ax =>
    match selCentre m ax with
    | .error e => .error e
    | .ok s =>
      match projSubs ax s m.subs with
      | .error e => .error e
      | .ok subs =>
        match Region.mk? (removeAt m.region.pmin ax) (removeAt m.region.pmax ax)
            (some (removeAt m.region.dims ax)) (some (removeAt m.region.units ax)) m.region.tol with
        | .error e => .error e
        | .ok r =>
          match Mesh.mkCell? r (removeAt m.cell ax) with
          | .error e => .error e
          | .ok m' =>
            match setSubs m' subs with
            | .error e => .error e
            | .ok ss => .ok { m' with subs := ss }

/-! ## fields -/

/-- `Field(mesh, nvdim, value=array, vdims=…, vdim_mapping=…, unit=…)`: the array must have
the mesh's shape and is materialised (`np.full`); validity defaults to all-true -/
def mkFld (m : Mesh) (nv : Nat) (data : NDA (List Rat)) (vdims : Option (List String))
    (vmap : List (String × String)) (unit : Option String) : M Fld :=
  if data.shape ≠ m.n then .error .value
  else .ok { mesh := m, nvdim := nv, data := data.force [], valid := NDA.const m.n true,
             vdims := vdims, vmap := vmap, unit := unit }

/-- the `direction` argument as Python sees it -/
inductive Dir where
  | none
  | name (d : String)
  | names (ds : List String)
  | other
  deriving Repr

/-- result: a bare array of component values, or a field -/
inductive Res where
  | vals (v : List Rat)
  | field (f : Fld)

/-- `Field.integrate(direction, cumulative)` -/
def integrate (f : Fld) (dir : Dir) (cumulative : Bool) : M Res :=
  match dir with
  | .none =>
    if cumulative then .error .value
    else .ok (.vals (tab f.nvdim fun c => sumAll f.data c * dV f.mesh))
  | .name d =>
    match f.mesh.region.dim2index d with
    | .error e => .error e
    | .ok ax =>
      if cumulative then
        match mkFld f.mesh f.nvdim (cumAxis f.nvdim (f.mesh.cellAt ax) f.data ax) f.vdims f.vmap none with
        | .error e => .error e
        | .ok g => .ok (.field g)
      else if f.mesh.ndim = 1 then
        .ok (.vals ((scaleBy f.nvdim (f.mesh.cellAt ax) (sumAxis f.nvdim f.data ax)).get []))
      else
        match sel f.mesh d with
        | .error e => .error e
        | .ok m' =>
          match mkFld m' f.nvdim (scaleBy f.nvdim (f.mesh.cellAt ax) (sumAxis f.nvdim f.data ax))
              f.vdims f.vmap none with
          | .error e => .error e
          | .ok g => .ok (.field g)
  | _ => .error .type

/-- `sorted(a) == sorted(b)`: equality as multisets -/
def sameMultiset (a b : List String) : Bool :=
  a.all (fun d => a.count d == b.count d) && b.all (fun d => a.count d == b.count d)

/-- iterated `mesh.sel(d)` for `d` in `ds` -/
def selMany (m : Mesh) : List String → M Mesh
  | [] => .ok m
  | d :: ds =>
    match sel m d with
    | .error e => .error e
    | .ok m' => selMany m' ds

/-- `[region._dim2index(d) for d in ds]` on the original region -/
def dimIndices (r : Region) : List String → M (List Nat)
  | [] => .ok []
  | d :: ds =>
    match r.dim2index d with
    | .error e => .error e
    | .ok a =>
      match dimIndices r ds with
      | .error e => .error e
      | .ok t => .ok (a :: t)

/-- `array.mean(axis=tuple(range(ndim)))` -/
def meanAll (f : Fld) : List Rat :=
  tab f.nvdim fun c => sumAll f.data c / (natProd f.data.shape : Rat)

/-- `Field.mean(direction)` -/
def mean (f : Fld) (dir : Dir) : M Res :=
  match dir with
  | .none => .ok (.vals (meanAll f))
  | .names ds =>
    if hasDup ds then .error .value
    else if sameMultiset ds f.mesh.region.dims then .ok (.vals (meanAll f))
    else
      match selMany f.mesh ds with
      | .error e => .error e
      | .ok m' =>
        match dimIndices f.mesh.region ds with
        | .error e => .error e
        | .ok axes =>
          match mkFld m' f.nvdim (meanAxes f.nvdim f.data axes) f.vdims f.vmap f.unit with
          | .error e => .error e
          | .ok g => .ok (.field g)
  | .name d =>
    match f.mesh.region.dim2index d with
    | .error e => .error e
    | .ok ax =>
      match sel f.mesh d with
      | .error e => .error e
      | .ok m' =>
        match mkFld m' f.nvdim (divBy f.nvdim ((f.data.shape.getD ax 0 : Nat) : Rat) (sumAxis f.nvdim f.data ax))
            f.vdims f.vmap f.unit with
        | .error e => .error e
        | .ok g => .ok (.field g)
  | .other => .error .value

/-- integrating direction by direction: `f.integrate(d1).integrate(d2)…` -/
def integrateSeq (f : Fld) : List String → M Res
  | [] => .ok (.field f)
  | d :: ds =>
    match integrate f (.name d) false with
    | .error e => .error e
    | .ok (.vals v) => if ds.isEmpty then .ok (.vals v) else .error .type
    | .ok (.field g) => integrateSeq g ds

/-- a chain of directional integrals, each cumulative or not:
`f.integrate(d1, cumulative=c1).integrate(d2, cumulative=c2)…` -/
def integrateChain (f : Fld) : List (String × Bool) → M Res
  | [] => .ok (.field f)
  | (d, cum) :: rest =>
    match integrate f (.name d) cum with
    | .error e => .error e
    | .ok (.vals v) => if rest.isEmpty then .ok (.vals v) else .error .type
    | .ok (.field g) => integrateChain g rest

/-- averaging direction by direction: `f.mean(d1).mean(d2)…` (bare names; each step returns a
field on the reduced mesh) -/
def meanSeq (f : Fld) : List String → M Res
  | [] => .ok (.field f)
  | d :: ds =>
    match mean f (.name d) with
    | .error e => .error e
    | .ok (.vals _) => .error .type
    | .ok (.field g) => meanSeq g ds

/-! ## helpers used by the statements of the theorems -/

/-- `α·f + β·g` cell by cell, on `f`'s mesh -/
def lin (α : Rat) (f : Fld) (β : Rat) (g : Fld) : Fld :=
  { f with data := ⟨f.data.shape, fun i => tab f.nvdim fun c => α * cget f.data i c + β * cget g.data i c⟩ }

/-- the scalar field of component `c` -/
def compFld (f : Fld) (c : Nat) : Fld :=
  { f with nvdim := 1, data := ⟨f.data.shape, fun i => [cget f.data i c]⟩, vdims := none, vmap := [] }

/-- `abs(field)`: `np.abs` of every component of every cell, everything else kept -/
def absF (f : Fld) : Fld :=
  { f with data := ⟨f.data.shape, fun i => tab f.nvdim fun c => absR (cget f.data i c)⟩ }

/-- the same field on the mesh moved by `t` (subregions move along) -/
def shiftRegion (t : List Rat) (r : Region) : Region :=
  { r with pmin := tab r.pmin.length (fun a => r.pmin.getD a 0 + t.getD a 0),
           pmax := tab r.pmax.length (fun a => r.pmax.getD a 0 + t.getD a 0) }

def translate (t : List Rat) (f : Fld) : Fld :=
  { f with mesh := { f.mesh with region := shiftRegion t f.mesh.region,
                                 subs := f.mesh.subs.map fun p => (p.1, shiftRegion t p.2) } }

/-- shape of a result (a bare array of component values has the empty shape) -/
def Res.shape : Res → List Nat
  | .vals _ => []
  | .field g => g.data.shape

/-- number of components of a result -/
def Res.nv : Res → Nat
  | .vals v => v.length
  | .field g => g.nvdim

/-- component `c` at index `i` of a result -/
def Res.cval : Res → List Nat → Nat → Rat
  | .vals v, _, c => v.getD c 0
  | .field g, i, c => cget g.data i c

/-- the mesh a result lives on, if it is a field -/
def Res.mesh? : Res → Option Mesh
  | .vals _ => none
  | .field g => some g.mesh

/-- the value the property assigns to component `c` at index `i` of
`integrate(direction, cumulative)` (spec layer) -/
def ival (f : Fld) (dir : Dir) (cum : Bool) (i : List Nat) (c : Nat) : Rat :=
  match dir with
  | .none => dV f.mesh * nestSum f.data.shape fun t => cget f.data t c
  | .name d =>
    match f.mesh.region.dim2index d with
    | .ok ax =>
      if cum then
        f.mesh.cellAt ax * (sumTo (i.getD ax 0) (fun l => cget f.data (setAt i ax l) c) + cget f.data i c / 2)
      else f.mesh.cellAt ax * sumTo (f.mesh.nAt ax) fun j => cget f.data (insertAt i ax j) c
    | .error _ => 0
  | _ => 0

/-- the shape of the result of `integrate(direction, cumulative)` (spec layer) -/
def ishape (f : Fld) (dir : Dir) (cum : Bool) : List Nat :=
  match dir with
  | .name d =>
    match f.mesh.region.dim2index d with
    | .ok ax => if cum then f.mesh.n else removeAt f.mesh.n ax
    | .error _ => []
  | _ => []

/-- the value at index `i`, component `c`, of `mean(direction)` as sum / count (spec layer) -/
def mval (f : Fld) (dir : Dir) (i : List Nat) (c : Nat) : Rat :=
  match dir with
  | .none => (nestSum f.data.shape fun t => cget f.data t c) / (natProd f.data.shape : Rat)
  | .name d =>
    match f.mesh.region.dim2index d with
    | .ok ax =>
      (sumTo (f.data.shape.getD ax 0) fun j => cget f.data (insertAt i ax j) c)
        / ((f.data.shape.getD ax 0 : Nat) : Rat)
    | .error _ => 0
  | .names ds =>
    if sameMultiset ds f.mesh.region.dims then
      (nestSum f.data.shape fun t => cget f.data t c) / (natProd f.data.shape : Rat)
    else
      match dimIndices f.mesh.region ds with
      | .ok axes =>
        maskSum f.data.shape (keepMask f.data.shape.length axes) (fun t => cget f.data t c) i
          / (dropProd (keepMask f.data.shape.length axes) f.data.shape : Rat)
      | .error _ => 0
  | .other => 0

/-- the shape of the result of `mean(direction)` (spec layer) -/
def mshape (f : Fld) (dir : Dir) : List Nat :=
  match dir with
  | .name d =>
    match f.mesh.region.dim2index d with
    | .ok ax => removeAt f.data.shape ax
    | .error _ => []
  | .names ds =>
    if sameMultiset ds f.mesh.region.dims then []
    else
      match dimIndices f.mesh.region ds with
      | .ok axes => filterMask (keepMask f.data.shape.length axes) f.data.shape
      | .error _ => []
  | _ => []

/-- product of the edge lengths of the named directions (the integrated extent) -/
def extent (r : Region) : List String → Rat
  | [] => 1
  | d :: ds =>
    (match r.dim2index d with
     | .ok a => r.edge a
     | .error _ => 1) * extent r ds

/-- product of the cell lengths of the named directions -/
def cellExtent (m : Mesh) : List String → Rat
  | [] => 1
  | d :: ds =>
    (match m.region.dim2index d with
     | .ok a => m.cellAt a
     | .error _ => 1) * cellExtent m ds

end DFV.C06
