import DFV.Model.C18
/-!
# C18 — second layer of the executable model of `FieldRotator`

* rotations with rational cosine and sine that are NOT quarter turns: plane rotations by a
  Pythagorean angle (`cos = 3/5`, `sin = 4/5`, …) about a coordinate axis (`RaxisCS`), Euler
  sequences of such angles (`eulerCS`, what scipy's `from_euler` builds), and the rotation about
  an arbitrary rational unit axis by such an angle (`ofAxisAngle`, Rodrigues' formula: what
  scipy's `from_rotvec(θ·u)` builds);
* change of the unit of length / of the value magnitude / of the origin (`affFld`): the object
  the homogeneity theorems speak about;
* sequences of C12's `Field.rotate90` calls (`turns`) and their quarter-turn matrices (`turnsM`);
* the clamped position (`clampV`) that describes the edge-padded band of the interpolator.

Core Lean only.
-/
namespace DFV.C18
open DFV

/-! ## rational rotations that are not quarter turns -/

/-- right-handed rotation about coordinate axis `a` by the angle with cosine `c` and sine `s`
(`from_rotvec(θ·e_a)`, `from_euler("xyz"[a], θ)` with `θ = atan2(s, c)`) -/
def RaxisCS (a : Nat) (c s : Rat) : M3 := Rcs ((a + 1) % 3) ((a + 2) % 3) c s

/-- scipy `from_euler(seq, angles)` for angles given by their (rational) cosine and sine:
lower-case sequences are extrinsic (later rotations on the left), upper-case intrinsic (later
rotations on the right) -/
def eulerCS (intrinsic : Bool) : List (Nat × Rat × Rat) → M3
  | [] => M3.one
  | (a, c, s) :: rest =>
    if intrinsic then (RaxisCS a c s).mul (eulerCS intrinsic rest) else (eulerCS intrinsic rest).mul (RaxisCS a c s)

/-- Rodrigues' formula `c·1 + s·[u]ₓ + (1 − c)·u uᵀ`: the rotation about the unit axis `u` by the
angle with cosine `c` and sine `s` (scipy `from_rotvec(θ·u)`, `θ = atan2(s, c)`) -/
def ofAxisAngle (u : V3) (c s : Rat) : M3 :=
  ⟨⟨c + (1 - c) * u.x * u.x, (1 - c) * u.x * u.y - s * u.z, (1 - c) * u.x * u.z + s * u.y⟩,
   ⟨(1 - c) * u.y * u.x + s * u.z, c + (1 - c) * u.y * u.y, (1 - c) * u.y * u.z - s * u.x⟩,
   ⟨(1 - c) * u.z * u.x - s * u.y, (1 - c) * u.z * u.y + s * u.x, c + (1 - c) * u.z * u.z⟩⟩

/-- cosine and sine of the angle whose half-angle tangent is `n / m` (all Pythagorean angles:
`(m, n) = (2, 1)` gives `3/5, 4/5`; `(3, 2)` gives `5/13, 12/13`) -/
def pythC (m n : Rat) : Rat := (m * m - n * n) / (m * m + n * n)
def pythS (m n : Rat) : Rat := 2 * m * n / (m * m + n * n)

/-! ## change of units and of the origin -/

/-- the same box in other coordinates: `x ↦ s·x + d` on every axis -/
def affReg (s : Rat) (d : Nat → Rat) (r : Region) : Region :=
  { r with pmin := tab r.pmin.length fun a => s * r.lo a + d a, pmax := tab r.pmax.length fun a => s * r.hi a + d a }

def affMesh (s : Rat) (d : Nat → Rat) (m : Mesh) : Mesh :=
  { m with region := affReg s d m.region, subs := m.subs.map fun p => (p.1, affReg s d p.2) }

/-- the same field in another unit of length (coordinates times `s`), with the origin moved
(coordinates plus `d`) and in another unit of the value (all components times `t`) -/
def affFld (s : Rat) (d : Nat → Rat) (t : Rat) (f : Fld) : Fld :=
  { f with mesh := affMesh s d f.mesh, data := f.data.map fun v => v.map (t * ·) }

/-- a three-dimensional corner list on both sides (what `FieldRotator.__init__` demands) -/
def Is3d (r : Region) : Prop := r.pmin.length = 3 ∧ r.pmax.length = 3

/-! ## sequences of C12's lattice rotations -/

/-- successive `Field.rotate90(ax1, ax2, k)` calls of C12's model (about the centre, copying
form), each on the result of the previous one; `none` when one of them is refused -/
def turns (f : Fld) : List (String × String × Int) → Option Fld
  | [] => some f
  | (a1, a2, k) :: rest =>
    match T.rotate90F f a1 a2 k none false with
    | .ok (_, g) => turns g rest
    | .error _ => none

/-- position of an axis name (0 when it is not one) -/
def axIdx (f : Fld) (a : String) : Nat :=
  match f.mesh.region.dim2index a with
  | .ok i => i
  | .error _ => 0

/-- the quarter-turn matrices of such a sequence, in call order -/
def turnsM (f : Fld) (seq : List (String × String × Int)) : List M3 :=
  seq.map fun t => Rq (axIdx f t.1) (axIdx f t.2.1) t.2.2

/-! ## the edge-padded band -/

/-- `x` moved into the interval between the first and the last cell centre of axis `a`
(relative coordinates) -/
def clampAx (m : Mesh) (a : Nat) (x : Rat) : Rat :=
  if x < centreRel m a 0 then centreRel m a 0
  else if centreRel m a (m.nAt a - 1) < x then centreRel m a (m.nAt a - 1) else x

def clampV (m : Mesh) (p : V3) : V3 := ⟨clampAx m 0 p.x, clampAx m 1 p.y, clampAx m 2 p.z⟩

end DFV.C18
