import DFV.Model.Field
import DFV.Model.Transform
/-!
C17 model: `Field.to_xarray` / `Field.from_xarray` (discretisedfield/field.py) together with
the constructor chain the importer runs (`Region.__init__`, `Mesh(region=…, cell=…)`, the
`tolerance_factor` setter, `Field.__init__` with `_as_array` (twice: `update_field_values`
and the `array` setter), the `vdims` and `vdim_mapping` setters).

The `xarray.DataArray` is a plain structure: one `Axis` per dimension (name, size, the
dimension coordinate with its optional `units` attribute — a dimension without coordinate
is indexed `0 … size-1` by xarray), the optional `vdims` label coordinate, the data as an
n-dimensional array, the attributes and a dtype tag.  Field values are never computed with
on this code path, only moved, so everything is parametric in the value type `α`: the
theorems hold verbatim for float32/float64/int/complex/bool data, NaNs included.
Geometry is computed in `Rat` where Python computes in binary64.  Core Lean only.

The linear-time forms the driver runs are in `Model/C17Fast.lean` (proved equal to the definitions
here).  Also here: `mkCellNow?` (the `Mesh(region, cell)` constructor with the final `n >= 1` test that
/repo has now), `FieldAttrs` (the attribute names of `Field`, a parameter: the `hasattr` test of
the `vdims` setter), and `MeshOp` / `XFld.run` / `exportAfter` (in-place `field.mesh.translate`
and `field.mesh.scale` calls before the export, through the shared `T.stepM`).
-/
namespace DFV.C17
open DFV

/-- the default `tolerance_factor=1e-12`, as the binary64 number it is -/
def defaultTol : Rat := 4951760157141521/4951760157141521099596496896

/-! ## Field state -/

/-- state of a `discretisedfield.Field`; `data` has shape `(*mesh.n, nvdim)`, `dtype` is the
name of `array.dtype` -/
structure XFld (α : Type) where
  mesh : Mesh
  nvdim : Nat
  data : NDA α
  valid : NDA Bool
  vdims : Option (List String)
  vmap : List (String × String)
  unit : Option String
  dtype : String

/-! ## The DataArray -/

/-- dimension coordinate: values and the optional attribute `units` -/
structure Coord where
  vals : List Rat
  units : Option String
  deriving DecidableEq, Repr, Inhabited

/-- one dimension of a DataArray -/
structure Axis where
  name : String
  size : Nat
  coord : Option Coord
  deriving DecidableEq, Repr, Inhabited

namespace Axis

/-- `xa[name].values`: the coordinate, or `0 … size-1` if none was assigned -/
def values (a : Axis) : List Rat :=
  match a.coord with
  | some c => c.vals
  | none => tab a.size fun j => (j : Rat)

/-- `xa[name].attrs.get("units")` -/
def units (a : Axis) : Option String :=
  match a.coord with
  | some c => c.units
  | none => none

end Axis

/-- the attribute `nvdim`: a Python `int`, or any other number (float, numpy integer, …),
which fails `isinstance(…, int)` -/
inductive NvAttr where
  | int (k : Int)
  | other (q : Rat)
  deriving DecidableEq, Repr, Inhabited

/-- `xa.attrs` (each key present or absent; `units` is only ever written) -/
structure Attrs where
  units : Option String
  cell : Option (List Rat)
  pmin : Option (List Rat)
  pmax : Option (List Rat)
  nvdim : Option NvAttr
  tol : Option Rat
  deriving DecidableEq, Repr, Inhabited

structure XA (α : Type) where
  name : String
  axes : List Axis
  vdimsCoord : Option (List String)
  data : NDA α
  attrs : Attrs
  dtype : String

/-- `xa.dims` -/
def XA.dims {α} (xa : XA α) : List String := xa.axes.map Axis.name

/-! ## Export: `Field.to_xarray(name, unit)` -/

/-- a Python argument that should be a string -/
inductive PyArg where
  | none
  | str (s : String)
  | other
  deriving DecidableEq, Repr, Inhabited

/-- `unit or self.unit` -/
def exportUnit (u : PyArg) (fu : Option String) : Option String :=
  match u with
  | .str s => if s = "" then fu else some s
  | _ => fu

/-- geometric axis `a`: `getattr(self.mesh.cells, axis)` with `attrs["units"]` from the region -/
def exportAxis (m : Mesh) (a : Nat) : Axis :=
  { name := m.region.dims.getD a "", size := m.nAt a,
    coord := some { vals := m.cells.getD a [], units := some (m.region.units.getD a "") } }

/-- dimensions: `axes + ("vdims",)` for vector fields (the label coordinate is separate) -/
def exportAxes {α} (f : XFld α) : List Axis :=
  tab f.mesh.region.dims.length (exportAxis f.mesh) ++
    (if 1 < f.nvdim then [{ name := "vdims", size := f.nvdim, coord := none }] else [])

/-- `self.array`, or `np.squeeze(self.array, axis=-1)` for scalar fields -/
def exportData {α} (f : XFld α) : NDA α :=
  if 1 < f.nvdim then f.data else ⟨f.data.shape.dropLast, fun i => f.data.get (i ++ [0])⟩

def exportAttrs {α} (f : XFld α) (u : PyArg) : Attrs :=
  { units := exportUnit u f.unit, cell := some f.mesh.cell, pmin := some f.mesh.region.pmin,
    pmax := some f.mesh.region.pmax, nvdim := some (.int f.nvdim), tol := some f.mesh.region.tol }

/-- the DataArray `to_xarray` assembles (`xr.DataArray(field_array, dims=…, coords=…, name=…,
attrs=…)`, then the per-axis `units`) -/
def exported {α} (f : XFld α) (nm : String) (unit : PyArg) : XA α :=
  { name := nm, axes := exportAxes f, vdimsCoord := if 1 < f.nvdim then f.vdims else none,
    data := exportData f, attrs := exportAttrs f unit, dtype := f.dtype }

/-- `Field.to_xarray`: both arguments are type-checked first -/
def toXarray {α} (f : XFld α) (name : PyArg := .str "field") (unit : PyArg := .none) : M (XA α) :=
  match name with
  | .str nm => if unit = .other then .error .type else .ok (exported f nm unit)
  | _ => .error .type

/-! ## Import: `Field.from_xarray(xa)` -/

/-- the `nvdim` checks: present, `>= 1`, a Python int, and a `vdims` dimension for vectors -/
def checkNvdim (nv : Option NvAttr) (dims : List String) : M Nat :=
  match nv with
  | none => .error .key
  | some (.other q) => if q < 1 then .error .value else .error .type
  | some (.int k) =>
    if k < 1 then .error .value
    else if 1 < k ∧ ¬ dims.contains "vdims" then .error .value
    else .ok k.toNat

/-- `dims_list`, with the axes they name -/
def geo {α} (xa : XA α) : List Axis := xa.axes.filter fun a => a.name ≠ "vdims"

def sumR : List Rat → Rat
  | [] => 0
  | x :: xs => x + sumR xs

/-- `np.diff(v)` -/
def diffs (v : List Rat) : List Rat := tab (v.length - 1) fun j => v.getD (j + 1) 0 - v.getD j 0

/-- `np.diff(v).mean()` (for at least two values) -/
def meanDiff (v : List Rat) : Rat := sumR (diffs v) / ((v.length - 1 : Nat) : Rat)

/-- `v.size > 1 and not np.allclose(np.diff(v), np.diff(v).mean(), atol=0)` negated: the
coordinate passes the spacing test — purely relative, numpy's default `rtol=1e-5`, no absolute
term: `|d - mean| ≤ 1e-5·|mean|` for every spacing `d` -/
def evenB (v : List Rat) : Bool :=
  decide (v.length ≤ 1) ||
    allLt (v.length - 1) fun j => Region.isclose ((diffs v).getD j 0) (meanDiff v) (1/100000) 0

/-- the loop over `dims_list` raising `ValueError` at the first unevenly spaced coordinate -/
def checkSpacing {α} (xa : XA α) : M Unit :=
  if (geo xa).all fun a => evenB a.values then .ok () else .error .value

/-- `cell`: the attribute, else the mean spacing per axis.  Without the attribute, a length
1 among `xa.values.shape[:-1]` is a `KeyError`; an axis with fewer than two coordinates that
this test misses (the last geometric axis of a scalar field) gives `NaN`, which
`Mesh.__init__` rejects ("values of cell must be positive"). -/
def cellOf {α} (xa : XA α) : M (List Rat) :=
  match xa.attrs.cell with
  | some c => .ok c
  | none =>
    if xa.data.shape.dropLast.any (· == 1) then .error .key
    else if (geo xa).any (fun a => decide (a.values.length ≤ 1)) then .error .value
    else .ok ((geo xa).map fun a => meanDiff a.values)

/-- `xa.attrs["pmin"]`, else `[xa[i].values[0] - c / 2 for i, c in zip(dims_list, cell)]` -/
def p1Of {α} (xa : XA α) (cell : List Rat) : M (List Rat) :=
  match xa.attrs.pmin with
  | some p => .ok p
  | none =>
    if (List.zip (geo xa) cell).any (fun p => p.1.values.isEmpty) then .error .index
    else .ok (List.zipWith (fun a c => a.values.getD 0 0 - c / 2) (geo xa) cell)

/-- `xa.attrs["pmax"]`, else `[xa[i].values[-1] + c / 2 …]` -/
def p2Of {α} (xa : XA α) (cell : List Rat) : M (List Rat) :=
  match xa.attrs.pmax with
  | some p => .ok p
  | none =>
    if (List.zip (geo xa) cell).any (fun p => p.1.values.isEmpty) then .error .index
    else .ok (List.zipWith (fun a c => a.values.getD (a.values.length - 1) 0 + c / 2) (geo xa) cell)

/-- units are taken from the coordinates only if every geometric coordinate has them -/
def unitsOf {α} (xa : XA α) : Option (List String) :=
  if (geo xa).any (fun a => a.units.isNone) then none
  else some ((geo xa).map fun a => a.units.getD "")

/-- `mesh.region.tolerance_factor = xa.attrs["tolerance_factor"]` if present -/
def setTol (m : Mesh) (t : Option Rat) : Mesh :=
  match t with
  | some t => { m with region := { m.region with tol := t } }
  | none => m

/-- `Mesh(region=…, cell=…)` as it is now in /repo: the shared constructor model
(`Mesh.mkCell?`: length, positivity, cell inside the region, 0.1 % divisibility, rounding)
followed by the constructor's last test `np.less(self._n, 1).any()` → `ValueError` (a cell
size that rounds to zero cells; reachable only ≳ 1e12 cells from the origin, where the
tolerant containment test lets a cell larger than the region through).  The shared
`Mesh.mkCell?` has that test itself by now, so this is `Mesh.mkCell? r cell ""`
(`Lemmas/C17Accept.mkCellNow_eq`). -/
def mkCellNow? (r : Region) (cell : List Rat) : M Mesh :=
  (Mesh.mkCell? r cell "").bind fun m =>
  if m.n.any (fun k => decide (k < 1)) then .error .value else .ok m

/-- region and mesh: `Region(p1, p2, dims=dims_list[, units])`, `Mesh(region, cell=cell)`,
then the tolerance factor -/
def meshOf {α} (xa : XA α) (cell : List Rat) : M Mesh :=
  (p1Of xa cell).bind fun p1 =>
  (p2Of xa cell).bind fun p2 =>
  (Region.mk? p1 p2 (some ((geo xa).map Axis.name)) (unitsOf xa) defaultTol).bind fun r =>
  (mkCellNow? r cell).bind fun m =>
  .ok (setTol m xa.attrs.tol)

/-- numpy broadcasting rule for shape `src` into `tgt` (trailing axes aligned) -/
def bcastOk (src tgt : List Nat) : Bool :=
  decide (src.length ≤ tgt.length) &&
  allLt src.length fun a =>
    src.getD a 0 == 1 || src.getD a 0 == tgt.getD (a + (tgt.length - src.length)) 0

/-- the source index broadcasting reads for target index `i` -/
def bcastIx (src tgt : List Nat) (i : List Nat) : List Nat :=
  tab src.length fun a => if src.getD a 0 = 1 then 0 else i.getD (a + (tgt.length - src.length)) 0

/-- `Field._as_array(val, mesh, nvdim, dtype=val.dtype)` for an array: a mesh-shaped array is
a scalar field (`np.expand_dims`); otherwise the last axis must be `nvdim` and the array is
broadcast by `np.full((*n, nvdim), val)` -/
def asArray {α} (val : NDA α) (n : List Nat) (k : Nat) : M (NDA α) :=
  if k = 1 ∧ val.shape = n then .ok ⟨n ++ [1], fun i => val.get i.dropLast⟩
  else if val.shape.getLast? ≠ some k then .error .value
  else if !bcastOk val.shape (n ++ [k]) then .error .value
  else .ok ⟨n ++ [k], fun i => val.get (bcastIx val.shape (n ++ [k]) i)⟩

/-- `np.expand_dims(xa.values, axis=-1) if nvdim == 1 else xa.values` -/
def valOf {α} (xa : XA α) (k : Nat) : NDA α :=
  if k = 1 then ⟨xa.data.shape ++ [1], fun i => xa.data.get i.dropLast⟩ else xa.data

/-- `hasattr(self, c)` as the `vdims` setter asks it on the object under construction (`_vdims`
is still `None`, so the dynamic component access of `__getattr__` finds nothing): is `c` the
name of a method, property or slot of `Field`?  The set of these names is a parameter of the
model — every theorem holds for whatever attributes the class has; the correspondence run
instantiates it with the answers of the real class. -/
class FieldAttrs where
  has : String → Bool

/-- `vdims` setter on a fresh field: `None` → defaults (unchecked), empty → `None`, else length,
uniqueness, and no label may be the name of an attribute of `Field` -/
def vdimsSet [FieldAttrs] (k : Nat) : Option (List String) → M (Option (List String))
  | none => .ok (Fld.defaultVdims k)
  | some [] => .ok none
  | some (x :: l) =>
    if (x :: l).length ≠ k then .error .value
    else if hasDup (x :: l) then .error .value
    else if (x :: l).any FieldAttrs.has then .error .value
    else .ok (some (x :: l))

/-- `vdim_mapping` setter with `None` -/
def defaultVmap (k : Nat) (dims : List String) (vdims : Option (List String)) : List (String × String) :=
  if k = 1 then []
  else if k = dims.length then
    match vdims with
    | some l => List.zip l dims
    | none => []
  else []

/-- `cls(mesh=mesh, nvdim=nvdim, value=val, vdims=vdims, dtype=xa.values.dtype)`: value
through `_as_array` twice, all cells valid, no unit, default mapping (since repo fix d1932c87 the
`vdim_mapping` setter no longer fails for an unlabelled field with as many components as axes) -/
def fieldOf [FieldAttrs] {α} (xa : XA α) (m : Mesh) (k : Nat) : M (XFld α) :=
  (asArray (valOf xa k) m.n k).bind fun d1 =>
  (asArray d1 m.n k).bind fun d =>
  (vdimsSet k xa.vdimsCoord).bind fun vd =>
  .ok { mesh := m, nvdim := k, data := d, valid := NDA.const m.n true, vdims := vd,
             vmap := defaultVmap k m.region.dims vd, unit := none, dtype := xa.dtype }

/-- `Field.from_xarray` on a DataArray -/
def fromXA [FieldAttrs] {α} (xa : XA α) : M (XFld α) :=
  (checkNvdim xa.attrs.nvdim xa.dims).bind fun k =>
  (checkSpacing xa).bind fun _ =>
  (cellOf xa).bind fun cell =>
  (meshOf xa cell).bind fun m =>
  fieldOf xa m k

/-- the geometry steps alone (spec layer; `Lemmas/C17Rebuild.fromXA_eq`: the importer is the
component-count checks, then these steps, then `fieldOf`) -/
def geometryOf {α} (xa : XA α) : M Mesh :=
  (checkSpacing xa).bind fun _ => (cellOf xa).bind fun cell => meshOf xa cell

/-- what can be passed to `from_xarray` -/
inductive PyObj (α : Type) where
  | dataArray (xa : XA α)
  | other

/-- `Field.from_xarray` -/
def fromXarray [FieldAttrs] {α} : PyObj α → M (XFld α)
  | .other => .error .type
  | .dataArray xa => fromXA xa

/-! ## Attribute removal (what the property calls "lacks the geometric attributes") -/

/-- delete any subset of `cell` / `pmin` / `pmax` -/
def eraseGeom {α} (c p q : Bool) (xa : XA α) : XA α :=
  { xa with attrs := { xa.attrs with
      cell := if c then none else xa.attrs.cell,
      pmin := if p then none else xa.attrs.pmin,
      pmax := if q then none else xa.attrs.pmax } }

/-- multiply every assigned dimension coordinate by `s` (a change of length unit) -/
def scaleCoords {α} (s : Rat) (xa : XA α) : XA α :=
  { xa with axes := xa.axes.map fun ax =>
      { ax with coord := ax.coord.map fun c => { c with vals := c.vals.map (s * ·) } } }

/-- delete `tolerance_factor` -/
def eraseTol {α} (xa : XA α) : XA α := { xa with attrs := { xa.attrs with tol := none } }

/-- delete the `units` attribute of the coordinates of the dimensions selected by `sel` -/
def eraseUnits {α} (sel : String → Bool) (xa : XA α) : XA α :=
  { xa with axes := xa.axes.map fun ax =>
      if sel ax.name then { ax with coord := ax.coord.map fun c => { c with units := none } } else ax }

/-! ## In-place changes of the mesh a field holds (history before the export) -/

/-- the in-place calls on `field.mesh` that keep the cell counts: `field.mesh.translate(v,
inplace=True)` and `field.mesh.scale(factor, reference_point, inplace=True)` (shared model
`T.stepM`: region and subregions are moved, everything is checked before the first assignment) -/
inductive MeshOp where
  | translate (v : List Rat)
  | scale (f : T.Factor) (ref : Option (List Rat))

def MeshOp.toOp : MeshOp → T.Op
  | .translate v => .translate v true
  | .scale f ref => .scale f ref true

/-- one in-place call on the field's mesh; the field object holds the same mesh object, so it
sees the change; a rejected call changes nothing -/
def XFld.meshStep {α} (f : XFld α) (op : MeshOp) : XFld α :=
  match T.stepM f.mesh op.toOp with
  | .ok (m', _) => { f with mesh := m' }
  | .error _ => f

/-- a history of in-place calls -/
def XFld.run {α} (f : XFld α) : List MeshOp → XFld α
  | [] => f
  | op :: ops => (f.meshStep op).run ops

/-- `to_xarray` after a history of in-place changes of the mesh -/
def exportAfter {α} (f : XFld α) (ops : List MeshOp) (name : PyArg := .str "field") (unit : PyArg := .none) : M (XA α) :=
  toXarray (f.run ops) name unit

/-! ## Well-formed fields (what the constructors guarantee) -/

/-- what `Region.__init__`, `Mesh.__init__` and `Field.__init__` guarantee, plus: no spatial
dimension is called `vdims` (the name the exporter reserves for the component axis).  Labels:
as many as components, distinct, none the name of an attribute of `Field` (the setter refuses
those; the default labels `x, y, z, v0, …` are not attributes of `Field` — checked on the real
class by the correspondence run) -/
structure XFld.WF [FieldAttrs] {α} (f : XFld α) : Prop where
  mesh : f.mesh.Inv
  nvdim : 1 ≤ f.nvdim
  shape : f.data.shape = f.mesh.n ++ [f.nvdim]
  novd : ¬ "vdims" ∈ f.mesh.region.dims
  labels : ∀ l, f.vdims = some l → l.length = f.nvdim ∧ hasDup l = false ∧ l.any FieldAttrs.has = false

/-- the label states the exporter can represent: vector fields with labels, scalar fields
without (the label coordinate is written only for `nvdim > 1`) -/
def LabelsStd {α} (f : XFld α) : Prop := (1 < f.nvdim → f.vdims ≠ none) ∧ (f.nvdim = 1 → f.vdims = none)

/-- decidable form, evaluated by the driver on the states of real fields -/
def XFld.wfB [FieldAttrs] {α} (f : XFld α) : Bool :=
  f.mesh.invB && decide (1 ≤ f.nvdim) && decide (f.data.shape = f.mesh.n ++ [f.nvdim]) &&
  !f.mesh.region.dims.contains "vdims" &&
  (match f.vdims with
   | none => true
   | some l => decide (l.length = f.nvdim) && !hasDup l && !l.any FieldAttrs.has)

end DFV.C17
