import DFV.Model.Field
/-!
C04 model: `operators._1d_diff`, `_split_diff_combine`, and `Field.diff` (per line, per
component, wrap padding by one cell for periodic directions).  Core Lean only.
-/
namespace DFV.C04
open DFV

/-- first derivative at position `i` of a run of length `L` (values `f 0 … f (L-1)`),
`np.gradient(…, edge_order=1)` for `L = 2`, `edge_order=2` for `L ≥ 3`, zeros for `L < 2` -/
def d1At (h : Rat) (L : Nat) (f : Nat → Rat) (i : Nat) : Rat :=
  if L < 2 then 0
  else if L = 2 then (f 1 - f 0) / h
  else if i = 0 then (-3 * f 0 + 4 * f 1 - f 2) / (2 * h)
  else if i = L - 1 then (3 * f (L - 1) - 4 * f (L - 2) + f (L - 3)) / (2 * h)
  else (f (i + 1) - f (i - 1)) / (2 * h)

/-- second derivative: `[1,-2,1]` in the interior, FinDiff one-sided stencils at the ends
(4-point for `L ≥ 4`, 3-point for `L = 3`), zeros for `L < 3` -/
def d2At (h : Rat) (L : Nat) (f : Nat → Rat) (i : Nat) : Rat :=
  if L < 3 then 0
  else if L = 3 then (f 0 - 2 * f 1 + f 2) / (h * h)
  else if i = 0 then (2 * f 0 - 5 * f 1 + 4 * f 2 - f 3) / (h * h)
  else if i = L - 1 then (2 * f (L - 1) - 5 * f (L - 2) + 4 * f (L - 3) - f (L - 4)) / (h * h)
  else (f (i + 1) - 2 * f i + f (i - 1)) / (h * h)

def dAt (order : Nat) (h : Rat) (L : Nat) (f : Nat → Rat) (i : Nat) : Rat :=
  if order = 1 then d1At h L f i else d2At h L f i

/-- `_1d_diff(order, array, dx)` -/
def diffRun (order : Nat) (h : Rat) (xs : List Rat) : List Rat :=
  tab xs.length (dAt order h xs.length fun k => xs.getD k 0)

/-- code-shaped `_split_diff_combine`: walk the line collecting the current run (reversed
in `run`); at an invalid cell, or at the end, flush the differentiated run, an invalid
cell contributes 0. -/
def sdcGo (d : List Rat → List Rat) : List (Rat × Bool) → List Rat → List Rat
  | [], run => d run.reverse
  | (x, true) :: rest, run => sdcGo d rest (x :: run)
  | (_, false) :: rest, run => d run.reverse ++ 0 :: sdcGo d rest []

def sdc (d : List Rat → List Rat) (cells : List (Rat × Bool)) : List Rat := sdcGo d cells []

/-- derivative of one open line of (value, valid) cells -/
def diffLine (order : Nat) (h : Rat) (cells : List (Rat × Bool)) : List Rat :=
  sdc (diffRun order h) cells

/-- `np.pad(mode="wrap")` by one cell on both sides, of values and validity alike -/
def wrap1 {α} (xs : List α) : List α :=
  match xs.getLast?, xs.head? with
  | some l, some f => l :: xs ++ [f]
  | _, _ => xs

/-- periodic line: wrap-pad by one cell, differentiate, crop -/
def diffRing (order : Nat) (h : Rat) (cells : List (Rat × Bool)) : List Rat :=
  ((diffLine order h (wrap1 cells)).drop 1).take cells.length

/-- line derivative as `Field.diff` applies it -/
def diffLine' (periodic : Bool) (restrict : Bool) (order : Nat) (h : Rat) (cells : List (Rat × Bool)) :
    List Rat :=
  if periodic then diffRing order h (if restrict then cells else cells.map fun c => (c.1, true))
  else diffLine order h (if restrict then cells else cells.map fun c => (c.1, true))

/-- is the axis named `d` a periodic direction under `bc`, as `Field.diff` decides it (repo fix of
D123): `bc` is not one of the two words and one of its characters is the axis name.  (Before the
fix the test was the bare substring test `d in bc`: an open axis called `n`, `e`, `u`, … counted
as periodic on a `"neumann"` mesh, a multi-character name that is a substring of `bc` too.) -/
def periodicBc (bc d : String) : Bool :=
  !(bc == "neumann" || bc == "dirichlet") && bc.toList.any fun ch => String.singleton ch == d

/-- `Field.diff(direction, order, restrict2valid)`; `ax` = index of the direction,
`periodic` = direction named in `mesh.bc`.  Errors: order ∉ {1,2}. -/
def diff (f : Fld) (ax : Nat) (order : Nat) (restrict : Bool) : M Fld :=
  if order ≠ 1 ∧ order ≠ 2 then .error .notImpl
  else if f.mesh.ndim ≤ ax then .error .value
  else
    .ok { f with
      data := ⟨f.data.shape, fun i =>
        tab f.nvdim fun c =>
          (diffLine' (periodicBc f.mesh.bc (f.mesh.region.dims.getD ax ""))
              restrict order (f.mesh.cellAt ax)
              (tab (f.mesh.nAt ax) fun j => ((f.data.line ax i j).getD c 0, f.valid.line ax i j))).getD
            (i.getD ax 0) 0⟩ }

/-- value at ring position `j` (position folded by `% L`) -/
def ringVal (xs : List Rat) (j : Nat) : Rat := xs.getD (j % xs.length) 0

/-- cyclic shift of a list by `s` -/
def roll (xs : List Rat) (s : Nat) : List Rat := tab xs.length fun j => ringVal xs (j + s)

/-- the cells of the grid line through `i` along `ax`, component `c` -/
def lineCells (f : Fld) (ax : Nat) (i : List Nat) (c : Nat) : List (Rat × Bool) :=
  tab (f.mesh.nAt ax) fun j => ((f.data.line ax i j).getD c 0, f.valid.line ax i j)

/-! ## spec layer: the index-level description of "each maximal run is differentiated on its own" -/

/-- sign a reversal gives the stencil of order `o` -/
def revSign (o : Nat) : Rat := if o = 1 then -1 else 1

/-- number of consecutive valid cells immediately before position `i` -/
def runBefore (v : Nat → Bool) : Nat → Nat
  | 0 => 0
  | i + 1 => if v i then runBefore v i + 1 else 0

/-- number of consecutive valid cells from position `i` on (at most `fuel` of them) -/
def runFromAux (v : Nat → Bool) (i : Nat) : Nat → Nat
  | 0 => 0
  | fuel + 1 => if v i then runFromAux v (i + 1) fuel + 1 else 0

/-- number of consecutive valid cells from position `i` on, in a line of length `L` -/
def runFrom (v : Nat → Bool) (L i : Nat) : Nat := runFromAux v i (L - i)

/-- SPEC of the derivative of an open line with values `x`, validity `v`, length `L` at position
`i`: an invalid cell gives 0; a valid cell gives the run stencil of its own maximal run of valid
cells (which starts `runBefore v i` cells before `i` and has `runBefore v i + runFrom v L i`
cells) at its position inside that run — nothing outside the run is read -/
def diffSpec (order : Nat) (h : Rat) (L : Nat) (x : Nat → Rat) (v : Nat → Bool) (i : Nat) : Rat :=
  if v i then
    dAt order h (runBefore v i + runFrom v L i) (fun k => x (i - runBefore v i + k)) (runBefore v i)
  else 0

/-- is axis `ax` a periodic direction (its name occurs in `mesh.bc`), as `Field.diff` decides it -/
def periodicAx (f : Fld) (ax : Nat) : Bool := periodicBc f.mesh.bc (f.mesh.region.dims.getD ax "")

/-- values and validity of a line of cells as total functions (outside the line: `0`, invalid) -/
def valOf (cells : List (Rat × Bool)) (j : Nat) : Rat := (cells.getD j (0, false)).1
def okOf (cells : List (Rat × Bool)) (j : Nat) : Bool := (cells.getD j (0, false)).2


end DFV.C04
