import DFV.Model.Field
/-!
Transformations of regions, meshes and fields (`translate`, `scale`, `rotate90`), the
subregion setter and `is_aligned` — shared by C12, C13 and C14.  Code-shaped: the copying
form goes through the constructors, the in-place form assigns directly, exactly as
region.py / mesh.py / field.py do.  Core Lean only.

Every step returns `M (recv × ret)`: the receiver's state after the call and the returned
object.  An error leaves the receiver as it was (the code performs all checks before the
first assignment — observed on the real code by the harness).
-/
namespace DFV.T
open DFV

/-! ## exact quarter turns -/

/-- cos(k·90°) -/
def cosq (k : Int) : Rat := if k % 4 = 0 then 1 else if k % 4 = 2 then -1 else 0
/-- sin(k·90°) -/
def sinq (k : Int) : Rat := if k % 4 = 1 then 1 else if k % 4 = 3 then -1 else 0
def isOdd (k : Int) : Bool := k % 2 = 1

/-! ## Region -/

/-- copying forms re-enter the constructor with the receiver's metadata -/
def viaCtor (r : Region) (p1 p2 : List Rat) (units : List String) : M Region :=
  Region.mk? p1 p2 (some r.dims) (some units) r.tol

def translateR (r : Region) (v : List Rat) (inplace : Bool) : M (Region × Region) :=
  if v.length ≠ r.ndim then .error .value
  else if inplace then
    if !allLt r.ndim (fun a => decide ((r.hi a + v.getD a 0) - (r.lo a + v.getD a 0) ≠ 0)) then .error .value
    else
    .ok ({ r with pmin := tab r.ndim fun a => r.lo a + v.getD a 0,
                  pmax := tab r.ndim fun a => r.hi a + v.getD a 0 },
         { r with pmin := tab r.ndim fun a => r.lo a + v.getD a 0,
                  pmax := tab r.ndim fun a => r.hi a + v.getD a 0 })
  else
    match viaCtor r (tab r.ndim fun a => r.lo a + v.getD a 0) (tab r.ndim fun a => r.hi a + v.getD a 0) r.units with
    | .error e => .error e
    | .ok r' => .ok (r, r')

/-- scale factor: a real number or one per axis -/
inductive Factor where
  | scalar (s : Rat)
  | vec (fs : List Rat)
  deriving Repr

def Factor.at (f : Factor) (a : Nat) : Rat :=
  match f with
  | .scalar s => s
  | .vec fs => fs.getD a 0

def Factor.okFor (f : Factor) (n : Nat) : Bool :=
  match f with
  | .scalar _ => true
  | .vec fs => fs.length = n

/-- new lower corner candidate: `ref - (ref - pmin) * factor` -/
def scaleLo (r : Region) (f : Factor) (ref : List Rat) (a : Nat) : Rat :=
  ref.getD a 0 - (ref.getD a 0 - r.lo a) * f.at a
/-- new upper corner candidate: `pmin' + edges * factor` -/
def scaleHi (r : Region) (f : Factor) (ref : List Rat) (a : Nat) : Rat :=
  scaleLo r f ref a + r.edge a * f.at a

def scaleR (r : Region) (f : Factor) (ref : Option (List Rat)) (inplace : Bool) : M (Region × Region) :=
  if !f.okFor r.ndim then .error .value
  else if (ref.getD r.center).length ≠ r.ndim then .error .value
  else if inplace then
    if !allLt r.ndim (fun a => decide (scaleHi r f (ref.getD r.center) a - scaleLo r f (ref.getD r.center) a ≠ 0))
      then .error .value
    else
      .ok ({ r with pmin := tab r.ndim fun a => min (scaleLo r f (ref.getD r.center) a) (scaleHi r f (ref.getD r.center) a),
                    pmax := tab r.ndim fun a => max (scaleLo r f (ref.getD r.center) a) (scaleHi r f (ref.getD r.center) a) },
           { r with pmin := tab r.ndim fun a => min (scaleLo r f (ref.getD r.center) a) (scaleHi r f (ref.getD r.center) a),
                    pmax := tab r.ndim fun a => max (scaleLo r f (ref.getD r.center) a) (scaleHi r f (ref.getD r.center) a) })
  else
    match viaCtor r (tab r.ndim (scaleLo r f (ref.getD r.center))) (tab r.ndim (scaleHi r f (ref.getD r.center))) r.units with
    | .error e => .error e
    | .ok r' => .ok (r, r')

/-- coordinate `a` of corner `p` after the quarter turn in the plane of axes `i1`, `i2` -/
def rotCoord (p ref : List Rat) (i1 i2 : Nat) (k : Int) (a : Nat) : Rat :=
  if a = i1 then ref.getD i1 0 + (cosq k * (p.getD i1 0 - ref.getD i1 0) - sinq k * (p.getD i2 0 - ref.getD i2 0))
  else if a = i2 then ref.getD i2 0 + (sinq k * (p.getD i1 0 - ref.getD i1 0) + cosq k * (p.getD i2 0 - ref.getD i2 0))
  else p.getD a 0

def rotUnits (u : List String) (i1 i2 : Nat) (k : Int) : List String :=
  if isOdd k then swapAt u i1 i2 else u

def rotate90R (r : Region) (ax1 ax2 : String) (k : Int) (ref : Option (List Rat)) (inplace : Bool) :
    M (Region × Region) :=
  if ax1 = ax2 then .error .value
  else if (ref.getD r.center).length ≠ r.ndim then .error .value
  else
    match r.dim2index ax1, r.dim2index ax2 with
    | .error e, _ => .error e
    | _, .error e => .error e
    | .ok i1, .ok i2 =>
      if inplace then
        if !allLt r.ndim (fun a => decide (rotCoord r.pmax (ref.getD r.center) i1 i2 k a - rotCoord r.pmin (ref.getD r.center) i1 i2 k a ≠ 0))
          then .error .value
        else
        .ok ({ r with pmin := tab r.ndim fun a => min (rotCoord r.pmin (ref.getD r.center) i1 i2 k a) (rotCoord r.pmax (ref.getD r.center) i1 i2 k a),
                      pmax := tab r.ndim fun a => max (rotCoord r.pmin (ref.getD r.center) i1 i2 k a) (rotCoord r.pmax (ref.getD r.center) i1 i2 k a),
                      units := rotUnits r.units i1 i2 k },
             { r with pmin := tab r.ndim fun a => min (rotCoord r.pmin (ref.getD r.center) i1 i2 k a) (rotCoord r.pmax (ref.getD r.center) i1 i2 k a),
                      pmax := tab r.ndim fun a => max (rotCoord r.pmin (ref.getD r.center) i1 i2 k a) (rotCoord r.pmax (ref.getD r.center) i1 i2 k a),
                      units := rotUnits r.units i1 i2 k })
      else
        match viaCtor r (tab r.ndim (rotCoord r.pmin (ref.getD r.center) i1 i2 k))
            (tab r.ndim (rotCoord r.pmax (ref.getD r.center) i1 i2 k)) (rotUnits r.units i1 i2 k) with
        | .error e => .error e
        | .ok r' => .ok (r, r')

/-! ## the transformation alphabet -/

inductive Op where
  | translate (v : List Rat) (inplace : Bool)
  | scale (f : Factor) (ref : Option (List Rat)) (inplace : Bool)
  | rotate90 (ax1 ax2 : String) (k : Int) (ref : Option (List Rat)) (inplace : Bool)
  deriving Repr

def Op.inplace : Op → Bool
  | .translate _ i => i
  | .scale _ _ i => i
  | .rotate90 _ _ _ _ i => i

def Op.withInplace (o : Op) (b : Bool) : Op :=
  match o with
  | .translate v _ => .translate v b
  | .scale f r _ => .scale f r b
  | .rotate90 a1 a2 k r _ => .rotate90 a1 a2 k r b

def stepR (r : Region) : Op → M (Region × Region)
  | .translate v i => translateR r v i
  | .scale f ref i => scaleR r f ref i
  | .rotate90 a1 a2 k ref i => rotate90R r a1 a2 k ref i

/-- follow a history: the "current object" is the returned one; a rejected step is skipped -/
def runR (r : Region) : List Op → Region
  | [] => r
  | op :: ops =>
    match stepR r op with
    | .ok (_, ret) => runR ret ops
    | .error _ => runR r ops

/-! ## Mesh: subregion setter and alignment (C14) -/

/-- `np.allclose(a, b, atol=tol)` on one entry (default `rtol = 1e-5`) -/
def allcloseAx (a b tol : Rat) : Bool := decide (absR (a - b) ≤ tol + absR b / 100000)

/-- remainder test of `Mesh.is_aligned` on one axis: `true` = misaligned -/
def misalignedAx (d c tol : Rat) : Bool :=
  decide (tol < Mesh.remainder (absR d) c) && decide (Mesh.remainder (absR d) c < c - tol)

/-- `Mesh.is_aligned(other, tolerance)` -/
def isAligned (m o : Mesh) (tol : Rat := 1/1000000000000) : Bool :=
  allLt m.ndim (fun a => allcloseAx (m.cellAt a) (o.cellAt a) tol) &&
  allLt m.ndim (fun a => !misalignedAx (m.region.lo a - o.region.lo a) (m.cellAt a) tol) &&
  allLt m.ndim (fun a => !misalignedAx (m.region.hi a - o.region.hi a) (m.cellAt a) tol)

/-- the three tests of the `subregions` setter on a region AS GIVEN: inside the mesh region, whole
cells (`Mesh(region=…, cell=mesh.cell)` exists), aligned -/
def subOk (m : Mesh) (s : Region) : Bool :=
  m.region.containsReg s &&
  (match Mesh.mkCell? s m.cell with
   | .ok sm => isAligned m sm
   | .error _ => false)

/-- the Region the setter stores for a candidate: its corners, the mesh region's names, units and
tolerance factor -/
def stampFor (r c : Region) : Region :=
  { pmin := c.pmin, pmax := c.pmax, dims := r.dims, units := r.units, tol := r.tol }

/-- one candidate of the `subregions` setter (repo fix 5591fed0, finding D132): a candidate of the
mesh's dimension is first rebuilt with the mesh region's names, units and tolerance factor — what
is going to be stored — and the three tests are made on THAT copy (the candidate's own tolerance
factor has no say); a candidate of another dimension is tested as it is (and fails the inside test) -/
def candOk (m : Mesh) (s : Region) : Bool :=
  subOk m (if s.ndim = m.ndim then stampFor m.region s else s)

/-- `Mesh.subregions = …` : all candidates are checked, then re-created with the mesh's
dims, units and tolerance; on failure the previous subregions are kept. -/
def setSubs (m : Mesh) (subs : List (String × Region)) : M Mesh :=
  if subs.all (fun p => candOk m p.2) then
    .ok { m with subs := subs.map fun p =>
      (p.1, { pmin := p.2.pmin, pmax := p.2.pmax, dims := m.region.dims, units := m.region.units,
              tol := m.region.tol }) }
  else .error .value

/-- `Mesh(region=…, n=…, bc=…, subregions=…)` -/
def mkMesh? (r : Region) (n : List Nat) (bc : String) (subs : List (String × Region)) : M Mesh :=
  match Mesh.mkN? r n bc with
  | .error e => .error e
  | .ok m => setSubs m subs

/-- apply a region step to every subregion (same flag), keeping names and order -/
def mapSubs (subs : List (String × Region)) (f : Region → M (Region × Region)) :
    M (List (String × Region)) :=
  subs.mapM fun p => match f p.2 with
    | .ok (_, ret) => .ok (p.1, ret)
    | .error e => .error e

def rotN (n : List Nat) (i1 i2 : Nat) (k : Int) : List Nat := if isOdd k then swapAt n i1 i2 else n

/-- periodic directions turn with the mesh: for odd `k` the two (single-character) axis names
are swapped in the `bc` string -/
def rotBc (bc a1 a2 : String) (k : Int) : String :=
  if isOdd k && !(bc == "neumann" || bc == "dirichlet" || bc == "") && a1.length == 1 && a2.length == 1
      && a1 == a1.toLower && a2 == a2.toLower then      -- repo fix be43fa9b: only lower-case names are swapped
    String.ofList (bc.toList.map fun c =>
      if [c] = a1.toList then a2.toList.headD c else if [c] = a2.toList then a1.toList.headD c else c)
  else bc

/-- the reference point the subregions are transformed about -/
def subRef (m : Mesh) (ref : Option (List Rat)) : Option (List Rat) := some (ref.getD m.region.center)

def stepM (m : Mesh) : Op → M (Mesh × Mesh)
  | .translate v i =>
    match translateR m.region v i, mapSubs m.subs (fun s => translateR s v i) with
    | .error e, _ => .error e
    | _, .error e => .error e
    | .ok (_, r'), .ok subs' =>
      if i then .ok ({ m with region := r', subs := subs' }, { m with region := r', subs := subs' })
      else match mkMesh? r' m.n m.bc subs' with
        | .error e => .error e
        | .ok m' => .ok (m, m')
  | .scale f ref i =>
    match scaleR m.region f ref i, mapSubs m.subs (fun s => scaleR s f (subRef m ref) i) with
    | .error e, _ => .error e
    | _, .error e => .error e
    | .ok (_, r'), .ok subs' =>
      if i then .ok ({ m with region := r', subs := subs' }, { m with region := r', subs := subs' })
      else match mkMesh? r' m.n m.bc subs' with
        | .error e => .error e
        | .ok m' => .ok (m, m')
  | .rotate90 a1 a2 k ref i =>
    match rotate90R m.region a1 a2 k ref i, mapSubs m.subs (fun s => rotate90R s a1 a2 k (subRef m ref) i),
          m.region.dim2index a1, m.region.dim2index a2 with
    | .error e, _, _, _ => .error e
    | _, .error e, _, _ => .error e
    | _, _, .error e, _ => .error e
    | _, _, _, .error e => .error e
    | .ok (_, r'), .ok subs', .ok i1, .ok i2 =>
      if i then .ok ({ m with region := r', n := rotN m.n i1 i2 k, bc := rotBc m.bc a1 a2 k, subs := subs' },
                     { m with region := r', n := rotN m.n i1 i2 k, bc := rotBc m.bc a1 a2 k, subs := subs' })
      else match mkMesh? r' (rotN m.n i1 i2 k) (rotBc m.bc a1 a2 k) subs' with
        | .error e => .error e
        | .ok m' => .ok (m, m')

def runM (m : Mesh) : List Op → Mesh
  | [] => m
  | op :: ops =>
    match stepM m op with
    | .ok (_, ret) => runM ret ops
    | .error _ => runM m ops

/-! ## Field -/

/-- `np.rot90(a, k, axes=(p, q))` -/
def rot90 {α} (a : NDA α) (p q : Nat) (k : Int) : NDA α :=
  if k % 4 = 0 then a
  else if k % 4 = 2 then (a.flip p).flip q
  else if k % 4 = 1 then (a.flip q).swapaxes p q
  else (a.swapaxes p q).flip q

/-- rotate the two mapped components of one cell value -/
def rotVec (v : List Rat) (c1 c2 : Nat) (k : Int) : List Rat :=
  tab v.length fun c =>
    if c = c1 then cosq k * v.getD c1 0 - sinq k * v.getD c2 0
    else if c = c2 then sinq k * v.getD c1 0 + cosq k * v.getD c2 0
    else v.getD c 0

/-- `Field.rotate90` -/
def rotate90F (f : Fld) (a1 a2 : String) (k : Int) (ref : Option (List Rat)) (inplace : Bool) : M (Fld × Fld) :=
  match stepM f.mesh (.rotate90 a1 a2 k ref false), f.mesh.region.dim2index a1, f.mesh.region.dim2index a2 with
  | .error e, _, _ => .error e
  | _, .error e, _ => .error e
  | _, _, .error e => .error e
  | .ok (_, m'), .ok i1, .ok i2 =>
    if f.nvdim > 1 then
      match (f.rDim a1).bind f.vdimIndex, (f.rDim a2).bind f.vdimIndex with
      | some c1, some c2 =>
        .ok (if inplace then { f with mesh := { m' with subs := m'.subs }, data := (rot90 f.data i1 i2 k).map fun v => rotVec v c1 c2 k,
                                      valid := rot90 f.valid i1 i2 k } else f,
             { f with mesh := m', data := (rot90 f.data i1 i2 k).map fun v => rotVec v c1 c2 k,
                      valid := rot90 f.valid i1 i2 k })
      | _, _ => .error .runtime
    else
      .ok (if inplace then { f with mesh := m', data := rot90 f.data i1 i2 k, valid := rot90 f.valid i1 i2 k } else f,
           { f with mesh := m', data := rot90 f.data i1 i2 k, valid := rot90 f.valid i1 i2 k })

def stepF (f : Fld) : Op → M (Fld × Fld)
  | .translate v i =>
    match stepM f.mesh (.translate v i) with
    | .error e => .error e
    | .ok (_, m') => .ok (if i then { f with mesh := m' } else f, { f with mesh := m' })
  | .scale s ref i =>
    match stepM f.mesh (.scale s ref i) with
    | .error e => .error e
    | .ok (_, m') => .ok (if i then { f with mesh := m' } else f, { f with mesh := m' })
  | .rotate90 a1 a2 k ref i => rotate90F f a1 a2 k ref i

/-- the shape part of the field invariant: array of shape `(*n, nvdim)` (modelled as an
`n`-shaped array of cell values) and a validity array of shape `n` -/
def FldInv (f : Fld) : Prop := f.mesh.Inv ∧ f.data.shape = f.mesh.n ∧ f.valid.shape = f.mesh.n


end DFV.T
