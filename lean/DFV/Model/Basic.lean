/-
Shared executable model: errors, index arithmetic (mixed radix), regions and meshes.
No import outside core Lean.  Definitions follow discretisedfield/region.py and mesh.py
(control flow and order of checks); where Python computes in binary64 the model computes
in `Rat`.
-/
namespace DFV

inductive Err where
  | type | value | index | key | runtime | notImpl
  deriving DecidableEq, Repr, Inhabited

abbrev M := Except Err

instance : ToString Err := ⟨fun e => match e with
  | .type => "type" | .value => "value" | .index => "index" | .key => "key"
  | .runtime => "runtime" | .notImpl => "notimpl"⟩

/-! ## Small list helpers -/

def absR (x : Rat) : Rat := if x < 0 then -x else x

def listMin : List Rat → Rat
  | [] => 0
  | x :: xs => xs.foldl min x

def listMax : List Rat → Rat
  | [] => 0
  | x :: xs => xs.foldl max x

def natProd : List Nat → Nat
  | [] => 1
  | n :: ns => n * natProd ns

def ratProd : List Rat → Rat
  | [] => 1
  | n :: ns => n * ratProd ns

def hasDup : List String → Bool
  | [] => false
  | x :: xs => xs.contains x || hasDup xs

def indexOf? (xs : List String) (x : String) : Option Nat :=
  go xs 0
where
  go : List String → Nat → Option Nat
    | [], _ => none
    | y :: ys, k => if y = x then some k else go ys (k + 1)

/-- list with position `i` replaced (no change when out of range) -/
def setAt {α} : List α → Nat → α → List α
  | [], _, _ => []
  | _ :: xs, 0, a => a :: xs
  | x :: xs, i + 1, a => x :: setAt xs i a

def removeAt {α} : List α → Nat → List α
  | [], _ => []
  | _ :: xs, 0 => xs
  | x :: xs, i + 1 => x :: removeAt xs i

def swapAt {α} [Inhabited α] (xs : List α) (i j : Nat) : List α :=
  setAt (setAt xs i (xs.getD j default)) j (xs.getD i default)

/-- table: `[f 0, …, f (n-1)]` — all per-axis quantities are built pointwise with this -/
def tab {α} (n : Nat) (f : Nat → α) : List α := (List.range n).map f

/-- `∀ a < n, p a` as a Bool -/
def allLt (n : Nat) (p : Nat → Bool) : Bool := (List.range n).all p

/-! ## Mixed-radix index arithmetic

`flatF` is first-index-fastest (the order of `Mesh.indices`, of OVF/VTK payloads);
`flatC` is last-index-fastest (NumPy's default memory order). -/

def inRange : List Nat → List Nat → Bool
  | [], [] => true
  | n :: ns, i :: is => decide (i < n) && inRange ns is
  | _, _ => false

def flatF : List Nat → List Nat → Nat
  | [], _ => 0
  | _ :: _, [] => 0
  | n :: ns, i :: is => i + n * flatF ns is

def unflatF : List Nat → Nat → List Nat
  | [], _ => []
  | n :: ns, k => (k % n) :: unflatF ns (k / n)

def flatC : List Nat → List Nat → Nat
  | [], _ => 0
  | _ :: _, [] => 0
  | _ :: ns, i :: is => i * natProd ns + flatC ns is

def unflatC : List Nat → Nat → List Nat
  | [], _ => []
  | _ :: ns, k => (k / natProd ns) :: unflatC ns (k % natProd ns)

/-- all multi-indices of a shape in first-index-fastest order (spec of `Mesh.indices`) -/
def indicesF (ns : List Nat) : List (List Nat) :=
  (List.range (natProd ns)).map (unflatF ns)

/-- all multi-indices in last-index-fastest order (np.ndindex order) -/
def indicesC (ns : List Nat) : List (List Nat) :=
  (List.range (natProd ns)).map (unflatC ns)

/-- Code-shaped `Mesh.indices`: `itertools.product(*map(range, reversed(n)))`, each tuple
reversed.  `product` varies its last factor fastest. -/
def productLastFastest : List Nat → List (List Nat)
  | [] => [[]]
  | n :: ns => (List.range n).flatMap fun i => (productLastFastest ns).map fun t => i :: t

def indicesCode (ns : List Nat) : List (List Nat) :=
  (productLastFastest ns.reverse).map List.reverse

/-! ## Region -/

structure Region where
  pmin : List Rat
  pmax : List Rat
  dims : List String
  units : List String
  tol : Rat
  deriving DecidableEq, Repr, Inhabited

namespace Region

def ndim (r : Region) : Nat := r.pmin.length
def lo (r : Region) (a : Nat) : Rat := r.pmin.getD a 0
def hi (r : Region) (a : Nat) : Rat := r.pmax.getD a 0
def edge (r : Region) (a : Nat) : Rat := r.hi a - r.lo a
def edges (r : Region) : List Rat := tab r.ndim r.edge
def center (r : Region) : List Rat := tab r.ndim fun a => (r.lo a + r.hi a) / 2

def defaultDims (n : Nat) : List String :=
  if n ≤ 3 then ["x", "y", "z"].take n else (List.range n).map fun i => s!"x{i}"

def dimsOk (n : Nat) : Option (List String) → M (List String)
  | none => .ok (defaultDims n)
  | some d => if d.length ≠ n then .error .value else if hasDup d then .error .value else .ok d

def unitsOk (n : Nat) : Option (List String) → M (List String)
  | none => .ok (List.replicate n "m")
  | some u => if u.length ≠ n then .error .value else .ok u

/-- `Region.__init__` (p1/p2 form): length checks, corner normalisation, dims/units
setters, zero-edge rejection. -/
def mk? (p1 p2 : List Rat) (dims units : Option (List String)) (tol : Rat := 1/1000000000000) :
    M Region :=
  if p1.length ≠ p2.length then .error .value
  else if p1.length = 0 then .error .value
  else
    match dimsOk p1.length dims with
    | .error e => .error e
    | .ok d =>
      match unitsOk p1.length units with
      | .error e => .error e
      | .ok u =>
        if !allLt p1.length (fun a => decide (p1.getD a 0 ≠ p2.getD a 0)) then .error .value
        else .ok { pmin := tab p1.length fun a => min (p1.getD a 0) (p2.getD a 0),
                   pmax := tab p1.length fun a => max (p1.getD a 0) (p2.getD a 0),
                   dims := d, units := u, tol := tol }

/-- the invariant C13 speaks about -/
def Inv (r : Region) : Prop :=
  0 < r.pmin.length ∧ r.pmax.length = r.pmin.length ∧ r.dims.length = r.pmin.length ∧
  r.units.length = r.pmin.length ∧ hasDup r.dims = false ∧
  ∀ a, a < r.pmin.length → r.lo a < r.hi a

def invB (r : Region) : Bool :=
  decide (0 < r.pmin.length) && decide (r.pmax.length = r.pmin.length) &&
  decide (r.dims.length = r.pmin.length) && decide (r.units.length = r.pmin.length) &&
  !hasDup r.dims && allLt r.pmin.length (fun a => decide (r.lo a < r.hi a))

def dim2index (r : Region) (d : String) : M Nat :=
  match indexOf? r.dims d with
  | some i => .ok i
  | none => .error .value

/-- `np.isclose(a, b, rtol, atol)` : `|a - b| ≤ atol + rtol * |b|` -/
def isclose (a b rtol atol : Rat) : Bool := decide (absR (a - b) ≤ atol + rtol * absR b)

def atol (r : Region) : Rat := listMin r.edges * r.tol

/-- one axis of `point in region` -/
def containsAx (r : Region) (a : Nat) (x : Rat) : Bool :=
  (decide (r.lo a ≤ x) || isclose (r.lo a) x r.tol r.atol) &&
  (decide (x ≤ r.hi a) || isclose (r.hi a) x r.tol r.atol)

/-- `point in region` (tolerant closed box, `Region.__contains__`) -/
def containsPt (r : Region) (p : List Rat) : Bool :=
  decide (p.length = r.ndim) && allLt r.ndim fun a => r.containsAx a (p.getD a 0)

/-- exact (tolerance-free) closed-box membership, used by theorems -/
def containsExact (r : Region) (p : List Rat) : Prop :=
  p.length = r.ndim ∧ ∀ a, a < r.ndim → r.lo a ≤ p.getD a 0 ∧ p.getD a 0 ≤ r.hi a

def containsReg (r o : Region) : Bool := r.containsPt o.pmin && r.containsPt o.pmax

end Region

/-! ## Mesh -/

structure Mesh where
  region : Region
  n : List Nat
  bc : String
  subs : List (String × Region)
  deriving DecidableEq, Repr, Inhabited

namespace Mesh

def ndim (m : Mesh) : Nat := m.region.ndim
def nAt (m : Mesh) (a : Nat) : Nat := m.n.getD a 0
def cellAt (m : Mesh) (a : Nat) : Rat := m.region.edge a / (m.nAt a : Rat)
def cell (m : Mesh) : List Rat := tab m.ndim m.cellAt

def len (m : Mesh) : Nat := natProd m.n

/-- bc setter check -/
def bcOk (dims : List String) (bc : String) : Bool :=
  bc = "neumann" || bc = "dirichlet" || bc = "" ||
  bc.toList.all fun c => dims.contains (String.singleton c) && (bc.toList.filter (· = c)).length = 1

/-- `Mesh(region=…, n=…)` without subregions -/
def mkN? (r : Region) (n : List Nat) (bc : String := "") : M Mesh :=
  if n.length ≠ r.ndim then .error .value
  else if n.any (· = 0) then .error .value
  else if !bcOk r.dims bc.toLower then .error .value
  else .ok { region := r, n := n, bc := bc.toLower, subs := [] }

/-- round to nearest, ties to even (`np.round`) -/
def roundHalfEven (q : Rat) : Int :=
  if q - (q.floor : Rat) < 1/2 then q.floor
  else if 1/2 < q - (q.floor : Rat) then q.floor + 1
  else if q.floor % 2 = 0 then q.floor else q.floor + 1

/-- `np.remainder(a, b)` for positive `b` -/
def remainder (a b : Rat) : Rat := a - ((a / b).floor : Rat) * b

/-- the 0.1 % divisibility test of one axis: `true` = rejected -/
def notDivisible (e c tol : Rat) : Bool :=
  decide (tol < remainder e c) && decide (remainder e c < c - tol)

/-- `Mesh(region=…, cell=…)`: positivity, not larger than the region, 0.1 % divisibility
test on the remainder, `n = round(edges / cell)`, and (repo fix 5c501c0e, D101) every count at least 1. -/
def mkCell? (r : Region) (cell : List Rat) (bc : String := "") : M Mesh :=
  if cell.length ≠ r.ndim then .error .value
  else if cell.any (fun c => decide (c ≤ 0)) then .error .value
  else if !r.containsPt (tab r.ndim fun a => r.lo a + cell.getD a 0) then .error .value
  else if !allLt r.ndim (fun a => !notDivisible (r.edge a) (cell.getD a 0) (listMin cell / 1000))
    then .error .value
  else if !allLt r.ndim (fun a => decide (1 ≤ (roundHalfEven (r.edge a / cell.getD a 0)).toNat)) then .error .value
  else if !bcOk r.dims bc.toLower then .error .value
  else .ok { region := r, n := tab r.ndim fun a => (roundHalfEven (r.edge a / cell.getD a 0)).toNat,
             bc := bc.toLower, subs := [] }

/-- centre coordinate of cell `i` along axis `a` -/
def centreAx (m : Mesh) (a : Nat) (i : Int) : Rat := m.region.lo a + ((i : Rat) + 1/2) * m.cellAt a

/-- `Mesh.index2point` on integer indices -/
def index2point (m : Mesh) (idx : List Int) : M (List Rat) :=
  if idx.length ≠ m.ndim then .error .index
  else if !allLt m.ndim (fun a => decide (0 ≤ idx.getD a 0) && decide (idx.getD a 0 < (m.nAt a : Int)))
    then .error .index
  else .ok (tab m.ndim fun a => m.centreAx a (idx.getD a 0))

def clipInt (x lo hi : Int) : Int := if x < lo then lo else if hi < x then hi else x

/-- index along axis `a` of coordinate `x`: floor, then clip to `[0, n-1]` -/
def indexAx (m : Mesh) (a : Nat) (x : Rat) : Nat :=
  (clipInt ((x - m.region.lo a) / m.cellAt a).floor 0 ((m.nAt a : Int) - 1)).toNat

/-- `Mesh.point2index`: containment test, floor, clip -/
def point2index (m : Mesh) (p : List Rat) : M (List Nat) :=
  if p.length ≠ m.ndim then .error .value
  else if !m.region.containsPt p then .error .value
  else .ok (tab m.ndim fun a => m.indexAx a (p.getD a 0))

/-- `np.linspace(a, b, n)` -/
def linspace (a b : Rat) (n : Nat) : List Rat :=
  if n = 1 then [a] else tab n fun j => a + (j : Rat) * ((b - a) / ((n : Rat) - 1))

/-- `Mesh.cells`: per-axis cell centres -/
def cells (m : Mesh) : List (List Rat) :=
  tab m.ndim fun a =>
    linspace (m.region.lo a + m.cellAt a / 2) (m.region.hi a - m.cellAt a / 2) (m.nAt a)

/-- `Mesh.vertices` -/
def vertices (m : Mesh) : List (List Rat) :=
  tab m.ndim fun a => linspace (m.region.lo a) (m.region.hi a) (m.nAt a + 1)

/-- centre of cell `i` (total; spec layer) -/
def centre (m : Mesh) (i : List Nat) : List Rat :=
  tab m.ndim fun a => m.centreAx a (i.getD a 0 : Nat)

/-- `Mesh.__iter__` -/
def iter (m : Mesh) : List (List Rat) := (indicesCode m.n).map m.centre

def Inv (m : Mesh) : Prop :=
  m.region.Inv ∧ m.n.length = m.region.ndim ∧ ∀ a, a < m.ndim → 0 < m.nAt a

def invB (m : Mesh) : Bool :=
  m.region.invB && decide (m.n.length = m.region.ndim) && allLt m.ndim (fun a => decide (0 < m.nAt a))

end Mesh

end DFV
