import DFV.Model.Field
import DFV.Model.Transform
/-!
C08 — validity masks follow the data through every operation that keeps or maps cells.

Only the VALIDITY part of every public `Field` operation is modelled, as a transformation of a
Boolean n-d array (`Mask = NDA Bool`), following `discretisedfield/field.py`:

* every operation ends in `Field(..., valid=<array>)`, i.e. in the validity setter
  (`field.py:557-567`), which stores `np.array(val, dtype=bool)` — a NEW buffer (`own`);
* unary / derived operations pass `self.valid`; binary operations between two fields pass
  `np.logical_and(self.valid, other.valid)`; with a number / vector / array operand `self.valid`;
* `sel`, `__getitem__`, `pad`, `resample`, `rotate90` apply to the mask the same NumPy call as to
  the value array (`MapOp`, polymorphic in the entry type, so "the same index map as the data"
  is literal);
* the HDF5 and VTK codecs store the mask (C-order Booleans / F-order integers) and read it back;
* the setter accepts `None`, a number, an array (shape `n`, or broadcastable with a trailing
  axis of length 1), a callable evaluated at the cell centres, or `'norm'`
  (`~np.isclose(norm, 0)`, absolute threshold 1e-8, modelled on squared lengths).

* results built without `valid=` (`mean`, `integrate`, the FFT family, the temporary field of
  `f << 3`) are valid everywhere on their own shape (`FreshOp`, node `fresh`);
* `grad`, `div`, `curl`, `laplace`, `sum`, `<<`-stacking, ufuncs with several field inputs and the
  reflected operators are the compositions `field.py` builds (`gradProg` … `rcrossProg`);
* a scalar Boolean field handed over as `valid=` (what `resample` does) is looked up at the cell
  centres, nearest cell per axis (`MSpec.lookup`).

A program (`Prog`) is an expression tree over input fields; `eval` is the code-shaped evaluator
(whole arrays, every node materialises its own buffer), `spec` the index-level reading (value
at result cell `j` pulled back through the index maps to the leaves), `wf` the acceptance check.
`evalS` threads an abstract store of validity buffers: every node except unary plus allocates
(ownership).  `Sess` / `Stmt` are sessions: histories of statements over variables with IN-PLACE
changes (`x.valid = …`, `x.valid[idx] = v`, `x.rotate90(inplace=True)`), every statement reading its
operands' masks from the store.  No import outside the model.
-/
namespace DFV.C08
open DFV

abbrev Mask := NDA Bool

/-- `np.array(val, dtype=bool)` in the validity setter: a new buffer with the same entries -/
def own (m : Mask) : Mask := m.force false

/-! ## operations that map cells (`sel`, `__getitem__`, `pad`, `resample`, `rotate90`) -/

inductive PadMode where
  | constant | edge | wrap | symmetric | reflect
  deriving Repr, DecidableEq, Inhabited

/-- `numpy.pad` along one axis as an index map: source position of result position `j` for an
axis of `n` cells padded by `lo` cells in front; `none` = the constant fill value.
`(j + lo·(P−1)) mod P` is `(j − lo) mod P` without leaving ℕ. -/
def padSrc (mode : PadMode) (n lo j : Nat) : Option Nat :=
  match mode with
  | .constant => if lo ≤ j ∧ j < lo + n then some (j - lo) else none
  | .edge => some (if j < lo then 0 else if j < lo + n then j - lo else n - 1)
  | .wrap => some ((j + lo * (n - 1)) % n)
  | .symmetric =>
    some (if (j + lo * (2 * n - 1)) % (2 * n) < n then (j + lo * (2 * n - 1)) % (2 * n)
          else 2 * n - 1 - (j + lo * (2 * n - 1)) % (2 * n))
  | .reflect =>
    if n = 1 then some 0
    else some (if (j + lo * (2 * n - 3)) % (2 * n - 2) < n then (j + lo * (2 * n - 3)) % (2 * n - 2)
               else 2 * n - 2 - (j + lo * (2 * n - 3)) % (2 * n - 2))

/-- centre of cell `k` of an axis of `n` cells, region normalised to `[0, 1]` -/
def centre01 (n k : Nat) : Rat := ((k : Rat) + 1 / 2) / (n : Rat)

/-- nearest entry of the coordinate table `cs 0 … cs m`; among equally near entries the one
with the larger index (pandas `get_indexer(method="nearest")` on an increasing index, which is
what `to_xarray().sel(..., method="nearest")` uses) -/
def nearestUpTo (cs : Nat → Rat) (x : Rat) : Nat → Nat
  | 0 => 0
  | k + 1 =>
    if absR (cs (k + 1) - x) ≤ absR (cs (nearestUpTo cs x k) - x) then k + 1
    else nearestUpTo cs x k

/-- source cell (of `n`) nearest to the centre of target cell `j` (of `n'`) on the same edge -/
def nearest (n n' j : Nat) : Nat := nearestUpTo (centre01 n) (centre01 n' j) (n - 1)

/-- closed form of `nearest`: the source cell that CONTAINS the centre of target cell `j` (a centre on
a border of two source cells goes to the upper one), `⌊(2j+1)·n / (2n')⌋` capped at the last cell
(`Props/C08.nearest_closed_form`) -/
def nearestFast (n n' j : Nat) : Nat := min (n - 1) (((2 * j + 1) * n) / (2 * n'))

/-- index map of `np.rot90(a, k, axes=(p, q))`, pointwise -/
def rotSrc (s : List Nat) (p q : Nat) (k : Int) (j : List Nat) : List Nat :=
  tab s.length fun b =>
    if k % 4 = 0 then j.getD b 0
    else if k % 4 = 2 then
      (if b = p then s.getD p 0 - 1 - j.getD p 0 else if b = q then s.getD q 0 - 1 - j.getD q 0
       else j.getD b 0)
    else if k % 4 = 1 then
      (if b = p then j.getD q 0 else if b = q then s.getD q 0 - 1 - j.getD p 0 else j.getD b 0)
    else
      (if b = p then s.getD p 0 - 1 - j.getD q 0 else if b = q then j.getD p 0 else j.getD b 0)

/-- the cell-mapping operations, with the arguments the array code receives -/
inductive MapOp where
  /-- `sel(dim=point)`: `a[..., k, ...]` (axis removed) -/
  | take (ax k : Nat)
  /-- `sel(dim=(p1, p2))`: `a[..., lo:hi, ...]` -/
  | slice (ax lo hi : Nat)
  /-- `field[region]`: `a[lo₀:hi₀, lo₁:hi₁, …]` -/
  | crop (lo hi : List Nat)
  /-- `pad(pad_width, mode)`: `np.pad(a, widths, mode)` -/
  | pad (mode : PadMode) (w : List (Nat × Nat))
  /-- `resample(n)`: nearest source cell of every target cell centre -/
  | resample (n : List Nat)
  /-- `rotate90(ax1, ax2, k)`: `np.rot90(a, k, axes)` -/
  | rot (a b : Nat) (k : Int)
  deriving Repr, Inhabited

namespace MapOp

/-- accepted on a source array of shape `s` (what the mesh-level checks of the code leave) -/
def ok : MapOp → List Nat → Bool
  | .take ax k, s => decide (ax < s.length) && decide (k < s.getD ax 0) && decide (1 < s.length)
  | .slice ax lo hi, s => decide (ax < s.length) && decide (lo < hi) && decide (hi ≤ s.getD ax 0)
  | .crop lo hi, s =>
    decide (lo.length = s.length) && decide (hi.length = s.length) &&
    allLt s.length fun b => decide (lo.getD b 0 < hi.getD b 0) && decide (hi.getD b 0 ≤ s.getD b 0)
  | .pad _ w, s => decide (w.length = s.length) && allLt s.length fun b => decide (0 < s.getD b 0)
  | .resample n, s =>
    decide (n.length = s.length) &&
    allLt s.length fun b => decide (0 < n.getD b 0) && decide (0 < s.getD b 0)
  | .rot a b _, s => decide (a < s.length) && decide (b < s.length) && decide (a ≠ b)

/-- shape of the result -/
def shape : MapOp → List Nat → List Nat
  | .take ax _, s => tab (s.length - 1) fun b => if b < ax then s.getD b 0 else s.getD (b + 1) 0
  | .slice ax lo hi, s => tab s.length fun b => if b = ax then hi - lo else s.getD b 0
  | .crop lo hi, s => tab s.length fun b => hi.getD b 0 - lo.getD b 0
  | .pad _ w, s => tab s.length fun b => s.getD b 0 + (w.getD b (0, 0)).1 + (w.getD b (0, 0)).2
  | .resample n, _ => n
  | .rot a b k, s => if k % 4 = 1 ∨ k % 4 = 3 then swapAt s a b else s

/-- source cell of result cell `j` (`none`: the constant fill of `np.pad`) -/
def src : MapOp → List Nat → List Nat → Option (List Nat)
  | .take ax k, s, j =>
    some (tab s.length fun b => if b < ax then j.getD b 0 else if b = ax then k else j.getD (b - 1) 0)
  | .slice ax lo _, s, j => some (tab s.length fun b => if b = ax then j.getD b 0 + lo else j.getD b 0)
  | .crop lo _, s, j => some (tab s.length fun b => j.getD b 0 + lo.getD b 0)
  | .pad mode w, s, j =>
    if allLt s.length (fun b => (padSrc mode (s.getD b 0) (w.getD b (0, 0)).1 (j.getD b 0)).isSome)
    then some (tab s.length fun b => (padSrc mode (s.getD b 0) (w.getD b (0, 0)).1 (j.getD b 0)).getD 0)
    else none
  | .resample n, s, j => some (tab s.length fun b => nearest (s.getD b 0) (n.getD b 0) (j.getD b 0))
  | .rot a b k, s, j => some (rotSrc s a b k j)

end MapOp

/-- result built cell by cell through an index map -/
def gather {α} (x : NDA α) (shape : List Nat) (src : List Nat → Option (List Nat)) (fill : α) : NDA α :=
  ⟨shape, fun j => match src j with
    | some i => x.get i
    | none => fill⟩

/-- the array call of the operation, for ANY entry type: the code applies it to `self.array`
and to `self.valid` alike.  `rot` is NumPy's own implementation (flips and an axis swap). -/
def MapOp.apply {α} (op : MapOp) (x : NDA α) (fill : α) : NDA α :=
  match op with
  | .rot a b k => T.rot90 x a b k
  | .take ax k => gather x ((MapOp.take ax k).shape x.shape) ((MapOp.take ax k).src x.shape) fill
  | .slice ax lo hi => gather x ((MapOp.slice ax lo hi).shape x.shape) ((MapOp.slice ax lo hi).src x.shape) fill
  | .crop lo hi => gather x ((MapOp.crop lo hi).shape x.shape) ((MapOp.crop lo hi).src x.shape) fill
  | .pad m w => gather x ((MapOp.pad m w).shape x.shape) ((MapOp.pad m w).src x.shape) fill
  | .resample n => gather x ((MapOp.resample n).shape x.shape) ((MapOp.resample n).src x.shape) fill

/-- `resample(n')` through the closed form of the source cell (what the driver runs for arrays with
thousands of cells along an axis; equal to `(MapOp.resample n').apply`, `Props/C08.resample_fast_is_resample`) -/
def resampleFast {α} (x : NDA α) (n' : List Nat) : NDA α :=
  ⟨n', fun j => x.get (tab x.shape.length fun b => nearestFast (x.shape.getD b 0) (n'.getD b 0) (j.getD b 0))⟩

/-! ## results on a new cell set (`mean`, `integrate`, the FFT family, temporary fields) -/

/-- operations whose result is built WITHOUT `valid=`: the constructor's default `valid=True`
makes every cell of the result valid, whatever the operand's mask was -/
inductive FreshOp where
  /-- same cells on the SAME mesh object: `Field(self.mesh, nvdim=…, value=other)` (the temporary
  field of `f << 3`), `integrate(direction, cumulative=True)` -/
  | same
  /-- `mean(direction=…)` / `integrate(direction=…)`: `mesh.sel(d)` for every named direction -/
  | reduce (axes : List Nat)
  /-- `rfftn`: the last axis keeps `n // 2 + 1` frequencies -/
  | rfft
  /-- `fftn` / `ifftn`: the same number of cells, on a NEW mesh (`mesh.fftn()` / `mesh.ifftn()`) -/
  | spectrum
  /-- `irfftn(shape)`: the last axis gets the length named by `shape` (`some last`) or, without a
  shape, `(n_last - 1)·2` (just `n_last` when that is 1), as `Mesh.ifftn(rfft=True, shape)` does -/
  | irfft (last : Option Nat)
  deriving Repr, Inhabited

/-- length of the last axis after `irfftn`: the one named by `shape`, else `(n_last - 1)·2`
(`n_last` itself when it is 1) -/
def irfftLast (last : Option Nat) (s : List Nat) : Nat :=
  match last with
  | some l => l
  | none => if s.getD (s.length - 1) 0 = 1 then 1 else (s.getD (s.length - 1) 0 - 1) * 2

namespace FreshOp

/-- accepted on an operand of shape `s` (a field is returned) -/
def ok : FreshOp → List Nat → Bool
  | .same, _ => true
  | .reduce axes, s => axes.all (fun a => decide (a < s.length)) && decide axes.Nodup && decide (axes.length < s.length)
  | .rfft, s => decide (0 < s.length)
  | .spectrum, _ => true
  | .irfft last, s =>
    decide (0 < s.length) && decide (0 < irfftLast last s) &&
      decide (irfftLast last s / 2 + 1 = s.getD (s.length - 1) 0)

/-- cells per axis of the result's mesh -/
def shape : FreshOp → List Nat → List Nat
  | .same, s => s
  | .reduce axes, s => ((List.range s.length).filter fun b => !axes.contains b).map fun b => s.getD b 0
  | .rfft, s => tab s.length fun b => if b + 1 = s.length then s.getD b 0 / 2 + 1 else s.getD b 0
  | .spectrum, s => s
  | .irfft last, s => tab s.length fun b => if b + 1 = s.length then irfftLast last s else s.getD b 0

end FreshOp

/-! ## file round trips -/

/-- `valid.astype(int).transpose((2,1,0)).reshape(-1)` (`Field.to_vtk`): integers, first index
fastest -/
def vtkWrite (m : Mask) : List Int := (indicesF m.shape).map fun i => if m.get i then 1 else 0

/-- `vtk_to_numpy(a).reshape(*reversed(n)).transpose((2,1,0))`, then the setter's cast to bool -/
def vtkRead (n : List Nat) (buf : List Int) : Mask := ⟨n, fun i => decide (buf.getD (flatF n i) 0 ≠ 0)⟩

/-- `create_dataset("valid", data=self.valid, dtype=bool)`: Booleans in C order -/
def h5Write (m : Mask) : List Bool := m.toList

/-- the stored dataset, indexed as an array of shape `n` -/
def h5Read (n : List Nat) (buf : List Bool) : Mask := NDA.ofList n buf false

/-! ## the validity setter at mask level -/

/-- what the setter receives, reduced to what decides the mask -/
inductive MSpec where
  /-- `None` -/
  | none
  /-- a number (bool, int, float) -/
  | const (v : Rat)
  /-- an array / nested list of numbers with its own shape -/
  | arr (a : NDA Rat)
  /-- truth value per cell (a callable already composed with "centre of cell") -/
  | cells (g : List Nat → Bool)
  /-- `'norm'`: squared length of the stored value of every cell -/
  | norm (sq : NDA Rat)
  /-- a scalar field of Booleans on another mesh (what `resample` hands over): looked up at the
  cell centres with `to_xarray().sel(..., method="nearest")`.  `inside`: the receiving region lies
  in the field's region; `cs b k` = centre of the field's cell `k` along axis `b`, `xs b j` =
  centre of the receiving mesh's cell `j` along axis `b` -/
  | lookup (src : Mask) (inside : Bool) (cs xs : Nat → Nat → Rat)
  /-- any other string / unsupported type -/
  | bad

/-- the absolute tolerance of `np.isclose` -/
def atol : Rat := 1 / 100000000

/-- shapes `s` that NumPy broadcasts to `t` (right-aligned, every axis equal or 1) -/
def bcastOk (s t : List Nat) : Bool :=
  decide (s.length ≤ t.length) &&
  allLt s.length fun k => decide (s.getD k 0 = 1) || decide (s.getD k 0 = t.getD (k + (t.length - s.length)) 0)

/-- entry of an array of shape `s` seen at index `j` of the broadcast shape `t` -/
def bcastIdx (s t j : List Nat) : List Nat :=
  tab s.length fun k => if s.getD k 0 = 1 then 0 else j.getD (k + (t.length - s.length)) 0

/-- cell of a field with `s` cells per axis and centres `cs` nearest to the centre of cell `j`
of a mesh with centres `xs` (axis by axis) -/
def lookupIdx (s : List Nat) (cs xs : Nat → Nat → Rat) (j : List Nat) : List Nat :=
  tab s.length fun b => nearestUpTo (cs b) (xs b (j.getD b 0)) (s.getD b 0 - 1)

/-- `Field.valid.setter` + `_as_array(valid, mesh, nvdim=1, dtype=bool)[..., 0]` for a mesh with
`n` cells per axis: `np.full` for numbers, a copy for an array of shape `n`, broadcasting for
an array with a trailing axis of length 1, errors otherwise. -/
def setMask (n : List Nat) : MSpec → M Mask
  | .none => .ok (own (NDA.const n true))
  | .const v => .ok (own (NDA.const n (decide (v ≠ 0))))
  | .arr a =>
    if a.shape = n then .ok (own ⟨n, fun j => decide (a.get j ≠ 0)⟩)
    else if a.shape.getLast? ≠ some 1 then .error .value
    else if !bcastOk a.shape (n ++ [1]) then .error .value
    else .ok (own ⟨n, fun j => decide (a.get (bcastIdx a.shape (n ++ [1]) (j ++ [0])) ≠ 0)⟩)
  | .cells g => .ok (own ⟨n, g⟩)
  | .norm sq => .ok (own ⟨n, fun j => decide (atol * atol < sq.get j)⟩)
  | .lookup src inside cs xs =>
    if !inside then .error .value
    else if src.shape.length ≠ n.length then .error .value
    else .ok (own ⟨n, fun j => src.get (lookupIdx src.shape cs xs j)⟩)
  | .bad => .error .type

/-- a Boolean array seen as the numbers NumPy converts it from (`True` = 1, `False` = 0) -/
def asArr (m : Mask) : NDA Rat := m.map fun b => if b then 1 else 0

/-! ## the setter at field level -/

inductive VSpec where
  | none
  | norm
  | const (v : Rat)
  | arr (a : NDA Rat)
  /-- a callable on points; only the truth value of what it returns matters -/
  | func (g : List Rat → Bool)
  | bad

def sumSq : List Rat → Rat
  | [] => 0
  | c :: cs => c * c + sumSq cs

def toMSpec (f : Fld) : VSpec → MSpec
  | .none => .none
  | .norm => .norm ⟨f.mesh.n, fun j => sumSq (f.data.get j)⟩
  | .const v => .const v
  | .arr a => .arr a
  | .func g => .cells fun j => g (f.mesh.centre j)
  | .bad => .bad

/-- `field.valid = spec` -/
def setValid (f : Fld) (s : VSpec) : M Fld :=
  match setMask f.mesh.n (toMSpec f s) with
  | .error e => .error e
  | .ok m => .ok { f with valid := m }

/-! ## programs -/

/-- expression trees over input fields (leaves), validity part only -/
inductive Prog where
  | leaf (k : Nat)
  /-- unary plus: returns the operand itself -/
  | pos (p : Prog)
  /-- `-f abs(f) f.norm f.orientation f.<comp> f.real f.imag f.conjugate f.phase f.abs f.diff(..)` -/
  | un (p : Prog)
  /-- binary operator / `dot` / `cross` / `angle` / `<<` with a number, vector or array operand -/
  | binC (p : Prog)
  /-- binary operator / `dot` / `cross` / `angle` / `<<` between two fields -/
  | binF (p q : Prog)
  | map (op : MapOp) (p : Prog)
  /-- write to a VTK file and read back -/
  | vtk (p : Prog)
  /-- write to an HDF5 file and read back -/
  | hdf5 (p : Prog)
  /-- `g = <p>; g.valid = spec` -/
  | setv (s : MSpec) (p : Prog)
  /-- a field built from `p` without `valid=` (`mean`, `integrate`, `fftn`, …, `Field(mesh, value=3)`) -/
  | fresh (k : FreshOp) (p : Prog)

/-- code-shaped evaluation: every node transforms the whole mask array as the code does and
stores it through the setter (`own`) -/
def eval (env : Nat → Mask) : Prog → M Mask
  | .leaf k => .ok (env k)
  | .pos p => eval env p
  | .un p =>
    match eval env p with
    | .error e => .error e
    | .ok m => .ok (own m)
  | .binC p =>
    match eval env p with
    | .error e => .error e
    | .ok m => .ok (own m)
  | .binF p q =>
    match eval env p with
    | .error e => .error e
    | .ok a =>
      match eval env q with
      | .error e => .error e
      | .ok b => if a.shape = b.shape then .ok (own (NDA.zipWith and a b)) else .error .value
  | .map op p =>
    match eval env p with
    | .error e => .error e
    | .ok m => if op.ok m.shape then .ok (own (op.apply m false)) else .error .value
  | .vtk p =>
    match eval env p with
    | .error e => .error e
    | .ok m => if m.shape.length = 3 then .ok (own (vtkRead m.shape (vtkWrite m))) else .error .runtime
  | .hdf5 p =>
    match eval env p with
    | .error e => .error e
    | .ok m => .ok (own (h5Read m.shape (h5Write m)))
  | .setv s p =>
    match eval env p with
    | .error e => .error e
    | .ok m => setMask m.shape s
  | .fresh k p =>
    match eval env p with
    | .error e => .error e
    | .ok m => if k.ok m.shape then setMask (k.shape m.shape) (.const 1) else .error .value

/-- shape of the result (total; meaningful when `eval` succeeds) -/
def shapeOf (env : Nat → Mask) : Prog → List Nat
  | .leaf k => (env k).shape
  | .pos p => shapeOf env p
  | .un p => shapeOf env p
  | .binC p => shapeOf env p
  | .binF p _ => shapeOf env p
  | .map op p => op.shape (shapeOf env p)
  | .vtk p => shapeOf env p
  | .hdf5 p => shapeOf env p
  | .setv _ p => shapeOf env p
  | .fresh k p => k.shape (shapeOf env p)

/-- the setter's result at cell `j`, read off the specification -/
def specMask (n : List Nat) : MSpec → List Nat → Bool
  | .none, _ => true
  | .const v, _ => decide (v ≠ 0)
  | .arr a, j =>
    if a.shape = n then decide (a.get j ≠ 0)
    else decide (a.get (bcastIdx a.shape (n ++ [1]) (j ++ [0])) ≠ 0)
  | .cells g, j => g j
  | .norm sq, j => decide (atol * atol < sq.get j)
  | .lookup src _ cs xs, j => src.get (lookupIdx src.shape cs xs j)
  | .bad, _ => false

/-- index-level reading: validity of result cell `j`, pulled back to the leaves -/
def spec (env : Nat → Mask) : Prog → List Nat → Bool
  | .leaf k, j => (env k).get j
  | .pos p, j => spec env p j
  | .un p, j => spec env p j
  | .binC p, j => spec env p j
  | .binF p q, j => spec env p j && spec env q j
  | .map op p, j =>
    match op.src (shapeOf env p) j with
    | some i => spec env p i
    | none => false
  | .vtk p, j => spec env p j
  | .hdf5 p, j => spec env p j
  | .setv s p, j => specMask (shapeOf env p) s j
  | .fresh _ _, _ => true

/-- programs without a setter node -/
def setterFree : Prog → Bool
  | .leaf _ => true
  | .pos p => setterFree p
  | .un p => setterFree p
  | .binC p => setterFree p
  | .binF p q => setterFree p && setterFree q
  | .map _ p => setterFree p
  | .vtk p => setterFree p
  | .hdf5 p => setterFree p
  | .setv _ _ => false
  | .fresh _ p => setterFree p

/-- the leaf cells a result cell depends on (`none`: the cell was filled by constant padding) -/
def deps (env : Nat → Mask) : Prog → List Nat → Option (List (Nat × List Nat))
  | .leaf k, j => some [(k, j)]
  | .pos p, j => deps env p j
  | .un p, j => deps env p j
  | .binC p, j => deps env p j
  | .binF p q, j =>
    match deps env p j, deps env q j with
    | some l1, some l2 => some (l1 ++ l2)
    | _, _ => none
  | .map op p, j =>
    match op.src (shapeOf env p) j with
    | some i => deps env p i
    | none => none
  | .vtk p, j => deps env p j
  | .hdf5 p, j => deps env p j
  | .setv _ _, _ => none
  | .fresh _ _, _ => some []

/-! ## ownership: an abstract store of validity buffers -/

/-- the input field whose very object the program returns (only unary plus does that) -/
def aliasOf : Prog → Option Nat
  | .leaf k => some k
  | .pos p => aliasOf p
  | _ => none

abbrev Store := List (List Bool)

/-- evaluation with buffer addresses: leaf `k` lives at `addr k`; every node that builds a
field allocates a new buffer for its mask (the setter's `np.array(..., dtype=bool)`), unary plus
returns its operand's address.  Result: address of the result's mask, and the store. -/
def evalS (env : Nat → Mask) (addr : Nat → Nat) : Prog → Store → M (Nat × Store)
  | .leaf k, st => .ok (addr k, st)
  | .pos p, st => evalS env addr p st
  | .un p, st =>
    match evalS env addr p st with
    | .error e => .error e
    | .ok r =>
      match eval env (.un p) with
      | .error e => .error e
      | .ok m => .ok (r.2.length, r.2 ++ [m.toList])
  | .binC p, st =>
    match evalS env addr p st with
    | .error e => .error e
    | .ok r =>
      match eval env (.binC p) with
      | .error e => .error e
      | .ok m => .ok (r.2.length, r.2 ++ [m.toList])
  | .binF p q, st =>
    match evalS env addr p st with
    | .error e => .error e
    | .ok r1 =>
      match evalS env addr q r1.2 with
      | .error e => .error e
      | .ok r2 =>
        match eval env (.binF p q) with
        | .error e => .error e
        | .ok m => .ok (r2.2.length, r2.2 ++ [m.toList])
  | .map op p, st =>
    match evalS env addr p st with
    | .error e => .error e
    | .ok r =>
      match eval env (.map op p) with
      | .error e => .error e
      | .ok m => .ok (r.2.length, r.2 ++ [m.toList])
  | .vtk p, st =>
    match evalS env addr p st with
    | .error e => .error e
    | .ok r =>
      match eval env (.vtk p) with
      | .error e => .error e
      | .ok m => .ok (r.2.length, r.2 ++ [m.toList])
  | .hdf5 p, st =>
    match evalS env addr p st with
    | .error e => .error e
    | .ok r =>
      match eval env (.hdf5 p) with
      | .error e => .error e
      | .ok m => .ok (r.2.length, r.2 ++ [m.toList])
  | .setv s p, st =>
    match evalS env addr p st with
    | .error e => .error e
    | .ok r =>
      match eval env (.setv s p) with
      | .error e => .error e
      | .ok m =>
        -- `g.valid = spec` on a freshly built `g` replaces g's buffer; on an input field
        -- (or `+f`) it replaces THAT field's buffer reference: the old buffer is untouched
        .ok (r.2.length, r.2 ++ [m.toList])
  | .fresh k p, st =>
    match evalS env addr p st with
    | .error e => .error e
    | .ok r =>
      match eval env (.fresh k p) with
      | .error e => .error e
      | .ok m => .ok (r.2.length, r.2 ++ [m.toList])

/-- write-through probe: `result.valid[k] = v` -/
def write (st : Store) (a k : Nat) (v : Bool) : Store := st.set a ((st.getD a []).set k v)

/-! ## compound operations, as `field.py` composes them from the elementary ones -/

/-- `((acc ∘ x₀) ∘ x₁) ∘ …` — the loop `result = result << d` / the additions of `sum` -/
def chainF (acc : Prog) : List Prog → Prog
  | [] => acc
  | x :: xs => chainF (.binF acc x) xs

/-- Python's `sum(xs)`: `0 + x₀ + x₁ + …` (`0 + x₀` is `x₀.__radd__(0)`, a number operand) -/
def sumProg : List Prog → Prog
  | [] => .leaf 0
  | x :: xs => chainF (.binC x) xs

/-- `result = xs[0]; for d in xs[1:]: result = result << d` -/
def stackProg : List Prog → Prog
  | [] => .leaf 0
  | x :: xs => chainF x xs

/-- `__array_ufunc__`: `np.logical_and.reduce([x.valid for x in inputs if isinstance(x, Field)])`
handed to the constructor -/
def ufuncProg : List Prog → Prog
  | [] => .leaf 0
  | x :: xs => chainF (.un x) xs

/-- `grad`: `[self.diff(dim) for dim in dims]` stacked (`nd` spatial directions) -/
def gradProg (nd : Nat) (p : Prog) : Prog := stackProg (tab nd fun _ => .un p)

/-- `div`: `sum(getattr(self, vdim).diff(dim(vdim)) for vdim in self.vdims)` (`nv` components) -/
def divProg (nv : Nat) (p : Prog) : Prog := sumProg (tab nv fun _ => .un (.un p))

/-- `curl`: three differences of derivatives of components, stacked -/
def curlProg (p : Prog) : Prog := stackProg (tab 3 fun _ => .binF (.un (.un p)) (.un (.un p)))

/-- `laplace`: per component the sum of the second derivatives over the `nd` directions, stacked -/
def laplaceProg (nd nv : Nat) (p : Prog) : Prog :=
  if nv = 1 then stackProg [sumProg (tab nd fun _ => .un p)]
  else stackProg (tab nv fun _ => sumProg (tab nd fun _ => .un (.un p)))

/-- `f << 3`, `f << (1, 2)`: `self << Field(self.mesh, nvdim=…, value=other)` -/
def lshiftConstProg (p : Prog) : Prog := .binF p (.fresh .same p)

/-- `3 << f`: `Field(self.mesh, nvdim=…, value=other) << self` -/
def rlshiftConstProg (p : Prog) : Prog := .binF (.fresh .same p) p

/-- `other - f` (`__rsub__`): `-self + other` -/
def rsubProg (p : Prog) : Prog := .binC (.un p)

/-- `other & f` (`__rand__`): `-self.cross(other)` -/
def rcrossProg (p : Prog) : Prog := .un (.binC p)

/-- `padded[region of the original field]` / the `out[slices]` of `diff` on a periodic mesh: the
block of the original cells inside the array padded by `w` -/
def unpad (w : List (Nat × Nat)) (s : List Nat) : MapOp :=
  .crop (tab s.length fun b => (w.getD b (0, 0)).1) (tab s.length fun b => (w.getD b (0, 0)).1 + s.getD b 0)

/-! ## acceptance -/

/-- the setter accepts the argument for a mesh with `n` cells per axis -/
def MSpec.ok (n : List Nat) : MSpec → Bool
  | .none => true
  | .const _ => true
  | .arr a => decide (a.shape = n) || (decide (a.shape.getLast? = some 1) && bcastOk a.shape (n ++ [1]))
  | .cells _ => true
  | .norm _ => true
  | .lookup src inside _ _ => inside && decide (src.shape.length = n.length)
  | .bad => false

/-- well-formed program: shapes of combined fields agree, every mapping operation is applicable
to the shape it receives, VTK only for three dimensions, setter arguments acceptable -/
def wf (env : Nat → Mask) : Prog → Bool
  | .leaf _ => true
  | .pos p => wf env p
  | .un p => wf env p
  | .binC p => wf env p
  | .binF p q => wf env p && wf env q && decide (shapeOf env p = shapeOf env q)
  | .map op p => wf env p && op.ok (shapeOf env p)
  | .vtk p => wf env p && decide ((shapeOf env p).length = 3)
  | .hdf5 p => wf env p
  | .setv s p => wf env p && s.ok (shapeOf env p)
  | .fresh k p => wf env p && k.ok (shapeOf env p)

/-- every input the program names exists (`leaf k` with `k < n`) -/
def leavesLt (n : Nat) : Prog → Bool
  | .leaf k => decide (k < n)
  | .pos p => leavesLt n p
  | .un p => leavesLt n p
  | .binC p => leavesLt n p
  | .binF p q => leavesLt n p && leavesLt n q
  | .map _ p => leavesLt n p
  | .vtk p => leavesLt n p
  | .hdf5 p => leavesLt n p
  | .setv _ p => leavesLt n p
  | .fresh _ p => leavesLt n p

/-- `p` with every input `k` replaced by the program `σ k` (inlining `x_k = σ k`) -/
def Prog.subst (σ : Nat → Prog) : Prog → Prog
  | .leaf k => σ k
  | .pos p => .pos (p.subst σ)
  | .un p => .un (p.subst σ)
  | .binC p => .binC (p.subst σ)
  | .binF p q => .binF (p.subst σ) (q.subst σ)
  | .map op p => .map op (p.subst σ)
  | .vtk p => .vtk (p.subst σ)
  | .hdf5 p => .hdf5 (p.subst σ)
  | .setv s p => .setv s (p.subst σ)
  | .fresh k p => .fresh k (p.subst σ)

/-! ## sessions: statements with in-place changes

Variables are numbered in order of creation.  A variable names an OBJECT (`+f` gives a second
name for the same object); an object holds a reference to the buffer of its mask and the shape;
the store maps addresses to buffers.  Every statement reads the masks of its operands FROM THE
STORE as it is at that moment. -/

structure Sess where
  /-- variable ↦ object -/
  vars : List Nat
  /-- object ↦ (address of its mask buffer, shape) -/
  objs : List (Nat × List Nat)
  store : Store

inductive Stmt where
  /-- `x_new = <expression over the existing variables>` (leaf `k` = variable `k`) -/
  | build (p : Prog)
  /-- `x_i.valid = spec` on an existing field -/
  | assign (i : Nat) (s : MSpec)
  /-- `x_i.rotate90(ax1, ax2, k, inplace=True)` -/
  | rotI (i a b : Nat) (k : Int)
  /-- `x_i.valid[idx] = v` (write into the buffer; `pos` = C-order position of `idx`) -/
  | poke (i pos : Nat) (v : Bool)

namespace Sess

def objOf (st : Sess) (i : Nat) : Nat := st.vars.getD i 0
def addrOf (st : Sess) (i : Nat) : Nat := (st.objs.getD (st.objOf i) (0, [])).1
def shapeOfVar (st : Sess) (i : Nat) : List Nat := (st.objs.getD (st.objOf i) (0, [])).2

/-- the mask of variable `i` as the store has it now -/
def mask (st : Sess) (i : Nat) : Mask := NDA.ofList (st.shapeOfVar i) (st.store.getD (st.addrOf i) []) false

/-- a session with the given input fields: variable `k` = object `k` = buffer `k` -/
def init (leaves : List Mask) : Sess :=
  { vars := List.range leaves.length,
    objs := (List.range leaves.length).map fun k => (k, (leaves.getD k (NDA.const [] false)).shape),
    store := leaves.map NDA.toList }

/-- one statement -/
def step (st : Sess) : Stmt → M Sess
  | .build p =>
    if !leavesLt st.vars.length p then .error .index
    else
    match eval st.mask p with
    | .error e => .error e
    | .ok m =>
      match aliasOf p with
      | some k => .ok { st with vars := st.vars ++ [st.objOf k] }
      | none =>
        .ok { vars := st.vars ++ [st.objs.length], objs := st.objs ++ [(st.store.length, m.shape)],
              store := st.store ++ [m.toList] }
  | .assign i s =>
    if st.vars.length ≤ i then .error .index
    else
      match setMask (st.shapeOfVar i) s with
      | .error e => .error e
      | .ok m =>
        .ok { st with objs := st.objs.set (st.objOf i) (st.store.length, m.shape),
                      store := st.store ++ [m.toList] }
  | .rotI i a b k =>
    if st.vars.length ≤ i then .error .index
    else if (MapOp.rot a b k).ok (st.shapeOfVar i) then
      .ok { st with objs := st.objs.set (st.objOf i)
                      (st.store.length, ((MapOp.rot a b k).apply (st.mask i) false).shape),
                    store := st.store ++ [(own ((MapOp.rot a b k).apply (st.mask i) false)).toList] }
    else .error .value
  | .poke i pos v =>
    if st.vars.length ≤ i then .error .index
    else .ok { st with store := write st.store (st.addrOf i) pos v }

/-- a history of statements (stops at the first error) -/
def run (st : Sess) : List Stmt → M Sess
  | [] => .ok st
  | s :: rest =>
    match st.step s with
    | .error e => .error e
    | .ok st' => run st' rest

end Sess

/-! ## which Mesh OBJECT a result carries

`field.py` hands `self.mesh` to the constructor in every operation that keeps the cells (unary,
derived, binary — the left operand's —, the temporary field of `f << 3`, cumulative integrals):
the result holds a reference to the SAME `Mesh` object as its operand.  Operations that map cells
(`sel`, `field[…]`, `pad`, `resample`, `rotate90`), file round trips, directional means / integrals
and the FFT family build a new mesh.  Since repo fix d0059dba an in-place `rotate90` binds a NEW
mesh object to the turned field (`self._mesh = mesh`) instead of turning the shared object. -/

/-- the variable whose mesh object the result of the program carries (`none`: a mesh built by the
operation itself) -/
def meshOf : Prog → Option Nat
  | .leaf k => some k
  | .pos p => meshOf p
  | .un p => meshOf p
  | .binC p => meshOf p
  | .binF p _ => meshOf p
  | .map _ _ => none
  | .vtk _ => none
  | .hdf5 _ => none
  | .setv _ p => meshOf p
  | .fresh .same p => meshOf p
  | .fresh _ _ => none

/-- a session together with the mesh objects: object ↦ mesh object, mesh object ↦ cells per axis.
Nothing ever changes an entry of `meshN` (mesh objects are not mutated by field operations). -/
structure SessM where
  base : Sess
  meshes : List Nat
  meshN : List (List Nat)

namespace SessM

/-- every input field on a mesh object of its own -/
def init (leaves : List Mask) : SessM :=
  { base := Sess.init leaves, meshes := List.range leaves.length,
    meshN := (List.range leaves.length).map fun k => (leaves.getD k (NDA.const [] false)).shape }

/-- mesh object of variable `i` -/
def meshObj (st : SessM) (i : Nat) : Nat := st.meshes.getD (st.base.objOf i) 0

/-- `x_i.mesh.n` -/
def meshNOf (st : SessM) (i : Nat) : List Nat := st.meshN.getD (st.meshObj i) []

/-- one statement: the masks as in `Sess.step`; a built field carries its operand's mesh object or
a new one (`meshOf`), an in-place quarter turn binds a new mesh object to the turned field,
assignments and element writes leave the meshes alone -/
def step (st : SessM) : Stmt → M SessM
  | .build p =>
    match st.base.step (.build p) with
    | .error e => .error e
    | .ok b =>
      match aliasOf p with
      | some _ => .ok { st with base := b }
      | none =>
        match meshOf p with
        | some k => .ok { st with base := b, meshes := st.meshes ++ [st.meshObj k] }
        | none => .ok { base := b, meshes := st.meshes ++ [st.meshN.length],
                        meshN := st.meshN ++ [b.shapeOfVar st.base.vars.length] }
  | .assign i s =>
    match st.base.step (.assign i s) with
    | .error e => .error e
    | .ok b => .ok { st with base := b }
  | .rotI i a b k =>
    match st.base.step (.rotI i a b k) with
    | .error e => .error e
    | .ok b' => .ok { base := b', meshes := st.meshes.set (st.base.objOf i) st.meshN.length,
                      meshN := st.meshN ++ [b'.shapeOfVar i] }
  | .poke i pos v =>
    match st.base.step (.poke i pos v) with
    | .error e => .error e
    | .ok b => .ok { st with base := b }

def run (st : SessM) : List Stmt → M SessM
  | [] => .ok st
  | s :: rest =>
    match st.step s with
    | .error e => .error e
    | .ok st' => run st' rest

/-- the behaviour BEFORE repo fix d0059dba, for contrast: the in-place quarter turn turned the mesh
object itself — under every other field that holds it -/
def rotIOld (st : SessM) (i a b : Nat) (k : Int) : M SessM :=
  match st.base.step (.rotI i a b k) with
  | .error e => .error e
  | .ok b' => .ok { st with base := b', meshN := st.meshN.set (st.meshObj i) (b'.shapeOfVar i) }

end SessM

/-! ## a dictionary over the subregions of the mesh as validity

`Field._as_array` for a `dict` (`dtype=bool`, one component): an array filled with the non-callable
`"default"` (else zeros, every cell still *unset*); then, for the subregions of the mesh in
REVERSED order, `array[slices] = _as_array(val[name], mesh[name], …)` when the name is a key (the
first subregion so wins where subregions overlap); cells still unset get the callable default at
their centre; unset cells without a default are a `KeyError`. -/

inductive DDefault where
  | none
  /-- a number (`np.full(..., default, dtype=bool)`) -/
  | const (v : Rat)
  /-- a callable, already composed with "centre of cell `j` of the mesh" -/
  | func (g : List Nat → Bool)

/-- one subregion of the mesh, in the order of `mesh.subregions`: the block `lo ≤ j < hi` of
`region2slices`, and what the dictionary holds under its name (`none`: not a key) -/
structure DEntry where
  lo : List Nat
  hi : List Nat
  val : Option MSpec

structure DictSpec where
  dflt : DDefault
  subs : List DEntry

def inBox (lo hi j : List Nat) : Bool :=
  allLt lo.length fun b => decide (lo.getD b 0 ≤ j.getD b 0) && decide (j.getD b 0 < hi.getD b 0)

/-- cells per axis of `mesh[name]` -/
def boxShape (lo hi : List Nat) : List Nat := tab lo.length fun b => hi.getD b 0 - lo.getD b 0

/-- index inside the block -/
def boxIdx (lo j : List Nat) : List Nat := tab lo.length fun b => j.getD b 0 - lo.getD b 0

/-- the loop over the subregions (in the order given): `(array, unset)` -/
def paint (n : List Nat) : List DEntry → Mask × Mask → M (Mask × Mask)
  | [], st => .ok st
  | e :: rest, st =>
    match e.val with
    | none => paint n rest st
    | some s =>
      match setMask (boxShape e.lo e.hi) s with
      | .error er => .error er
      | .ok sm =>
        paint n rest (⟨n, fun j => if inBox e.lo e.hi j then sm.get (boxIdx e.lo j) else st.1.get j⟩,
                      ⟨n, fun j => if inBox e.lo e.hi j then false else st.2.get j⟩)

/-- `_as_array(dict)[..., 0]` through the setter -/
def setMaskDict (n : List Nat) (d : DictSpec) : M Mask :=
  match paint n d.subs.reverse
      (match d.dflt with
       | .const v => (NDA.const n (decide (v ≠ 0)), NDA.const n false)
       | _ => (NDA.const n false, NDA.const n true)) with
  | .error e => .error e
  | .ok st =>
    if (indicesC n).any st.2.get then
      match d.dflt with
      | .func g => .ok (own ⟨n, fun j => if st.2.get j then g j else st.1.get j⟩)
      | _ => .error .key
    else .ok (own ⟨n, st.1.get⟩)

/-- everything the validity setter accepts -/
inductive SetArg where
  | plain (s : MSpec)
  | dict (d : DictSpec)

/-- the setter as ONE total function of its argument -/
def setMaskAny (n : List Nat) : SetArg → M Mask
  | .plain s => setMask n s
  | .dict d => setMaskDict n d

/-- index-level reading of the dictionary: the FIRST subregion (in the order of the mesh) whose
name is a key and whose block contains `j` decides; else the default -/
def dictCell (dflt : DDefault) : List DEntry → List Nat → Bool
  | [], j =>
    match dflt with
    | .none => false
    | .const v => decide (v ≠ 0)
    | .func g => g j
  | e :: rest, j =>
    match e.val with
    | none => dictCell dflt rest j
    | some s => if inBox e.lo e.hi j then specMask (boxShape e.lo e.hi) s (boxIdx e.lo j) else dictCell dflt rest j

/-- is cell `j` covered by a subregion whose name is a key? -/
def dictCovered : List DEntry → List Nat → Bool
  | [], _ => false
  | e :: rest, j => (e.val.isSome && inBox e.lo e.hi j) || dictCovered rest j

/-- well-formed dictionary argument: every value is acceptable on its own subregion, and a default
exists unless every cell is covered -/
def entriesOk (es : List DEntry) : Bool :=
  es.all fun e => match e.val with
    | none => true
    | some s => s.ok (boxShape e.lo e.hi)

def DictSpec.ok (n : List Nat) (d : DictSpec) : Bool :=
  entriesOk d.subs &&
  ((indicesC n).all (fun j => dictCovered d.subs j) ||
    match d.dflt with
    | .none => false
    | _ => true)

def SetArg.ok (n : List Nat) : SetArg → Bool
  | .plain s => s.ok n
  | .dict d => d.ok n

/-- the variable whose mask the statement changes in place (`none`: it only builds a new field) -/
def Stmt.target : Stmt → Option Nat
  | .build _ => none
  | .assign i _ => some i
  | .rotI i _ _ _ => some i
  | .poke i _ _ => some i

/-- the statement gives a second name to an existing object (`y = +x`) -/
def Stmt.aliases : Stmt → Bool
  | .build p => (aliasOf p).isSome
  | _ => false

end DFV.C08
