import DFV.Model.Field
import DFV.Model.Transform
/-!
C08 — validity masks follow the data through every operation that keeps or maps cells.

Only the VALIDITY part of every public `Field` operation is modelled, as a transformation of a
Boolean n-d array (`Mask = NDA Bool`), following `discretisedfield/field.py`:

* every operation ends in `Field(..., valid=<array>)`, i.e. in the validity setter
  (`field.py:557-567`), which stores `np.array(val, dtype=bool)` — a NEW buffer (`own`);
* unary / derived operations pass `self.valid`; binary operations between two fields pass
  `np.logical_and(self.valid, other.valid)`; with a number / vector / array operand `self.valid`;
* `sel`, `__getitem__`, `pad`, `resample`, `rotate90` apply to the mask the same NumPy call as to
  the value array (`MapOp`, polymorphic in the entry type, so "the same index map as the data"
  is literal);
* the HDF5 and VTK codecs store the mask (C-order Booleans / F-order integers) and read it back;
* the setter accepts `None`, a number, an array (shape `n`, or broadcastable with a trailing
  axis of length 1), a callable evaluated at the cell centres, or `'norm'`
  (`~np.isclose(norm, 0)`, absolute threshold 1e-8, modelled on squared lengths).

A program (`Prog`) is an expression tree over input fields; `eval` is the code-shaped evaluator
(whole arrays, every node materialises its own buffer), `spec` the index-level reading (value
at result cell `j` pulled back through the index maps to the leaves).  `evalS` threads an
abstract store of validity buffers: every node except unary plus allocates (ownership).
No import outside the model.
-/
namespace DFV.C08
open DFV

abbrev Mask := NDA Bool

/-- `np.array(val, dtype=bool)` in the validity setter: a new buffer with the same entries -/
def own (m : Mask) : Mask := m.force false

/-! ## operations that map cells (`sel`, `__getitem__`, `pad`, `resample`, `rotate90`) -/

inductive PadMode where
  | constant | edge | wrap | symmetric | reflect
  deriving Repr, DecidableEq, Inhabited

/-- `numpy.pad` along one axis as an index map: source position of result position `j` for an
axis of `n` cells padded by `lo` cells in front; `none` = the constant fill value.
`(j + lo·(P−1)) mod P` is `(j − lo) mod P` without leaving ℕ. -/
def padSrc (mode : PadMode) (n lo j : Nat) : Option Nat :=
  match mode with
  | .constant => if lo ≤ j ∧ j < lo + n then some (j - lo) else none
  | .edge => some (if j < lo then 0 else if j < lo + n then j - lo else n - 1)
  | .wrap => some ((j + lo * (n - 1)) % n)
  | .symmetric =>
    some (if (j + lo * (2 * n - 1)) % (2 * n) < n then (j + lo * (2 * n - 1)) % (2 * n)
          else 2 * n - 1 - (j + lo * (2 * n - 1)) % (2 * n))
  | .reflect =>
    if n = 1 then some 0
    else some (if (j + lo * (2 * n - 3)) % (2 * n - 2) < n then (j + lo * (2 * n - 3)) % (2 * n - 2)
               else 2 * n - 2 - (j + lo * (2 * n - 3)) % (2 * n - 2))

/-- centre of cell `k` of an axis of `n` cells, region normalised to `[0, 1]` -/
def centre01 (n k : Nat) : Rat := ((k : Rat) + 1 / 2) / (n : Rat)

/-- nearest entry of the coordinate table `cs 0 … cs m`; among equally near entries the one
with the larger index (pandas `get_indexer(method="nearest")` on an increasing index, which is
what `to_xarray().sel(..., method="nearest")` uses) -/
def nearestUpTo (cs : Nat → Rat) (x : Rat) : Nat → Nat
  | 0 => 0
  | k + 1 =>
    if absR (cs (k + 1) - x) ≤ absR (cs (nearestUpTo cs x k) - x) then k + 1
    else nearestUpTo cs x k

/-- source cell (of `n`) nearest to the centre of target cell `j` (of `n'`) on the same edge -/
def nearest (n n' j : Nat) : Nat := nearestUpTo (centre01 n) (centre01 n' j) (n - 1)

/-- index map of `np.rot90(a, k, axes=(p, q))`, pointwise -/
def rotSrc (s : List Nat) (p q : Nat) (k : Int) (j : List Nat) : List Nat :=
  tab s.length fun b =>
    if k % 4 = 0 then j.getD b 0
    else if k % 4 = 2 then
      (if b = p then s.getD p 0 - 1 - j.getD p 0 else if b = q then s.getD q 0 - 1 - j.getD q 0
       else j.getD b 0)
    else if k % 4 = 1 then
      (if b = p then j.getD q 0 else if b = q then s.getD q 0 - 1 - j.getD p 0 else j.getD b 0)
    else
      (if b = p then s.getD p 0 - 1 - j.getD q 0 else if b = q then j.getD p 0 else j.getD b 0)

/-- the cell-mapping operations, with the arguments the array code receives -/
inductive MapOp where
  /-- `sel(dim=point)`: `a[..., k, ...]` (axis removed) -/
  | take (ax k : Nat)
  /-- `sel(dim=(p1, p2))`: `a[..., lo:hi, ...]` -/
  | slice (ax lo hi : Nat)
  /-- `field[region]`: `a[lo₀:hi₀, lo₁:hi₁, …]` -/
  | crop (lo hi : List Nat)
  /-- `pad(pad_width, mode)`: `np.pad(a, widths, mode)` -/
  | pad (mode : PadMode) (w : List (Nat × Nat))
  /-- `resample(n)`: nearest source cell of every target cell centre -/
  | resample (n : List Nat)
  /-- `rotate90(ax1, ax2, k)`: `np.rot90(a, k, axes)` -/
  | rot (a b : Nat) (k : Int)
  deriving Repr, Inhabited

namespace MapOp

/-- accepted on a source array of shape `s` (what the mesh-level checks of the code leave) -/
def ok : MapOp → List Nat → Bool
  | .take ax k, s => decide (ax < s.length) && decide (k < s.getD ax 0) && decide (1 < s.length)
  | .slice ax lo hi, s => decide (ax < s.length) && decide (lo < hi) && decide (hi ≤ s.getD ax 0)
  | .crop lo hi, s =>
    decide (lo.length = s.length) && decide (hi.length = s.length) &&
    allLt s.length fun b => decide (lo.getD b 0 < hi.getD b 0) && decide (hi.getD b 0 ≤ s.getD b 0)
  | .pad _ w, s => decide (w.length = s.length) && allLt s.length fun b => decide (0 < s.getD b 0)
  | .resample n, s =>
    decide (n.length = s.length) &&
    allLt s.length fun b => decide (0 < n.getD b 0) && decide (0 < s.getD b 0)
  | .rot a b _, s => decide (a < s.length) && decide (b < s.length) && decide (a ≠ b)

/-- shape of the result -/
def shape : MapOp → List Nat → List Nat
  | .take ax _, s => tab (s.length - 1) fun b => if b < ax then s.getD b 0 else s.getD (b + 1) 0
  | .slice ax lo hi, s => tab s.length fun b => if b = ax then hi - lo else s.getD b 0
  | .crop lo hi, s => tab s.length fun b => hi.getD b 0 - lo.getD b 0
  | .pad _ w, s => tab s.length fun b => s.getD b 0 + (w.getD b (0, 0)).1 + (w.getD b (0, 0)).2
  | .resample n, _ => n
  | .rot a b k, s => if k % 4 = 1 ∨ k % 4 = 3 then swapAt s a b else s

/-- source cell of result cell `j` (`none`: the constant fill of `np.pad`) -/
def src : MapOp → List Nat → List Nat → Option (List Nat)
  | .take ax k, s, j =>
    some (tab s.length fun b => if b < ax then j.getD b 0 else if b = ax then k else j.getD (b - 1) 0)
  | .slice ax lo _, s, j => some (tab s.length fun b => if b = ax then j.getD b 0 + lo else j.getD b 0)
  | .crop lo _, s, j => some (tab s.length fun b => j.getD b 0 + lo.getD b 0)
  | .pad mode w, s, j =>
    if allLt s.length (fun b => (padSrc mode (s.getD b 0) (w.getD b (0, 0)).1 (j.getD b 0)).isSome)
    then some (tab s.length fun b => (padSrc mode (s.getD b 0) (w.getD b (0, 0)).1 (j.getD b 0)).getD 0)
    else none
  | .resample n, s, j => some (tab s.length fun b => nearest (s.getD b 0) (n.getD b 0) (j.getD b 0))
  | .rot a b k, s, j => some (rotSrc s a b k j)

end MapOp

/-- result built cell by cell through an index map -/
def gather {α} (x : NDA α) (shape : List Nat) (src : List Nat → Option (List Nat)) (fill : α) : NDA α :=
  ⟨shape, fun j => match src j with
    | some i => x.get i
    | none => fill⟩

/-- the array call of the operation, for ANY entry type: the code applies it to `self.array`
and to `self.valid` alike.  `rot` is NumPy's own implementation (flips and an axis swap). -/
def MapOp.apply {α} (op : MapOp) (x : NDA α) (fill : α) : NDA α :=
  match op with
  | .rot a b k => T.rot90 x a b k
  | .take ax k => gather x ((MapOp.take ax k).shape x.shape) ((MapOp.take ax k).src x.shape) fill
  | .slice ax lo hi => gather x ((MapOp.slice ax lo hi).shape x.shape) ((MapOp.slice ax lo hi).src x.shape) fill
  | .crop lo hi => gather x ((MapOp.crop lo hi).shape x.shape) ((MapOp.crop lo hi).src x.shape) fill
  | .pad m w => gather x ((MapOp.pad m w).shape x.shape) ((MapOp.pad m w).src x.shape) fill
  | .resample n => gather x ((MapOp.resample n).shape x.shape) ((MapOp.resample n).src x.shape) fill

/-! ## file round trips -/

/-- `valid.astype(int).transpose((2,1,0)).reshape(-1)` (`Field.to_vtk`): integers, first index
fastest -/
def vtkWrite (m : Mask) : List Int := (indicesF m.shape).map fun i => if m.get i then 1 else 0

/-- `vtk_to_numpy(a).reshape(*reversed(n)).transpose((2,1,0))`, then the setter's cast to bool -/
def vtkRead (n : List Nat) (buf : List Int) : Mask := ⟨n, fun i => decide (buf.getD (flatF n i) 0 ≠ 0)⟩

/-- `create_dataset("valid", data=self.valid, dtype=bool)`: Booleans in C order -/
def h5Write (m : Mask) : List Bool := m.toList

/-- the stored dataset, indexed as an array of shape `n` -/
def h5Read (n : List Nat) (buf : List Bool) : Mask := NDA.ofList n buf false

/-! ## the validity setter at mask level -/

/-- what the setter receives, reduced to what decides the mask -/
inductive MSpec where
  /-- `None` -/
  | none
  /-- a number (bool, int, float) -/
  | const (v : Rat)
  /-- an array / nested list of numbers with its own shape -/
  | arr (a : NDA Rat)
  /-- truth value per cell (a callable already composed with "centre of cell") -/
  | cells (g : List Nat → Bool)
  /-- `'norm'`: squared length of the stored value of every cell -/
  | norm (sq : NDA Rat)
  /-- any other string / unsupported type -/
  | bad

/-- the absolute tolerance of `np.isclose` -/
def atol : Rat := 1 / 100000000

/-- shapes `s` that NumPy broadcasts to `t` (right-aligned, every axis equal or 1) -/
def bcastOk (s t : List Nat) : Bool :=
  decide (s.length ≤ t.length) &&
  allLt s.length fun k => decide (s.getD k 0 = 1) || decide (s.getD k 0 = t.getD (k + (t.length - s.length)) 0)

/-- entry of an array of shape `s` seen at index `j` of the broadcast shape `t` -/
def bcastIdx (s t j : List Nat) : List Nat :=
  tab s.length fun k => if s.getD k 0 = 1 then 0 else j.getD (k + (t.length - s.length)) 0

/-- `Field.valid.setter` + `_as_array(valid, mesh, nvdim=1, dtype=bool)[..., 0]` for a mesh with
`n` cells per axis: `np.full` for numbers, a copy for an array of shape `n`, broadcasting for
an array with a trailing axis of length 1, errors otherwise. -/
def setMask (n : List Nat) : MSpec → M Mask
  | .none => .ok (own (NDA.const n true))
  | .const v => .ok (own (NDA.const n (decide (v ≠ 0))))
  | .arr a =>
    if a.shape = n then .ok (own ⟨n, fun j => decide (a.get j ≠ 0)⟩)
    else if a.shape.getLast? ≠ some 1 then .error .value
    else if !bcastOk a.shape (n ++ [1]) then .error .value
    else .ok (own ⟨n, fun j => decide (a.get (bcastIdx a.shape (n ++ [1]) (j ++ [0])) ≠ 0)⟩)
  | .cells g => .ok (own ⟨n, g⟩)
  | .norm sq => .ok (own ⟨n, fun j => decide (atol * atol < sq.get j)⟩)
  | .bad => .error .type

/-! ## the setter at field level -/

inductive VSpec where
  | none
  | norm
  | const (v : Rat)
  | arr (a : NDA Rat)
  /-- a callable on points; only the truth value of what it returns matters -/
  | func (g : List Rat → Bool)
  | bad

def sumSq : List Rat → Rat
  | [] => 0
  | c :: cs => c * c + sumSq cs

def toMSpec (f : Fld) : VSpec → MSpec
  | .none => .none
  | .norm => .norm ⟨f.mesh.n, fun j => sumSq (f.data.get j)⟩
  | .const v => .const v
  | .arr a => .arr a
  | .func g => .cells fun j => g (f.mesh.centre j)
  | .bad => .bad

/-- `field.valid = spec` -/
def setValid (f : Fld) (s : VSpec) : M Fld :=
  match setMask f.mesh.n (toMSpec f s) with
  | .error e => .error e
  | .ok m => .ok { f with valid := m }

/-! ## programs -/

/-- expression trees over input fields (leaves), validity part only -/
inductive Prog where
  | leaf (k : Nat)
  /-- unary plus: returns the operand itself -/
  | pos (p : Prog)
  /-- `-f abs(f) f.norm f.orientation f.<comp> f.real f.imag f.conjugate f.phase f.abs f.diff(..)` -/
  | un (p : Prog)
  /-- binary operator / `dot` / `cross` / `angle` / `<<` with a number, vector or array operand -/
  | binC (p : Prog)
  /-- binary operator / `dot` / `cross` / `angle` / `<<` between two fields -/
  | binF (p q : Prog)
  | map (op : MapOp) (p : Prog)
  /-- write to a VTK file and read back -/
  | vtk (p : Prog)
  /-- write to an HDF5 file and read back -/
  | hdf5 (p : Prog)
  /-- `g = <p>; g.valid = spec` -/
  | setv (s : MSpec) (p : Prog)

/-- code-shaped evaluation: every node transforms the whole mask array as the code does and
stores it through the setter (`own`) -/
def eval (env : Nat → Mask) : Prog → M Mask
  | .leaf k => .ok (env k)
  | .pos p => eval env p
  | .un p =>
    match eval env p with
    | .error e => .error e
    | .ok m => .ok (own m)
  | .binC p =>
    match eval env p with
    | .error e => .error e
    | .ok m => .ok (own m)
  | .binF p q =>
    match eval env p with
    | .error e => .error e
    | .ok a =>
      match eval env q with
      | .error e => .error e
      | .ok b => if a.shape = b.shape then .ok (own (NDA.zipWith and a b)) else .error .value
  | .map op p =>
    match eval env p with
    | .error e => .error e
    | .ok m => if op.ok m.shape then .ok (own (op.apply m false)) else .error .value
  | .vtk p =>
    match eval env p with
    | .error e => .error e
    | .ok m => if m.shape.length = 3 then .ok (own (vtkRead m.shape (vtkWrite m))) else .error .runtime
  | .hdf5 p =>
    match eval env p with
    | .error e => .error e
    | .ok m => .ok (own (h5Read m.shape (h5Write m)))
  | .setv s p =>
    match eval env p with
    | .error e => .error e
    | .ok m => setMask m.shape s

/-- shape of the result (total; meaningful when `eval` succeeds) -/
def shapeOf (env : Nat → Mask) : Prog → List Nat
  | .leaf k => (env k).shape
  | .pos p => shapeOf env p
  | .un p => shapeOf env p
  | .binC p => shapeOf env p
  | .binF p _ => shapeOf env p
  | .map op p => op.shape (shapeOf env p)
  | .vtk p => shapeOf env p
  | .hdf5 p => shapeOf env p
  | .setv _ p => shapeOf env p

/-- the setter's result at cell `j`, read off the specification -/
def specMask (n : List Nat) : MSpec → List Nat → Bool
  | .none, _ => true
  | .const v, _ => decide (v ≠ 0)
  | .arr a, j =>
    if a.shape = n then decide (a.get j ≠ 0)
    else decide (a.get (bcastIdx a.shape (n ++ [1]) (j ++ [0])) ≠ 0)
  | .cells g, j => g j
  | .norm sq, j => decide (atol * atol < sq.get j)
  | .bad, _ => false

/-- index-level reading: validity of result cell `j`, pulled back to the leaves -/
def spec (env : Nat → Mask) : Prog → List Nat → Bool
  | .leaf k, j => (env k).get j
  | .pos p, j => spec env p j
  | .un p, j => spec env p j
  | .binC p, j => spec env p j
  | .binF p q, j => spec env p j && spec env q j
  | .map op p, j =>
    match op.src (shapeOf env p) j with
    | some i => spec env p i
    | none => false
  | .vtk p, j => spec env p j
  | .hdf5 p, j => spec env p j
  | .setv s p, j => specMask (shapeOf env p) s j

/-- programs without a setter node -/
def setterFree : Prog → Bool
  | .leaf _ => true
  | .pos p => setterFree p
  | .un p => setterFree p
  | .binC p => setterFree p
  | .binF p q => setterFree p && setterFree q
  | .map _ p => setterFree p
  | .vtk p => setterFree p
  | .hdf5 p => setterFree p
  | .setv _ _ => false

/-- the leaf cells a result cell depends on (`none`: the cell was filled by constant padding) -/
def deps (env : Nat → Mask) : Prog → List Nat → Option (List (Nat × List Nat))
  | .leaf k, j => some [(k, j)]
  | .pos p, j => deps env p j
  | .un p, j => deps env p j
  | .binC p, j => deps env p j
  | .binF p q, j =>
    match deps env p j, deps env q j with
    | some l1, some l2 => some (l1 ++ l2)
    | _, _ => none
  | .map op p, j =>
    match op.src (shapeOf env p) j with
    | some i => deps env p i
    | none => none
  | .vtk p, j => deps env p j
  | .hdf5 p, j => deps env p j
  | .setv _ _, _ => none

/-! ## ownership: an abstract store of validity buffers -/

/-- the input field whose very object the program returns (only unary plus does that) -/
def aliasOf : Prog → Option Nat
  | .leaf k => some k
  | .pos p => aliasOf p
  | _ => none

abbrev Store := List (List Bool)

/-- evaluation with buffer addresses: leaf `k` lives at `addr k`; every node that builds a
field allocates a new buffer for its mask (the setter's `np.array(..., dtype=bool)`), unary plus
returns its operand's address.  Result: address of the result's mask, and the store. -/
def evalS (env : Nat → Mask) (addr : Nat → Nat) : Prog → Store → M (Nat × Store)
  | .leaf k, st => .ok (addr k, st)
  | .pos p, st => evalS env addr p st
  | .un p, st =>
    match evalS env addr p st with
    | .error e => .error e
    | .ok r =>
      match eval env (.un p) with
      | .error e => .error e
      | .ok m => .ok (r.2.length, r.2 ++ [m.toList])
  | .binC p, st =>
    match evalS env addr p st with
    | .error e => .error e
    | .ok r =>
      match eval env (.binC p) with
      | .error e => .error e
      | .ok m => .ok (r.2.length, r.2 ++ [m.toList])
  | .binF p q, st =>
    match evalS env addr p st with
    | .error e => .error e
    | .ok r1 =>
      match evalS env addr q r1.2 with
      | .error e => .error e
      | .ok r2 =>
        match eval env (.binF p q) with
        | .error e => .error e
        | .ok m => .ok (r2.2.length, r2.2 ++ [m.toList])
  | .map op p, st =>
    match evalS env addr p st with
    | .error e => .error e
    | .ok r =>
      match eval env (.map op p) with
      | .error e => .error e
      | .ok m => .ok (r.2.length, r.2 ++ [m.toList])
  | .vtk p, st =>
    match evalS env addr p st with
    | .error e => .error e
    | .ok r =>
      match eval env (.vtk p) with
      | .error e => .error e
      | .ok m => .ok (r.2.length, r.2 ++ [m.toList])
  | .hdf5 p, st =>
    match evalS env addr p st with
    | .error e => .error e
    | .ok r =>
      match eval env (.hdf5 p) with
      | .error e => .error e
      | .ok m => .ok (r.2.length, r.2 ++ [m.toList])
  | .setv s p, st =>
    match evalS env addr p st with
    | .error e => .error e
    | .ok r =>
      match eval env (.setv s p) with
      | .error e => .error e
      | .ok m =>
        -- `g.valid = spec` on a freshly built `g` replaces g's buffer; on an input field
        -- (or `+f`) it replaces THAT field's buffer reference: the old buffer is untouched
        .ok (r.2.length, r.2 ++ [m.toList])

/-- write-through probe: `result.valid[k] = v` -/
def write (st : Store) (a k : Nat) (v : Bool) : Store := st.set a ((st.getD a []).set k v)

end DFV.C08
