import DFV.Model.C12
/-!
C12 model addendum (round 3): the field constructor `Field(mesh, nvdim, value=array, vdims=…,
valid=array, vdim_mapping=…, unit=…)` as far as the value invariant `FldVInv` needs it — the array
check of `update_field_values` / `_as_array` for an array argument, the `valid` setter for an array
argument, the `vdims` setter and the `vdim_mapping` setter, in the order `Field.__init__` runs them.
Code-shaped (field.py 159-201, 352-391, 571-598, 4327-4344).  Core Lean only.

The mapping argument is a Python dict whose values may be `None` (a label without an axis); the
field record keeps the entries with an axis, in dictionary order (what `fieldio.field_json` sends).

Not modelled: dtype and norm, the `hasattr` test of the `vdims` setter (labels that collide with
attribute names of `Field`), values given as scalars / callables / dicts (C02's subject), broadcasting
of arrays that do not already have the full shape `(*n, nvdim)`.
-/
namespace DFV.T
open DFV

/-- `Field.vdims` setter, run by the constructor on a fresh field (`_vdims = None`, empty mapping) -/
def vdimsSet (nvdim : Nat) : Option (List String) → M (Option (List String))
  | none => .ok (Fld.defaultVdims nvdim)
  | some vs =>
    if vs.length = 0 then .ok none
    else if vs.length ≠ nvdim then .error .value
    else if hasDup vs then .error .value
    else .ok (some vs)

/-- `Field.vdim_mapping` setter; `vdims` are the labels already stored.  `sorted(mapping) != sorted(vdims)`
on a dict = "the keys are not a rearrangement of the labels"; `sorted(None)` raises (`TypeError`). -/
def vmapSet (mesh : Mesh) (nvdim : Nat) (vdims : Option (List String)) :
    Option (List (String × Option String)) → M (List (String × Option String))
  | none =>
    if nvdim = 1 then .ok []
    else if nvdim = mesh.region.ndim then
      match vdims with
      | some vs => .ok ((List.zip vs mesh.region.dims).map fun p => (p.1, some p.2))
      | none => .ok []
    else .ok []
  | some mp =>
    if mp.length = 1 ∧ nvdim = 1 ∧ vdims = none then .ok []
    else if 0 < mp.length then
      match vdims with
      | none => .error .type
      | some vs => if (mp.map (·.1)).isPerm vs then .ok mp else .error .value
    else .ok mp

/-- the entries of the mapping that name an axis -/
def mappedPairs (mp : List (String × Option String)) : List (String × String) :=
  mp.filterMap fun p => p.2.map fun d => (p.1, d)

/-- `Field(mesh, nvdim, value=array, valid=array, vdims=…, vdim_mapping=…, unit=…)`: the value array
must have shape `(*n, nvdim)` (modelled: an `n`-shaped array of cell values, each with `nvdim`
components), the validity array shape `n`; then the two setters -/
def mkFld? (mesh : Mesh) (nvdim : Nat) (value : NDA (List Rat)) (valid : NDA Bool)
    (vdims : Option (List String)) (vmap : Option (List (String × Option String))) (unit : Option String) : M Fld :=
  if nvdim < 1 then .error .value
  else if value.shape ≠ mesh.n then .error .value
  else if !(indicesC mesh.n).all (fun j => decide ((value.get j).length = nvdim)) then .error .value
  else if valid.shape ≠ mesh.n then .error .value
  else
    match vdimsSet nvdim vdims with
    | .error e => .error e
    | .ok vs =>
      match vmapSet mesh nvdim vs vmap with
      | .error e => .error e
      | .ok mp => .ok { mesh := mesh, nvdim := nvdim, data := value, valid := valid,
                        vdims := vs, vmap := mappedPairs mp, unit := unit }

end DFV.T
