import DFV.Model.C09
/-!
C09 model, byte level: the header of an OVF file as the **bytes** `_to_ovf` writes and
`_from_ovf` reads (`discretisedfield/io/ovf.py`).

* `utf8Enc` / `utf8Dec`: `str.encode("utf-8")` / strict `bytes.decode("utf-8")`;
* `headerBytes`: the `bheader` f-string of `_to_ovf` (first line, `# key: value` lines, `#` lines,
  the `# Begin: Data <repr_string>` line), every line ended by `\n`;
* `lexBytes`: the header loop of `_from_ovf` on bytes: `next(f)`, `for line in f`,
  `line.decode("utf-8")`, `line.lower().startswith("# begin: data")`, `line[1:].split(":")`,
  `strip()`; the bytes after the data line are the data section;
* `toFile`: the dictionary values seen as what `float()` / `int()` make of them at their point of
  use (`NumIO`: Python's `repr` / `float` are the trusted pair, a parameter of the model; `int()`
  is `parseNat`);
* `fromOvfBytes`: `Field._from_ovf` on the bytes of a file.
-/
namespace DFV.C09
open DFV

/-! ## UTF-8 -/

/-- continuation byte `10xxxxxx` -/
def isCont (b : Nat) : Bool := decide (128 ≤ b) && decide (b < 192)

/-- `ch.encode("utf-8")` -/
def utf8EncChar (c : Char) : List Nat :=
  if c.toNat < 128 then [c.toNat]
  else if c.toNat < 2048 then [192 + c.toNat / 64, 128 + c.toNat % 64]
  else if c.toNat < 65536 then [224 + c.toNat / 4096, 128 + c.toNat / 64 % 64, 128 + c.toNat % 64]
  else [240 + c.toNat / 262144, 128 + c.toNat / 4096 % 64, 128 + c.toNat / 64 % 64, 128 + c.toNat % 64]

/-- `s.encode("utf-8")` -/
def utf8Enc (cs : List Char) : List Nat := cs.flatMap utf8EncChar

/-- code point of a two-, three-, four-byte sequence -/
def cp2 (b b1 : Nat) : Nat := (b - 192) * 64 + (b1 - 128)
def cp3 (b b1 b2 : Nat) : Nat := (b - 224) * 4096 + (b1 - 128) * 64 + (b2 - 128)
def cp4 (b b1 b2 b3 : Nat) : Nat := (b - 240) * 262144 + (b1 - 128) * 4096 + (b2 - 128) * 64 + (b3 - 128)

/-- strict `bytes.decode("utf-8")`: `none` for a stray or missing continuation byte, an overlong
form, a surrogate, a code point above U+10FFFF (`UnicodeDecodeError`) -/
def utf8Dec : List Nat → Option (List Char)
  | [] => some []
  | b :: bs =>
    if b < 128 then (utf8Dec bs).map fun r => Char.ofNat b :: r
    else if b < 194 then none
    else if b < 224 then
      match bs with
      | b1 :: r =>
        if isCont b1 then (utf8Dec r).map fun t => Char.ofNat (cp2 b b1) :: t else none
      | _ => none
    else if b < 240 then
      match bs with
      | b1 :: b2 :: r =>
        if isCont b1 && isCont b2 && decide (2048 ≤ cp3 b b1 b2)
            && !(decide (55296 ≤ cp3 b b1 b2) && decide (cp3 b b1 b2 < 57344)) then
          (utf8Dec r).map fun t => Char.ofNat (cp3 b b1 b2) :: t
        else none
      | _ => none
    else if b < 245 then
      match bs with
      | b1 :: b2 :: b3 :: r =>
        if isCont b1 && isCont b2 && isCont b3 && decide (65536 ≤ cp4 b b1 b2 b3)
            && decide (cp4 b b1 b2 b3 < 1114112) then
          (utf8Dec r).map fun t => Char.ofNat (cp4 b b1 b2 b3) :: t
        else none
      | _ => none
    else none

/-! ## The header as text -/

/-- how `repr(float)` / `float(text)` move header numbers between rationals and text (trusted
pair, a parameter of the model; the driver is given Python's own results as tables) -/
structure NumIO where
  fmt : Rat → List Char
  pfloat : List Char → Option Rat

structure NumIO.Lawful (N : NumIO) : Prop where
  /-- `float(repr(x)) == x` -/
  parse_fmt : ∀ q, N.pfloat (N.fmt q) = some q
  /-- the text of a number has no `:` and no white space -/
  clean : ∀ q, ∀ c ∈ N.fmt q, c ≠ ':' ∧ c.isWhitespace = false
  nonempty : ∀ q, N.fmt q ≠ []

/-- `f"{value}"` of a header value -/
def renderVal (N : NumIO) : HVal → List Char
  | .num q => N.fmt q
  | .nat n => (toString n).toList
  | .str s => s.toList

/-- `"# Begin: Data"` (spelled out: unfolding `String.toList` of a literal is slow in proofs) -/
def beginDataChars : List Char := ['#', ' ', 'B', 'e', 'g', 'i', 'n', ':', ' ', 'D', 'a', 't', 'a']

/-- one line of `bheader` (without the newline) -/
def renderLine (N : NumIO) : HLine → List Char
  | .other => ['#']
  | .kv k v => '#' :: ' ' :: (k.toList ++ ':' :: ' ' :: renderVal N v)
  | .beginData ws => beginDataChars ++ ' ' :: joinSp (ws.map String.toList)

/-- the bytes of the header lines, each ended by `\n` -/
def linesBytes (N : NumIO) (ls : List HLine) : List Byte :=
  ls.flatMap fun l => utf8Enc (renderLine N l) ++ [10]

/-- `bheader`: first line and header lines up to and including the data line -/
def headerBytes {α} (N : NumIO) (F : OvfFile α) : List Byte :=
  utf8Enc F.first.toList ++ 10 :: linesBytes N F.lines

/-- the bytes of a binary file: header, then the data section (check value, payload, `\n`,
footer) -/
def fileBytes {α} (N : NumIO) (F : OvfFile α) : List Byte :=
  match F.body with
  | .bin b => headerBytes N F ++ b
  | .text _ _ => headerBytes N F

/-- `Field._to_ovf` down to the bytes of a binary file (`txt`: the header bytes; the rows are
written by pandas) -/
def toOvfBytes {α} (N : NumIO) (c : Codec α) (f : OField α) (rep : String) (extend : Bool) : M (List Byte) :=
  match toOvf c f rep extend with
  | .error e => .error e
  | .ok F => .ok (fileBytes N F)

/-! ## The header loop of `_from_ovf` on bytes -/

/-- `"# begin: data"` -/
def dataPrefix : List Char := ['#', ' ', 'b', 'e', 'g', 'i', 'n', ':', ' ', 'd', 'a', 't', 'a']

/-- `line.lower().startswith("# begin: data")` -/
def isDataLine (cs : List Char) : Bool := dataPrefix.isPrefixOf (cs.map Char.toLower)

/-- `s.split(sep)` for a one-character separator (never empty) -/
def splitOn (sep : Char) : List Char → List (List Char)
  | [] => [[]]
  | c :: cs =>
    if c = sep then [] :: splitOn sep cs
    else match splitOn sep cs with
      | [] => [[c]]
      | p :: ps => (c :: p) :: ps

/-- `s.strip()` -/
def strip (cs : List Char) : List Char :=
  ((cs.dropWhile Char.isWhitespace).reverse.dropWhile Char.isWhitespace).reverse

/-- a header line as the loop sees it -/
inductive RawLine where
  | kv (key val : String)
  | other
  | data (words : List String)      -- `line.split()[3:]` of the data line
  deriving DecidableEq, Repr, Inhabited

/-- one iteration of the header loop on a decoded line -/
def classifyLine (cs : List Char) : RawLine :=
  if isDataLine cs then .data (((splitWs cs).drop 3).map String.ofList)
  else match splitOn ':' (cs.drop 1) with
    | a :: b :: _ => .kv (String.ofList (strip a)) (String.ofList (strip b))
    | _ => .other

abbrev LexRes := List RawLine × Option (List String × List Byte)

/-- what the loop does with one line (`line` without its newline, `rest` the bytes after it,
`more` the remaining iterations) -/
def onLine (line rest : List Byte) (more : M LexRes) : M LexRes :=
  match utf8Dec line with
  | none => .error .value                       -- UnicodeDecodeError
  | some cs =>
    match classifyLine cs with
    | .data ws => .ok ([], some (ws, rest))     -- `break`
    | .kv k v => match more with
      | .error e => .error e
      | .ok p => .ok (.kv k v :: p.1, p.2)
    | .other => match more with
      | .error e => .error e
      | .ok p => .ok (.other :: p.1, p.2)

/-- `for line in f:` on the bytes after the first line; `cur` holds the bytes of the current
line, newest first.  A last line without newline is still a line. -/
def lexGo : List Byte → List Byte → M LexRes
  | [], cur => if cur.isEmpty then .ok ([], none) else onLine cur.reverse [] (.ok ([], none))
  | b :: bs, cur => if b = 10 then onLine cur.reverse bs (lexGo bs []) else lexGo bs (b :: cur)

structure Lexed where
  first : List Byte                                   -- `next(f)` without the newline
  lines : List RawLine                                -- the lines before the data line
  data : Option (List String × List Byte)             -- words of the data line, bytes after it
  deriving Repr

/-- first line, header loop, position of the data section -/
def lexBytes (bytes : List Byte) : M Lexed :=
  if bytes.isEmpty then .error .runtime               -- `next(f)`: StopIteration
  else match lexGo ((bytes.dropWhile fun b => b != 10).drop 1) [] with
    | .error e => .error e
    | .ok p => .ok { first := bytes.takeWhile fun b => b != 10, lines := p.1, data := p.2 }

/-! ## From the dictionary of strings to the values used -/

def natKeys : List String := ["xnodes", "ynodes", "znodes", "valuedim", "Segment count"]

def numKeys : List String :=
  ["xmin", "ymin", "zmin", "xmax", "ymax", "zmax", "xbase", "ybase", "zbase",
   "xstepsize", "ystepsize", "zstepsize"]

/-- what `int(header[k])` / `float(header[k])` will make of the text at its point of use -/
def classifyVal (N : NumIO) (k v : String) : HVal :=
  if natKeys.contains k then
    match parseNat v with
    | some n => .nat n
    | none => .str v
  else if numKeys.contains k then
    match N.pfloat v.toList with
    | some q => .num q
    | none => .str v
  else .str v

def toHLine (N : NumIO) : RawLine → HLine
  | .kv k v => .kv k (classifyVal N k v)
  | .other => .other
  | .data ws => .beginData ws

/-- the first line as text, byte for byte (`b"2.0" in line` only looks at bytes) -/
def latin1 (bs : List Byte) : String := String.ofList (bs.map Char.ofNat)

/-- the file as `_from_ovf` sees it; `tb` = what pandas makes of the bytes of a text data section
(rows, footer lines) -/
def toFile {α} (N : NumIO) (tb : List Byte → List (List α) × List String) (L : Lexed) : OvfFile α :=
  match L.data with
  | none => { first := latin1 L.first, lines := L.lines.map (toHLine N), body := .bin [] }
  | some (ws, rest) =>
    { first := latin1 L.first, lines := L.lines.map (toHLine N) ++ [.beginData ws],
      body := if isBinary ws then .bin rest else .text (tb rest).1 (tb rest).2 }

/-- `Field._from_ovf` on the bytes of a file -/
def fromOvfBytes {α} [DecidableEq α] (N : NumIO) (tb : List Byte → List (List α) × List String)
    (c : Codec α) (isWord : Char → Bool) (reserved : String → Bool)
    (bytes : List Byte) (side : Option (List (String × Region))) : M (OField α) :=
  match lexBytes bytes with
  | .error e => .error e
  | .ok L => fromOvf c isWord reserved (toFile N tb L) side

end DFV.C09
