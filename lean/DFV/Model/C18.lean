import DFV.Model.Field
import DFV.Model.Transform
/-!
# C18 — executable model of `discretisedfield/field_rotator.py`

`FieldRotator` keeps the original field, an accumulated rotation and the current (rotated)
field.  `rotate` multiplies the new rotation from the LEFT onto the accumulated one, builds
the axis-aligned bounding box of the rotated region, chooses the cell counts, rotates the
vectors of the ORIGINAL field (through the component <-> axis permutation) and resamples
them by trilinear interpolation (scipy `RegularGridInterpolator`, edge-padded by one layer
placed `1e-9` cell outside the region, zero fill outside) at the back-rotated cell centres
of the new mesh.

Rotations are 3×3 rational matrices (every rational quaternion gives one, `M3.ofQuat`), so
the whole pipeline is exact.  The inverse rotation is the transpose (what scipy's
`Rotation.inv` is for a rotation).  Core Lean only.
-/
namespace DFV.C18
open DFV

/-! ## 3-vectors and 3×3 matrices -/

@[ext] structure V3 where
  x : Rat
  y : Rat
  z : Rat
  deriving DecidableEq, Repr, Inhabited

namespace V3
def get (v : V3) (a : Nat) : Rat :=
  match a with
  | 0 => v.x
  | 1 => v.y
  | _ => v.z
def ofFn (f : Nat → Rat) : V3 := ⟨f 0, f 1, f 2⟩
def ofList (l : List Rat) : V3 := ⟨l.getD 0 0, l.getD 1 0, l.getD 2 0⟩
def toList (v : V3) : List Rat := [v.x, v.y, v.z]
def add (a b : V3) : V3 := ⟨a.x + b.x, a.y + b.y, a.z + b.z⟩
def sub (a b : V3) : V3 := ⟨a.x - b.x, a.y - b.y, a.z - b.z⟩
def smul (s : Rat) (a : V3) : V3 := ⟨s * a.x, s * a.y, s * a.z⟩
def dot (a b : V3) : Rat := a.x * b.x + a.y * b.y + a.z * b.z
def cross (a b : V3) : V3 := ⟨a.y * b.z - a.z * b.y, a.z * b.x - a.x * b.z, a.x * b.y - a.y * b.x⟩
end V3

/-- 3×3 matrix by rows -/
@[ext] structure M3 where
  r0 : V3
  r1 : V3
  r2 : V3
  deriving DecidableEq, Repr, Inhabited

namespace M3
def row (Q : M3) (i : Nat) : V3 :=
  match i with
  | 0 => Q.r0
  | 1 => Q.r1
  | _ => Q.r2
/-- entry `Q[i][j]` -/
def e (Q : M3) (i j : Nat) : Rat := (Q.row i).get j
def one : M3 := ⟨⟨1, 0, 0⟩, ⟨0, 1, 0⟩, ⟨0, 0, 1⟩⟩
/-- `Q · v` (`Rotation.apply`) -/
def apply (Q : M3) (v : V3) : V3 := ⟨Q.r0.dot v, Q.r1.dot v, Q.r2.dot v⟩
def tr (Q : M3) : M3 :=
  ⟨⟨Q.r0.x, Q.r1.x, Q.r2.x⟩, ⟨Q.r0.y, Q.r1.y, Q.r2.y⟩, ⟨Q.r0.z, Q.r1.z, Q.r2.z⟩⟩
/-- matrix product `A · B` (scipy: `A * B` applies `B` first) -/
def mul (A B : M3) : M3 := ⟨B.tr.apply A.r0, B.tr.apply A.r1, B.tr.apply A.r2⟩
def det (Q : M3) : Rat :=
  Q.r0.x * (Q.r1.y * Q.r2.z - Q.r1.z * Q.r2.y) - Q.r0.y * (Q.r1.x * Q.r2.z - Q.r1.z * Q.r2.x)
    + Q.r0.z * (Q.r1.x * Q.r2.y - Q.r1.y * Q.r2.x)
/-- proper rotation: orthogonal with determinant one -/
def IsRot (Q : M3) : Prop := Q.tr.mul Q = one ∧ Q.det = 1
instance (Q : M3) : Decidable Q.IsRot := by unfold IsRot; exact inferInstance

/-- rotation matrix of the (not necessarily normalised) quaternion `w + xi + yj + zk`
(scipy `from_quat([x, y, z, w])` normalises; the matrix entries are rational in the
components) -/
def ofQuat (w x y z : Rat) : M3 :=
  ⟨⟨(w*w + x*x - y*y - z*z) / (w*w + x*x + y*y + z*z), 2 * (x*y - w*z) / (w*w + x*x + y*y + z*z),
     2 * (x*z + w*y) / (w*w + x*x + y*y + z*z)⟩,
   ⟨2 * (x*y + w*z) / (w*w + x*x + y*y + z*z), (w*w - x*x + y*y - z*z) / (w*w + x*x + y*y + z*z),
     2 * (y*z - w*x) / (w*w + x*x + y*y + z*z)⟩,
   ⟨2 * (x*z - w*y) / (w*w + x*x + y*y + z*z), 2 * (y*z + w*x) / (w*w + x*x + y*y + z*z),
     (w*w - x*x - y*y + z*z) / (w*w + x*x + y*y + z*z)⟩⟩

/-- matrix from its entries -/
def ofFn (e : Nat → Nat → Rat) : M3 :=
  ⟨⟨e 0 0, e 0 1, e 0 2⟩, ⟨e 1 0, e 1 1, e 1 2⟩, ⟨e 2 0, e 2 1, e 2 2⟩⟩

/-- scipy `from_mrp(p)` (modified Rodrigues parameters `p = n·tan(θ/4)`): the rotation of the
quaternion `(1 − |p|²) + 2p`; rational for every rational `p` -/
def ofMrp (p : V3) : M3 := ofQuat (1 - p.dot p) (2 * p.x) (2 * p.y) (2 * p.z)

/-- `rotate("align_vector", initial=i, final=f)`: `fixed = np.cross(i, f)` and
`Rotation.align_vectors([f, fixed], [i, fixed])` — the rotation about `i × f` that takes `i` to
`f`.  For `|i| = |f|` (the exact regime; in general `|i|·|f|` needs a square root) it is the
rotation of the half-angle quaternion `(i·i + i·f) + i × f`. -/
def ofAlign (i f : V3) : M3 := ofQuat (i.dot i + i.dot f) (i.cross f).x (i.cross f).y (i.cross f).z

def ofRows (l : List (List Rat)) : M3 :=
  ⟨V3.ofList (l.getD 0 []), V3.ofList (l.getD 1 []), V3.ofList (l.getD 2 [])⟩
def toRows (Q : M3) : List (List Rat) := [Q.r0.toList, Q.r1.toList, Q.r2.toList]
end M3

/-! ## exact quarter turns (the lattice rotations of C12 as matrices) -/

/-- rotation in the plane of axes `p`, `q` with cosine `c` and sine `s` (from `p` towards `q`) -/
def Rcs (p q : Nat) (c s : Rat) : M3 :=
  M3.ofFn fun i j =>
    if i = p ∧ j = p then c else if i = p ∧ j = q then -s
    else if i = q ∧ j = p then s else if i = q ∧ j = q then c
    else if i = j then 1 else 0

/-- the quarter turn `k · 90°` in the plane of axes `p`, `q`: the matrix of C12's
`rotate90(dims[p], dims[q], k)` -/
def Rq (p q : Nat) (k : Int) : M3 := Rcs p q (T.cosq k) (T.sinq k)

/-- right-handed rotation about coordinate axis `a` by `k` quarter turns
(`from_rotvec(k·π/2·e_a)`, `from_euler("xyz"[a], k·π/2)`) -/
def Raxis (a : Nat) (k : Int) : M3 := Rq ((a + 1) % 3) ((a + 2) % 3) k

/-- scipy `from_euler(seq, angles)` for quarter-turn angles: lower-case sequences are
extrinsic (each rotation about the fixed axes, applied in order: later on the left), upper-case
intrinsic (about the carried axes: later on the right) -/
def eulerQ (intrinsic : Bool) : List (Nat × Int) → M3
  | [] => M3.one
  | (a, k) :: rest =>
    if intrinsic then (Raxis a k).mul (eulerQ intrinsic rest) else (eulerQ intrinsic rest).mul (Raxis a k)

/-! ## geometry of the rotated mesh (`_calculate_new_region`, `_calculate_new_n`) -/

def edgesV (m : Mesh) : V3 := V3.ofFn m.region.edge
def cellV (m : Mesh) : V3 := V3.ofFn m.cellAt
/-- `region.center = 0.5 * (pmin + pmax)` -/
def centreAt (m : Mesh) (a : Nat) : Rat := (m.region.lo a + m.region.hi a) / 2
def centreV (m : Mesh) : V3 := V3.ofFn (centreAt m)

/-- `np.sum(abs(R.apply(np.eye(3) * w)), axis=0)[i]` : `Σ_j |R_ij · w_j|` -/
def sumAbs (R : M3) (w : V3) (i : Nat) : Rat :=
  absR (R.e i 0 * w.x) + absR (R.e i 1 * w.y) + absR (R.e i 2 * w.z)

/-- `_calculate_new_region`: centre ± half the summed absolute rotated edges; through the
`Region` constructor with default dims/units -/
def newRegion (f : Fld) (R : M3) : M Region :=
  Region.mk? (tab 3 fun i => centreAt f.mesh i - sumAbs R (edgesV f.mesh) i / 2)
             (tab 3 fun i => centreAt f.mesh i + sumAbs R (edgesV f.mesh) i / 2) none none

/-- largest `j ≤ m` with `g j ≤ x` (0 if there is none): the interval search of the
interpolator on nodes `g 0 < g 1 < …`, and the integer search behind `roundCbrt` -/
def findIdx (g : Nat → Rat) (x : Rat) : Nat → Nat
  | 0 => 0
  | k + 1 => if g (k + 1) ≤ x then k + 1 else findIdx g x k

def cube (q : Rat) : Rat := q * q * q

/-- nearest integer to the real cube root of `q ≥ 0` (ties upward): the largest `k` with
`(k − ½)³ ≤ q` -/
def roundCbrt (q : Rat) : Nat := findIdx (fun k => cube ((k : Rat) - 1/2)) q (q.floor.toNat + 2)

/-- cube of the quantity `_calculate_new_n` rounds on axis `i`:
`(E_i / (l_i · (dV / Π l)^{1/3}))³ = E_i³ · Π l / (l_i³ · dV)` -/
def autoX3 (f : Fld) (R : M3) (reg : Region) (i : Nat) : Rat :=
  cube (reg.edge i) * (sumAbs R (cellV f.mesh) 0 * sumAbs R (cellV f.mesh) 1 * sumAbs R (cellV f.mesh) 2)
    / (cube (sumAbs R (cellV f.mesh) i) * (f.mesh.cellAt 0 * f.mesh.cellAt 1 * f.mesh.cellAt 2))

/-- `_calculate_new_n` (cell volume kept "mostly constant") -/
def autoN (f : Fld) (R : M3) (reg : Region) : List Nat := tab 3 fun i => roundCbrt (autoX3 f R reg i)

/-! ## vector rotation through the component ↔ axis permutation -/

/-- `Field._r_dim_mapping[dim]` (dict comprehension: the last vdim mapped to `dim` wins) -/
def rDimLast (f : Fld) (dim : String) : Option String :=
  (f.vmap.reverse.find? fun p => p.2 == dim).map (·.1)

/-- `vdims.index(_r_dim_mapping[dims[a]])` -/
def ordAt (f : Fld) (a : Nat) : Option Nat :=
  (rDimLast f (f.mesh.region.dims.getD a "")).bind f.vdimIndex

/-- `ordered_idx` (empty for scalar fields) -/
def ordFor (f : Fld) : M (List Nat) :=
  if f.nvdim = 1 then .ok []
  else
    match ordAt f 0, ordAt f 1, ordAt f 2 with
    | some a, some b, some c => .ok [a, b, c]
    | _, _, _ => .error .value

/-- `ordered_idx.argsort()[c]` for a permutation: the position holding `c` -/
def invAt (ord : List Nat) (c : Nat) : Nat :=
  if ord.getD 0 0 = c then 0 else if ord.getD 1 0 = c then 1 else 2

/-- `np.argsort` on a short list (code-shaped: indices sorted by key, insertion sort; for the
distinct keys of a permutation every sorting algorithm returns the same) -/
def argsortL (l : List Nat) : List Nat :=
  (List.range l.length).foldl (fun acc i => insertBy l i acc) []
where
  insertBy (l : List Nat) (i : Nat) : List Nat → List Nat
    | [] => [i]
    | j :: js => if l.getD i 0 < l.getD j 0 then i :: j :: js else j :: insertBy l i js

/-- one cell value: `R.apply(v[ordered_idx])[argsort(ordered_idx)]`; scalars untouched -/
def rotVal (nvdim : Nat) (R : M3) (ord : List Nat) (v : List Rat) : List Rat :=
  if nvdim = 1 then v
  else tab 3 fun c =>
    (R.apply ⟨v.getD (ord.getD 0 0) 0, v.getD (ord.getD 1 0) 0, v.getD (ord.getD 2 0) 0⟩).get (invAt ord c)

/-! ## interpolation (`_create_interpolation_funcs`, `RegularGridInterpolator`) -/

/-- the padding offset in cells -/
def tolI : Rat := 1 / 1000000000

/-- `coords[a][j]`, `j = 0 … n+1`: the padded layer `tol·cell` outside the region, the cell
centres by `np.linspace`, everything relative to the region centre -/
def gridNode (m : Mesh) (a j : Nat) : Rat :=
  (if j = 0 then m.region.lo a - m.cellAt a * tolI
   else if j = m.nAt a + 1 then m.region.hi a + m.cellAt a * tolI
   else (Mesh.linspace (m.region.lo a + m.cellAt a / 2) (m.region.hi a - m.cellAt a / 2) (m.nAt a)).getD (j - 1) 0)
  - centreAt m a

/-- `np.pad(mode="edge", pad_width=1)`: padded index → source index -/
def padIdx (n j : Nat) : Nat := min (j - 1) (n - 1)

def inBounds (g : Nat → Rat) (m : Nat) (x : Rat) : Bool := decide (g 0 ≤ x) && decide (x ≤ g (m + 1))

/-- normalised distance inside the interval `[g i, g (i+1)]` -/
def frac (g : Nat → Rat) (i : Nat) (x : Rat) : Rat := (x - g i) / (g (i + 1) - g i)

structure Loc where
  i0 : Nat
  i1 : Nat
  i2 : Nat
  t0 : Rat
  t1 : Rat
  t2 : Rat

/-- bounds test and interval search on the three axes; `none` = outside (fill value) -/
def locate (g0 g1 g2 : Nat → Rat) (m0 m1 m2 : Nat) (p : V3) : Option Loc :=
  if inBounds g0 m0 p.x && inBounds g1 m1 p.y && inBounds g2 m2 p.z then
    some ⟨findIdx g0 p.x m0, findIdx g1 p.y m1, findIdx g2 p.z m2,
          frac g0 (findIdx g0 p.x m0) p.x, frac g1 (findIdx g1 p.y m1) p.y, frac g2 (findIdx g2 p.z m2) p.z⟩
  else none

def wgt (t : Rat) (e : Nat) : Rat := if e = 0 then 1 - t else t

/-- the eight-corner weighted sum of multilinear interpolation -/
def sum8 (t0 t1 t2 : Rat) (W : Nat → Nat → Nat → Rat) : Rat :=
  wgt t0 0 * wgt t1 0 * wgt t2 0 * W 0 0 0 + wgt t0 0 * wgt t1 0 * wgt t2 1 * W 0 0 1
  + wgt t0 0 * wgt t1 1 * wgt t2 0 * W 0 1 0 + wgt t0 0 * wgt t1 1 * wgt t2 1 * W 0 1 1
  + wgt t0 1 * wgt t1 0 * wgt t2 0 * W 1 0 0 + wgt t0 1 * wgt t1 0 * wgt t2 1 * W 1 0 1
  + wgt t0 1 * wgt t1 1 * wgt t2 0 * W 1 1 0 + wgt t0 1 * wgt t1 1 * wgt t2 1 * W 1 1 1

def interpAt (V : Nat → Nat → Nat → Rat) : Option Loc → Rat
  | none => 0
  | some l => sum8 l.t0 l.t1 l.t2 fun e0 e1 e2 => V (l.i0 + e0) (l.i1 + e1) (l.i2 + e2)

/-- `RegularGridInterpolator(coords, V, fill_value=0, bounds_error=False)(p)` -/
def trilin (g0 g1 g2 : Nat → Rat) (m0 m1 m2 : Nat) (V : Nat → Nat → Nat → Rat) (p : V3) : Rat :=
  interpAt V (locate g0 g1 g2 m0 m1 m2 p)

/-- component `c` of the rotated original at padded node `(i, j, k)` -/
def padded (f : Fld) (R : M3) (ord : List Nat) (c i j k : Nat) : Rat :=
  (rotVal f.nvdim R ord
    (f.data.get [padIdx (f.mesh.nAt 0) i, padIdx (f.mesh.nAt 1) j, padIdx (f.mesh.nAt 2) k])).getD c 0

/-- centre of target cell `idx`, relative to the original centre, rotated back -/
def backPos (f : Fld) (R : M3) (nm : Mesh) (idx : List Nat) : V3 :=
  R.tr.apply ((V3.ofList (nm.centre idx)).sub (centreV f.mesh))

def locOf (f : Fld) (p : V3) : Option Loc :=
  locate (gridNode f.mesh 0) (gridNode f.mesh 1) (gridNode f.mesh 2)
    (f.mesh.nAt 0) (f.mesh.nAt 1) (f.mesh.nAt 2) p

/-- all components of the interpolated rotated original at `p` (relative to the centre) -/
def valuesAt (f : Fld) (R : M3) (ord : List Nat) (p : V3) : List Rat :=
  (fun loc => tab f.nvdim fun c => interpAt (padded f R ord c) loc) (locOf f p)

/-- `_map_and_interpolate` at one target cell -/
def resampleAt (f : Fld) (R : M3) (ord : List Nat) (nm : Mesh) (idx : List Nat) : List Rat :=
  valuesAt f R ord (backPos f R nm idx)

/-! ### spec layer: what the property calls "the linear interpolation of the original" -/

/-- component `c` of the original (unrotated) data at padded node `(i, j, k)` -/
def paddedOrig (f : Fld) (c i j k : Nat) : Rat :=
  (f.data.get [padIdx (f.mesh.nAt 0) i, padIdx (f.mesh.nAt 1) j, padIdx (f.mesh.nAt 2) k]).getD c 0

/-- the interpolant of the ORIGINAL field at `p` (relative to the centre), all components -/
def origAt (f : Fld) (p : V3) : List Rat :=
  (fun loc => tab f.nvdim fun c => interpAt (paddedOrig f c) loc) (locOf f p)

/-- centre of cell `k` on axis `a`, relative to the region centre -/
def centreRel (m : Mesh) (a k : Nat) : Rat := m.region.lo a + ((k : Rat) + 1/2) * m.cellAt a - centreAt m a

/-- centre of cell `k` on axis `a` (absolute coordinate) -/
def centreAbs (m : Mesh) (a k : Nat) : Rat := m.region.lo a + ((k : Rat) + 1/2) * m.cellAt a

/-- trilinear interpolation between the centres of the cells `k` and `k + 1` (per axis) at
normalised offsets `t` -/
def cellInterp (f : Fld) (c k0 k1 k2 : Nat) (t0 t1 t2 : Rat) : Rat :=
  sum8 t0 t1 t2 fun e0 e1 e2 => (f.data.get [k0 + e0, k1 + e1, k2 + e2]).getD c 0

/-- the field `rotate` stores: new mesh, resampled values, everything valid, labels and
mapping of the original, no unit -/
def rotated (f : Fld) (R : M3) (ord : List Nat) (nm : Mesh) : Fld :=
  { mesh := nm, nvdim := f.nvdim, data := ⟨nm.n, resampleAt f R ord nm⟩,
    valid := NDA.const nm.n true, vdims := f.vdims, vmap := f.vmap, unit := none }

/-- everything `rotate` computes from the original field, the accumulated rotation and `n`
(in the order of the code: region, `n`, mesh, component order, interpolation) -/
def rotateOnce (f : Fld) (R : M3) (n? : Option (List Nat)) : M Fld :=
  match newRegion f R with
  | .error e => .error e
  | .ok reg =>
    match Mesh.mkN? reg (n?.getD (autoN f R reg)) with
    | .error e => .error e
    | .ok nm =>
      match ordFor f with
      | .error e => .error e
      | .ok ord => .ok (rotated f R ord nm)

/-! ## the state machine -/

structure Rotator where
  orig : Fld
  rot : M3
  cur : Fld

inductive Op where
  | rotate (Q : M3) (n : Option (List Nat))
  | clear
  /-- `rotate` with a method name outside the list: refused before anything is touched -/
  | unknown

/-- `FieldRotator.__init__` -/
def init? (f : Fld) : M Rotator :=
  if f.nvdim ≠ 1 ∧ f.nvdim ≠ 3 then .error .value
  else if f.mesh.region.ndim ≠ 3 then .error .value
  else if decide (f.nvdim > 1) && !((f.vdims.getD []).all fun v =>
      match Fld.lookup f.vmap v with
      | none => false
      | some d => f.mesh.region.dims.contains d) then .error .value
  else .ok ⟨f, M3.one, f⟩

/-- one call; the accumulated rotation is updated BEFORE anything can fail, the current
field only on success (as in the code) -/
def step (s : Rotator) : Op → Rotator × Option Err
  | .rotate Q n? =>
    match rotateOnce s.orig (Q.mul s.rot) n? with
    | .ok g => ({ s with rot := Q.mul s.rot, cur := g }, none)
    | .error e => ({ s with rot := Q.mul s.rot }, some e)
  | .clear => ({ s with rot := M3.one, cur := s.orig }, none)
  | .unknown => (s, some .value)

/-- a history of calls (a raising call is caught by the caller and the object used on) -/
def run (s : Rotator) : List Op → Rotator
  | [] => s
  | op :: ops => run (step s op).1 ops

/-! ### spec layer of the state machine -/

/-- ordered product of rotations listed in call order: later rotations on the left -/
def prodL : List M3 → M3
  | [] => M3.one
  | Q :: Qs => (prodL Qs).mul Q

/-- the rotations issued since the last `clear`, in call order (`cur` = those seen so far) -/
def seg : List M3 → List Op → List M3
  | cur, [] => cur
  | cur, .rotate Q _ :: ops => seg (cur ++ [Q]) ops
  | _, .clear :: ops => seg [] ops
  | cur, .unknown :: ops => seg cur ops

/-- distance (in cells) of a back-rotated centre from the inside/outside faces of the
padded box — the boundary comparator's margin -/
def margin (f : Fld) (p : V3) : Rat :=
  listMin ((List.range 3).flatMap fun a =>
    [absR (p.get a - gridNode f.mesh a 0) / f.mesh.cellAt a,
     absR (p.get a - gridNode f.mesh a (f.mesh.nAt a + 1)) / f.mesh.cellAt a])

end DFV.C18
