import DFV.Model.Field
import DFV.Model.C02
/-!
C15 model: `Field.norm` (getter and setter), `Field.orientation`, the part of
`Field.__init__` that fixes the order values → norm → validity, `update_field_values`
and `valid="norm"` (discretisedfield/field.py).  Core Lean only.

The per-cell kernel is written over an arbitrary carrier `K` that only needs the
operations the code uses (`+ * / -`, `0`, comparisons), so that the same definitions are
the executable rational model (`K = Rat`, run by the driver) and the object of theorems
over any linearly ordered field (in particular `ℝ` with `Real.sqrt`, see
`Lemmas/C15Real.lean`).  `sqrt` is a *parameter* of every definition that needs it.
-/
namespace DFV.C15
open DFV

/-! ## Per-cell kernel (generic carrier) -/
section Kernel
variable {K : Type}

/-- `Σ_c v_c²` : what `np.linalg.norm(·, axis=-1)` puts under the root -/
def sqLen [Zero K] [Add K] [Mul K] : List K → K
  | [] => 0
  | x :: xs => x * x + sqLen xs

/-- `np.zeros_like` of one cell -/
def zeros [Zero K] (v : List K) : List K := v.map fun _ => 0

/-- `sqrt` is the non-negative square root at `x` (hypothesis carried by the theorems; the
executable `sqrtQ` satisfies it on rational squares, `Real.sqrt` on all of `ℝ≥0`) -/
def SqrtAt [Zero K] [Mul K] [LE K] (sqrt : K → K) (x : K) : Prop :=
  0 ≤ sqrt x ∧ sqrt x * sqrt x = x

/-- one cell of `np.linalg.norm(array, axis=-1, keepdims=True)` -/
def normCell [Zero K] [Add K] [Mul K] (sqrt : K → K) (v : List K) : K := sqrt (sqLen v)

/-- one cell of `np.divide(array, nrm, out=np.zeros_like(array), where=nrm != 0.0)` -/
def divWhere [Zero K] [Div K] [DecidableEq K] (v : List K) (nrm : K) : List K :=
  if nrm = 0 then zeros v else v.map fun x => x / nrm

/-- one cell of the norm setter: divide where the length is non-zero, then multiply by the
target `t` (`self.array *= _as_array(val, mesh, nvdim=1)`) -/
def setCell [Zero K] [Add K] [Mul K] [Div K] [DecidableEq K] (sqrt : K → K) (v : List K) (t : K) :
    List K :=
  (divWhere v (normCell sqrt v)).map fun x => x * t

def absK [Zero K] [Neg K] [LT K] [DecidableLT K] (x : K) : K := if x < 0 then -x else x

/-- `np.isclose(x, 0)` with the library defaults: `|x - 0| ≤ atol + rtol·|0|`, i.e.
`|x| ≤ atol` (`atol = 1e-8` in the code; a parameter here) -/
def closeZero [Zero K] [Neg K] [LT K] [LE K] [DecidableLT K] [DecidableLE K] (atol x : K) : Bool :=
  decide (absK x ≤ atol)

/-- one cell of `Field.orientation`:
`np.divide(array, nrm, where=~np.isclose(nrm, 0), out=zeros)` -/
def orientCell [Zero K] [Add K] [Mul K] [Div K] [Neg K] [LT K] [LE K] [DecidableLT K] [DecidableLE K]
    (sqrt : K → K) (atol : K) (v : List K) : List K :=
  if closeZero atol (normCell sqrt v) then zeros v else v.map fun x => x / normCell sqrt v

/-- scalar multiple of a cell vector -/
def smul [Mul K] (c : K) (v : List K) : List K := v.map fun x => c * x

end Kernel

/-! ## The same kernel as the code computes it: one rounding `fl` after every operation

`fl` is a parameter (with `fl := id` this is the exact kernel above, see
`flSetCell_id` / `flOrientCell_id` in `Props/C15.lean`); the theorems about it carry the
standard-model hypothesis `|fl x - x| ≤ u·|x|` (`FlOk`, `Lemmas/C15Round.lean`). -/
section FlKernel
variable {K : Type}

/-- `add.reduce((x.conj() * x).real, axis=-1)` of one cell: every square is rounded, every
addition is rounded, left to right -/
def flSqLen [Zero K] [Add K] [Mul K] (fl : K → K) (v : List K) : K :=
  v.foldl (fun acc x => fl (acc + fl (x * x))) 0

/-- one cell of `np.linalg.norm(array, axis=-1, keepdims=True)` as computed: the rounded
root of the rounded sum of rounded squares -/
def flNormCell [Zero K] [Add K] [Mul K] (fl sqrt : K → K) (v : List K) : K :=
  fl (sqrt (flSqLen fl v))

/-- one cell of the norm setter as computed: `fl(fl(x / nrm) * t)` where `nrm != 0.0` -/
def flSetCell [Zero K] [Add K] [Mul K] [Div K] [DecidableEq K] (fl sqrt : K → K) (v : List K)
    (t : K) : List K :=
  (if flNormCell fl sqrt v = 0 then zeros v else v.map fun x => fl (x / flNormCell fl sqrt v)).map
    fun x => fl (x * t)

/-- one cell of `Field.orientation` as computed: `fl(x / nrm)` where `~np.isclose(nrm, 0)` -/
def flOrientCell [Zero K] [Add K] [Mul K] [Div K] [Neg K] [LT K] [LE K] [DecidableLT K]
    [DecidableLE K] (fl sqrt : K → K) (atol : K) (v : List K) : List K :=
  if closeZero atol (flNormCell fl sqrt v) then zeros v
  else v.map fun x => fl (x / flNormCell fl sqrt v)

end FlKernel

/-! ## binary64 as an instance of `fl`: what the driver runs for the bit-exact comparison

Round to nearest, ties to even, 53 significant bits, unbounded exponent (no under- or
overflow; the harness keeps away from both).  The exponent is *estimated* from the bit
lengths of numerator and denominator and the estimate is *checked* (`2^52 ≤ m < 2^53`);
should the check ever fail the number is returned unrounded, so that the error bound
`|fl64 x - x| ≤ 2^-53·|x|` (`fl64_flOk`) holds by construction. -/

def pow2 (e : Int) : Rat :=
  if 0 ≤ e then ((2 ^ e.toNat : Nat) : Rat) else 1 / ((2 ^ (-e).toNat : Nat) : Rat)

/-- the significand `|x| / 2^e` rounded to an integer (ties to even) if it lies in
`[2^52, 2^53)`, times `2^e` -/
def fl64At (x : Rat) (e : Int) : Option Rat :=
  if (4503599627370496 : Rat) ≤ x / pow2 e ∧ x / pow2 e < 9007199254740992 then
    some ((Mesh.roundHalfEven (x / pow2 e) : Rat) * pow2 e)
  else none

/-- estimate of `⌊log2 x⌋ - 52` for positive `x` (exact or one too large) -/
def expEst (x : Rat) : Int := (Nat.log2 x.num.natAbs : Int) - (Nat.log2 x.den : Int) - 52

/-- binary64 rounding of a positive rational -/
def fl64Pos (x : Rat) : Rat :=
  match fl64At x (expEst x) with
  | some r => r
  | none =>
    match fl64At x (expEst x - 1) with
    | some r => r
    | none => x

/-- binary64 rounding (round to nearest even, unbounded exponent) -/
def fl64 (x : Rat) : Rat :=
  if x = 0 then 0 else if x < 0 then -fl64Pos (-x) else fl64Pos x

/-- rounding of a natural number `s ≥ 2^53` to 53 significant bits (a multiple of
`2^(⌊log2 s⌋ - 52)`): to nearest; on a tie to even if `exact`, upwards otherwise (`s` is the
integer part of a root, `exact` tells that the root *is* `s`) -/
def sqrt64Round (s : Nat) (exact : Bool) : Nat :=
  if 2 * (s % 2 ^ (Nat.log2 s + 1 - 53)) < 2 ^ (Nat.log2 s + 1 - 53) then s - s % 2 ^ (Nat.log2 s + 1 - 53)
  else if 2 ^ (Nat.log2 s + 1 - 53) < 2 * (s % 2 ^ (Nat.log2 s + 1 - 53)) then
    s - s % 2 ^ (Nat.log2 s + 1 - 53) + 2 ^ (Nat.log2 s + 1 - 53)
  else if exact && (s / 2 ^ (Nat.log2 s + 1 - 53)) % 2 = 0 then s - s % 2 ^ (Nat.log2 s + 1 - 53)
  else s - s % 2 ^ (Nat.log2 s + 1 - 53) + 2 ^ (Nat.log2 s + 1 - 53)

/-- scale exponent: `x·4^k ≥ 2^109` for every positive `x` with this `k` -/
def sqrt64Scale (x : Rat) : Nat := 55 + Nat.log2 x.den

/-- integer part of `√(x·4^k)` -/
def sqrt64Int (x : Rat) : Nat := Nat.sqrt (x * (4 : Rat) ^ sqrt64Scale x).floor.toNat

/-- correctly rounded binary64 square root of a rational (`np.sqrt`): the integer square
root of `⌊x·4^k⌋` (at least 55 bits), rounded to 53 bits with the exactness of the integer
root as sticky information, divided by `2^k` -/
def sqrt64 (x : Rat) : Rat :=
  if x ≤ 0 then 0
  else
    (sqrt64Round (sqrt64Int x)
        (decide (((sqrt64Int x * sqrt64Int x : Nat) : Rat) = x * (4 : Rat) ^ sqrt64Scale x)) : Rat) /
      (2 : Rat) ^ sqrt64Scale x

/-! ## Complex fields (`dtype=complex`): a component is a pair `(re, im)`

The code runs the very same lines on a complex array: `np.linalg.norm` sums
`(x.conj() * x).real = re² + im²`, the division is by the real norm, the product is with
the real target promoted to `t + 0j`.  `flattenC` views a complex cell as a real cell with
twice as many components (`array.view(float)`); the harness sends complex fields to the
driver through that view, and `cSetCell_flatten` / `cOrientCell_flatten` (Props) show that
the complex kernel *is* the real kernel on the view. -/
section CKernel
variable {K : Type}

/-- `Σ_c (conj(z_c)·z_c).real` -/
def cSqLen [Zero K] [Add K] [Mul K] : List (K × K) → K
  | [] => 0
  | z :: zs => (z.1 * z.1 + z.2 * z.2) + cSqLen zs

def cNormCell [Zero K] [Add K] [Mul K] (sqrt : K → K) (v : List (K × K)) : K := sqrt (cSqLen v)

/-- complex product -/
def cmul [Add K] [Sub K] [Mul K] (z w : K × K) : K × K := (z.1 * w.1 - z.2 * w.2, z.1 * w.2 + z.2 * w.1)

/-- one cell of the norm setter on a complex array: divide by the real norm where it is
non-zero, then multiply by `t + 0j` -/
def cSetCell [Zero K] [Add K] [Sub K] [Mul K] [Div K] [DecidableEq K] (sqrt : K → K)
    (v : List (K × K)) (t : K) : List (K × K) :=
  (if cNormCell sqrt v = 0 then v.map fun _ => ((0 : K), (0 : K))
   else v.map fun z => (z.1 / cNormCell sqrt v, z.2 / cNormCell sqrt v)).map fun z => cmul z (t, 0)

/-- one cell of `Field.orientation` on a complex array -/
def cOrientCell [Zero K] [Add K] [Mul K] [Div K] [Neg K] [LT K] [LE K] [DecidableLT K]
    [DecidableLE K] (sqrt : K → K) (atol : K) (v : List (K × K)) : List (K × K) :=
  if closeZero atol (cNormCell sqrt v) then v.map fun _ => ((0 : K), (0 : K))
  else v.map fun z => (z.1 / cNormCell sqrt v, z.2 / cNormCell sqrt v)

/-- `array.view(float)` of one cell: `[re_0, im_0, re_1, im_1, …]` -/
def flattenC : List (K × K) → List K
  | [] => []
  | z :: zs => z.1 :: z.2 :: flattenC zs

end CKernel

/-! ## The complex kernel as NumPy computes it (one rounding `fl` after every operation)

`np.linalg.norm` forms `(x.conj() * x).real` per component — with a fused multiply-add in
NumPy's SIMD loop on machines that have one (`fused`: `fl(re² + fl(im²))`), otherwise
`fl(fl(re²) + fl(im²))` — and adds the components left to right.  The division of a complex
number by the real norm `n + 0j` is Smith's algorithm with ratio `0/n = 0`: the reciprocal
`scl = fl(1/n)` is rounded, then real and imaginary part are multiplied by it (**two**
roundings where a real array needs one).  The product with the real target `t + 0j` rounds
each part once (`fl(fl(re·t) − im·0)`). -/
section CFlKernel
variable {K : Type}

/-- `(conj(z)·z).real` as computed -/
def cflAbs2 [Add K] [Mul K] (fl : K → K) (fused : Bool) (z : K × K) : K :=
  if fused then fl (z.1 * z.1 + fl (z.2 * z.2)) else fl (fl (z.1 * z.1) + fl (z.2 * z.2))

/-- `add.reduce((x.conj() * x).real, axis=-1)` of one complex cell -/
def cflSqLen [Zero K] [Add K] [Mul K] (fl : K → K) (fused : Bool) (v : List (K × K)) : K :=
  v.foldl (fun acc z => fl (acc + cflAbs2 fl fused z)) 0

def cflNormCell [Zero K] [Add K] [Mul K] (fl sqrt : K → K) (fused : Bool) (v : List (K × K)) : K :=
  fl (sqrt (cflSqLen fl fused v))

/-- every component divided by the real number `n` the way NumPy divides a complex by
`n + 0j`: times the rounded reciprocal -/
def cflDivCell [One K] [Mul K] [Div K] (fl : K → K) (v : List (K × K)) (n : K) : List (K × K) :=
  v.map fun z => (fl (z.1 * fl (1 / n)), fl (z.2 * fl (1 / n)))

/-- one cell of the norm setter on a complex array as computed -/
def cflSetCell [Zero K] [One K] [Add K] [Mul K] [Div K] [DecidableEq K] (fl sqrt : K → K)
    (fused : Bool) (v : List (K × K)) (t : K) : List (K × K) :=
  (if cflNormCell fl sqrt fused v = 0 then v.map fun _ => ((0 : K), (0 : K))
   else cflDivCell fl v (cflNormCell fl sqrt fused v)).map fun z => (fl (z.1 * t), fl (z.2 * t))

/-- one cell of `Field.orientation` on a complex array as computed -/
def cflOrientCell [Zero K] [One K] [Add K] [Mul K] [Div K] [Neg K] [LT K] [LE K] [DecidableLT K]
    [DecidableLE K] (fl sqrt : K → K) (fused : Bool) (atol : K) (v : List (K × K)) : List (K × K) :=
  if closeZero atol (cflNormCell fl sqrt fused v) then v.map fun _ => ((0 : K), (0 : K))
  else cflDivCell fl v (cflNormCell fl sqrt fused v)

end CFlKernel

/-! ## An executable square root on `Rat` (driver instantiation of the parameter)

Exact on rational squares (so on every vector with rational length, e.g. scaled
Pythagorean tuples); otherwise the floor of the root at 2^-96 relative resolution, used
only by the tolerance-regime comparator. -/

def sqrtQ (x : Rat) : Rat :=
  if x ≤ 0 then 0
  else if Nat.sqrt x.num.toNat * Nat.sqrt x.num.toNat = x.num.toNat ∧ Nat.sqrt x.den * Nat.sqrt x.den = x.den
    then (Nat.sqrt x.num.toNat : Rat) / (Nat.sqrt x.den : Rat)
  else (Nat.sqrt (x.num.toNat * x.den * 2 ^ 192) : Rat) / ((x.den : Rat) * 2 ^ 96)

/-- the library's `np.isclose` absolute tolerance as the exact binary64 number `1e-8` is
sent by the harness; this is the decimal value used in examples -/
def atolDefault : Rat := 1 / 100000000

/-! ## Specifications accepted by the setters -/

/-- what may be assigned to `field.norm` (or passed as `norm=`): number, array-like, callable,
one-component field — and (`spec`) anything `Field._as_array` takes, in particular a
**dictionary over the mesh's subregions** (with or without `"default"`), through C02's model of
`_as_array` for one component -/
inductive NSpec where
  | const (c : Rat)
  | arr (a : NDA Rat)
  | fn (g : List Rat → Rat)
  | field (h : Fld)
  | spec (s : C02.Spec Rat)

/-- NumPy broadcasting of shape `s` to shape `t` (right-aligned; a source axis is 1 or equal) -/
def bcastOk (s t : List Nat) : Bool :=
  decide (s.length ≤ t.length) &&
    allLt s.length fun k => s.getD k 0 == 1 || s.getD k 0 == t.getD (k + (t.length - s.length)) 0

def bcastIdx (s t : List Nat) (j : List Nat) : List Nat :=
  tab s.length fun k => if s.getD k 0 = 1 then 0 else j.getD (k + (t.length - s.length)) 0

/-- array-like branch of `Field._as_array(val, mesh, nvdim=1, dtype)`, with the trailing
component axis of length 1 dropped (result indexed by the cell multi-index): the
`(n,)`-shaped shortcut first, then the `shape[-1] != nvdim` check, then
`np.full((*mesh.n, 1), val)` (NumPy broadcasting). -/
def bcastArr {α : Type} (m : Mesh) (a : NDA α) : M (NDA α) :=
  if a.shape = m.n then .ok ⟨m.n, a.get⟩
  else if a.shape.getLast? ≠ some 1 then .error .value
  else if !bcastOk a.shape (m.n ++ [1]) then .error .value
  else .ok ⟨m.n, fun i => a.get (bcastIdx a.shape (m.n ++ [1]) (i ++ [0]))⟩

/-- `pandas.Index.get_indexer([p], method="nearest")` on an increasing coordinate index
(what `DataArray.sel(..., method="nearest")` resolves to), modelled by contract: the
position whose coordinate is closest to `p`, the larger position on a tie -/
def nearestIdx (xs : List Rat) (p : Rat) : Nat :=
  (List.range xs.length).foldl
    (fun best j => if absR (xs.getD j 0 - p) ≤ absR (xs.getD best 0 - p) then j else best) 0

/-- `Field._as_array(val, mesh, nvdim=1, dtype)` for `val` a `Field`: region containment
check, component-count check, then `val.to_xarray().sel(**{dim: mesh.cells.dim},
method="nearest")` — per axis the cell of `val` whose midpoint is nearest to the midpoint
of the receiving cell.  The selection is by dimension *name*; only equal names in equal
order are modelled (anything else is `notImpl`). -/
def fieldAsArray1 (m : Mesh) (h : Fld) : M (NDA Rat) :=
  if !h.mesh.region.containsReg m.region then .error .value
  else if h.nvdim ≠ 1 then .error .value
  else if h.mesh.region.dims ≠ m.region.dims then .error .notImpl
  else .ok ⟨m.n, fun i =>
    (h.data.get (tab m.ndim fun a =>
      nearestIdx (h.mesh.cells.getD a []) ((m.cells.getD a []).getD (i.getD a 0) 0))).getD 0 0⟩

/-- `Field._as_array(val, mesh, nvdim=1, dtype)` for number / array-like / callable (the
callable is evaluated at every cell centre, `for index, point in zip(mesh.indices, mesh)`)
/ field -/
def asArray1 (m : Mesh) : NSpec → M (NDA Rat)
  | .const c => .ok ⟨m.n, fun _ => c⟩
  | .arr a => bcastArr m a
  | .fn g => .ok ⟨m.n, fun i => g (m.centre i)⟩
  | .field h => fieldAsArray1 m h
  | .spec s =>
    -- `_as_array(val, mesh, nvdim=1, dtype=None)` as modelled for C02 (the only test on a value is `val != 0`);
    -- the result has shape `(*mesh.n, 1)`, cell `i` is entry `i ++ [0]`
    match C02.asArray (fun v => v == 0) s m 1 with
    | .error e => .error e
    | .ok a => .ok ⟨m.n, fun i => a.get (i ++ [0])⟩

/-- value specifications of `update_field_values` used here (the full set is C02's) -/
inductive VSpec where
  | scalar (c : Rat)
  | vec (v : List Rat)
  | arr (a : NDA (List Rat))
  | fn (g : List Rat → List Rat)

/-- `Field._as_array(value, mesh, nvdim, dtype)` for the kinds above: a number is accepted
for `nvdim = 1` or when it is 0; a vector must have `nvdim` entries (for `nvdim = 1` on a 1-d mesh
a sequence as long as the mesh is taken per cell, as the code does); an array must have
shape `(*mesh.n, nvdim)`; a callable is evaluated at every cell centre and must return
`nvdim` numbers. -/
def valuesOf (m : Mesh) (nvdim : Nat) : VSpec → M (NDA (List Rat))
  | .scalar c =>
    if 1 < nvdim ∧ c ≠ 0 then .error .value else .ok ⟨m.n, fun _ => List.replicate nvdim c⟩
  | .vec v =>
    if nvdim = 1 ∧ m.n = [v.length] then .ok ⟨m.n, fun i => [v.getD (i.getD 0 0) 0]⟩  -- the `(n,)`-shaped shortcut
    else if v.length ≠ nvdim then .error .value
    else .ok ⟨m.n, fun _ => v⟩
  | .arr a =>
    if a.shape ≠ m.n then .error .value
    else if !(indicesC m.n).all (fun i => (a.get i).length == nvdim) then .error .value
    else .ok ⟨m.n, a.get⟩
  | .fn g =>
    if !(indicesC m.n).all (fun i => (g (m.centre i)).length == nvdim) then .error .value
    else .ok ⟨m.n, fun i => g (m.centre i)⟩

/-- what may be assigned to `field.valid` -/
inductive ValidSpec where
  | none
  | all (b : Bool)
  | arr (a : NDA Bool)
  | byNorm

/-! ## Field level -/

/-- `Field.norm` (getter): `Field(mesh, nvdim=1, value=np.linalg.norm(array, axis=-1,
keepdims=True), unit=self.unit, valid=self.valid)` -/
def norm (sqrt : Rat → Rat) (f : Fld) : Fld :=
  { mesh := f.mesh, nvdim := 1,
    data := ⟨f.mesh.n, fun i => [normCell sqrt (f.data.get i)]⟩,
    valid := ⟨f.mesh.n, f.valid.get⟩,
    vdims := none, vmap := [], unit := f.unit }

/-- `Field.norm = val` (setter).  `none` leaves the field alone.  The array is first divided
by the norm where that is non-zero, then multiplied by `_as_array(val, mesh, nvdim=1)`. -/
def setNorm (sqrt : Rat → Rat) (f : Fld) : Option NSpec → M Fld
  | none => .ok f
  | some s =>
    match asArray1 f.mesh s with
    | .error e => .error e
    | .ok t => .ok { f with data := ⟨f.mesh.n, fun i => setCell sqrt (f.data.get i) (t.get i)⟩ }

/-- the labels `Field.orientation` ends with: it passes `vdims=self.vdims` to the constructor, so a
field **without** labels (`vdims` is `None`) gets the constructor's defaults again -/
def orientVdims (f : Fld) : Option (List String) :=
  match f.vdims with
  | none => Fld.defaultVdims f.nvdim
  | some l => some l

/-- `Field.orientation`: unit vectors where the norm is not close to zero, zero elsewhere;
keeps mesh, labels (see `orientVdims`), mapping and validity, drops the unit.  This is the
result of the constructor call the getter ends with whenever that call is accepted
(`orientation?`, `orientation_is_ctor_call` in Props). -/
def orientation (sqrt : Rat → Rat) (atol : Rat) (f : Fld) : Fld :=
  { f with data := ⟨f.mesh.n, fun i => orientCell sqrt atol (f.data.get i)⟩,
           valid := ⟨f.mesh.n, f.valid.get⟩, vdims := orientVdims f, unit := none }

/-- `Field.valid = spec` (setter): `"norm"` masks the cells whose norm is close to zero -/
def validOf (sqrt : Rat → Rat) (atol : Rat) (f : Fld) : ValidSpec → M (NDA Bool)
  | .none => .ok ⟨f.mesh.n, fun _ => true⟩
  | .all b => .ok ⟨f.mesh.n, fun _ => b⟩
  | .arr a => bcastArr f.mesh a
  | .byNorm => .ok ⟨f.mesh.n, fun i => !closeZero atol (normCell sqrt (f.data.get i))⟩

def setValid (sqrt : Rat → Rat) (atol : Rat) (f : Fld) (s : ValidSpec) : M Fld :=
  match validOf sqrt atol f s with
  | .error e => .error e
  | .ok v => .ok { f with valid := v }

/-- `Field.update_field_values(value)`: replaces the array, nothing else -/
def updateValues (f : Fld) (s : VSpec) : M Fld :=
  match valuesOf f.mesh f.nvdim s with
  | .error e => .error e
  | .ok a => .ok { f with data := a }

def defaultVmap (nvdim : Nat) (dims : List String) : List (String × String) :=
  if nvdim = 1 then []
  else if nvdim = dims.length then
    match Fld.defaultVdims nvdim with
    | some vs => vs.zip dims
    | none => []
  else []

/-- `Field.__init__` (default labels and mapping): `nvdim` check; `valid = True`; values;
**then** norm; **then** validity. -/
def mk? (sqrt : Rat → Rat) (atol : Rat) (m : Mesh) (nvdim : Nat) (value : VSpec)
    (nrm : Option NSpec) (valid : ValidSpec) (unit : Option String) : M Fld :=
  if nvdim < 1 then .error .value
  else
    match updateValues { mesh := m, nvdim := nvdim, data := ⟨m.n, fun _ => []⟩,
                          valid := ⟨m.n, fun _ => true⟩, vdims := none, vmap := [], unit := unit } value with
    | .error e => .error e
    | .ok f0 =>
      match setNorm sqrt f0 nrm with
      | .error e => .error e
      | .ok f1 =>
        match setValid sqrt atol f1 valid with
        | .error e => .error e
        | .ok f2 => .ok { f2 with vdims := Fld.defaultVdims nvdim,
                                  vmap := defaultVmap nvdim m.region.dims }

/-! ## The constructor with labels and mapping; `Field.orientation` as that constructor call -/

/-- the `vdims` setter on a fresh object (`None`: defaults; `[]`: no labels; else as many distinct
labels as components; labels that clash with attribute names are outside the model) -/
def vdimsSet (nvdim : Nat) : Option (List String) → M (Option (List String))
  | none => .ok (Fld.defaultVdims nvdim)
  | some [] => .ok none
  | some (l :: ls) =>
    if (l :: ls).length ≠ nvdim then .error .value
    else if hasDup (l :: ls) then .error .value
    else .ok (some (l :: ls))

/-- `sorted(keys) == sorted(vdims)` for duplicate-free lists -/
def sameKeys (ks vs : List String) : Bool :=
  decide (ks.length = vs.length) && ks.all (fun k => vs.contains k) && vs.all (fun v => ks.contains v)

/-- the `vdim_mapping` setter (`none` = argument `None`; the values are axis names) -/
def vmapSet (nvdim : Nat) (vdims : Option (List String)) (dims : List String) :
    Option (List (String × String)) → M (List (String × String))
  | none =>
    .ok (if nvdim = 1 then []
         else if nvdim = dims.length then
           match vdims with
           | some vs => vs.zip dims
           | none => []
         else [])
  | some mp =>
    if mp.length = 1 ∧ nvdim = 1 ∧ vdims = none then .ok []
    else if 0 < mp.length then
      match vdims with
      | none => .error .type           -- `sorted(None)`
      | some vd => if sameKeys (mp.map (·.1)) vd then .ok mp else .error .value
    else .ok mp

/-- `Field.__init__` with `vdims=` and `vdim_mapping=`: `nvdim` check; `valid = True`; values;
then norm; then validity; then the labels; then the mapping -/
def mkFull? (sqrt : Rat → Rat) (atol : Rat) (m : Mesh) (nvdim : Nat) (value : VSpec)
    (nrm : Option NSpec) (valid : ValidSpec) (vdims : Option (List String))
    (vmap : Option (List (String × String))) (unit : Option String) : M Fld :=
  if nvdim < 1 then .error .value
  else
    match updateValues { mesh := m, nvdim := nvdim, data := ⟨m.n, fun _ => []⟩,
                          valid := ⟨m.n, fun _ => true⟩, vdims := none, vmap := [], unit := unit } value with
    | .error e => .error e
    | .ok f0 =>
      match setNorm sqrt f0 nrm with
      | .error e => .error e
      | .ok f1 =>
        match setValid sqrt atol f1 valid with
        | .error e => .error e
        | .ok f2 =>
          match vdimsSet nvdim vdims with
          | .error e => .error e
          | .ok vd =>
            match vmapSet nvdim vd m.region.dims vmap with
            | .error e => .error e
            | .ok vm => .ok { f2 with vdims := vd, vmap := vm }

/-- `Field.orientation` as the code writes it: `Field(mesh, nvdim=self.nvdim,
value=orientation_array, vdims=self.vdims, valid=self.valid, vdim_mapping=self.vdim_mapping)` -/
def orientation? (sqrt : Rat → Rat) (atol : Rat) (f : Fld) : M Fld :=
  mkFull? sqrt atol f.mesh f.nvdim (.arr ⟨f.mesh.n, fun i => orientCell sqrt atol (f.data.get i)⟩) none
    (.arr f.valid) f.vdims (some f.vmap) none

/-! ## Histories: what a program may do to a live field -/

/-- one statement of a program acting on a live field -/
inductive Step where
  | setNorm (s : Option NSpec)   -- `field.norm = s`
  | update (v : VSpec)           -- `field.update_field_values(v)`
  | setValid (s : ValidSpec)     -- `field.valid = s`

/-- one statement (this is what the driver runs for every step of a case) -/
def step (sqrt : Rat → Rat) (atol : Rat) (f : Fld) : Step → M Fld
  | .setNorm s => setNorm sqrt f s
  | .update v => updateValues f v
  | .setValid s => setValid sqrt atol f s

/-- a whole history; it ends at the first statement that raises -/
def run (sqrt : Rat → Rat) (atol : Rat) : Fld → List Step → M Fld
  | f, [] => .ok f
  | f, s :: rest =>
    match step sqrt atol f s with
    | .error e => .error e
    | .ok g => run sqrt atol g rest

/-! ## Polynomial callables for the driver -/

def ratPow (x : Rat) : Nat → Rat
  | 0 => 1
  | k + 1 => x * ratPow x k

/-- `Σ c · Π p_a ^ e_a` over the terms `(c, e)` -/
def polyEval (terms : List (Rat × List Nat)) (p : List Rat) : Rat :=
  terms.foldl (fun acc ce =>
    acc + ce.1 * (List.range ce.2.length).foldl (fun q a => q * ratPow (p.getD a 0) (ce.2.getD a 0)) 1) 0

end DFV.C15
