import DFV.Model.Field
/-!
C15 model: `Field.norm` (getter and setter), `Field.orientation`, the part of
`Field.__init__` that fixes the order values → norm → validity, `update_field_values`
and `valid="norm"` (discretisedfield/field.py).  Core Lean only.

The per-cell kernel is written over an arbitrary carrier `K` that only needs the
operations the code uses (`+ * / -`, `0`, comparisons), so that the same definitions are
the executable rational model (`K = Rat`, run by the driver) and the object of theorems
over any linearly ordered field (in particular `ℝ` with `Real.sqrt`, see
`Lemmas/C15Real.lean`).  `sqrt` is a *parameter* of every definition that needs it.
-/
namespace DFV.C15
open DFV

/-! ## Per-cell kernel (generic carrier) -/
section Kernel
variable {K : Type}

/-- `Σ_c v_c²` : what `np.linalg.norm(·, axis=-1)` puts under the root -/
def sqLen [Zero K] [Add K] [Mul K] : List K → K
  | [] => 0
  | x :: xs => x * x + sqLen xs

/-- `np.zeros_like` of one cell -/
def zeros [Zero K] (v : List K) : List K := v.map fun _ => 0

/-- `sqrt` is the non-negative square root at `x` (hypothesis carried by the theorems; the
executable `sqrtQ` satisfies it on rational squares, `Real.sqrt` on all of `ℝ≥0`) -/
def SqrtAt [Zero K] [Mul K] [LE K] (sqrt : K → K) (x : K) : Prop :=
  0 ≤ sqrt x ∧ sqrt x * sqrt x = x

/-- one cell of `np.linalg.norm(array, axis=-1, keepdims=True)` -/
def normCell [Zero K] [Add K] [Mul K] (sqrt : K → K) (v : List K) : K := sqrt (sqLen v)

/-- one cell of `np.divide(array, nrm, out=np.zeros_like(array), where=nrm != 0.0)` -/
def divWhere [Zero K] [Div K] [DecidableEq K] (v : List K) (nrm : K) : List K :=
  if nrm = 0 then zeros v else v.map fun x => x / nrm

/-- one cell of the norm setter: divide where the length is non-zero, then multiply by the
target `t` (`self.array *= _as_array(val, mesh, nvdim=1)`) -/
def setCell [Zero K] [Add K] [Mul K] [Div K] [DecidableEq K] (sqrt : K → K) (v : List K) (t : K) :
    List K :=
  (divWhere v (normCell sqrt v)).map fun x => x * t

def absK [Zero K] [Neg K] [LT K] [DecidableLT K] (x : K) : K := if x < 0 then -x else x

/-- `np.isclose(x, 0)` with the library defaults: `|x - 0| ≤ atol + rtol·|0|`, i.e.
`|x| ≤ atol` (`atol = 1e-8` in the code; a parameter here) -/
def closeZero [Zero K] [Neg K] [LT K] [LE K] [DecidableLT K] [DecidableLE K] (atol x : K) : Bool :=
  decide (absK x ≤ atol)

/-- one cell of `Field.orientation`:
`np.divide(array, nrm, where=~np.isclose(nrm, 0), out=zeros)` -/
def orientCell [Zero K] [Add K] [Mul K] [Div K] [Neg K] [LT K] [LE K] [DecidableLT K] [DecidableLE K]
    (sqrt : K → K) (atol : K) (v : List K) : List K :=
  if closeZero atol (normCell sqrt v) then zeros v else v.map fun x => x / normCell sqrt v

/-- scalar multiple of a cell vector -/
def smul [Mul K] (c : K) (v : List K) : List K := v.map fun x => c * x

end Kernel

/-! ## An executable square root on `Rat` (driver instantiation of the parameter)

Exact on rational squares (so on every vector with rational length, e.g. scaled
Pythagorean tuples); otherwise the floor of the root at 2^-96 relative resolution, used
only by the tolerance-regime comparator. -/

def sqrtQ (x : Rat) : Rat :=
  if x ≤ 0 then 0
  else if Nat.sqrt x.num.toNat * Nat.sqrt x.num.toNat = x.num.toNat ∧ Nat.sqrt x.den * Nat.sqrt x.den = x.den
    then (Nat.sqrt x.num.toNat : Rat) / (Nat.sqrt x.den : Rat)
  else (Nat.sqrt (x.num.toNat * x.den * 2 ^ 192) : Rat) / ((x.den : Rat) * 2 ^ 96)

/-- the library's `np.isclose` absolute tolerance as the exact binary64 number `1e-8` is
sent by the harness; this is the decimal value used in examples -/
def atolDefault : Rat := 1 / 100000000

/-! ## Specifications accepted by the setters -/

/-- what may be assigned to `field.norm` (or passed as `norm=`): number, array-like, callable -/
inductive NSpec where
  | const (c : Rat)
  | arr (a : NDA Rat)
  | fn (g : List Rat → Rat)

/-- NumPy broadcasting of shape `s` to shape `t` (right-aligned; a source axis is 1 or equal) -/
def bcastOk (s t : List Nat) : Bool :=
  decide (s.length ≤ t.length) &&
    allLt s.length fun k => s.getD k 0 == 1 || s.getD k 0 == t.getD (k + (t.length - s.length)) 0

def bcastIdx (s t : List Nat) (j : List Nat) : List Nat :=
  tab s.length fun k => if s.getD k 0 = 1 then 0 else j.getD (k + (t.length - s.length)) 0

/-- array-like branch of `Field._as_array(val, mesh, nvdim=1, dtype)`, with the trailing
component axis of length 1 dropped (result indexed by the cell multi-index): the
`(n,)`-shaped shortcut first, then the `shape[-1] != nvdim` check, then
`np.full((*mesh.n, 1), val)` (NumPy broadcasting). -/
def bcastArr {α : Type} (m : Mesh) (a : NDA α) : M (NDA α) :=
  if a.shape = m.n then .ok ⟨m.n, a.get⟩
  else if a.shape.getLast? ≠ some 1 then .error .value
  else if !bcastOk a.shape (m.n ++ [1]) then .error .value
  else .ok ⟨m.n, fun i => a.get (bcastIdx a.shape (m.n ++ [1]) (i ++ [0]))⟩

/-- `Field._as_array(val, mesh, nvdim=1, dtype)` for number / array-like / callable (the
callable is evaluated at every cell centre, `for index, point in zip(mesh.indices, mesh)`) -/
def asArray1 (m : Mesh) : NSpec → M (NDA Rat)
  | .const c => .ok ⟨m.n, fun _ => c⟩
  | .arr a => bcastArr m a
  | .fn g => .ok ⟨m.n, fun i => g (m.centre i)⟩

/-- value specifications of `update_field_values` used here (the full set is C02's) -/
inductive VSpec where
  | scalar (c : Rat)
  | vec (v : List Rat)
  | arr (a : NDA (List Rat))
  | fn (g : List Rat → List Rat)

/-- `Field._as_array(value, mesh, nvdim, dtype)` for the kinds above: a number is accepted
for `nvdim = 1` or when it is 0; a vector must have `nvdim` entries (for `nvdim = 1` on a 1-d mesh
a sequence as long as the mesh is taken per cell, as the code does); an array must have
shape `(*mesh.n, nvdim)`; a callable is evaluated at every cell centre and must return
`nvdim` numbers. -/
def valuesOf (m : Mesh) (nvdim : Nat) : VSpec → M (NDA (List Rat))
  | .scalar c =>
    if 1 < nvdim ∧ c ≠ 0 then .error .value else .ok ⟨m.n, fun _ => List.replicate nvdim c⟩
  | .vec v =>
    if nvdim = 1 ∧ m.n = [v.length] then .ok ⟨m.n, fun i => [v.getD (i.getD 0 0) 0]⟩  -- the `(n,)`-shaped shortcut
    else if v.length ≠ nvdim then .error .value
    else .ok ⟨m.n, fun _ => v⟩
  | .arr a =>
    if a.shape ≠ m.n then .error .value
    else if !(indicesC m.n).all (fun i => (a.get i).length == nvdim) then .error .value
    else .ok ⟨m.n, a.get⟩
  | .fn g =>
    if !(indicesC m.n).all (fun i => (g (m.centre i)).length == nvdim) then .error .value
    else .ok ⟨m.n, fun i => g (m.centre i)⟩

/-- what may be assigned to `field.valid` -/
inductive ValidSpec where
  | none
  | all (b : Bool)
  | arr (a : NDA Bool)
  | byNorm

/-! ## Field level -/

/-- `Field.norm` (getter): `Field(mesh, nvdim=1, value=np.linalg.norm(array, axis=-1,
keepdims=True), unit=self.unit, valid=self.valid)` -/
def norm (sqrt : Rat → Rat) (f : Fld) : Fld :=
  { mesh := f.mesh, nvdim := 1,
    data := ⟨f.mesh.n, fun i => [normCell sqrt (f.data.get i)]⟩,
    valid := ⟨f.mesh.n, f.valid.get⟩,
    vdims := none, vmap := [], unit := f.unit }

/-- `Field.norm = val` (setter).  `none` leaves the field alone.  The array is first divided
by the norm where that is non-zero, then multiplied by `_as_array(val, mesh, nvdim=1)`. -/
def setNorm (sqrt : Rat → Rat) (f : Fld) : Option NSpec → M Fld
  | none => .ok f
  | some s =>
    match asArray1 f.mesh s with
    | .error e => .error e
    | .ok t => .ok { f with data := ⟨f.mesh.n, fun i => setCell sqrt (f.data.get i) (t.get i)⟩ }

/-- `Field.orientation`: unit vectors where the norm is not close to zero, zero elsewhere;
keeps mesh, labels, mapping and validity, drops the unit -/
def orientation (sqrt : Rat → Rat) (atol : Rat) (f : Fld) : Fld :=
  { f with data := ⟨f.mesh.n, fun i => orientCell sqrt atol (f.data.get i)⟩,
           valid := ⟨f.mesh.n, f.valid.get⟩, unit := none }

/-- `Field.valid = spec` (setter): `"norm"` masks the cells whose norm is close to zero -/
def validOf (sqrt : Rat → Rat) (atol : Rat) (f : Fld) : ValidSpec → M (NDA Bool)
  | .none => .ok ⟨f.mesh.n, fun _ => true⟩
  | .all b => .ok ⟨f.mesh.n, fun _ => b⟩
  | .arr a => bcastArr f.mesh a
  | .byNorm => .ok ⟨f.mesh.n, fun i => !closeZero atol (normCell sqrt (f.data.get i))⟩

def setValid (sqrt : Rat → Rat) (atol : Rat) (f : Fld) (s : ValidSpec) : M Fld :=
  match validOf sqrt atol f s with
  | .error e => .error e
  | .ok v => .ok { f with valid := v }

/-- `Field.update_field_values(value)`: replaces the array, nothing else -/
def updateValues (f : Fld) (s : VSpec) : M Fld :=
  match valuesOf f.mesh f.nvdim s with
  | .error e => .error e
  | .ok a => .ok { f with data := a }

def defaultVmap (nvdim : Nat) (dims : List String) : List (String × String) :=
  if nvdim = 1 then []
  else if nvdim = dims.length then
    match Fld.defaultVdims nvdim with
    | some vs => vs.zip dims
    | none => []
  else []

/-- `Field.__init__` (default labels and mapping): `nvdim` check; `valid = True`; values;
**then** norm; **then** validity. -/
def mk? (sqrt : Rat → Rat) (atol : Rat) (m : Mesh) (nvdim : Nat) (value : VSpec)
    (nrm : Option NSpec) (valid : ValidSpec) (unit : Option String) : M Fld :=
  if nvdim < 1 then .error .value
  else
    match updateValues { mesh := m, nvdim := nvdim, data := ⟨m.n, fun _ => []⟩,
                          valid := ⟨m.n, fun _ => true⟩, vdims := none, vmap := [], unit := unit } value with
    | .error e => .error e
    | .ok f0 =>
      match setNorm sqrt f0 nrm with
      | .error e => .error e
      | .ok f1 =>
        match setValid sqrt atol f1 valid with
        | .error e => .error e
        | .ok f2 => .ok { f2 with vdims := Fld.defaultVdims nvdim,
                                  vmap := defaultVmap nvdim m.region.dims }

/-! ## Polynomial callables for the driver -/

def ratPow (x : Rat) : Nat → Rat
  | 0 => 1
  | k + 1 => x * ratPow x k

/-- `Σ c · Π p_a ^ e_a` over the terms `(c, e)` -/
def polyEval (terms : List (Rat × List Nat)) (p : List Rat) : Rat :=
  terms.foldl (fun acc ce =>
    acc + ce.1 * (List.range ce.2.length).foldl (fun q a => q * ratPow (p.getD a 0) (ce.2.getD a 0)) 1) 0

end DFV.C15
