import DFV.Model.Transform
/-!
C14 model: plane / range selection of a mesh with its subregions (`Mesh.sel`), extraction
of the mesh of a named subregion (`Mesh.__getitem__(str)`).  The subregion setter and
`is_aligned` live in `Transform.lean`.  Core Lean only.
-/
namespace DFV.C14
open DFV DFV.T

/-- `_sel_convert_input` for one coordinate: exact range test, then the cell containing the
test point: (centre coordinate, index) -/
def selConvert (m : Mesh) (ax : Nat) (x : Rat) : M (Rat × Nat) :=
  if x < m.region.lo ax ∨ m.region.hi ax < x then .error .value
  else .ok (m.centreAx ax (m.indexAx ax x : Nat), m.indexAx ax x)

def dropAx (r : Region) (ax : Nat) : List Rat × List Rat := (removeAt r.pmin ax, removeAt r.pmax ax)

/-- plane selection: axis `ax` removed at the cell containing `x` (the cell containing the
region centre if `x` is none); keeps the subregions whose closed extent along `ax`
contains that cell centre, with the axis removed -/
def selPlane (m : Mesh) (ax : Nat) (x : Option Rat) : M Mesh :=
  if m.ndim ≤ ax then .error .value
  else
    match selConvert m ax (x.getD (m.region.center.getD ax 0)) with
    | .error e => .error e
    | .ok (c, _) =>
      match Region.mk? (removeAt m.region.pmin ax) (removeAt m.region.pmax ax)
              (some (removeAt m.region.dims ax)) (some (removeAt m.region.units ax)) m.region.tol with
      | .error e => .error e
      | .ok r' =>
        match Mesh.mkCell? r' (removeAt m.cell ax) with
        | .error e => .error e
        | .ok m' =>
          setSubs m' ((m.subs.filter fun p => !(decide (p.2.hi ax < c) || decide (c < p.2.lo ax))).map fun p =>
            (p.1, { p.2 with pmin := removeAt p.2.pmin ax, pmax := removeAt p.2.pmax ax,
                             dims := removeAt p.2.dims ax, units := removeAt p.2.units ax }))

/-- range selection: keeps the cells from the one containing the lower bound to the one
containing the upper bound; subregions overlapping the slab by more than half a cell (they
consist of whole cells) are clipped to the slab -/
def selRange (m : Mesh) (ax : Nat) (a b : Rat) : M Mesh :=
  if m.ndim ≤ ax then .error .value
  else
    match selConvert m ax (min a b), selConvert m ax (max a b) with
    | .error e, _ => .error e
    | _, .error e => .error e
    | .ok (c0, _), .ok (c1, _) =>
      match Region.mk? (setAt m.region.pmin ax (c0 - m.cellAt ax / 2)) (setAt m.region.pmax ax (c1 + m.cellAt ax / 2))
              (some m.region.dims) (some m.region.units) m.region.tol with
      | .error e => .error e
      | .ok r' =>
        match Mesh.mkCell? r' m.cell with
        | .error e => .error e
        | .ok m' =>
          setSubs m' ((m.subs.filter fun p =>
              !(decide (c1 + m.cellAt ax / 2 - m.cellAt ax / 2 ≤ p.2.lo ax) ||
                decide (p.2.hi ax - m.cellAt ax / 2 ≤ c0 - m.cellAt ax / 2))).map fun p =>
            (p.1, { p.2 with pmin := setAt p.2.pmin ax (max (c0 - m.cellAt ax / 2) (p.2.lo ax)),
                             pmax := setAt p.2.pmax ax (min (c1 + m.cellAt ax / 2) (p.2.hi ax)) }))

/-- `mesh[name]` -/
def getName (m : Mesh) (name : String) : M Mesh :=
  match m.subs.find? fun p => p.1 == name with
  | none => .error .key
  | some p => Mesh.mkCell? p.2 m.cell

/-! ## the subregion invariant (exact-arithmetic reading of the setter's three tests) -/

/-- The geometry of a box `s` fits the mesh `m` exactly: one coordinate per direction, and on
every axis it sits a whole number `z ≥ 0` of cells into the region and is a whole number
`w ≥ 1` of cells long, ending inside (`z + w ≤ n`).  This is the tolerance-0 reading of the
three tests of `subOk` (inside, whole cells, on the lattice). -/
def FitsE (m : Mesh) (s : Region) : Prop :=
  s.pmin.length = m.ndim ∧ s.pmax.length = m.ndim ∧
  ∀ a, a < m.ndim → ∃ z w : Int, 0 ≤ z ∧ 0 < w ∧ z + w ≤ (m.nAt a : Int) ∧
    s.lo a - m.region.lo a = (z : Rat) * m.cellAt a ∧ s.hi a - s.lo a = (w : Rat) * m.cellAt a

/-- A held subregion fits exactly: geometry as `FitsE`, and it carries the mesh's dimension
names, units and tolerance factor (the setter re-creates it with them). -/
def SubOkE (m : Mesh) (s : Region) : Prop :=
  s.dims = m.region.dims ∧ s.units = m.region.units ∧ s.tol = m.region.tol ∧ FitsE m s

/-- every subregion held by the mesh fits it exactly -/
def SubInv (m : Mesh) : Prop := ∀ p ∈ m.subs, SubOkE m p.2

/-! ## persistence: the JSON side-car of `Mesh.save_subregions` / `Mesh.load_subregions`

`save_subregions` dumps `{name: region.to_dict()}`; `load_subregions` parses the file, builds
`Region(**val)` for every entry (the keyword path of the constructor: `pmin < pmax` on every axis,
then the ordinary constructor) and assigns the dictionary through the `subregions` setter.  The
text layer (`json.dump` / `json.load`, `repr` of binary64) is trusted; the model starts at the
JSON value tree. -/

/-- JSON values, as far as the side-car needs them -/
inductive JV where
  | num (q : Rat)
  | str (s : String)
  | arr (xs : List JV)
  | obj (kvs : List (String × JV))

/-- `Region.to_dict()` under `Region._JSONEncoder` -/
def regionToJV (r : Region) : JV :=
  .obj [("pmin", .arr (r.pmin.map .num)), ("pmax", .arr (r.pmax.map .num)),
        ("dims", .arr (r.dims.map .str)), ("units", .arr (r.units.map .str)),
        ("tolerance_factor", .num r.tol)]

/-- `Mesh.save_subregions`: the value tree written to `<file>.subregions.json` -/
def saveSubs (m : Mesh) : JV := .obj (m.subs.map fun p => (p.1, regionToJV p.2))

def numOf : JV → M Rat
  | .num q => .ok q
  | _ => .error .type

def strOf : JV → M String
  | .str s => .ok s
  | _ => .error .type

def numsOf : JV → M (List Rat)
  | .arr xs => xs.mapM numOf
  | _ => .error .type

def strsOf : JV → M (List String)
  | .arr xs => xs.mapM strOf
  | _ => .error .type

def lookupJV (kvs : List (String × JV)) (k : String) : Option JV := (kvs.find? fun p => p.1 == k).map (·.2)

/-- optional keyword argument: absent = default -/
def optStrs : Option JV → M (Option (List String))
  | none => .ok none
  | some j => match strsOf j with
    | .ok l => .ok (some l)
    | .error e => .error e

def optTol : Option JV → M Rat
  | none => .ok (1/1000000000000)
  | some j => numOf j

/-- `Region(**val)`: the `pmin`/`pmax` keyword path (element-wise `pmin < pmax`), then the
ordinary constructor -/
def regionOfJV : JV → M Region
  | .obj kvs =>
    match lookupJV kvs "pmin", lookupJV kvs "pmax" with
    | some j1, some j2 =>
      match numsOf j1, numsOf j2, optStrs (lookupJV kvs "dims"), optStrs (lookupJV kvs "units"),
            optTol (lookupJV kvs "tolerance_factor") with
      | .ok p1, .ok p2, .ok d, .ok u, .ok t =>
        if p1.length ≠ p2.length then .error .value
        else if !allLt p1.length (fun a => decide (p1.getD a 0 < p2.getD a 0)) then .error .value
        else Region.mk? p1 p2 d u t
      | .error e, _, _, _, _ => .error e
      | _, .error e, _, _, _ => .error e
      | _, _, .error e, _, _ => .error e
      | _, _, _, .error e, _ => .error e
      | _, _, _, _, .error e => .error e
    | _, _ => .error .type
  | _ => .error .type

/-- the dictionary `{key: Region(**val)}` built by `load_subregions` -/
def subsOfJV : JV → M (List (String × Region))
  | .obj kvs => kvs.mapM fun kv => match regionOfJV kv.2 with
    | .ok r => .ok (kv.1, r)
    | .error e => .error e
  | _ => .error .type

/-- `Mesh.load_subregions`: parse, build the regions, assign through the setter -/
def loadSubs (m : Mesh) (j : JV) : M Mesh :=
  match subsOfJV j with
  | .ok subs => setSubs m subs
  | .error e => .error e

end DFV.C14
