import DFV.Model.Transform
/-!
C14 model: plane / range selection of a mesh with its subregions (`Mesh.sel`), extraction
of the mesh of a named subregion (`Mesh.__getitem__(str)`).  The subregion setter and
`is_aligned` live in `Transform.lean`.  Core Lean only.
-/
namespace DFV.C14
open DFV DFV.T

/-- `_sel_convert_input` for one coordinate: exact range test, then the cell containing the
test point: (centre coordinate, index) -/
def selConvert (m : Mesh) (ax : Nat) (x : Rat) : M (Rat × Nat) :=
  if x < m.region.lo ax ∨ m.region.hi ax < x then .error .value
  else .ok (m.centreAx ax (m.indexAx ax x : Nat), m.indexAx ax x)

def dropAx (r : Region) (ax : Nat) : List Rat × List Rat := (removeAt r.pmin ax, removeAt r.pmax ax)

/-- plane selection: axis `ax` removed at the cell containing `x` (the cell containing the
region centre if `x` is none); keeps the subregions whose closed extent along `ax`
contains that cell centre, with the axis removed -/
def selPlane (m : Mesh) (ax : Nat) (x : Option Rat) : M Mesh :=
  if m.ndim ≤ ax then .error .value
  else
    match selConvert m ax (x.getD (m.region.center.getD ax 0)) with
    | .error e => .error e
    | .ok (c, _) =>
      match Region.mk? (removeAt m.region.pmin ax) (removeAt m.region.pmax ax)
              (some (removeAt m.region.dims ax)) (some (removeAt m.region.units ax)) m.region.tol with
      | .error e => .error e
      | .ok r' =>
        match Mesh.mkCell? r' (removeAt m.cell ax) with
        | .error e => .error e
        | .ok m' =>
          setSubs m' ((m.subs.filter fun p => !(decide (p.2.hi ax < c) || decide (c < p.2.lo ax))).map fun p =>
            (p.1, { p.2 with pmin := removeAt p.2.pmin ax, pmax := removeAt p.2.pmax ax,
                             dims := removeAt p.2.dims ax, units := removeAt p.2.units ax }))

/-- range selection: keeps the cells from the one containing the lower bound to the one
containing the upper bound; subregions overlapping the slab by more than half a cell (they
consist of whole cells) are clipped to the slab -/
def selRange (m : Mesh) (ax : Nat) (a b : Rat) : M Mesh :=
  if m.ndim ≤ ax then .error .value
  else
    match selConvert m ax (min a b), selConvert m ax (max a b) with
    | .error e, _ => .error e
    | _, .error e => .error e
    | .ok (c0, _), .ok (c1, _) =>
      match Region.mk? (setAt m.region.pmin ax (c0 - m.cellAt ax / 2)) (setAt m.region.pmax ax (c1 + m.cellAt ax / 2))
              (some m.region.dims) (some m.region.units) m.region.tol with
      | .error e => .error e
      | .ok r' =>
        match Mesh.mkCell? r' m.cell with
        | .error e => .error e
        | .ok m' =>
          setSubs m' ((m.subs.filter fun p =>
              !(decide (c1 + m.cellAt ax / 2 - m.cellAt ax / 2 ≤ p.2.lo ax) ||
                decide (p.2.hi ax - m.cellAt ax / 2 ≤ c0 - m.cellAt ax / 2))).map fun p =>
            (p.1, { p.2 with pmin := setAt p.2.pmin ax (max (c0 - m.cellAt ax / 2) (p.2.lo ax)),
                             pmax := setAt p.2.pmax ax (min (c1 + m.cellAt ax / 2) (p.2.hi ax)) }))

/-- `mesh[name]` -/
def getName (m : Mesh) (name : String) : M Mesh :=
  match m.subs.find? fun p => p.1 == name with
  | none => .error .key
  | some p => Mesh.mkCell? p.2 m.cell

/-! ## the subregion invariant (exact-arithmetic reading of the setter's three tests) -/

/-- The geometry of a box `s` fits the mesh `m` exactly: one coordinate per direction, and on
every axis it sits a whole number `z ≥ 0` of cells into the region and is a whole number
`w ≥ 1` of cells long, ending inside (`z + w ≤ n`).  This is the tolerance-0 reading of the
three tests of `subOk` (inside, whole cells, on the lattice). -/
def FitsE (m : Mesh) (s : Region) : Prop :=
  s.pmin.length = m.ndim ∧ s.pmax.length = m.ndim ∧
  ∀ a, a < m.ndim → ∃ z w : Int, 0 ≤ z ∧ 0 < w ∧ z + w ≤ (m.nAt a : Int) ∧
    s.lo a - m.region.lo a = (z : Rat) * m.cellAt a ∧ s.hi a - s.lo a = (w : Rat) * m.cellAt a

/-- A held subregion fits exactly: geometry as `FitsE`, and it carries the mesh's dimension
names, units and tolerance factor (the setter re-creates it with them). -/
def SubOkE (m : Mesh) (s : Region) : Prop :=
  s.dims = m.region.dims ∧ s.units = m.region.units ∧ s.tol = m.region.tol ∧ FitsE m s

/-- every subregion held by the mesh fits it exactly -/
def SubInv (m : Mesh) : Prop := ∀ p ∈ m.subs, SubOkE m p.2

end DFV.C14
