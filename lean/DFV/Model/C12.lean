import DFV.Model.Transform
/-!
C12 model addendum (specification-level definitions; the executable model of the rotations is in
`Transform.lean`): the value part of the field invariant, and what it means for a mesh to be
periodic along a named axis.  Core Lean only.
-/
namespace DFV.T
open DFV

/-- the value part of the field invariant (`Field.__init__` / the `vdims` and `vdim_mapping`
setters): every cell value has `nvdim` components, the component labels — when present — are
`nvdim` names, and the component-to-axis mapping is a dictionary (its keys, the component labels,
are unique) -/
def FldVInv (f : Fld) : Prop :=
  (∀ j, inRange f.mesh.n j = true → (f.data.get j).length = f.nvdim) ∧
  (∀ vs, f.vdims = some vs → vs.length = f.nvdim) ∧ (f.vmap.map (·.1)).Nodup

/-- the mesh is periodic along the axis named `d`: `bc` is a periodic condition (not one of the
words `neumann` / `dirichlet`, not empty) and names `d` — which only a single-character name can be -/
def PeriodicAlong (m : Mesh) (d : String) : Prop :=
  ¬ (m.bc = "" ∨ m.bc = "neumann" ∨ m.bc = "dirichlet") ∧ ∃ c, d.toList = [c] ∧ c ∈ m.bc.toList

end DFV.T
