import DFV.Model.C06
import DFV.Model.Transform
/-!
C06 histories: ONE mesh object is transformed IN PLACE between evaluations of
`integrate` / `mean` / `dV` (`mesh.scale`, `mesh.region.scale`, `mesh.translate`,
`mesh.region.translate`, all with `inplace=True`).  The in-place steps are the shared model of
`DFV/Model/Transform.lean` (`T.stepM`, `T.scaleR`, `T.translateR`); a field keeps referring to
the same mesh object, so after a step it is the same data on the changed mesh.  `Mesh.cell`,
`Mesh.dV` are properties computed from the current corners, never stored.  Core Lean only.
-/
namespace DFV.C06
open DFV DFV.T

/-- one in-place step applied to the mesh object (or only to its region object) -/
inductive HStep where
  | scaleMesh (f : Factor) (ref : Option (List Rat))
  | scaleRegion (f : Factor) (ref : Option (List Rat))
  | translateMesh (v : List Rat)
  | translateRegion (v : List Rat)
  deriving Repr

/-- the mesh object after the step (`inplace=True`); `mesh.region.scale/translate` change the
region object the mesh holds and leave the subregion objects alone -/
def hstepM (m : Mesh) : HStep → M Mesh
  | .scaleMesh f ref =>
    match stepM m (.scale f ref true) with
    | .error e => .error e
    | .ok (m', _) => .ok m'
  | .scaleRegion f ref =>
    match scaleR m.region f ref true with
    | .error e => .error e
    | .ok (r', _) => .ok { m with region := r' }
  | .translateMesh v =>
    match stepM m (.translate v true) with
    | .error e => .error e
    | .ok (m', _) => .ok m'
  | .translateRegion v =>
    match translateR m.region v true with
    | .error e => .error e
    | .ok (r', _) => .ok { m with region := r' }

/-- the field after the step: same arrays, the mesh object it refers to has changed; a
rejected step leaves everything as it was -/
def hstep (f : Fld) (s : HStep) : Fld :=
  match hstepM f.mesh s with
  | .ok m' => { f with mesh := m' }
  | .error _ => f

/-- the field after a whole history of in-place steps -/
def runH (f : Fld) : List HStep → Fld
  | [] => f
  | s :: rest => runH (hstep f s) rest

/-- all states of the field along a history (before the first step, after each step) -/
def statesH (f : Fld) : List HStep → List Fld
  | [] => [f]
  | s :: rest => f :: statesH (hstep f s) rest

/-- factor by which the step multiplies the cell length of axis `a` -/
def stepFac (s : HStep) (a : Nat) : Rat :=
  match s with
  | .scaleMesh f _ => absR (f.at a)
  | .scaleRegion f _ => absR (f.at a)
  | _ => 1

/-- factor by which a history multiplies the cell length of axis `a` (rejected steps do not
count) -/
def histFac (m : Mesh) (a : Nat) : List HStep → Rat
  | [] => 1
  | s :: rest =>
    match hstepM m s with
    | .ok m' => stepFac s a * histFac m' a rest
    | .error _ => histFac m a rest

/-- factor by which a history multiplies the cell volume -/
def histVol (m : Mesh) (steps : List HStep) : Rat := ratProd (tab m.ndim fun a => histFac m a steps)

end DFV.C06
