import DFV.Model.C06
import DFV.Model.Transform
/-!
C06 histories: ONE mesh object is transformed IN PLACE between evaluations of
`integrate` / `mean` / `dV` (`mesh.scale`, `mesh.region.scale`, `mesh.translate`,
`mesh.region.translate`, all with `inplace=True`).  The in-place steps are the shared model of
`DFV/Model/Transform.lean` (`T.stepM`, `T.scaleR`, `T.translateR`); a field keeps referring to
the same mesh object, so after a step it is the same data on the changed mesh.  `Mesh.cell`,
`Mesh.dV` are properties computed from the current corners, never stored.  Core Lean only.
-/
namespace DFV.C06
open DFV DFV.T

/-- one in-place step applied to the mesh object (or only to its region object) -/
inductive HStep where
  | scaleMesh (f : Factor) (ref : Option (List Rat))
  | scaleRegion (f : Factor) (ref : Option (List Rat))
  | translateMesh (v : List Rat)
  | translateRegion (v : List Rat)
  deriving Repr

/-- the mesh object after the step (`inplace=True`); `mesh.region.scale/translate` change the
region object the mesh holds and leave the subregion objects alone -/
def hstepM (m : Mesh) : HStep → M Mesh
  | .scaleMesh f ref =>
    match stepM m (.scale f ref true) with
    | .error e => .error e
    | .ok (m', _) => .ok m'
  | .scaleRegion f ref =>
    match scaleR m.region f ref true with
    | .error e => .error e
    | .ok (r', _) => .ok { m with region := r' }
  | .translateMesh v =>
    match stepM m (.translate v true) with
    | .error e => .error e
    | .ok (m', _) => .ok m'
  | .translateRegion v =>
    match translateR m.region v true with
    | .error e => .error e
    | .ok (r', _) => .ok { m with region := r' }

/-- the field after the step: same arrays, the mesh object it refers to has changed; a
rejected step leaves everything as it was -/
def hstep (f : Fld) (s : HStep) : Fld :=
  match hstepM f.mesh s with
  | .ok m' => { f with mesh := m' }
  | .error _ => f

/-- the field after a whole history of in-place steps -/
def runH (f : Fld) : List HStep → Fld
  | [] => f
  | s :: rest => runH (hstep f s) rest

/-- all states of the field along a history (before the first step, after each step) -/
def statesH (f : Fld) : List HStep → List Fld
  | [] => [f]
  | s :: rest => f :: statesH (hstep f s) rest

/-- factor by which the step multiplies the cell length of axis `a` -/
def stepFac (s : HStep) (a : Nat) : Rat :=
  match s with
  | .scaleMesh f _ => absR (f.at a)
  | .scaleRegion f _ => absR (f.at a)
  | _ => 1

/-- factor by which a history multiplies the cell length of axis `a` (rejected steps do not
count) -/
def histFac (m : Mesh) (a : Nat) : List HStep → Rat
  | [] => 1
  | s :: rest =>
    match hstepM m s with
    | .ok m' => stepFac s a * histFac m' a rest
    | .error _ => histFac m a rest

/-- factor by which a history multiplies the cell volume -/
def histVol (m : Mesh) (steps : List HStep) : Rat := ratProd (tab m.ndim fun a => histFac m a steps)

/-! ## histories with quarter turns

`Field.rotate90(ax1, ax2, k, reference_point, inplace=True)` between evaluations: the shared exact
model `T.rotate90F` (cells permuted by `np.rot90`, counts / edges / units of the two axes traded
for odd `k`, the two mapped components turned by the exact quarter-turn matrix; the field gets
the turned mesh as a new object). -/

/-- every cell value carries `nvdim` components (what the value setter guarantees; part of C12's
value invariant `FldVInv`) -/
def CellLen (f : Fld) : Prop := ∀ t, inRange f.data.shape t = true → (f.data.get t).length = f.nvdim

/-- the sum of component `c` over all cells (spec layer) -/
def csum (f : Fld) (c : Nat) : Rat := nestSum f.data.shape fun t => cget f.data t c

/-- one in-place step of a field's history: a step on its mesh / region object, or a quarter
turn of the field itself -/
inductive FStep where
  | mesh (s : HStep)
  | rot (a1 a2 : String) (k : Int) (ref : Option (List Rat))
  deriving Repr

/-- the field after the step; a rejected step leaves everything as it was -/
def fstep (f : Fld) : FStep → Fld
  | .mesh s => hstep f s
  | .rot a1 a2 k ref =>
    match rotate90F f a1 a2 k ref true with
    | .ok (recv, _) => recv
    | .error _ => f

/-- the field after a whole history -/
def runFS (f : Fld) : List FStep → Fld
  | [] => f
  | s :: rest => runFS (fstep f s) rest

/-- all states of the field along a history (before the first step, after each step) -/
def statesFS (f : Fld) : List FStep → List Fld
  | [] => [f]
  | s :: rest => f :: statesFS (fstep f s) rest

/-- what a quarter turn does to a list of per-component totals of the field: the two mapped
components of a vector field are turned by the quarter-turn matrix, a scalar field's value stays -/
def turnVals (f : Fld) (a1 a2 : String) (k : Int) (v : List Rat) : List Rat :=
  if f.nvdim > 1 then
    match (f.rDim a1).bind f.vdimIndex, (f.rDim a2).bind f.vdimIndex with
    | some c1, some c2 => rotVec v c1 c2 k
    | _, _ => v
  else v

/-- factor by which one step multiplies the cell volume (a quarter turn: 1) -/
def fstepVol (f : Fld) : FStep → Rat
  | .mesh s => histVol f.mesh [s]
  | .rot _ _ _ _ => 1

/-- factor by which a history multiplies the cell volume -/
def fhistVol (f : Fld) : List FStep → Rat
  | [] => 1
  | s :: rest => fstepVol f s * fhistVol (fstep f s) rest

/-- what one step does to a list of per-component totals (only an accepted quarter turn of a
vector field changes it) -/
def fstepTurn (f : Fld) (s : FStep) (v : List Rat) : List Rat :=
  match s with
  | .mesh _ => v
  | .rot a1 a2 k ref =>
    match rotate90F f a1 a2 k ref true with
    | .ok _ => turnVals f a1 a2 k v
    | .error _ => v

/-- … and a whole history -/
def fhistTurn (f : Fld) : List FStep → List Rat → List Rat
  | [], v => v
  | s :: rest, v => fhistTurn (fstep f s) rest (fstepTurn f s v)

end DFV.C06
