import DFV.Model.Transform
/-!
C13 model addendum: following a history of transformation calls on a field (the region and mesh
versions `runR`, `runM` live in `Transform.lean`).  Core Lean only.
-/
namespace DFV.T
open DFV

/-- follow a history on a field: the "current object" is the returned one; a rejected step is skipped -/
def runF (f : Fld) : List Op → Fld
  | [] => f
  | op :: ops =>
    match stepF f op with
    | .ok (_, ret) => runF ret ops
    | .error _ => runF f ops

end DFV.T
