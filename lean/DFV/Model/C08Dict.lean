import DFV.Model.C08
import DFV.Model.C07
/-!
C08 model addendum: `field.valid = {subregion name: value, …, "default": …}` at FIELD level —
the dictionary branch of `Field._as_array` (`field.py`, `@_as_array.register(dict)`) as the
validity setter calls it (`nvdim=1`, `dtype=bool`).  The subregions are those of the field's mesh,
`mesh[name]` and `mesh.region2slices(...)` are the C07 model's (`C07.getName`,
`C07.region2slices`); the mask-level painting loop is `C08.setMaskDict`.  Imports only the model.
-/
namespace DFV.C08
open DFV

/-- what the dictionary holds under a subregion name, as `_as_array` dispatches on it -/
inductive DVal where
  /-- a number: `np.full` on the subregion -/
  | const (v : Rat)
  /-- an array / nested list: the shape of `mesh[name]`, or broadcastable with a trailing axis 1 -/
  | arr (a : NDA Rat)
  /-- a callable, asked at the cell centres of `mesh[name]` -/
  | func (g : List Rat → Bool)
  /-- `None`, a string, any unsupported object -/
  | bad

/-- the `"default"` entry -/
inductive DDef where
  | none
  | const (v : Rat)
  | func (g : List Rat → Bool)

/-- value under a key as a setter argument on the sub-mesh `sm = mesh[name]` -/
def dvalSpec (sm : Mesh) : DVal → MSpec
  | .const v => .const v
  | .arr a => .arr a
  | .func g => .cells fun j => g (sm.centre j)
  | .bad => .bad

def dictLookup (val : List (String × DVal)) (name : String) : Option DVal :=
  (val.find? fun p => p.1 == name).map (·.2)

/-- one round of `for subregion in …: submesh = mesh[subregion]; subval = val[subregion]` (a missing
key: `continue`); `slices = mesh.region2slices(submesh.region)` -/
def dictEntry (m : Mesh) (val : List (String × DVal)) (name : String) : M DEntry :=
  match dictLookup val name with
  | none => .ok { lo := [], hi := [], val := none }
  | some v =>
    match C07.getName m name with
    | .error e => .error e
    | .ok sm =>
      match C07.region2slices m sm.region with
      | .error e => .error e
      | .ok sl => .ok { lo := sl.map (·.1), hi := sl.map (·.2), val := some (dvalSpec sm v) }

/-- all subregions of the mesh, in the order of `mesh.subregions` -/
def dictEntries (m : Mesh) (val : List (String × DVal)) : List (String × Region) → M (List DEntry)
  | [] => .ok []
  | p :: rest =>
    match dictEntry m val p.1 with
    | .error e => .error e
    | .ok e =>
      match dictEntries m val rest with
      | .error er => .error er
      | .ok es => .ok (e :: es)

def ddefSpec (m : Mesh) : DDef → DDefault
  | .none => .none
  | .const v => .const v
  | .func g => .func fun j => g (m.centre j)

/-- `field.valid = {…}` -/
def setValidDict (f : Fld) (dflt : DDef) (val : List (String × DVal)) : M Fld :=
  match dictEntries f.mesh val f.mesh.subs with
  | .error e => .error e
  | .ok es =>
    match setMaskDict f.mesh.n { dflt := ddefSpec f.mesh dflt, subs := es } with
    | .error e => .error e
    | .ok m => .ok { f with valid := m }

end DFV.C08
