import DFV.Model.Basic
/-!
n-dimensional arrays as `shape` + total index function, and the field record.
NumPy operations the library calls are modelled as index maps on `NDA`.
No import outside core Lean.
-/
namespace DFV

/-- n-dimensional array: shape and a total index function (values outside the shape are
irrelevant).  C order (last index fastest) is the canonical flattening, as in NumPy. -/
structure NDA (α : Type) where
  shape : List Nat
  get : List Nat → α

namespace NDA
variable {α β γ : Type}

def size (a : NDA α) : Nat := natProd a.shape

/-- flatten in C order -/
def toList (a : NDA α) : List α := (indicesC a.shape).map a.get

/-- array backed by a flat C-order buffer -/
def ofArray (shape : List Nat) (buf : Array α) (d : α) : NDA α :=
  ⟨shape, fun i => buf.getD (flatC shape i) d⟩

def ofList (shape : List Nat) (xs : List α) (d : α) : NDA α := ofArray shape xs.toArray d

/-- evaluate every entry once and store it (driver efficiency only; semantically `id` on
in-range indices, see `Lemmas/NDA.lean`) -/
def force (a : NDA α) (d : α) : NDA α := ofList a.shape a.toList d

def const (shape : List Nat) (v : α) : NDA α := ⟨shape, fun _ => v⟩
def map (f : α → β) (a : NDA α) : NDA β := ⟨a.shape, fun i => f (a.get i)⟩
def zipWith (f : α → β → γ) (a : NDA α) (b : NDA β) : NDA γ := ⟨a.shape, fun i => f (a.get i) (b.get i)⟩

/-- the 1-d line through multi-index `i` along axis `ax` -/
def line (a : NDA α) (ax : Nat) (i : List Nat) (j : Nat) : α := a.get (setAt i ax j)

/-- `a[..., lo:hi, ...]` along axis `ax` -/
def slice (a : NDA α) (ax lo hi : Nat) : NDA α :=
  ⟨setAt a.shape ax (hi - lo), fun i => a.get (setAt i ax (i.getD ax 0 + lo))⟩

/-- `a.take(k, axis=ax)`: remove axis `ax` at position `k` -/
def take (a : NDA α) (ax k : Nat) : NDA α :=
  ⟨removeAt a.shape ax, fun i => a.get (i.take ax ++ k :: i.drop ax)⟩

/-- `np.transpose(a, perm)` : result axis `r` is source axis `perm[r]` -/
def transpose (a : NDA α) (perm : List Nat) : NDA α :=
  ⟨perm.map fun p => a.shape.getD p 0,
   fun i => a.get (tab a.shape.length fun s => i.getD ((indexOfNat perm s).getD 0) 0)⟩
where
  indexOfNat (xs : List Nat) (x : Nat) : Option Nat :=
    (List.range xs.length).find? fun k => xs.getD k 0 == x

/-- `np.flip(a, axis=ax)` -/
def flip (a : NDA α) (ax : Nat) : NDA α :=
  ⟨a.shape, fun i => a.get (setAt i ax (a.shape.getD ax 0 - 1 - i.getD ax 0))⟩

/-- swap two axes -/
def swapaxes (a : NDA α) (p q : Nat) : NDA α :=
  ⟨swapAt a.shape p q, fun i => a.get (swapAt i p q)⟩

def allB (a : NDA Bool) : Bool := a.toList.all id

end NDA

/-- field record (`discretisedfield.Field` state) -/
structure Fld where
  mesh : Mesh
  nvdim : Nat
  data : NDA (List Rat)
  valid : NDA Bool
  vdims : Option (List String)
  vmap : List (String × String)
  unit : Option String

namespace Fld

def defaultVdims (nvdim : Nat) : Option (List String) :=
  if nvdim = 1 then none
  else if nvdim ≤ 3 then some (["x", "y", "z"].take nvdim)
  else some ((List.range nvdim).map fun i => s!"v{i}")

/-- component `c` as array of rationals -/
def comp (f : Fld) (c : Nat) : NDA Rat := f.data.map fun v => v.getD c 0

def lookup (m : List (String × String)) (k : String) : Option String :=
  (m.find? fun p => p.1 == k).map (·.2)

/-- reversed mapping: spatial dim ↦ component label (`Field._r_dim_mapping`): the dict comprehension
`{val: key for key, val in vdim_mapping.items()}` keeps the LAST key mapped to `dim` -/
def rDim (f : Fld) (dim : String) : Option String :=
  (f.vmap.reverse.find? fun p => p.2 == dim).map (·.1)

def vdimIndex (f : Fld) (label : String) : Option Nat :=
  match f.vdims with
  | none => none
  | some vs => indexOf? vs label

end Fld

end DFV
