import DFV.Model.C04
/-!
C04 model, second part (core Lean only): the index-level description of what `Field.diff` stores
along a PERIODIC direction for every mask (`ringSpec`: the cell's run inside the stored line plus at
most ONE cell from beyond the seam — known finding D17), the description that covers both kinds of
axis and both settings of `restrict2valid` (`winSpec` / `lineSpec`), `Field.diff` called with a
direction NAME (`diffDir`: order check first, then `Region._dim2index`), the storage-kind rule of the
result (`np.result_type(dtype, float)`, repo fix 5136d062), and the field constructors the
field-level theorems speak about (linear combination, one component alone, another `bc`).
-/
namespace DFV.C04
open DFV

/-! ## periodic lines: what the wrap padding by one cell makes of a run at the seam -/

/-- cells of the differentiated run that precede position `j` of a periodic line of length `L`:
the valid cells immediately before `j` inside the stored line and, when these reach the start of the
stored line, ONE more cell — the last cell of the line — if it is valid -/
def ringBefore (v : Nat → Bool) (L j : Nat) : Nat :=
  if runBefore v j = j then j + (if v (L - 1) then 1 else 0) else runBefore v j

/-- cells of the differentiated run from position `j` on: the valid cells from `j` on inside the
stored line and, when these reach its end, ONE more cell — the first cell of the line — if it is valid -/
def ringFrom (v : Nat → Bool) (L j : Nat) : Nat :=
  if j + runFrom v L j = L then runFrom v L j + (if v 0 then 1 else 0) else runFrom v L j

/-- SPEC of the derivative along a periodic line with values `x`, validity `v`, length `L` at position
`j`, in terms of the ring itself (no padded line): 0 at an invalid cell, otherwise the run stencil
over `ringBefore + ringFrom` cells read off the ring cyclically, starting `ringBefore` cells before `j` -/
def ringSpec (o : Nat) (h : Rat) (L : Nat) (x : Nat → Rat) (v : Nat → Bool) (j : Nat) : Rat :=
  if v j then
    dAt o h (ringBefore v L j + ringFrom v L j) (fun k => x ((j + L - ringBefore v L j + k) % L)) (ringBefore v L j)
  else 0

/-! ## both kinds of axis, restriction on or off: the window of cells a result is computed from -/

/-- validity as `Field.diff` uses it: the field's own when `restrict2valid`, otherwise all true -/
def effOk (restrict : Bool) (v : Nat → Bool) : Nat → Bool := fun j => !restrict || v j

/-- number of cells of the differentiated run before position `j` (periodic line or open line) -/
def winB (p : Bool) (v : Nat → Bool) (L j : Nat) : Nat := if p then ringBefore v L j else runBefore v j

/-- number of cells of the differentiated run from position `j` on -/
def winA (p : Bool) (v : Nat → Bool) (L j : Nat) : Nat := if p then ringFrom v L j else runFrom v L j

/-- position in the line of the `k`-th cell of the differentiated run of cell `j` -/
def winIdx (p : Bool) (v : Nat → Bool) (L j k : Nat) : Nat := (j + L - winB p v L j + k) % L

/-- SPEC for both kinds of line: 0 at an invalid cell, otherwise the run stencil over the window -/
def winSpec (p : Bool) (o : Nat) (h : Rat) (L : Nat) (x : Nat → Rat) (v : Nat → Bool) (j : Nat) : Rat :=
  if v j then dAt o h (winB p v L j + winA p v L j) (fun k => x (winIdx p v L j k)) (winB p v L j) else 0

/-- SPEC of one line as `Field.diff` differentiates it: periodic or open, restricted to valid cells or not -/
def lineSpec (p r : Bool) (o : Nat) (h : Rat) (L : Nat) (x : Nat → Rat) (v : Nat → Bool) (j : Nat) : Rat :=
  winSpec p o h L x (effOk r v) j

/-! ## the window of a cell of an n-d field along an axis -/

/-- cells of the differentiated run before cell `i` along axis `ax` (restriction `r`) -/
def fldB (f : Fld) (ax : Nat) (r : Bool) (i : List Nat) : Nat :=
  winB (periodicAx f ax) (effOk r fun j => f.valid.line ax i j) (f.mesh.nAt ax) (i.getD ax 0)

/-- cells of the differentiated run from cell `i` on along axis `ax` -/
def fldA (f : Fld) (ax : Nat) (r : Bool) (i : List Nat) : Nat :=
  winA (periodicAx f ax) (effOk r fun j => f.valid.line ax i j) (f.mesh.nAt ax) (i.getD ax 0)

/-- value of component `c` at the `k`-th cell of the differentiated run of cell `i` along axis `ax` -/
def fldWin (f : Fld) (ax : Nat) (r : Bool) (i : List Nat) (c k : Nat) : Rat :=
  (f.data.line ax i (winIdx (periodicAx f ax) (effOk r fun j => f.valid.line ax i j) (f.mesh.nAt ax) (i.getD ax 0) k)).getD c 0

/-- does cell `i` count as valid for `Field.diff(…, restrict2valid = r)` -/
def fldOk (f : Fld) (r : Bool) (i : List Nat) : Bool := !r || f.valid.get i

/-! ## rings: centred differences, two-cell runs, the masks that admit shift-equivariance -/

/-- the centred wrap-around difference at ring position `j` -/
def centred (o : Nat) (h : Rat) (L : Nat) (x : Nat → Rat) (j : Nat) : Rat :=
  if o = 1 then (x ((j + 1) % L) - x ((j + L - 1) % L)) / (2 * h)
  else (x ((j + 1) % L) - 2 * x (j % L) + x ((j + L - 1) % L)) / (h * h)

/-- what the code computes on a ring whose runs have at most two cells -/
def shortRing (o : Nat) (h : Rat) (L : Nat) (x : Nat → Rat) (v : Nat → Bool) (j : Nat) : Rat :=
  if v j then
    if o = 1 then
      if v ((j + 1) % L) then (x ((j + 1) % L) - x (j % L)) / h
      else if v ((j + L - 1) % L) then (x (j % L) - x ((j + L - 1) % L)) / h
      else 0
    else 0
  else 0

/-- the mask of a ring admits shift-equivariance: every cell valid, or no three cyclically
consecutive valid cells (every ring run has at most two cells) -/
def noThree (v : Nat → Bool) (L : Nat) : Prop :=
  ∀ j, j < L → ¬ (v j = true ∧ v ((j + 1) % L) = true ∧ v ((j + 2) % L) = true)

/-- the ring stored rotated by `s`: position `k` holds the cell `(k + s) % L` -/
def rotCells (cells : List (Rat × Bool)) (s : Nat) : List (Rat × Bool) :=
  tab cells.length fun k => cells.getD ((k + s) % cells.length) (0, false)

/-! ## the ring run of a cell, independent of where the seam is -/

/-- valid cells immediately before ring position `j`, going backwards cyclically (at most `fuel`) -/
def cycBeforeAux (v : Nat → Bool) (L : Nat) : Nat → Nat → Nat
  | _, 0 => 0
  | j, fuel + 1 => if v ((j + L - 1) % L) then cycBeforeAux v L ((j + L - 1) % L) fuel + 1 else 0

/-- valid cells from ring position `j` on, going forwards cyclically (at most `fuel`) -/
def cycFromAux (v : Nat → Bool) (L : Nat) : Nat → Nat → Nat
  | _, 0 => 0
  | j, fuel + 1 => if v (j % L) then cycFromAux v L ((j + 1) % L) fuel + 1 else 0

/-- length of the part of the RING run of cell `j` that precedes it (capped at `L + 1`: a fully valid ring) -/
def cycBefore (v : Nat → Bool) (L j : Nat) : Nat := cycBeforeAux v L j (L + 1)

/-- length of the part of the ring run of cell `j` from `j` on (capped at `L + 1`) -/
def cycFrom (v : Nat → Bool) (L j : Nat) : Nat := cycFromAux v L j (L + 1)

/-- SPEC the property text asks for on a ring that is not fully valid: the run stencil over the cell's whole
ring run, wherever the seam of the stored line is -/
def idealRingSpec (o : Nat) (h : Rat) (L : Nat) (x : Nat → Rat) (v : Nat → Bool) (j : Nat) : Rat :=
  if v j then
    dAt o h (cycBefore v L j + cycFrom v L j) (fun k => x ((j + L - cycBefore v L j + k) % L)) (cycBefore v L j)
  else 0

/-! ## `Field.diff(direction, …)` with the direction given by NAME -/

/-- `Field.diff(direction, order, restrict2valid)`: the order is checked first (`NotImplementedError`),
then the name is looked up (`Region._dim2index`, `ValueError` for an unknown name) -/
def diffDir (f : Fld) (dir : String) (order : Nat) (restrict : Bool) : M Fld :=
  if order ≠ 1 ∧ order ≠ 2 then .error .notImpl
  else
    match f.mesh.region.dim2index dir with
    | .error e => .error e
    | .ok ax => diff f ax order restrict

/-- the same with the order as the Python caller passes it (any integer; `order not in (1, 2)`) -/
def diffDirI (f : Fld) (dir : String) (order : Int) (restrict : Bool) : M Fld :=
  if order ≠ 1 ∧ order ≠ 2 then .error .notImpl else diffDir f dir order.toNat restrict

/-- the array `Field.diff` stores, as a total function of the inputs -/
def diffData (f : Fld) (ax order : Nat) (restrict : Bool) : NDA (List Rat) :=
  ⟨f.data.shape, fun i =>
    tab f.nvdim fun c =>
      (diffLine' (periodicBc f.mesh.bc (f.mesh.region.dims.getD ax ""))
          restrict order (f.mesh.cellAt ax)
          (tab (f.mesh.nAt ax) fun j => ((f.data.line ax i j).getD c 0, f.valid.line ax i j))).getD
        (i.getD ax 0) 0⟩

/-! ## storage kind of the result (repo fix 5136d062: `np.result_type(field.array.dtype, float)`) -/

inductive Kind where
  | i8 | i16 | i32 | i64 | u8 | u16 | u32 | u64 | f16 | f32 | f64 | c64 | c128
  deriving DecidableEq, Repr, Inhabited

def Kind.isInt : Kind → Bool
  | .i8 | .i16 | .i32 | .i64 | .u8 | .u16 | .u32 | .u64 => true
  | _ => false

def Kind.isComplex : Kind → Bool
  | .c64 | .c128 => true
  | _ => false

/-- `np.result_type(k, float)`: binary64 for every integer and real floating kind, complex128 for
the complex kinds -/
def resKind (k : Kind) : Kind := if k.isComplex then .c128 else .f64

def Kind.ofString? : String → Option Kind
  | "int8" => some .i8 | "int16" => some .i16 | "int32" => some .i32 | "int64" => some .i64
  | "uint8" => some .u8 | "uint16" => some .u16 | "uint32" => some .u32 | "uint64" => some .u64
  | "float16" => some .f16 | "float32" => some .f32 | "float64" => some .f64
  | "complex64" => some .c64 | "complex128" => some .c128
  | _ => none

def Kind.toString : Kind → String
  | .i8 => "int8" | .i16 => "int16" | .i32 => "int32" | .i64 => "int64"
  | .u8 => "uint8" | .u16 => "uint16" | .u32 => "uint32" | .u64 => "uint64"
  | .f16 => "float16" | .f32 => "float32" | .f64 => "float64"
  | .c64 => "complex64" | .c128 => "complex128"

/-! ## field constructors used by the field-level theorems -/

/-- `α·f1 + β·f2` cell by cell and component by component, on the mesh / validity / labels of `f1` -/
def linFld (α β : Rat) (f1 f2 : Fld) : Fld :=
  { f1 with data := ⟨f1.data.shape, fun i => tab f1.nvdim fun c => α * (f1.data.get i).getD c 0 + β * (f2.data.get i).getD c 0⟩ }

/-- component `c` of `f` as a scalar field on the same mesh with the same validity -/
def compFld (f : Fld) (c : Nat) : Fld :=
  { f with nvdim := 1, data := ⟨f.data.shape, fun i => [(f.data.get i).getD c 0]⟩, vdims := none, vmap := [] }

/-- the same field on the same mesh with another boundary-condition string -/
def withBc (f : Fld) (bc : String) : Fld := { f with mesh := { f.mesh with bc := bc } }

/-- the same field with every cell valid -/
def allValid (f : Fld) : Fld := { f with valid := ⟨f.valid.shape, fun _ => true⟩ }

end DFV.C04
