import DFV.Model.C04
import DFV.Model.Transform
/-!
C05 model: `Field.grad`, `Field.div`, `Field.curl`, `Field.laplace` exactly as `field.py`
composes them from `Field.diff` (model: `DFV.C04.diff`), component access
(`__getattr__`), the reversed mapping `_r_dim_mapping`, stacking `<<`, `+`/`-`
(`_apply_operator`) and the builtin `sum` (which starts with the reflected `0 + f`).
Every intermediate field goes through the constructor path (`vdims` setter followed by
the `vdim_mapping` setter), because that is where labels and mapping of the results are
decided.  Also the `vdims` / `vdim_mapping` setters on an existing field (mapping
maintenance when labels change), one quarter turn `Field.rotate90(ax1, ax2)` (`k = 1`,
about the region centre, copy form: `Region.rotate90`, `Mesh.rotate90`, `np.rot90`, the
quarter-turn matrix with its exact entries) and `Field.rotate90(ax1, ax2, k)` for any integer `k`
(`rot90FldK`, code-shaped: computed in one go like the code) as far as the commutation claim needs them.
Core Lean only.

The code-shaped layer (what the driver runs) comes first; the spec layer at the end holds
the index-level quantities and predicates the theorems of `Props/C05.lean` are stated
against (`D`, `sumTo`, `lineD`, `DimsOk`, `Plain`, `FullyValid`, `ExactMesh`, `SampledFrom`,
`QuadAlong`, `quadP`, `MeshWf`, `IsRot90`, …).

Not modelled: the `hasattr` test of the `vdims` setter (labels that collide with
attribute names of `Field` are refused by the code; the model assumes labels are not
such names), dtype, norm, the checks of the `subregions` setter when a mesh with subregions
is rotated (their corners are rotated, nothing is re-validated), `rotate90` with an explicit
reference point or in place: for those `Props/C05.lean` (section 10) uses the shared object-level
model `T.rotate90F` of `Model/Transform.lean` (C12 / C13 tie it to the code) and proves that its result
cannot be told apart from `rot90FldK` by the operators.
-/
namespace DFV.C05
open DFV

/-! ## constructor path: `vdims` setter, `vdim_mapping` setter -/

/-- `Field.vdims` setter, the part that decides the stored labels (`field.py` 365-391) -/
def vdimsSet (nvdim : Nat) (vdims : Option (List String)) : M (Option (List String)) :=
  match vdims with
  | none => .ok (Fld.defaultVdims nvdim)
  | some vs =>
    if vs.length = 0 then .ok none
    else if vs.length ≠ nvdim then .error .value
    else if hasDup vs then .error .value
    else .ok (some vs)

/-- `Field.vdim_mapping` setter (`field.py` 578-598); `vdims` are the labels already stored -/
def vmapSet (mesh : Mesh) (nvdim : Nat) (vdims : Option (List String))
    (vmap : Option (List (String × String))) : M (List (String × String)) :=
  match vmap with
  | none =>
    if nvdim = 1 then .ok []
    else if nvdim = mesh.region.ndim then
      match vdims with
      | some vs => .ok (List.zip vs mesh.region.dims)
      | none => .ok []          -- labels removed (`vdims=[]`): no default mapping (repo fix d1932c87, D46)
    else .ok []
  | some mp =>
    if mp.length = 1 ∧ nvdim = 1 ∧ vdims = none then .ok []
    else if 0 < mp.length then
      match vdims with
      | none => .error .type
      | some vs => if (mp.map (·.1)).isPerm vs then .ok mp else .error .value
    else .ok mp

/-- `Field(mesh, nvdim=…, value=…, vdims=…, valid=…, vdim_mapping=…, unit=…)` -/
def mkFld (mesh : Mesh) (nvdim : Nat) (data : NDA (List Rat)) (valid : NDA Bool)
    (vdims : Option (List String)) (vmap : Option (List (String × String)))
    (unit : Option String) : M Fld :=
  if nvdim < 1 then .error .value
  else
    match vdimsSet nvdim vdims with
    | .error e => .error e
    | .ok vs =>
      match vmapSet mesh nvdim vs vmap with
      | .error e => .error e
      | .ok mp => .ok { mesh := mesh, nvdim := nvdim, data := data, valid := valid,
                        vdims := vs, vmap := mp, unit := unit }

/-! ## setters on an existing field (mapping maintenance) -/

/-- `{new: mapping[old] for new, old in zip(vdims, old_vdims)}`; a missing key raises -/
def transportMap (mp : List (String × String)) : List String → List String → M (List (String × String))
  | n :: ns, o :: os =>
    match Fld.lookup mp o with
    | none => .error .key
    | some d =>
      match transportMap mp ns os with
      | .error e => .error e
      | .ok rest => .ok ((n, d) :: rest)
  | _, _ => .ok []

/-- `field.vdim_mapping = mp` -/
def setVmap (f : Fld) (vmap : Option (List (String × String))) : M Fld :=
  match vmapSet f.mesh f.nvdim f.vdims vmap with
  | .error e => .error e
  | .ok mp => .ok { f with vmap := mp }

/-- `field.vdims = vdims` (`field.py` 365-410): new labels, then the mapping is carried
over position by position when there was one; when the labels are REMOVED the mapping is cleared
(repo fix 7c849c53: a mapping keyed by labels that no longer exist was refused by every later
constructor call) -/
def setVdims (f : Fld) (vdims : Option (List String)) : M Fld :=
  match vdimsSet f.nvdim vdims with
  | .error e => .error e
  | .ok new =>
    match new, f.vdims with
    | some nv, some ov =>
      if 0 < f.vmap.length then
        match transportMap f.vmap nv ov with
        | .error e => .error e
        | .ok mp => setVmap { f with vdims := new } (some mp)
      else .ok { f with vdims := new }
    | none, some _ => .ok { f with vdims := none, vmap := [] }   -- labels removed: the mapping is cleared (repo fix 7c849c53)
    | _, _ => .ok { f with vdims := new }

/-! ## component access, reversed mapping -/

/-- `getattr(field, label)` (`Field.__getattr__`) -/
def getComp (f : Fld) (label : String) : M Fld :=
  match f.vdimIndex label with
  | none => .error .key
  | some k =>
    mkFld f.mesh 1 ⟨f.data.shape, fun i => [(f.data.get i).getD k 0]⟩ f.valid none
      (some (match Fld.lookup f.vmap label with
             | some d => [(label, d)]
             | none => [])) f.unit

/-- `Field._r_dim_mapping[dim]`: the dict comprehension `{val: key …}` keeps the LAST key
that maps to `dim` -/
def rDimLast (f : Fld) (dim : String) : Option String :=
  (f.vmap.reverse.find? fun p => p.2 == dim).map (·.1)

/-- `getattr(self, self._r_dim_mapping[dim])`; `getattr(self, None)` raises -/
def compOfDim (f : Fld) (dim : String) : M Fld :=
  match rDimLast f dim with
  | none => .error .type
  | some l => getComp f l

/-- `field.diff(dim, order=order)` with the direction given by name -/
def diffDim (f : Fld) (dim : String) (order : Nat) : M Fld :=
  if order ≠ 1 ∧ order ≠ 2 then .error .notImpl
  else
    match indexOf? f.mesh.region.dims dim with
    | none => .error .value
    | some ax => C04.diff f ax order true

/-! ## `_apply_operator` (field ∘ field, field ∘ number), `<<`, `sum` -/

def andValid (a b : NDA Bool) : NDA Bool := ⟨a.shape, fun i => a.get i && b.get i⟩

/-- `_apply_operator(self, other, np.add / np.subtract)` for two fields: same mesh, equal
component counts unless one is scalar (broadcast), validity AND-ed, labels and mapping of
`self` (of `other` when `self` is the scalar), unit dropped -/
def binop (op : Rat → Rat → Rat) (a b : Fld) : M Fld :=
  if a.mesh ≠ b.mesh then .error .value
  else if a.nvdim ≠ 1 ∧ b.nvdim ≠ 1 ∧ a.nvdim ≠ b.nvdim then .error .value
  else
    mkFld a.mesh (max a.nvdim b.nvdim)
      ⟨a.data.shape, fun i => tab (max a.nvdim b.nvdim) fun c =>
        op ((a.data.get i).getD (if a.nvdim = 1 then 0 else c) 0)
           ((b.data.get i).getD (if b.nvdim = 1 then 0 else c) 0)⟩
      (andValid a.valid b.valid)
      (match (if a.nvdim = 1 ∧ 1 < b.nvdim then b.vdims else a.vdims) with
       | some vs => if vs.length ≠ max a.nvdim b.nvdim then none else some vs
       | none => none)
      (some (if a.nvdim = 1 ∧ 1 < b.nvdim then b.vmap else a.vmap))
      none

def add (a b : Fld) : M Fld := binop (· + ·) a b
def sub (a b : Fld) : M Fld := binop (· - ·) a b

/-- `field + number` (also what `number + field` does through `__radd__`) -/
def addNum (a : Fld) (q : Rat) : M Fld :=
  mkFld a.mesh a.nvdim ⟨a.data.shape, fun i => tab a.nvdim fun c => (a.data.get i).getD c 0 + q⟩
    a.valid a.vdims (some a.vmap) none

/-- `dict[k] = v` on an insertion-ordered association list -/
def dictSet : List (String × String) → String → String → List (String × String)
  | [], k, v => [(k, v)]
  | (k', v') :: rest, k, v => if k' == k then (k', v) :: rest else (k', v') :: dictSet rest k v

/-- `d = a.copy(); d.update(b)` -/
def dictUpdate (a b : List (String × String)) : List (String × String) :=
  b.foldl (fun acc p => dictSet acc p.1 p.2) a

/-- labels of `a << b` before the constructor sees them -/
def lshiftVdims (a b : Option (List String)) : Option (List String) :=
  match a, b with
  | some x, some y => if hasDup (x ++ y) then none else some (x ++ y)
  | _, _ => none

/-- mapping of `a << b` before the constructor sees it -/
def lshiftVmap (a b : Fld) : Option (List (String × String)) :=
  if (dictUpdate a.vmap b.vmap).length ≠ a.nvdim + b.nvdim then none
  else some (dictUpdate a.vmap b.vmap)

/-- `a << b` for two fields (`Field.__lshift__`) -/
def lshift (a b : Fld) : M Fld :=
  if a.mesh ≠ b.mesh then .error .value
  else
    mkFld a.mesh (a.nvdim + b.nvdim)
      ⟨a.data.shape, fun i =>
        (tab a.nvdim fun c => (a.data.get i).getD c 0) ++ (tab b.nvdim fun c => (b.data.get i).getD c 0)⟩
      (andValid a.valid b.valid) (lshiftVdims a.vdims b.vdims) (lshiftVmap a b) none

/-- `result = ds[0]; for d in ds[1:]: result = result << d` -/
def stackGo : Fld → List Fld → M Fld
  | acc, [] => .ok acc
  | acc, d :: ds =>
    match lshift acc d with
    | .error e => .error e
    | .ok r => stackGo r ds

def stack : List Fld → M Fld
  | [] => .error .index
  | d :: ds => stackGo d ds

def sumGo : Fld → List Fld → M Fld
  | acc, [] => .ok acc
  | acc, t :: ts =>
    match add acc t with
    | .error e => .error e
    | .ok r => sumGo r ts

/-- builtin `sum(fields)`: `0 + t₀` (reflected add with the number 0), then `+ tₖ` -/
def sumF : List Fld → M Fld
  | [] => .error .type
  | t :: ts =>
    match addNum t 0 with
    | .error e => .error e
    | .ok acc => sumGo acc ts

/-- `[g(x) for x in xs]` where `g` may raise -/
def mapE {α β} (g : α → M β) : List α → M (List β)
  | [] => .ok []
  | x :: xs =>
    match g x with
    | .error e => .error e
    | .ok y =>
      match mapE g xs with
      | .error e => .error e
      | .ok ys => .ok (y :: ys)

/-! ## the four operators -/

/-- `Field.grad` -/
def grad (f : Fld) : M Fld :=
  if f.nvdim ≠ 1 then .error .value
  else
    match mapE (fun d => diffDim f d 1) f.mesh.region.dims with
    | .error e => .error e
    | .ok ds => stack ds

/-- the loop `for vdim in self.vdims: if vdim not in mapping … elif mapping[vdim] not in dims …` -/
def allMapped (f : Fld) (vs : List String) : Bool :=
  vs.all fun v =>
    match Fld.lookup f.vmap v with
    | none => false
    | some d => f.mesh.region.dims.contains d

/-- `getattr(self, vdim).diff(self.vdim_mapping[vdim])` -/
def divTerm (f : Fld) (v : String) : M Fld :=
  match Fld.lookup f.vmap v with
  | none => .error .key
  | some d =>
    match getComp f v with
    | .error e => .error e
    | .ok c => diffDim c d 1

/-- `Field.div` -/
def div (f : Fld) : M Fld :=
  if f.nvdim ≠ f.mesh.region.ndim then .error .value
  else
    match f.vdims with
    | none => .error .type
    | some vs =>
      if !allMapped f vs then .error .value
      else
        match mapE (divTerm f) vs with
        | .error e => .error e
        | .ok ts => sumF ts

/-- `getattr(self, r[d1]).diff(e1) - getattr(self, r[d2]).diff(e2)` -/
def curlComp (f : Fld) (d1 e1 d2 e2 : String) : M Fld :=
  match compOfDim f d1 with
  | .error e => .error e
  | .ok c1 =>
    match diffDim c1 e1 1 with
    | .error e => .error e
    | .ok t1 =>
      match compOfDim f d2 with
      | .error e => .error e
      | .ok c2 =>
        match diffDim c2 e2 1 with
        | .error e => .error e
        | .ok t2 => sub t1 t2

/-- `Field.curl` -/
def curl (f : Fld) : M Fld :=
  if f.nvdim ≠ 3 ∨ f.mesh.region.ndim ≠ 3 then .error .value
  else
    match f.vdims with
    | none => .error .type
    | some vs =>
      if !allMapped f vs then .error .value
      else
        match f.mesh.region.dims with
        | [x, y, z] =>
          match curlComp f z y y z with
          | .error e => .error e
          | .ok cx =>
            match curlComp f x z z x with
            | .error e => .error e
            | .ok cy =>
              match curlComp f y x x y with
              | .error e => .error e
              | .ok cz =>
                match lshift cx cy with
                | .error e => .error e
                | .ok cxy => lshift cxy cz
        | _ => .error .value

/-- `sum(getattr(self, vdim).diff(dim, order=2) for dim in dims)` -/
def lapComp (f : Fld) (v : String) : M Fld :=
  match mapE (fun d =>
      match getComp f v with
      | .error e => .error e
      | .ok c => diffDim c d 2) f.mesh.region.dims with
  | .error e => .error e
  | .ok ts => sumF ts

/-- `Field.laplace` -/
def laplace (f : Fld) : M Fld :=
  if f.nvdim = 1 then
    match mapE (fun d => diffDim f d 2) f.mesh.region.dims with
    | .error e => .error e
    | .ok ts => sumF ts
  else
    match f.vdims with
    | none => .error .type
    | some vs =>
      match mapE (lapComp f) vs with
      | .error e => .error e
      | .ok ds =>
        match stack ds with
        | .error e => .error e
        | .ok r =>
          -- `result.vdims = self.vdims; result.vdim_mapping = self.vdim_mapping` (nvdim > 1 only)
          match setVdims r f.vdims with
          | .error e => .error e
          | .ok r' => setVmap r' (some f.vmap)

/-! ## one quarter turn (`k = 1`), as far as C05's commutation claim needs it -/

/-- `np.rot90(A, k=1, axes=(a, b))` = `swapaxes(flip(A, b), a, b)`:
`R[…, i_a, …, i_b, …] = A[…, i_b, …, n_b - 1 - i_a, …]` -/
def rot90Arr {α} (A : NDA α) (a b : Nat) : NDA α :=
  ⟨swapAt A.shape a b, fun i => A.get (setAt (setAt i a (i.getD b 0)) b (A.shape.getD b 0 - 1 - i.getD a 0))⟩

/-- `Region.rotate90(ax1, ax2, k=1, reference_point=ref)` (copy form): the in-plane offsets of
both corners are turned by the exact quarter-turn matrix `[[0,-1],[1,0]]`, the constructor
re-normalises the corners; the units of the two axes are swapped -/
def rotRegion (r : Region) (a b : Nat) (ref : List Rat) : M Region :=
  Region.mk?
    (setAt (setAt r.pmin a (ref.getD a 0 - (r.lo b - ref.getD b 0))) b (ref.getD b 0 + (r.lo a - ref.getD a 0)))
    (setAt (setAt r.pmax a (ref.getD a 0 - (r.hi b - ref.getD b 0))) b (ref.getD b 0 + (r.hi a - ref.getD a 0)))
    (some r.dims) (some (swapAt r.units a b)) r.tol

/-- `str.translate(str.maketrans({ax1: ax2, ax2: ax1}))` on one character (single-character axis names) -/
def swapChar (da db : String) (c : Char) : Char :=
  if [c] = da.toList then db.toList.headD c else if [c] = db.toList then da.toList.headD c else c

/-- periodic directions turn with the mesh (odd `k`): unless `bc` is one of the words
`neumann` / `dirichlet` / empty, or an axis name is not a single character, the two axis
names are exchanged in `bc` -/
def rotBc1 (bc da db : String) : String :=
  if !(bc == "neumann" || bc == "dirichlet" || bc == "") && da.toList.length == 1 && db.toList.length == 1
      && da == da.toLower && db == db.toLower then      -- repo fix be43fa9b: only lower-case names are swapped
    String.ofList (bc.toList.map (swapChar da db))
  else bc

/-- `Mesh.rotate90(ax1, ax2, k=1)` (copy form, about the region's centre) -/
def rotMesh (m : Mesh) (da db : String) : M Mesh :=
  if da = db then .error .value
  else
    match indexOf? m.region.dims da, indexOf? m.region.dims db with
    | some a, some b =>
      match rotRegion m.region a b m.region.center with
      | .error e => .error e
      | .ok r =>
        match mapE (fun (s : String × Region) =>
            match rotRegion s.2 a b m.region.center with
            | .error e => .error e
            | .ok r' => .ok (s.1, r')) m.subs with
        | .error e => .error e
        | .ok subs =>
          match Mesh.mkN? r (swapAt m.n a b) (rotBc1 m.bc da db) with
          | .error e => .error e
          | .ok m' => .ok { m' with subs := subs }
    | _, _ => .error .value

/-- the in-plane components of a vector after one quarter turn: `v[v1] ← -v[v2]`, then
`v[v2] ← (old) v[v1]` (exact values of cos/sin(π/2)) -/
def turnVec (v : List Rat) (v1 v2 : Nat) : List Rat :=
  setAt (setAt v v1 (-(v.getD v2 0))) v2 (v.getD v1 0)

/-- `Field.rotate90(ax1, ax2, k=1)` (copy form) -/
def rot90Fld (f : Fld) (da db : String) : M Fld :=
  match rotMesh f.mesh da db with
  | .error e => .error e
  | .ok mesh' =>
    match indexOf? f.mesh.region.dims da, indexOf? f.mesh.region.dims db with
    | some a, some b =>
      if 1 < f.nvdim then
        match (rDimLast f da).bind f.vdimIndex, (rDimLast f db).bind f.vdimIndex with
        | some v1, some v2 =>
          mkFld mesh' f.nvdim
            ⟨swapAt f.data.shape a b, fun i => turnVec ((rot90Arr f.data a b).get i) v1 v2⟩
            (rot90Arr f.valid a b) f.vdims (some f.vmap) f.unit
        | _, _ => .error .runtime
      else mkFld mesh' f.nvdim (rot90Arr f.data a b) (rot90Arr f.valid a b) f.vdims (some f.vmap) f.unit
    | _, _ => .error .value

/-- `n` successive quarter turns: `f.rotate90(ax1, ax2).rotate90(ax1, ax2)…` (copy form, each about
the centre of the region it is applied to — which a turn about the centre does not move) -/
def rotIter (da db : String) : Nat → Fld → M Fld
  | 0, f => .ok f
  | n + 1, f =>
    match rotIter da db n f with
    | .error e => .error e
    | .ok R => rot90Fld R da db

/-! ## `rotate90` with any integer `k`, code-shaped (the quarter-turn primitives `cosq`, `sinq`,
`rotCoord`, `rotUnits`, `rotN`, `rot90` (= `np.rot90`), `rotVec` are those of `Model/Transform.lean`) -/

/-- `bc` after `k` quarter turns: the two axis names are exchanged for odd `k` only -/
def rotBcK (bc da db : String) (k : Int) : String := if T.isOdd k then rotBc1 bc da db else bc

/-- `Region.rotate90(ax1, ax2, k, reference_point=ref)` (copy form): both corners are turned by the
exact matrix of `k` quarter turns, the constructor re-normalises them; units exchanged for odd `k` -/
def rotRegionK (r : Region) (a b : Nat) (k : Int) (ref : List Rat) : M Region :=
  Region.mk? (tab r.ndim (T.rotCoord r.pmin ref a b k)) (tab r.ndim (T.rotCoord r.pmax ref a b k))
    (some r.dims) (some (T.rotUnits r.units a b k)) r.tol

/-- `Mesh.rotate90(ax1, ax2, k)` (copy form, about the region's centre) -/
def rotMeshK (m : Mesh) (da db : String) (k : Int) : M Mesh :=
  if da = db then .error .value
  else
    match indexOf? m.region.dims da, indexOf? m.region.dims db with
    | some a, some b =>
      match rotRegionK m.region a b k m.region.center with
      | .error e => .error e
      | .ok r =>
        match mapE (fun (s : String × Region) =>
            match rotRegionK s.2 a b k m.region.center with
            | .error e => .error e
            | .ok r' => .ok (s.1, r')) m.subs with
        | .error e => .error e
        | .ok subs =>
          match Mesh.mkN? r (T.rotN m.n a b k) (rotBcK m.bc da db k) with
          | .error e => .error e
          | .ok m' => .ok { m' with subs := subs }
    | _, _ => .error .value

/-- `Field.rotate90(ax1, ax2, k)` for ANY integer `k` (negative included), about the region centre,
copy form, as the code computes it — in one go: the turned mesh, `np.rot90(array, k)` and
`np.rot90(valid, k)`, the two in-plane components (found through `_r_dim_mapping`) multiplied by
the matrix of `cos/sin(k·π/2)` (exact values), the constructor. -/
def rot90FldK (f : Fld) (da db : String) (k : Int) : M Fld :=
  match rotMeshK f.mesh da db k with
  | .error e => .error e
  | .ok mesh' =>
    match indexOf? f.mesh.region.dims da, indexOf? f.mesh.region.dims db with
    | some a, some b =>
      if 1 < f.nvdim then
        match (rDimLast f da).bind f.vdimIndex, (rDimLast f db).bind f.vdimIndex with
        | some v1, some v2 =>
          mkFld mesh' f.nvdim ((T.rot90 f.data a b k).map fun v => T.rotVec v v1 v2 k)
            (T.rot90 f.valid a b k) f.vdims (some f.vmap) f.unit
        | _, _ => .error .runtime
      else mkFld mesh' f.nvdim (T.rot90 f.data a b k) (T.rot90 f.valid a b k) f.vdims (some f.vmap) f.unit
    | _, _ => .error .value

/-! ## spec layer: index-level quantities the property theorems are stated against -/

/-- is axis `ax` a periodic direction of the mesh of `f` (as `Field.diff` decides it) -/
def periodic (f : Fld) (ax : Nat) : Bool := C04.periodicBc f.mesh.bc (f.mesh.region.dims.getD ax "")

/-- SPEC: value of component `c` at cell `i` of the `order`-th derivative of `f` along axis
`ax`: the line through `i` along `ax`, differentiated as `Field.diff` does (C04) -/
def D (f : Fld) (ax order c : Nat) (i : List Nat) : Rat :=
  (C04.diffLine' (periodic f ax) true order (f.mesh.cellAt ax)
    (tab (f.mesh.nAt ax) fun j => ((f.data.line ax i j).getD c 0, f.valid.line ax i j))).getD (i.getD ax 0) 0

/-- `Σ_{k<n} g k` -/
def sumTo : Nat → (Nat → Rat) → Rat
  | 0, _ => 0
  | n + 1, g => sumTo n g + g n

/-- the list of component values of cell `i` -/
def cellv (f : Fld) (i : List Nat) : List Rat := tab f.nvdim fun c => (f.data.get i).getD c 0

/-- multi-index `i` addresses a cell of the mesh of `f` -/
def InMesh (f : Fld) (i : List Nat) : Prop :=
  i.length = f.mesh.ndim ∧ ∀ a, a < f.mesh.ndim → i.getD a 0 < f.mesh.nAt a

/-- the differentiation stencil on a fully valid line `g 0 … g (L-1)` at position `i`:
open direction = the C04 run stencil, periodic direction = centred differences with wrap-around -/
def lineD (per : Bool) (order : Nat) (h : Rat) (L : Nat) (g : Nat → Rat) (i : Nat) : Rat :=
  if per then
    (if order = 1 then (g ((i + 1) % L) - g ((i + L - 1) % L)) / (2 * h)
     else (g ((i + 1) % L) - 2 * g (i % L) + g ((i + L - 1) % L)) / (h * h))
  else C04.dAt order h L g i

/-- well-formed axis names: as many as axes, pairwise different (Region invariant) -/
def DimsOk (f : Fld) : Prop :=
  f.mesh.region.dims.length = f.mesh.ndim ∧ hasDup f.mesh.region.dims = false

/-- a "plain" scalar field: one component, no label, no mapping (what `Field(mesh, nvdim=1)`,
`getattr(f, label)`, `diff`, `+`, `-` of such fields produce) -/
def Plain (f : Fld) : Prop := f.nvdim = 1 ∧ f.vdims = none ∧ f.vmap = []

/-- positional labels and mapping of an `n`-component result built by `<<` from plain scalars -/
def posVdims (n : Nat) : Option (List String) := Fld.defaultVdims n

def posVmap (m : Mesh) (n : Nat) : List (String × String) :=
  if n = 1 then [] else if n = m.region.ndim then
    match Fld.defaultVdims n with
    | some vs => List.zip vs m.region.dims
    | none => []
  else []

/-- coordinates of the centre of cell `i`, as a function of the axis -/
def coords (f : Fld) (i : List Nat) : Nat → Rat := fun a => f.mesh.centreAx a ((i.getD a 0 : Nat) : Int)

/-- `x` with coordinate `ax` replaced by `v` -/
def upd (x : Nat → Rat) (ax : Nat) (v : Rat) : Nat → Rat := fun a => if a = ax then v else x a

/-- component `c` of `f` samples the function `P` of the coordinates at every cell centre -/
def SampledFrom (f : Fld) (c : Nat) (P : (Nat → Rat) → Rat) : Prop :=
  ∀ i, (f.data.get i).getD c 0 = P (coords f i)

/-- `P` is a polynomial of degree ≤ 2 in coordinate `ax` (the other coordinates fixed), with
first and second partial derivatives `P1`, `P2`: its Taylor expansion along `ax` stops at order 2 -/
def QuadAlong (P : (Nat → Rat) → Rat) (ax : Nat) (P1 P2 : (Nat → Rat) → Rat) : Prop :=
  ∀ x s, P (upd x ax (x ax + s)) = P x + P1 x * s + P2 x / 2 * s ^ 2

/-- every cell of the mesh is valid -/
def FullyValid (f : Fld) : Prop := ∀ i, f.valid.get i = true

/-- general polynomial of total degree ≤ 2 in `n` coordinates -/
def quadP (n : Nat) (c0 : Rat) (b : Nat → Rat) (q : Nat → Nat → Rat) (x : Nat → Rat) : Rat :=
  c0 + sumTo n (fun a => b a * x a) + sumTo n (fun a => sumTo n fun a' => q a a' * x a * x a')

/-- its textbook partial derivative along `ax` -/
def quadP1 (n : Nat) (b : Nat → Rat) (q : Nat → Nat → Rat) (ax : Nat) (x : Nat → Rat) : Rat :=
  b ax + sumTo n fun a => (q ax a + q a ax) * x a

/-- the meshes the exactness claim speaks about: fully valid, every direction open, at least
three cells and a non-zero cell size along every axis -/
def ExactMesh (f : Fld) : Prop :=
  FullyValid f ∧ ∀ a, a < f.mesh.ndim → periodic f a = false ∧ 3 ≤ f.mesh.nAt a ∧ f.mesh.cellAt a ≠ 0

/-! ### spec layer for the quarter turn -/

/-- well-formed mesh and arrays: what the constructors of Region / Mesh / Field guarantee -/
structure MeshWf (f : Fld) : Prop where
  pmax_len : f.mesh.region.pmax.length = f.mesh.ndim
  n_len : f.mesh.n.length = f.mesh.ndim
  dims : DimsOk f
  units_len : f.mesh.region.units.length = f.mesh.ndim
  pos : ∀ x, x < f.mesh.ndim → f.mesh.region.lo x < f.mesh.region.hi x ∧ 0 < f.mesh.nAt x
  bc_lower : f.mesh.bc.toLower = f.mesh.bc
  bc_ok : Mesh.bcOk f.mesh.region.dims f.mesh.bc = true
  data_shape : f.data.shape = f.mesh.n

/-- the cell that a quarter turn in the plane `(a, b)` moves to position `i` -/
def rotIdx (f : Fld) (a b : Nat) (i : List Nat) : List Nat :=
  setAt (setAt i a (i.getD b 0)) b (f.mesh.nAt b - 1 - i.getD a 0)

/-- the periodicity of the two axes of the plane turns with the mesh: either both axis names
are single LOWER-CASE characters (then `Mesh.rotate90` exchanges them in `bc` — repo fix be43fa9b: a
name that is not lower case can never occur in the lower-cased `bc`, and is left alone; on a
`neumann` / `dirichlet` / empty `bc` nothing is exchanged and, since repo fix 61bf94db, no axis is
periodic), or the two axes are periodic alike to begin with -/
def BcTurns (f : Fld) (a b : Nat) : Prop :=
  ((f.mesh.region.dims.getD a "").toList.length = 1 ∧ (f.mesh.region.dims.getD b "").toList.length = 1 ∧
    (f.mesh.region.dims.getD a "").toLower = f.mesh.region.dims.getD a "" ∧
    (f.mesh.region.dims.getD b "").toLower = f.mesh.region.dims.getD b "")
  ∨ periodic f a = periodic f b

/-- the turned `bc` is what the `Mesh` constructor accepts unchanged (lower case, naming axes
of the mesh once each); since repo fix be43fa9b the last two fields follow from `MeshWf`
(`turnWf_of_bcTurns` in `Props/C05.lean`) -/
structure TurnWf (f : Fld) (a b : Nat) : Prop where
  turns : BcTurns f a b
  bc_lower : (rotBc1 f.mesh.bc (f.mesh.region.dims.getD a "") (f.mesh.region.dims.getD b "")).toLower
    = rotBc1 f.mesh.bc (f.mesh.region.dims.getD a "") (f.mesh.region.dims.getD b "")
  bc_ok : Mesh.bcOk f.mesh.region.dims
    (rotBc1 f.mesh.bc (f.mesh.region.dims.getD a "") (f.mesh.region.dims.getD b "")) = true

/-- what one quarter turn in the plane of axes `a ≠ b` does, as far as differentiation is
concerned: geometry (cell counts, cell sizes AND periodicity of the two axes exchanged, names
kept) and where every value and validity flag comes from -/
structure IsRot90 (f R : Fld) (a b : Nat) : Prop where
  ndim : R.mesh.ndim = f.mesh.ndim
  dims : R.mesh.region.dims = f.mesh.region.dims
  per_a : periodic R a = periodic f b
  per_b : periodic R b = periodic f a
  per_e : ∀ e, e < f.mesh.ndim → e ≠ a → e ≠ b → periodic R e = periodic f e
  n_a : R.mesh.nAt a = f.mesh.nAt b
  n_b : R.mesh.nAt b = f.mesh.nAt a
  n_e : ∀ e, e ≠ a → e ≠ b → R.mesh.nAt e = f.mesh.nAt e
  h_a : R.mesh.cellAt a = f.mesh.cellAt b
  h_b : R.mesh.cellAt b = f.mesh.cellAt a
  h_e : ∀ e, e ≠ a → e ≠ b → R.mesh.cellAt e = f.mesh.cellAt e
  valid : ∀ i, ∃ j, R.valid.get i = f.valid.get j
  nvdim : R.nvdim = f.nvdim

/-! ### spec layer: exactness at a cell of a masked field -/

/-- the cell `i` is valid and, along every axis (all open, non-zero cell size), its own maximal run
of valid cells has at least three cells -/
def ExactAt (f : Fld) (i : List Nat) : Prop :=
  ∀ a, a < f.mesh.ndim → periodic f a = false ∧ f.mesh.cellAt a ≠ 0 ∧ f.valid.line a i (i.getD a 0) = true ∧
    3 ≤ C04.runBefore (fun j => f.valid.line a i j) (i.getD a 0)
        + C04.runFrom (fun j => f.valid.line a i j) (f.mesh.nAt a) (i.getD a 0)

/-! ### spec layer: fields that differentiation cannot tell apart -/

/-- periodicity of an axis, read off the mesh (`periodic f ax` is `perM f.mesh ax`) -/
def perM (m : Mesh) (ax : Nat) : Bool := C04.periodicBc m.bc (m.region.dims.getD ax "")

/-- two meshes that differentiation cannot tell apart: same axis names, and along every axis the
same cell count, cell size and periodicity -/
def MeshSim (m1 m2 : Mesh) : Prop :=
  m1.ndim = m2.ndim ∧ m1.region.dims = m2.region.dims ∧
  ∀ e, e < m1.ndim → m1.nAt e = m2.nAt e ∧ m1.cellAt e = m2.cellAt e ∧ perM m1 e = perM m2 e

/-- `X` and `Y` are the same field as far as the differential operators can tell: meshes alike
(`MeshSim`), same component count, labels and mapping, and the same values and validity flags at
every multi-index of the right length (they may differ as functions on ill-formed indices, which
no operator reads) -/
structure Sim (X Y : Fld) : Prop where
  mesh : MeshSim X.mesh Y.mesh
  nvdim : X.nvdim = Y.nvdim
  vdims : X.vdims = Y.vdims
  vmap : X.vmap = Y.vmap
  data : ∀ i, i.length = X.mesh.ndim → ∀ c, (X.data.get i).getD c 0 = (Y.data.get i).getD c 0
  valid : ∀ i, i.length = X.mesh.ndim → X.valid.get i = Y.valid.get i

/-! ### spec layer: one-to-one mappings, fields without their subregion list -/

/-- a one-to-one component-to-axis mapping: no two labels are mapped onto the same axis -/
def OneToOne (mp : List (String × String)) : Prop := ∀ p ∈ mp, ∀ q ∈ mp, p.2 = q.2 → p = q

/-- the field on the same mesh without its subregion list (the differential operators keep the mesh of
their operand, subregions included, and read nothing of them) -/
def strip (f : Fld) : Fld := { f with mesh := { f.mesh with subs := [] } }

end DFV.C05
