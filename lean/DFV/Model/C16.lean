import DFV.Model.Field
import DFV.Model.Transform
/-!
C16 model: `Field.to_vtk` (discretisedfield/field.py), `_to_vtk` / `_from_vtk` /
`_from_vtk_legacy` (discretisedfield/io/vtk.py) and the subregion side-car of
discretisedfield/io/__init__.py.  Core Lean only.

A `vtkRectilinearGrid` is modelled by what a consumer can read from it: the point counts
(`SetDimensions`), the three coordinate arrays and the named cell-data arrays (name,
number of components, integer/floating type, flat tuple-major values).  `locate` is the
contract of a rectilinear grid (interval search per axis + VTK's structured cell id
`i + nx·(j + ny·k)`); VTK's XML writer/reader pair is modelled as the identity on that view,
the legacy pair as the reordering `legacyOrder` of the cell arrays (active attributes first)
followed, in the text form, by a value-wise rounding `rnd` of all floating numbers.

The `norm` array holds the **squared** norm (the square root is applied by the harness; it
is the only non-rational leaf on this code path).

The legacy reader works on tokenised lines (`LLine`): which of the substrings / first
characters the Python code looks at occur in a line, and the numbers a numeric line holds.
-/
namespace DFV.C16
open DFV

/-! ## the grid view -/

/-- a named VTK data array: `vals` is tuple-major (`tuple t`, component `c` at `t*ncomp+c`);
`int` = integer-typed array (`long`), as opposed to `double` -/
structure VArr where
  name : String
  ncomp : Nat
  int : Bool
  vals : List Rat
  deriving DecidableEq, Repr, Inhabited

/-- tuple `id` of an array -/
def VArr.tuple (a : VArr) (id : Nat) : List Rat := tab a.ncomp fun c => a.vals.getD (id * a.ncomp + c) 0

structure Grid where
  /-- `GetDimensions()`: points per axis -/
  dims : List Nat
  /-- X, Y, Z coordinate arrays -/
  coords : List (List Rat)
  /-- cell-data arrays in index order -/
  cell : List VArr
  deriving DecidableEq, Repr, Inhabited

/-- `vtkFieldData::AddArray`: an array with the same name is replaced in place, otherwise the
array is appended -/
def addArray : List VArr → VArr → List VArr
  | [], a => [a]
  | b :: bs, a => if b.name = a.name then a :: bs else b :: addArray bs a

/-- `GetArray(name)` -/
def Grid.arr (g : Grid) (name : String) : Option VArr := g.cell.find? fun a => a.name == name

/-- coordinate array of axis `a` -/
def Grid.ax (g : Grid) (a : Nat) : List Rat := g.coords.getD a []

/-! ## the contract of a rectilinear grid: cell lookup -/

/-- interval index of `x` in an ascending coordinate array: the `i` with
`X[i] ≤ x < X[i+1]`; the last interval also owns its upper end -/
def findInterval (X : List Rat) (x : Rat) : Option Nat :=
  (List.range (X.length - 1)).find? fun i =>
    decide (X.getD i 0 ≤ x) &&
      (decide (x < X.getD (i + 1) 0) || (decide (i + 2 = X.length) && decide (x = X.getD (i + 1) 0)))

/-- VTK's structured cell id of `(i, j, k)` in a grid with `dims` points per axis -/
def cellId (dims : List Nat) (i j k : Nat) : Nat :=
  i + (dims.getD 0 0 - 1) * (j + (dims.getD 1 0 - 1) * k)

/-- `FindCell`: the cell whose box contains `p` -/
def locate (g : Grid) (p : List Rat) : Option Nat :=
  match findInterval (g.ax 0) (p.getD 0 0), findInterval (g.ax 1) (p.getD 1 0),
        findInterval (g.ax 2) (p.getD 2 0) with
  | some i, some j, some k => some (cellId g.dims i j k)
  | _, _, _ => none

/-! ## `Field.to_vtk` -/

/-- `field.array`: shape `(*n, nvdim)` -/
def array4 (f : Fld) : NDA Rat :=
  ⟨f.data.shape ++ [f.nvdim],
   fun i => (f.data.get (i.take f.data.shape.length)).getD (i.getD f.data.shape.length 0) 0⟩

def sumSq (v : List Rat) (nv : Nat) : Rat := (tab nv fun c => v.getD c 0 * v.getD c 0).foldl (· + ·) 0

/-- `field.norm.array` **squared**: shape `(*n, 1)` -/
def normSqArr (f : Fld) : NDA Rat :=
  ⟨f.data.shape ++ [1], fun i => sumSq (f.data.get (i.take f.data.shape.length)) f.nvdim⟩

/-- `getattr(field, label).array` = `field.array[..., c, np.newaxis]`: shape `(*n, 1)` -/
def compArr (f : Fld) (c : Nat) : NDA Rat :=
  ⟨f.data.shape ++ [1], fun i => (array4 f).get (i.take f.data.shape.length ++ [c])⟩

/-- `field.valid.astype(int)`: shape `n` -/
def validInt (f : Fld) : NDA Rat := f.valid.map fun b => if b then 1 else 0

/-- `a.transpose((2, 1, 0, 3)).reshape(-1)` (also `.reshape((-1, nvdim))`: same buffer) -/
def flat4 {α} (a : NDA α) : List α := (a.transpose [2, 1, 0, 3]).toList

/-- `a.transpose((2, 1, 0)).reshape(-1)` -/
def flat3 {α} (a : NDA α) : List α := (a.transpose [2, 1, 0]).toList

/-- the scalar array of the component called `lbl` (`getattr(self, lbl)` uses `vdims.index`) -/
def compVArr (f : Fld) (vs : List String) (lbl : String) : VArr :=
  ⟨lbl, 1, false, flat4 (compArr f ((indexOf? vs lbl).getD 0))⟩

/-- the loop `for comp in self.vdims: cell_data.AddArray(getattr(self, comp)…)` -/
def compArrays (f : Fld) (vs : List String) (acc : List VArr) : List VArr :=
  vs.foldl (fun acc lbl => addArray acc (compVArr f vs lbl)) acc

def normVArr (f : Fld) : VArr := ⟨"norm", 1, false, flat4 (normSqArr f)⟩
def fieldVArr (f : Fld) : VArr := ⟨"field", f.nvdim, false, flat4 (array4 f)⟩
def validVArr (f : Fld) : VArr := ⟨"valid", 1, true, flat3 (validInt f)⟩

/-- the cell data assembled by `to_vtk`, in `AddArray` order -/
def cellData (f : Fld) : List VArr :=
  addArray
    (addArray
      (if 1 < f.nvdim then compArrays f (f.vdims.getD []) (addArray [] (normVArr f))
       else addArray [] (normVArr f))
      (fieldVArr f))
    (validVArr f)

/-- `Field.to_vtk()` -/
def toVtk (f : Fld) : M Grid :=
  if f.mesh.region.ndim ≠ 3 then .error .runtime
  else if 1 < f.nvdim ∧ f.vdims = none then .error .value
  else .ok { dims := f.mesh.n.map (· + 1),
             coords := tab 3 fun a => f.mesh.vertices.getD a [],
             cell := cellData f }

/-- the active attributes `to_vtk` sets on the cell data, `(scalars, vectors)`:
`SetActiveVectors("field")` for three components, `SetActiveScalars("field")` for one, nothing
otherwise (what a viewer colours by / draws arrows for by default) -/
def activeAttr (f : Fld) : Option String × Option String :=
  if f.nvdim = 3 then (none, some "field")
  else if f.nvdim = 1 then (some "field", none)
  else (none, none)

/-! ## `Field` constructor on the array path (what both readers call) -/

/-- `vdims` setter on a fresh field (names colliding with `Field` attributes are not
modelled: the harness never produces them) -/
def vdimsSet (nvdim : Nat) : Option (List String) → M (Option (List String))
  | none => .ok (Fld.defaultVdims nvdim)
  | some [] => .ok none
  | some (x :: l) =>
    if (x :: l).length ≠ nvdim then .error .value
    else if hasDup (x :: l) then .error .value
    else .ok (some (x :: l))

/-- `vdim_mapping` setter with `None` -/
def defaultVmap (nvdim : Nat) (dims : List String) (vdims : Option (List String)) :
    List (String × String) :=
  if nvdim = 1 then []
  else if nvdim = dims.length then
    match vdims with
    | some l => List.zip l dims
    | none => []
  else []

/-- `Field(mesh, nvdim=dim, value=array, vdims=vdims, valid=valid)` with an array of shape
`(*n, dim)` and a mask of shape `n` (since repo fix d1932c87 an unlabelled field with as many
components as the mesh has axes is accepted: its component-to-axis mapping is empty) -/
def mkField (m : Mesh) (dim : Nat) (data : NDA (List Rat)) (valid : NDA Bool)
    (vdims : Option (List String)) : M Fld :=
  if dim < 1 then .error .value
  else match vdimsSet dim vdims with
    | .error e => .error e
    | .ok vd =>
      .ok { mesh := m, nvdim := dim, data := data, valid := valid, vdims := vd,
            vmap := defaultVmap dim m.region.dims vd, unit := none }

/-! ## subregion side-car (`<file>.subregions.json`) -/

/-- `Region(**val)` for a stored `{pmin, pmax, dims, units, tolerance_factor}` -/
def regionKw (s : Region) : M Region :=
  if s.pmin.length ≠ s.pmax.length then .error .value
  else if !allLt s.pmin.length (fun a => decide (s.pmin.getD a 0 < s.pmax.getD a 0)) then .error .value
  else Region.mk? s.pmin s.pmax (some s.dims) (some s.units) s.tol

def mapE {α β : Type} (f : α → M β) : List α → M (List β)
  | [] => .ok []
  | x :: xs =>
    match f x with
    | .error e => .error e
    | .ok y =>
      match mapE f xs with
      | .error e => .error e
      | .ok ys => .ok (y :: ys)

/-- `mesh.load_subregions(filename)` under `contextlib.suppress(FileNotFoundError)` -/
def loadSubs (m : Mesh) : Option (List (String × Region)) → M Mesh
  | none => .ok m
  | some l =>
    match mapE (fun (p : String × Region) => (regionKw p.2).map fun r => (p.1, r)) l with
    | .error e => .error e
    | .ok subs => T.setSubs m subs

/-! ## `_from_vtk`: cell-data files -/

/-- outcome of the loop over array names -/
structure Scan where
  fieldIdx : Option Nat
  validIdx : Option Nat
  vdims : List String
  deriving DecidableEq, Repr, Inhabited

def scan : List VArr → Nat → Scan → Scan
  | [], _, s => s
  | a :: as, i, s =>
    if a.name = "field" then scan as (i + 1) { s with fieldIdx := some i }
    else if a.name = "valid" then scan as (i + 1) { s with validIdx := some i }
    else if a.name ≠ "norm" then scan as (i + 1) { s with vdims := s.vdims ++ [a.name] }
    else scan as (i + 1) s

/-- `vtk_to_numpy(array).reshape(*reversed(n), dim).transpose((2, 1, 0, 3))` -/
def unflat4 (n : List Nat) (dim : Nat) (vals : List Rat) : M (NDA Rat) :=
  if vals.length ≠ natProd n * dim then .error .value
  else .ok ((NDA.ofList (n.reverse ++ [dim]) vals 0).transpose [2, 1, 0, 3])

/-- `vtk_to_numpy(valid_array).reshape(*reversed(n)).transpose((2, 1, 0))` -/
def unflat3 (n : List Nat) (vals : List Rat) : M (NDA Rat) :=
  if vals.length ≠ natProd n then .error .value
  else .ok ((NDA.ofList n.reverse vals 0).transpose [2, 1, 0])

/-- a `(*n, dim)` array as per-cell vectors -/
def cellsOf (a : NDA Rat) (n : List Nat) (dim : Nat) : NDA (List Rat) :=
  ⟨n, fun i => tab dim fun c => a.get (i ++ [c])⟩

/-- the `valid` setter's cast to Boolean -/
def toBool (a : NDA Rat) (n : List Nat) : NDA Bool := ⟨n, fun i => decide (a.get i ≠ 0)⟩

/-- lower / upper bounds (`GetBounds()[::2]`, `[1::2]`) and cell counts of a grid -/
def Grid.p1 (g : Grid) : List Rat := tab 3 fun a => (g.ax a).getD 0 0
def Grid.p2 (g : Grid) : List Rat := tab 3 fun a => (g.ax a).getD ((g.ax a).length - 1) 0
def Grid.n (g : Grid) : List Nat := g.dims.map (· - 1)

/-- `Mesh(p1=p1, p2=p2, n=n)` -/
def meshOf (p1 p2 : List Rat) (n : List Nat) : M Mesh :=
  match Region.mk? p1 p2 none none with
  | .error e => .error e
  | .ok r => Mesh.mkN? r n

def validOf (g : Grid) : Option Nat → M (NDA Bool)
  | none => .ok (NDA.const g.n true)
  | some vi =>
    match unflat3 g.n (g.cell.getD vi default).vals with
    | .error e => .error e
    | .ok v => .ok (toBool v g.n)

/-- `_from_vtk` for a grid that has cell data -/
def fromCells (g : Grid) (sidecar : Option (List (String × Region))) : M Fld :=
  match (scan g.cell 0 ⟨none, none, []⟩).fieldIdx with
  | none => .error .runtime
  | some fi =>
    match unflat4 g.n (g.cell.getD fi default).ncomp (g.cell.getD fi default).vals with
    | .error e => .error e
    | .ok value =>
      match validOf g (scan g.cell 0 ⟨none, none, []⟩).validIdx with
      | .error e => .error e
      | .ok valid =>
        match meshOf g.p1 g.p2 g.n with
        | .error e => .error e
        | .ok m0 =>
          match loadSubs m0 sidecar with
          | .error e => .error e
          | .ok m =>
            mkField m (g.cell.getD fi default).ncomp
              (cellsOf value g.n (g.cell.getD fi default).ncomp) valid
              (if (scan g.cell 0 ⟨none, none, []⟩).vdims.length ≠ (g.cell.getD fi default).ncomp then none
               else some (scan g.cell 0 ⟨none, none, []⟩).vdims)

/-! ## `_from_vtk_legacy`: point-data files of discretisedfield ≤ 0.61 -/

/-- one line of the file, as far as the legacy reader looks at it -/
inductive LLine where
  /-- contains `X_COORDINATES` / `Y_COORDINATES` / `Z_COORDINATES`; `int(line.split()[1])` -/
  | coords (count : Nat)
  /-- only numbers -/
  | nums (xs : List Rat)
  /-- starts with `VECTORS` -/
  | vectors
  /-- starts with `SCALARS` -/
  | scalars
  /-- any other line starting with a letter -/
  | alpha
  /-- empty line (`line[0]` raises) or a line that is neither alphabetic nor numeric -/
  | junk
  deriving DecidableEq, Repr, Inhabited

/-- the loop over `X_/Y_/Z_COORDINATES` lines: `(count, numbers of the next line)` in file order -/
def coordEntries : List LLine → M (List (Nat × List Rat))
  | [] => .ok []
  | .coords cnt :: rest =>
    match rest with
    | .nums xs :: _ =>
      match coordEntries rest with
      | .error e => .error e
      | .ok es => .ok ((cnt, xs) :: es)
    | _ => .error .value
  | _ :: rest => coordEntries rest

/-- lines after the first line starting with the data marker -/
def afterMarker (vec : Bool) : List LLine → Option (List LLine)
  | [] => none
  | l :: rest =>
    if (vec && l == .vectors) || (!vec && l == .scalars) then some rest else afterMarker vec rest

def setCell (a : NDA (List Rat)) (i : List Nat) (v : List Rat) : NDA (List Rat) :=
  ⟨a.shape, fun j => if j = i then v else a.get j⟩

/-- `for i, line in zip(mesh.indices, lines): if not line[0].isalpha(): field.array[i] = …` -/
def fill (dim : Nat) : List (List Nat) → List LLine → NDA (List Rat) → M (NDA (List Rat))
  | [], _, a => .ok a
  | _ :: _, [], a => .ok a
  | i :: is, l :: ls, a =>
    match l with
    | .nums xs =>
      if xs.length = dim then fill dim is ls (setCell a i xs)
      else if xs.length = 1 then fill dim is ls (setCell a i (List.replicate dim (xs.getD 0 0)))
      else .error .value
    | .junk => .error .index
    | _ => fill dim is ls a

/-- the binary64 number `1e-9` (default cell of a single-point axis) -/
def nm1 : Rat := 4835703278458517/4835703278458516698824704

/-- origin, cell and point count per axis -/
def legOrigin (es : List (Nat × List Rat)) : List Rat := es.map fun e => e.2.getD 0 0
def legCell (es : List (Nat × List Rat)) : List Rat :=
  es.map fun e => if 1 < e.2.length then e.2.getD 1 0 - e.2.getD 0 0 else nm1
def legN (es : List (Nat × List Rat)) : List Nat := es.map fun e => e.1
def legP1 (es : List (Nat × List Rat)) : List Rat :=
  tab es.length fun a => (legOrigin es).getD a 0 - (legCell es).getD a 0 * (1/2)
def legP2 (es : List (Nat × List Rat)) : List Rat :=
  tab es.length fun a => (legP1 es).getD a 0 + ((legN es).getD a 0 : Rat) * (legCell es).getD a 0

def legacyRead (lines : List LLine) (sidecar : Option (List (String × Region))) : M Fld :=
  match coordEntries lines with
  | .error e => .error e
  | .ok es =>
    if es.any (fun e => e.2.length = 0) then .error .index
    else match meshOf (legP1 es) (legP2 es) (legN es) with
      | .error e => .error e
      | .ok m0 =>
        match loadSubs m0 sidecar with
        | .error e => .error e
        | .ok m =>
          match mkField m (if lines.contains .vectors then 3 else 1)
                  (NDA.const m.n (List.replicate (if lines.contains .vectors then 3 else 1) 0))
                  (NDA.const m.n true) none with
          | .error e => .error e
          | .ok f0 =>
            match afterMarker (lines.contains .vectors) lines with
            | none => .error .runtime
            | some rest =>
              match fill f0.nvdim (indicesCode m.n)
                      (rest.drop (if lines.contains .vectors then 0 else 1)) f0.data with
              | .error e => .error e
              | .ok d => .ok { f0 with data := d }

/-! ## files -/

inductive Rep where
  | xml | bin | txt
  deriving DecidableEq, Repr, Inhabited

/-- writer selection of `_to_vtk` -/
def repOf (s : String) : M Rep :=
  if s = "xml" then .ok .xml
  else if s = "bin" ∨ s = "bin8" ∨ s = "txt" then (if s = "txt" then .ok .txt else .ok .bin)
  else .error .value

/-- value-wise image of a grid's floating numbers (integer arrays are written exactly) -/
def mapGrid (r : Rat → Rat) (g : Grid) : Grid :=
  { g with coords := g.coords.map fun X => X.map r,
           cell := g.cell.map fun a => if a.int then a else { a with vals := a.vals.map r } }

/-- `vtkDataWriter::WriteCellData` of the legacy (`bin` / `txt`) writer: the active scalars
and the active vectors go first, each into a section of its own (`SCALARS name type` +
`LOOKUP_TABLE default`, `VECTORS name type`), then `FIELD FieldData k` holds the `k` remaining
arrays in index order.  `vtkDataReader` adds the arrays in file order, so this is the order of
the arrays in the grid a VTK reader returns for a legacy file (the XML writer keeps the order). -/
def legacyOrder (act : Option String × Option String) (cell : List VArr) : List VArr :=
  (match act.1 with
   | some s => cell.filter fun a => a.name == s
   | none => []) ++
  ((match act.2 with
    | some v => cell.filter fun a => a.name == v
    | none => []) ++
   cell.filter fun a => !(some a.name == act.1) && !(some a.name == act.2))

/-- one data section of a legacy file: its keyword and the array names it holds -/
inductive Sect where
  | scalars (name : String)
  | vectors (name : String)
  | field (names : List String)
  deriving DecidableEq, Repr, Inhabited

/-- the `CELL_DATA` sections of the legacy file, in file order (a `FIELD` block is written only
when an array is left for it) -/
def legacySections (act : Option String × Option String) (cell : List VArr) : List Sect :=
  (match act.1 with
   | some s => (cell.filter fun a => a.name == s).map fun a => Sect.scalars a.name
   | none => []) ++
  ((match act.2 with
    | some v => (cell.filter fun a => a.name == v).map fun a => Sect.vectors a.name
    | none => []) ++
   (if (cell.filter fun a => !(some a.name == act.1) && !(some a.name == act.2)).isEmpty then []
    else [Sect.field ((cell.filter fun a => !(some a.name == act.1) && !(some a.name == act.2)).map fun a => a.name)]))

/-- the grid a VTK reader returns for the file a writer of representation `r` makes of `g` -/
def writtenGrid (r : Rep) (act : Option String × Option String) (rnd : Rat → Rat) (g : Grid) : Grid :=
  match r with
  | .xml => g
  | .bin => { g with cell := legacyOrder act g.cell }
  | .txt => mapGrid rnd { g with cell := legacyOrder act g.cell }

/-- what a VTK reader returns for the written file, plus the side-car -/
structure VFile where
  rep : Rep
  grid : Grid
  sidecar : Option (List (String × Region))
  deriving DecidableEq, Repr, Inhabited

/-- `Field.to_file("x.vtk", representation, save_subregions)`: writer selection, `to_vtk`,
then the side-car (only when the mesh has subregions); `rnd` is the text writer's rounding -/
def toFile (f : Fld) (rep : String) (saveSubs : Bool) (rnd : Rat → Rat) : M VFile :=
  match repOf rep with
  | .error e => .error e
  | .ok r =>
    match toVtk f with
    | .error e => .error e
    | .ok g =>
      .ok { rep := r, grid := writtenGrid r (activeAttr f) rnd g,
            sidecar := if saveSubs && !f.mesh.subs.isEmpty then some f.mesh.subs else none }

/-- `Field.from_file("x.vtk")`: a grid without cell data is handed to the legacy reader -/
def readVtk (g : Grid) (lines : List LLine) (sidecar : Option (List (String × Region))) : M Fld :=
  if g.cell.isEmpty then legacyRead lines sidecar else fromCells g sidecar

def fromFile (v : VFile) : M Fld := readVtk v.grid [] v.sidecar

/-! ## a directory: histories of `to_file` / `from_file` calls on file names

`_to_vtk` writes `<name>` (always) and `<name>.subregions.json` (only when asked for and the
mesh has subregions; an existing side-car of that name is **left as it is** otherwise);
`_from_vtk` reads `<name>` and, when it exists, `<name>.subregions.json`.  Nothing else is
kept between calls: no reader or writer object outlives a call. -/

/-- `<name>` as a VTK reader returns it / as the legacy reader tokenises it -/
structure VtkFile where
  grid : Grid
  lines : List LLine
  deriving DecidableEq, Repr, Inhabited

/-- the files of a directory the VTK code touches, by name -/
structure Dir where
  vtk : List (String × VtkFile)
  json : List (String × List (String × Region))
  deriving DecidableEq, Repr, Inhabited

/-- create or overwrite the file called `k` -/
def put {α : Type} : List (String × α) → String → α → List (String × α)
  | [], k, v => [(k, v)]
  | p :: l, k, v => if p.1 = k then (k, v) :: l else p :: put l k v

/-- content of the file called `k`, if it exists -/
def look {α : Type} (l : List (String × α)) (k : String) : Option α := (l.find? fun p => p.1 == k).map (·.2)

/-- `field.to_file(name, representation, save_subregions)` in directory `d`: a rejected call
writes nothing -/
def Dir.write (d : Dir) (name : String) (f : Fld) (rep : String) (save : Bool) (rnd : Rat → Rat) : M Dir :=
  match toFile f rep save rnd with
  | .error e => .error e
  | .ok v =>
    .ok { vtk := put d.vtk name ⟨v.grid, []⟩,
          json := match v.sidecar with
                  | some s => put d.json name s
                  | none => d.json }

/-- `Field.from_file(name)` in directory `d` -/
def Dir.read (d : Dir) (name : String) : M Fld :=
  match look d.vtk name with
  | none => .error .runtime
  | some file => readVtk file.grid file.lines (look d.json name)

/-- one call of a session -/
inductive DOp where
  | write (name : String) (f : Fld) (rep : String) (save : Bool)
  | read (name : String)

/-- file name a call works on -/
def DOp.name : DOp → String
  | .write n _ _ _ => n
  | .read n => n

/-- a failed call leaves the directory as it was; a read never changes it -/
def Dir.step (rnd : Rat → Rat) (d : Dir) : DOp → Dir × M (Option Fld)
  | .write name f rep save =>
    match d.write name f rep save rnd with
    | .ok d' => (d', .ok none)
    | .error e => (d, .error e)
  | .read name => (d, (d.read name).map some)

/-- a session: the results of all calls, in order -/
def Dir.run (rnd : Rat → Rat) : Dir → List DOp → List (M (Option Fld))
  | _, [] => []
  | d, o :: os => (d.step rnd o).2 :: Dir.run rnd (d.step rnd o).1 os

/-- the directory after a session -/
def Dir.after (rnd : Rat → Rat) : Dir → List DOp → Dir
  | d, [] => d
  | d, o :: os => Dir.after rnd (d.step rnd o).1 os

/-! ## spec-layer vocabulary used by the theorems -/

/-- labels that collide neither with each other nor with the fixed array names -/
def LabelsOk (vs : List String) : Prop :=
  hasDup vs = false ∧ ¬ "norm" ∈ vs ∧ ¬ "field" ∈ vs ∧ ¬ "valid" ∈ vs

/-- a 3-d field as the `Field` constructor leaves it: mesh invariant, array and mask of the
mesh's shape, every cell vector of length `nvdim`, labelled when it has more than one
component -/
structure WF (f : Fld) (nx ny nz : Nat) : Prop where
  mesh : f.mesh.Inv
  n : f.mesh.n = [nx, ny, nz]
  dshape : f.data.shape = [nx, ny, nz]
  vshape : f.valid.shape = [nx, ny, nz]
  nv : 1 ≤ f.nvdim
  labels : 1 < f.nvdim → ∃ vs, f.vdims = some vs ∧ vs.length = f.nvdim ∧ LabelsOk vs

/-- a point-data file as discretisedfield ≤ 0.61 wrote it: header lines, the three coordinate
blocks (`N a` numbers `X a` each), further lines (`POINT_DATA`, per-component scalar blocks of
vector files), the data marker (`VECTORS …`, or `SCALARS …` + `LOOKUP_TABLE …`), one line per
point, anything after -/
def legacyFile (pre mid post : List LLine) (N : Nat → Nat) (X : Nat → List Rat) (vec : Bool)
    (rows : List (List Rat)) : List LLine :=
  pre ++ ([.coords (N 0), .nums (X 0), .coords (N 1), .nums (X 1), .coords (N 2), .nums (X 2)] ++
    (mid ++ ((if vec then [.vectors] else [.scalars, .alpha]) ++ (rows.map .nums ++ post))))

/-- the same layout with coordinate blocks that run over several lines (`first a` is the line
after the header of axis `a`, `cont a` the continuation lines) -/
def legacyFileSplit (pre mid post : List LLine) (N : Nat → Nat) (first : Nat → List Rat) (cont : Nat → List LLine)
    (vec : Bool) (rows : List (List Rat)) : List LLine :=
  pre ++ ((.coords (N 0) :: .nums (first 0) :: cont 0) ++ ((.coords (N 1) :: .nums (first 1) :: cont 1) ++
    ((.coords (N 2) :: .nums (first 2) :: cont 2) ++
      (mid ++ ((if vec then [.vectors] else [.scalars, .alpha]) ++ (rows.map .nums ++ post))))))

/-- the region `Region(p1, p2)` builds from the bounds of a grid: default names and tolerance -/
def plainRegion (pmin pmax : List Rat) : Region :=
  { pmin := pmin, pmax := pmax, dims := ["x", "y", "z"], units := ["m", "m", "m"], tol := 1/1000000000000 }

/-- cell size the legacy reader derives on axis `a` from `N a` points of spacing `c a`: the
spacing, or the 1 nm default when there is a single point -/
def legCe (N : Nat → Nat) (c : Nat → Rat) (a : Nat) : Rat := if 1 < N a then c a else nm1

/-- lines among which the legacy reader finds no coordinate header and no `VECTORS` line -/
def Quiet (l : List LLine) : Prop := ∀ x ∈ l, (∀ c, x ≠ .coords c) ∧ x ≠ .vectors

/-- the flag the reader gives the cell with structured id `t`: `True` without a `valid` array,
otherwise "entry `t` of the array with index `vi` is non-zero" -/
def readFlag (g : Grid) (vi : Option Nat) (t : Nat) : Bool :=
  match vi with
  | none => true
  | some q => decide ((g.cell.getD q default).vals.getD t 0 ≠ 0)

/-- the last array of a list that is called `nm` (what `GetArray(idx)` returns for the index the
reader's name loop ends with) -/
def lastNamed (nm : String) (l : List VArr) : Option VArr := (l.filter fun a => a.name == nm).getLast?

/-- names the reader takes for component labels: everything but `field`, `valid`, `norm` -/
def isLabelName (s : String) : Bool := s != "field" && s != "valid" && s != "norm"

/-- arrays the reader takes for component scalars -/
def isLabel (a : VArr) : Bool := a.name != "field" && a.name != "valid" && a.name != "norm"

/-- the label names of a list of arrays, in file order -/
def labelNames (l : List VArr) : List String := (l.filter isLabel).map fun a => a.name

/-- the mesh `Mesh(p1=p1, p2=p2, n=n)` builds from three-axis bounds: corners normalised, default
names, units and tolerance, no boundary condition, no subregions -/
def boundsMesh (p1 p2 : List Rat) (n : List Nat) : Mesh :=
  { region := plainRegion (tab 3 fun a => min (p1.getD a 0) (p2.getD a 0)) (tab 3 fun a => max (p1.getD a 0) (p2.getD a 0)),
    n := n, bc := "", subs := [] }

/-- a 3-d field as the `Field` constructor leaves it when NOTHING is assumed about the labels
beyond what the `vdims` setter enforces for every field: as many as components, distinct -/
structure WFc (f : Fld) (nx ny nz : Nat) : Prop where
  mesh : f.mesh.Inv
  n : f.mesh.n = [nx, ny, nz]
  dshape : f.data.shape = [nx, ny, nz]
  vshape : f.valid.shape = [nx, ny, nz]
  nv : 1 ≤ f.nvdim
  labels : 1 < f.nvdim → ∃ vs, f.vdims = some vs ∧ vs.length = f.nvdim ∧ hasDup vs = false

/-- the data section of a legacy file after the marker: which of its lines the reader's loop
`for i, line in zip(mesh.indices, lines)` accepts — it looks at the first `cnt` lines only;
a line starting with a letter is skipped (its cell keeps the initial zero), a numeric line must
hold `dim` numbers or one (broadcast), an empty or otherwise non-numeric line raises -/
def DataOk (dim cnt : Nat) (body : List LLine) : Prop :=
  ∀ q, q < cnt → q < body.length →
    body.getD q .junk ≠ .junk ∧ ∀ xs, body.getD q .junk = .nums xs → xs.length = dim ∨ xs.length = 1

/-- the value the legacy reader stores for data line `l` (`none`: the cell keeps its zero) -/
def lineValue (dim : Nat) : LLine → Option (List Rat)
  | .nums xs => if xs.length = dim then some xs else some (List.replicate dim (xs.getD 0 0))
  | _ => none

/-- what cell number `t` (in x-fastest order) holds after the legacy reader's data loop over the
lines `body`: the value of data line `t` if there is one and it is numeric, its previous content
`old` otherwise (line missing: truncated section; line starting with a letter: skipped) -/
def cellAfter (dim : Nat) (body : List LLine) (t : Nat) (old : List Rat) : List Rat :=
  if t < body.length then (lineValue dim (body.getD t .junk)).getD old else old

/-- the old layout with coordinate blocks that may run over several lines and ANY lines after
the data marker (`body`: data lines, truncated or not, and whatever follows) -/
def legacyFileBody (pre mid : List LLine) (N : Nat → Nat) (first : Nat → List Rat) (cont : Nat → List LLine)
    (vec : Bool) (body : List LLine) : List LLine :=
  pre ++ ((.coords (N 0) :: .nums (first 0) :: cont 0) ++ ((.coords (N 1) :: .nums (first 1) :: cont 1) ++
    ((.coords (N 2) :: .nums (first 2) :: cont 2) ++
      (mid ++ ((if vec then [.vectors] else [.scalars, .alpha]) ++ body)))))

/-- every side-car file of the directory holds at least one subregion (`to_file` writes a
side-car only for a mesh that has subregions) -/
def CarsNonempty (d : Dir) : Prop := ∀ p ∈ d.json, p.2 ≠ []

/-- the call is a successful `to_file` under `name` that writes a side-car -/
def DOp.writesCar (rnd : Rat → Rat) (name : String) : DOp → Prop
  | .write n f rep save => n = name ∧ save = true ∧ f.mesh.subs.isEmpty = false ∧ ∃ v, toFile f rep save rnd = .ok v
  | .read _ => False

/-- the component arrays `to_vtk` adds -/
def comps (f : Fld) : List VArr :=
  if 1 < f.nvdim then (f.vdims.getD []).map (compVArr f (f.vdims.getD [])) else []

end DFV.C16
