import DFV.Model.Field
/-!
C09 model: `discretisedfield/io/ovf.py` (`_to_ovf`, `_from_ovf`), the subregion side-car of
`discretisedfield/io/__init__.py`, and an independent OVF 1.0 / 2.0 reference writer and
reader written from the OVF specification.  Core Lean only.

An OVF file is modelled as

* the first line (`# OOMMF OVF 2.0`), kept as text: the reader decides the version by
  looking for the substring `2.0` in it;
* the header lines up to and including the `# Begin: Data …` line, already split into
  `key: value` (what `line[1:].split(":")` + `strip()` produce).  Numbers are stored as the
  rationals they denote: Python's `repr`/`float`/`int` are the trusted `fmt/parse` pair;
* the data section: for binary files the raw **bytes** that follow the data line (check
  value, payload, `\n`, footer), for text files the parsed rows.

Payload values are of an arbitrary type `α` moved around by the codec (`Codec α`:
`enc/dec` for 4- and 8-byte little/big endian, the two check values, zero).  The driver
instantiates `α := Rat` with a bit-exact IEEE-754 binary32/binary64 codec (`ieee`).
-/
namespace DFV.C09
open DFV

abbrev Byte := Nat

/-! ## IEEE-754 on rationals (driver instantiation of the codec) -/

def pow2 (e : Int) : Rat := if 0 ≤ e then (2 : Rat) ^ e.toNat else 1 / (2 : Rat) ^ (-e).toNat

/-- `⌊log2 a⌋` for `a > 0` -/
def ilog2 (a : Rat) : Int :=
  if pow2 ((a.num.natAbs.log2 : Int) - (a.den.log2 : Int)) ≤ a
  then (a.num.natAbs.log2 : Int) - (a.den.log2 : Int)
  else (a.num.natAbs.log2 : Int) - (a.den.log2 : Int) - 1

structure Fmt where
  ebits : Nat
  mbits : Nat

def f64 : Fmt := ⟨11, 52⟩
def f32 : Fmt := ⟨8, 23⟩
def Fmt.bias (F : Fmt) : Int := (2 : Int) ^ (F.ebits - 1) - 1
def Fmt.emin (F : Fmt) : Int := 1 - F.bias
def Fmt.infBits (F : Fmt) : Nat := (2 ^ F.ebits - 1) * 2 ^ F.mbits
def Fmt.signBit (F : Fmt) : Nat := 2 ^ (F.ebits + F.mbits)

/-- bit pattern of `a > 0` rounded to nearest, ties to even; overflow saturates at the
pattern of infinity.  (The carry of a mantissa that rounds up to the next binade is the
carry of the addition.) -/
def bitsAbs (F : Fmt) (a : Rat) : Nat :=
  if ilog2 a < F.emin then
    min F.infBits (Mesh.roundHalfEven (a / pow2 (F.emin - F.mbits))).toNat
  else
    min F.infBits
      ((ilog2 a + F.bias).toNat * 2 ^ F.mbits
        + ((Mesh.roundHalfEven (a / pow2 (ilog2 a - F.mbits))).toNat - 2 ^ F.mbits))

def toBits (F : Fmt) (x : Rat) : Nat :=
  if x = 0 then 0 else if x < 0 then F.signBit + bitsAbs F (-x) else bitsAbs F x

/-- value of a bit pattern; infinity is represented by `±2^(emax+1)`, NaN by `±2^(emax+2)` -/
def fromBits (F : Fmt) (b : Nat) : Rat :=
  (if b / F.signBit % 2 = 1 then -1 else 1) *
  (if b / 2 ^ F.mbits % 2 ^ F.ebits = 2 ^ F.ebits - 1 then
      (if b % 2 ^ F.mbits = 0 then pow2 (F.bias + 1) else pow2 (F.bias + 2))
   else if b / 2 ^ F.mbits % 2 ^ F.ebits = 0 then
      ((b % 2 ^ F.mbits : Nat) : Rat) * pow2 (F.emin - F.mbits)
   else
      ((2 ^ F.mbits + b % 2 ^ F.mbits : Nat) : Rat)
        * pow2 ((b / 2 ^ F.mbits % 2 ^ F.ebits : Nat) - F.bias - F.mbits))

def leBytes (w : Nat) (n : Nat) : List Byte := tab w fun i => n / 256 ^ i % 256
def ofLE : List Byte → Nat
  | [] => 0
  | b :: bs => b + 256 * ofLE bs

def fmtOf (w : Nat) : Fmt := if w = 4 then f32 else f64

/-- float32 rounding of a rational (`np.float32(x)` as a rational; ±2^128 stands for ±inf) -/
def narrow32 (x : Rat) : Rat := fromBits f32 (toBits f32 x)

/-! ## Codec -/

/-- how payload values become bytes.  `enc le w x`: the `w` bytes of `x` (little endian
when `le`), after conversion to the `w`-byte float type; `dec` the inverse direction
(`struct.unpack` / `np.fromfile`, total on `w` bytes). -/
structure Codec (α : Type) where
  enc : Bool → Nat → α → List Byte
  dec : Bool → Nat → List Byte → α
  magic : Nat → α
  zero : α
  /-- the value an empty text field is read to (`NaN`; codecs without one use `zero`) -/
  nan : α := zero

def ieee : Codec Rat where
  enc le w x := if le then leBytes w (toBits (fmtOf w) x) else (leBytes w (toBits (fmtOf w) x)).reverse
  dec le w bs := fromBits (fmtOf w) (ofLE (if le then bs else bs.reverse))
  magic w := if w = 4 then 1234567 else 123456789012345
  zero := 0
  nan := pow2 (f64.bias + 2)

/-- what the codec has to satisfy for the round-trip theorems (`narrow` = float32 rounding) -/
structure Codec.Lawful {α : Type} (c : Codec α) (narrow : α → α) : Prop where
  enc_len : ∀ le w x, (c.enc le w x).length = w
  dec_enc8 : ∀ le x, c.dec le 8 (c.enc le 8 x) = x
  dec_enc4 : ∀ le x, c.dec le 4 (c.enc le 4 x) = narrow x
  narrow_magic : narrow (c.magic 4) = c.magic 4
  narrow_zero : narrow c.zero = c.zero

/-! ## File structure -/

inductive HVal where
  | num (q : Rat)      -- text accepted by `float()`
  | nat (n : Nat)      -- text accepted by `int()` (and by `float()`)
  | str (s : String)   -- anything else
  deriving DecidableEq, Repr, Inhabited

inductive HLine where
  | kv (key : String) (val : HVal)       -- `# key: value`
  | other                                 -- a line without `:` (`#`, blank)
  | beginData (words : List String)       -- `# Begin: Data <words…>`
  deriving DecidableEq, Repr, Inhabited

inductive Body (α : Type) where
  | bin (bytes : List Byte)                              -- everything after the data line
  | text (rows : List (List α)) (footer : List String)   -- parsed rows, then `# End: …` lines

structure OvfFile (α : Type) where
  first : String
  lines : List HLine
  body : Body α

/-- the part of a `Field` an OVF file can hold; `arr` has shape `(*n, nvdim)` -/
structure OField (α : Type) where
  mesh : Mesh
  nvdim : Nat
  arr : NDA α
  vdims : Option (List String)
  unit : Option String

/-! ## Small text helpers (on `List Char`) -/

/-- `" ".join(ws)` -/
def joinSp : List (List Char) → List Char
  | [] => []
  | [w] => w
  | w :: v :: ws => w ++ ' ' :: joinSp (v :: ws)

/-- `"_".join(ws)` -/
def joinUs : List (List Char) → List Char
  | [] => []
  | [w] => w
  | w :: v :: ws => w ++ '_' :: joinUs (v :: ws)

/-- `str.split()` : split at runs of white space, no empty pieces -/
def splitWsGo : List Char → List Char → List (List Char)
  | [], acc => if acc.isEmpty then [] else [acc.reverse]
  | c :: cs, acc =>
    if c.isWhitespace then
      (if acc.isEmpty then splitWsGo cs [] else acc.reverse :: splitWsGo cs [])
    else splitWsGo cs (c :: acc)

def splitWs (l : List Char) : List (List Char) := splitWsGo l []

def hasInfix (p : List Char) : List Char → Bool
  | [] => p.isEmpty
  | c :: cs => p.isPrefixOf (c :: cs) || hasInfix p cs

/-- `b"2.0" in first_line` -/
def isV2 (first : String) : Bool := hasInfix ['2', '.', '0'] first.toList

/-- Python's `\w` on the characters the harness uses: ASCII letters, digits, `_`, and every
non-ASCII character (the harness only uses non-ASCII *letters*) -/
def isWordC (c : Char) : Bool := c.isAlphanum || c == '_' || decide (128 ≤ c.toNat)

/-- `re.findall(r"(\w+|{[\w ]+})", s)`: leftmost, non-overlapping; at each position first a
maximal run of word characters, else `{` + one or more word/space characters + `}`, else
skip one character.  `fuel` ≥ length. -/
def tokensF (isWord : Char → Bool) : Nat → List Char → List (List Char)
  | 0, _ => []
  | _, [] => []
  | k + 1, c :: cs =>
    if isWord c then
      (c :: cs.takeWhile isWord) :: tokensF isWord k (cs.dropWhile isWord)
    else if c = '{' then
      match cs.dropWhile (fun d => isWord d || d == ' ') with
      | '}' :: rest =>
        if (cs.takeWhile (fun d => isWord d || d == ' ')).isEmpty then tokensF isWord k cs
        else ('{' :: cs.takeWhile (fun d => isWord d || d == ' ') ++ ['}']) :: tokensF isWord k rest
      | _ => tokensF isWord k cs
    else tokensF isWord k cs

def tokens (isWord : Char → Bool) (l : List Char) : List (List Char) := tokensF isWord l.length l

/-- `convert` of `_from_ovf`: keep what follows the first `_`, drop braces, join words by `_` -/
def convert (comp : List Char) : List Char :=
  joinUs (splitWs ((if comp.contains '_' then (comp.dropWhile (· != '_')).drop 1 else comp).filter
    fun c => c != '{' && c != '}'))

/-- label recovery: `None` when the labels are not unique -/
def recoverLabels (isWord : Char → Bool) (text : String) : Option (List String) :=
  if hasDup ((tokens isWord text.toList).map fun t => String.ofList (convert t)) then none
  else some ((tokens isWord text.toList).map fun t => String.ofList (convert t))

/-- unit recovery from `valueunits` -/
def recoverUnit (text : String) : Option String :=
  match splitWs text.toList with
  | [] => none
  | u :: us =>
    if !(us.all fun v => v == u) then none
    else if u == "None".toList then none else some (String.ofList u)

/-! ## Writer: `_to_ovf` -/

def repWords : String → M (List String)
  | "bin4" => .ok ["Binary", "4"]
  | "bin8" => .ok ["Binary", "8"]
  | "txt" => .ok ["Text"]
  | _ => .error .value

def repWidth : String → Nat
  | "bin4" => 4
  | "bin8" => 8
  | _ => 0

def writeDim {α} (f : OField α) (extend : Bool) : Nat :=
  if extend && f.nvdim == 1 then 3 else f.nvdim

/-- `str(self.unit) if self.unit else "None"` -/
def unitWord : Option String → String
  | some s => if s = "" then "None" else s
  | none => "None"

def valueUnits {α} (f : OField α) (extend : Bool) : String :=
  String.ofList (joinSp (List.replicate (writeDim f extend) (unitWord f.unit).toList))

def valueLabels {α} (f : OField α) (extend : Bool) : M String :=
  if writeDim f extend = 1 then .ok "field_x"
  else if extend then .ok (String.ofList (joinSp (List.replicate (writeDim f extend) "field_x".toList)))
  else match f.vdims with
    | none => .error .type
    | some vs => .ok (String.ofList (joinSp (vs.map fun c => "field_".toList ++ c.toList)))

def headerLines {α} (f : OField α) (extend : Bool) (labels : String) (rw : List String) : List HLine :=
  [.other, .kv "Segment count" (.nat 1), .other, .kv "Begin" (.str "Segment"),
   .kv "Begin" (.str "Header"), .other, .kv "Title" (.str "Field"),
   .kv "Desc" (.str "File generated by Field class"),
   .kv "meshunit" (.str (f.mesh.region.units.getD 0 "")), .kv "meshtype" (.str "rectangular"),
   .kv "xbase" (.num (f.mesh.region.lo 0 + f.mesh.cellAt 0 / 2)),
   .kv "ybase" (.num (f.mesh.region.lo 1 + f.mesh.cellAt 1 / 2)),
   .kv "zbase" (.num (f.mesh.region.lo 2 + f.mesh.cellAt 2 / 2)),
   .kv "xnodes" (.nat (f.mesh.nAt 0)), .kv "ynodes" (.nat (f.mesh.nAt 1)), .kv "znodes" (.nat (f.mesh.nAt 2)),
   .kv "xstepsize" (.num (f.mesh.cellAt 0)), .kv "ystepsize" (.num (f.mesh.cellAt 1)),
   .kv "zstepsize" (.num (f.mesh.cellAt 2)),
   .kv "xmin" (.num (f.mesh.region.lo 0)), .kv "ymin" (.num (f.mesh.region.lo 1)),
   .kv "zmin" (.num (f.mesh.region.lo 2)),
   .kv "xmax" (.num (f.mesh.region.hi 0)), .kv "ymax" (.num (f.mesh.region.hi 1)),
   .kv "zmax" (.num (f.mesh.region.hi 2)),
   .kv "valuedim" (.nat (writeDim f extend)), .kv "valuelabels" (.str labels),
   .kv "valueunits" (.str (valueUnits f extend)), .other, .kv "End" (.str "Header"), .other,
   .beginData rw]

/-- `self.array.transpose((2, 1, 0, 3)).flat` -/
def flatPayload {α} (f : OField α) : List α := (f.arr.transpose [2, 1, 0, 3]).toList

/-- values of the binary data block (after the `extend_scalar` stacking) -/
def binValues {α} (c : Codec α) (f : OField α) (extend : Bool) : M (List α) :=
  if extend then
    -- `reordered.reshape(list(reversed(self.mesh.n)))` only fits a one-component array
    (if natProd f.arr.shape ≠ natProd f.mesh.n then .error .value
     else .ok ((flatPayload f).flatMap fun x => [x, c.zero, c.zero]))
  else .ok (flatPayload f)

/-- the chunked writer: `ceil(len/cs)` chunks `flat[i*cs : (i+1)*cs]`, each converted and
written in turn -/
def chunked {α} (cs : Nat) (l : List α) : List (List α) :=
  tab ((l.length + cs - 1) / cs) fun i => (l.drop (i * cs)).take cs

def asciiBytes (s : String) : List Byte := s.toList.map Char.toNat

def footerLines (rw : List String) : List String :=
  [String.ofList (joinSp (["#".toList, "End:".toList, "Data".toList] ++ rw.map String.toList)), "# End: Segment"]

def footerBytes (rw : List String) : List Byte :=
  (footerLines rw).flatMap fun l => asciiBytes l ++ [10]

def chunkSize : Nat := 100000

/-- rows of the text writer: `reshape((-1, nvdim))`, then the two zero columns inserted at
positions 1 and 2 of the value columns when `extend_scalar` -/
def textRows {α} (c : Codec α) (f : OField α) (extend : Bool) : List (List α) :=
  tab ((flatPayload f).length / f.nvdim) fun r =>
    if extend then
      (tab f.nvdim fun k => (flatPayload f).getD (r * f.nvdim + k) c.zero).take 1 ++ [c.zero, c.zero]
        ++ (tab f.nvdim fun k => (flatPayload f).getD (r * f.nvdim + k) c.zero).drop 1
    else tab f.nvdim fun k => (flatPayload f).getD (r * f.nvdim + k) c.zero

def allSame (us : List String) : Bool := us.all fun u => u == us.getD 0 ""

/-- body of `_to_ovf` once `extend_scalar` has been rebound (see `toOvf`) -/
def toOvfE {α} (c : Codec α) (f : OField α) (rep : String) (extend : Bool) : M (OvfFile α) :=
  if f.mesh.region.ndim ≠ 3 then .error .runtime
  else match valueLabels f extend with
  | .error e => .error e
  | .ok labels =>
    match repWords rep with
    | .error e => .error e
    | .ok rw =>
      if !allSame f.mesh.region.units then .error .value
      else if repWidth rep = 0 then
        .ok { first := "# OOMMF OVF 2.0", lines := headerLines f extend labels rw,
              body := .text (textRows c f extend) (footerLines rw) }
      else match binValues c f extend with
        | .error e => .error e
        | .ok vals =>
          .ok { first := "# OOMMF OVF 2.0", lines := headerLines f extend labels rw,
                body := .bin (c.enc true (repWidth rep) (c.magic (repWidth rep))
                  ++ ((chunked chunkSize vals).flatMap fun ch => ch.flatMap (c.enc true (repWidth rep)))
                  ++ 10 :: footerBytes rw) }

/-- `Field._to_ovf(filename, representation, extend_scalar)`: extending to three components
only applies to one-component fields (`extend_scalar = extend_scalar and self.nvdim == 1`);
for every other field the option is ignored. -/
def toOvf {α} (c : Codec α) (f : OField α) (rep : String) (extend : Bool) : M (OvfFile α) :=
  toOvfE c f rep (extend && f.nvdim == 1)

/-! ## Reader: `_from_ovf` -/

/-- the header loop: later keys overwrite earlier ones (stored newest first); stops at the
data line; `none` when the file ends before a data line (`mode` is then unbound) -/
def scan : List HLine → List (String × HVal) → Option (List (String × HVal) × List String)
  | [], _ => none
  | .beginData ws :: _, acc => some (acc, ws)
  | .kv k v :: rest, acc => scan rest ((k, v) :: acc)
  | .other :: rest, acc => scan rest acc

def hget (h : List (String × HVal)) (k : String) : M HVal :=
  match h.find? fun p => p.1 == k with
  | some p => .ok p.2
  | none => .error .key

def HVal.toNum : HVal → M Rat
  | .num q => .ok q
  | .nat n => .ok (n : Rat)
  | .str _ => .error .value

def HVal.toNat : HVal → M Nat
  | .nat n => .ok n
  | _ => .error .value

def HVal.text : HVal → M String
  | .str s => .ok s
  | _ => .error .value

def HVal.show : HVal → String
  | .str s => s
  | .nat n => toString n
  | .num _ => ""

def hnum (h : List (String × HVal)) (k : String) : M Rat := hget h k >>= HVal.toNum
def hnat (h : List (String × HVal)) (k : String) : M Nat := hget h k >>= HVal.toNat
def hnums (h : List (String × HVal)) (kx ky kz : String) : M (List Rat) :=
  hnum h kx >>= fun x => hnum h ky >>= fun y => hnum h kz >>= fun z => .ok [x, y, z]
def hnats (h : List (String × HVal)) (kx ky kz : String) : M (List Nat) :=
  hnat h kx >>= fun x => hnat h ky >>= fun y => hnat h kz >>= fun z => .ok [x, y, z]

/-- mesh of the file: `Region(p1, p2, units=[meshunit]*3)`, `Mesh(region, cell=stepsize)` -/
def readMesh (h : List (String × HVal)) : M Mesh :=
  hnums h "xmin" "ymin" "zmin" >>= fun p1 =>
  hnums h "xmax" "ymax" "zmax" >>= fun p2 =>
  hnums h "xstepsize" "ystepsize" "zstepsize" >>= fun cell =>
  hget h "meshunit" >>= fun mu =>
  -- the mesh unit is used as text whatever it looks like
  Region.mk? p1 p2 none (some [mu.show, mu.show, mu.show]) >>= fun r =>
  Mesh.mkCell? r cell

/-- `np.fromfile(f, count, dtype)`: as many whole items as there are, at most `count` -/
def fromfile {α} (c : Codec α) (le : Bool) (w : Nat) (bytes : List Byte) (count : Nat) : List α :=
  tab (min count (bytes.length / w)) fun i => c.dec le w ((bytes.drop (i * w)).take w)

/-- binary data block → flat values (check value test, `fromfile`, `reshape((-1, valuedim))`) -/
def readBin {α} [DecidableEq α] (c : Codec α) (v2 : Bool) (nbytes : Nat) (bytes : List Byte)
    (count vd : Nat) : M (List α) :=
  if bytes.length < nbytes then .error .value            -- struct.error: short read
  else if nbytes ≠ 4 ∧ nbytes ≠ 8 then .error .value
  else if c.dec v2 nbytes (bytes.take nbytes) ≠ c.magic nbytes then .error .value
  else if vd = 0 then .error .value
  else if (fromfile c v2 nbytes (bytes.drop nbytes) count).length % vd ≠ 0 then .error .value
  else .ok (fromfile c v2 nbytes (bytes.drop nbytes) count)

/-- a row with fewer fields than the first one is filled up with NaN -/
def padRow {α} (nan : α) (k : Nat) (r : List α) : List α := r ++ List.replicate (k - r.length) nan

/-- text data block → flat values: `read_csv(nrows=nodes)` looks at the first `nodes` records only; the first
record fixes the number of columns; a record with more fields is refused (`ParserError`), one with fewer is
filled up with NaN; `[]` stands for a record with a field the float parser refuses (a real record has at
least one field); then the drop of a trailing empty column (mumax) -/
def readText {α} (nan : α) (rows : List (List α)) (nodes vd : Nat) : M (List α) :=
  if (rows.take nodes).isEmpty then .error .value        -- EmptyDataError
  else if (rows.take nodes).any (fun r => r.isEmpty) then .error .value
  else if !((rows.take nodes).all fun r => decide (r.length ≤ ((rows.take nodes).headD []).length)) then
    .error .value
  else if ((rows.take nodes).headD []).length = vd + 1 then
    .ok ((rows.take nodes).flatMap fun r => (padRow nan (vd + 1) r).take vd)
  else .ok ((rows.take nodes).flatMap (padRow nan ((rows.take nodes).headD []).length))

/-- `Region(**val)` for one side-car entry, then the checks of the `Mesh.subregions` setter -/
def isAligned (m : Mesh) (sub : Mesh) (tol : Rat) : Bool :=
  allLt m.ndim (fun a => Region.isclose (m.cellAt a) (sub.cellAt a) (1 / 100000) tol) &&
  allLt m.ndim (fun a =>
    !Mesh.notDivisible (absR (m.region.lo a - sub.region.lo a)) (m.cellAt a) tol
    && !Mesh.notDivisible (absR (m.region.hi a - sub.region.hi a)) (m.cellAt a) tol)

def loadOneSub (m : Mesh) (v : Region) : M Region :=
  if v.pmin.length ≠ v.pmax.length then .error .value
  else if !allLt v.pmin.length (fun a => decide (v.pmin.getD a 0 < v.pmax.getD a 0)) then .error .value
  else match Region.mk? v.pmin v.pmax (some v.dims) (some v.units) v.tol with
  | .error e => .error e
  | .ok r =>
    if !m.region.containsReg r then .error .value
    else match Mesh.mkCell? r m.cell with
    | .error e => .error e
    | .ok sm =>
      if !isAligned m sm (1 / 1000000000000) then .error .value
      else Region.mk? r.pmin r.pmax (some m.region.dims) (some m.region.units) m.region.tol

/-- `mesh.load_subregions` -/
def loadSub (m : Mesh) (side : List (String × Region)) : M Mesh :=
  match side.mapM fun p => (loadOneSub m p.2).map fun r => (p.1, r) with
  | .error e => .error e
  | .ok subs => .ok { m with subs := subs }

/-- `json.dump(self.subregions, …)`: name ↦ `Region.to_dict()` -/
def saveSub (m : Mesh) : List (String × Region) := m.subs

/-- the `vdims` setter inside `Field.__init__`; `reserved c` = `hasattr(field, c)` -/
def vdimsSetter (reserved : String → Bool) (nvdim : Nat) : Option (List String) → M (Option (List String))
  | none => .ok (Fld.defaultVdims nvdim)
  | some [] => .ok none
  | some (v :: vs) =>
    if (v :: vs).length ≠ nvdim then .error .value
    else if hasDup (v :: vs) then .error .value
    else if (v :: vs).any reserved then .error .value
    else .ok (some (v :: vs))

structure Parsed (α : Type) where
  mesh : Mesh
  vd : Nat
  flat : List α
  header : List (String × HVal)

/-- `int(text)` for a plain run of decimal digits -/
def digitsVal : List Char → Nat → Option Nat
  | [], acc => some acc
  | c :: cs, acc => if c.isDigit then digitsVal cs (acc * 10 + (c.toNat - 48)) else none

def parseNat (s : String) : Option Nat := if s.toList.isEmpty then none else digitsVal s.toList 0

/-- `int(line.split()[-1])` of the data line -/
def dataWidth (ws : List String) : Option Nat := ws.getLast?.bind parseNat

def isBinary (ws : List String) : Bool := (ws.headD "").toLower == "binary"

/-- the data block, by the mode named on the data line -/
def readBody {α} [DecidableEq α] (c : Codec α) (v2 : Bool) (ws : List String) (body : Body α)
    (nodes vd : Nat) : M (List α) :=
  match body with
  | .bin bytes =>
    if isBinary ws then readBin c v2 ((dataWidth ws).getD 0) bytes (nodes * vd) vd
    else .error .value
  | .text rows _ =>
    if isBinary ws then .error .value else readText c.nan rows nodes vd

def valueDim (first : String) (h : List (String × HVal)) : M Nat :=
  if isV2 first then hnat h "valuedim" else .ok 3

/-- header, mesh and data block of `_from_ovf` (up to the end of the `with open` block) -/
def parse {α} [DecidableEq α] (c : Codec α) (F : OvfFile α) : M (Parsed α) :=
  match scan F.lines [] with
  | none => .error .runtime
  | some (h, ws) =>
    if ws.isEmpty then .error .index                                    -- `line.split()[3]`
    -- `int(line.split()[-1])` for binary data
    else if isBinary ws && (dataWidth ws).isNone then .error .value
    else
      match valueDim F.first h with
      | .error e => .error e
      | .ok vd =>
        match readMesh h with
        | .error e => .error e
        | .ok mesh =>
          match hnats h "xnodes" "ynodes" "znodes" with
          | .error e => .error e
          | .ok nodes =>
            match readBody c (isV2 F.first) ws F.body (natProd nodes) vd with
            | .error e => .error e
            | .ok flat => .ok { mesh := mesh, vd := vd, flat := flat, header := h }

/-- `array.reshape((*reversed(mesh.n), valuedim)).transpose((2, 1, 0, 3))` -/
def unflatten {α} (n : List Nat) (vd : Nat) (flat : List α) (d : α) : M (NDA α) :=
  if flat.length ≠ natProd (n.reverse ++ [vd]) then .error .value
  else .ok ((NDA.ofList (n.reverse ++ [vd]) flat d).transpose [2, 1, 0, 3])

def loadSide (m : Mesh) : Option (List (String × Region)) → M Mesh
  | none => .ok m
  | some s => loadSub m s

/-- `vdims` from `valuelabels` (absent key: `None`) -/
def labelsOf (isWord : Char → Bool) (h : List (String × HVal)) : Option (List String) :=
  match hget h "valuelabels" with
  | .error _ => none
  | .ok v => recoverLabels isWord v.show

/-- `unit` from `valueunits` (absent key: `None`) -/
def unitOf (h : List (String × HVal)) : Option String :=
  match hget h "valueunits" with
  | .error _ => none
  | .ok v => recoverUnit v.show

/-- `Field._from_ovf(filename)`; `side` = content of `<filename>.subregions.json` if it
exists -/
def fromOvf {α} [DecidableEq α] (c : Codec α) (isWord : Char → Bool) (reserved : String → Bool)
    (F : OvfFile α) (side : Option (List (String × Region))) : M (OField α) :=
  match parse c F with
  | .error e => .error e
  | .ok p =>
    match loadSide p.mesh side with
    | .error e => .error e
    | .ok mesh =>
      match unflatten mesh.n p.vd p.flat c.zero with
      | .error e => .error e
      | .ok arr =>
        if p.vd < 1 then .error .value
        else match vdimsSetter reserved p.vd (labelsOf isWord p.header) with
          | .error e => .error e
          | .ok vd' =>
            .ok { mesh := mesh, nvdim := p.vd, arr := arr, vdims := vd', unit := unitOf p.header }

/-! ## Independent reference writer / reader (from the OVF specification) -/

/-- content of a foreign file: a rectangular mesh given by base point (centre of the first
cell), step sizes and node counts, `vd` values per node, nodes in x-fastest order -/
structure Content (α : Type) where
  base : List Rat
  step : List Rat
  nodes : List Nat
  vd : Nat
  meshunit : String
  values : List α

/-- lower / upper face of the mesh of a content along axis `a` -/
def Content.lo {α} (x : Content α) (a : Nat) : Rat := x.base.getD a 0 - x.step.getD a 0 / 2
def Content.hi {α} (x : Content α) (a : Nat) : Rat :=
  x.base.getD a 0 - x.step.getD a 0 / 2 + (x.nodes.getD a 0 : Rat) * x.step.getD a 0

/-- OVF 1.0 (`v2 = false`: big endian, three components, no `valuedim`) or 2.0 writer -/
def refWriter {α} (c : Codec α) (v2 : Bool) (w : Nat) (x : Content α) : OvfFile α :=
  { first := if v2 then "# OOMMF OVF 2.0" else "# OOMMF: rectangular mesh v1.0",
    lines :=
      [.kv "Segment count" (.nat 1), .kv "Begin" (.str "Segment"), .kv "Begin" (.str "Header"),
       .kv "Title" (.str "ref"), .kv "meshtype" (.str "rectangular"), .kv "meshunit" (.str x.meshunit),
       .kv "xbase" (.num (x.base.getD 0 0)), .kv "ybase" (.num (x.base.getD 1 0)), .kv "zbase" (.num (x.base.getD 2 0)),
       .kv "xstepsize" (.num (x.step.getD 0 0)), .kv "ystepsize" (.num (x.step.getD 1 0)),
       .kv "zstepsize" (.num (x.step.getD 2 0)),
       .kv "xnodes" (.nat (x.nodes.getD 0 0)), .kv "ynodes" (.nat (x.nodes.getD 1 0)),
       .kv "znodes" (.nat (x.nodes.getD 2 0)),
       .kv "xmin" (.num (x.lo 0)), .kv "ymin" (.num (x.lo 1)), .kv "zmin" (.num (x.lo 2)),
       .kv "xmax" (.num (x.hi 0)), .kv "ymax" (.num (x.hi 1)), .kv "zmax" (.num (x.hi 2))]
      ++ (if v2 then [.kv "valuedim" (.nat x.vd)] else [.kv "valueunit" (.str "A/m"), .kv "valuemultiplier" (.str "1")])
      ++ [.kv "End" (.str "Header"),
          .beginData (if w = 0 then ["Text"] else ["Binary", toString w])],
    body :=
      if w = 0 then
        .text (tab (x.values.length / x.vd) fun r => tab x.vd fun k => x.values.getD (r * x.vd + k) c.zero)
          ["# End: Data Text", "# End: Segment"]
      else
        .bin (c.enc v2 w (c.magic w) ++ x.values.flatMap (c.enc v2 w)
          ++ 10 :: footerBytes ["Binary", toString w]) }

/-- what an independent OVF 2.0 reader makes of a file: mesh from `base/stepsize/nodes`
(not from `min/max`), little-endian payload in x-fastest order -/
def refReaderBody {α} [DecidableEq α] (c : Codec α) (F : OvfFile α) (ws : List String)
    (base step : List Rat) (nodes : List Nat) (vd : Nat) (mu : String) : M (Content α) :=
  match F.body, ws with
  | .bin bytes, ["Binary", ww] =>
    if bytes.length < ((parseNat ww).getD 0) then .error .value
    else if c.dec true ((parseNat ww).getD 0) (bytes.take ((parseNat ww).getD 0)) ≠ c.magic ((parseNat ww).getD 0) then
      .error .value
    else if (fromfile c true ((parseNat ww).getD 0) (bytes.drop ((parseNat ww).getD 0)) (natProd nodes * vd)).length
        ≠ natProd nodes * vd then .error .value
    else .ok { base := base, step := step, nodes := nodes, vd := vd, meshunit := mu,
               values := fromfile c true ((parseNat ww).getD 0) (bytes.drop ((parseNat ww).getD 0)) (natProd nodes * vd) }
  | .text rows _, ["Text"] =>
    if rows.flatten.length ≠ natProd nodes * vd then .error .value
    else .ok { base := base, step := step, nodes := nodes, vd := vd, meshunit := mu, values := rows.flatten }
  | _, _ => .error .value

def refReader {α} [DecidableEq α] (c : Codec α) (F : OvfFile α) : M (Content α) :=
  match scan F.lines [] with
  | none => .error .runtime
  | some (h, ws) =>
    hnums h "xbase" "ybase" "zbase" >>= fun base =>
    hnums h "xstepsize" "ystepsize" "zstepsize" >>= fun step =>
    hnats h "xnodes" "ynodes" "znodes" >>= fun nodes =>
    hnat h "valuedim" >>= fun vd =>
    (hget h "meshunit" >>= HVal.text) >>= fun mu =>
    refReaderBody c F ws base step nodes vd mu

/-! ## Extension dispatch (`Field.to_file` / `Field.from_file`) -/

def writeKind (suffix : String) : M String :=
  if suffix = ".omf" ∨ suffix = ".ovf" ∨ suffix = ".ohf" then .ok "ovf"
  else if suffix = ".vtk" then .ok "vtk"
  else if suffix = ".hdf5" ∨ suffix = ".h5" then .ok "hdf5"
  else .error .value

def readKind (suffix : String) : M String :=
  if suffix = ".omf" ∨ suffix = ".ovf" ∨ suffix = ".ohf" ∨ suffix = ".oef" then .ok "ovf"
  else if suffix = ".vtk" then .ok "vtk"
  else if suffix = ".hdf5" ∨ suffix = ".h5" then .ok "hdf5"
  else .error .value

end DFV.C09
