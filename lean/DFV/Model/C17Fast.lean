import DFV.Model.C17
/-!
C17, linear-time forms of the spacing test and of the inferred cell size, for the driver.

`diffs`, `meanDiff` and `evenB` of `Model/C17.lean` are written pointwise (`tab` + `getD`), which
is what the theorems want but costs `O(n²)` / `O(n³)` list steps on a coordinate of `n` values.
Here the same quantities are computed in one pass each (`zipWith` over the list and its tail, one
sum, one `all`).  `Lemmas/C17Fast.lean` proves each of them EQUAL to its pointwise counterpart and
`fromXarrayFast = fromXarray` (`Props/C17.fast_import_eq`), so the correspondence run — which
calls the fast forms — tests the functions the theorems are about, at every axis length.
Core Lean only.
-/
namespace DFV.C17
open DFV

/-- `np.diff(v)` in one pass -/
def diffsL (v : List Rat) : List Rat := List.zipWith (fun a b => b - a) v v.tail

/-- `np.diff(v).mean()` in one pass -/
def meanDiffL (v : List Rat) : Rat := sumR (diffsL v) / ((v.length - 1 : Nat) : Rat)

/-- the test of every step against a mean that was computed before the loop -/
def allClose (m : Rat) : List Rat → Bool
  | [] => true
  | d :: ds => Region.isclose d m (1/100000) 0 && allClose m ds

/-- the spacing test with the steps and their mean computed once -/
def evenFast (v : List Rat) : Bool :=
  decide (v.length ≤ 1) || allClose (meanDiffL v) (diffsL v)

def checkSpacingFast {α} (xa : XA α) : M Unit :=
  if (geo xa).all fun a => evenFast a.values then .ok () else .error .value

def cellOfFast {α} (xa : XA α) : M (List Rat) :=
  match xa.attrs.cell with
  | some c => .ok c
  | none =>
    if xa.data.shape.dropLast.any (· == 1) then .error .key
    else if (geo xa).any (fun a => decide (a.values.length ≤ 1)) then .error .value
    else .ok ((geo xa).map fun a => meanDiffL a.values)

/-- `Field.from_xarray` on a DataArray, linear-time spacing test and cell inference -/
def fromXAFast [FieldAttrs] {α} (xa : XA α) : M (XFld α) :=
  (checkNvdim xa.attrs.nvdim xa.dims).bind fun k =>
  (checkSpacingFast xa).bind fun _ =>
  (cellOfFast xa).bind fun cell =>
  (meshOf xa cell).bind fun m =>
  fieldOf xa m k

def fromXarrayFast [FieldAttrs] {α} : PyObj α → M (XFld α)
  | .other => .error .type
  | .dataArray xa => fromXAFast xa

/-- how far a coordinate is from the spacing threshold: the largest `|d - mean| / (rtol·|mean|)`
over its steps (`≤ 1` passes); `0` for fewer than two values or all steps `0`, `10⁶` when the mean
step is `0` and some step is not.  Used by the comparator of the correspondence run only. -/
def spacingMargin (v : List Rat) : Rat :=
  if v.length ≤ 1 then 0
  else
    let d := diffsL v
    let m := meanDiffL v
    if m = 0 then (if d.all (· == 0) then 0 else 1000000)
    else
      let t := 1/100000 * absR m
      listMax (d.map fun x => absR (x - m) / t)

end DFV.C17
