import DFV.Model.Field
/-!
C03 model: field algebra (`discretisedfield/field.py`).

* values are Gaussian rationals `GQ` (float / int fields have `im = 0`);
* `self.array` is an `NDA GQ` of shape `mesh.n ++ [nvdim]`, NumPy binary functions are
  modelled with NumPy's general broadcasting (`bshape` / `bproj`, right-aligned shapes);
* `mkField` is `Field.__init__` as the algebra code calls it (value = array or number,
  `dtype=None`), with the `vdims` / `vdim_mapping` / `valid` setters;
* `applyOperator` is `Field._apply_operator`; `dotOp`, `crossOp`, `shlOp`, `angleOp`,
  `ufunc1`, `ufunc2` are `dot`, `cross`, `__lshift__`, `angle`, `__array_ufunc__`;
  `ufunc2pair` / `ufunc1pair` are the tuple branch of `__array_ufunc__` (two-output ufuncs:
  `np.divmod(f, g)`, `np.modf(f)`);
* `evalF` evaluates an expression tree the way Python does (operand types select the
  forward / reflected / ufunc path); `evalCell` / `validCell` are the per-cell spec.

Functions that are not rational (`sqrt` for `abs`/`sign` of complex values and norms,
`arccos`, complex argument) are parameters of the environment (`Env.sq`, `Env.acos`,
`Env.arg`).  Core Lean only.
-/
namespace DFV.C03
open DFV

/-! ## Gaussian rationals -/

structure GQ where
  re : Rat
  im : Rat
  deriving DecidableEq, Repr, Inhabited

namespace GQ

def zero : GQ := ⟨0, 0⟩
def one : GQ := ⟨1, 0⟩
def ofRat (q : Rat) : GQ := ⟨q, 0⟩
def add (a b : GQ) : GQ := ⟨a.re + b.re, a.im + b.im⟩
def sub (a b : GQ) : GQ := ⟨a.re - b.re, a.im - b.im⟩
def neg (a : GQ) : GQ := ⟨-a.re, -a.im⟩
def mul (a b : GQ) : GQ := ⟨a.re * b.re - a.im * b.im, a.re * b.im + a.im * b.re⟩
def conj (a : GQ) : GQ := ⟨a.re, -a.im⟩
def normSq (a : GQ) : Rat := a.re * a.re + a.im * a.im
def div (a b : GQ) : GQ :=
  ⟨(a.re * b.re + a.im * b.im) / b.normSq, (a.im * b.re - a.re * b.im) / b.normSq⟩

def npow (a : GQ) : Nat → GQ
  | 0 => one
  | n + 1 => mul (npow a n) a

def zpow (a : GQ) : Int → GQ
  | .ofNat n => npow a n
  | .negSucc n => div one (npow a (n + 1))

/-- `np.power(a, w)` for integer-valued real exponents (anything else is outside the model) -/
def pow (a w : GQ) : GQ := if w.im = 0 ∧ w.re.den = 1 then zpow a w.re.num else zero

def sgnR (x : Rat) : Rat := if x < 0 then -1 else if 0 < x then 1 else 0

/-- `np.abs`: `fabs` for real values, `hypot` (through the parameter `sq`) otherwise -/
def abs (sq : Rat → Rat) (a : GQ) : GQ := if a.im = 0 then ⟨absR a.re, 0⟩ else ⟨sq a.normSq, 0⟩

/-- `np.sign` (NumPy 2: `z / |z|` for complex values) -/
def sign (sq : Rat → Rat) (a : GQ) : GQ :=
  if a.im = 0 then ⟨sgnR a.re, 0⟩ else div a ⟨sq a.normSq, 0⟩

/-- lexicographic order NumPy uses for complex `maximum` / `minimum` -/
def lexLe (a b : GQ) : Bool := decide (a.re < b.re) || (decide (a.re = b.re) && decide (a.im ≤ b.im))
def maxi (a b : GQ) : GQ := if lexLe a b then b else a
def mini (a b : GQ) : GQ := if lexLe a b then a else b
def realPart (a : GQ) : GQ := ⟨a.re, 0⟩
def imagPart (a : GQ) : GQ := ⟨a.im, 0⟩

end GQ

/-- what `array.dtype` distinguishes -/
inductive Kind where
  | int | float | complex
  deriving DecidableEq, Repr, Inhabited

namespace Kind
/-- NumPy result type of a binary function -/
def join : Kind → Kind → Kind
  | .complex, _ => .complex
  | _, .complex => .complex
  | .float, _ => .float
  | _, .float => .float
  | .int, .int => .int
/-- `dtype or max(np.asarray(val).dtype, np.float64)` -/
def ctor : Kind → Kind
  | .complex => .complex
  | _ => .float
/-- result type of `.real`, `.imag`, `np.abs` -/
def realOf : Kind → Kind
  | .complex => .float
  | k => k
end Kind

/-- `vdim_mapping`: insertion-ordered dict, values may be `None` -/
abbrev VMap := List (String × Option String)

/-- state of a `discretisedfield.Field` with complex-capable values -/
structure CF where
  mesh : Mesh
  nvdim : Nat
  data : NDA GQ        -- shape `mesh.n ++ [nvdim]`
  valid : NDA Bool     -- shape `mesh.n`
  vdims : Option (List String)
  vmap : VMap
  unit : Option String
  kind : Kind

/-- length of the last axis of a shape / last entry of an index (0 for the empty list) -/
def lastAx (s : List Nat) : Nat := s.getLastD 0

/-! ## NumPy broadcasting (shapes are right-aligned: work on reversed lists) -/

def bdim (x y : Nat) : Option Nat :=
  if x = y then some x else if x = 1 then some y else if y = 1 then some x else none

def bshapeRev : List Nat → List Nat → Option (List Nat)
  | [], ys => some ys
  | x :: xs, [] => some (x :: xs)
  | x :: xs, y :: ys =>
    match bdim x y, bshapeRev xs ys with
    | some d, some r => some (d :: r)
    | _, _ => none

/-- broadcast shape of two shapes, `none` if incompatible -/
def bshape (s t : List Nat) : Option (List Nat) := (bshapeRev s.reverse t.reverse).map List.reverse

def bprojRev : List Nat → List Nat → List Nat
  | [], _ => []
  | _ :: _, [] => []
  | s :: ss, j :: js => (if s = 1 then 0 else j) :: bprojRev ss js

/-- index into an operand of shape `s` for result index `idx`: trailing axes, axes of
length 1 pinned to 0 -/
def bproj (s idx : List Nat) : List Nat := (bprojRev s.reverse idx.reverse).reverse

/-- a NumPy binary elementwise function on two arrays -/
def npBin {α β γ : Type} (f : α → β → γ) (a : NDA α) (b : NDA β) : M (NDA γ) :=
  match bshape a.shape b.shape with
  | none => .error .value
  | some s => .ok ⟨s, fun idx => f (a.get (bproj a.shape idx)) (b.get (bproj b.shape idx))⟩

def sumTo (n : Nat) (f : Nat → GQ) : GQ := (List.range n).foldl (fun acc c => GQ.add acc (f c)) GQ.zero

/-- `np.einsum("...l,...l->...", a, b)` -/
def einsumDot (a b : NDA GQ) : M (NDA GQ) :=
  if a.shape = [] ∨ b.shape = [] then .error .value
  else
    match bshape a.shape b.shape with
    | none => .error .value
    | some s =>
      .ok ⟨s.dropLast, fun idx => sumTo (lastAx s) fun c =>
        GQ.mul (a.get (bproj a.shape (idx ++ [c]))) (b.get (bproj b.shape (idx ++ [c])))⟩

/-- component `c` of the vector product of `x` and `y` -/
def crossAt (x y : Nat → GQ) (c : Nat) : GQ :=
  if c = 0 then GQ.sub (GQ.mul (x 1) (y 2)) (GQ.mul (x 2) (y 1))
  else if c = 1 then GQ.sub (GQ.mul (x 2) (y 0)) (GQ.mul (x 0) (y 2))
  else GQ.sub (GQ.mul (x 0) (y 1)) (GQ.mul (x 1) (y 0))

/-- `np.cross(a, b)` (NumPy ≥ 2.5: both last axes must have length 3) -/
def npCross (a b : NDA GQ) : M (NDA GQ) :=
  if lastAx a.shape ≠ 3 ∨ lastAx b.shape ≠ 3 then .error .value
  else
    match bshape a.shape b.shape with
    | none => .error .value
    | some s =>
      .ok ⟨s, fun idx => crossAt (fun c => a.get (bproj a.shape (idx.dropLast ++ [c])))
        (fun c => b.get (bproj b.shape (idx.dropLast ++ [c]))) (lastAx idx)⟩

/-- `a[..., c]` -/
def takeLast (a : NDA GQ) (c : Nat) : NDA GQ := ⟨a.shape.dropLast, fun idx => a.get (idx ++ [c])⟩

/-- `np.stack(parts, axis=-1)` -/
def npStack (parts : List (NDA GQ)) : M (NDA GQ) :=
  match parts.head? with
  | none => .error .value
  | some p =>
    if parts.all (fun q => decide (q.shape = p.shape)) then
      .ok ⟨p.shape ++ [parts.length], fun idx => (parts.getD (lastAx idx) p).get idx.dropLast⟩
    else .error .value

/-- `np.full(T, v)` / `np.broadcast_to(v, T)` -/
def npFull {α : Type} (T : List Nat) (v : NDA α) : M (NDA α) :=
  if bshape v.shape T = some T then .ok ⟨T, fun idx => v.get (bproj v.shape idx)⟩ else .error .value

/-! ## `Field.__init__` -/

/-- a `value=` argument -/
inductive Value where
  | num (z : GQ)
  | arr (a : NDA GQ)

/-- `_as_array` for numbers and array-likes; also returns whether the stored dtype is the
value's own (the `expand_dims` shortcut) or `max(dtype, float64)` -/
def asArray (mesh : Mesh) (nvdim : Nat) : Value → M (NDA GQ × Bool)
  | .num z =>
    if 1 < nvdim ∧ z ≠ GQ.zero then .error .value
    else .ok (NDA.const (mesh.n ++ [nvdim]) z, false)
  | .arr v =>
    if nvdim = 1 ∧ v.shape = mesh.n then .ok (⟨mesh.n ++ [1], fun idx => v.get idx.dropLast⟩, true)
    else if v.shape = [] then .error .index
    else if lastAx v.shape ≠ nvdim then .error .value
    else
      match npFull (mesh.n ++ [nvdim]) v with
      | .error e => .error e
      | .ok a => .ok (a, false)

/-- the `valid` setter for `True` (`none`) or a Boolean array -/
def validSet (mesh : Mesh) : Option (NDA Bool) → M (NDA Bool)
  | none => .ok (NDA.const mesh.n true)
  | some v =>
    if v.shape = mesh.n then .ok v
    else if v.shape = [] then .error .index
    else if lastAx v.shape ≠ 1 then .error .value
    else
      match npFull (mesh.n ++ [1]) v with
      | .error e => .error e
      | .ok a => .ok ⟨mesh.n, fun idx => a.get (idx ++ [0])⟩

/-- the `vdims` setter on a fresh object (labels that clash with attribute names are
outside the model) -/
def vdimsSet (nvdim : Nat) : Option (List String) → M (Option (List String))
  | none => .ok (Fld.defaultVdims nvdim)
  | some [] => .ok none
  | some (l :: ls) =>
    if (l :: ls).length ≠ nvdim then .error .value
    else if hasDup (l :: ls) then .error .value
    else .ok (some (l :: ls))

def sameKeys (ks vs : List String) : Bool :=
  decide (ks.length = vs.length) && ks.all (fun k => vs.contains k) && vs.all (fun v => ks.contains v)

/-- the `vdim_mapping` setter (`none` = argument `None`) -/
def vmapSet (nvdim ndim : Nat) (vdims : Option (List String)) (dims : List String) :
    Option VMap → M VMap
  | none =>
    if nvdim = 1 then .ok []
    else if nvdim = ndim then
      match vdims with
      | none => .ok []          -- labels removed (`vdims=[]`): no default mapping (repo fix d1932c87, D46)
      | some vd => .ok (List.zip vd (dims.map some))
    else .ok []
  | some m =>
    if m.length = 1 ∧ nvdim = 1 ∧ vdims = none then .ok []
    else if 0 < m.length then
      match vdims with
      | none => .error .type
      | some vd => if sameKeys (m.map (·.1)) vd then .ok m else .error .value
    else .ok m

/-- `Field(mesh, nvdim=…, value=…, vdims=…, valid=…, vdim_mapping=…, unit=…)` with `dtype=None` -/
def mkField (mesh : Mesh) (nvdim : Nat) (val : Value) (kind : Kind) (vdims : Option (List String))
    (valid : Option (NDA Bool)) (vmap : Option VMap) (unit : Option String) : M CF :=
  if nvdim < 1 then .error .value
  else
    match asArray mesh nvdim val with
    | .error e => .error e
    | .ok (arr, own) =>
      match validSet mesh valid with
      | .error e => .error e
      | .ok vl =>
        match vdimsSet nvdim vdims with
        | .error e => .error e
        | .ok vd =>
          match vmapSet nvdim mesh.region.ndim vd mesh.region.dims vmap with
          | .error e => .error e
          | .ok vm =>
            .ok { mesh := mesh, nvdim := nvdim, data := arr.force GQ.zero, valid := vl.force false,
                  vdims := vd, vmap := vm, unit := unit,
                  kind := if own then kind else kind.ctor }

/-! ## Operands and the operator paths -/

/-- a non-field operand: a number or an array-like; `np` says whether it is a NumPy object
(`np.float64`, `np.ndarray`) or a plain Python one (`int/float/complex`, `list/tuple`) -/
inductive Opd where
  | num (z : GQ) (k : Kind) (np : Bool)
  | arr (a : NDA GQ) (k : Kind) (np : Bool)

/-- value of a sub-expression -/
inductive Val where
  | fld (f : CF)
  | raw (o : Opd)

def regionAllclose (r o : Region) : Bool :=
  allLt r.ndim (fun a => Region.isclose (r.lo a) (o.lo a) r.tol r.atol) &&
  allLt r.ndim (fun a => Region.isclose (r.hi a) (o.hi a) r.tol r.atol)

/-- `Mesh.allclose` -/
def meshAllclose (a b : Mesh) : M Bool :=
  if a.region.dims ≠ b.region.dims then .error .value
  else .ok (regionAllclose a.region b.region && decide (a.n = b.n))

/-- `Mesh.__eq__` -/
def meshEq (a b : Mesh) : Bool :=
  decide (a.region.pmin = b.region.pmin) && decide (a.region.pmax = b.region.pmax) &&
  decide (a.region.dims = b.region.dims) && decide (a.region.units = b.region.units) &&
  decide (a.n = b.n)

/-- `_check_same_mesh_and_field_dim` -/
def checkSame (self other : CF) (ignoreScalar : Bool) : M Unit :=
  match meshAllclose self.mesh other.mesh with
  | .error e => .error e
  | .ok false => .error .value
  | .ok true =>
    if ignoreScalar ∧ (self.nvdim = 1 ∨ other.nvdim = 1) then .ok ()
    else if self.nvdim ≠ other.nvdim then .error .value
    else .ok ()

def fixVdims (vd : Option (List String)) (m : Nat) : Option (List String) :=
  match vd with
  | none => none
  | some l => if l.length ≠ m then none else some l

/-- NumPy refuses integer arrays raised to negative integer powers -/
def negIntPow (pw : Bool) (kb ke : Kind) (e : NDA GQ) : Bool :=
  pw && decide (kb = .int) && decide (ke = .int) && e.toList.any (fun z => decide (z.re < 0))

def scalarArr (z : GQ) : NDA GQ := ⟨[], fun _ => z⟩

/-- `Field._apply_operator(other, function, operator)`; `pw` marks `np.power` -/
def applyOperator (fn : GQ → GQ → GQ) (pw : Bool) (self : CF) : Val → M CF
  | .fld o =>
    match checkSame self o true with
    | .error e => .error e
    | .ok _ =>
      if negIntPow pw self.kind o.kind o.data then .error .value
      else
        match npBin fn self.data o.data with
        | .error e => .error e
        | .ok res =>
          mkField self.mesh (lastAx res.shape) (.arr res) (self.kind.join o.kind)
            (fixVdims (if self.nvdim = 1 ∧ 1 < o.nvdim then o.vdims else self.vdims) (lastAx res.shape))
            (some (NDA.zipWith (fun x y => x && y) self.valid o.valid))
            (some (if self.nvdim = 1 ∧ 1 < o.nvdim then o.vmap else self.vmap)) none
  | .raw (.num z k _) =>
    if negIntPow pw self.kind k (scalarArr z) then .error .value
    else
      match npBin fn self.data (scalarArr z) with
      | .error e => .error e
      | .ok res =>
        mkField self.mesh (lastAx res.shape) (.arr res) (self.kind.join k)
          (fixVdims self.vdims (lastAx res.shape)) (some self.valid) (some self.vmap) none
  | .raw (.arr a k _) =>
    if a.shape = [] then .error .type
    else if ¬ (self.data.shape = a.shape ∨ self.nvdim = a.shape.headD 0 ∨ self.nvdim = 1) then .error .type
    else if negIntPow pw self.kind k a then .error .value
    else
      match npBin fn self.data a with
      | .error e => .error e
      | .ok res =>
        mkField self.mesh (lastAx res.shape) (.arr res) (self.kind.join k)
          (fixVdims self.vdims (lastAx res.shape)) (some self.valid) (some self.vmap) none

/-- elementwise unary operation that rebuilds the field (`__neg__`, `__abs__`, `real`, …):
labels, validity and mapping are handed to the constructor; `keepUnit` says whether
`unit=self.unit` is passed -/
def mapField (fn : GQ → GQ) (rk : Kind → Kind) (keepUnit : Bool) (self : CF) : M CF :=
  mkField self.mesh self.nvdim (.arr (self.data.map fn)) (rk self.kind) self.vdims (some self.valid)
    (some self.vmap) (if keepUnit then self.unit else none)

/-- `Field.dot` -/
def dotOp (self : CF) : Val → M CF
  | .fld o =>
    match checkSame self o false with
    | .error e => .error e
    | .ok _ =>
      match einsumDot self.data o.data with
      | .error e => .error e
      | .ok res =>
        mkField self.mesh 1 (.arr ⟨res.shape ++ [1], fun idx => res.get idx.dropLast⟩) (self.kind.join o.kind)
          none (some (NDA.zipWith (fun x y => x && y) self.valid o.valid)) none none
  | .raw (.num _ _ _) => .error .type
  | .raw (.arr a k _) =>
    match einsumDot self.data a with
    | .error e => .error e
    | .ok res =>
      mkField self.mesh 1 (.arr ⟨res.shape ++ [1], fun idx => res.get idx.dropLast⟩) (self.kind.join k)
        none (some self.valid) none none

/-- `Field.cross` -/
def crossOp (self : CF) : Val → M CF
  | .fld o =>
    match checkSame self o false with
    | .error e => .error e
    | .ok _ =>
      if self.nvdim ≠ 3 ∨ o.nvdim ≠ 3 then .error .value
      else
        match npCross self.data o.data with
        | .error e => .error e
        | .ok res =>
          mkField self.mesh 3 (.arr res) (self.kind.join o.kind) self.vdims
            (some (NDA.zipWith (fun x y => x && y) self.valid o.valid)) none none
  | .raw (.num _ _ _) => .error .type
  | .raw (.arr a k _) =>
    match npCross self.data a with
    | .error e => .error e
    | .ok res => mkField self.mesh 3 (.arr res) (self.kind.join k) self.vdims (some self.valid) none none

/-- `dict.update` on an association list with unique keys -/
def dictSet (m : VMap) (k : String) (v : Option String) : VMap :=
  if m.any (fun p => p.1 == k) then m.map (fun p => if p.1 == k then (k, v) else p) else m ++ [(k, v)]

def dictUpdate (m u : VMap) : VMap := u.foldl (fun acc p => dictSet acc p.1 p.2) m

/-- `Field.__lshift__` between two fields -/
def shlFF (self o : CF) : M CF :=
  if ¬ meshEq self.mesh o.mesh then .error .value
  else
    match npStack ((List.range self.nvdim).map (takeLast self.data) ++ (List.range o.nvdim).map (takeLast o.data)) with
    | .error e => .error e
    | .ok res =>
      mkField self.mesh (self.nvdim + o.nvdim) (.arr res) (self.kind.join o.kind)
        (match self.vdims, o.vdims with
         | some a, some b => if hasDup (a ++ b) then none else some (a ++ b)
         | _, _ => none)
        (some (NDA.zipWith (fun x y => x && y) self.valid o.valid))
        (if (dictUpdate self.vmap o.vmap).length ≠ self.nvdim + o.nvdim then none
         else some (dictUpdate self.vmap o.vmap))
        none

/-- length `len(other)` of an array-like -/
def lenOf (a : NDA GQ) : Nat := a.shape.headD 0

/-- the field `Field(mesh, nvdim=1 | len(other), value=other)` that `<<` builds from a
non-field operand -/
def liftOpd (mesh : Mesh) : Opd → M CF
  | .num z k _ => mkField mesh 1 (.num z) k none none none none
  | .arr a k _ => if a.shape = [] then .error .type else mkField mesh (lenOf a) (.arr a) k none none none none

def shlOp (self : CF) : Val → M CF
  | .fld o => shlFF self o
  | .raw od =>
    match liftOpd self.mesh od with
    | .error e => .error e
    | .ok o => shlFF self o

/-- `Field.norm` (getter); `sq` is the square root -/
def normOp (sq : Rat → Rat) (self : CF) : M CF :=
  mkField self.mesh 1
    (.arr ⟨self.data.shape.dropLast ++ [1], fun idx =>
      ⟨sq (sumTo (lastAx self.data.shape) fun c => GQ.ofRat (self.data.get (idx.dropLast ++ [c])).normSq).re, 0⟩⟩)
    self.kind.realOf none (some self.valid) none self.unit

/-- the second operand of `Field.angle` as a field, and the validity of the result -/
def angleVec (self : CF) : Val → M (CF × NDA Bool)
  | .fld o =>
    match checkSame self o false with
    | .error e => .error e
    | .ok _ => .ok (o, NDA.zipWith (fun x y => x && y) self.valid o.valid)
  | .raw (.num z k _) =>
    if self.nvdim = 1 then
      match mkField self.mesh self.nvdim (.num z) k none none none none with
      | .error e => .error e
      | .ok o => .ok (o, self.valid)
    else .error .type
  | .raw (.arr a k _) =>
    match mkField self.mesh self.nvdim (.arr a) k none none none none with
    | .error e => .error e
    | .ok o => .ok (o, self.valid)

/-- `Field.angle`: `arccos((self.dot(v) / (self.norm * v.norm)).array)` -/
def angleOp (sq acos : Rat → Rat) (self : CF) (v : Val) : M CF :=
  match angleVec self v with
  | .error e => .error e
  | .ok (vec, valid) =>
    match dotOp self (.fld vec) with
    | .error e => .error e
    | .ok d =>
      match normOp sq self with
      | .error e => .error e
      | .ok n1 =>
        match normOp sq vec with
        | .error e => .error e
        | .ok n2 =>
          match applyOperator GQ.mul false n1 (.fld n2) with
          | .error e => .error e
          | .ok p =>
            match applyOperator GQ.div false d (.fld p) with
            | .error e => .error e
            | .ok q =>
              mkField self.mesh 1 (.arr (q.data.map fun z => ⟨acos z.re, 0⟩)) .float none (some valid) none
                (some "rad")

/-! ## Components and stacking -/

/-- `Field.__getattr__` for a component label: `self.array[..., k, np.newaxis]`, unit,
validity and the label's entry of the mapping are handed to the constructor -/
def getComp (f : CF) (label : String) : M CF :=
  match f.vdims with
  | none => .error .key
  | some vd =>
    match indexOf? vd label with
    | none => .error .key
    | some c =>
      mkField f.mesh 1 (.arr ⟨f.data.shape.dropLast ++ [1], fun idx => f.data.get (idx.dropLast ++ [c])⟩)
        f.kind none (some f.valid)
        (some (match f.vmap.find? (fun p => p.1 == label) with
               | some p => [(label, p.2)]
               | none => []))
        f.unit

/-- `acc << f.l₁ << f.l₂ << …` -/
def stackFrom (f : CF) (acc : CF) : List String → M CF
  | [] => .ok acc
  | l :: ls =>
    match getComp f l with
    | .error e => .error e
    | .ok c =>
      match shlFF acc c with
      | .error e => .error e
      | .ok a => stackFrom f a ls

/-- `f.l₀ << f.l₁ << … << f.lₖ₋₁` for the labels of `f` -/
def stackComps (f : CF) : M CF :=
  match f.vdims with
  | some (l :: ls) =>
    (match getComp f l with
     | .error e => .error e
     | .ok c => stackFrom f c ls)
  | _ => .error .key

/-! ## `__array_ufunc__` -/

/-- array and dtype kind of a ufunc input; lists/tuples are refused by the protocol -/
def ufuncInput : Val → M (NDA GQ × Kind)
  | .fld f => .ok (f.data, f.kind)
  | .raw (.num z k _) => .ok (scalarArr z, k)
  | .raw (.arr a k np) => if np then .ok (a, k) else .error .notImpl

/-- rebuild after a ufunc call: `Field(self.mesh, nvdim=result.shape[-1], value=result,
vdims=self.vdims, valid=valid, vdim_mapping=self.vdim_mapping)`; every failure is
`NotImplementedError` -/
def ufuncWrap (self : CF) (res : NDA GQ) (k : Kind) (valid : NDA Bool) : M CF :=
  if res.shape.dropLast ≠ self.mesh.n then .error .notImpl
  else
    match mkField self.mesh (lastAx res.shape) (.arr res) k self.vdims (some valid) (some self.vmap) none with
    | .error _ => .error .notImpl
    | .ok g => .ok g

/-- `self.mesh.allclose(m)` for one ufunc input (non-fields have no mesh) -/
def ufuncMeshOk (self : CF) : Val → M Unit
  | .fld f =>
    match meshAllclose self.mesh f.mesh with
    | .error e => .error e
    | .ok false => .error .value
    | .ok true => .ok ()
  | .raw _ => .ok ()

/-- unary ufunc: mesh check (of `self` against itself), validity of the one field input -/
def ufunc1 (fn : GQ → GQ) (rk : Kind → Kind) (self : CF) : M CF :=
  match ufuncMeshOk self (.fld self) with
  | .error e => .error e
  | .ok _ => ufuncWrap self (self.data.map fn) (rk self.kind) self.valid

/-- the field whose mesh and labels a binary ufunc call reuses: the first field input -/
def firstFld : Val → Val → Option CF
  | .fld f, _ => some f
  | _, .fld g => some g
  | _, _ => none

/-- `np.logical_and.reduce([x.valid for x in inputs if isinstance(x, Field)])` -/
def ufuncValid (self : CF) : Val → Val → NDA Bool
  | .fld f, .fld o => NDA.zipWith (fun x y => x && y) f.valid o.valid
  | .fld f, .raw _ => f.valid
  | .raw _, .fld o => o.valid
  | .raw _, .raw _ => self.valid

/-- binary ufunc; `self` is the first field among the inputs -/
def ufunc2 (fn : GQ → GQ → GQ) (pw : Bool) (l r : Val) : M CF :=
  match firstFld l r with
  | none => .error .type
  | some self =>
    match ufuncInput l with
    | .error e => .error e
    | .ok (a, ka) =>
      match ufuncInput r with
      | .error e => .error e
      | .ok (b, kb) =>
        match ufuncMeshOk self l with
        | .error e => .error e
        | .ok _ =>
          match ufuncMeshOk self r with
          | .error e => .error e
          | .ok _ =>
            if negIntPow pw ka kb b then .error .value
            else
              match npBin fn a b with
              | .error e => .error e
              | .ok res => ufuncWrap self res (ka.join kb) (ufuncValid self l r)

/-! ### ufuncs with two outputs (`np.divmod`, `np.modf`): the tuple branch of `__array_ufunc__` -/

namespace GQ
/-- `np.floor_divide` on real values -/
def floorDiv (a b : GQ) : GQ := ⟨((a.re / b.re).floor : Rat), 0⟩
/-- `np.remainder` on real values (sign of the divisor) -/
def pymod (a b : GQ) : GQ := ⟨a.re - b.re * ((a.re / b.re).floor : Rat), 0⟩
end GQ

/-- one element of the result tuple: `Field(m, nvdim=x.shape[-1], value=x, vdims=self.vdims,
valid=valid, vdim_mapping=self.vdim_mapping)`; no shape check in this branch, every failure
is `NotImplementedError` -/
def ufuncPairWrap (self : CF) (m : Mesh) (res : NDA GQ) (k : Kind) (valid : NDA Bool) : M CF :=
  match mkField m (lastAx res.shape) (.arr res) k self.vdims (some valid) (some self.vmap) none with
  | .error _ => .error .notImpl
  | .ok g => .ok g

/-- binary ufunc with two outputs, e.g. `np.divmod(l, r)` (`fn1`, `fn2` the two elementwise
functions; `cplxOk` says whether the ufunc has a complex loop — `divmod` has none).  The
tuple of results needs exactly as many field inputs as outputs (`len(result) != len(mesh)`):
result `j` is rebuilt on the mesh of the `j`-th field input. -/
def ufunc2pair (fn1 fn2 : GQ → GQ → GQ) (cplxOk : Bool) (l r : Val) : M (CF × CF) :=
  match firstFld l r with
  | none => .error .type
  | some self =>
    match ufuncInput l with
    | .error e => .error e
    | .ok (a, ka) =>
      match ufuncInput r with
      | .error e => .error e
      | .ok (b, kb) =>
        match ufuncMeshOk self l with
        | .error e => .error e
        | .ok _ =>
          match ufuncMeshOk self r with
          | .error e => .error e
          | .ok _ =>
            if ¬ cplxOk ∧ (ka = .complex ∨ kb = .complex) then .error .type
            else
              match npBin fn1 a b with
              | .error e => .error e
              | .ok r1 =>
                match npBin fn2 a b with
                | .error e => .error e
                | .ok r2 =>
                  match l, r with
                  | .fld f, .fld o =>
                    (match ufuncPairWrap self f.mesh r1 (ka.join kb) (ufuncValid self l r) with
                     | .error e => .error e
                     | .ok g1 =>
                       match ufuncPairWrap self o.mesh r2 (ka.join kb) (ufuncValid self l r) with
                       | .error e => .error e
                       | .ok g2 => .ok (g1, g2))
                  | _, _ => .error .notImpl

/-- unary ufunc with two outputs (`np.modf(f)`, `np.frexp(f)`): two results, one mesh —
always `NotImplementedError` (after the mesh check) -/
def ufunc1pair (self : CF) : M (CF × CF) :=
  match ufuncMeshOk self (.fld self) with
  | .error e => .error e
  | .ok _ => .error .notImpl

/-! ## Expression trees -/

inductive UnOp where
  | pos | neg | abs                         -- `+f`, `-f`, `abs(f)`
  | real | imag | conj | absP | phase       -- properties `real imag conjugate abs phase`
  | unegative | upositive | uabsolute | usquare | uconjugate | usign   -- NumPy ufuncs
  deriving DecidableEq, Repr

inductive BinOp where
  | add | sub | mul | div | pow             -- Python operators
  | dot | cross | shl | angle               -- `@`/`.dot`, `&`/`.cross`, `<<`, `.angle`
  | uadd | usub | umul | udiv | umax | umin | upow   -- explicit NumPy ufunc calls
  deriving DecidableEq, Repr

inductive Expr where
  | leaf (k : Nat)
  | opd (o : Opd)
  | un (u : UnOp) (e : Expr)
  | bin (b : BinOp) (l r : Expr)

/-- evaluation environment: the field leaves and the non-rational functions -/
structure Env where
  fields : List CF
  sq : Rat → Rat
  acos : Rat → Rat
  arg : GQ → Rat

def isNp : Opd → Bool
  | .num _ _ np => np
  | .arr _ _ np => np

/-- the elementwise function of an arithmetic operator / ufunc -/
def binFn : BinOp → GQ → GQ → GQ
  | .add | .uadd => GQ.add
  | .sub | .usub => GQ.sub
  | .mul | .umul => GQ.mul
  | .div | .udiv => GQ.div
  | .pow | .upow => GQ.pow
  | .umax => GQ.maxi
  | .umin => GQ.mini
  | _ => fun a _ => a

def isPow : BinOp → Bool
  | .pow | .upow => true
  | _ => false

def unFn (env : Env) : UnOp → GQ → GQ
  | .pos | .upositive => id
  | .neg | .unegative => GQ.neg
  | .abs | .absP | .uabsolute => GQ.abs env.sq
  | .real => GQ.realPart
  | .imag => GQ.imagPart
  | .conj | .uconjugate => GQ.conj
  | .phase => fun z => ⟨env.arg z, 0⟩
  | .usquare => fun z => GQ.mul z z
  | .usign => GQ.sign env.sq

def applyUn (env : Env) (u : UnOp) (f : CF) : M CF :=
  match u with
  | .pos => .ok f
  | .neg => mapField GQ.neg id false f
  | .abs => mapField (GQ.abs env.sq) Kind.realOf true f
  | .real => mapField GQ.realPart Kind.realOf true f
  | .imag => mapField GQ.imagPart Kind.realOf true f
  | .conj => mapField GQ.conj id true f
  | .absP => mapField (GQ.abs env.sq) Kind.realOf false f
  | .phase => mapField (fun z => ⟨env.arg z, 0⟩) (fun _ => .float) false f
  | .unegative => ufunc1 GQ.neg id f
  | .upositive => ufunc1 id id f
  | .uabsolute => ufunc1 (GQ.abs env.sq) Kind.realOf f
  | .usquare => ufunc1 (fun z => GQ.mul z z) id f
  | .uconjugate => ufunc1 GQ.conj id f
  | .usign => ufunc1 (GQ.sign env.sq) id f

/-- a Python binary operator with a field on the left -/
def forwardOp (env : Env) (b : BinOp) (f : CF) (v : Val) : M CF :=
  match b with
  | .add | .sub | .mul | .div | .pow => applyOperator (binFn b) (isPow b) f v
  | .dot => dotOp f v
  | .cross => crossOp f v
  | .shl => shlOp f v
  | .angle => angleOp env.sq env.acos f v
  | _ => .error .type

/-- a Python binary operator with a plain Python operand on the left and a field on the
right: the reflected methods -/
def reflectedOp (b : BinOp) (o : Opd) (f : CF) : M CF :=
  match b with
  | .add => applyOperator GQ.add false f (.raw o)                      -- `self + other`
  | .mul => applyOperator GQ.mul false f (.raw o)                      -- `self * other`
  | .sub =>                                                            -- `-self + other`
    (match mapField GQ.neg id false f with
     | .error e => .error e
     | .ok g => applyOperator GQ.add false g (.raw o))
  | .div => applyOperator (fun x y => GQ.div y x) false f (.raw o)     -- `np.divide(y, x)`
  | .dot => dotOp f (.raw o)                                           -- `self.dot(other)`
  | .cross =>                                                          -- `-self.cross(other)`
    (match crossOp f (.raw o) with
     | .error e => .error e
     | .ok g => mapField GQ.neg id false g)
  | .shl =>                                                            -- `Field(…, value=other) << self`
    (match liftOpd f.mesh o with
     | .error e => .error e
     | .ok g => shlFF g f)
  | _ => .error .type                                                  -- no `__rpow__`, no `angle`

def applyBin (env : Env) (b : BinOp) (l r : Val) : M Val :=
  match b with
  | .uadd | .usub | .umul | .udiv | .umax | .umin | .upow =>
    (match ufunc2 (binFn b) (isPow b) l r with
     | .error e => .error e
     | .ok g => .ok (.fld g))
  | _ =>
    match l, r with
    | .fld f, v =>
      (match forwardOp env b f v with
       | .error e => .error e
       | .ok g => .ok (.fld g))
    | .raw o, .fld f =>
      if isNp o then
        -- NumPy objects on the left dispatch to `__array_ufunc__`
        (match b with
         | .add | .sub | .mul | .div | .pow =>
           (match ufunc2 (binFn b) (isPow b) l r with
            | .error e => .error e
            | .ok g => .ok (.fld g))
         | _ => .error .notImpl)
      else
        (match reflectedOp b o f with
         | .error e => .error e
         | .ok g => .ok (.fld g))
    | .raw _, .raw _ => .error .type

/-- evaluate an expression the way Python does: left operand, right operand, operation -/
def evalF (env : Env) : Expr → M Val
  | .leaf k =>
    match env.fields[k]? with
    | some f => .ok (.fld f)
    | none => .error .key
  | .opd o => .ok (.raw o)
  | .un u e =>
    match evalF env e with
    | .error er => .error er
    | .ok (.raw _) => .error .type
    | .ok (.fld f) =>
      match applyUn env u f with
      | .error er => .error er
      | .ok g => .ok (.fld g)
  | .bin b l r =>
    match evalF env l with
    | .error er => .error er
    | .ok vl =>
      match evalF env r with
      | .error er => .error er
      | .ok vr => applyBin env b vl vr

/-! ## Per-cell specification -/

/-- the `k` components of cell `i` of an array of shape `n ++ [k]` -/
def cellOf (a : NDA GQ) (i : List Nat) (k : Nat) : List GQ := tab k fun c => a.get (i ++ [c])

/-- the row NumPy broadcasting pairs with cell `i` for an arbitrary array-like operand -/
def cellOfB (a : NDA GQ) (i : List Nat) : List GQ :=
  tab (lastAx a.shape) fun c => a.get (bproj a.shape (i ++ [c]))

/-- broadcasting of two component lists (a list of length 1 is repeated) -/
def bz (f : GQ → GQ → GQ) (xs ys : List GQ) : List GQ :=
  tab (if xs.length = 1 then ys.length else xs.length) fun c =>
    f (xs.getD (if xs.length = 1 then 0 else c) GQ.zero) (ys.getD (if ys.length = 1 then 0 else c) GQ.zero)

def dotCell (xs ys : List GQ) : GQ := sumTo (bz GQ.mul xs ys).length fun c => (bz GQ.mul xs ys).getD c GQ.zero

def crossCell (xs ys : List GQ) : List GQ :=
  tab 3 (crossAt (fun c => xs.getD c GQ.zero) (fun c => ys.getD c GQ.zero))

def normSqCell (xs : List GQ) : Rat := (sumTo xs.length fun c => GQ.ofRat (xs.getD c GQ.zero).normSq).re

def angleCell (sq acos : Rat → Rat) (xs ys : List GQ) : List GQ :=
  [⟨acos (GQ.div (dotCell xs ys) (GQ.mul ⟨sq (normSqCell xs), 0⟩ ⟨sq (normSqCell ys), 0⟩)).re, 0⟩]

/-- the component list NumPy broadcasting pairs with cell `i` for an arbitrary array-like
(0-d arrays / numbers: the single value) -/
def opdCell (a : NDA GQ) (i : List Nat) : List GQ := if a.shape = [] then [a.get []] else cellOfB a i

/-- component list of a non-field operand at cell `i` -/
def rawCell : Opd → List Nat → List GQ
  | .num z _ _, _ => [z]
  | .arr a _ _, i => opdCell a i

/-- one binary operation on the component lists of one cell -/
def binCell (env : Env) (b : BinOp) (xs ys : List GQ) : List GQ :=
  match b with
  | .dot => [dotCell xs ys]
  | .cross => crossCell xs ys
  | .shl => xs ++ ys
  | .angle => angleCell env.sq env.acos xs ys
  | _ => bz (binFn b) xs ys

/-- is the value of the expression a field (syntactically: does it contain a leaf)? -/
def Expr.isField : Expr → Bool
  | .leaf _ => true
  | .opd _ => false
  | .un _ e => e.isField
  | .bin _ l r => l.isField || r.isField

/-- the leftmost field leaf: the operand whose mesh the result lives on -/
def Expr.firstLeaf : Expr → Option Nat
  | .leaf k => some k
  | .opd _ => none
  | .un _ e => e.firstLeaf
  | .bin _ l r =>
    match l.firstLeaf with
    | some k => some k
    | none => r.firstLeaf

/-- all field leaves, left to right -/
def Expr.leaves : Expr → List Nat
  | .leaf k => [k]
  | .opd _ => []
  | .un _ e => e.leaves
  | .bin _ l r => l.leaves ++ r.leaves

def isUfuncBin : BinOp → Bool
  | .uadd | .usub | .umul | .udiv | .umax | .umin | .upow => true
  | _ => false

/-- **the same expression evaluated at one cell** under NumPy broadcasting: every field
leaf contributes the component list of cell `i`, a number a one-element list, an
array-like the row broadcasting pairs with the cell -/
def evalCell (env : Env) : Expr → List Nat → List GQ
  | .leaf k, i =>
    match env.fields[k]? with
    | some f => cellOf f.data i f.nvdim
    | none => []
  | .opd o, i => rawCell o i
  | .un u e, i => (evalCell env e i).map (unFn env u)
  | .bin b l r, i => binCell env b (evalCell env l i) (evalCell env r i)

/-- validity of cell `i` of the result: AND over the field operands, on every path
(operators and, since the repair of D22, the ufunc protocol) -/
def validCell (env : Env) : Expr → List Nat → Bool
  | .leaf k, i =>
    match env.fields[k]? with
    | some f => f.valid.get i
    | none => true
  | .opd _, _ => true
  | .un _ e, i => validCell env e i
  | .bin _ l r, i => validCell env l i && validCell env r i

/-! ## Scalar-level specification of elementwise trees

For trees built from unary operations, `+ - * / **` and ufunc calls (no `dot`, `cross`, `<<`,
`angle`) the result can be read entry by entry: entry `idx = i ++ [c]` of the result array is
the same tree evaluated on **numbers** — every leaf read at the NumPy-broadcast position of
`idx` in its own shape (`bproj`: trailing axes, axes of length 1 pinned to 0). -/

/-- elementwise binary operations -/
def isElem : BinOp → Bool
  | .dot | .cross | .shl | .angle => false
  | _ => true

def Expr.elementwise : Expr → Bool
  | .leaf _ => true
  | .opd _ => true
  | .un _ e => e.elementwise
  | .bin b l r => isElem b && l.elementwise && r.elementwise

/-- **the tree of scalars**: the expression evaluated on single numbers at result index `idx` -/
def scalarAt (env : Env) : Expr → List Nat → GQ
  | .leaf k, idx =>
    match env.fields[k]? with
    | some f => f.data.get (bproj f.data.shape idx)
    | none => GQ.zero
  | .opd (.num z _ _), _ => z
  | .opd (.arr a _ _), idx => a.get (bproj a.shape idx)
  | .un u e, idx => unFn env u (scalarAt env e idx)
  | .bin b l r, idx => binFn b (scalarAt env l idx) (scalarAt env r idx)

/-! ## Other forms of the ufunc protocol: `out=`, `reduce`, `accumulate`, `outer`

`__array_ufunc__` receives the method name; everything except `"at"` goes through the same
wrapping code.  `out=` fields are replaced by their arrays, NumPy writes into them, and the
array that comes back is wrapped like any other result. -/

namespace Kind
/-- `np.can_cast(from, to, casting="same_kind")` on dtype kinds -/
def castable : Kind → Kind → Bool
  | .int, _ => true
  | .float, .int => false
  | .float, _ => true
  | .complex, .complex => true
  | .complex, _ => false
end Kind

/-- `function(a, b, out=out_array)` on the arrays: NumPy refuses (nothing is written) when the
inputs do not broadcast, do not broadcast to the output's shape, or the loop's result type
cannot be cast to the output's; otherwise every entry of the output is overwritten -/
def outWrite (fn : GQ → GQ → GQ) (rk : Kind) (a b : NDA GQ) (out : CF) : M CF :=
  match bshape a.shape b.shape with
  | none => .error .value
  | some s =>
    if bshape s out.data.shape ≠ some out.data.shape then .error .value
    else if rk.castable out.kind = false then .error .type
    else .ok { out with data := ⟨out.data.shape, fun idx => fn (a.get (bproj a.shape idx)) (b.get (bproj b.shape idx))⟩ }

/-- what a call with `out=` leaves behind: the value returned / the error raised, and the state
of the `out` field afterwards -/
structure OutRes where
  res : M CF
  out : CF

/-- `ufunc(l, r, out=out)` for a binary ufunc with elementwise function `fn` whose loop for
input kinds `ka`, `kb` produces kind `rk ka kb`.  Order of events as in `__array_ufunc__`:
input types, meshes of the *inputs* (the mesh of `out` is not looked at), validity of the
inputs, the NumPy call (writes `out`), shape check of the returned array against
`self.mesh.n`, constructor with `self`'s labels and mapping — the last two can still refuse
after `out` was written. -/
def ufunc2out (fn : GQ → GQ → GQ) (pw : Bool) (rk : Kind → Kind → Kind) (l r : Val) (out : CF) : OutRes :=
  match ufuncInput l with
  | .error e => ⟨.error e, out⟩
  | .ok (a, ka) =>
    match ufuncInput r with
    | .error e => ⟨.error e, out⟩
    | .ok (b, kb) =>
      match (match firstFld l r with
             | none => (.ok () : M Unit)
             | some self =>
               match ufuncMeshOk self l with
               | .error e => .error e
               | .ok _ => ufuncMeshOk self r) with
      | .error e => ⟨.error e, out⟩
      | .ok _ =>
        if negIntPow pw ka kb b then ⟨.error .value, out⟩
        else
          match outWrite fn (rk ka kb) a b out with
          | .error e => ⟨.error e, out⟩
          | .ok out' =>
            ⟨(match firstFld l r with
              | none => .error .notImpl      -- `valid` is the scalar `True`: the constructor refuses it
              | some self => ufuncWrap self out'.data out.kind (ufuncValid self l r)), out'⟩

/-- fold of `fn` over the entries `0 … len-1` of axis `ax` through `base` -/
def foldAxis (fn : GQ → GQ → GQ) (a : NDA GQ) (ax : Nat) (base : List Nat) (len : Nat) : GQ :=
  (List.range (len - 1)).foldl (fun acc j => fn acc (a.get (setAt base ax (j + 1)))) (a.get (setAt base ax 0))

/-- `ufunc.reduce(a, axis=ax, keepdims=keep)` (all axes have length ≥ 1 here) -/
def npReduce (fn : GQ → GQ → GQ) (a : NDA GQ) (ax : Nat) (keep : Bool) : NDA GQ :=
  ⟨if keep then setAt a.shape ax 1 else removeAt a.shape ax,
   fun idx => foldAxis fn a ax (if keep then idx else idx.take ax ++ 0 :: idx.drop ax) (a.shape.getD ax 0)⟩

/-- `ufunc.reduce(a, axis=None)`: a 0-d result -/
def npReduceAll (fn : GQ → GQ → GQ) (a : NDA GQ) : NDA GQ :=
  ⟨[], fun _ => match a.toList with
    | [] => GQ.zero
    | x :: xs => xs.foldl fn x⟩

/-- `np.<ufunc>.reduce(f, axis=…, keepdims=…)`; `ax = none` is `axis=None` -/
def ufuncReduce (fn : GQ → GQ → GQ) (self : CF) (ax : Option Nat) (keep : Bool) : M CF :=
  match ufuncMeshOk self (.fld self) with
  | .error e => .error e
  | .ok _ =>
    match ax with
    | none => ufuncWrap self (npReduceAll fn self.data) self.kind self.valid
    | some k =>
      if self.data.shape.length ≤ k then .error .value
      else ufuncWrap self (npReduce fn self.data k keep) self.kind self.valid

/-- `ufunc.accumulate(a, axis=ax)` -/
def npAccumulate (fn : GQ → GQ → GQ) (a : NDA GQ) (ax : Nat) : NDA GQ :=
  ⟨a.shape, fun idx => foldAxis fn a ax idx (idx.getD ax 0 + 1)⟩

/-- `np.<ufunc>.accumulate(f, axis=ax)`: a field of the same shape, running along a mesh axis
or along the components -/
def ufuncAccumulate (fn : GQ → GQ → GQ) (self : CF) (ax : Nat) : M CF :=
  match ufuncMeshOk self (.fld self) with
  | .error e => .error e
  | .ok _ =>
    if self.data.shape.length ≤ ax then .error .value
    else ufuncWrap self (npAccumulate fn self.data ax) self.kind self.valid

/-- `np.<ufunc>.outer(f, g)`: result of shape `f.array.shape + g.array.shape` -/
def ufuncOuter (fn : GQ → GQ → GQ) (f o : CF) : M CF :=
  match ufuncMeshOk f (.fld f) with
  | .error e => .error e
  | .ok _ =>
    match ufuncMeshOk f (.fld o) with
    | .error e => .error e
    | .ok _ =>
      ufuncWrap f ⟨f.data.shape ++ o.data.shape,
          fun idx => fn (f.data.get (idx.take f.data.shape.length)) (o.data.get (idx.drop f.data.shape.length))⟩
        (f.kind.join o.kind) (NDA.zipWith (fun x y => x && y) f.valid o.valid)

end DFV.C03
