import DFV.Model.C04
import DFV.Model.C11
/-!
C19 model: `discretisedfield/tools/tools.py` and `util.bergluescher_angle`.

* 3-vectors over `Rat` (`dot`, `cross`, `triple`), 3×3 matrices, `Field.orientation`
  (with an abstract square root `sq`; the driver uses `ratSqrt`, exact on squares of
  rationals and accurate to 1e-30 otherwise);
* `topological_charge_density` — continuous method on C04's `diff`, Berg–Lüscher method as
  the triangle loop of `tools.py` returning the algebraic invariants of every triangle
  (`Tri`), the transcendental leaf `Ω : Tri → Rat` is a parameter;
* `topological_charge`, `emergent_magnetic_field`, `neighbouring_cell_angle`
  (clipped dot products + the shortened mesh; `acos` is a parameter),
  `max_neighbouring_cell_angle`, `count_bps`;
* `demag_field` a second time, code-shaped (`demagFieldFFT`): zero-padding, C11's `fftn`, the nine
  products of tensor and magnetisation spectra, C11's `ifftn`, crop — over any ring carrying roots
  of unity (the driver uses C11's formal root-of-unity polynomials);
* demagnetisation tensor: the Newell functions `_f`, `_g` as *symbolic* term lists (rational
  coefficient × leaf `asinh(a/√b)`, `atan(a/(b√c))`, `√a` with the code's zero guards), the
  64-point stencil `_N_element`, the six components of `_N`, both tensor builders
  (evaluation points), and `demag_field` as zero-padded circular convolution + crop.

Core Lean only.  Python computes in binary64, the model in `Rat`.
-/
namespace DFV.C19
open DFV

/-! ## 3-vectors and 3×3 matrices -/

structure V3 where
  x : Rat
  y : Rat
  z : Rat
  deriving DecidableEq, Repr, Inhabited

namespace V3

def zero : V3 := ⟨0, 0, 0⟩
def add (a b : V3) : V3 := ⟨a.x + b.x, a.y + b.y, a.z + b.z⟩
def sub (a b : V3) : V3 := ⟨a.x - b.x, a.y - b.y, a.z - b.z⟩
def neg (a : V3) : V3 := ⟨-a.x, -a.y, -a.z⟩
def smul (s : Rat) (a : V3) : V3 := ⟨s * a.x, s * a.y, s * a.z⟩
/-- component-wise division by a scalar (`np.divide(array, norm)`) -/
def sdiv (a : V3) (s : Rat) : V3 := ⟨a.x / s, a.y / s, a.z / s⟩
/-- `np.dot` / `einsum('...l,...l->...')` -/
def dot (a b : V3) : Rat := a.x * b.x + a.y * b.y + a.z * b.z
/-- `np.cross` -/
def cross (a b : V3) : V3 := ⟨a.y * b.z - a.z * b.y, a.z * b.x - a.x * b.z, a.x * b.y - a.y * b.x⟩
/-- `a · (b × c)` -/
def triple (a b c : V3) : Rat := dot a (cross b c)
def normSq (a : V3) : Rat := dot a a
/-- the three components of a cell value (missing components read 0) -/
def ofList (l : List Rat) : V3 := ⟨l.getD 0 0, l.getD 1 0, l.getD 2 0⟩
def toList (a : V3) : List Rat := [a.x, a.y, a.z]

end V3

structure M3 where
  a11 : Rat
  a12 : Rat
  a13 : Rat
  a21 : Rat
  a22 : Rat
  a23 : Rat
  a31 : Rat
  a32 : Rat
  a33 : Rat
  deriving DecidableEq, Repr, Inhabited

namespace M3

def mulVec (q : M3) (v : V3) : V3 :=
  ⟨q.a11 * v.x + q.a12 * v.y + q.a13 * v.z,
   q.a21 * v.x + q.a22 * v.y + q.a23 * v.z,
   q.a31 * v.x + q.a32 * v.y + q.a33 * v.z⟩

def det (q : M3) : Rat :=
  q.a11 * (q.a22 * q.a33 - q.a23 * q.a32) - q.a12 * (q.a21 * q.a33 - q.a23 * q.a31)
    + q.a13 * (q.a21 * q.a32 - q.a22 * q.a31)

/-- `QᵀQ = 1` entry by entry (columns orthonormal) -/
def IsOrth (q : M3) : Prop :=
  q.a11 * q.a11 + q.a21 * q.a21 + q.a31 * q.a31 = 1 ∧
  q.a12 * q.a12 + q.a22 * q.a22 + q.a32 * q.a32 = 1 ∧
  q.a13 * q.a13 + q.a23 * q.a23 + q.a33 * q.a33 = 1 ∧
  q.a11 * q.a12 + q.a21 * q.a22 + q.a31 * q.a32 = 0 ∧
  q.a11 * q.a13 + q.a21 * q.a23 + q.a31 * q.a33 = 0 ∧
  q.a12 * q.a13 + q.a22 * q.a23 + q.a32 * q.a33 = 0

/-- proper rotation: orthogonal with determinant 1 -/
def IsRot (q : M3) : Prop := q.IsOrth ∧ q.det = 1

def isRotB (q : M3) : Bool :=
  decide (q.a11 * q.a11 + q.a21 * q.a21 + q.a31 * q.a31 = 1) &&
  decide (q.a12 * q.a12 + q.a22 * q.a22 + q.a32 * q.a32 = 1) &&
  decide (q.a13 * q.a13 + q.a23 * q.a23 + q.a33 * q.a33 = 1) &&
  decide (q.a11 * q.a12 + q.a21 * q.a22 + q.a31 * q.a32 = 0) &&
  decide (q.a11 * q.a13 + q.a21 * q.a23 + q.a31 * q.a33 = 0) &&
  decide (q.a12 * q.a13 + q.a22 * q.a23 + q.a32 * q.a33 = 0) && decide (q.det = 1)

end M3

/-! ## sums -/

/-- `Σ_{k<n} g k` -/
def sumTo : Nat → (Nat → Rat) → Rat
  | 0, _ => 0
  | n + 1, g => sumTo n g + g n

def lsum : List Rat → Rat
  | [] => 0
  | x :: xs => x + lsum xs

/-- `Σ` over a box `n0 × n1 × n2` -/
def sum3 (n0 n1 n2 : Nat) (g : Nat → Nat → Nat → Rat) : Rat :=
  sumTo n0 fun i => sumTo n1 fun j => sumTo n2 fun k => g i j k

/-! ## square root used by the driver -/

/-- Newton iteration for the integer square root, started above the root -/
def isqrtGo (n : Nat) : Nat → Nat → Nat
  | 0, x => x
  | fuel + 1, x => if (x + n / x) / 2 < x then isqrtGo n fuel ((x + n / x) / 2) else x

/-- `⌊√n⌋` -/
def isqrt (n : Nat) : Nat :=
  if n = 0 then 0 else isqrtGo n (2 * n.log2 + 8) (2 ^ (n.log2 / 2 + 1))

/-- rational square root: exact on squares of rationals, relative error below 1e-30 otherwise -/
def ratSqrt (q : Rat) : Rat :=
  if q ≤ 0 then 0
  else (isqrt (q.num.toNat * q.den * 10 ^ 60) : Rat) / ((q.den : Rat) * 10 ^ 30)

/-! ## `Field.orientation` -/

/-- `np.isclose(norm, 0)` with the default tolerances: `|norm| ≤ 1e-8` -/
def isZeroNorm (nrm : Rat) : Bool := decide (absR nrm ≤ 1 / 100000000)

/-- one cell of `Field.orientation`: the vector divided by its norm, a zero vector stays -/
def orient (sq : Rat → Rat) (v : V3) : V3 :=
  if isZeroNorm (sq v.normSq) then V3.zero else v.sdiv (sq v.normSq)

/-- `Field.orientation` (labels, mapping and validity kept, unit dropped) -/
def orientation (sq : Rat → Rat) (f : Fld) : Fld :=
  { f with data := f.data.map (fun v => (orient sq (V3.ofList v)).toList), unit := none }

/-- the vector stored in cell `i` -/
def cellV (f : Fld) (i : List Nat) : V3 := V3.ofList (f.data.get i)

/-! ## transformations of the inputs the invariance theorems speak about -/

/-- rotate every vector of the field by `Q` -/
def rotF (q : M3) (f : Fld) : Fld :=
  { f with data := f.data.map fun v => (q.mulVec (V3.ofList v)).toList }

/-- reverse every vector -/
def negF (f : Fld) : Fld := { f with data := f.data.map fun v => (V3.ofList v).neg.toList }

/-- rescale the vector of cell `i` by `s i` -/
def scaleF (s : List Nat → Rat) (f : Fld) : Fld :=
  { f with data := ⟨f.data.shape, fun i => ((V3.ofList (f.data.get i)).smul (s i)).toList⟩ }

/-- the same vector in every cell -/
def uniformF (f : Fld) (v : V3) : Prop := ∀ i, V3.ofList (f.data.get i) = v

/-- translate the mesh by `t` and scale it by `lam` about the origin -/
def affRegion (lam : Rat) (t : List Rat) (r : Region) : Region :=
  { r with pmin := tab r.ndim fun a => lam * r.lo a + t.getD a 0,
           pmax := tab r.ndim fun a => lam * r.hi a + t.getD a 0 }

def affMesh (lam : Rat) (t : List Rat) (m : Mesh) : Mesh := { m with region := affRegion lam t m.region }

def affF (lam : Rat) (t : List Rat) (f : Fld) : Fld := { f with mesh := affMesh lam t f.mesh }

/-! ## spec of `Field.diff` at one cell (what `C04.diff` stores, see `Lemmas/C19Diff`) -/

/-- is axis `ax` a periodic direction (as `Field.diff` decides it) -/
def periodic (f : Fld) (ax : Nat) : Bool := C04.periodicBc f.mesh.bc (f.mesh.region.dims.getD ax "")

/-- component `c` at cell `i` of the `order`-th derivative of `f` along axis `ax`: the line
through `i`, differentiated as `Field.diff` does (C04), read at `i`'s position -/
def Dc (f : Fld) (ax order : Nat) (r : Bool) (c : Nat) (i : List Nat) : Rat :=
  (C04.diffLine' (periodic f ax) r order (f.mesh.cellAt ax)
    (tab (f.mesh.nAt ax) fun j => ((f.data.line ax i j).getD c 0, f.valid.line ax i j))).getD (i.getD ax 0) 0

/-- the derivative vector of a 3-component field at cell `i` -/
def Dv (f : Fld) (ax order : Nat) (r : Bool) (i : List Nat) : V3 :=
  ⟨Dc f ax order r 0 i, Dc f ax order r 1 i, Dc f ax order r 2 i⟩

/-! ## topological charge density -/

/-- continuous method at cell `i`: `1/(4π) · n·(∂₁n × ∂₂n)` from the orientation field `o`
and its two derivative fields -/
def tcdCAt (pi : Rat) (o d1 d2 : Fld) (i : List Nat) : Rat :=
  1 / (4 * pi) * V3.dot (cellV o i) (V3.cross (cellV d1 i) (cellV d2 i))

/-- `topological_charge_density(field, method="continuous")` -/
def tcdContinuous (sq : Rat → Rat) (pi : Rat) (f : Fld) : M Fld :=
  if f.nvdim ≠ 3 then .error .value
  else if f.mesh.ndim ≠ 2 then .error .value
  else
    match C04.diff (orientation sq f) 0 1 true with
    | .error e => .error e
    | .ok d1 =>
      match C04.diff (orientation sq f) 1 1 true with
      | .error e => .error e
      | .ok d2 =>
        .ok { mesh := f.mesh, nvdim := 1,
              data := ⟨f.data.shape, fun i => [tcdCAt pi (orientation sq f) d1 d2 i]⟩,
              valid := f.valid, vdims := none, vmap := [], unit := none }

/-- the rotation invariants of an ordered triple of vectors: the three dot products and
the triple product — all `bergluescher_angle` looks at -/
structure Tri where
  d12 : Rat
  d23 : Rat
  d31 : Rat
  t : Rat
  deriving DecidableEq, Repr, Inhabited

def triOf (v1 v2 v3 : V3) : Tri :=
  ⟨V3.dot v1 v2, V3.dot v2 v3, V3.dot v3 v1, V3.dot v1 (V3.cross v2 v3)⟩

/-- the invariants of the reversed triple `(−v1, −v2, −v3)`: same dot products, opposite triple product -/
def flipT (tr : Tri) : Tri := ⟨tr.d12, tr.d23, tr.d31, -tr.t⟩

/-- `util.bergluescher_angle`: zero when the triple product vanishes, else the leaf
`Ω = 2·Im log((1+d12+d23+d31 + i·t)/ρ)/(4π)` (a parameter of the model) -/
def blAngle (Om : Tri → Rat) (tr : Tri) : Rat := if tr.t = 0 then 0 else Om tr

/-- neighbour in +dim0 (`v1`), +dim1 (`v2`), −dim0 (`v3`), −dim1 (`v4`): the vector if the
cell exists and is valid -/
def nbE (o : Fld) (i j : Nat) : Option V3 :=
  if i + 1 < o.mesh.nAt 0 && o.valid.get [i + 1, j] then some (cellV o [i + 1, j]) else none
def nbN (o : Fld) (i j : Nat) : Option V3 :=
  if j + 1 < o.mesh.nAt 1 && o.valid.get [i, j + 1] then some (cellV o [i, j + 1]) else none
def nbW (o : Fld) (i j : Nat) : Option V3 :=
  if 1 ≤ i && o.valid.get [i - 1, j] then some (cellV o [i - 1, j]) else none
def nbS (o : Fld) (i j : Nat) : Option V3 :=
  if 1 ≤ j && o.valid.get [i, j - 1] then some (cellV o [i, j - 1]) else none

def tri? (v0 : V3) : Option V3 → Option V3 → List Tri
  | some a, some b => [triOf v0 a b]
  | _, _ => []

/-- the (up to four) triangles `(v0,v1,v2), (v0,v2,v3), (v0,v3,v4), (v0,v4,v1)` of cell `(i,j)` -/
def triangles (o : Fld) (i j : Nat) : List Tri :=
  tri? (cellV o [i, j]) (nbE o i j) (nbN o i j) ++ tri? (cellV o [i, j]) (nbN o i j) (nbW o i j) ++
  tri? (cellV o [i, j]) (nbW o i j) (nbS o i j) ++ tri? (cellV o [i, j]) (nbS o i j) (nbE o i j)

/-- area of one triangle: `0.5 * cell[0] * cell[1]` -/
def triArea (m : Mesh) : Rat := 1 / 2 * m.cellAt 0 * m.cellAt 1

/-- Berg–Lüscher density of cell `(i,j)` of the orientation field `o` -/
def tcdBLAt (Om : Tri → Rat) (o : Fld) (i j : Nat) : Rat :=
  if o.valid.get [i, j] then
    if 0 < (triangles o i j).length then
      lsum ((triangles o i j).map (blAngle Om)) / (triArea o.mesh * ((triangles o i j).length : Rat))
    else 0
  else 0

/-- `topological_charge_density(field, method="berg-luescher")` -/
def tcdBL (sq : Rat → Rat) (Om : Tri → Rat) (f : Fld) : M Fld :=
  if f.nvdim ≠ 3 then .error .value
  else if f.mesh.ndim ≠ 2 then .error .value
  else
    .ok { mesh := f.mesh, nvdim := 1,
          data := ⟨f.data.shape, fun i => [tcdBLAt Om (orientation sq f) (i.getD 0 0) (i.getD 1 0)]⟩,
          valid := f.valid, vdims := none, vmap := [], unit := none }

inductive Method where
  | continuous | bergLuescher | other
  deriving DecidableEq, Repr

/-- `topological_charge_density(field, method)` -/
def tcd (sq : Rat → Rat) (pi : Rat) (Om : Tri → Rat) (f : Fld) : Method → M Fld
  | .continuous => tcdContinuous sq pi f
  | .bergLuescher => tcdBL sq Om f
  | .other => .error .value

/-- `Field.integrate()` of a scalar field over all directions: `np.sum(array) * dV`
(validity is not looked at), optionally of `abs(q)` -/
def integrateAll (absolute : Bool) (q : Fld) : Rat :=
  lsum (q.data.toList.map fun v => if absolute then absR (v.getD 0 0) else v.getD 0 0) * ratProd q.mesh.cell

/-- `topological_charge(field, method, absolute)` -/
def charge (sq : Rat → Rat) (pi : Rat) (Om : Tri → Rat) (f : Fld) (m : Method) (absolute : Bool) : M Rat :=
  if f.nvdim ≠ 3 then .error .value
  else if f.mesh.ndim ≠ 2 then .error .value
  else match tcd sq pi Om f m with
    | .error e => .error e
    | .ok q => .ok (integrateAll absolute q)

/-! ## emergent magnetic field -/

/-- `F_kl = m·(∂_k m × ∂_l m)` at cell `i` -/
def emAt (f dk dl : Fld) (i : List Nat) : Rat :=
  V3.dot (cellV f i) (V3.cross (cellV dk i) (cellV dl i))

/-- `emergent_magnetic_field(field)` (no normalisation: the field itself is used) -/
def emergent (f : Fld) : M Fld :=
  if f.nvdim ≠ 3 then .error .value
  else if f.mesh.ndim ≠ 3 then .error .value
  else
    match C04.diff f 0 1 true, C04.diff f 1 1 true, C04.diff f 2 1 true with
    | .ok d0, .ok d1, .ok d2 =>
      .ok { mesh := f.mesh, nvdim := 3,
            data := ⟨f.data.shape, fun i => [emAt f d1 d2 i, emAt f d2 d0 i, emAt f d0 d1 i]⟩,
            valid := f.valid, vdims := some ["x", "y", "z"],
            vmap := List.zip ["x", "y", "z"] f.mesh.region.dims, unit := none }
    | _, _, _ => .error .value

/-! ## neighbouring-cell angles -/

/-- `np.clip(x, -1, 1)` -/
def clip1 (x : Rat) : Rat := if x < -1 then -1 else if 1 < x then 1 else x

/-- unit step along axis `ax` -/
def stepAx (i : List Nat) (ax : Nat) : List Nat := setAt i ax (i.getD ax 0 + 1)

/-- the mesh of the result: corners moved inwards by half a cell along `ax`, same cell
(`df.Mesh(p1=…, p2=…, cell=field.mesh.cell)`: a fresh region with default names) -/
def angleMesh (m : Mesh) (ax : Nat) : M Mesh :=
  match Region.mk? (tab m.ndim fun a => m.region.lo a + (if a = ax then m.cellAt a / 2 else 0))
      (tab m.ndim fun a => m.region.hi a - (if a = ax then m.cellAt a / 2 else 0)) none none with
  | .error e => .error e
  | .ok r => Mesh.mkCell? r m.cell

/-- clipped dot product of the unit vectors of cell `i` and its successor along `ax` -/
def nbDot (sq : Rat → Rat) (f : Fld) (ax : Nat) (i : List Nat) : Rat :=
  clip1 (V3.dot (orient sq (cellV f i)) (orient sq (cellV f (stepAx i ax))))

/-- `neighbouring_cell_angle(field, direction, units)`; `acos` is the leaf `np.arccos`,
`deg` the conversion `np.degrees` -/
def neighbourAngle (sq acos deg : Rat → Rat) (f : Fld) (dir units : String) : M Fld :=
  if f.nvdim ≠ 3 then .error .value
  else
    match indexOf? f.mesh.region.dims dir with
    | none => .error .value
    | some ax =>
      if units ≠ "rad" ∧ units ≠ "deg" then .error .value
      else
        match angleMesh f.mesh ax with
        | .error e => .error e
        | .ok m' =>
          if m'.n ≠ setAt f.mesh.n ax (f.mesh.nAt ax - 1) then .error .value
          else
            .ok { mesh := m', nvdim := 1,
                  data := ⟨setAt f.mesh.n ax (f.mesh.nAt ax - 1), fun i =>
                    [if units = "deg" then deg (acos (nbDot sq f ax i)) else acos (nbDot sq f ax i)]⟩,
                  valid := NDA.const (setAt f.mesh.n ax (f.mesh.nAt ax - 1)) true,
                  vdims := none, vmap := [], unit := none }

/-- the clipped dot products cell `i` has with its neighbours (−, +) along every axis, in
the slot order of `max_neighbouring_cell_angle`; `none` where there is no neighbour -/
def nbDots (sq : Rat → Rat) (f : Fld) (i : List Nat) : List (Option Rat) :=
  (List.range f.mesh.ndim).flatMap fun a =>
    [if 1 ≤ i.getD a 0 then some (nbDot sq f a (setAt i a (i.getD a 0 - 1))) else none,
     if i.getD a 0 + 1 < f.mesh.nAt a then some (nbDot sq f a i) else none]

def maxOpt (ang : Rat → Rat) : List (Option Rat) → Rat
  | [] => 0
  | none :: r => max 0 (maxOpt ang r)
  | some d :: r => max (ang d) (maxOpt ang r)

/-- `np.squeeze` of a shape -/
def squeezeShape (s : List Nat) : List Nat := s.filter (· ≠ 1)

def bcastOkRev : List Nat → List Nat → Bool
  | [], _ => true
  | _ :: _, [] => false
  | v :: vs, t :: ts => (v == t || v == 1) && bcastOkRev vs ts

/-- can an array of shape `v` be assigned to a slot of shape `t` (NumPy broadcasting:
trailing axes aligned, each axis equal or 1) -/
def bcastOk (v t : List Nat) : Bool := bcastOkRev v.reverse t.reverse

/-- `max_neighbouring_cell_angle(field, units)`: every direction must be computable, and the
code assigns `angle.array.squeeze()` into the slot of the full shape — which NumPy refuses
unless all axes of length 1 of that slot are leading ones -/
def maxNeighbourAngle (sq acos deg : Rat → Rat) (f : Fld) (units : String) : M Fld :=
  if (List.range f.mesh.ndim).any (fun a =>
      match neighbourAngle sq acos deg f (f.mesh.region.dims.getD a "") units with
      | .ok _ => !bcastOk (squeezeShape (setAt f.mesh.n a (f.mesh.nAt a - 1))) (setAt f.mesh.n a (f.mesh.nAt a - 1))
      | .error _ => true) then .error .value
  else
    .ok { mesh := f.mesh, nvdim := 1,
          data := ⟨f.mesh.n, fun i =>
            [maxOpt (fun d => if units = "deg" then deg (acos d) else acos d) (nbDots sq f i)]⟩,
          valid := NDA.const f.mesh.n true, vdims := none, vmap := [], unit := none }

/-! ## Bloch-point counting -/

/-- divergence of the emergent field `e` (positional mapping of `F1 << F2 << F3`):
`Σ_k ∂_k F_k` -/
def divAt (d0 d1 d2 : Fld) (i : List Nat) : Rat :=
  (d0.data.get i).getD 0 0 + (d1.data.get i).getD 1 0 + (d2.data.get i).getD 2 0

/-- the two averaged axes for direction `ax` of a 3-d mesh, in mesh order -/
def otherAxes (ax : Nat) : Nat × Nat := if ax = 0 then (1, 2) else if ax = 1 then (0, 2) else (0, 1)

/-- multi-index with `k` on axis `ax` and `(p, q)` on the two other axes -/
def idx3 (ax k p q : Nat) : List Nat :=
  if ax = 0 then [k, p, q] else if ax = 1 then [p, k, q] else [p, q, k]

/-- `F_red[k]`: the divergence integrated over the two other directions -/
def bpRed (m : Mesh) (g : List Nat → Rat) (ax k : Nat) : Rat :=
  (sumTo (m.nAt (otherAxes ax).1) fun p => (sumTo (m.nAt (otherAxes ax).2) fun q => g (idx3 ax k p q))
      * m.cellAt (otherAxes ax).2) * m.cellAt (otherAxes ax).1

/-- cumulative integral: half of cell `k` plus everything before it, times the cell size `h`
(`reds` = the list of `F_red`) -/
def bpIntL (reds : List Rat) (h : Rat) (k : Nat) : Rat :=
  (reds.getD k 0 / 2 + sumTo k fun k' => reds.getD k' 0) * h

def bpFromReds (reds : List Rat) (h : Rat) : List Rat := tab reds.length (bpIntL reds h)

/-- evaluate every entry of a field once (driver efficiency; the identity on the cells of the mesh) -/
def forceF (f : Fld) : Fld := { f with data := f.data.force [], valid := f.valid.force false }

structure BpResult where
  fint : List Rat
  number : List Int
  total : Int
  hh : Int
  tt : Int
  pattern : List (Int × Nat)
  deriving Repr

def isum : List Int → Int
  | [] => 0
  | x :: xs => x + isum xs

/-- run-length encoding of the local Bloch-point number -/
def rle : List Int → List (Int × Nat)
  | [] => []
  | x :: xs =>
    match rle xs with
    | (y, c) :: r => if x = y then (y, c + 1) :: r else (x, 1) :: (y, c) :: r
    | [] => [(x, 1)]

def diffs (xs : List Int) : List Int := tab (xs.length - 1) fun k => xs.getD (k + 1) 0 - xs.getD k 0

def bpOf (fint : List Rat) (pi : Rat) : BpResult :=
  { fint := fint,
    number := fint.map fun x => Mesh.roundHalfEven (x / (4 * pi)),
    total := isum ((diffs (fint.map fun x => Mesh.roundHalfEven (x / (4 * pi)))).map fun d => (d.natAbs : Int)),
    hh := Int.ofNat (isum ((diffs (fint.map fun x => Mesh.roundHalfEven (x / (4 * pi)))).filter (· < 0))).natAbs,
    tt := isum ((diffs (fint.map fun x => Mesh.roundHalfEven (x / (4 * pi)))).filter (0 < ·)),
    pattern := rle (fint.map fun x => Mesh.roundHalfEven (x / (4 * pi))) }

/-- from the (materialised) emergent field `e` of the orientation field: divergence, the two
plane integrals, the cumulative integral along `ax`, rounding and counting -/
def divCount (pi : Rat) (m : Mesh) (ax : Nat) (e : Fld) : M BpResult :=
  match C04.diff e 0 1 true, C04.diff e 1 1 true, C04.diff e 2 1 true with
  | .ok d0, .ok d1, .ok d2 =>
    if m.nAt ax < 2 then .error .index
    else .ok (bpOf (bpFromReds (tab (m.nAt ax) fun k => bpRed m (divAt d0 d1 d2) ax k) (m.cellAt ax)) pi)
  | _, _, _ => .error .value

/-- `count_bps(field, direction)` -/
def countBps (sq : Rat → Rat) (pi : Rat) (f : Fld) (dir : String) : M BpResult :=
  if f.mesh.ndim ≠ 3 then .error .value
  else if f.nvdim ≠ 3 then .error .value
  else
    match indexOf? f.mesh.region.dims dir with
    | none => .error .value
    | some ax =>
      match emergent (forceF (orientation sq f)) with
      | .error e => .error e
      | .ok e => divCount pi f.mesh ax (forceF e)

/-! ## demagnetisation tensor: symbolic Newell functions -/

/-- transcendental leaves with the zero guards of `np.divide(…, where=…)` -/
inductive Leaf where
  /-- `arcsinh(a / sqrt b)`, argument 0 when `b = 0` -/
  | asinh (a b : Rat)
  /-- `arctan(a / (b · sqrt c))`, argument 0 when `b = 0` -/
  | atan (a b c : Rat)
  /-- `sqrt a` -/
  | sqrt (a : Rat)
  deriving DecidableEq, Repr, Inhabited

structure Term where
  coef : Rat
  leaf : Leaf
  deriving DecidableEq, Repr, Inhabited

/-- value of a leaf for given leaf functions -/
def evalLeaf (asinh atan sqrt : Rat → Rat) : Leaf → Rat
  | .asinh a b => asinh (if b = 0 then 0 else a / sqrt b)
  | .atan a b c => atan (if b = 0 then 0 else a / (b * sqrt c))
  | .sqrt a => sqrt a

def evalTerms (asinh atan sqrt : Rat → Rat) (ts : List Term) : Rat :=
  lsum (ts.map fun t => t.coef * evalLeaf asinh atan sqrt t.leaf)

/-- `_f(x, y, z)` -/
def newellF (x y z : Rat) : List Term :=
  [⟨absR y / 2 * (z ^ 2 - x ^ 2), .asinh (absR y) (x ^ 2 + z ^ 2)⟩,
   ⟨absR z / 2 * (y ^ 2 - x ^ 2), .asinh (absR z) (x ^ 2 + y ^ 2)⟩,
   ⟨-absR (x * y * z), .atan (absR (y * z)) (absR x) (x ^ 2 + y ^ 2 + z ^ 2)⟩,
   ⟨1 / 6 * (2 * x ^ 2 - y ^ 2 - z ^ 2), .sqrt (x ^ 2 + y ^ 2 + z ^ 2)⟩]

/-- `_g(x, y, z)` -/
def newellG (x y z : Rat) : List Term :=
  [⟨x * y * z, .asinh z (x ^ 2 + y ^ 2)⟩,
   ⟨y / 6 * (3 * z ^ 2 - y ^ 2), .asinh x (y ^ 2 + z ^ 2)⟩,
   ⟨x / 6 * (3 * z ^ 2 - x ^ 2), .asinh y (x ^ 2 + z ^ 2)⟩,
   ⟨-(z ^ 3 / 6), .atan (x * y) z (x ^ 2 + y ^ 2 + z ^ 2)⟩,
   ⟨-(z * y ^ 2 / 2), .atan (x * z) y (x ^ 2 + y ^ 2 + z ^ 2)⟩,
   ⟨-(z * x ^ 2 / 2), .atan (y * z) x (x ^ 2 + y ^ 2 + z ^ 2)⟩,
   ⟨-(x * y / 3), .sqrt (x ^ 2 + y ^ 2 + z ^ 2)⟩]

/-- `itertools.product([0, 1], repeat=6)` -/
def stencil : List (List Nat) :=
  (List.range 64).map fun k => [k / 32 % 2, k / 16 % 2, k / 8 % 2, k / 4 % 2, k / 2 % 2, k % 2]

def sgn (i : List Nat) : Rat := if (i.foldl (· + ·) 0) % 2 = 0 then 1 else -1

def scaleTerms (s : Rat) (ts : List Term) : List Term := ts.map fun t => ⟨s * t.coef, t.leaf⟩

/-- the sum in `_N_element`: `Σ_i (-1)^{Σi} fn(x+(i0−i3)dx, y+(i1−i4)dy, z+(i2−i5)dz)` -/
def stencilSum (fn : Rat → Rat → Rat → List Term) (x y z dx dy dz : Rat) : List Term :=
  stencil.flatMap fun i =>
    scaleTerms (sgn i)
      (fn (x + (((i.getD 0 0 : Nat) : Rat) - ((i.getD 3 0 : Nat) : Rat)) * dx)
          (y + (((i.getD 1 0 : Nat) : Rat) - ((i.getD 4 0 : Nat) : Rat)) * dy)
          (z + (((i.getD 2 0 : Nat) : Rat) - ((i.getD 5 0 : Nat) : Rat)) * dz))

/-- `_N_element(x, y, z, mesh, fn, order)`: `-value / (4π·prod(mesh.cell))`; `dx dy dz`
are the cell edges already permuted by `order`, `vol = prod(mesh.cell)` -/
def nElement (pi vol : Rat) (fn : Rat → Rat → Rat → List Term) (x y z dx dy dz : Rat) : List Term :=
  scaleTerms (-1 / (4 * pi * vol)) (stencilSum fn x y z dx dy dz)

/-- `_N(mesh)(p)`: the six components `xx, yy, zz, xy, xz, yz` at displacement `(x,y,z)`
for cell edges `(c0,c1,c2)` -/
def nAll (pi c0 c1 c2 x y z : Rat) : List (List Term) :=
  [nElement pi (c0 * c1 * c2) newellF x y z c0 c1 c2,
   nElement pi (c0 * c1 * c2) newellF y z x c1 c2 c0,
   nElement pi (c0 * c1 * c2) newellF z x y c2 c0 c1,
   nElement pi (c0 * c1 * c2) newellG x y z c0 c1 c2,
   nElement pi (c0 * c1 * c2) newellG x z y c0 c2 c1,
   nElement pi (c0 * c1 * c2) newellG y z x c1 c2 c0]

/-- the mesh the tensor lives on: `2n−1` cells, corners `±((n−1)·c + c/2)` -/
def tensorMesh (m : Mesh) : M Mesh :=
  match Region.mk? (tab m.ndim fun a => (-(m.nAt a : Rat) + 1) * m.cellAt a - m.cellAt a / 2)
      (tab m.ndim fun a => ((m.nAt a : Rat) - 1) * m.cellAt a + m.cellAt a / 2) none none with
  | .error e => .error e
  | .ok r => Mesh.mkN? r (tab m.ndim fun a => 2 * m.nAt a - 1)

/-- evaluation point `j` along axis `a` of the array-based builder:
`np.linspace((-n+1)·c, (n-1)·c, 2n-1)[j]` -/
def arrPoint (m : Mesh) (a j : Nat) : Rat :=
  (Mesh.linspace ((-(m.nAt a : Rat) + 1) * m.cellAt a) (((m.nAt a : Rat) - 1) * m.cellAt a)
    (2 * m.nAt a - 1)).getD j 0

/-- real-space tensor of `demag_tensor(mesh)` (array-based) at cell `j` of the tensor mesh:
points from `linspace`, cell edges of `mesh` -/
def tensorArr (pi : Rat) (m : Mesh) (j : List Nat) : List (List Term) :=
  nAll pi (m.cellAt 0) (m.cellAt 1) (m.cellAt 2)
    (arrPoint m 0 (j.getD 0 0)) (arrPoint m 1 (j.getD 1 0)) (arrPoint m 2 (j.getD 2 0))

/-- real-space tensor of `_demag_tensor_field_based(mesh)` at cell `j`: points are the cell
centres of the tensor mesh `tm`, cell edges those of `tm` -/
def tensorFld (pi : Rat) (tm : Mesh) (j : List Nat) : List (List Term) :=
  nAll pi (tm.cellAt 0) (tm.cellAt 1) (tm.cellAt 2)
    (tm.centreAx 0 ((j.getD 0 0 : Nat) : Int)) (tm.centreAx 1 ((j.getD 1 0 : Nat) : Int))
    (tm.centreAx 2 ((j.getD 2 0 : Nat) : Int))

/-- both builders: 3-d meshes only, then the tensor mesh and the per-cell term lists -/
def demagTensor (fieldBased : Bool) (pi : Rat) (m : Mesh) : M (Mesh × (List Nat → List (List Term))) :=
  if m.ndim ≠ 3 then .error .value
  else match tensorMesh m with
    | .error e => .error e
    | .ok tm => .ok (tm, if fieldBased then tensorFld pi tm else tensorArr pi m)

/-! ## demagnetising field: zero-padded circular convolution, cropped -/

/-- component of the symmetric tensor stored as `xx, yy, zz, xy, xz, yz` -/
def symIdx (a b : Nat) : Nat :=
  if a = b then a else if a + b = 1 then 3 else if a + b = 2 then 4 else 5

/-- `m.pad(…, mode="constant")` at the upper end: value of component `b` at padded index `r` -/
def padded (f : Fld) (b : Nat) (r : List Nat) : Rat :=
  if r.getD 0 0 < f.mesh.nAt 0 ∧ r.getD 1 0 < f.mesh.nAt 1 ∧ r.getD 2 0 < f.mesh.nAt 2
  then (f.data.get [r.getD 0 0, r.getD 1 0, r.getD 2 0]).getD b 0 else 0

/-- `(p − j) mod N` on naturals -/
def subMod (p j N : Nat) : Nat := (p + N - j % N) % N

/-- what `ifftn(fftn(T)·fftn(m_pad))` is: the circular convolution on the `2n−1` grid,
component `a`, at padded cell `p` -/
def circConv (T : NDA (List Rat)) (f : Fld) (a : Nat) (p : List Nat) : Rat :=
  sumTo 3 fun b =>
    sum3 (2 * f.mesh.nAt 0 - 1) (2 * f.mesh.nAt 1 - 1) (2 * f.mesh.nAt 2 - 1) fun j0 j1 j2 =>
      (T.get [j0, j1, j2]).getD (symIdx a b) 0 *
        padded f b [subMod (p.getD 0 0) j0 (2 * f.mesh.nAt 0 - 1),
                    subMod (p.getD 1 0) j1 (2 * f.mesh.nAt 1 - 1),
                    subMod (p.getD 2 0) j2 (2 * f.mesh.nAt 2 - 1)]

/-- `demag_field(m, tensor)` with the tensor given in real space on the `2n−1` grid:
crop `[n−1:, n−1:, n−1:]` of the circular convolution -/
def demagField (T : NDA (List Rat)) (f : Fld) : M Fld :=
  if f.mesh.ndim ≠ 3 then .error .value
  else if f.nvdim ≠ 3 then .error .value
  else if f.mesh.region.dims ≠ ["x", "y", "z"] then .error .value
  else if T.shape ≠ [2 * f.mesh.nAt 0 - 1, 2 * f.mesh.nAt 1 - 1, 2 * f.mesh.nAt 2 - 1] then .error .value
  else
    .ok { mesh := f.mesh, nvdim := 3,
          data := ⟨f.mesh.n, fun q => tab 3 fun a =>
            circConv T f a [q.getD 0 0 + (f.mesh.nAt 0 - 1), q.getD 1 0 + (f.mesh.nAt 1 - 1),
                            q.getD 2 0 + (f.mesh.nAt 2 - 1)]⟩,
          valid := NDA.const f.mesh.n true, vdims := some ["x", "y", "z"],
          vmap := List.zip ["x", "y", "z"] f.mesh.region.dims, unit := none }

/-- SPEC: the linear convolution `H_a(q) = Σ_b Σ_{q'} N_ab(q − q') m_b(q')`, the displacement
`d = q − q'` stored at tensor index `d + n − 1` -/
def linConv (T : NDA (List Rat)) (f : Fld) (a : Nat) (q : List Nat) : Rat :=
  sumTo 3 fun b =>
    sum3 (f.mesh.nAt 0) (f.mesh.nAt 1) (f.mesh.nAt 2) fun r0 r1 r2 =>
      (T.get [q.getD 0 0 + (f.mesh.nAt 0 - 1) - r0, q.getD 1 0 + (f.mesh.nAt 1 - 1) - r1,
              q.getD 2 0 + (f.mesh.nAt 2 - 1) - r2]).getD (symIdx a b) 0 *
        (f.data.get [r0, r1, r2]).getD b 0

/-- a field on mesh `m` uniformly magnetised with magnitude `M` along component `a` -/
def uniF (m : Mesh) (M : Rat) (a : Nat) : Fld :=
  { mesh := m, nvdim := 3, data := NDA.const m.n (tab 3 fun b => if b = a then M else 0),
    valid := NDA.const m.n true, vdims := some ["x", "y", "z"], vmap := [], unit := none }

/-! ## demagnetising field, code-shaped: zero-pad, `fftn`, products, `ifftn`, crop -/

section fft
variable {R : Type} [Zero R] [One R] [Add R] [Mul R]

/-- `m.pad({x: (0, n0−1), y: (0, n1−1), z: (0, n2−1)}, mode="constant")` as an array over `R`
(`ι` embeds the rationals) -/
def padArr (ι : Rat → R) (f : Fld) : NDA (List R) :=
  ⟨[2 * f.mesh.nAt 0 - 1, 2 * f.mesh.nAt 1 - 1, 2 * f.mesh.nAt 2 - 1], fun r => tab 3 fun b => ι (padded f b r)⟩

/-- a rational array of component lists as an array over `R` -/
def embArr (ι : Rat → R) (T : NDA (List Rat)) : NDA (List R) := T.map fun v => v.map ι

/-- `hx_fft, hy_fft, hz_fft` (`tensor.ft_xx * m_fft.ft_x + tensor.ft_xy * m_fft.ft_y + …`) stacked: the
product of the tensor spectrum `That` and the magnetisation spectrum `Mhat`, cell by cell -/
def specProd (That Mhat : NDA (List R)) : NDA (List R) :=
  ⟨That.shape, fun k => tab 3 fun a =>
    C11.compA That (symIdx a 0) k * C11.compA Mhat 0 k + C11.compA That (symIdx a 1) k * C11.compA Mhat 1 k
      + C11.compA That (symIdx a 2) k * C11.compA Mhat 2 k⟩

/-- `H.ifftn()` of the products: `That` is the tensor spectrum handed to `demag_field`, `Mpad` the
padded magnetisation; `fftn`/`ifftn` are C11's array transforms (shifts included).  The two
intermediate arrays are materialised (`force`: every entry evaluated once, the identity on the
cells of the array). -/
def demagFFTArr (ρs : List (C11.Root R)) (That Mpad : NDA (List R)) : NDA (List R) :=
  C11.ifftnArr ρs 3 ((specProd That ((C11.fftnArr ρs 3 Mpad).force [])).force [])

/-- `H.array[n0−1:, n1−1:, n2−1:, :]` for the mesh `m` of the magnetisation -/
def cropArr (A : NDA (List R)) (m : Mesh) : NDA (List R) :=
  ⟨m.n, fun q => A.get [q.getD 0 0 + (m.nAt 0 - 1), q.getD 1 0 + (m.nAt 1 - 1), q.getD 2 0 + (m.nAt 2 - 1)]⟩

/-- `demag_field(m, tensor)` following the code: checks, pad, transform, multiply, transform back,
crop `[n0−1:, n1−1:, n2−1:]`; returns the mesh and the cropped array over `R` (the code takes `.real`) -/
def demagFieldFFT (ι : Rat → R) (ρs : List (C11.Root R)) (That : NDA (List R)) (f : Fld) : M (Mesh × NDA (List R)) :=
  if f.mesh.ndim ≠ 3 then .error .value
  else if f.nvdim ≠ 3 then .error .value
  else if f.mesh.region.dims ≠ ["x", "y", "z"] then .error .value
  else if That.shape ≠ [2 * f.mesh.nAt 0 - 1, 2 * f.mesh.nAt 1 - 1, 2 * f.mesh.nAt 2 - 1] then .error .value
  else
    .ok (f.mesh, cropArr (demagFFTArr ρs That (padArr ι f)) f.mesh)

/-- the tensor spectrum `demag_tensor` hands over: `fftn` of the real-space tensor (six components) -/
def tensorSpectrum (ι : Rat → R) (ρs : List (C11.Root R)) (T : NDA (List Rat)) : NDA (List R) :=
  C11.fftnArr ρs 6 (embArr ι T)

end fft

/-! ## the lattice sheet of the Berg–Lüscher method: triangles of a cell, closedness, smoothness

Specification-level vocabulary of the integrality theorems (`Props/C19.lean`, `bl_charge_integer`), with
decision procedures the driver evaluates on the harness' textures. -/

/-- the vector of cell `(i, j)` -/
abbrev pv (o : Fld) (i j : Nat) : V3 := cellV o [i, j]

/-- the triangle `(v₀, v₁, v₂)` = (cell, east, north) of cell `(i, j)` … -/
def tNE (o : Fld) (i j : Nat) : Tri := triOf (pv o i j) (pv o (i + 1) j) (pv o i (j + 1))
/-- … `(v₀, v₂, v₃)` = (cell, north, west) … -/
def tNW (o : Fld) (i j : Nat) : Tri := triOf (pv o i j) (pv o i (j + 1)) (pv o (i - 1) j)
/-- … `(v₀, v₃, v₄)` = (cell, west, south) … -/
def tSW (o : Fld) (i j : Nat) : Tri := triOf (pv o i j) (pv o (i - 1) j) (pv o i (j - 1))
/-- … `(v₀, v₄, v₁)` = (cell, south, east) -/
def tSE (o : Fld) (i j : Nat) : Tri := triOf (pv o i j) (pv o i (j - 1)) (pv o (i + 1) j)

/-- every cell of the mesh is valid -/
def AllValid (o : Fld) : Prop := ∀ i j, i < o.mesh.nAt 0 → j < o.mesh.nAt 1 → o.valid.get [i, j] = true

/-- the outermost cells all hold the vector `r` -/
def UniformRim (o : Fld) (r : V3) : Prop :=
  ∀ i j, i < o.mesh.nAt 0 → j < o.mesh.nAt 1 → (i = 0 ∨ i + 1 = o.mesh.nAt 0 ∨ j = 0 ∨ j + 1 = o.mesh.nAt 1) →
    cellV o [i, j] = r

/-- what a lattice triangle `(a, b, c)` has to satisfy: unit vectors, no two of them antipodal, and not
the exceptional configuration (coplanar with `1 + a·b + b·c + c·a < 0`, solid angle exactly half the
sphere) in which `bergluescher_angle`'s guard `triple product == 0` returns `0` instead of `±2π` -/
def GoodTri (a b c : V3) : Prop :=
  a.normSq = 1 ∧ b.normSq = 1 ∧ c.normSq = 1 ∧ 1 + V3.dot a b ≠ 0 ∧ 1 + V3.dot b c ≠ 0 ∧ 1 + V3.dot c a ≠ 0 ∧
  ((triOf a b c).t = 0 → 0 < 1 + V3.dot a b + V3.dot b c + V3.dot c a)

instance (a b c : V3) : Decidable (GoodTri a b c) := by unfold GoodTri; infer_instance

/-- the triangle covers less than a quarter of the sphere: `Re N = 1 + a·b + b·c + c·a > 0` -/
def SmallTri (a b c : V3) : Prop := 0 < 1 + V3.dot a b + V3.dot b c + V3.dot c a

instance (a b c : V3) : Decidable (SmallTri a b c) := by unfold SmallTri; infer_instance

/-- A CLOSED SHEET of unit vectors: every cell valid, the outermost cells all equal to the unit vector
`r`, non-degenerate cells, and the four right triangles of every lattice square are good -/
structure ClosedSheet (o : Fld) (r : V3) : Prop where
  valid : AllValid o
  rim : UniformRim o r
  runit : r.normSq = 1
  c0 : o.mesh.cellAt 0 ≠ 0
  c1 : o.mesh.cellAt 1 ≠ 0
  good : ∀ i j, i + 1 < o.mesh.nAt 0 → j + 1 < o.mesh.nAt 1 →
    GoodTri (pv o i j) (pv o (i + 1) j) (pv o i (j + 1)) ∧
    GoodTri (pv o (i + 1) j) (pv o (i + 1) (j + 1)) (pv o i j) ∧
    GoodTri (pv o (i + 1) (j + 1)) (pv o i (j + 1)) (pv o (i + 1) j) ∧
    GoodTri (pv o i (j + 1)) (pv o i j) (pv o (i + 1) (j + 1))

/-- a SMOOTH sheet: every lattice triangle covers less than a quarter of the sphere -/
def SmoothSheet (o : Fld) : Prop :=
  ∀ i j, i + 1 < o.mesh.nAt 0 → j + 1 < o.mesh.nAt 1 →
    SmallTri (pv o i j) (pv o (i + 1) j) (pv o i (j + 1)) ∧
    SmallTri (pv o (i + 1) j) (pv o (i + 1) (j + 1)) (pv o i j) ∧
    SmallTri (pv o (i + 1) (j + 1)) (pv o i (j + 1)) (pv o (i + 1) j) ∧
    SmallTri (pv o i (j + 1)) (pv o i j) (pv o (i + 1) (j + 1))

/-- decision procedure for `ClosedSheet` -/
def closedSheetB (o : Fld) (r : V3) : Bool :=
  allLt (o.mesh.nAt 0) (fun i => allLt (o.mesh.nAt 1) fun j =>
    o.valid.get [i, j] &&
    decide ((i = 0 ∨ i + 1 = o.mesh.nAt 0 ∨ j = 0 ∨ j + 1 = o.mesh.nAt 1) → cellV o [i, j] = r)) &&
  decide (r.normSq = 1) && decide (o.mesh.cellAt 0 ≠ 0) && decide (o.mesh.cellAt 1 ≠ 0) &&
  allLt (o.mesh.nAt 0 - 1) (fun i => allLt (o.mesh.nAt 1 - 1) fun j =>
    decide (GoodTri (pv o i j) (pv o (i + 1) j) (pv o i (j + 1)) ∧
      GoodTri (pv o (i + 1) j) (pv o (i + 1) (j + 1)) (pv o i j) ∧
      GoodTri (pv o (i + 1) (j + 1)) (pv o i (j + 1)) (pv o (i + 1) j) ∧
      GoodTri (pv o i (j + 1)) (pv o i j) (pv o (i + 1) (j + 1))))

/-- decision procedure for `SmoothSheet` -/
def smoothSheetB (o : Fld) : Bool :=
  allLt (o.mesh.nAt 0 - 1) (fun i => allLt (o.mesh.nAt 1 - 1) fun j =>
    decide (SmallTri (pv o i j) (pv o (i + 1) j) (pv o i (j + 1)) ∧
      SmallTri (pv o (i + 1) j) (pv o (i + 1) (j + 1)) (pv o i j) ∧
      SmallTri (pv o (i + 1) (j + 1)) (pv o i (j + 1)) (pv o (i + 1) j) ∧
      SmallTri (pv o i (j + 1)) (pv o i j) (pv o (i + 1) (j + 1))))


end DFV.C19
