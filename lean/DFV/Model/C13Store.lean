import DFV.Model.Transform
/-!
C13 / C14 model addendum (round 3): a **store model** of Region and Mesh OBJECTS — who holds which
Region object, and what an in-place call mutates.  Core Lean only.

Region objects live in `Store.regs` (object id = position; objects are never freed), Mesh objects in
`Store.meshes`; a mesh holds the id of its `_region` and the ids of the values of its `_subregions`
dictionary.  Code-shaped (mesh.py):

* `Mesh.__init__` stores a NEW Region object with the value of the one it is given (repo fix 12c808de,
  finding D134; before it the object was kept by reference and shared) and hands `subregions` to the
  setter;
* the `subregions` setter tests the candidates and stores NEW Region objects
  (`df.Region(p1=sr.pmin, p2=sr.pmax, dims=…, units=…, tolerance_factor=…)` of the mesh region);
* the in-place forms call the in-place method of the mesh's own Region objects one after the other
  (region first, then the subregions in dictionary order; `rotate90` then assigns `_n` and `bc`, the
  latter through the `bc` setter) — an exception in the middle leaves what was already moved;
  `scale` takes the default reference point from the region BEFORE moving it, `rotate90` reads
  `self.region.centre` AFTER the region has been turned in place;
* the copying forms build new Region objects with the copying region methods and go through the
  constructor (which copies the subregions once more).

The value model (`Transform.lean`: `stepM`, `setSubs`, `mkMesh?`) is the abstraction of this model
(`Props/C13.lean`, section "store").
-/
namespace DFV.S
open DFV DFV.T

structure MeshObj where
  region : Nat
  n : List Nat
  bc : String
  subs : List (String × Nat)
  deriving DecidableEq, Repr, Inhabited

structure Store where
  regs : List Region
  meshes : List MeshObj
  deriving Repr, Inhabited

/-- what a statement evaluates to: a Region object or a Mesh object -/
inductive Ref where
  | reg (i : Nat)
  | mesh (i : Nat)
  deriving DecidableEq, Repr

def Store.empty : Store := ⟨[], []⟩
def Store.reg (s : Store) (i : Nat) : Region := s.regs.getD i default
def Store.setReg (s : Store) (i : Nat) (r : Region) : Store := { s with regs := setAt s.regs i r }
def Store.allocs (s : Store) (rs : List Region) : Store := { s with regs := s.regs ++ rs }

/-- the value of a mesh object: the `Mesh` of the value model -/
def absMesh (s : Store) (mo : MeshObj) : Mesh :=
  { region := s.reg mo.region, n := mo.n, bc := mo.bc, subs := mo.subs.map fun p => (p.1, s.reg p.2) }

/-- values of all mesh objects, by id -/
def absAll (s : Store) : List Mesh := s.meshes.map (absMesh s)

/-- the values a dictionary of Region objects stands for -/
def valsOf (s : Store) (subs : List (String × Nat)) : List (String × Region) := subs.map fun p => (p.1, s.reg p.2)

/-- consecutive fresh ids for the copies, names and order kept -/
def freshIds {α} (base : Nat) : List (String × α) → List (String × Nat)
  | [] => []
  | p :: ps => (p.1, base) :: freshIds (base + 1) ps

/-- the Region the setter creates for a candidate: its corners, the mesh region's metadata -/
def stamp (r c : Region) : Region := { pmin := c.pmin, pmax := c.pmax, dims := r.dims, units := r.units, tol := r.tol }

def idsOk (s : Store) (subs : List (String × Nat)) : Bool := subs.all fun p => decide (p.2 < s.regs.length)

/-- the `subregions` setter on a mesh with region value `m.region`, counts `m.n`: all candidates are
tested (on their values, re-created with the mesh region's names, units and tolerance factor: `candOk`),
then fresh copies are stored; returns the new store and the new dictionary -/
def attach (s : Store) (m : Mesh) (subs : List (String × Nat)) : M (Store × List (String × Nat)) :=
  if (valsOf s subs).all (fun p => candOk m p.2) then
    .ok (s.allocs (subs.map fun p => stamp m.region (s.reg p.2)), freshIds s.regs.length subs)
  else .error .value

/-- `Mesh(region=<object rid>, n=…, bc=…, subregions={name: <object id>})`: since repo fix 12c808de
(finding D134) the constructor builds a NEW Region object with the value of the one it is given — the
mesh holds a region object of its own —, then hands `subregions` to the setter, which stores new
objects as well -/
def mkMeshS (s : Store) (rid : Nat) (n : List Nat) (bc : String) (subs : List (String × Nat)) : M Store :=
  if s.regs.length ≤ rid then .error .index
  else if !idsOk s subs then .error .index
  else
    match Mesh.mkN? (s.reg rid) n bc with
    | .error e => .error e
    | .ok m0 =>
      match attach (s.allocs [s.reg rid]) m0 subs with
      | .error e => .error e
      | .ok (s', ids) =>
        .ok { s' with meshes := s'.meshes ++ [{ region := s.regs.length, n := n, bc := bc.toLower, subs := ids }] }

/-- `obj.translate/scale/rotate90(..., inplace=True)` on Region object `i` -/
def updReg (s : Store) (i : Nat) (op : Op) : M Store :=
  match stepR (s.reg i) (op.withInplace true) with
  | .error e => .error e
  | .ok (recv, _) => .ok (s.setReg i recv)

/-- the in-place method on the values of a dictionary, one object after the other; stops at the
first exception, keeping what was already moved (`false`) -/
def updSubs (s : Store) : List (String × Nat) → Op → Store × Bool
  | [], _ => (s, true)
  | p :: ps, op =>
    match updReg s p.2 op with
    | .error _ => (s, false)
    | .ok s' => updSubs s' ps op

/-- the call made on each subregion by the in-place form: `scale` fixes the default reference point
before the region is moved, `rotate90` reads the centre of the region after it has been turned -/
def subOpInplace (before after : Region) : Op → Op
  | .translate v _ => .translate v true
  | .scale f ref _ => .scale f (some (ref.getD before.center)) true
  | .rotate90 a1 a2 k ref _ => .rotate90 a1 a2 k (some (ref.getD after.center)) true

/-- the assignments after the Region objects have been moved: `rotate90` sets `_n` and then `bc`
through the setter (lower-casing, check — which can still raise) -/
def finishInplace (s : Store) (mid : Nat) (mo : MeshObj) : Op → Store × Option Ref
  | .rotate90 a1 a2 k _ _ =>
    match (s.reg mo.region).dim2index a1, (s.reg mo.region).dim2index a2 with
    | .ok i1, .ok i2 =>
      if !Mesh.bcOk (s.reg mo.region).dims (rotBc mo.bc a1 a2 k).toLower then
        ({ s with meshes := setAt s.meshes mid { mo with n := rotN mo.n i1 i2 k } }, none)
      else
        ({ s with meshes := setAt s.meshes mid { mo with n := rotN mo.n i1 i2 k, bc := (rotBc mo.bc a1 a2 k).toLower } },
         some (.mesh mid))
    | _, _ => (s, none)
  | _ => (s, some (.mesh mid))

/-- `mesh.translate/scale/rotate90(..., inplace=True)` -/
def meshInplace (s : Store) (mid : Nat) (op : Op) : Store × Option Ref :=
  match s.meshes[mid]? with
  | none => (s, none)
  | some mo =>
    match updReg s mo.region op with
    | .error _ => (s, none)
    | .ok s1 =>
      match updSubs s1 mo.subs (subOpInplace (s.reg mo.region) (s1.reg mo.region) op) with
      | (s2, false) => (s2, none)
      | (s2, true) => finishInplace s2 mid mo op

/-- the call made on each subregion by the copying form (reference point: the given one, else the
centre of the — untouched — mesh region) -/
def subOpCopy (r : Region) : Op → Op
  | .translate v _ => .translate v false
  | .scale f ref _ => .scale f (some (ref.getD r.center)) false
  | .rotate90 a1 a2 k ref _ => .rotate90 a1 a2 k (some (ref.getD r.center)) false

def opNS (r : Region) (n : List Nat) : Op → List Nat
  | .rotate90 a1 a2 k _ _ =>
    match r.dim2index a1, r.dim2index a2 with
    | .ok i1, .ok i2 => rotN n i1 i2 k
    | _, _ => n
  | _ => n

def opBcS (bc : String) : Op → String
  | .rotate90 a1 a2 k _ _ => rotBc bc a1 a2 k
  | _ => bc

/-- `mesh.translate/scale/rotate90(..., inplace=False)`: new Region objects from the copying region
methods (region, then every subregion), then the constructor -/
def meshCopy (s : Store) (mid : Nat) (op : Op) : Store × Option Ref :=
  match s.meshes[mid]? with
  | none => (s, none)
  | some mo =>
    match stepR (s.reg mo.region) (op.withInplace false),
          mapSubs (valsOf s mo.subs) (fun c => stepR c (subOpCopy (s.reg mo.region) op)) with
    | .error _, _ => (s, none)
    | _, .error _ => (s, none)
    | .ok (_, r'), .ok subs' =>
      match mkMeshS (s.allocs (r' :: subs'.map (·.2))) s.regs.length (opNS (s.reg mo.region) mo.n op) (opBcS mo.bc op)
              (freshIds (s.regs.length + 1) subs') with
      | .error _ => (s, none)
      | .ok s' => (s', some (.mesh s.meshes.length))

/-- the statements of a session -/
inductive Stmt where
  /-- `R = Region(...)`: the value the constructor returned (a value no constructor returns — corners not
  ordered, names repeated, lengths differing — creates nothing) -/
  | newRegion (r : Region)
  /-- `Mesh(region=<rid>, n=…, bc=…, subregions={name: <id>, …})` (all of them copied) -/
  | newMesh (rid : Nat) (n : List Nat) (bc : String) (subs : List (String × Nat))
  /-- `mesh.subregions = {name: <id>, …}` -/
  | setSubs (mid : Nat) (subs : List (String × Nat))
  /-- `mesh.translate / scale / rotate90`, form given by the flag of `op` -/
  | meshOp (mid : Nat) (op : Op)
  /-- the same methods on a Region object (any object: the caller's or one held by a mesh) -/
  | regionOp (rid : Nat) (op : Op)
  deriving Repr

/-- one statement: the store afterwards and the object the statement evaluates to (`none`: it raised) -/
def exec (s : Store) : Stmt → Store × Option Ref
  | .newRegion r => if r.invB then (s.allocs [r], some (.reg s.regs.length)) else (s, none)
  | .newMesh rid n bc subs =>
    match mkMeshS s rid n bc subs with
    | .error _ => (s, none)
    | .ok s' => (s', some (.mesh s.meshes.length))
  | .setSubs mid subs =>
    match s.meshes[mid]? with
    | none => (s, none)
    | some mo =>
      if !idsOk s subs then (s, none)
      else match attach s (absMesh s mo) subs with
        | .error _ => (s, none)
        | .ok (s', ids) => ({ s' with meshes := setAt s'.meshes mid { mo with subs := ids } }, some (.mesh mid))
  | .meshOp mid op => if op.inplace then meshInplace s mid op else meshCopy s mid op
  | .regionOp rid op =>
    if s.regs.length ≤ rid then (s, none)
    else if op.inplace then
      match updReg s rid op with
      | .error _ => (s, none)
      | .ok s' => (s', some (.reg rid))
    else
      match stepR (s.reg rid) (op.withInplace false) with
      | .error _ => (s, none)
      | .ok (_, ret) => (s.allocs [ret], some (.reg s.regs.length))

/-- a session: statements one after the other (a statement that raised has whatever partial effect
`exec` gives it) -/
def run (s : Store) : List Stmt → Store
  | [] => s
  | st :: sts => run (exec s st).1 sts

/-- the Region objects a mesh object can reach -/
def footprint (mo : MeshObj) : List Nat := mo.region :: mo.subs.map (·.2)

/-- object `i` is held by some mesh (as region or as a subregion) -/
def Owned (s : Store) (i : Nat) : Prop := ∃ mo ∈ s.meshes, i ∈ footprint mo

end DFV.S
