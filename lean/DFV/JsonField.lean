import DFV.Json
import DFV.Model.Field
/-! JSON glue for arrays and fields (trusted correspondence glue, not model). -/
namespace DFV
open Lean

/-- `{"shape":[..], "data":[..]}` with data flat in C order -/
def ndaOfJson {α} (f : Json → R α) (d : α) (j : Json) : R (NDA α) := do
  let shape ← nats j "shape"
  let xs ← listOf f (← fld j "data")
  if xs.length ≠ natProd shape then throw s!"array data length {xs.length} ≠ prod shape {natProd shape}"
  pure (NDA.ofList shape xs d)

def ndaToJson {α} (f : α → Json) (a : NDA α) : Json :=
  Json.mkObj [("shape", natsJ a.shape), ("data", listJ f a.toList)]

def optStrOfJson (j : Json) (k : String) : R (Option String) :=
  match fldOpt j k with
  | none => pure none
  | some v => some <$> strOfJson v

def optStrsOfJson (j : Json) (k : String) : R (Option (List String)) :=
  match fldOpt j k with
  | none => pure none
  | some v => some <$> listOf strOfJson v

def pairsOfJson (j : Json) (k : String) : R (List (String × String)) :=
  match fldOpt j k with
  | none => pure []
  | some v => listOf (fun e => do
      let a ← arr e
      match a.toList with
      | [x, y] => pure (← strOfJson x, ← strOfJson y)
      | _ => throw "pair expected") v

def optStrJ : Option String → Json
  | none => .null
  | some s => .str s

def optStrsJ : Option (List String) → Json
  | none => .null
  | some s => strsJ s

def pairsJ (ps : List (String × String)) : Json :=
  listJ (fun (p : String × String) => Json.arr #[.str p.1, .str p.2]) ps

/-- field: `{"mesh":…, "nvdim":k, "data":[[c0,c1,..] per cell, C order], "valid":[bool per
cell], "vdims":[..]|null, "vmap":[[vdim,dim],..], "unit":str|null}` -/
def fldOfJson (j : Json) : R Fld := do
  let mesh ← meshOfJson (← fld j "mesh")
  let nvdim ← natOfJson (← fld j "nvdim")
  let cells ← listOf (listOf ratOfJson) (← fld j "data")
  if cells.length ≠ natProd mesh.n then throw s!"field data length {cells.length} ≠ {natProd mesh.n}"
  let valid ← match fldOpt j "valid" with
    | some v => listOf boolOfJson v
    | none => pure (List.replicate (natProd mesh.n) true)
  if valid.length ≠ natProd mesh.n then throw "valid length"
  let vdims ← optStrsOfJson j "vdims"
  let vmap ← pairsOfJson j "vmap"
  let unit ← optStrOfJson j "unit"
  pure { mesh, nvdim, data := NDA.ofList mesh.n cells [], valid := NDA.ofList mesh.n valid false,
         vdims, vmap, unit }

def fldToJson (f : Fld) : Json :=
  Json.mkObj [("mesh", meshToJson f.mesh), ("nvdim", .num (JsonNumber.fromNat f.nvdim)),
    ("shape", natsJ f.data.shape),
    ("data", listJ ratsJ f.data.toList), ("valid", boolsJ f.valid.toList),
    ("vdims", optStrsJ f.vdims), ("vmap", pairsJ f.vmap), ("unit", optStrJ f.unit)]

end DFV
