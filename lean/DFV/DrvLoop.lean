import DFV.Json
/-! line-protocol loop shared by the per-property driver executables -/
namespace DFV
open Lean

def respond (h : String → Json → Option (R Json)) (line : String) : String :=
  match Json.parse line with
  | .error e => (Json.mkObj [("bad", .str s!"parse: {e}")]).compress
  | .ok j =>
    match j.getObjVal? "op" with
    | .error _ => (Json.mkObj [("bad", .str "no op")]).compress
    | .ok opj =>
      match opj.getStr? with
      | .error _ => (Json.mkObj [("bad", .str "op not a string")]).compress
      | .ok op =>
        match h op j with
        | none => (Json.mkObj [("bad", .str s!"unknown op {op}")]).compress
        | some (.error e) => (Json.mkObj [("bad", .str e)]).compress
        | some (.ok r) => r.compress

partial def loop (h : String → Json → Option (R Json)) (inp out : IO.FS.Stream) : IO Unit := do
  let line ← inp.getLine
  if line.isEmpty then return ()
  let t := line.trimAscii.toString
  if t.isEmpty then out.putStrLn "" else out.putStrLn (respond h t)
  loop h inp out

def drvMain (h : String → Json → Option (R Json)) : IO Unit := do
  let out ← IO.getStdout
  loop h (← IO.getStdin) out
  out.flush

/-- try handlers in order -/
def orElseH (hs : List (String → Json → Option (R Json))) : String → Json → Option (R Json) :=
  fun op j => hs.findSome? fun h => h op j

end DFV
