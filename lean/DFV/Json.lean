/-
JSON glue for the line-protocol driver.  Rationals travel as strings "num/den" (or "num"),
integers as JSON numbers.  Not part of the model; part of the trusted correspondence glue.
-/
import Lean.Data.Json
import DFV.Model.Basic

namespace DFV
open Lean

abbrev R := Except String

def parseInt? (s : String) : Option Int :=
  if s.startsWith "-" then (s.drop 1).toNat?.map fun n => -(n : Int)
  else if s.startsWith "+" then (s.drop 1).toNat?.map fun n => (n : Int)
  else s.toNat?.map fun n => (n : Int)

def ratOfString (s : String) : R Rat :=
  match s.splitOn "/" with
  | [a] => match parseInt? a with
    | some n => .ok (n : Rat)
    | none => .error s!"bad rational {s}"
  | [a, b] => match parseInt? a, b.toNat? with
    | some n, some d => if d = 0 then .error "zero denominator" else .ok ((n : Rat) / (d : Rat))
    | _, _ => .error s!"bad rational {s}"
  | _ => .error s!"bad rational {s}"

def ratOfJson (j : Json) : R Rat :=
  match j with
  | .str s => ratOfString s
  | .num n => .ok ((n.mantissa : Rat) / ((10 : Rat) ^ n.exponent))
  | _ => .error s!"expected rational, got {j.compress}"

def ratToString (q : Rat) : String :=
  if q.den = 1 then toString q.num else s!"{q.num}/{q.den}"

def ratToJson (q : Rat) : Json := .str (ratToString q)

def arr (j : Json) : R (Array Json) :=
  match j with
  | .arr a => .ok a
  | _ => .error s!"expected array, got {j.compress}"

def listOf {α} (f : Json → R α) (j : Json) : R (List α) := do
  let a ← arr j
  a.toList.mapM f

def natOfJson (j : Json) : R Nat :=
  match j.getNat? with
  | .ok n => .ok n
  | .error e => .error e

def intOfJson (j : Json) : R Int :=
  match j.getInt? with
  | .ok n => .ok n
  | .error e => .error e

def strOfJson (j : Json) : R String :=
  match j.getStr? with
  | .ok n => .ok n
  | .error e => .error e

def boolOfJson (j : Json) : R Bool :=
  match j.getBool? with
  | .ok n => .ok n
  | .error e => .error e

def fld (j : Json) (k : String) : R Json :=
  match j.getObjVal? k with
  | .ok v => .ok v
  | .error _ => .error s!"missing field {k}"

def fldOpt (j : Json) (k : String) : Option Json :=
  match j.getObjVal? k with
  | .ok .null => none
  | .ok v => some v
  | .error _ => none

def rats (j : Json) (k : String) : R (List Rat) := do listOf ratOfJson (← fld j k)
def nats (j : Json) (k : String) : R (List Nat) := do listOf natOfJson (← fld j k)
def ints (j : Json) (k : String) : R (List Int) := do listOf intOfJson (← fld j k)
def strs (j : Json) (k : String) : R (List String) := do listOf strOfJson (← fld j k)
def bools (j : Json) (k : String) : R (List Bool) := do listOf boolOfJson (← fld j k)

def ratsJ (xs : List Rat) : Json := .arr (xs.map ratToJson).toArray
def natsJ (xs : List Nat) : Json := .arr (xs.map fun (n : Nat) => Json.num (JsonNumber.fromNat n)).toArray
def intsJ (xs : List Int) : Json := .arr (xs.map fun (n : Int) => Json.num (JsonNumber.fromInt n)).toArray
def strsJ (xs : List String) : Json := .arr (xs.map Json.str).toArray
def boolsJ (xs : List Bool) : Json := .arr (xs.map Json.bool).toArray
def listJ {α} (f : α → Json) (xs : List α) : Json := .arr (xs.map f).toArray

def errJ (e : Err) : Json := Json.mkObj [("err", .str (toString e))]

def resJ {α} (f : α → Json) (x : M α) : Json :=
  match x with
  | .ok v => Json.mkObj [("ok", f v)]
  | .error e => errJ e

/-- Region from `{"pmin":[..],"pmax":[..],"dims":[..],"units":[..],"tol":".."}` — taken as
stored state (no constructor checks). -/
def regionOfJson (j : Json) : R Region := do
  let pmin ← rats j "pmin"
  let pmax ← rats j "pmax"
  let dims ← match fldOpt j "dims" with
    | some d => listOf strOfJson d
    | none => pure (Region.defaultDims pmin.length)
  let units ← match fldOpt j "units" with
    | some d => listOf strOfJson d
    | none => pure (List.replicate pmin.length "m")
  let tol ← match fldOpt j "tol" with
    | some t => ratOfJson t
    | none => pure (1/1000000000000 : Rat)
  pure { pmin, pmax, dims, units, tol }

def regionToJson (r : Region) : Json :=
  Json.mkObj [("pmin", ratsJ r.pmin), ("pmax", ratsJ r.pmax), ("dims", strsJ r.dims),
    ("units", strsJ r.units), ("tol", ratToJson r.tol)]

def subsOfJson (j : Json) : R (List (String × Region)) := do
  match fldOpt j "subs" with
  | none => pure []
  | some s =>
    let a ← arr s
    a.toList.mapM fun e => do
      let nm ← strOfJson (← fld e "name")
      let r ← regionOfJson e
      pure (nm, r)

def meshOfJson (j : Json) : R Mesh := do
  let region ← regionOfJson (← fld j "region")
  let n ← nats j "n"
  let bc ← match fldOpt j "bc" with
    | some b => strOfJson b
    | none => pure ""
  let subs ← subsOfJson j
  pure { region, n, bc, subs }

def meshToJson (m : Mesh) : Json :=
  Json.mkObj [("region", regionToJson m.region), ("n", natsJ m.n), ("bc", .str m.bc),
    ("subs", listJ (fun (p : String × Region) =>
      (regionToJson p.2).setObjVal! "name" (.str p.1)) m.subs)]

end DFV
