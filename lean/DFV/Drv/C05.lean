import DFV.JsonField
import DFV.Model.C05
namespace DFV.Drv
open Lean DFV DFV.C05

/-- optional association list: missing / null = `None`, else list of pairs -/
def optPairs (j : Json) (k : String) : R (Option (List (String × String))) :=
  match fldOpt j k with
  | none => pure none
  | some _ => some <$> pairsOfJson j k

/-- labels and mapping only (the constructor-path ops do not need the data) -/
def metaJ (f : Fld) : Json :=
  Json.mkObj [("nvdim", .num (JsonNumber.fromNat f.nvdim)), ("vdims", optStrsJ f.vdims), ("vmap", pairsJ f.vmap)]

/-- driver ops of property C05 -/
def c05 (op : String) (j : Json) : Option (R Json) :=
  match op with
  | "grad" => some do
      let f ← fldOfJson (← fld j "field")
      pure (resJ fldToJson (grad f))
  | "div" => some do
      let f ← fldOfJson (← fld j "field")
      pure (resJ fldToJson (div f))
  | "curl" => some do
      let f ← fldOfJson (← fld j "field")
      pure (resJ fldToJson (curl f))
  | "laplace" => some do
      let f ← fldOfJson (← fld j "field")
      pure (resJ fldToJson (laplace f))
  | "comp" => some do
      let f ← fldOfJson (← fld j "field")
      let l ← strOfJson (← fld j "label")
      pure (resJ fldToJson (getComp f l))
  | "lshift" => some do
      let a ← fldOfJson (← fld j "a")
      let b ← fldOfJson (← fld j "b")
      pure (resJ fldToJson (lshift a b))
  | "set_vdims" => some do
      let f ← fldOfJson (← fld j "field")
      let vd ← optStrsOfJson j "vdims"
      pure (resJ metaJ (setVdims f vd))
  | "set_vmap" => some do
      let f ← fldOfJson (← fld j "field")
      let mp ← optPairs j "vmap"
      pure (resJ metaJ (setVmap f mp))
  | "mk" => some do
      let mesh ← meshOfJson (← fld j "mesh")
      let nvdim ← natOfJson (← fld j "nvdim")
      let vd ← optStrsOfJson j "vdims"
      let mp ← optPairs j "vmap"
      pure (resJ metaJ (mkFld mesh nvdim (NDA.const mesh.n []) (NDA.const mesh.n true) vd mp none))
  | "rot90" => some do
      let f ← fldOfJson (← fld j "field")
      let da ← strOfJson (← fld j "a")
      let db ← strOfJson (← fld j "b")
      pure (resJ fldToJson (rot90Fld f da db))
  | "rot90k" => some do
      let f ← fldOfJson (← fld j "field")
      let da ← strOfJson (← fld j "a")
      let db ← strOfJson (← fld j "b")
      let k ← intOfJson (← fld j "k")
      pure (resJ fldToJson (rot90FldK f da db k))
  | "rdim" => some do
      let f ← fldOfJson (← fld j "field")
      pure (Json.mkObj [("ok", listJ (fun d => optStrJ (rDimLast f d)) f.mesh.region.dims)])
  | _ => none

end DFV.Drv
