import DFV.JsonField
import DFV.Model.C18
import DFV.Model.C18Ext
namespace DFV.Drv
open Lean DFV DFV.C18

def m3OfJson (j : Json) : R M3 := do
  let rows ← listOf (listOf ratOfJson) j
  if rows.length ≠ 3 ∨ rows.any (fun r => r.length ≠ 3) then throw "3x3 matrix expected"
  pure (M3.ofRows rows)

def m3ToJson (Q : M3) : Json := listJ ratsJ Q.toRows

def c18OpOfJson (j : Json) : R C18.Op := do
  match fldOpt j "rot" with
  | some q =>
    let Q ← m3OfJson q
    let n ← match fldOpt j "n" with
      | some v => some <$> listOf natOfJson v
      | none => pure none
    pure (.rotate Q n)
  | none =>
    match fldOpt j "unknown" with
    | some _ => pure .unknown
    | none => pure .clear

/-- state after one call: error flag, accumulated rotation, current field, and (for a
successful rotate) the boundary-comparator data: per-cell margins and the cubes behind the
automatic cell counts -/
def c18StepJson (s : Rotator) (op : C18.Op) (res : Rotator × Option Err) : Json :=
  let base := [("err", match res.2 with | some e => Json.str (toString e) | none => Json.null),
               ("rot", m3ToJson res.1.rot)]
  match op, res.2 with
  | .rotate Q _, none =>
    let R := Q.mul s.rot
    let g := res.1.cur
    let x3 := match newRegion s.orig R with
      | .ok reg => (List.range 3).map (autoX3 s.orig R reg)
      | .error _ => []
    Json.mkObj (base ++ [("field", fldToJson g), ("x3", ratsJ x3),
      ("margins", ratsJ ((indicesC g.mesh.n).map fun idx => margin s.orig (backPos s.orig R g.mesh idx)))])
  | .clear, _ => Json.mkObj (base ++ [("is_orig", .bool true)])
  | _, _ => Json.mkObj base

def c18History (s : Rotator) (ops : List C18.Op) : Json :=
  let rec go (cur : Rotator) (ops : List C18.Op) (acc : List Json) : List Json :=
    match ops with
    | [] => acc.reverse
    | op :: rest =>
      let res := step cur op
      go res.1 rest (c18StepJson cur op res :: acc)
  Json.arr (go s ops []).toArray

/-- driver ops of property C18 -/
def c18 (op : String) (j : Json) : Option (R Json) :=
  match op with
  | "init" => some do
      let f ← fldOfJson (← fld j "field")
      pure (resJ (fun _ => Json.bool true) (init? f))
  | "history" => some do
      let f ← fldOfJson (← fld j "field")
      let ops ← listOf c18OpOfJson (← fld j "ops")
      match init? f with
      | .error e => pure (errJ e)
      | .ok s => pure (Json.mkObj [("ok", c18History s ops)])
  | "quat" => some do
      let q ← rats j "q"   -- [x, y, z, w] (scipy order)
      let Q := M3.ofQuat (q.getD 3 0) (q.getD 0 0) (q.getD 1 0) (q.getD 2 0)
      pure (Json.mkObj [("ok", m3ToJson Q), ("is_rot", .bool (decide Q.IsRot))])
  | "interp" => some do
      -- direct probe of the interpolator: scalar/vector field, identity rotation, points
      -- relative to the region centre
      let f ← fldOfJson (← fld j "field")
      let pts ← listOf (listOf ratOfJson) (← fld j "pts")
      match ordFor f with
      | .error e => pure (errJ e)
      | .ok ord =>
        pure (Json.mkObj [("ok", listJ ratsJ (pts.map fun p =>
          valuesAt f M3.one ord (V3.ofList p))),
          ("margins", ratsJ (pts.map fun p => margin f (V3.ofList p)))])
  | "mrp" => some do
      -- from_mrp: modified Rodrigues parameters (rational)
      let p ← rats j "p"
      let Q := M3.ofMrp (V3.ofList p)
      pure (Json.mkObj [("ok", m3ToJson Q), ("is_rot", .bool (decide Q.IsRot))])
  | "align" => some do
      -- rotate("align_vector", initial=…, final=…) for vectors of equal length
      let i ← rats j "initial"
      let f ← rats j "final"
      let Q := M3.ofAlign (V3.ofList i) (V3.ofList f)
      pure (Json.mkObj [("ok", m3ToJson Q), ("is_rot", .bool (decide Q.IsRot))])
  | "rq" => some do
      -- quarter turn k·90° in the plane of axes (p, q): the matrix of C12's rotate90
      let p ← natOfJson (← fld j "p")
      let q ← natOfJson (← fld j "q")
      let k ← intOfJson (← fld j "k")
      let Q := Rq p q k
      pure (Json.mkObj [("ok", m3ToJson Q), ("is_rot", .bool (decide Q.IsRot))])
  | "raxis" => some do
      -- from_rotvec(k·π/2·e_a)
      let a ← natOfJson (← fld j "a")
      let k ← intOfJson (← fld j "k")
      pure (Json.mkObj [("ok", m3ToJson (Raxis a k))])
  | "euler" => some do
      -- from_euler(seq, angles) with quarter-turn angles; axes 0/1/2, upper case = intrinsic
      let intr ← boolOfJson (← fld j "intrinsic")
      let axes ← nats j "axes"
      let ks ← ints j "ks"
      pure (Json.mkObj [("ok", m3ToJson (eulerQ intr (axes.zip ks)))])
  | "rcs" => some do
      -- plane rotation (p, q) with rational cosine / sine (e.g. 3/5, 4/5)
      let p ← natOfJson (← fld j "p")
      let q ← natOfJson (← fld j "q")
      let c ← ratOfJson (← fld j "c")
      let s ← ratOfJson (← fld j "s")
      let Q := Rcs p q c s
      pure (Json.mkObj [("ok", m3ToJson Q), ("is_rot", .bool (decide Q.IsRot))])
  | "eulercs" => some do
      -- from_euler(seq, angles) with angles given by rational (cos, sin); upper case = intrinsic
      let intr ← boolOfJson (← fld j "intrinsic")
      let axes ← nats j "axes"
      let cs ← listOf (listOf ratOfJson) (← fld j "cs")
      let Q := eulerCS intr (axes.zip (cs.map fun x => (x.getD 0 0, x.getD 1 0)))
      pure (Json.mkObj [("ok", m3ToJson Q), ("is_rot", .bool (decide Q.IsRot))])
  | "axisangle" => some do
      -- from_rotvec(theta * u): rational unit axis u, rational (cos theta, sin theta)
      let u ← rats j "u"
      let c ← ratOfJson (← fld j "c")
      let s ← ratOfJson (← fld j "s")
      let Q := ofAxisAngle (V3.ofList u) c s
      pure (Json.mkObj [("ok", m3ToJson Q), ("is_rot", .bool (decide Q.IsRot))])
  | "pyth" => some do
      let m ← ratOfJson (← fld j "m")
      let n ← ratOfJson (← fld j "n")
      pure (Json.mkObj [("ok", ratsJ [pythC m n, pythS m n])])
  | "aff_history" => some do
      -- the history of the SAME field in other units: coordinates s*x + d, values times t
      let f ← fldOfJson (← fld j "field")
      let s ← ratOfJson (← fld j "s")
      let d ← rats j "d"
      let t ← ratOfJson (← fld j "t")
      let ops ← listOf c18OpOfJson (← fld j "ops")
      match init? (affFld s (fun a => d.getD a 0) t f) with
      | .error e => pure (errJ e)
      | .ok st => pure (Json.mkObj [("ok", c18History st ops)])
  | "turns" => some do
      -- a sequence of C12's Field.rotate90(ax1, ax2, k) calls (about the centre, copying form) and the ordered
      -- product of their quarter-turn matrices
      let f ← fldOfJson (← fld j "field")
      let seq ← listOf (fun t => do
        let a1 ← strOfJson (← fld t "a1")
        let a2 ← strOfJson (← fld t "a2")
        let k ← intOfJson (← fld t "k")
        pure (a1, a2, k)) (← fld j "seq")
      match turns f seq with
      | none => pure (Json.mkObj [("err", .str "refused")])
      | some g => pure (Json.mkObj [("ok", fldToJson g), ("prod", m3ToJson (prodL (turnsM f seq)))])
  | "argsort" => some do
      -- np.argsort on distinct keys (ordered_idx.argsort())
      let l ← nats j "l"
      pure (Json.mkObj [("ok", natsJ (argsortL l)), ("inv", natsJ ((List.range l.length).map (invAt l)))])
  | "roundcbrt" => some do
      let q ← ratOfJson (← fld j "q")
      pure (Json.mkObj [("ok", .num (JsonNumber.fromNat (roundCbrt q)))])
  | _ => none

end DFV.Drv
