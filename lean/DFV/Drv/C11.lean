import DFV.JsonField
import DFV.Model.C11
namespace DFV.Drv
open Lean DFV DFV.C11

/-- field with Gaussian-rational data: `{"mesh":…, "nvdim":k, "re":[[c0,…] per cell, C order],
"im":[[…]]|null, "vdims":[..]|null, "vmap":[[vdim,dim],..], "unit":str|null}` -/
def cfOfJson (j : Json) : R (CF Poly) := do
  let mesh ← meshOfJson (← fld j "mesh")
  let nvdim ← natOfJson (← fld j "nvdim")
  let re ← listOf (listOf ratOfJson) (← fld j "re")
  let im ← match fldOpt j "im" with
    | some v => listOf (listOf ratOfJson) v
    | none => pure (re.map fun row => row.map fun _ => (0 : Rat))
  if re.length ≠ natProd mesh.n then throw s!"field data length {re.length} ≠ {natProd mesh.n}"
  if im.length ≠ re.length then throw "im length"
  let cells := List.zipWith (fun r i => List.zipWith Poly.const r i) re im
  let vdims ← optStrsOfJson j "vdims"
  let vmap ← pairsOfJson j "vmap"
  let unit ← optStrOfJson j "unit"
  pure { mesh, nvdim, data := NDA.ofList mesh.n cells [], vdims, vmap, unit }

/-- like monomials collected, exponents reduced mod `ns` (`Poly.dense`, a model function whose
evaluation is proved equal to the value of `p`): printed as the list of `[flat exponent index
(C order), re, im]` with a non-zero coefficient -/
def denseJ (ns : List Nat) (p : Poly) : Json :=
  let acc := (Poly.dense ns p).toArray
  let out := (List.range acc.size).filterMap fun k =>
    let c := acc.getD k (0, 0)
    if c.1 = 0 ∧ c.2 = 0 then none
    else some (Json.arr #[Json.num (JsonNumber.fromNat k), ratToJson c.1, ratToJson c.2])
  .arr out.toArray

def cfToJson (ns : List Nat) (f : CF Poly) : Json :=
  Json.mkObj [("mesh", meshToJson f.mesh), ("nvdim", .num (JsonNumber.fromNat f.nvdim)),
    ("shape", natsJ f.data.shape), ("ns", natsJ ns),
    ("coef", listJ (fun (cell : List Poly) => listJ (denseJ ns) cell) f.data.toList),
    ("vdims", optStrsJ f.vdims), ("vmap", pairsJ f.vmap), ("unit", optStrJ f.unit)]

def optShape (j : Json) : R (Option (List Nat)) :=
  match fldOpt j "shape" with
  | none => pure none
  | some v => some <$> listOf natOfJson v

/-- ops of property C11 -/
def c11 (op : String) (j : Json) : Option (R Json) :=
  match op with
  | "freqs" => some do
      let n ← natOfJson (← fld j "n"); let d ← ratOfJson (← fld j "d")
      pure (Json.mkObj [("fftfreq", ratsJ (fftfreq n d)), ("rfftfreq", ratsJ (rfftfreq n d)),
        ("shifted", ratsJ (fftshiftL (fftfreq n d)))])
  | "mesh_fftn" => some do
      let m ← meshOfJson (← fld j "mesh"); let rfft ← boolOfJson (← fld j "rfft")
      pure (resJ meshToJson (meshFftn m rfft))
  | "mesh_ifftn" => some do
      let m ← meshOfJson (← fld j "mesh"); let rfft ← boolOfJson (← fld j "rfft")
      pure (resJ meshToJson (meshIfftn m rfft (← optShape j)))
  | "field" => some do
      let f ← cfOfJson (← fld j "field")
      let kind ← strOfJson (← fld j "kind")
      match kind with
      | "fftn" => pure (resJ (cfToJson f.data.shape) (fftn (Poly.roots f.data.shape) f))
      | "rfftn" => pure (resJ (cfToJson f.data.shape) (rfftn (Poly.roots f.data.shape) f))
      | "ifftn" => pure (resJ (cfToJson f.data.shape) (ifftn (Poly.roots f.data.shape) f))
      | "irfftn" =>
        let shape ← optShape j
        -- the moduli are the output counts (known once the mesh-level call succeeded)
        match meshIfftn f.mesh true shape with
        | .error e => pure (errJ e)
        | .ok k => pure (resJ (cfToJson k.n) (irfftnNP (Poly.conj k.n) Poly.half (Poly.roots k.n) f shape))
      | _ => throw s!"unknown kind {kind}"
  | "chain" => some do
      -- forward ∘ inverse on a k-space field, both steps in the model (symbolic all the way)
      let f ← cfOfJson (← fld j "field")
      let kind ← strOfJson (← fld j "kind")
      match kind with
      | "ifftn_fftn" =>
        match ifftn (Poly.roots f.data.shape) f with
        | .error e => pure (errJ e)
        | .ok h => pure (resJ (cfToJson f.data.shape) (fftn (Poly.roots f.data.shape) h))
      | "irfftn_rfftn" =>
        let shape ← optShape j
        match meshIfftn f.mesh true shape with
        | .error e => pure (errJ e)
        | .ok k =>
          match irfftnNP (Poly.conj k.n) Poly.half (Poly.roots k.n) f shape with
          | .error e => pure (errJ e)
          | .ok h => pure (resJ (cfToJson k.n) (rfftn (Poly.roots k.n) h))
      | _ => throw s!"unknown kind {kind}"
  | _ => none

end DFV.Drv
