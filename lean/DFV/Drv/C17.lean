import DFV.JsonField
import DFV.Model.C17
import DFV.Model.C17Fast
namespace DFV.Drv
open Lean DFV DFV.C17

/-! JSON glue of property C17 (trusted correspondence glue, not model).  Field values travel
as opaque string tokens (the harness canonicalises every number to a string). -/

def c17OptRats (j : Json) (k : String) : R (Option (List Rat)) :=
  match fldOpt j k with
  | none => pure none
  | some v => some <$> listOf ratOfJson v

def c17OptRat (j : Json) (k : String) : R (Option Rat) :=
  match fldOpt j k with
  | none => pure none
  | some v => some <$> ratOfJson v

def c17NvOfJson (j : Json) : R (Option NvAttr) :=
  match fldOpt j "nvdim" with
  | none => pure none
  | some v =>
    match fldOpt v "int" with
    | some i => do pure (some (.int (← intOfJson i)))
    | none => do pure (some (.other (← ratOfJson (← fld v "other"))))

def c17AttrsOfJson (j : Json) : R Attrs := do
  pure { units := ← optStrOfJson j "units", cell := ← c17OptRats j "cell", pmin := ← c17OptRats j "pmin",
         pmax := ← c17OptRats j "pmax", nvdim := ← c17NvOfJson j, tol := ← c17OptRat j "tol" }

def c17OptRatsJ : Option (List Rat) → Json
  | none => .null
  | some l => ratsJ l

def c17AttrsToJson (a : Attrs) : Json :=
  Json.mkObj [("units", optStrJ a.units), ("cell", c17OptRatsJ a.cell), ("pmin", c17OptRatsJ a.pmin),
    ("pmax", c17OptRatsJ a.pmax),
    ("nvdim", match a.nvdim with
      | none => .null
      | some (.int k) => Json.mkObj [("int", .num (JsonNumber.fromInt k))]
      | some (.other q) => Json.mkObj [("other", ratToJson q)]),
    ("tol", match a.tol with | none => .null | some t => ratToJson t)]

def c17AxisOfJson (j : Json) : R Axis := do
  let name ← strOfJson (← fld j "name")
  let size ← natOfJson (← fld j "size")
  let coord ← match fldOpt j "coord" with
    | none => pure none
    | some c => do pure (some { vals := ← rats c "vals", units := ← optStrOfJson c "units" : Coord })
  pure { name, size, coord }

def c17AxisToJson (a : Axis) : Json :=
  Json.mkObj [("name", .str a.name), ("size", .num (JsonNumber.fromNat a.size)),
    ("coord", match a.coord with
      | none => .null
      | some c => Json.mkObj [("vals", ratsJ c.vals), ("units", optStrJ c.units)])]

def c17DataOfJson (j : Json) : R (NDA String) := do
  let shape ← nats j "shape"
  let xs ← listOf strOfJson (← fld j "data")
  if xs.length ≠ natProd shape then throw s!"data length {xs.length} ≠ prod shape {natProd shape}"
  pure (NDA.ofList shape xs "?")

def c17XaOfJson (j : Json) : R (XA String) := do
  pure { name := ← strOfJson (← fld j "name"), axes := ← listOf c17AxisOfJson (← fld j "axes"),
         vdimsCoord := ← optStrsOfJson j "vdims", data := ← c17DataOfJson j,
         attrs := ← c17AttrsOfJson (← fld j "attrs"), dtype := ← strOfJson (← fld j "dtype") }

def c17XaToJson (xa : XA String) : Json :=
  Json.mkObj [("name", .str xa.name), ("axes", listJ c17AxisToJson xa.axes), ("dims", strsJ xa.dims),
    ("vdims", optStrsJ xa.vdimsCoord), ("shape", natsJ xa.data.shape), ("data", strsJ xa.data.toList),
    ("attrs", c17AttrsToJson xa.attrs), ("dtype", .str xa.dtype)]

def c17FldOfJson (j : Json) : R (XFld String) := do
  let mesh ← meshOfJson (← fld j "mesh")
  let nvdim ← natOfJson (← fld j "nvdim")
  let data ← c17DataOfJson j
  let valid ← match fldOpt j "valid" with
    | some v => listOf boolOfJson v
    | none => pure (List.replicate (natProd mesh.n) true)
  if valid.length ≠ natProd mesh.n then throw "valid length"
  pure { mesh, nvdim, data, valid := NDA.ofList mesh.n valid false, vdims := ← optStrsOfJson j "vdims",
         vmap := ← pairsOfJson j "vmap", unit := ← optStrOfJson j "unit", dtype := ← strOfJson (← fld j "dtype") }

def c17FldToJson (f : XFld String) : Json :=
  Json.mkObj [("mesh", meshToJson f.mesh), ("nvdim", .num (JsonNumber.fromNat f.nvdim)),
    ("shape", natsJ f.data.shape), ("data", strsJ f.data.toList), ("valid", boolsJ f.valid.toList),
    ("vdims", optStrsJ f.vdims), ("vmap", pairsJ f.vmap), ("unit", optStrJ f.unit), ("dtype", .str f.dtype)]

def c17ArgOfJson (j : Json) (k : String) (dflt : PyArg) : R PyArg :=
  match j.getObjVal? k with
  | .error _ => pure dflt
  | .ok .null => pure .none
  | .ok (.str s) => pure (.str s)
  | .ok _ => pure .other

def c17MeshOpOfJson (j : Json) : R MeshOp := do
  match ← strOfJson (← fld j "op") with
  | "translate" => pure (.translate (← rats j "v"))
  | "scale" =>
    let f ← fld j "f"
    let fac ← match f with
      | .arr _ => T.Factor.vec <$> listOf ratOfJson f
      | _ => T.Factor.scalar <$> ratOfJson f
    let ref ← c17OptRats j "ref"
    pure (.scale fac ref)
  | o => throw s!"unknown mesh op {o}"

/-- the answers of the real class to `hasattr(field, c)` for the labels occurring in the
request (`"attrs"`: the labels for which the answer is yes; absent = none) -/
def c17AttrsInst (j : Json) : R FieldAttrs := do
  let lst ← match fldOpt j "attrs" with
    | none => pure []
    | some v => listOf strOfJson v
  pure ⟨fun c => lst.contains c⟩

/-- ops of property C17 -/
def c17 (op : String) (j : Json) : Option (R Json) :=
  match op with
  | "export" => some do
      let inst ← c17AttrsInst j
      let f ← c17FldOfJson (← fld j "field")
      let name ← c17ArgOfJson j "name" (.str "field")
      let unit ← c17ArgOfJson j "unit" .none
      pure ((resJ c17XaToJson (toXarray f name unit)).setObjVal! "wf" (.bool (@XFld.wfB inst _ f)))
  | "export_hist" => some do
      -- the field as it was BEFORE the in-place calls on its mesh, the calls, then `to_xarray`
      let inst ← c17AttrsInst j
      let f ← c17FldOfJson (← fld j "field")
      let ops ← listOf c17MeshOpOfJson (← fld j "ops")
      let name ← c17ArgOfJson j "name" (.str "field")
      let unit ← c17ArgOfJson j "unit" .none
      pure ((resJ c17XaToJson (exportAfter f ops name unit)).setObjVal! "wf" (.bool (@XFld.wfB inst _ (f.run ops))))
  | "import" => some do
      let inst ← c17AttrsInst j
      match fldOpt j "xa" with
      | none => pure (resJ c17FldToJson (@fromXarrayFast inst _ (PyObj.other : PyObj String)))
      | some x =>
        let xa ← c17XaOfJson x
        -- `fromXarrayFast = fromXarray` (`Props/C17.fast_import_eq`): the spacing test and the inferred cell
        -- size in one pass per coordinate, so that axes of thousands of cells are compared too.
        -- margin: how far each geometric coordinate is from the spacing threshold (≤ 1 passes), for the comparator
        let margin := (geo xa).map fun a => spacingMargin a.values
        pure ((resJ c17FldToJson (@fromXarrayFast inst _ (.dataArray xa))).setObjVal! "margin" (ratsJ margin))
  | _ => none

end DFV.Drv
