import DFV.JsonField
import DFV.Model.C19
namespace DFV.Drv
open Lean DFV DFV.C19

namespace C19J

def methodOf (s : String) : Method :=
  if s = "continuous" then .continuous else if s = "berg-luescher" then .bergLuescher else .other

def triJ (t : Tri) : Json := ratsJ [t.d12, t.d23, t.d31, t.t]

def leafJ : Leaf → List Json
  | .asinh a b => [.str "s", ratToJson a, ratToJson b]
  | .atan a b c => [.str "t", ratToJson a, ratToJson b, ratToJson c]
  | .sqrt a => [.str "q", ratToJson a]

def termJ (t : C19.Term) : Json := .arr (ratToJson t.coef :: leafJ t.leaf).toArray

/-- add a term to an association list keyed by the leaf (JSON compaction only: terms with
the same leaf are merged by adding their coefficients) -/
def addTerm (t : C19.Term) : List C19.Term → List C19.Term
  | [] => [t]
  | u :: r => if u.leaf = t.leaf then ⟨u.coef + t.coef, u.leaf⟩ :: r else u :: addTerm t r

def compact (ts : List C19.Term) : List C19.Term :=
  (ts.foldl (fun acc t => if t.coef = 0 then acc else addTerm t acc) []).filter fun t => t.coef ≠ 0

def optRatJ : Option Rat → Json
  | none => .null
  | some q => ratToJson q

def bpJ (r : BpResult) : Json :=
  Json.mkObj [("fint", ratsJ r.fint), ("number", intsJ r.number), ("total", .num (JsonNumber.fromInt r.total)),
    ("hh", .num (JsonNumber.fromInt r.hh)), ("tt", .num (JsonNumber.fromInt r.tt)),
    ("pattern", listJ (fun (p : Int × Nat) => Json.arr #[.num (JsonNumber.fromInt p.1), .num (JsonNumber.fromNat p.2)]) r.pattern)]

/-- a root-of-unity polynomial with like monomials collected, exponents reduced mod `ns`
(`C11.Poly.dense`): the list of `[flat exponent index (C order), re, im]` with a non-zero coefficient -/
def polyJ (ns : List Nat) (p : C11.Poly) : Json :=
  let acc := (C11.Poly.dense ns p).toArray
  let out := (List.range acc.size).filterMap fun k =>
    let c := acc.getD k (0, 0)
    if c.1 = 0 ∧ c.2 = 0 then none
    else some (Json.arr #[Json.num (JsonNumber.fromNat k), ratToJson c.1, ratToJson c.2])
  .arr out.toArray

end C19J
open C19J

/-- driver ops of property C19.  Leaf functions: `sq = ratSqrt`; `acos`, `deg`, `Ω`,
`asinh`, `atan`, `sqrt` of the tensor are NOT evaluated here — the ops return the algebraic
arguments (clipped dot products, triangle invariants, symbolic term lists). -/
def c19 (op : String) (j : Json) : Option (R Json) :=
  match op with
  | "orientation" => some do
      let f ← fldOfJson (← fld j "field")
      pure (Json.mkObj [("ok", fldToJson (orientation ratSqrt f))])
  | "tcd" => some do
      let f ← fldOfJson (← fld j "field")
      let pi ← ratOfJson (← fld j "pi")
      let ms ← strOfJson (← fld j "method")
      match methodOf ms with
      | .bergLuescher =>
        -- the model's density with the leaf Ω left symbolic: per cell validity + triangles
        match tcdBL ratSqrt (fun _ => 0) f with
        | .error e => pure (errJ e)
        | .ok q =>
          let o := orientation ratSqrt f
          let cells := (indicesC f.data.shape).map fun i =>
            Json.mkObj [("valid", .bool (o.valid.get [i.getD 0 0, i.getD 1 0])),
              ("tris", listJ triJ (triangles o (i.getD 0 0) (i.getD 1 0)))]
          pure (Json.mkObj [("ok", Json.mkObj [("cells", .arr cells.toArray), ("area", ratToJson (triArea o.mesh)),
            ("dV", ratToJson (ratProd q.mesh.cell)), ("mesh", meshToJson q.mesh), ("valid", boolsJ q.valid.toList)])])
      | m =>
        match tcd ratSqrt pi (fun _ => 0) f m with
        | .error e => pure (errJ e)
        | .ok q => pure (Json.mkObj [("ok", fldToJson q), ("charge", ratToJson (integrateAll false q)),
            ("abs_charge", ratToJson (integrateAll true q))])
  | "emergent" => some do
      let f ← fldOfJson (← fld j "field")
      pure (resJ fldToJson (emergent f))
  | "angle" => some do
      let f ← fldOfJson (← fld j "field")
      let dir ← strOfJson (← fld j "dir")
      let units ← strOfJson (← fld j "units")
      -- leaves left as identities: the data are the clipped dot products
      pure (resJ fldToJson (neighbourAngle ratSqrt id id f dir units))
  | "max_angle" => some do
      let f ← fldOfJson (← fld j "field")
      let units ← strOfJson (← fld j "units")
      match maxNeighbourAngle ratSqrt id id f units with
      | .error e => pure (errJ e)
      | .ok g =>
        pure (Json.mkObj [("ok", Json.mkObj [("mesh", meshToJson g.mesh),
          ("dots", listJ (fun i => listJ optRatJ (nbDots ratSqrt f i)) (indicesC f.mesh.n))])])
  | "count_bps" => some do
      let f ← fldOfJson (← fld j "field")
      let dir ← strOfJson (← fld j "dir")
      let pi ← ratOfJson (← fld j "pi")
      pure (resJ bpJ (countBps ratSqrt pi f dir))
  | "demag_cells" => some do
      let m ← meshOfJson (← fld j "mesh")
      let pi ← ratOfJson (← fld j "pi")
      let fb ← boolOfJson (← fld j "field_based")
      let cells ← listOf (listOf natOfJson) (← fld j "cells")
      match demagTensor fb pi m with
      | .error e => pure (errJ e)
      | .ok (tm, g) =>
        pure (Json.mkObj [("ok", Json.mkObj [("mesh", meshToJson tm),
          ("cells", listJ (fun c => listJ (fun ts => listJ termJ (compact ts)) (g c)) cells)])])
  | "demag_field" => some do
      let f ← fldOfJson (← fld j "field")
      let tj ← fld j "tensor"
      let shape ← nats tj "shape"
      let cells ← listOf (listOf ratOfJson) (← fld tj "data")
      if cells.length ≠ natProd shape then throw "tensor data length"
      pure (resJ fldToJson (demagField (NDA.ofList shape cells []) f))
  | "demag_field_fft" => some do
      -- the code-shaped path: pad, C11's fftn, products, C11's ifftn, crop — over formal roots of unity
      let f ← fldOfJson (← fld j "field")
      let tj ← fld j "tensor"
      let shape ← nats tj "shape"
      let cells ← listOf (listOf ratOfJson) (← fld tj "data")
      if cells.length ≠ natProd shape then throw "tensor data length"
      let T := NDA.ofList shape cells []
      let ι : Rat → C11.Poly := fun q => C11.Poly.const q 0
      let ρs := C11.Poly.roots shape
      let That := (tensorSpectrum ι ρs T).force []
      match demagFieldFFT ι ρs That f with
      | .error e => pure (errJ e)
      | .ok (mesh, arr) =>
        pure (Json.mkObj [("ok", Json.mkObj [("mesh", meshToJson mesh), ("ns", natsJ shape),
          ("coef", listJ (fun i => listJ (polyJ shape) (arr.get i)) (indicesC mesh.n))])])
  | "bl_sheet" => some do
      -- the decision procedures for the hypotheses of the integrality theorems (`bl_charge_half_integer`,
      -- `bl_charge_integer`) on the orientation field of the given field
      let f ← fldOfJson (← fld j "field")
      let r ← listOf ratOfJson (← fld j "rim")
      let o := orientation ratSqrt f
      pure (Json.mkObj [("ok", Json.mkObj [("closed", .bool (closedSheetB o (V3.ofList r))),
        ("smooth", .bool (smoothSheetB o))])])
  | "sqrt" => some do
      let q ← ratOfJson (← fld j "q")
      pure (Json.mkObj [("ok", ratToJson (ratSqrt q))])
  | _ => none

end DFV.Drv
