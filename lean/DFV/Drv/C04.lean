import DFV.JsonField
import DFV.Model.C04
import DFV.Model.C04Ext
namespace DFV.Drv
open Lean DFV DFV.C04

def c04 (op : String) (j : Json) : Option (R Json) :=
  match op with
  | "sdc" => some do
      let order ← natOfJson (← fld j "order")
      let h ← ratOfJson (← fld j "h")
      let vals ← rats j "vals"
      let valid ← bools j "valid"
      let periodic ← boolOfJson (← fld j "periodic")
      let restrict ← boolOfJson (← fld j "restrict")
      pure (Json.mkObj [("ok", ratsJ (diffLine' periodic restrict order h (List.zip vals valid)))])
  | "field_diff" => some do
      let f ← fldOfJson (← fld j "field")
      let ax ← natOfJson (← fld j "ax")
      let order ← natOfJson (← fld j "order")
      let restrict ← boolOfJson (← fld j "restrict")
      pure (resJ fldToJson (diff f ax order restrict))
  | "field_diff_dir" => some do
      let f ← fldOfJson (← fld j "field")
      let dir ← strOfJson (← fld j "dir")
      let order ← intOfJson (← fld j "order")
      let restrict ← boolOfJson (← fld j "restrict")
      pure (resJ fldToJson (diffDirI f dir order restrict))
  | "diff_kind" => some do
      let dt ← strOfJson (← fld j "dtype")
      match Kind.ofString? dt with
      | some k => pure (Json.mkObj [("ok", .str (resKind k).toString)])
      | none => pure (errJ .type)
  | _ => none

end DFV.Drv
