import DFV.JsonField
import DFV.Model.C04
namespace DFV.Drv
open Lean DFV DFV.C04

def c04 (op : String) (j : Json) : Option (R Json) :=
  match op with
  | "sdc" => some do
      let order ← natOfJson (← fld j "order")
      let h ← ratOfJson (← fld j "h")
      let vals ← rats j "vals"
      let valid ← bools j "valid"
      let periodic ← boolOfJson (← fld j "periodic")
      let restrict ← boolOfJson (← fld j "restrict")
      pure (Json.mkObj [("ok", ratsJ (diffLine' periodic restrict order h (List.zip vals valid)))])
  | "field_diff" => some do
      let f ← fldOfJson (← fld j "field")
      let ax ← natOfJson (← fld j "ax")
      let order ← natOfJson (← fld j "order")
      let restrict ← boolOfJson (← fld j "restrict")
      pure (resJ fldToJson (diff f ax order restrict))
  | _ => none

end DFV.Drv
