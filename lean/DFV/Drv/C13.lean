import DFV.JsonField
import DFV.Model.Transform
namespace DFV.Drv
open Lean DFV DFV.T

def optRats (j : Json) (k : String) : R (Option (List Rat)) :=
  match fldOpt j k with
  | none => pure none
  | some v => some <$> listOf ratOfJson v

def opOfJson (j : Json) : R Op := do
  let t ← strOfJson (← fld j "t")
  let inplace ← boolOfJson (← fld j "inplace")
  match t with
  | "translate" => pure (.translate (← rats j "v") inplace)
  | "scale" =>
    let f ← fld j "f"
    let fac ← match f with
      | .arr _ => Factor.vec <$> listOf ratOfJson f
      | _ => Factor.scalar <$> ratOfJson f
    pure (.scale fac (← optRats j "ref") inplace)
  | "rotate90" =>
    pure (.rotate90 (← strOfJson (← fld j "ax1")) (← strOfJson (← fld j "ax2")) (← intOfJson (← fld j "k"))
      (← optRats j "ref") inplace)
  | _ => throw s!"unknown transformation {t}"

/-- run a history, reporting receiver and returned object after every step -/
def history {σ} (step : σ → Op → M (σ × σ)) (toJ : σ → Json) (s : σ) (ops : List Op) : Json :=
  let rec go (cur : σ) (ops : List Op) (acc : List Json) : List Json :=
    match ops with
    | [] => acc.reverse
    | op :: rest =>
      match step cur op with
      | .ok (recv, ret) => go ret rest (Json.mkObj [("ok", Json.mkObj [("recv", toJ recv), ("ret", toJ ret)])] :: acc)
      | .error e => go cur rest (errJ e :: acc)
  Json.arr (go s ops []).toArray

def c13 (op : String) (j : Json) : Option (R Json) :=
  match op with
  | "region_history" => some do
      let r ← regionOfJson (← fld j "region")
      let ops ← listOf opOfJson (← fld j "ops")
      pure (history stepR regionToJson r ops)
  | "mesh_history" => some do
      let m ← meshOfJson (← fld j "mesh")
      let ops ← listOf opOfJson (← fld j "ops")
      pure (history stepM meshToJson m ops)
  | "field_history" => some do
      let f ← fldOfJson (← fld j "field")
      let ops ← listOf opOfJson (← fld j "ops")
      pure (history stepF fldToJson f ops)
  | "set_subs" => some do
      let m ← meshOfJson (← fld j "mesh")
      let subs ← subsOfJson (← fld j "cand")
      pure (resJ meshToJson (setSubs { m with subs := [] } subs))
  | "is_aligned" => some do
      let m ← meshOfJson (← fld j "mesh")
      let o ← meshOfJson (← fld j "other")
      let tol ← match fldOpt j "tol" with | some t => ratOfJson t | none => pure (1/1000000000000 : Rat)
      pure (Json.mkObj [("ok", .bool (isAligned m o tol))])
  | _ => none

end DFV.Drv
