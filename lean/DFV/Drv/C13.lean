import DFV.JsonField
import DFV.Model.Transform
import DFV.Model.C13Store
namespace DFV.Drv
open Lean DFV DFV.T

def optRats (j : Json) (k : String) : R (Option (List Rat)) :=
  match fldOpt j k with
  | none => pure none
  | some v => some <$> listOf ratOfJson v

def opOfJson (j : Json) : R Op := do
  let t ← strOfJson (← fld j "t")
  let inplace ← boolOfJson (← fld j "inplace")
  match t with
  | "translate" => pure (.translate (← rats j "v") inplace)
  | "scale" =>
    let f ← fld j "f"
    let fac ← match f with
      | .arr _ => Factor.vec <$> listOf ratOfJson f
      | _ => Factor.scalar <$> ratOfJson f
    pure (.scale fac (← optRats j "ref") inplace)
  | "rotate90" =>
    pure (.rotate90 (← strOfJson (← fld j "ax1")) (← strOfJson (← fld j "ax2")) (← intOfJson (← fld j "k"))
      (← optRats j "ref") inplace)
  | _ => throw s!"unknown transformation {t}"

/-- run a history, reporting receiver and returned object after every step -/
def history {σ} (step : σ → Op → M (σ × σ)) (toJ : σ → Json) (s : σ) (ops : List Op) : Json :=
  let rec go (cur : σ) (ops : List Op) (acc : List Json) : List Json :=
    match ops with
    | [] => acc.reverse
    | op :: rest =>
      match step cur op with
      | .ok (recv, ret) => go ret rest (Json.mkObj [("ok", Json.mkObj [("recv", toJ recv), ("ret", toJ ret)])] :: acc)
      | .error e => go cur rest (errJ e :: acc)
  Json.arr (go s ops []).toArray

/-! ## store sessions (round 3): statements refer to objects by the statement that produced them -/
open DFV.S in
/-- a Region object named by a path: `{"res": k}` — what statement `k` evaluated to; `{"mesh": k, "part": "region"}`
— the region of the mesh statement `k` evaluated to; `{"mesh": k, "sub": name}` — its subregion `name` -/
def resolveReg (s : Store) (results : Array (Option Ref)) (j : Json) : R Nat := do
  match fldOpt j "res" with
  | some k =>
    match results.getD (← natOfJson k) none with
    | some (.reg i) => pure i
    | _ => throw "statement did not evaluate to a Region"
  | none =>
    let k ← natOfJson (← fld j "mesh")
    match results.getD k none with
    | some (.mesh m) =>
      match s.meshes[m]? with
      | none => throw "no such mesh"
      | some mo =>
        match fldOpt j "sub" with
        | some nm =>
          let name ← strOfJson nm
          match mo.subs.find? (fun p => p.1 == name) with
          | some p => pure p.2
          | none => throw s!"mesh has no subregion {name}"
        | none => pure mo.region
    | _ => throw "statement did not evaluate to a Mesh"

open DFV.S in
def resolveMesh (results : Array (Option Ref)) (j : Json) : R Nat := do
  match results.getD (← natOfJson j) none with
  | some (.mesh m) => pure m
  | _ => throw "statement did not evaluate to a Mesh"

open DFV.S in
def resolveSubs (s : Store) (results : Array (Option Ref)) (j : Json) : R (List (String × Nat)) := do
  (← arr j).toList.mapM fun e => do
    let pr ← arr e
    if pr.size ≠ 2 then throw "subregion entry must be [name, ref]"
    pure ((← strOfJson pr[0]!), (← resolveReg s results pr[1]!))

open DFV.S in
def stmtOfJson (s : Store) (results : Array (Option Ref)) (j : Json) : R Stmt := do
  match ← strOfJson (← fld j "t") with
  | "region" => pure (.newRegion (← regionOfJson (← fld j "region")))
  | "mesh" =>
    let subs ← match fldOpt j "subs" with | some v => resolveSubs s results v | none => pure []
    pure (.newMesh (← resolveReg s results (← fld j "region")) (← nats j "n")
      (← match fldOpt j "bc" with | some b => strOfJson b | none => pure "") subs)
  | "setsubs" => pure (.setSubs (← resolveMesh results (← fld j "mesh")) (← resolveSubs s results (← fld j "subs")))
  | "meshop" => pure (.meshOp (← resolveMesh results (← fld j "mesh")) (← opOfJson (← fld j "op")))
  | "regionop" => pure (.regionOp (← resolveReg s results (← fld j "obj")) (← opOfJson (← fld j "op")))
  | t => throw s!"unknown statement {t}"

open DFV.S in
def refToJson : Option Ref → Json
  | none => .null
  | some (.reg i) => Json.mkObj [("reg", .num (JsonNumber.fromNat i))]
  | some (.mesh i) => Json.mkObj [("mesh", .num (JsonNumber.fromNat i))]

open DFV.S in
def storeToJson (s : Store) : Json :=
  Json.mkObj [("regs", listJ regionToJson s.regs),
    ("meshes", listJ (fun (mo : MeshObj) => Json.mkObj [("region", .num (JsonNumber.fromNat mo.region)), ("n", natsJ mo.n),
      ("bc", .str mo.bc),
      ("subs", listJ (fun (p : String × Nat) => Json.arr #[.str p.1, .num (JsonNumber.fromNat p.2)]) mo.subs)]) s.meshes)]

open DFV.S in
/-- replay a session, reporting after every statement what it evaluated to and the whole store -/
def session (stmts : List Json) : R Json := do
  let mut s : Store := Store.empty
  let mut results : Array (Option Ref) := #[]
  let mut out : Array Json := #[]
  for j in stmts do
    if (← strOfJson (← fld j "t")) == "skip" then
      -- a statement the harness could not even form (it names the result of a statement that raised)
      results := results.push none
      out := out.push (Json.mkObj [("ret", .null), ("store", storeToJson s)])
      continue
    let st ← stmtOfJson s results j
    let (s', r) := exec s st
    s := s'
    results := results.push r
    out := out.push (Json.mkObj [("ret", refToJson r), ("store", storeToJson s')])
  pure (Json.arr out)

def c13 (op : String) (j : Json) : Option (R Json) :=
  match op with
  | "region_history" => some do
      let r ← regionOfJson (← fld j "region")
      let ops ← listOf opOfJson (← fld j "ops")
      pure (history stepR regionToJson r ops)
  | "mesh_history" => some do
      let m ← meshOfJson (← fld j "mesh")
      let ops ← listOf opOfJson (← fld j "ops")
      pure (history stepM meshToJson m ops)
  | "field_history" => some do
      let f ← fldOfJson (← fld j "field")
      let ops ← listOf opOfJson (← fld j "ops")
      pure (history stepF fldToJson f ops)
  | "store_session" => some do
      session (← arr (← fld j "stmts")).toList
  | "set_subs" => some do
      let m ← meshOfJson (← fld j "mesh")
      let subs ← subsOfJson (← fld j "cand")
      pure (resJ meshToJson (setSubs { m with subs := [] } subs))
  | "is_aligned" => some do
      let m ← meshOfJson (← fld j "mesh")
      let o ← meshOfJson (← fld j "other")
      let tol ← match fldOpt j "tol" with | some t => ratOfJson t | none => pure (1/1000000000000 : Rat)
      pure (Json.mkObj [("ok", .bool (isAligned m o tol))])
  | _ => none

end DFV.Drv
