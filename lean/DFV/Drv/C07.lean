import DFV.JsonField
import DFV.Model.C07
namespace DFV.Drv
open Lean DFV DFV.C07

/-- `null` → centre, `{"point": q}`, `{"range": [q, q]}`, anything else → malformed -/
def selArgOfJson (j : Json) : R SelArg :=
  match fldOpt j "arg" with
  | none => pure .centre
  | some v =>
    match fldOpt v "point", fldOpt v "range" with
    | some p, _ => do pure (.point (← ratOfJson p))
    | none, some r => do
        let xs ← listOf ratOfJson r
        match xs with
        | [x, y] => pure (.range x y)
        | _ => pure .bad
    | none, none => pure .bad

/-- `"inf"`, `"-inf"`, `"nan"` or a rational -/
def extOfJson (j : Json) : R ExtRat :=
  match j with
  | .str "inf" => pure .posInf
  | .str "-inf" => pure .negInf
  | .str "nan" => pure .nan
  | _ => do pure (.fin (← ratOfJson j))

/-- as `selArgOfJson`, coordinates may be non-finite -/
def selArgEOfJson (j : Json) : R SelArgE :=
  match fldOpt j "arg" with
  | none => pure .centre
  | some v =>
    match fldOpt v "point", fldOpt v "range" with
    | some p, _ => do pure (.point (← extOfJson p))
    | none, some r => do
        let xs ← listOf extOfJson r
        match xs with
        | [x, y] => pure (.range x y)
        | _ => pure .bad
    | none, none => pure .bad

/-- `Region(p1, p2)` with possibly non-finite coordinates, then the operation on its corners -/
def withBoxE {α} (j : Json) (k : List ExtRat → List ExtRat → M α) : R (M α) := do
  let p1 ← listOf extOfJson (← fld j "p1")
  let p2 ← listOf extOfJson (← fld j "p2")
  pure (match boxMkE? p1 p2 with
    | .error e => .error e
    | .ok pp => k pp.1 pp.2)

def selIdxToJson (a : Nat) : SelIdx → Json
  | .plane c k => Json.mkObj [("axis", .num (JsonNumber.fromNat a)), ("kind", .str "plane"),
      ("c", ratsJ [c]), ("k", natsJ [k])]
  | .range c1 c2 k1 k2 => Json.mkObj [("axis", .num (JsonNumber.fromNat a)), ("kind", .str "range"),
      ("c", ratsJ [c1, c2]), ("k", natsJ [k1, k2])]

def padWsOfJson (j : Json) : R (List PadW) := do
  listOf (fun e => do
    pure { dim := ← strOfJson (← fld e "dim"), lo := ← intOfJson (← fld e "lo"),
           hi := ← intOfJson (← fld e "hi") }) (← fld j "pad")

def padModeOfJson (j : Json) : R PadMode := do
  match ← strOfJson (← fld j "mode") with
  | "constant" => pure .constant
  | "edge" => pure .edge
  | "wrap" => pure .wrap
  | "symmetric" => pure .symmetric
  | "reflect" => pure .reflect
  | s => throw s!"unknown pad mode {s}"

def itemOfJson (j : Json) : R Item := do
  let it ← fld j "item"
  match fldOpt it "name" with
  | some n => pure (.name (← strOfJson n))
  | none => pure (.region (← regionOfJson (← fld it "region")))

def selOutToJson : SelOut → Json
  | .field f => Json.mkObj [("field", fldToJson f)]
  | .values v => Json.mkObj [("values", ratsJ v)]

/-- driver ops of property C07 -/
def c07 (op : String) (j : Json) : Option (R Json) :=
  match op with
  | "sel_convert" => some do
      let m ← meshOfJson (← fld j "mesh")
      let dim ← strOfJson (← fld j "dim")
      let arg ← selArgOfJson j
      pure (resJ (fun (p : Nat × SelIdx) => selIdxToJson p.1 p.2) (selConvert m dim arg))
  | "mesh_sel" => some do
      let m ← meshOfJson (← fld j "mesh")
      let dim ← strOfJson (← fld j "dim")
      let arg ← selArgOfJson j
      pure (resJ meshToJson (selMesh m dim arg))
  | "field_sel" => some do
      let f ← fldOfJson (← fld j "field")
      let dim ← strOfJson (← fld j "dim")
      let arg ← selArgOfJson j
      pure (resJ selOutToJson (selFld f dim arg))
  | "mesh_getitem" => some do
      let m ← meshOfJson (← fld j "mesh")
      let it ← itemOfJson j
      pure (resJ meshToJson (getMesh m it))
  | "field_getitem" => some do
      let f ← fldOfJson (← fld j "field")
      let it ← itemOfJson j
      pure (resJ fldToJson (getItem f it))
  | "region2slices" => some do
      let m ← meshOfJson (← fld j "mesh")
      let r ← regionOfJson (← fld j "region")
      pure (resJ (listJ fun (p : Nat × Nat) => natsJ [p.1, p.2]) (region2slices m r))
  | "mesh_pad" => some do
      let m ← meshOfJson (← fld j "mesh")
      let pw ← padWsOfJson j
      pure (resJ meshToJson (padMesh m pw))
  | "field_pad" => some do
      let f ← fldOfJson (← fld j "field")
      let pw ← padWsOfJson j
      let mode ← padModeOfJson j
      pure (resJ fldToJson (padFld f pw mode))
  | "resample" => some do
      let f ← fldOfJson (← fld j "field")
      let n ← ints j "n"
      pure (resJ fldToJson (resample f n))
  | "sel_convert_e" => some do
      let m ← meshOfJson (← fld j "mesh")
      let dim ← strOfJson (← fld j "dim")
      let arg ← selArgEOfJson j
      pure (resJ (fun (p : Nat × SelIdx) => selIdxToJson p.1 p.2) (selConvertE m dim arg))
  | "mesh_sel_e" => some do
      let m ← meshOfJson (← fld j "mesh")
      let dim ← strOfJson (← fld j "dim")
      let arg ← selArgEOfJson j
      pure (resJ meshToJson (selMeshE m dim arg))
  | "field_sel_e" => some do
      let f ← fldOfJson (← fld j "field")
      let dim ← strOfJson (← fld j "dim")
      let arg ← selArgEOfJson j
      pure (resJ selOutToJson (selFldE f dim arg))
  | "mesh_getitem_e" => some do
      let m ← meshOfJson (← fld j "mesh")
      pure (resJ meshToJson (← withBoxE j (getRegionE m)))
  | "field_getitem_e" => some do
      let f ← fldOfJson (← fld j "field")
      pure (resJ fldToJson (← withBoxE j (getItemE f)))
  | "region2slices_e" => some do
      let m ← meshOfJson (← fld j "mesh")
      pure (resJ (listJ fun (p : Nat × Nat) => natsJ [p.1, p.2]) (← withBoxE j (region2slicesE m)))
  | "point2index_e" => some do
      let m ← meshOfJson (← fld j "mesh")
      let p ← listOf extOfJson (← fld j "point")
      pure (resJ natsJ (point2indexE m p))
  | "resample_fast" => some do
      let f ← fldOfJson (← fld j "field")
      let n ← ints j "n"
      pure (resJ fldToJson (resampleFast f n))
  | "result_kind" => some do
      let fam ← match ← strOfJson (← fld j "fam") with
        | "sel" => pure OpFam.sel
        | "getitem" => pure OpFam.getitem
        | "pad" => pure OpFam.pad
        | "resample" => pure OpFam.resample
        | s => throw s!"unknown family {s}"
      let k ← match ← strOfJson (← fld j "kind") with
        | "b" => pure DKind.bool
        | "i" => pure DKind.int
        | "f" => pure DKind.float
        | "c" => pure DKind.complex
        | s => throw s!"unknown kind {s}"
      pure (Json.mkObj [("ok", .str (match resultKind fam k with
        | .bool => "b" | .int => "i" | .float => "f" | .complex => "c"))])
  | _ => none

end DFV.Drv
