import DFV.JsonField
import DFV.Model.C09
import DFV.Model.C09Lex
import DFV.Model.C09Csv
namespace DFV.Drv
open Lean DFV DFV.C09

def hvalToJson : HVal → Json
  | .num q => Json.arr #[.str "num", ratToJson q]
  | .nat n => Json.arr #[.str "nat", .num (JsonNumber.fromNat n)]
  | .str s => Json.arr #[.str "str", .str s]

def hvalOfJson (j : Json) : R HVal := do
  let a ← arr j
  match a.toList with
  | [.str "num", v] => pure (.num (← ratOfJson v))
  | [.str "nat", v] => pure (.nat (← natOfJson v))
  | [.str "str", v] => pure (.str (← strOfJson v))
  | _ => throw s!"bad header value {j.compress}"

def hlineToJson : HLine → Json
  | .kv k v => Json.arr #[.str "kv", .str k, hvalToJson v]
  | .other => Json.arr #[.str "other"]
  | .beginData ws => Json.arr #[.str "data", strsJ ws]

def hlineOfJson (j : Json) : R HLine := do
  let a ← arr j
  match a.toList with
  | [.str "kv", k, v] => pure (.kv (← strOfJson k) (← hvalOfJson v))
  | [.str "other"] => pure .other
  | [.str "data", ws] => pure (.beginData (← listOf strOfJson ws))
  | _ => throw s!"bad header line {j.compress}"

def fileToJson (F : OvfFile Rat) : Json :=
  Json.mkObj [("first", .str F.first), ("lines", listJ hlineToJson F.lines),
    ("body", match F.body with
      | .bin bytes => Json.mkObj [("bin", natsJ bytes)]
      | .text rows footer => Json.mkObj [("text", listJ ratsJ rows), ("footer", strsJ footer)])]

def fileOfJson (j : Json) : R (OvfFile Rat) := do
  let first ← strOfJson (← fld j "first")
  let lines ← listOf hlineOfJson (← fld j "lines")
  let b ← fld j "body"
  let body ← match fldOpt b "bin" with
    | some bs => do pure (Body.bin (← listOf natOfJson bs))
    | none => do
      let rows ← listOf (listOf ratOfJson) (← fld b "text")
      let footer ← match fldOpt b "footer" with
        | some f => listOf strOfJson f
        | none => pure []
      pure (Body.text rows footer)
  pure { first, lines, body }

/-- `{"mesh":…, "nvdim":k, "data":[flat C order of the (*n, nvdim) array], "vdims":…, "unit":…}` -/
def ofieldOfJson (j : Json) : R (OField Rat) := do
  let mesh ← meshOfJson (← fld j "mesh")
  let nvdim ← natOfJson (← fld j "nvdim")
  let xs ← rats j "data"
  if xs.length ≠ natProd (mesh.n ++ [nvdim]) then throw "ofield data length"
  let vdims ← optStrsOfJson j "vdims"
  let unit ← optStrOfJson j "unit"
  pure { mesh, nvdim, arr := NDA.ofList (mesh.n ++ [nvdim]) xs 0, vdims, unit }

def ofieldToJson (f : OField Rat) : Json :=
  Json.mkObj [("mesh", meshToJson f.mesh), ("nvdim", .num (JsonNumber.fromNat f.nvdim)),
    ("shape", natsJ f.arr.shape), ("data", ratsJ f.arr.toList),
    ("vdims", optStrsJ f.vdims), ("unit", optStrJ f.unit)]

def contentOfJson (j : Json) : R (Content Rat) := do
  pure { base := ← rats j "base", step := ← rats j "step", nodes := ← nats j "nodes",
         vd := ← natOfJson (← fld j "vd"), meshunit := ← strOfJson (← fld j "meshunit"),
         values := ← rats j "values" }

def contentToJson (x : Content Rat) : Json :=
  Json.mkObj [("base", ratsJ x.base), ("step", ratsJ x.step), ("nodes", natsJ x.nodes),
    ("vd", .num (JsonNumber.fromNat x.vd)), ("meshunit", .str x.meshunit), ("values", ratsJ x.values)]

def sideOfJson (j : Json) : R (Option (List (String × Region))) :=
  match fldOpt j "side" with
  | none => pure none
  | some s => do
    let a ← arr s
    let l ← a.toList.mapM fun e => do
      let nm ← strOfJson (← fld e "name")
      let r ← regionOfJson e
      pure (nm, r)
    pure (some l)

def rawLineToJson : RawLine → Json
  | .kv k v => Json.arr #[.str "kv", .str k, .str v]
  | .other => Json.arr #[.str "other"]
  | .data ws => Json.arr #[.str "data", strsJ ws]

def lexedToJson (L : Lexed) : Json :=
  Json.mkObj [("first", natsJ L.first), ("lines", listJ rawLineToJson L.lines),
    ("data", match L.data with
      | none => Json.null
      | some (ws, rest) => Json.mkObj [("words", strsJ ws), ("rest", .num (JsonNumber.fromNat rest.length))])]

/-- Python's `float()` / `repr()` as tables: `[[text, rational], ...]` -/
def numIOOfJson (j : Json) : R NumIO := do
  let tab ← match fldOpt j "floats" with
    | some t => listOf (fun e => do
        let a ← arr e
        match a.toList with
        | [t, q] => pure ((← strOfJson t), (← ratOfJson q))
        | _ => throw "bad floats entry") t
    | none => pure []
  pure { fmt := fun q => match tab.find? fun p => p.2 == q with
                  | some p => p.1.toList
                  | none => ['?'],
         pfloat := fun cs => (tab.find? fun p => p.1.toList == cs).map (·.2) }

def textBodyOfJson (j : Json) : R (List (List Rat) × List String) :=
  match fldOpt j "text" with
  | some t => do
      let rows ← listOf (listOf ratOfJson) (← fld t "rows")
      let footer ← listOf strOfJson (← fld t "footer")
      pure (rows, footer)
  | none => pure ([], [])

/-- the text of payload numbers: Python's / numpy's own results as a table `[[text, rational], ...]` for
everything that is not a plain short decimal; the model's `fmtDec` / `parseDec` for the rest -/
def textIOOfJson (j : Json) : R (TextIO Rat) := do
  let tab ← match fldOpt j "texts" with
    | some t => listOf (fun e => do
        let a ← arr e
        match a.toList with
        | [t, q] => pure ((← strOfJson t), (← ratOfJson q))
        | _ => throw "bad texts entry") t
    | none => pure []
  pure { fmt := fun q => match tab.find? fun p => p.2 == q with
                  | some p => p.1.toList
                  | none => fmtDec q,
         pfloat := fun cs => match tab.find? fun p => p.1.toList == cs with
                  | some p => some p.2
                  | none => parseDec cs }

def c09 (op : String) (j : Json) : Option (R Json) :=
  match op with
  | "writebytest" => some do
      let f ← ofieldOfJson (← fld j "field")
      let rep ← strOfJson (← fld j "rep")
      let extend ← boolOfJson (← fld j "extend")
      let N ← numIOOfJson j
      let T ← textIOOfJson j
      pure (resJ natsJ (toOvfBytesT N T ieee f rep extend))
  | "readbytest" => some do
      let bytes ← listOf natOfJson (← fld j "bytes")
      let N ← numIOOfJson j
      let T ← textIOOfJson j
      let side ← sideOfJson j
      let reserved ← match fldOpt j "reserved" with
        | some r => listOf strOfJson r
        | none => pure []
      pure (resJ ofieldToJson (fromOvfBytesT N T ieee isWordC (fun s => reserved.contains s) bytes side))
  | "refwritebytes" => some do
      let x ← contentOfJson (← fld j "content")
      let v2 ← boolOfJson (← fld j "v2")
      let w ← natOfJson (← fld j "w")
      let N ← numIOOfJson j
      let T ← textIOOfJson j
      pure (Json.mkObj [("ok", natsJ (fileBytesT N T (refWriter ieee v2 w x)))])
  | "dec" => some do
      let vals ← rats j "vals"
      let texts ← listOf strOfJson (← fld j "texts")
      pure (Json.mkObj [("fmt", strsJ (vals.map fun x => String.ofList (fmtDec x))),
        ("short", Json.arr ((vals.map fun x => Json.bool (decide (ShortDec x))).toArray)),
        ("parse", Json.arr ((texts.map fun t => match parseDec t.toList with
            | some q => ratToJson q
            | none => Json.null).toArray))])
  | "write" => some do
      let f ← ofieldOfJson (← fld j "field")
      let rep ← strOfJson (← fld j "rep")
      let extend ← boolOfJson (← fld j "extend")
      pure (resJ fileToJson (toOvf ieee f rep extend))
  | "read" => some do
      let F ← fileOfJson (← fld j "file")
      let side ← sideOfJson j
      let reserved ← match fldOpt j "reserved" with
        | some r => listOf strOfJson r
        | none => pure []
      pure (resJ ofieldToJson (fromOvf ieee isWordC (fun s => reserved.contains s) F side))
  | "lex" => some do
      let bytes ← listOf natOfJson (← fld j "bytes")
      pure (resJ lexedToJson (lexBytes bytes))
  | "readbytes" => some do
      let bytes ← listOf natOfJson (← fld j "bytes")
      let N ← numIOOfJson j
      let tb ← textBodyOfJson j
      let side ← sideOfJson j
      let reserved ← match fldOpt j "reserved" with
        | some r => listOf strOfJson r
        | none => pure []
      pure (resJ ofieldToJson (fromOvfBytes N (fun _ => tb) ieee isWordC (fun s => reserved.contains s) bytes side))
  | "writebytes" => some do
      let f ← ofieldOfJson (← fld j "field")
      let rep ← strOfJson (← fld j "rep")
      let extend ← boolOfJson (← fld j "extend")
      let N ← numIOOfJson j
      pure (resJ natsJ (toOvfBytes N ieee f rep extend))
  | "refwrite" => some do
      let x ← contentOfJson (← fld j "content")
      let v2 ← boolOfJson (← fld j "v2")
      let w ← natOfJson (← fld j "w")
      pure (Json.mkObj [("ok", fileToJson (refWriter ieee v2 w x))])
  | "refread" => some do
      let F ← fileOfJson (← fld j "file")
      pure (resJ contentToJson (refReader ieee F))
  | "codec" => some do
      let w ← natOfJson (← fld j "w")
      let le ← boolOfJson (← fld j "le")
      let vals ← rats j "vals"
      pure (Json.mkObj [("bytes", listJ natsJ (vals.map (ieee.enc le w))),
        ("back", ratsJ (vals.map fun x => ieee.dec le w (ieee.enc le w x)))])
  | "decode" => some do
      let w ← natOfJson (← fld j "w")
      let le ← boolOfJson (← fld j "le")
      let bs ← listOf (listOf natOfJson) (← fld j "bytes")
      pure (Json.mkObj [("ok", ratsJ (bs.map (ieee.dec le w)))])
  | "labels" => some do
      let t ← strOfJson (← fld j "text")
      pure (Json.mkObj [("ok", optStrsJ (recoverLabels isWordC t))])
  | "unit" => some do
      let t ← strOfJson (← fld j "text")
      pure (Json.mkObj [("ok", optStrJ (recoverUnit t))])
  | "dispatch" => some do
      let e ← strOfJson (← fld j "ext")
      let w := match writeKind e with | .ok "ovf" => "ok" | _ => "err"
      let r := match readKind e with | .ok "ovf" => "ok" | _ => "err"
      pure (Json.mkObj [("ok", strsJ [w, r])])
  | "savesub" => some do
      let m ← meshOfJson (← fld j "mesh")
      pure (Json.mkObj [("ok", listJ (fun (p : String × Region) =>
        (regionToJson p.2).setObjVal! "name" (.str p.1)) (saveSub m))])
  | _ => none

end DFV.Drv
