import DFV.JsonField
namespace DFV.Drv
open Lean DFV

/-- driver ops of property C09 (stub: no ops yet) -/
def c09 (op : String) (j : Json) : Option (R Json) :=
  match op with
  | _ => none

end DFV.Drv
