import DFV.Drv.C13
import DFV.DrvLoop
import DFV.Model.C14
namespace DFV.Drv
open Lean DFV DFV.T DFV.C14

/-- tagged JSON tree `{"n": "p/q"} | {"s": ".."} | {"a": [..]} | {"o": [[key, value], ..]}` ↔ `JV`
(keeps key order and the number/string distinction) -/
partial def jvOfJson (j : Json) : R JV := do
  match fldOpt j "n" with
  | some v => return .num (← ratOfJson v)
  | none =>
  match fldOpt j "s" with
  | some v => return .str (← strOfJson v)
  | none =>
  match fldOpt j "a" with
  | some v => return .arr (← (← arr v).toList.mapM jvOfJson)
  | none =>
  match fldOpt j "o" with
  | some v =>
    let kvs ← (← arr v).toList.mapM fun e => do
      let pr ← arr e
      if pr.size ≠ 2 then throw "object entry must be [key, value]"
      pure ((← strOfJson pr[0]!), (← jvOfJson pr[1]!))
    return .obj kvs
  | none => throw "bad tagged JSON value"

partial def jvToJson : JV → Json
  | .num q => Json.mkObj [("n", ratToJson q)]
  | .str s => Json.mkObj [("s", .str s)]
  | .arr xs => Json.mkObj [("a", .arr (xs.map jvToJson).toArray)]
  | .obj kvs => Json.mkObj [("o", .arr (kvs.map fun kv => Json.arr #[.str kv.1, jvToJson kv.2]).toArray)]

def c14own (op : String) (j : Json) : Option (R Json) :=
  match op with
  | "save_subs" => some do
      let m ← meshOfJson (← fld j "mesh")
      pure (Json.mkObj [("ok", jvToJson (saveSubs m))])
  | "load_subs" => some do
      let m ← meshOfJson (← fld j "mesh")
      let jv ← jvOfJson (← fld j "sidecar")
      pure (resJ meshToJson (loadSubs m jv))
  | "sel_plane" => some do
      let m ← meshOfJson (← fld j "mesh")
      let ax ← natOfJson (← fld j "ax")
      let x ← match fldOpt j "x" with | some v => some <$> ratOfJson v | none => pure none
      pure (resJ meshToJson (selPlane m ax x))
  | "sel_range" => some do
      let m ← meshOfJson (← fld j "mesh")
      let ax ← natOfJson (← fld j "ax")
      pure (resJ meshToJson (selRange m ax (← ratOfJson (← fld j "a")) (← ratOfJson (← fld j "b"))))
  | "get_name" => some do
      let m ← meshOfJson (← fld j "mesh")
      pure (resJ meshToJson (getName m (← strOfJson (← fld j "name"))))
  | _ => none

/-- C14 = transformation driver of C13 + selection ops -/
def c14 := orElseH [c13, c14own]
end DFV.Drv
