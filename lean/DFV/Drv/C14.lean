import DFV.Drv.C13
import DFV.DrvLoop
import DFV.Model.C14
namespace DFV.Drv
open Lean DFV DFV.T DFV.C14

def c14own (op : String) (j : Json) : Option (R Json) :=
  match op with
  | "sel_plane" => some do
      let m ← meshOfJson (← fld j "mesh")
      let ax ← natOfJson (← fld j "ax")
      let x ← match fldOpt j "x" with | some v => some <$> ratOfJson v | none => pure none
      pure (resJ meshToJson (selPlane m ax x))
  | "sel_range" => some do
      let m ← meshOfJson (← fld j "mesh")
      let ax ← natOfJson (← fld j "ax")
      pure (resJ meshToJson (selRange m ax (← ratOfJson (← fld j "a")) (← ratOfJson (← fld j "b"))))
  | "get_name" => some do
      let m ← meshOfJson (← fld j "mesh")
      pure (resJ meshToJson (getName m (← strOfJson (← fld j "name"))))
  | _ => none

/-- C14 = transformation driver of C13 + selection ops -/
def c14 := orElseH [c13, c14own]
end DFV.Drv
