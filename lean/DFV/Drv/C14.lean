import DFV.Drv.C13
namespace DFV.Drv
/-- C14 shares the transformation driver of C13 -/
def c14 := c13
end DFV.Drv
