import DFV.JsonField
import DFV.Model.C10
import DFV.Model.C10Raw
/-! driver ops of property C10 (JSON glue: trusted, not model) -/
namespace DFV.Drv
open Lean DFV DFV.C10

namespace C10J

def intOfRat (q : Rat) : R Int :=
  if q.den = 1 then .ok q.num else .error s!"integer expected, got {ratToString q}"

def intsOf (j : Json) : R (List Int) := do
  let qs ← listOf ratOfJson j
  qs.mapM intOfRat

def intQ (i : Int) : Json := .str (toString i)

def nkOf (j : Json) : R NK := do
  match (← strOfJson j) with
  | "i" => pure .int
  | "f" => pure .float
  | s => throw s!"bad kind {s}"

def nkJ : NK → Json
  | .int => .str "i"
  | .float => .str "f"

def numArrOf (j : Json) : R NumArr := do
  match (← nkOf (← fld j "k")) with
  | .int => pure (.ints (← intsOf (← fld j "v")))
  | .float => pure (.floats (← listOf ratOfJson (← fld j "v")))

def numArrJ (a : NumArr) : Json :=
  Json.mkObj [("k", nkJ a.kind), ("v", ratsJ a.vals)]

def numOf (j : Json) : R Num := do
  let q ← ratOfJson (← fld j "v")
  match (← nkOf (← fld j "k")) with
  | .int => pure (.int (← intOfRat q))
  | .float => pure (.float q)

def numJ (x : Num) : Json := Json.mkObj [("k", nkJ x.kind), ("v", ratToJson x.val)]

def tregOf (j : Json) : R TReg := do
  pure { pmin := ← numArrOf (← fld j "pmin"), pmax := ← numArrOf (← fld j "pmax"),
         dims := ← strs j "dims", units := ← strs j "units", tol := ← numOf (← fld j "tol") }

def tregJ (r : TReg) : Json :=
  Json.mkObj [("pmin", numArrJ r.pmin), ("pmax", numArrJ r.pmax), ("dims", strsJ r.dims),
    ("units", strsJ r.units), ("tol", numJ r.tol)]

def h5regOf (j : Json) : R H5Region := do
  pure { pmin := ← numArrOf (← fld j "pmin"), pmax := ← numArrOf (← fld j "pmax"),
         dims := ← strs j "dims", units := ← strs j "units", ndim := ← natOfJson (← fld j "ndim"),
         tol := ← numOf (← fld j "tol") }

def h5regJ (r : H5Region) : Json :=
  Json.mkObj [("pmin", numArrJ r.pmin), ("pmax", numArrJ r.pmax), ("dims", strsJ r.dims),
    ("units", strsJ r.units), ("ndim", .num (JsonNumber.fromNat r.ndim)), ("tol", numJ r.tol)]

def tmeshOf (j : Json) : R TMesh := do
  let subs ← listOf (fun e => do pure ((← strOfJson (← fld e "name")), (← tregOf (← fld e "region")))) (← fld j "subs")
  pure { region := ← tregOf (← fld j "region"), n := ← nats j "n", bc := ← strOfJson (← fld j "bc"), subs := subs }

def tmeshJ (m : TMesh) : Json :=
  Json.mkObj [("region", tregJ m.region), ("n", natsJ m.n), ("bc", .str m.bc),
    ("subs", listJ (fun (p : String × TReg) => Json.mkObj [("name", .str p.1), ("region", tregJ p.2)]) m.subs)]

/-- space-separated rationals in one JSON string (keeps the harness's memory small) -/
def ratsOfStr (j : Json) : R (List Rat) := do
  let s ← strOfJson j
  if s.isEmpty then pure [] else (s.splitOn " ").mapM ratOfString

def ratsStrJ (xs : List Rat) : Json := .str (" ".intercalate (xs.map ratToString))

/-- one binary64 value: a rational, or one of the tokens `-0`, `inf`, `-inf`, `nan:<sign 0/1>:<payload>` -/
def fvOfString (s : String) : R FV :=
  if s = "-0" then pure .negZero
  else if s = "inf" then pure (.inf false)
  else if s = "-inf" then pure (.inf true)
  else if s.startsWith "nan:" then
    match s.splitOn ":" with
    | [_, sg, pl] => match pl.toNat? with
      | some p => pure (.nan (sg = "1") p)
      | none => throw s!"bad nan token {s}"
    | _ => throw s!"bad nan token {s}"
  else do pure (.fin (← ratOfString s))

def fvToString : FV → String
  | .fin q => ratToString q
  | .negZero => "-0"
  | .inf false => "inf"
  | .inf true => "-inf"
  | .nan sg p => s!"nan:{if sg then 1 else 0}:{p}"

def fvsOfStr (j : Json) : R (List FV) := do
  let s ← strOfJson j
  if s.isEmpty then pure [] else (s.splitOn " ").mapM fvOfString

def pairsOfFlat : List FV → R (List (FV × FV))
  | [] => pure []
  | a :: b :: t => do pure ((a, b) :: (← pairsOfFlat t))
  | _ => throw "odd number of entries for a complex buffer"

def intOfFV : FV → R Int
  | .fin q => intOfRat q
  | _ => throw "integer expected, got a non-finite token"

def darrOf (j : Json) : R DArr := do
  let shape ← nats j "shape"
  let qs ← fvsOfStr (← fld j "v")
  let buf ← match (← strOfJson (← fld j "k")) with
    | "i" => pure (DBuf.ints (← qs.mapM intOfFV))
    | "f" => pure (DBuf.floats qs)
    | "c" => pure (DBuf.complexes (← pairsOfFlat qs))
    | s => throw s!"bad data kind {s}"
  if buf.length ≠ natProd shape then throw s!"buffer length {buf.length} ≠ prod shape {natProd shape}"
  pure { shape := shape, buf := buf }

/-- values as one string: reals `a b c …`, complex `re im re im …` -/
def darrJ (a : DArr) : Json :=
  let k := match a.buf.kind with | .int => "i" | .float => "f" | .complex => "c"
  let flat : List FV := match a.buf.kind with
    | .complex => a.buf.vals.flatMap fun (p : FV × FV) => [p.1, p.2]
    | _ => a.buf.vals.map fun (p : FV × FV) => p.1
  Json.mkObj [("k", .str k), ("shape", natsJ a.shape), ("v", .str (" ".intercalate (flat.map fvToString)))]

def varrOf (j : Json) : R VArr := do
  let shape ← nats j "shape"
  let buf ← bools j "v"
  if buf.length ≠ natProd shape then throw "valid buffer length"
  pure { shape := shape, buf := buf }

def varrJ (a : VArr) : Json := Json.mkObj [("shape", natsJ a.shape), ("v", boolsJ a.buf)]

def tfldOf (j : Json) : R TFld := do
  pure { mesh := ← tmeshOf (← fld j "mesh"), nvdim := ← natOfJson (← fld j "nvdim"),
         data := ← darrOf (← fld j "data"), valid := ← varrOf (← fld j "valid"),
         vdims := ← optStrsOfJson j "vdims", vmap := ← pairsOfJson j "vmap", unit := ← optStrOfJson j "unit" }

def tfldJ (f : TFld) : Json :=
  Json.mkObj [("mesh", tmeshJ f.mesh), ("nvdim", .num (JsonNumber.fromNat f.nvdim)), ("data", darrJ f.data),
    ("valid", varrJ f.valid), ("vdims", optStrsJ f.vdims), ("vmap", pairsJ f.vmap), ("unit", optStrJ f.unit)]

def h5subsOf (j : Json) : R H5Subs := do
  let k ← nkOf (← fld j "k")
  let rows ← listOf (fun r => do
    match k with
    | .int => pure (NumArr.ints (← intsOf r))
    | .float => pure (NumArr.floats (← listOf ratOfJson r))) (← fld j "rows")
  pure { names := ← strs j "names", kind := k, rows := rows }

def h5subsJ (s : H5Subs) : Json :=
  Json.mkObj [("names", strsJ s.names), ("k", nkJ s.kind),
    ("rowkinds", listJ (fun (r : NumArr) => nkJ r.kind) s.rows),
    ("rows", listJ (fun (r : NumArr) => ratsJ r.vals) s.rows)]

def h5meshOf (j : Json) : R H5Mesh := do
  let subs ← match fldOpt j "subs" with
    | none => pure none
    | some s => some <$> h5subsOf s
  pure { region := ← h5regOf (← fld j "region"), n := ← intsOf (← fld j "n"), bc := ← strOfJson (← fld j "bc"),
         subs := subs }

def h5meshJ (m : H5Mesh) : Json :=
  Json.mkObj [("region", h5regJ m.region), ("n", listJ intQ m.n), ("bc", .str m.bc),
    ("subs", match m.subs with | none => .null | some s => h5subsJ s)]

def vdimsAttrOf (j : Json) : R VdimsAttr :=
  match fldOpt j "str", fldOpt j "list" with
  | some s, _ => do pure (.str (← strOfJson s))
  | none, some l => do pure (.list (← listOf strOfJson l))
  | none, none => throw "vdims attr: str or list expected"

def vdimsAttrJ : VdimsAttr → Json
  | .str s => Json.mkObj [("str", .str s)]
  | .list l => Json.mkObj [("list", strsJ l)]

def h5fieldOf (j : Json) : R H5Field := do
  pure { mesh := ← h5meshOf (← fld j "mesh"), nvdim := ← intOfJson (← fld j "nvdim"),
         vdims := ← vdimsAttrOf (← fld j "vdims"), unit := ← strOfJson (← fld j "unit"),
         array := ← darrOf (← fld j "array"), valid := ← varrOf (← fld j "valid") }

def h5fieldJ (f : H5Field) : Json :=
  Json.mkObj [("mesh", h5meshJ f.mesh), ("nvdim", .num (JsonNumber.fromInt f.nvdim)), ("vdims", vdimsAttrJ f.vdims),
    ("unit", .str f.unit), ("array", darrJ f.array), ("valid", varrJ f.valid)]

def legacyOf (j : Json) : R Legacy := do
  let sidecar ← match fldOpt j "sidecar" with
    | none => pure none
    | some s => some <$> listOf (fun e => do pure ((← strOfJson (← fld e "name")), (← h5regOf (← fld e "region")))) s
  pure { p1 := ← numArrOf (← fld j "p1"), p2 := ← numArrOf (← fld j "p2"), n := ← intsOf (← fld j "n"),
         dim := ← intOfJson (← fld j "dim"), array := ← darrOf (← fld j "array"), sidecar := sidecar }

def h5fileOf (j : Json) : R H5File :=
  match fldOpt j "version" with
  | none => do pure (.unversioned (← legacyOf (← fld j "legacy")))
  | some v => do pure (.versioned (← strOfJson v) (← strOfJson (← fld j "type")) (← h5fieldOf (← fld j "field")))

def h5fileJ : H5File → Json
  | .versioned v t f => Json.mkObj [("version", .str v), ("type", .str t), ("field", h5fieldJ f)]
  | .unversioned _ => Json.mkObj [("version", .null)]

def fmtJ (x : M Fmt) : Json :=
  match x with
  | .ok .ovf => .str "ovf"
  | .ok .vtk => .str "vtk"
  | .ok .hdf5 => .str "hdf5"
  | .error _ => .str "err"

/-! raw layer: `{"a":1}` absent, `{"o":1}` of another type, `{"v": …}` a value -/

def avOf {α : Type} (f : Json → R α) (j : Json) : R (AV α) :=
  match fldOpt j "v" with
  | some v => do pure (.ok (← f v))
  | none => match fldOpt j "o" with
    | some _ => pure .other
    | none => pure .absent

def optOf {α : Type} (f : Json → R α) (j : Json) (k : String) : R (Option α) :=
  match fldOpt j k with
  | none => pure none
  | some v => do pure (some (← f v))

def wOf (j : Json) : R W := do
  match (← natOfJson j) with
  | 8 => pure .b8
  | 16 => pure .b16
  | 32 => pure .b32
  | 64 => pure .b64
  | k => throw s!"bad width {k}"

def wJ (w : W) : Json := .num (JsonNumber.fromNat w.bits)

def rawRegionOf (j : Json) : R RawRegion := do
  pure { pmin := ← avOf numArrOf (← fld j "pmin"), pmax := ← avOf numArrOf (← fld j "pmax"),
         dims := ← avOf (listOf strOfJson) (← fld j "dims"), ndim := ← avOf natOfJson (← fld j "ndim"),
         units := ← avOf (listOf strOfJson) (← fld j "units"), tol := ← avOf numOf (← fld j "tol") }

def tableOf (j : Json) : R (NK × List NumArr) := do
  let k ← nkOf (← fld j "k")
  let rows ← listOf (fun r => do
    match k with
    | .int => pure (NumArr.ints (← intsOf r))
    | .float => pure (NumArr.floats (← listOf ratOfJson r))) (← fld j "rows")
  pure (k, rows)

def rawMeshOf (j : Json) : R RawMesh := do
  pure { region := ← optOf rawRegionOf j "region", n := ← avOf intsOf (← fld j "n"), bc := ← avOf strOfJson (← fld j "bc"),
         names := ← optOf (listOf strOfJson) j "names", table := ← optOf tableOf j "table" }

def warrOf (j : Json) : R (W × DArr) := do pure ((← wOf (← fld j "w")), (← darrOf (← fld j "arr")))

def rawFieldOf (j : Json) : R RawField := do
  pure { mesh := ← optOf rawMeshOf j "mesh", nvdim := ← avOf intOfJson (← fld j "nvdim"),
         vdims := ← avOf vdimsAttrOf (← fld j "vdims"), unit := ← avOf strOfJson (← fld j "unit"),
         array := ← optOf warrOf j "array", valid := ← optOf varrOf j "valid" }

def rawFileOf (j : Json) : R RawFile := do
  pure { version := ← avOf strOfJson (← fld j "version"), type := ← avOf strOfJson (← fld j "type"),
         field := ← optOf rawFieldOf j "field",
         legacy := ← optOf (fun l => do pure ((← wOf (← fld l "w")), (← legacyOf (← fld l "legacy")))) j "legacy",
         extras := ← strs j "extras" }

def wfldOf (j : Json) : R WFld := do pure { f := ← tfldOf (← fld j "field"), w := ← wOf (← fld j "w") }

def wfldJ (x : WFld) : Json := Json.mkObj [("field", tfldJ x.f), ("w", wJ x.w)]

end C10J

def sameRes (a b : M TFld) : Bool :=
  match a, b with
  | .ok x, .ok y => decide (x = y)
  | .error _, .error _ => true
  | _, _ => false

open C10J in
/-- driver ops of property C10 -/
def c10 (op : String) (j : Json) : Option (R Json) :=
  match op with
  | "save" => some do
      -- the code-shaped writer (empty dataset, then assignment at slice(None))
      let f ← tfldOf (← fld j "field")
      pure (resJ h5fileJ (toHdf5 f))
  | "load" => some do
      let h ← h5fileOf (← fld j "file")
      pure (resJ tfldJ (h5Load h))
  | "roundtrip" => some do
      let f ← tfldOf (← fld j "field")
      pure (resJ tfldJ (h5Load (h5Save f)))
  | "spec" => some do
      -- model-internal equalities, decided here (small answer): the reader on the h5py view vs the reader on the
      -- model's own store, and vs the spec `loaded f`
      let f ← tfldOf (← fld j "field")
      let h ← h5fileOf (← fld j "file")
      pure (Json.mkObj [("rt_eq_load", .bool (sameRes (h5Load (h5Save f)) (h5Load h))),
        ("load_eq_loaded", .bool (sameRes (h5Load h) (.ok (loaded f)))),
        ("load_eq_reread", .bool (sameRes (h5Load h) (.ok (reread f)))),
        ("store_eq", .bool (decide (h5Save f = h))),
        ("writer_eq", .bool (match toHdf5 f with | .ok x => decide (x = h5Save f) | .error _ => false))])
  | "loaded" => some do
      let f ← tfldOf (← fld j "field")
      pure (Json.mkObj [("ok", tfldJ (loaded f))])
  | "inv" => some do
      let f ← tfldOf (← fld j "field")
      pure (Json.mkObj [("ok", .bool f.invB), ("mesh", .bool f.mesh.invB), ("region", .bool f.mesh.region.invB),
        ("unit_ok", .bool (decide (f.unit ≠ some "None"))),
        ("vdims_ok", .bool (decide (f.vdims = none → f.nvdim = 1))),
        ("int_safe", .bool f.data.buf.intSafeB),
        ("exact", .bool (f.mesh.subs.all (fun p => decide (p.2.pmin.kind = tableKind f.mesh ∧ p.2.pmax.kind = tableKind f.mesh))
          && decide (f.data.buf.kind ≠ .int)
          && decide (f.vmap = defaultVmap f.nvdim f.mesh.region.dims f.vdims)))])
  | "series" => some do
      -- `_h5_save_structure(f0, (T, *n, nvdim))`, a history of `_h5_save_data(dataset, t)` (a failing write leaves
      -- the dataset as it was), then `_h5_load_field(group, k)` for every requested k
      let f0 ← tfldOf (← fld j "field")
      let T ← natOfJson (← fld j "T")
      let ws ← listOf (fun e => do pure ((← intOfJson (← fld e "t")), (← darrOf (← fld e "data")))) (← fld j "writes")
      let reads ← listOf intOfJson (← fld j "reads")
      let h0 := saveStructure f0 (T :: (f0.mesh.n ++ [f0.nvdim]))
      let (h, oks) := ws.foldl (fun (acc : H5Field × List Bool) w =>
        match writeLoc acc.1.array (.idx w.1) w.2 with
        | .ok a => ({ acc.1 with array := a }, acc.2 ++ [true])
        | .error _ => (acc.1, acc.2 ++ [false])) (h0, [])
      pure (Json.mkObj [("writes", boolsJ oks), ("array", darrJ h.array),
        ("loads", listJ (fun (k : Int) => resJ tfldJ (fieldLoadAt h (.idx k))) reads)])
  | "rawload" => some do
      -- the reader's accesses on the h5py view (entries absent / of another type / extra), with the width of the result
      let r ← rawFileOf (← fld j "raw")
      pure (resJ wfldJ (rawLoadW r))
  | "rawsave" => some do
      -- the file `to_file` leaves, as h5py shows it: names present, width of the dataset `array`; and what the reader
      -- makes of it
      let x ← wfldOf j
      let r := rawSave x
      pure (Json.mkObj [("names", strsJ r.entryNames),
        ("w", match r.field with | some f => (match f.array with | some wa => wJ wa.1 | none => .null) | none => .null),
        ("exact", .bool x.exactB),
        ("load", resJ wfldJ (rawLoadW r))])
  | "exact" => some do
      -- is every entry of the array a value of the dtype of width w?  (entry by entry for real data)
      let a ← darrOf (← fld j "data")
      let w ← wOf (← fld j "w")
      let flags : List Bool := match a.buf with
        | .floats v => v.map (FFmt.ofW w).rep
        | .complexes v => v.map fun z => (FFmt.ofW w).rep z.1 && (FFmt.ofW w).rep z.2
        | .ints v => v.map fun i => decide (-(2 ^ (w.bits - 1) : Int) ≤ i ∧ i < 2 ^ (w.bits - 1))
      pure (Json.mkObj [("ok", .bool (a.buf.exactB w)), ("flags", boolsJ flags)])
  | "fs" => some do
      -- a directory: optional files present beforehand, a history of to_file calls, then from_file on the given paths;
      -- and the names of what each path holds at the end
      let pre ← listOf (fun e => do pure ((← strOfJson (← fld e "path")), (← rawFileOf (← fld e "raw")))) (← fld j "pre")
      let ws ← listOf (fun e => do pure ((← strOfJson (← fld e "path")), (← wfldOf e))) (← fld j "writes")
      let reads ← listOf strOfJson (← fld j "reads")
      let fs := fsRun pre ws
      pure (Json.mkObj [("loads", listJ (fun (p : String) => resJ wfldJ (fsRead fs p)) reads),
        ("names", listJ (fun (p : String) => match fsGet fs p with | some r => strsJ r.entryNames | none => .null) reads)])
  | "mkmesh" => some do
      -- `Mesh(region=…, n=…, bc=…, subregions={name: candidate Region …})`: the candidates come with their own names,
      -- units and tolerance factor
      let r ← tregOf (← fld j "region")
      let n ← intsOf (← fld j "n")
      let bc ← strOfJson (← fld j "bc")
      let subs ← listOf (fun e => do pure ((← strOfJson (← fld e "name")), (← tregOf (← fld e "region")))) (← fld j "subs")
      pure (resJ tmeshJ (TMesh.init r n bc subs))
  | "invw" => some do
      let f ← tfldOf (← fld j "field")
      pure (Json.mkObj [("invw", .bool f.invWB), ("inv", .bool f.invB), ("rereadable", .bool f.mesh.rereadableB)])
  | "fmt" => some do
      let s ← strOfJson (← fld j "suffix")
      pure (Json.mkObj [("write", fmtJ (writeFmt s)), ("read", fmtJ (readFmt s))])
  | _ => none

end DFV.Drv
