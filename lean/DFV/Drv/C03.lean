import DFV.JsonField
import DFV.Model.C03
/-! driver ops of property C03 (JSON glue: trusted correspondence code, not model) -/
namespace DFV.Drv
open Lean DFV DFV.C03

namespace C03J

/-- a Gaussian rational travels as `"re"` or `"re|im"` -/
def gqOfJson (j : Json) : R GQ :=
  match j with
  | .str s =>
    match s.splitOn "|" with
    | [a] => do pure ⟨← ratOfString a, 0⟩
    | [a, b] => do pure ⟨← ratOfString a, ← ratOfString b⟩
    | _ => .error s!"bad complex {s}"
  | _ => do pure ⟨← ratOfJson j, 0⟩

def gqToJson (z : GQ) : Json :=
  if z.im = 0 then .str (ratToString z.re) else .str (ratToString z.re ++ "|" ++ ratToString z.im)

def kindOfJson (j : Json) : R Kind := do
  match ← strOfJson j with
  | "int" => pure .int
  | "float" => pure .float
  | "complex" => pure .complex
  | s => throw s!"bad kind {s}"

def kindToJson : Kind → Json
  | .int => .str "int"
  | .float => .str "float"
  | .complex => .str "complex"

def vmapOfJson (j : Json) (k : String) : R VMap :=
  match fldOpt j k with
  | none => pure []
  | some v => listOf (fun e => do
      let a ← arr e
      match a.toList with
      | [x, .null] => pure (← strOfJson x, none)
      | [x, y] => pure (← strOfJson x, some (← strOfJson y))
      | _ => throw "pair expected") v

def vmapToJson (m : VMap) : Json :=
  listJ (fun (p : String × Option String) => Json.arr #[.str p.1, optStrJ p.2]) m

/-- field: data flat in C order over `mesh.n ++ [nvdim]` -/
def cfOfJson (j : Json) : R CF := do
  let mesh ← meshOfJson (← fld j "mesh")
  let nvdim ← natOfJson (← fld j "nvdim")
  let xs ← listOf gqOfJson (← fld j "data")
  if xs.length ≠ natProd mesh.n * nvdim then throw s!"field data length {xs.length}"
  let valid ← listOf boolOfJson (← fld j "valid")
  if valid.length ≠ natProd mesh.n then throw "valid length"
  let vdims ← optStrsOfJson j "vdims"
  let vmap ← vmapOfJson j "vmap"
  let unit ← optStrOfJson j "unit"
  let kind ← kindOfJson (← fld j "kind")
  pure { mesh, nvdim, data := NDA.ofList (mesh.n ++ [nvdim]) xs GQ.zero,
         valid := NDA.ofList mesh.n valid false, vdims, vmap, unit, kind }

def cfToJson (f : CF) : Json :=
  Json.mkObj [("mesh", meshToJson f.mesh), ("nvdim", .num (JsonNumber.fromNat f.nvdim)),
    ("shape", natsJ f.data.shape), ("vshape", natsJ f.valid.shape),
    ("data", listJ gqToJson f.data.toList), ("valid", boolsJ f.valid.toList),
    ("vdims", optStrsJ f.vdims), ("vmap", vmapToJson f.vmap), ("unit", optStrJ f.unit),
    ("kind", kindToJson f.kind)]

partial def exprOfJson (j : Json) : R Expr := do
  match ← strOfJson (← fld j "t") with
  | "leaf" => pure (.leaf (← natOfJson (← fld j "k")))
  | "num" =>
    pure (.opd (.num (← gqOfJson (← fld j "z")) (← kindOfJson (← fld j "kind")) (← boolOfJson (← fld j "np"))))
  | "arr" =>
    let shape ← nats j "shape"
    let xs ← listOf gqOfJson (← fld j "data")
    if xs.length ≠ natProd shape then throw "arr data length"
    pure (.opd (.arr (NDA.ofList shape xs GQ.zero) (← kindOfJson (← fld j "kind")) (← boolOfJson (← fld j "np"))))
  | "un" =>
    let u ← match ← strOfJson (← fld j "op") with
      | "pos" => pure UnOp.pos | "neg" => pure UnOp.neg | "abs" => pure UnOp.abs
      | "real" => pure UnOp.real | "imag" => pure UnOp.imag | "conj" => pure UnOp.conj
      | "absP" => pure UnOp.absP | "phase" => pure UnOp.phase
      | "unegative" => pure UnOp.unegative | "upositive" => pure UnOp.upositive
      | "uabsolute" => pure UnOp.uabsolute | "usquare" => pure UnOp.usquare
      | "uconjugate" => pure UnOp.uconjugate | "usign" => pure UnOp.usign
      | s => throw s!"bad unary op {s}"
    pure (.un u (← exprOfJson (← fld j "e")))
  | "bin" =>
    let b ← match ← strOfJson (← fld j "op") with
      | "add" => pure BinOp.add | "sub" => pure BinOp.sub | "mul" => pure BinOp.mul
      | "div" => pure BinOp.div | "pow" => pure BinOp.pow | "dot" => pure BinOp.dot
      | "cross" => pure BinOp.cross | "shl" => pure BinOp.shl | "angle" => pure BinOp.angle
      | "uadd" => pure BinOp.uadd | "usub" => pure BinOp.usub | "umul" => pure BinOp.umul
      | "udiv" => pure BinOp.udiv | "umax" => pure BinOp.umax | "umin" => pure BinOp.umin
      | "upow" => pure BinOp.upow
      | s => throw s!"bad binary op {s}"
    pure (.bin b (← exprOfJson (← fld j "l")) (← exprOfJson (← fld j "r")))
  | s => throw s!"bad expr tag {s}"

/-- integer square root (Newton iteration with fuel) -/
def isqrt (n : Nat) : Nat := go 200 n
where
  go : Nat → Nat → Nat
    | 0, x => x
    | fuel + 1, x =>
      if x = 0 then 0
      else
        let y := (x + n / x) / 2
        if y < x then go fuel y else x

/-- exact rational square root, `other` when the argument is not a perfect square -/
def sqrtOr (other : Rat) (q : Rat) : Rat :=
  if q < 0 then other
  else
    let n := isqrt q.num.toNat
    let d := isqrt q.den
    if n * n = q.num.toNat ∧ d * d = q.den then (n : Rat) / (d : Rat) else other

def mkEnv (fields : List CF) (mode : String) (other : Rat) : Env :=
  match mode with
  | "id" => { fields, sq := id, acos := id, arg := fun _ => 0 }
  | "one" => { fields, sq := fun _ => 1, acos := id, arg := fun _ => 0 }
  | _ => { fields, sq := sqrtOr other, acos := id, arg := fun _ => 0 }

/-- executable statement of the per-cell theorems on one result: every cell of the
code-shaped result equals the per-cell evaluation, validity equals `validCell` -/
def specHolds (env : Env) (e : Expr) (g : CF) : Bool :=
  (indicesC g.mesh.n).all fun i =>
    decide (cellOf g.data i g.nvdim = evalCell env e i) && (g.valid.get i == validCell env e i)

/-- executable statement of `eval_scalar_tree`: for an elementwise tree every entry of the
result is the tree of scalars at that entry (`none` when the tree is not elementwise) -/
def scalarHolds (env : Env) (e : Expr) (g : CF) : Option Bool :=
  if e.elementwise then
    some ((indicesC g.mesh.n).all fun i =>
      (List.range g.nvdim).all fun c => decide (g.data.get (i ++ [c]) = scalarAt env e (i ++ [c])))
  else none

def optBoolJ : Option Bool → Json
  | none => .null
  | some b => .bool b

def ufuncFnOfString : String → R (GQ → GQ → GQ)
  | "uadd" => pure GQ.add | "usub" => pure GQ.sub | "umul" => pure GQ.mul | "udiv" => pure GQ.div
  | "umax" => pure GQ.maxi | "umin" => pure GQ.mini | "upow" => pure GQ.pow
  | s => throw s!"bad ufunc {s}"

/-- dtype kind the ufunc's loop produces for two input kinds -/
def loopKind (fn : String) (a b : Kind) : Kind := if fn == "udiv" then (a.join b).ctor else a.join b

/-- operand of a two-output ufunc call: a leaf field or a non-field operand -/
def valOfJson (fields : List CF) (j : Json) : R Val := do
  match ← exprOfJson j with
  | .leaf k =>
    match fields[k]? with
    | some f => pure (.fld f)
    | none => throw "leaf index"
  | .opd o => pure (.raw o)
  | _ => throw "pair operands are leaves or operands"

/-- the cells of a field as component lists, for the executable per-cell statement -/
def pairSpecHolds (fn : GQ → GQ → GQ) (f o g : CF) : Bool :=
  (indicesC g.mesh.n).all fun i =>
    decide (cellOf g.data i g.nvdim = bz fn (cellOf f.data i f.nvdim) (cellOf o.data i o.nvdim)) &&
      (g.valid.get i == (f.valid.get i && o.valid.get i))

end C03J
open C03J

/-- driver ops of property C03 -/
def c03 (op : String) (j : Json) : Option (R Json) :=
  match op with
  | "eval" => some do
      let fields ← listOf cfOfJson (← fld j "fields")
      let e ← exprOfJson (← fld j "expr")
      let mode ← match fldOpt j "sq" with
        | some s => strOfJson s
        | none => pure "exact"
      let env := mkEnv fields mode 0
      match evalF env e with
      | .error er => pure (errJ er)
      | .ok (.raw _) => pure (Json.mkObj [("ok", Json.mkObj [("raw", .bool true)])])
      | .ok (.fld g) =>
        -- a second evaluation with a different fallback tells whether an inexact root was used
        let inexact := match evalF (mkEnv fields mode 1) e with
          | .ok (.fld g2) => g.data.toList != g2.data.toList
          | _ => true
        pure (Json.mkObj [("ok", (((cfToJson g).setObjVal! "inexact" (.bool (mode == "exact" && inexact))).setObjVal!
          "spec" (.bool (specHolds env e g))).setObjVal! "scalar" (optBoolJ (scalarHolds env e g)))])
  | "stack" => some do
      let f ← cfOfJson (← fld j "field")
      pure (resJ cfToJson (stackComps f))
  | "comp" => some do
      let f ← cfOfJson (← fld j "field")
      let l ← strOfJson (← fld j "label")
      pure (resJ cfToJson (getComp f l))
  | "pair" => some do
      let fields ← listOf cfOfJson (← fld j "fields")
      let l ← valOfJson fields (← fld j "l")
      let r ← valOfJson fields (← fld j "r")
      match ufunc2pair GQ.floorDiv GQ.pymod false l r with
      | .error er => pure (errJ er)
      | .ok (g1, g2) =>
        let spec := match l, r with
          | .fld f, .fld o => pairSpecHolds GQ.floorDiv f o g1 && pairSpecHolds GQ.pymod f o g2
          | _, _ => false
        pure (Json.mkObj [("ok", Json.mkObj [("a", cfToJson g1), ("b", cfToJson g2), ("spec", .bool spec)])])
  | "pair1" => some do
      let f ← cfOfJson (← fld j "field")
      pure (resJ (fun (_ : CF × CF) => Json.null) (ufunc1pair f))
  | "umethod" => some do
      let fields ← listOf cfOfJson (← fld j "fields")
      let how ← strOfJson (← fld j "how")
      let fname ← strOfJson (← fld j "fn")
      let fn ← ufuncFnOfString fname
      let l ← valOfJson fields (← fld j "l")
      match how with
      | "reduce" | "accumulate" =>
        let f ← match l with
          | .fld f => pure f
          | _ => throw "reduce / accumulate need a field"
        let ax ← match fldOpt j "axis" with
          | none | some .null => pure none
          | some a => do pure (some (← natOfJson a))
        if how == "reduce" then
          let keep ← boolOfJson (← fld j "keep")
          pure (resJ cfToJson (ufuncReduce fn f ax keep))
        else
          match ax with
          | some k => pure (resJ cfToJson (ufuncAccumulate fn f k))
          | none => throw "accumulate needs an axis"
      | "outer" =>
        let r ← valOfJson fields (← fld j "r")
        match l, r with
        | .fld f, .fld o => pure (resJ cfToJson (ufuncOuter fn f o))
        | _, _ => throw "outer needs two fields"
      | "out" =>
        let r ← valOfJson fields (← fld j "r")
        let k ← natOfJson (← fld j "out")
        match fields[k]? with
        | none => throw "out index"
        | some out =>
          let o := ufunc2out fn (fname == "upow") (loopKind fname) l r out
          let resj := match o.res with
            | .error er => errJ er
            | .ok g => Json.mkObj [("ok", cfToJson g)]
          let same := match o.res with
            | .ok g => g.data.toList == o.out.data.toList
            | .error _ => true
          pure (Json.mkObj [("ok", Json.mkObj [("res", resj), ("out", cfToJson o.out), ("spec", .bool same)])])
      | s => throw s!"bad ufunc method {s}"
  | _ => none

end DFV.Drv
