import DFV.JsonField
import DFV.Model.C15
/-! driver ops of property C15.  The `sqrt` parameter of the model is instantiated with the
executable `sqrtQ` (exact on rational squares).  Callables are polynomial coefficient
tables evaluated by the model at the cell centres it computes itself. -/
namespace DFV.Drv.C15
open Lean DFV DFV.C15

/-- `[{"c": q, "e": [e0, e1, …]}, …]` -/
def termsOfJson (j : Json) : R (List (Rat × List Nat)) :=
  listOf (fun t => do
    let c ← ratOfJson (← fld t "c")
    let e ← nats t "e"
    pure (c, e)) j

/-- a leaf of a dictionary norm: number, array (shape of the subregion's mesh, or last axis 1), polynomial callable -/
def dleafOfJson (j : Json) : R (C02.Leaf Rat) := do
  let k ← strOfJson (← fld j "k")
  match k with
  | "const" => do pure (.scalar (← ratOfJson (← fld j "v")))
  | "arr" => do pure (.arr (← ndaOfJson ratOfJson 0 j))
  | "poly" => do
      let ts ← termsOfJson (← fld j "terms")
      pure (.func fun p => [polyEval ts p])
  | _ => throw s!"unknown dict leaf kind {k}"

/-- `{"k": "dict", "items": [[name, leaf], …], "default": leaf | null}` -/
def dictOfJson (j : Json) : R (C02.Spec Rat) := do
  let items ← listOf (fun e => do
    let a ← arr e
    match a.toList with
    | [n, l] => do pure (← strOfJson n, ← dleafOfJson l)
    | _ => throw "dict item must be [name, leaf]") (← fld j "items")
  let dflt ← match fldOpt j "default" with
    | none => pure none
    | some d => do
      let k ← strOfJson (← fld d "k")
      match k with
      | "const" => do pure (some (C02.Dflt.val (NDA.const [] (← ratOfJson (← fld d "v")))))
      | "poly" => do
          let ts ← termsOfJson (← fld d "terms")
          pure (some (C02.Dflt.func fun p => [polyEval ts p]))
      | _ => throw s!"unknown dict default kind {k}"
  pure (.dict items dflt)

def nspecOfJson (j : Json) : R NSpec := do
  let k ← strOfJson (← fld j "k")
  match k with
  | "const" => do pure (.const (← ratOfJson (← fld j "v")))
  | "arr" => do pure (.arr (← ndaOfJson ratOfJson 0 j))
  | "poly" => do
      let ts ← termsOfJson (← fld j "terms")
      pure (.fn (polyEval ts))
  | "field" => do pure (.field (← fldOfJson (← fld j "field")))
  | "dict" => do pure (.spec (← dictOfJson j))
  | _ => throw s!"unknown norm spec kind {k}"

def optNspec (j : Json) (k : String) : R (Option NSpec) :=
  match fldOpt j k with
  | none => pure none
  | some v => some <$> nspecOfJson v

def vspecOfJson (j : Json) : R VSpec := do
  let k ← strOfJson (← fld j "k")
  match k with
  | "scalar" => do pure (.scalar (← ratOfJson (← fld j "v")))
  | "vec" => do pure (.vec (← rats j "v"))
  | "arr" => do pure (.arr (← ndaOfJson (listOf ratOfJson) [] j))
  | "poly" => do
      let comps ← listOf termsOfJson (← fld j "comps")
      pure (.fn fun p => comps.map fun ts => polyEval ts p)
  | _ => throw s!"unknown value spec kind {k}"

def validOfJson (j : Json) : R ValidSpec := do
  let k ← strOfJson (← fld j "k")
  match k with
  | "none" => pure .none
  | "all" => do pure (.all (← boolOfJson (← fld j "v")))
  | "arr" => do pure (.arr (← ndaOfJson boolOfJson false j))
  | "norm" => pure .byNorm
  | _ => throw s!"unknown valid spec kind {k}"

/-- materialise the arrays (efficiency only) -/
def forceF (f : Fld) : Fld :=
  { f with data := f.data.force [], valid := f.valid.force false }

/-- a field together with the norm and orientation the model derives from it -/
def snapJ (atol : Rat) (f : Fld) : Json :=
  Json.mkObj [("field", fldToJson f), ("norm", fldToJson (norm sqrtQ f)),
    -- the getter as the code writes it: a constructor call with the receiver's labels and mapping
    ("orientation", match orientation? sqrtQ atol f with
      | .ok o => fldToJson (forceF o)
      | .error e => errJ e)]

/-- `vdim_mapping=` of the constructor: absent / null = `None`, else `[[label, axis], …]` -/
def optPairs (j : Json) (k : String) : R (Option (List (String × String))) :=
  match fldOpt j k with
  | none => pure none
  | some _ => some <$> pairsOfJson j k

def stepOfJson (j : Json) : R Step := do
  let k ← strOfJson (← fld j "k")
  match k with
  | "set_norm" => do pure (.setNorm (← optNspec j "spec"))
  | "update" => do pure (.update (← vspecOfJson (← fld j "value")))
  | "set_valid" => do pure (.setValid (← validOfJson (← fld j "spec")))
  | _ => throw s!"unknown step {k}"

def stepOf (atol : Rat) (f : Fld) (j : Json) : R (M Fld) := do
  pure (step sqrtQ atol f (← stepOfJson j))

/-- `[re_0, im_0, re_1, im_1, …]` as complex components (inverse of `flattenC`) -/
def pairsOf : List Rat → List (Rat × Rat)
  | x :: y :: rest => (x, y) :: pairsOf rest
  | _ => []

/-- run the steps; the list ends at the first step that raises -/
def runSteps (atol : Rat) : Fld → List Json → R (List Json)
  | _, [] => pure []
  | f, s :: rest => do
    match ← stepOf atol f s with
    | .error e => pure [errJ e]
    | .ok g =>
      let g := forceF g
      let tail ← runSteps atol g rest
      pure (Json.mkObj [("ok", snapJ atol g)] :: tail)

end DFV.Drv.C15

namespace DFV.Drv
open Lean DFV DFV.C15 DFV.Drv.C15

/-- driver ops of property C15 -/
def c15 (op : String) (j : Json) : Option (R Json) :=
  match op with
  | "sqrt" => some do
      let x ← ratOfJson (← fld j "x")
      pure (Json.mkObj [("ok", ratToJson (sqrtQ x))])
  | "fl64" => some do
      let x ← ratOfJson (← fld j "x")
      pure (Json.mkObj [("ok", Json.mkObj [("fl", ratToJson (fl64 x)), ("sqrt", ratToJson (sqrt64 x))])])
  | "fl_cells" => some do
      -- the kernel with one binary64 rounding after every operation, per cell
      let cells ← listOf (listOf ratOfJson) (← fld j "cells")
      let targets ← rats j "targets"
      let atol ← ratOfJson (← fld j "atol")
      let out := (cells.zip targets).map fun (v, t) =>
        Json.mkObj [("norm", ratToJson (flNormCell fl64 sqrt64 v)),
          ("set", ratsJ (flSetCell fl64 sqrt64 v t)),
          ("orient", ratsJ (flOrientCell fl64 sqrt64 atol v))]
      pure (Json.mkObj [("ok", Json.arr out.toArray)])
  | "cfl_cells" => some do
      -- the complex kernel as NumPy computes it (|z|^2 with / without a fused multiply-add, division through the
      -- rounded reciprocal), one binary64 rounding after every operation; cells and results in the (re, im) view
      let cells ← listOf (listOf ratOfJson) (← fld j "cells")
      let targets ← rats j "targets"
      let atol ← ratOfJson (← fld j "atol")
      let one := fun (fused : Bool) (v : List (Rat × Rat)) (t : Rat) =>
        Json.mkObj [("norm", ratToJson (cflNormCell fl64 sqrt64 fused v)),
          ("set", ratsJ (flattenC (cflSetCell fl64 sqrt64 fused v t))),
          ("orient", ratsJ (flattenC (cflOrientCell fl64 sqrt64 fused atol v)))]
      let out := (cells.zip targets).map fun (v, t) =>
        Json.mkObj [("fused", one true (pairsOf v) t), ("plain", one false (pairsOf v) t)]
      pure (Json.mkObj [("ok", Json.arr out.toArray)])
  | "field_prog" => some do
      -- start from a stored field (taken as state), run steps
      let f ← fldOfJson (← fld j "field")
      let atol ← ratOfJson (← fld j "atol")
      let steps ← arr (← fld j "steps")
      let out ← runSteps atol f steps.toList
      pure (Json.mkObj [("ok", Json.mkObj [("init", snapJ atol f), ("steps", Json.arr out.toArray)])])
  | "ctor_prog" => some do
      -- Field(mesh, nvdim, value, norm, valid, vdims, vdim_mapping, unit), then steps
      let mesh ← meshOfJson (← fld j "mesh")
      let nvdim ← natOfJson (← fld j "nvdim")
      let value ← vspecOfJson (← fld j "value")
      let nrm ← optNspec j "norm"
      let valid ← validOfJson (← fld j "valid")
      let unit ← optStrOfJson j "unit"
      let vdims ← optStrsOfJson j "vdims"
      let vmap ← optPairs j "vmap"
      let atol ← ratOfJson (← fld j "atol")
      let steps ← arr (← fld j "steps")
      match mkFull? sqrtQ atol mesh nvdim value nrm valid vdims vmap unit with
      | .error e => pure (errJ e)
      | .ok f =>
        let f := forceF f
        let out ← runSteps atol f steps.toList
        pure (Json.mkObj [("ok", Json.mkObj [("init", snapJ atol f), ("steps", Json.arr out.toArray)])])
  | _ => none

end DFV.Drv
