import DFV.JsonField
import DFV.Model.C15
/-! driver ops of property C15.  The `sqrt` parameter of the model is instantiated with the
executable `sqrtQ` (exact on rational squares).  Callables are polynomial coefficient
tables evaluated by the model at the cell centres it computes itself. -/
namespace DFV.Drv.C15
open Lean DFV DFV.C15

/-- `[{"c": q, "e": [e0, e1, …]}, …]` -/
def termsOfJson (j : Json) : R (List (Rat × List Nat)) :=
  listOf (fun t => do
    let c ← ratOfJson (← fld t "c")
    let e ← nats t "e"
    pure (c, e)) j

def nspecOfJson (j : Json) : R NSpec := do
  let k ← strOfJson (← fld j "k")
  match k with
  | "const" => do pure (.const (← ratOfJson (← fld j "v")))
  | "arr" => do pure (.arr (← ndaOfJson ratOfJson 0 j))
  | "poly" => do
      let ts ← termsOfJson (← fld j "terms")
      pure (.fn (polyEval ts))
  | "field" => do pure (.field (← fldOfJson (← fld j "field")))
  | _ => throw s!"unknown norm spec kind {k}"

def optNspec (j : Json) (k : String) : R (Option NSpec) :=
  match fldOpt j k with
  | none => pure none
  | some v => some <$> nspecOfJson v

def vspecOfJson (j : Json) : R VSpec := do
  let k ← strOfJson (← fld j "k")
  match k with
  | "scalar" => do pure (.scalar (← ratOfJson (← fld j "v")))
  | "vec" => do pure (.vec (← rats j "v"))
  | "arr" => do pure (.arr (← ndaOfJson (listOf ratOfJson) [] j))
  | "poly" => do
      let comps ← listOf termsOfJson (← fld j "comps")
      pure (.fn fun p => comps.map fun ts => polyEval ts p)
  | _ => throw s!"unknown value spec kind {k}"

def validOfJson (j : Json) : R ValidSpec := do
  let k ← strOfJson (← fld j "k")
  match k with
  | "none" => pure .none
  | "all" => do pure (.all (← boolOfJson (← fld j "v")))
  | "arr" => do pure (.arr (← ndaOfJson boolOfJson false j))
  | "norm" => pure .byNorm
  | _ => throw s!"unknown valid spec kind {k}"

/-- materialise the arrays (efficiency only) -/
def forceF (f : Fld) : Fld :=
  { f with data := f.data.force [], valid := f.valid.force false }

/-- a field together with the norm and orientation the model derives from it -/
def snapJ (atol : Rat) (f : Fld) : Json :=
  Json.mkObj [("field", fldToJson f), ("norm", fldToJson (norm sqrtQ f)),
    ("orientation", fldToJson (orientation sqrtQ atol f))]

def stepOfJson (j : Json) : R Step := do
  let k ← strOfJson (← fld j "k")
  match k with
  | "set_norm" => do pure (.setNorm (← optNspec j "spec"))
  | "update" => do pure (.update (← vspecOfJson (← fld j "value")))
  | "set_valid" => do pure (.setValid (← validOfJson (← fld j "spec")))
  | _ => throw s!"unknown step {k}"

def stepOf (atol : Rat) (f : Fld) (j : Json) : R (M Fld) := do
  pure (step sqrtQ atol f (← stepOfJson j))

/-- run the steps; the list ends at the first step that raises -/
def runSteps (atol : Rat) : Fld → List Json → R (List Json)
  | _, [] => pure []
  | f, s :: rest => do
    match ← stepOf atol f s with
    | .error e => pure [errJ e]
    | .ok g =>
      let g := forceF g
      let tail ← runSteps atol g rest
      pure (Json.mkObj [("ok", snapJ atol g)] :: tail)

end DFV.Drv.C15

namespace DFV.Drv
open Lean DFV DFV.C15 DFV.Drv.C15

/-- driver ops of property C15 -/
def c15 (op : String) (j : Json) : Option (R Json) :=
  match op with
  | "sqrt" => some do
      let x ← ratOfJson (← fld j "x")
      pure (Json.mkObj [("ok", ratToJson (sqrtQ x))])
  | "fl64" => some do
      let x ← ratOfJson (← fld j "x")
      pure (Json.mkObj [("ok", Json.mkObj [("fl", ratToJson (fl64 x)), ("sqrt", ratToJson (sqrt64 x))])])
  | "fl_cells" => some do
      -- the kernel with one binary64 rounding after every operation, per cell
      let cells ← listOf (listOf ratOfJson) (← fld j "cells")
      let targets ← rats j "targets"
      let atol ← ratOfJson (← fld j "atol")
      let out := (cells.zip targets).map fun (v, t) =>
        Json.mkObj [("norm", ratToJson (flNormCell fl64 sqrt64 v)),
          ("set", ratsJ (flSetCell fl64 sqrt64 v t)),
          ("orient", ratsJ (flOrientCell fl64 sqrt64 atol v))]
      pure (Json.mkObj [("ok", Json.arr out.toArray)])
  | "field_prog" => some do
      -- start from a stored field (taken as state), run steps
      let f ← fldOfJson (← fld j "field")
      let atol ← ratOfJson (← fld j "atol")
      let steps ← arr (← fld j "steps")
      let out ← runSteps atol f steps.toList
      pure (Json.mkObj [("ok", Json.mkObj [("init", snapJ atol f), ("steps", Json.arr out.toArray)])])
  | "ctor_prog" => some do
      -- Field(mesh, nvdim, value, norm, valid, unit), then steps
      let mesh ← meshOfJson (← fld j "mesh")
      let nvdim ← natOfJson (← fld j "nvdim")
      let value ← vspecOfJson (← fld j "value")
      let nrm ← optNspec j "norm"
      let valid ← validOfJson (← fld j "valid")
      let unit ← optStrOfJson j "unit"
      let atol ← ratOfJson (← fld j "atol")
      let steps ← arr (← fld j "steps")
      match mk? sqrtQ atol mesh nvdim value nrm valid unit with
      | .error e => pure (errJ e)
      | .ok f =>
        let f := forceF f
        let out ← runSteps atol f steps.toList
        pure (Json.mkObj [("ok", Json.mkObj [("init", snapJ atol f), ("steps", Json.arr out.toArray)])])
  | _ => none

end DFV.Drv
