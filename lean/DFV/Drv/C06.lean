import DFV.JsonField
import DFV.Model.C06Hist
namespace DFV.Drv
open Lean DFV DFV.C06

/-- `direction` argument: null / absent → `None`, string, list of strings, anything else -/
def dirOfJson (j : Json) : C06.Dir :=
  match fldOpt j "dir" with
  | none => .none
  | some (.str s) => .name s
  | some (.arr a) =>
    match a.toList.mapM (fun e => match e with | Json.str s => some s | _ => none) with
    | some ds => .names ds
    | none => .other
  | some _ => .other

def resToJson : C06.Res → Json
  | .vals v => Json.mkObj [("vals", ratsJ v)]
  | .field f => Json.mkObj [("field", fldToJson f)]

/-- one request against an already parsed field -/
def c06On (f : Fld) (op : String) (j : Json) : R Json :=
  match op with
  | "integrate" => do
      let cum ← boolOfJson (← fld j "cumulative")
      pure (resJ resToJson (integrate f (dirOfJson j) cum))
  | "integrate_abs" => do
      let cum ← boolOfJson (← fld j "cumulative")
      pure (resJ resToJson (integrate (absF f) (dirOfJson j) cum))
  | "mean" => pure (resJ resToJson (mean f (dirOfJson j)))
  | "integrate_seq" => do
      let ds ← strs j "dirs"
      pure (resJ resToJson (integrateSeq f ds))
  | "mean_seq" => do
      let ds ← strs j "dirs"
      pure (resJ resToJson (meanSeq f ds))
  | "integrate_chain" => do
      -- `{"dirs": [d1, d2, …], "cums": [bool, bool, …]}`: f.integrate(d1, cumulative=c1).integrate(d2, cumulative=c2)…
      let ds ← strs j "dirs"
      let cs ← listOf boolOfJson (← fld j "cums")
      pure (resJ resToJson (integrateChain f (ds.zip cs)))
  | "sel" => do
      let d ← strOfJson (← fld j "dim")
      pure (resJ meshToJson (sel f.mesh d))
  | "dV" => pure (Json.mkObj [("ok", ratToJson (dV f.mesh)), ("cell", ratsJ f.mesh.cell)])
  | _ => throw s!"unknown sub-op {op}"

/-- one in-place history step: `{"op": "scale", "factor": q | [q…], "ref": [q…] | null,
"target": "mesh" | "region"}` or `{"op": "translate", "vector": [q…], "target": …}` -/
def hstepOfJson (j : Json) : R C06.HStep := do
  let o ← strOfJson (← fld j "op")
  let tgt ← strOfJson (← fld j "target")
  match o with
  | "scale" =>
    let fj ← fld j "factor"
    let fac ← match fj with
      | .arr _ => T.Factor.vec <$> listOf ratOfJson fj
      | _ => T.Factor.scalar <$> ratOfJson fj
    let ref ← match fldOpt j "ref" with
      | none => pure none
      | some v => some <$> listOf ratOfJson v
    pure (if tgt == "region" then .scaleRegion fac ref else .scaleMesh fac ref)
  | "translate" =>
    let v ← rats j "vector"
    pure (if tgt == "region" then .translateRegion v else .translateMesh v)
  | _ => throw s!"unknown history step {o}"

/-- one step of a history with quarter turns: the steps above, or
`{"op": "rotate90", "ax1": …, "ax2": …, "k": int, "ref": [q…] | null}` (`field.rotate90(…, inplace=True)`) -/
def fstepOfJson (j : Json) : R C06.FStep := do
  let o ← strOfJson (← fld j "op")
  if o == "rotate90" then
    let a1 ← strOfJson (← fld j "ax1")
    let a2 ← strOfJson (← fld j "ax2")
    let k ← intOfJson (← fld j "k")
    let ref ← match fldOpt j "ref" with
      | none => pure none
      | some v => some <$> listOf ratOfJson v
    pure (.rot a1 a2 k ref)
  else .mesh <$> hstepOfJson j

/-- driver ops of property C06 -/
def c06 (op : String) (j : Json) : Option (R Json) :=
  match op with
  | "batch" => some do
      let f ← fldOfJson (← fld j "field")
      let reqs ← arr (← fld j "reqs")
      let outs ← reqs.toList.mapM fun r => do
        let o ← strOfJson (← fld r "op")
        c06On f o r
      pure (Json.mkObj [("ok", .arr outs.toArray)])
  | "hist" => some do
      -- the model evolves the mesh itself: every state of the field along the in-place history,
      -- with the mesh it then has and the answers to the same requests
      let f ← fldOfJson (← fld j "field")
      let steps ← listOf fstepOfJson (← fld j "steps")
      let reqs ← arr (← fld j "reqs")
      let outs ← (statesFS f steps).mapM fun g => do
        let rs ← reqs.toList.mapM fun r => do
          let o ← strOfJson (← fld r "op")
          c06On g o r
        pure (Json.mkObj [("mesh", meshToJson g.mesh), ("outs", .arr rs.toArray)])
      -- `vol`: accumulated volume factor; `itot`: integrate() of the final state as theorem `turns_history` gives it
      -- (volume factor x initial cell volume x the per-component cell sums turned by the accepted quarter turns)
      pure (Json.mkObj [("ok", .arr outs.toArray), ("vol", ratToJson (fhistVol f steps)),
        ("itot", ratsJ (tab f.nvdim fun c =>
          fhistVol f steps * dV f.mesh * (fhistTurn f steps (tab f.nvdim (csum f))).getD c 0))])
  | "integrate" => some do
      let f ← fldOfJson (← fld j "field")
      let cum ← boolOfJson (← fld j "cumulative")
      pure (resJ resToJson (integrate f (dirOfJson j) cum))
  | "mean" => some do
      let f ← fldOfJson (← fld j "field")
      pure (resJ resToJson (mean f (dirOfJson j)))
  | "integrate_seq" => some do
      let f ← fldOfJson (← fld j "field")
      let ds ← strs j "dirs"
      pure (resJ resToJson (integrateSeq f ds))
  | "sel" => some do
      let m ← meshOfJson (← fld j "mesh")
      let d ← strOfJson (← fld j "dim")
      pure (resJ meshToJson (sel m d))
  | "dV" => some do
      let m ← meshOfJson (← fld j "mesh")
      pure (Json.mkObj [("ok", ratToJson (dV m)), ("cell", ratsJ m.cell)])
  | _ => none

end DFV.Drv
