import DFV.JsonField
import DFV.Model.C06Hist
namespace DFV.Drv
open Lean DFV DFV.C06

/-- `direction` argument: null / absent → `None`, string, list of strings, anything else -/
def dirOfJson (j : Json) : C06.Dir :=
  match fldOpt j "dir" with
  | none => .none
  | some (.str s) => .name s
  | some (.arr a) =>
    match a.toList.mapM (fun e => match e with | Json.str s => some s | _ => none) with
    | some ds => .names ds
    | none => .other
  | some _ => .other

def resToJson : C06.Res → Json
  | .vals v => Json.mkObj [("vals", ratsJ v)]
  | .field f => Json.mkObj [("field", fldToJson f)]

/-- one request against an already parsed field -/
def c06On (f : Fld) (op : String) (j : Json) : R Json :=
  match op with
  | "integrate" => do
      let cum ← boolOfJson (← fld j "cumulative")
      pure (resJ resToJson (integrate f (dirOfJson j) cum))
  | "integrate_abs" => do
      let cum ← boolOfJson (← fld j "cumulative")
      pure (resJ resToJson (integrate (absF f) (dirOfJson j) cum))
  | "mean" => pure (resJ resToJson (mean f (dirOfJson j)))
  | "integrate_seq" => do
      let ds ← strs j "dirs"
      pure (resJ resToJson (integrateSeq f ds))
  | "mean_seq" => do
      let ds ← strs j "dirs"
      pure (resJ resToJson (meanSeq f ds))
  | "sel" => do
      let d ← strOfJson (← fld j "dim")
      pure (resJ meshToJson (sel f.mesh d))
  | "dV" => pure (Json.mkObj [("ok", ratToJson (dV f.mesh)), ("cell", ratsJ f.mesh.cell)])
  | _ => throw s!"unknown sub-op {op}"

/-- one in-place history step: `{"op": "scale", "factor": q | [q…], "ref": [q…] | null,
"target": "mesh" | "region"}` or `{"op": "translate", "vector": [q…], "target": …}` -/
def hstepOfJson (j : Json) : R C06.HStep := do
  let o ← strOfJson (← fld j "op")
  let tgt ← strOfJson (← fld j "target")
  match o with
  | "scale" =>
    let fj ← fld j "factor"
    let fac ← match fj with
      | .arr _ => T.Factor.vec <$> listOf ratOfJson fj
      | _ => T.Factor.scalar <$> ratOfJson fj
    let ref ← match fldOpt j "ref" with
      | none => pure none
      | some v => some <$> listOf ratOfJson v
    pure (if tgt == "region" then .scaleRegion fac ref else .scaleMesh fac ref)
  | "translate" =>
    let v ← rats j "vector"
    pure (if tgt == "region" then .translateRegion v else .translateMesh v)
  | _ => throw s!"unknown history step {o}"

/-- driver ops of property C06 -/
def c06 (op : String) (j : Json) : Option (R Json) :=
  match op with
  | "batch" => some do
      let f ← fldOfJson (← fld j "field")
      let reqs ← arr (← fld j "reqs")
      let outs ← reqs.toList.mapM fun r => do
        let o ← strOfJson (← fld r "op")
        c06On f o r
      pure (Json.mkObj [("ok", .arr outs.toArray)])
  | "hist" => some do
      -- the model evolves the mesh itself: every state of the field along the in-place history,
      -- with the mesh it then has and the answers to the same requests
      let f ← fldOfJson (← fld j "field")
      let steps ← listOf hstepOfJson (← fld j "steps")
      let reqs ← arr (← fld j "reqs")
      let outs ← (statesH f steps).mapM fun g => do
        let rs ← reqs.toList.mapM fun r => do
          let o ← strOfJson (← fld r "op")
          c06On g o r
        pure (Json.mkObj [("mesh", meshToJson g.mesh), ("outs", .arr rs.toArray)])
      pure (Json.mkObj [("ok", .arr outs.toArray), ("vol", ratToJson (histVol f.mesh steps))])
  | "integrate" => some do
      let f ← fldOfJson (← fld j "field")
      let cum ← boolOfJson (← fld j "cumulative")
      pure (resJ resToJson (integrate f (dirOfJson j) cum))
  | "mean" => some do
      let f ← fldOfJson (← fld j "field")
      pure (resJ resToJson (mean f (dirOfJson j)))
  | "integrate_seq" => some do
      let f ← fldOfJson (← fld j "field")
      let ds ← strs j "dirs"
      pure (resJ resToJson (integrateSeq f ds))
  | "sel" => some do
      let m ← meshOfJson (← fld j "mesh")
      let d ← strOfJson (← fld j "dim")
      pure (resJ meshToJson (sel m d))
  | "dV" => some do
      let m ← meshOfJson (← fld j "mesh")
      pure (Json.mkObj [("ok", ratToJson (dV m)), ("cell", ratsJ m.cell)])
  | _ => none

end DFV.Drv
