import DFV.Drv.C01
namespace DFV.Drv
open Lean DFV

def handlers : List (String → Json → Option (R Json)) := [c01]

def dispatch (op : String) (j : Json) : Option (R Json) :=
  handlers.findSome? fun h => h op j

end DFV.Drv
