import DFV.Drv.C13
import DFV.DrvLoop
import DFV.Model.C12Ctor
namespace DFV.Drv
open Lean DFV DFV.T

/-- `null | [[label, axis | null], ..]` : the `vdim_mapping` argument (a dict whose values may be None) -/
def optMapOfJson (j : Json) (k : String) : R (Option (List (String × Option String))) :=
  match fldOpt j k with
  | none => pure none
  | some v => some <$> listOf (fun e => do
      let a ← arr e
      match a.toList with
      | [x, y] =>
        let tgt ← match y with
          | .null => pure none
          | _ => some <$> strOfJson y
        pure (← strOfJson x, tgt)
      | _ => throw "pair expected") v

def c12own (op : String) (j : Json) : Option (R Json) :=
  match op with
  | "field_ctor" => some do
      -- Field(mesh, nvdim, value=array, valid=array, vdims=…, vdim_mapping=…, unit=…)
      let mesh ← meshOfJson (← fld j "mesh")
      let nvdim ← natOfJson (← fld j "nvdim")
      let shape ← nats j "shape"
      let cells ← listOf (listOf ratOfJson) (← fld j "data")
      if cells.length ≠ natProd shape then throw "value length"
      let vshape ← nats j "vshape"
      let valid ← listOf boolOfJson (← fld j "valid")
      if valid.length ≠ natProd vshape then throw "valid length"
      let vdims ← optStrsOfJson j "vdims"
      let vmap ← optMapOfJson j "vmap"
      let unit ← optStrOfJson j "unit"
      pure (resJ fldToJson (mkFld? mesh nvdim (NDA.ofList shape cells []) (NDA.ofList vshape valid false) vdims vmap unit))
  | _ => none

/-- C12 = transformation driver of C13 + the field constructor -/
def c12 := orElseH [c13, c12own]
end DFV.Drv
