import DFV.Drv.C13
namespace DFV.Drv
/-- C12 shares the transformation driver of C13 -/
def c12 := c13
end DFV.Drv
