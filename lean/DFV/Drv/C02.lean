import DFV.JsonField
import DFV.Model.C02
/-! driver ops of property C02.  Cell values travel as Gaussian rationals: a JSON string
`"q"` is the real number `q`, a two-element array `["re","im"]` a complex number.  Callables
are polynomial coefficient tables evaluated by the model at the point it is given. -/
namespace DFV.Drv
open Lean DFV DFV.C02

abbrev GQ := Rat × Rat

def gqIsZero (v : GQ) : Bool := v.1 == 0 && v.2 == 0

def gqOfJson (j : Json) : R GQ :=
  match j with
  | .arr a =>
    match a.toList with
    | [x, y] => do pure (← ratOfJson x, ← ratOfJson y)
    | _ => throw "complex number must be [re, im]"
  | _ => do pure (← ratOfJson j, 0)

def gqToJson (v : GQ) : Json :=
  if v.2 == 0 then ratToJson v.1 else .arr #[ratToJson v.1, ratToJson v.2]

def ratPow (x : Rat) : Nat → Rat
  | 0 => 1
  | k + 1 => x * ratPow x k

/-- `[{"c": num, "e": [e0, e1, …]}, …]` ↦ `p ↦ Σ c · Π p_a ^ e_a` -/
def polyOfJson (j : Json) : R (List Rat → GQ) := do
  let terms ← listOf (fun t => do
    let c ← gqOfJson (← fld t "c")
    let e ← nats t "e"
    pure (c, e)) j
  pure fun p =>
    terms.foldl (fun (acc : GQ) (ce : GQ × List Nat) =>
      let mon := (List.range ce.2.length).foldl (fun (q : Rat) a => q * ratPow (p.getD a 0) (ce.2.getD a 0)) 1
      (acc.1 + ce.1.1 * mon, acc.2 + ce.1.2 * mon)) (0, 0)

def funcOfJson (j : Json) : R (List Rat → List GQ) := do
  let comps ← listOf polyOfJson (← fld j "comps")
  pure fun p => comps.map fun g => g p

def gndaOfJson (j : Json) : R (NDA GQ) := ndaOfJson gqOfJson (0, 0) j

def gndaToJson (a : NDA GQ) : Json := ndaToJson gqToJson a

def vfOfJson (j : Json) : R (VF GQ) := do
  let mesh ← meshOfJson (← fld j "mesh")
  let nvdim ← natOfJson (← fld j "nvdim")
  let data ← gndaOfJson j
  let vdims ← optStrsOfJson j "vdims"
  pure ⟨mesh, nvdim, data, vdims⟩

def leafOfJson (j : Json) : R (Leaf GQ) := do
  let k ← strOfJson (← fld j "k")
  match k with
  | "scalar" => do pure (.scalar (← gqOfJson (← fld j "v")))
  | "arr" => do pure (.arr (← gndaOfJson j))
  | "poly" => do pure (.func (← funcOfJson j))
  | "field" => do pure (.field (← vfOfJson (← fld j "src")))
  | "bad" => pure .bad
  | _ => throw s!"unknown leaf kind {k}"

def dfltOfJson (j : Json) : R (Dflt GQ) := do
  let k ← strOfJson (← fld j "k")
  match k with
  | "scalar" => do pure (.val (NDA.const [] (← gqOfJson (← fld j "v"))))
  | "arr" => do pure (.val (← gndaOfJson j))
  | "poly" => do pure (.func (← funcOfJson j))
  | "field" => do pure (.field (← vfOfJson (← fld j "src")))
  | "bad" => pure .bad
  | _ => throw s!"unknown default kind {k}"

def specOfJson (j : Json) : R (Spec GQ) := do
  let k ← strOfJson (← fld j "k")
  if k == "dict" then
    let items ← listOf (fun e => do
      let a ← arr e
      match a.toList with
      | [n, l] => do pure (← strOfJson n, ← leafOfJson l)
      | _ => throw "dict item must be [name, leaf]") (← fld j "items")
    let dflt ← match fldOpt j "default" with
      | none => pure none
      | some d => some <$> dfltOfJson d
    pure (.dict items dflt)
  else
    pure (.leaf (← leafOfJson j))

def forceG (a : NDA GQ) : NDA GQ := a.force (0, 0)

def rowsJ (rows : List (List GQ)) : Json := listJ (listJ gqToJson) rows

/-- state after an attempted assignment + whether it was accepted -/
def afterJ (f : VF GQ) (r : M (VF GQ)) : Json :=
  Json.mkObj [("accepted", .bool (match r with | .ok _ => true | .error _ => false)),
    ("state", gndaToJson (forceG (f.after r).data))]

def colJ (c : Col GQ) : Json :=
  match c with
  | .dist2 xs => Json.mkObj [("kind", .str "dist2"), ("data", ratsJ xs)]
  | .num xs => Json.mkObj [("kind", .str "num"), ("data", ratsJ xs)]
  | .val xs => Json.mkObj [("kind", .str "val"), ("data", listJ gqToJson xs)]

/-- the data frame: columns in order, `[name, {kind, data}]` (the distance column holds squares) -/
def frameJ (fr : List (String × Col GQ)) : Json :=
  listJ (fun (p : String × Col GQ) => Json.arr #[.str p.1, colJ p.2]) fr

def kindOfStr (k : String) : R Kind :=
  match k with
  | "bool" => pure .bool
  | "int" => pure .int
  | "float" => pure .float
  | "complex" => pure .complex
  | _ => throw s!"unknown kind {k}"

def kindStr : Kind → String
  | .bool => "bool" | .int => "int" | .float => "float" | .complex => "complex"

/-- source of a session statement; `nobj0` = number of field objects at the start (the caller's arrays
follow them in the store and never move) -/
def sessSrcOfJson (st : Sess GQ) (nobj0 : Nat) (j : Json) : R (Src GQ) :=
  match fldOpt j "obj" with
  | some o => do pure (.obj (← natOfJson o))
  | none =>
    match fldOpt j "objarr" with
    | some o => do pure (.buf (st.obj (← natOfJson o)).addr)
    | none =>
      match fldOpt j "buf" with
      | some b => do pure (.buf (nobj0 + (← natOfJson b)))
      | none => do pure (.pure (← specOfJson (← fld j "spec")))

/-- a session statement, resolved against the session as it is NOW (`pokeobj` / `fillobj` write through
`objs[i].array`) -/
def sessStmtOfJson (st : Sess GQ) (nobj0 : Nat) (j : Json) : R (Stmt GQ) := do
  let op ← strOfJson (← fld j "op")
  match op with
  | "set" => do pure (.set (← natOfJson (← fld j "i")) (← sessSrcOfJson st nobj0 (← fld j "src")))
  | "upd" => do pure (.upd (← natOfJson (← fld j "i")) (← sessSrcOfJson st nobj0 (← fld j "src")))
  | "new" => do pure (.new (← natOfJson (← fld j "i")) (← sessSrcOfJson st nobj0 (← fld j "src")))
  | "pokeobj" => do
      pure (.poke (st.obj (← natOfJson (← fld j "i"))).addr (← nats j "j") (← gqOfJson (← fld j "v")))
  | "fillobj" => do pure (.fill (st.obj (← natOfJson (← fld j "i"))).addr (← gqOfJson (← fld j "v")))
  | "pokebuf" => do pure (.poke (nobj0 + (← natOfJson (← fld j "b"))) (← nats j "j") (← gqOfJson (← fld j "v")))
  | "fillbuf" => do pure (.fill (nobj0 + (← natOfJson (← fld j "b"))) (← gqOfJson (← fld j "v")))
  | _ => throw s!"unknown statement {op}"

/-- arrays of all field objects and of the caller's arrays -/
def sessJ (st : Sess GQ) (nobj0 nbuf : Nat) (acc : Bool) : Json :=
  Json.mkObj [("accepted", .bool acc),
    ("objs", listJ (fun i => gndaToJson (forceG (st.field i).data)) (List.range st.objs.length)),
    ("bufs", listJ (fun k => gndaToJson (forceG (st.buf (nobj0 + k)))) (List.range nbuf))]

def runSession (nobj0 nbuf : Nat) : Sess GQ → List Json → R (List Json)
  | _, [] => pure []
  | st, j :: rest => do
    let c ← sessStmtOfJson st nobj0 j
    let r := st.step gqIsZero c
    -- every buffer is evaluated once per step (the model's arrays are closures)
    let st' : Sess GQ := { r.1 with store := r.1.store.map forceG }
    let tail ← runSession nobj0 nbuf st' rest
    pure (sessJ st' nobj0 nbuf r.2 :: tail)

def c02 (op : String) (j : Json) : Option (R Json) :=
  match op with
  | "new" => some do
      let m ← meshOfJson (← fld j "mesh")
      let nv ← natOfJson (← fld j "nvdim")
      let s ← specOfJson (← fld j "spec")
      let vdims ← optStrsOfJson j "vdims"
      let reserved ← strs j "reserved"
      let fast ← match fldOpt j "fast" with
        | some b => boolOfJson b
        | none => pure false
      -- source fields with thousands of cells: the source cell is computed by the closed formula and the result is
      -- handed on as a per-cell array (theorems field_fast_path_equal + asArray_array: same outcome, same entries)
      let s2 : M (Spec GQ) :=
        match fast, s with
        | true, .leaf (.field src) =>
          if fieldFastOk src m then
            match asLeafFieldFast src m nv with
            | .ok a => .ok (.leaf (.arr (forceG a)))
            | .error e => .error e
          else .ok s
        | _, _ => .ok s
      pure (resJ (fun (g : VF GQ) => Json.mkObj [("array", gndaToJson (forceG g.data)),
        ("vdims", optStrsJ g.vdims)]) (match s2 with
          | .error e => .error e
          | .ok s3 => VF.new? gqIsZero reserved m nv s3 vdims))
  | "construct" => some do
      let m ← meshOfJson (← fld j "mesh")
      let nv ← natOfJson (← fld j "nvdim")
      let s ← specOfJson (← fld j "spec")
      pure (resJ gndaToJson ((updateValues gqIsZero s m nv).map forceG))
  | "as_array" => some do
      let m ← meshOfJson (← fld j "mesh")
      let nv ← natOfJson (← fld j "nvdim")
      let s ← specOfJson (← fld j "spec")
      pure (resJ gndaToJson ((asArray gqIsZero s m nv).map forceG))
  | "set_array" => some do
      let f ← vfOfJson (← fld j "field")
      let l ← leafOfJson (← fld j "leaf")
      pure (afterJ f (f.setArray gqIsZero l))
  | "set_spec" => some do
      let f ← vfOfJson (← fld j "field")
      let s ← specOfJson (← fld j "spec")
      pure (afterJ f (f.setSpec gqIsZero s))
  | "kinds" => some do
      let m ← meshOfJson (← fld j "mesh")
      let nv ← natOfJson (← fld j "nvdim")
      let s ← specOfJson (← fld j "spec")
      let vk ← kindOfStr (← strOfJson (← fld j "vk"))
      let dt ← match fldOpt j "dtype" with
        | none => pure none
        | some .null => pure none
        | some d => some <$> (do kindOfStr (← strOfJson d))
      pure (Json.mkObj [("set", .str (kindStr (specKind dt vk s m nv))),
        ("upd", .str (kindStr (updKind dt vk s m nv)))])
  | "session" => some do
      let fs ← listOf vfOfJson (← fld j "fields")
      let bufs ← listOf gndaOfJson (← fld j "bufs")
      let prog ← listOf pure (← fld j "prog")
      let st : Sess GQ := ⟨fs.map (·.data) ++ bufs,
        (List.range fs.length).map fun i =>
          let f := fs.getD i ⟨default, 0, NDA.const [] (0, 0), none⟩
          ⟨f.mesh, f.nvdim, f.vdims, i⟩⟩
      let states ← runSession fs.length bufs.length st prog
      pure (Json.mkObj [("states", .arr states.toArray)])
  | "update" => some do
      let f ← vfOfJson (← fld j "field")
      let s ← specOfJson (← fld j "spec")
      pure (afterJ f (f.update gqIsZero s))
  | "history" => some do
      let f ← vfOfJson (← fld j "field")
      let ops ← listOf (fun o => do
        match fldOpt o "set" with
        | some l => pure (Assign.set (← leafOfJson l))
        | none =>
          match fldOpt o "sets" with
          | some sp => pure (Assign.setS (← specOfJson sp))
          | none => pure (Assign.upd (← specOfJson (← fld o "upd")))) (← fld j "ops")
      pure (Json.mkObj [("state", gndaToJson (forceG (f.run gqIsZero ops).data))])
  | "region2slices" => some do
      let m ← meshOfJson (← fld j "mesh")
      let r ← regionOfJson (← fld j "region")
      pure (resJ (fun (p : List Nat × List Nat) => Json.arr #[natsJ p.1, natsJ p.2]) (region2slices m r))
  | "probe" => some do
      let f ← vfOfJson (← fld j "field")
      let pts ← match fldOpt j "calls" with
        | some c => listOf (listOf ratOfJson) c
        | none => pure []
      let labels ← match fldOpt j "comps" with
        | some c => listOf strOfJson c
        | none => pure []
      let lines ← match fldOpt j "lines" with
        | some c => listOf (fun l => do
            pure (← rats l "p1", ← rats l "p2", ← natOfJson (← fld l "n"))) c
        | none => pure []
      let doIter ← match fldOpt j "iter" with
        | some b => boolOfJson b
        | none => pure false
      pure (Json.mkObj [
        ("calls", listJ (fun p => resJ (listJ gqToJson) (f.call p)) pts),
        ("comps", listJ (fun l => resJ (fun (g : VF GQ) => gndaToJson (forceG g.data)) (f.comp gqIsZero l)) labels),
        ("iter", if doIter then listJ (fun r => resJ (listJ gqToJson) r) f.iter else .null),
        ("lines", listJ (fun (l : List Rat × List Rat × Nat) =>
          resJ (fun (o : LineOut GQ) => Json.mkObj [("points", listJ ratsJ o.points),
            ("values", rowsJ o.values), ("r2", ratsJ o.r2),
            ("frame", frameJ (lineFrame f.mesh.region.dims (valueColumns f.vdims f.nvdim) f.nvdim o))])
            (f.line l.1 l.2.1 l.2.2)) lines)])
  | _ => none

end DFV.Drv
