import DFV.Json
import DFV.Model.C01
import DFV.Model.C15
namespace DFV.Drv
open Lean DFV

/-- ops of property C01 -/
def c01 (op : String) (j : Json) : Option (R Json) :=
  match op with
  | "region_mk" => some do
      let p1 ← rats j "p1"; let p2 ← rats j "p2"
      let dims ← match fldOpt j "dims" with | some d => (some <$> listOf strOfJson d) | none => pure none
      let units ← match fldOpt j "units" with | some d => (some <$> listOf strOfJson d) | none => pure none
      pure (resJ regionToJson (Region.mk? p1 p2 dims units))
  | "region_contains" => some do
      let r ← regionOfJson (← fld j "region"); let p ← rats j "p"
      pure (Json.mkObj [("ok", .bool (r.containsPt p))])
  | "mesh_mk_n" => some do
      let r ← regionOfJson (← fld j "region"); let n ← nats j "n"
      pure (resJ meshToJson (Mesh.mkN? r n))
  | "mesh_mk_cell" => some do
      let r ← regionOfJson (← fld j "region"); let c ← rats j "cell"
      pure (resJ meshToJson (Mesh.mkCell? r c))
  | "mesh_info" => some do
      let m ← meshOfJson (← fld j "mesh")
      pure (Json.mkObj [("cell", ratsJ m.cell), ("len", .num (JsonNumber.fromNat m.len)),
        ("cells", listJ ratsJ m.cells), ("vertices", listJ ratsJ m.vertices),
        ("indices", listJ natsJ (indicesCode m.n)), ("iter", listJ ratsJ m.iter),
        ("coord", listJ ratsJ ((indicesCode m.n).map m.coordFieldCode)),
        ("coord_spec", .bool ((indicesCode m.n).map m.coordFieldCode == (indicesCode m.n).map m.coordField)),
        ("cell_fl", ratsJ (tab m.ndim (m.cellAtFl C15.fl64))),
        ("cells_fl", listJ ratsJ (m.cellsFl C15.fl64)), ("vertices_fl", listJ ratsJ (m.verticesFl C15.fl64)),
        ("dV", ratToJson m.dV), ("volume", ratToJson m.region.volume),
        ("dV_fl", ratToJson (m.dVFl C15.fl64)), ("volume_fl", ratToJson (m.region.volumeFl C15.fl64)),
        ("indices_spec", .bool (indicesCode m.n == indicesF m.n))])
  | "mesh_info_big" => some do
      let m ← meshOfJson (← fld j "mesh")
      let idxs ← listOf (listOf natOfJson) (← fld j "idxs")
      let cs := m.cells
      let vs := m.vertices
      pure (Json.mkObj [("cell", ratsJ m.cell), ("len", .num (JsonNumber.fromNat m.len)),
        ("dV", ratToJson m.dV), ("volume", ratToJson m.region.volume),
        ("dV_fl", ratToJson (m.dVFl C15.fl64)), ("volume_fl", ratToJson (m.region.volumeFl C15.fl64)),
        ("cell_fl", ratsJ (tab m.ndim (m.cellAtFl C15.fl64))),
        ("ax_len", listJ natsJ [cs.map List.length, vs.map List.length]),
        ("cells_at", listJ ratsJ (idxs.map fun i => tab m.ndim fun a => (cs.getD a []).getD (i.getD a 0) 0)),
        ("verts_at", listJ ratsJ (idxs.map fun i => tab m.ndim fun a => (vs.getD a []).getD (i.getD a 0) 0))])
  | "index2point" => some do
      let m ← meshOfJson (← fld j "mesh"); let i ← ints j "index"
      pure (resJ ratsJ (m.index2point i))
  | "point2index" => some do
      let m ← meshOfJson (← fld j "mesh"); let p ← rats j "p"
      -- also report the exact fractional position of p in cell units, for the boundary comparator
      let q := tab m.ndim fun a => (p.getD a 0 - m.region.lo a) / m.cellAt a
      let frac := q.map fun x => x - (x.floor : Rat)
      pure (((resJ natsJ (m.point2index p)).setObjVal! "frac" (ratsJ frac)).setObjVal! "q" (ratsJ q))
  | "point2index_fl" => some do
      -- the same with every operation rounded to binary64 (`C15.fl64`), incl. the containment test
      let m ← meshOfJson (← fld j "mesh"); let p ← rats j "p"
      pure ((resJ natsJ (m.point2indexFl C15.fl64 p)).setObjVal! "inreg" (.bool (m.region.containsPtFl C15.fl64 p)))
  | "index2point_fl" => some do
      let m ← meshOfJson (← fld j "mesh"); let i ← ints j "index"
      pure (resJ ratsJ (m.index2pointFl C15.fl64 i))
  | _ => none

end DFV.Drv
