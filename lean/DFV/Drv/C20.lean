import DFV.JsonField
import DFV.Model.C20
namespace DFV.Drv
open Lean DFV DFV.C20

namespace C20J

def optRatJ : Option Rat → Json
  | none => .null
  | some q => ratToJson q

def hueJ : Option (Hue × Rat) → Json
  | none => .null
  | some (.val v, l) => .arr #[.str "val", ratToJson v, ratToJson l]
  | some (.angle y x, l) => .arr #[.str "angle", ratToJson y, ratToJson x, ratToJson l]

def callJ : PlotCall → Json
  | .imshow img origin ext =>
    Json.mkObj [("call", .str "imshow"), ("img", ndaToJson optRatJ img), ("origin", .str origin),
      ("extent", ratsJ ext)]
  | .imshowHL img origin ext =>
    Json.mkObj [("call", .str "imshow_hl"), ("img", ndaToJson hueJ img), ("origin", .str origin),
      ("extent", ratsJ ext)]
  | .quiver X Y U V C =>
    Json.mkObj [("call", .str "quiver"), ("X", ratsJ X), ("Y", ratsJ Y), ("U", ndaToJson optRatJ U),
      ("V", ndaToJson optRatJ V),
      ("C", match C with | none => .null | some c => ndaToJson ratToJson c)]
  | .contour X Y Z =>
    Json.mkObj [("call", .str "contour"), ("X", ratsJ X), ("Y", ratsJ Y), ("Z", ndaToJson optRatJ Z)]
  | .labels xl yl => Json.mkObj [("call", .str "labels"), ("x", .str xl), ("y", .str yl)]

def optFld (j : Json) (k : String) : R (Option Fld) :=
  match fldOpt j k with
  | none => pure none
  | some v => some <$> fldOfJson v

def optStrList (j : Json) (k : String) : R (Option (List (Option String))) :=
  match fldOpt j k with
  | none => pure none
  | some v => some <$> listOf (fun e => match e with
      | .null => pure none
      | e => some <$> strOfJson e) v

/-- exact square root of a rational that is a perfect square -/
def ratSqrt? (q : Rat) : Option Rat :=
  if q < 0 then none
  else
    let s := Nat.sqrt q.num.toNat
    let d := Nat.sqrt q.den
    if s * s = q.num.toNat ∧ d * d = q.den then some ((s : Rat) / (d : Rat)) else none

def optsOfJson (j : Json) : R Opts := do
  let mult ← match fldOpt j "mult" with
    | none => pure none
    | some v => some <$> ratOfJson v
  let filter ← optFld j "filter"
  let aux ← optFld j "aux"
  let vdimsArg ← optStrList j "vdims_arg"
  let useColor ← match fldOpt j "use_color" with
    | none => pure true
    | some v => boolOfJson v
  let clim ← match fldOpt j "clim" with
    | none => pure none
    | some v => do
      let l ← listOf ratOfJson v
      match l with
      | [a, b] => pure (some (a, b))
      | _ => throw "clim must have two entries"
  let pick ← match fldOpt j "pick" with
    | none => pure 0
    | some v => natOfJson v
  pure { mult, filter, aux, vdimsArg, useColor, clim, pick }

end C20J

open C20J in
/-- driver ops of property C20 -/
def c20 (op : String) (j : Json) : Option (R Json) :=
  match op with
  | "si_table" => some do
      pure (Json.mkObj [
        ("table", listJ (fun (p : String × Rat) => Json.arr #[.str p.1, ratToJson p.2]) siTable),
        ("rsi", listJ (fun (p : String × Rat) => Json.arr #[ratToJson p.2,
            match rsiPrefix? p.2 with | none => .null | some s => .str s]) siTable)])
  | "si_multiplier" => some do
      let v ← ratOfJson (← fld j "v")
      pure (Json.mkObj [("ok", optRatJ (siMultiplier v))])
  | "si_max_multiplier" => some do
      let vs ← rats j "vs"
      pure (resJ ratToJson (siMaxMultiplier vs))
  | "rsi_prefix" => some do
      let m ← ratOfJson (← fld j "m")
      pure (Json.mkObj [("ok", match rsiPrefix? m with | none => .null | some s => .str s)])
  | "plot" => some do
      let kind ← strOfJson (← fld j "kind")
      let f ← fldOfJson (← fld j "field")
      let o ← optsOfJson j
      let res ← match kind with
        | "scalar" => pure (mplScalar f o)
        | "contour" => pure (mplContour f o)
        | "vector" => pure (mplVector f o)
        | "default" => pure (mplDefault f o)
        | "lightness" =>
          -- exact square roots only: the generator uses Pythagorean vectors on this path
          if f.nvdim = 2 ∧ o.aux.isNone ∧
              f.data.toList.any (fun v => (ratSqrt? (normSq v)).isNone) then
            throw "lightness of a 2-component field: |v| is not rational in some cell"
          else pure (mplLightness (fun q => (ratSqrt? q).getD 0) f o)
        | k => throw s!"unknown plot kind {k}"
      let vd := match o.vdimsArg with | some l => l | none => inplaneVdims f
      let mj := match setupMultiplier f o.mult with | .ok m => ratToJson m | .error _ => .null
      pure (((resJ (listJ callJ) res).setObjVal! "leftover" (strsJ (leftover f vd))).setObjVal! "mult" mj)
  | _ => none

end DFV.Drv
