import DFV.JsonField
import DFV.Model.C20
import DFV.Model.C20Session
import DFV.Model.C20Heap
namespace DFV.Drv
open Lean DFV DFV.C20

namespace C20J

def optRatJ : Option Rat → Json
  | none => .null
  | some q => ratToJson q

def hueJ : Option (Hue × Rat) → Json
  | none => .null
  | some (.val v, l) => .arr #[.str "val", ratToJson v, ratToJson l]
  | some (.angle y x, l) => .arr #[.str "angle", ratToJson y, ratToJson x, ratToJson l]

def callJ : PlotCall → Json
  | .imshow img origin ext =>
    Json.mkObj [("call", .str "imshow"), ("img", ndaToJson optRatJ img), ("origin", .str origin),
      ("extent", ratsJ ext)]
  | .imshowHL img origin ext =>
    Json.mkObj [("call", .str "imshow_hl"), ("img", ndaToJson hueJ img), ("origin", .str origin),
      ("extent", ratsJ ext)]
  | .quiver X Y U V C =>
    Json.mkObj [("call", .str "quiver"), ("X", ratsJ X), ("Y", ratsJ Y), ("U", ndaToJson optRatJ U),
      ("V", ndaToJson optRatJ V),
      ("C", match C with | none => .null | some c => ndaToJson ratToJson c)]
  | .contour X Y Z =>
    Json.mkObj [("call", .str "contour"), ("X", ratsJ X), ("Y", ratsJ Y), ("Z", ndaToJson optRatJ Z)]
  | .labels xl yl => Json.mkObj [("call", .str "labels"), ("x", .str xl), ("y", .str yl)]

def optFld (j : Json) (k : String) : R (Option Fld) :=
  match fldOpt j k with
  | none => pure none
  | some v => some <$> fldOfJson v

def optStrList (j : Json) (k : String) : R (Option (List (Option String))) :=
  match fldOpt j k with
  | none => pure none
  | some v => some <$> listOf (fun e => match e with
      | .null => pure none
      | e => some <$> strOfJson e) v

/-- exact square root of a rational that is a perfect square -/
def ratSqrt? (q : Rat) : Option Rat :=
  if q < 0 then none
  else
    let s := Nat.sqrt q.num.toNat
    let d := Nat.sqrt q.den
    if s * s = q.num.toNat ∧ d * d = q.den then some ((s : Rat) / (d : Rat)) else none

def optsOfJson (j : Json) : R Opts := do
  let mult ← match fldOpt j "mult" with
    | none => pure none
    | some v => some <$> ratOfJson v
  let filter ← optFld j "filter"
  let aux ← optFld j "aux"
  let vdimsArg ← optStrList j "vdims_arg"
  let useColor ← match fldOpt j "use_color" with
    | none => pure true
    | some v => boolOfJson v
  let clim ← match fldOpt j "clim" with
    | none => pure none
    | some v => do
      let l ← listOf ratOfJson v
      match l with
      | [a, b] => pure (some (a, b))
      | _ => throw "clim must have two entries"
  let pick ← match fldOpt j "pick" with
    | none => pure 0
    | some v => natOfJson v
  pure { mult, filter, aux, vdimsArg, useColor, clim, pick }

/-- a caller's keyword dictionary -/
def kwOfJson (j : Json) : R Kw := do
  let filter ← optFld j "filter_field"
  let colorField ← optFld j "color_field"
  let useColor ← match fldOpt j "use_color" with
    | none => pure none
    | some v => some <$> boolOfJson v
  let colorbar ← match fldOpt j "colorbar" with
    | none => pure none
    | some v => some <$> boolOfJson v
  let cbLabel ← match fldOpt j "colorbar_label" with
    | none => pure none
    | some v => some <$> strOfJson v
  let vdims ← optStrList j "vdims"
  pure { filter, useColor, colorbar, colorField, cbLabel, vdims }

def optNat (j : Json) (k : String) : R (Option Nat) :=
  match fldOpt j k with
  | none => pure none
  | some v => some <$> natOfJson v

/-- one `field.mpl(...)` request of a session; `fields` are the fields of the session -/
def reqOfJson (fields : List Fld) (j : Json) : R Req := do
  let fi ← natOfJson (← fld j "field")
  let field ← match fields[fi]? with
    | some f => pure f
    | none => throw "session: field index out of range"
  let mult ← match fldOpt j "mult" with
    | none => pure none
    | some v => some <$> ratOfJson v
  let skw ← optNat j "skw"
  let vkw ← optNat j "vkw"
  let pick ← match fldOpt j "pick" with
    | none => pure 0
    | some v => natOfJson v
  pure { field, mult, skw, vkw, pick }

/-! heap version of a plot request: the arrays of the field, the filter and the colour field are
put on a heap of buffers, the heap plot function runs, and the buffers are compared afterwards -/

/-- `field.array` as a buffer indexed `[i, j, c]` -/
def arrBuf (f : Fld) : ABuf := fun i => some ((f.data.get (i.take 2)).getD (i.getD 2 0) 0)

/-- `field.valid` as a buffer of ones and zeros indexed `[i, j]` -/
def valBuf (f : Fld) : ABuf := fun i => some (if f.valid.get (i.take 2) then 1 else 0)

def hfldOf (f : Fld) (a : Nat) : HFld :=
  { mesh := f.mesh, nvdim := f.nvdim, arr := a, val := a + 1, vdims := f.vdims, vmap := f.vmap,
    unit := f.unit }

/-- heap holding the arrays of the given fields, two buffers per field, in order -/
def heapOf (fs : List Fld) : AHeap := fs.flatMap fun f => [arrBuf f, valBuf f]

/-- does the buffer at address `a` hold the same entries in both heaps (over the index range of
an array of shape `shape`)? -/
def sameBuf (h h' : AHeap) (a : Nat) (shape : List Nat) : Bool :=
  (indicesC shape).all fun i => h.buf a i == h'.buf a i

/-- names of the input arrays that differ after the call -/
def mutatedNames (h h' : AHeap) (named : List (String × Fld)) : List String :=
  (named.zipIdx.flatMap fun (p, k) =>
    (if sameBuf h h' (2 * k) (p.2.mesh.n ++ [p.2.nvdim]) then [] else [p.1 ++ ".array"]) ++
    (if sameBuf h h' (2 * k + 1) p.2.mesh.n then [] else [p.1 ++ ".valid"]))

/-- which plot method a direct call uses -/
def kindOfStr : String → R Kind
  | "scalar" => pure .scalar
  | "contour" => pure .contour
  | "vector" => pure .vector
  | "lightness" => pure .lightness
  | "default" => pure .default
  | k => throw s!"unknown plot kind {k}"

/-- one direct call of a heap session: the field, the filter and the colour / lightness field are
INDICES into the session's list of fields (field `k` has its arrays at addresses `2k`, `2k+1`) -/
def hreqOfJson (fields : List Fld) (j : Json) : R (HReq × Fld × List (Option String)) := do
  let kind ← kindOfStr (← strOfJson (← fld j "kind"))
  let fi ← natOfJson (← fld j "field")
  let f ← match fields[fi]? with
    | some f => pure f
    | none => throw "hsession: field index out of range"
  let hf (k : Nat) : R HFld := match fields[k]? with
    | some g => pure (hfldOf g (2 * k))
    | none => throw "hsession: field index out of range"
  let filter ← match ← optNat j "filter" with
    | none => pure none
    | some k => some <$> hf k
  let aux ← match ← optNat j "aux" with
    | none => pure none
    | some k => some <$> hf k
  let mult ← match fldOpt j "mult" with
    | none => pure none
    | some v => some <$> ratOfJson v
  let vdimsArg ← optStrList j "vdims_arg"
  let useColor ← match fldOpt j "use_color" with
    | none => pure true
    | some v => boolOfJson v
  let clim ← match fldOpt j "clim" with
    | none => pure none
    | some v => do
      let l ← listOf ratOfJson v
      match l with
      | [a, b] => pure (some (a, b))
      | _ => throw "clim must have two entries"
  let pick ← match fldOpt j "pick" with
    | none => pure 0
    | some v => natOfJson v
  let vd := match vdimsArg with | some l => l | none => inplaneVdims f
  pure ({ kind, field := hfldOf f (2 * fi), opts := { mult, filter, aux, vdimsArg, useColor, pick }, clim }, f, vd)

end C20J

open C20J in
/-- driver ops of property C20 -/
def c20 (op : String) (j : Json) : Option (R Json) :=
  match op with
  | "si_table" => some do
      pure (Json.mkObj [
        ("table", listJ (fun (p : String × Rat) => Json.arr #[.str p.1, ratToJson p.2]) siTable),
        ("rsi", listJ (fun (p : String × Rat) => Json.arr #[ratToJson p.2,
            match rsiPrefix? p.2 with | none => .null | some s => .str s]) siTable)])
  | "si_multiplier" => some do
      let v ← ratOfJson (← fld j "v")
      pure (Json.mkObj [("ok", optRatJ (siMultiplier v))])
  | "si_max_multiplier" => some do
      let vs ← rats j "vs"
      pure (resJ ratToJson (siMaxMultiplier vs))
  | "rsi_prefix" => some do
      let m ← ratOfJson (← fld j "m")
      pure (Json.mkObj [("ok", match rsiPrefix? m with | none => .null | some s => .str s)])
  | "plot" => some do
      let kind ← strOfJson (← fld j "kind")
      let f ← fldOfJson (← fld j "field")
      let o ← optsOfJson j
      let res ← match kind with
        | "scalar" => pure (mplScalar f o)
        | "contour" => pure (mplContour f o)
        | "vector" => pure (mplVector f o)
        | "default" => pure (mplDefault f o)
        | "lightness" =>
          -- exact square roots only: the generator uses Pythagorean vectors on this path
          if f.nvdim = 2 ∧ o.aux.isNone ∧
              f.data.toList.any (fun v => (ratSqrt? (normSq v)).isNone) then
            throw "lightness of a 2-component field: |v| is not rational in some cell"
          else pure (mplLightness (fun q => (ratSqrt? q).getD 0) f o)
        | k => throw s!"unknown plot kind {k}"
      let vd := match o.vdimsArg with | some l => l | none => inplaneVdims f
      let mj := match setupMultiplier f o.mult with | .ok m => ratToJson m | .error _ => .null
      -- matplotlib's own precondition on the arguments handed over (contour: Z at least 2 x 2)
      let mplOk := match res with | .ok calls => callsAccepted calls | .error _ => true
      let out := (((resJ (listJ callJ) res).setObjVal! "leftover" (strsJ (leftover f vd))).setObjVal! "mult" mj).setObjVal!
        "mpl_ok" (Json.bool mplOk)
      -- the same request on the heap model (arrays as objects): result and which input arrays changed
      let named : List (String × Fld) := [("field", f)] ++
        (match o.filter with | some g => [("filter", g)] | none => []) ++
        (match o.aux with | some g => [("aux", g)] | none => [])
      let h0 := heapOf (named.map (·.2))
      let fltH := o.filter.map fun g => hfldOf g 2
      let auxH := o.aux.map fun g => hfldOf g (if o.filter.isSome then 4 else 2)
      let ho : HOpts := { mult := o.mult, filter := fltH, aux := auxH, vdimsArg := o.vdimsArg,
                          useColor := o.useColor, pick := o.pick }
      let hres : Option (AHeap × M (List PlotCall)) := match kind with
        | "scalar" => some (scalarH h0 (hfldOf f 0) ho)
        | "contour" => some (contourH h0 (hfldOf f 0) ho)
        | "vector" => some (vectorH h0 (hfldOf f 0) ho)
        | "lightness" => some (lightnessH (fun q => (ratSqrt? q).getD 0) h0 (hfldOf f 0) ho o.clim)
        | "default" => some (defaultH h0 (hfldOf f 0) ho)
        | _ => none
      match hres with
      | none => pure out
      | some (h1, r) =>
        pure ((out.setObjVal! "heap" (resJ (listJ callJ) r)).setObjVal! "mutated"
          (strsJ (mutatedNames h0 h1 named)))
  | "session" => some do
      -- a history of `field.mpl(...)` calls sharing the caller's dictionary objects `dicts`
      let fields ← listOf fldOfJson (← fld j "fields")
      let dicts ← listOf kwOfJson (← fld j "dicts")
      let reqs ← listOf (reqOfJson fields) (← fld j "reqs")
      let out := runSession dicts reqs
      let mults := reqs.map fun r =>
        match setupMultiplier r.field r.mult with | .ok m => ratToJson m | .error _ => .null
      let lefts := reqs.map fun r => strsJ (leftover r.field (inplaneVdims r.field))
      pure (Json.mkObj [
        ("results", listJ (resJ (listJ callJ)) out.2),
        ("mults", .arr mults.toArray),
        ("leftovers", .arr lefts.toArray),
        -- the caller's dictionaries after the session: which keys they hold
        ("keys", listJ (fun k => strsJ k.keys) (out.1.take dicts.length)),
        ("nstore", Json.num (JsonNumber.fromNat out.1.length))])
  | "hsession" => some do
      -- a history of DIRECT method calls (scalar / contour / vector / lightness / mpl()) that share field
      -- objects: all arrays live on one heap, the calls run one after the other on it
      let fields ← listOf fldOfJson (← fld j "fields")
      let reqs ← listOf (hreqOfJson fields) (← fld j "reqs")
      let sq : Rat → Rat := fun q => (ratSqrt? q).getD 0
      -- exact square roots only (|v| of 2-component fields is the default lightness)
      if reqs.any (fun (r, f, _) => r.kind == .lightness && f.nvdim == 2 && r.opts.aux.isNone &&
          f.data.toList.any (fun v => (ratSqrt? (normSq v)).isNone)) then
        throw "lightness of a 2-component field: |v| is not rational in some cell"
      let h0 := heapOf fields
      let out := runHeapSession sq h0 (reqs.map (·.1))
      let named := fields.zipIdx.map fun (f, k) => (s!"f{k}", f)
      let mults := reqs.map fun (r, f, _) =>
        match setupMultiplier f r.opts.mult with | .ok m => ratToJson m | .error _ => .null
      let lefts := reqs.map fun (_, f, vd) => strsJ (leftover f vd)
      let accepted := out.2.map fun r => Json.bool (match r with | .ok calls => callsAccepted calls | .error _ => true)
      pure (Json.mkObj [
        ("results", listJ (resJ (listJ callJ)) out.2),
        ("mults", .arr mults.toArray),
        ("leftovers", .arr lefts.toArray),
        ("mpl_ok", .arr accepted.toArray),
        ("mutated", strsJ (mutatedNames h0 out.1 named)),
        ("nheap", Json.num (JsonNumber.fromNat out.1.length))])
  | _ => none

end DFV.Drv
