import DFV.JsonField
import DFV.Model.C16
namespace DFV.Drv
open Lean DFV DFV.C16

namespace C16J

def varrToJson (a : VArr) : Json :=
  Json.mkObj [("name", .str a.name), ("ncomp", .num (JsonNumber.fromNat a.ncomp)), ("int", .bool a.int),
    ("vals", ratsJ a.vals)]

def varrOfJson (j : Json) : R VArr := do
  let name ← strOfJson (← fld j "name")
  let ncomp ← natOfJson (← fld j "ncomp")
  let int ← boolOfJson (← fld j "int")
  let vals ← rats j "vals"
  pure { name, ncomp, int, vals }

def gridToJson (g : Grid) : Json :=
  Json.mkObj [("dims", natsJ g.dims), ("coords", listJ ratsJ g.coords), ("cell", listJ varrToJson g.cell)]

def gridOfJson (j : Json) : R Grid := do
  let dims ← nats j "dims"
  let coords ← listOf (listOf ratOfJson) (← fld j "coords")
  let cell ← listOf varrOfJson (← fld j "cell")
  pure { dims, coords, cell }

def sidecarOfJson (j : Json) (k : String) : R (Option (List (String × Region))) :=
  match fldOpt j k with
  | none => pure none
  | some s => do
    let a ← arr s
    let l ← a.toList.mapM fun e => do
      let nm ← strOfJson (← fld e "name")
      let r ← regionOfJson e
      pure (nm, r)
    pure (some l)

def sidecarToJson : Option (List (String × Region)) → Json
  | none => .null
  | some l => listJ (fun (p : String × Region) => (regionToJson p.2).setObjVal! "name" (.str p.1)) l

def llineOfJson (j : Json) : R LLine := do
  let t ← strOfJson (← fld j "t")
  match t with
  | "coords" => do pure (.coords (← natOfJson (← fld j "count")))
  | "nums" => do pure (.nums (← rats j "xs"))
  | "vectors" => pure .vectors
  | "scalars" => pure .scalars
  | "alpha" => pure .alpha
  | "junk" => pure .junk
  | _ => throw s!"unknown line tag {t}"

def linesOfJson (j : Json) (k : String) : R (List LLine) :=
  match fldOpt j k with
  | none => pure []
  | some v => listOf llineOfJson v

def optNatJ : Option Nat → Json
  | none => .null
  | some n => .num (JsonNumber.fromNat n)

def repToString : Rep → String
  | .xml => "xml" | .bin => "bin" | .txt => "txt"

def sectToJson : Sect → Json
  | .scalars n => Json.arr #[.str "SCALARS", .str n]
  | .vectors n => Json.arr #[.str "VECTORS", .str n]
  | .field ns => Json.arr #[.str "FIELD", listJ Json.str ns]

end C16J
open C16J

/-- driver ops of property C16 -/
def c16 (op : String) (j : Json) : Option (R Json) :=
  match op with
  | "to_vtk" => some do
      let f ← fldOfJson (← fld j "field")
      pure (resJ (fun g => (gridToJson g).setObjVal! "active"
        (Json.arr #[optStrJ (activeAttr f).1, optStrJ (activeAttr f).2])) (toVtk f))
  | "lookup" => some do
      -- cell lookup in the grid built from the field, next to `point2index` of the mesh and the
      -- exact fractional position of every point (boundary comparator)
      let f ← fldOfJson (← fld j "field")
      let pts ← listOf (listOf ratOfJson) (← fld j "pts")
      match toVtk f with
      | .error e => pure (errJ e)
      | .ok g =>
        let m := f.mesh
        pure (Json.mkObj [("ok", listJ (fun (p : List Rat) =>
          Json.mkObj [("id", optNatJ (locate g p)),
            ("idx", resJ natsJ (m.point2index p)),
            ("flat", match m.point2index p with
                     | .ok i => optNatJ (some (flatF m.n i))
                     | .error _ => .null),
            ("frac", ratsJ (tab m.ndim fun a =>
              (p.getD a 0 - m.region.lo a) / m.cellAt a - (((p.getD a 0 - m.region.lo a) / m.cellAt a).floor : Rat)))])
          pts)])
  | "read" => some do
      let g ← gridOfJson (← fld j "grid")
      let sc ← sidecarOfJson j "sidecar"
      let lines ← linesOfJson j "lines"
      pure (resJ fldToJson (readVtk g lines sc))
  | "to_file" => some do
      let f ← fldOfJson (← fld j "field")
      let rep ← strOfJson (← fld j "rep")
      let save ← boolOfJson (← fld j "save")
      -- `arrays`: the arrays in the order a VTK reader returns them for the written file; `sections`: the
      -- CELL_DATA sections of a legacy file built from the grid `to_vtk` returns
      pure (resJ (fun (v : VFile) => Json.mkObj [("rep", .str (repToString v.rep)),
        ("sidecar", sidecarToJson v.sidecar), ("ncell_arrays", .num (JsonNumber.fromNat v.grid.cell.length)),
        ("arrays", listJ (fun (a : VArr) => Json.arr #[.str a.name, .num (JsonNumber.fromNat a.ncomp), .bool a.int]) v.grid.cell),
        ("sections", match toVtk f with
          | .ok g => listJ sectToJson (legacySections (activeAttr f) g.cell)
          | .error _ => .null)])
        (toFile f rep save id))
  | "roundtrip" => some do
      let f ← fldOfJson (← fld j "field")
      let rep ← strOfJson (← fld j "rep")
      let save ← boolOfJson (← fld j "save")
      pure (resJ fldToJson ((toFile f rep save id).bind fromFile))
  | "session" => some do
      -- a history of to_file / from_file calls on file names in one directory (optionally starting from
      -- files that are already there); one result per call
      let d0 : Dir ← match fldOpt j "dir" with
        | none => pure ⟨[], []⟩
        | some dj => do
          let vs ← listOf (fun e => do
            let nm ← strOfJson (← fld e "name")
            let g ← gridOfJson (← fld e "grid")
            let ls ← linesOfJson e "lines"
            pure (nm, (⟨g, ls⟩ : VtkFile))) (← fld dj "vtk")
          let js ← listOf (fun e => do
            let nm ← strOfJson (← fld e "name")
            let sc ← sidecarOfJson e "sidecar"
            pure (nm, sc.getD [])) (← fld dj "json")
          pure ⟨vs, js⟩
      let ops ← listOf (fun e => do
        let k ← strOfJson (← fld e "op")
        let nm ← strOfJson (← fld e "name")
        match k with
        | "write" => do
          let f ← fldOfJson (← fld e "field")
          let rep ← strOfJson (← fld e "rep")
          let save ← boolOfJson (← fld e "save")
          pure (DOp.write nm f rep save)
        | "read" => pure (DOp.read nm)
        | _ => throw s!"unknown session op {k}") (← fld j "ops")
      pure (Json.mkObj [("ok", listJ (resJ (fun (o : Option Fld) => match o with
        | none => Json.null
        | some f => fldToJson f)) (Dir.run id d0 ops))])
  | _ => none

end DFV.Drv
