import DFV.JsonField
import DFV.Model.C08
namespace DFV.Drv
open Lean DFV DFV.C08

namespace C08J

def maskOfJson (j : Json) : R Mask := ndaOfJson boolOfJson false j

def maskToJson (m : Mask) : Json := ndaToJson Json.bool m

def ratArrOfJson (j : Json) : R (NDA Rat) := ndaOfJson ratOfJson 0 j

def padModeOfString : String → R PadMode
  | "constant" => pure .constant
  | "edge" => pure .edge
  | "wrap" => pure .wrap
  | "symmetric" => pure .symmetric
  | "reflect" => pure .reflect
  | s => throw s!"unknown pad mode {s}"

def pairOfJson (j : Json) : R (Nat × Nat) := do
  match (← arr j).toList with
  | [a, b] => pure (← natOfJson a, ← natOfJson b)
  | _ => throw "pair of naturals expected"

def mapOpOfJson (j : Json) : R MapOp := do
  match ← strOfJson (← fld j "k") with
  | "take" => pure (.take (← natOfJson (← fld j "ax")) (← natOfJson (← fld j "i")))
  | "slice" => pure (.slice (← natOfJson (← fld j "ax")) (← natOfJson (← fld j "lo")) (← natOfJson (← fld j "hi")))
  | "crop" => pure (.crop (← nats j "lo") (← nats j "hi"))
  | "pad" => pure (.pad (← padModeOfString (← strOfJson (← fld j "mode"))) (← listOf pairOfJson (← fld j "w")))
  | "resample" => pure (.resample (← nats j "n"))
  | "rot" => pure (.rot (← natOfJson (← fld j "a")) (← natOfJson (← fld j "b")) (← intOfJson (← fld j "turns")))
  | s => throw s!"unknown map op {s}"

/-- callables the harness uses: returns the truth value of what the Python callable returns -/
def funOfJson (j : Json) : R (List Rat → Bool) := do
  match ← strOfJson (← fld j "kind") with
  | "halfspace" =>
    let a ← natOfJson (← fld j "ax")
    let c ← ratOfJson (← fld j "c")
    pure fun p => decide (p.getD a 0 < c)
  | "affine" =>
    let w ← rats j "w"
    let c ← ratOfJson (← fld j "c")
    pure fun p => decide ((List.range w.length).foldl (fun acc k => acc + w.getD k 0 * p.getD k 0) 0 - c ≠ 0)
  | "ball" =>
    let ctr ← rats j "centre"
    let r2 ← ratOfJson (← fld j "r2")
    pure fun p => decide ((List.range ctr.length).foldl
      (fun acc k => acc + (p.getD k 0 - ctr.getD k 0) * (p.getD k 0 - ctr.getD k 0)) 0 ≤ r2)
  | s => throw s!"unknown callable {s}"

/-- mask-level setter argument; a callable comes with the geometry of the receiving mesh -/
def mspecOfJson (j : Json) : R MSpec := do
  match ← strOfJson (← fld j "kind") with
  | "none" => pure .none
  | "const" => pure (.const (← ratOfJson (← fld j "v")))
  | "arr" => pure (.arr (← ratArrOfJson j))
  | "norm" =>
    let shape ← nats j "shape"
    let cells ← listOf (listOf ratOfJson) (← fld j "vals")
    if cells.length ≠ natProd shape then throw "norm: vals length"
    pure (.norm ((NDA.ofList shape cells []).map sumSq))
  | "func" =>
    let g ← funOfJson (← fld j "fun")
    let pmin ← rats j "pmin"
    let cell ← rats j "cell"
    pure (.cells fun i => g (tab pmin.length fun a => pmin.getD a 0 + ((i.getD a 0 : Nat) + 1 / 2 : Rat) * cell.getD a 0))
  | "bad" => pure .bad
  | s => throw s!"unknown spec {s}"

def vspecOfJson (j : Json) : R VSpec := do
  match ← strOfJson (← fld j "kind") with
  | "none" => pure .none
  | "norm" => pure .norm
  | "const" => pure (.const (← ratOfJson (← fld j "v")))
  | "arr" => pure (.arr (← ratArrOfJson j))
  | "func" => pure (.func (← funOfJson (← fld j "fun")))
  | "bad" => pure .bad
  | s => throw s!"unknown spec {s}"

partial def progOfJson (j : Json) : R Prog := do
  match ← strOfJson (← fld j "t") with
  | "leaf" => pure (.leaf (← natOfJson (← fld j "k")))
  | "pos" => pure (.pos (← progOfJson (← fld j "p")))
  | "un" => pure (.un (← progOfJson (← fld j "p")))
  | "binC" => pure (.binC (← progOfJson (← fld j "p")))
  | "binF" => pure (.binF (← progOfJson (← fld j "p")) (← progOfJson (← fld j "q")))
  | "map" => pure (.map (← mapOpOfJson (← fld j "op")) (← progOfJson (← fld j "p")))
  | "vtk" => pure (.vtk (← progOfJson (← fld j "p")))
  | "hdf5" => pure (.hdf5 (← progOfJson (← fld j "p")))
  | "setv" => pure (.setv (← mspecOfJson (← fld j "spec")) (← progOfJson (← fld j "p")))
  | s => throw s!"unknown node {s}"

end C08J

open C08J

/-- driver ops of property C08 -/
def c08 (op : String) (j : Json) : Option (R Json) :=
  match op with
  | "eval" => some do
      let leaves ← listOf maskOfJson (← fld j "leaves")
      let p ← progOfJson (← fld j "prog")
      let env : Nat → Mask := fun k => leaves.getD k (NDA.const [] false)
      match eval env p with
      | .error e => pure (errJ e)
      | .ok m =>
        -- the index-level reading on every cell of the result, and the address of the result's
        -- buffer in the store model (leaf k lives at address k)
        let sp := (indicesC m.shape).map (spec env p)
        let addr := match evalS env id p (leaves.map NDA.toList) with
          | .ok r => Json.num (JsonNumber.fromNat r.1)
          | .error _ => Json.null
        pure (Json.mkObj [("ok", maskToJson m), ("spec", boolsJ sp), ("shapeOf", natsJ (shapeOf env p)),
                          ("addr", addr), ("nleaves", Json.num (JsonNumber.fromNat leaves.length)),
                          ("alias", match aliasOf p with
                            | some k => Json.num (JsonNumber.fromNat k)
                            | none => Json.null)])
  | "setvalid" => some do
      let f ← fldOfJson (← fld j "field")
      let s ← vspecOfJson (← fld j "spec")
      pure (resJ fldToJson (setValid f s))
  | _ => none

end DFV.Drv
