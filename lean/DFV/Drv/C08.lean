import DFV.JsonField
import DFV.Model.C08
import DFV.Model.C08Dict
namespace DFV.Drv
open Lean DFV DFV.C08

namespace C08J

def maskOfJson (j : Json) : R Mask := ndaOfJson boolOfJson false j

def maskToJson (m : Mask) : Json := ndaToJson Json.bool m

def ratArrOfJson (j : Json) : R (NDA Rat) := ndaOfJson ratOfJson 0 j

def padModeOfString : String → R PadMode
  | "constant" => pure .constant
  | "edge" => pure .edge
  | "wrap" => pure .wrap
  | "symmetric" => pure .symmetric
  | "reflect" => pure .reflect
  | s => throw s!"unknown pad mode {s}"

def pairOfJson (j : Json) : R (Nat × Nat) := do
  match (← arr j).toList with
  | [a, b] => pure (← natOfJson a, ← natOfJson b)
  | _ => throw "pair of naturals expected"

def mapOpOfJson (j : Json) : R MapOp := do
  match ← strOfJson (← fld j "k") with
  | "take" => pure (.take (← natOfJson (← fld j "ax")) (← natOfJson (← fld j "i")))
  | "slice" => pure (.slice (← natOfJson (← fld j "ax")) (← natOfJson (← fld j "lo")) (← natOfJson (← fld j "hi")))
  | "crop" => pure (.crop (← nats j "lo") (← nats j "hi"))
  | "pad" => pure (.pad (← padModeOfString (← strOfJson (← fld j "mode"))) (← listOf pairOfJson (← fld j "w")))
  | "resample" => pure (.resample (← nats j "n"))
  | "rot" => pure (.rot (← natOfJson (← fld j "a")) (← natOfJson (← fld j "b")) (← intOfJson (← fld j "turns")))
  | s => throw s!"unknown map op {s}"

/-- callables the harness uses: returns the truth value of what the Python callable returns -/
def funOfJson (j : Json) : R (List Rat → Bool) := do
  match ← strOfJson (← fld j "kind") with
  | "halfspace" =>
    let a ← natOfJson (← fld j "ax")
    let c ← ratOfJson (← fld j "c")
    pure fun p => decide (p.getD a 0 < c)
  | "affine" =>
    let w ← rats j "w"
    let c ← ratOfJson (← fld j "c")
    pure fun p => decide ((List.range w.length).foldl (fun acc k => acc + w.getD k 0 * p.getD k 0) 0 - c ≠ 0)
  | "ball" =>
    let ctr ← rats j "centre"
    let r2 ← ratOfJson (← fld j "r2")
    pure fun p => decide ((List.range ctr.length).foldl
      (fun acc k => acc + (p.getD k 0 - ctr.getD k 0) * (p.getD k 0 - ctr.getD k 0)) 0 ≤ r2)
  | s => throw s!"unknown callable {s}"

/-- mask-level setter argument; a callable comes with the geometry of the receiving mesh -/
def mspecOfJson (j : Json) : R MSpec := do
  match ← strOfJson (← fld j "kind") with
  | "none" => pure .none
  | "const" => pure (.const (← ratOfJson (← fld j "v")))
  | "arr" => pure (.arr (← ratArrOfJson j))
  | "norm" =>
    let shape ← nats j "shape"
    let cells ← listOf (listOf ratOfJson) (← fld j "vals")
    if cells.length ≠ natProd shape then throw "norm: vals length"
    pure (.norm ((NDA.ofList shape cells []).map sumSq))
  | "func" =>
    let g ← funOfJson (← fld j "fun")
    let pmin ← rats j "pmin"
    let cell ← rats j "cell"
    pure (.cells fun i => g (tab pmin.length fun a => pmin.getD a 0 + ((i.getD a 0 : Nat) + 1 / 2 : Rat) * cell.getD a 0))
  | "lookup" =>
    -- a Boolean scalar field: its mask of VALUES, whether its region contains the receiving one,
    -- and the centre coordinates of both meshes per axis
    let src ← maskOfJson (← fld j "src")
    let inside ← boolOfJson (← fld j "inside")
    let cs ← listOf (listOf ratOfJson) (← fld j "cs")
    let xs ← listOf (listOf ratOfJson) (← fld j "xs")
    pure (.lookup src inside (fun b k => (cs.getD b []).getD k 0) (fun b k => (xs.getD b []).getD k 0))
  | "bad" => pure .bad
  | s => throw s!"unknown spec {s}"

def vspecOfJson (j : Json) : R VSpec := do
  match ← strOfJson (← fld j "kind") with
  | "none" => pure .none
  | "norm" => pure .norm
  | "const" => pure (.const (← ratOfJson (← fld j "v")))
  | "arr" => pure (.arr (← ratArrOfJson j))
  | "func" => pure (.func (← funOfJson (← fld j "fun")))
  | "bad" => pure .bad
  | s => throw s!"unknown spec {s}"

def freshOfJson (j : Json) : R FreshOp := do
  match ← strOfJson (← fld j "k") with
  | "same" => pure .same
  | "reduce" => pure (.reduce (← nats j "axes"))
  | "rfft" => pure .rfft
  | "spectrum" => pure .spectrum
  | "irfft" =>
    match (← fld j "last") with
    | .null => pure (.irfft none)
    | l => pure (.irfft (some (← natOfJson l)))
  | s => throw s!"unknown fresh op {s}"

partial def progOfJson (j : Json) : R Prog := do
  match ← strOfJson (← fld j "t") with
  | "fresh" => pure (.fresh (← freshOfJson (← fld j "op")) (← progOfJson (← fld j "p")))
  -- compound operations: built by the MODEL's own definitions (`gradProg` …), not by the harness
  | "grad" => pure (gradProg (← natOfJson (← fld j "nd")) (← progOfJson (← fld j "p")))
  | "div" => pure (divProg (← natOfJson (← fld j "nv")) (← progOfJson (← fld j "p")))
  | "curl" => pure (curlProg (← progOfJson (← fld j "p")))
  | "laplace" => pure (laplaceProg (← natOfJson (← fld j "nd")) (← natOfJson (← fld j "nv")) (← progOfJson (← fld j "p")))
  | "sum" => pure (sumProg (← listOf progOfJson (← fld j "ps")))
  | "stack" => pure (stackProg (← listOf progOfJson (← fld j "ps")))
  | "ufunc" => pure (ufuncProg (← listOf progOfJson (← fld j "ps")))
  | "lshiftC" => pure (lshiftConstProg (← progOfJson (← fld j "p")))
  | "rlshiftC" => pure (rlshiftConstProg (← progOfJson (← fld j "p")))
  | "rsub" => pure (rsubProg (← progOfJson (← fld j "p")))
  | "rcross" => pure (rcrossProg (← progOfJson (← fld j "p")))
  | "leaf" => pure (.leaf (← natOfJson (← fld j "k")))
  | "pos" => pure (.pos (← progOfJson (← fld j "p")))
  | "un" => pure (.un (← progOfJson (← fld j "p")))
  | "binC" => pure (.binC (← progOfJson (← fld j "p")))
  | "binF" => pure (.binF (← progOfJson (← fld j "p")) (← progOfJson (← fld j "q")))
  | "map" => pure (.map (← mapOpOfJson (← fld j "op")) (← progOfJson (← fld j "p")))
  | "vtk" => pure (.vtk (← progOfJson (← fld j "p")))
  | "hdf5" => pure (.hdf5 (← progOfJson (← fld j "p")))
  | "setv" => pure (.setv (← mspecOfJson (← fld j "spec")) (← progOfJson (← fld j "p")))
  | s => throw s!"unknown node {s}"

def stmtOfJson (j : Json) : R Stmt := do
  match ← strOfJson (← fld j "s") with
  | "build" => pure (.build (← progOfJson (← fld j "prog")))
  | "assign" => pure (.assign (← natOfJson (← fld j "i")) (← mspecOfJson (← fld j "spec")))
  | "rotI" => pure (.rotI (← natOfJson (← fld j "i")) (← natOfJson (← fld j "a")) (← natOfJson (← fld j "b"))
                      (← intOfJson (← fld j "turns")))
  | "poke" => pure (.poke (← natOfJson (← fld j "i")) (← natOfJson (← fld j "pos")) (← boolOfJson (← fld j "v")))
  | s => throw s!"unknown statement {s}"

/-- all variables of a session: object, buffer address, mask, mesh object and its cells per axis -/
def sessToJson (sm : SessM) : Json :=
  Json.arr ((List.range sm.base.vars.length).map fun i =>
    Json.mkObj [("obj", Json.num (JsonNumber.fromNat (sm.base.objOf i))),
                ("addr", Json.num (JsonNumber.fromNat (sm.base.addrOf i))),
                ("mask", maskToJson (sm.base.mask i)),
                ("mesh", Json.num (JsonNumber.fromNat (sm.meshObj i))),
                ("meshn", natsJ (sm.meshNOf i))]).toArray

/-- run a history statement by statement; the state after every statement (stops at the first
rejected statement, reported as `{"err": …}` in its place) -/
def runTrace (st : SessM) : List Stmt → List Json
  | [] => []
  | s :: rest =>
    match st.step s with
    | .error e => [errJ e]
    | .ok st' => sessToJson st' :: runTrace st' rest

def dvalOfJson (j : Json) : R DVal := do
  match ← strOfJson (← fld j "kind") with
  | "const" => pure (.const (← ratOfJson (← fld j "v")))
  | "arr" => pure (.arr (← ratArrOfJson j))
  | "func" => pure (.func (← funOfJson (← fld j "fun")))
  | "bad" => pure .bad
  | s => throw s!"unknown dict value {s}"

def ddefOfJson (j : Json) : R DDef := do
  match ← strOfJson (← fld j "kind") with
  | "none" => pure .none
  | "const" => pure (.const (← ratOfJson (← fld j "v")))
  | "func" => pure (.func (← funOfJson (← fld j "fun")))
  | s => throw s!"unknown dict default {s}"

end C08J

open C08J

/-- driver ops of property C08 -/
def c08 (op : String) (j : Json) : Option (R Json) :=
  match op with
  | "eval" => some do
      let leaves ← listOf maskOfJson (← fld j "leaves")
      let p ← progOfJson (← fld j "prog")
      let env : Nat → Mask := fun k => leaves.getD k (NDA.const [] false)
      match eval env p with
      | .error e => pure (Json.mkObj [("err", .str (toString e)), ("wf", Json.bool (wf env p))])
      | .ok m =>
        -- the index-level reading on every cell of the result, and the address of the result's
        -- buffer in the store model (leaf k lives at address k)
        let sp := (indicesC m.shape).map (spec env p)
        let addr := match evalS env id p (leaves.map NDA.toList) with
          | .ok r => Json.num (JsonNumber.fromNat r.1)
          | .error _ => Json.null
        pure (Json.mkObj [("ok", maskToJson m), ("spec", boolsJ sp), ("shapeOf", natsJ (shapeOf env p)),
                          ("wf", Json.bool (wf env p)),
                          ("addr", addr), ("nleaves", Json.num (JsonNumber.fromNat leaves.length)),
                          ("alias", match aliasOf p with
                            | some k => Json.num (JsonNumber.fromNat k)
                            | none => Json.null)])
  | "hist" => some do
      let leaves ← listOf maskOfJson (← fld j "leaves")
      let stmts ← listOf stmtOfJson (← fld j "stmts")
      pure (Json.mkObj [("ok", Json.arr (runTrace (SessM.init leaves) stmts).toArray)])
  | "setvalid" => some do
      let f ← fldOfJson (← fld j "field")
      let s ← vspecOfJson (← fld j "spec")
      pure (resJ fldToJson (setValid f s))
  | "apply" => some do
      -- one mapping operation on one mask, the array only (large arrays: no index-level reading, no store)
      let m ← maskOfJson (← fld j "mask")
      let op ← mapOpOfJson (← fld j "mop")
      if op.ok m.shape then pure (Json.mkObj [("ok", maskToJson (own (op.apply m false)))])
      else pure (errJ Err.value)
  | "resamplefast" => some do
      -- `resample` through the closed form of the source cell (= MapOp.resample, Props resample_fast_is_resample)
      let m ← maskOfJson (← fld j "mask")
      let n ← nats j "n"
      if (MapOp.resample n).ok m.shape then pure (Json.mkObj [("ok", maskToJson (own (resampleFast m n)))])
      else pure (errJ Err.value)
  | "setdict" => some do
      let f ← fldOfJson (← fld j "field")
      let d ← ddefOfJson (← fld j "default")
      let val ← listOf (fun e => do pure (← strOfJson (← fld e "name"), ← dvalOfJson (← fld e "val"))) (← fld j "entries")
      pure (resJ fldToJson (setValidDict f d val))
  | _ => none

end DFV.Drv
