import DFV.Lemmas.C10Num
/-! C10: when exactly is the round trip the identity (`reread f = f`)? -/
namespace DFV.C10
open DFV

theorem map_eq_self {α : Type} (g : α → α) (l : List α) (h : l.map g = l) : ∀ p ∈ l, g p = p := by
  induction l with
  | nil => intro p hp; cases hp
  | cons a t ih =>
    simp only [List.map_cons, List.cons.injEq] at h
    intro p hp
    rcases List.mem_cons.mp hp with rfl | hp
    · exact h.1
    · exact ih h.2 p hp

theorem NumArr.cast_eq_self_iff (k : NK) (a : NumArr) : a.cast k = a ↔ a.kind = k := by
  constructor
  · intro h
    rw [← h, NumArr.cast_kind]
  · exact NumArr.cast_cast_of_kind k a

theorem DBuf.upcast_eq_self_iff (b : DBuf) : b.upcast = b ↔ b.kind ≠ .int := by
  constructor
  · intro h hk
    cases b <;> simp_all [DBuf.upcast, DBuf.kind]
  · exact DBuf.upcast_of_not_int b

theorem mesh_loaded_eq_self_iff (m : TMesh) :
    m.loaded = m ↔ ∀ p ∈ m.subs, p.2.pmin.kind = tableKind m ∧ p.2.pmax.kind = tableKind m := by
  constructor
  · intro h p hp
    have hs : (m.subs.map fun p => (p.1, p.2.castCorners (tableKind m))) = m.subs := congrArg TMesh.subs h
    have := map_eq_self _ _ hs p hp
    have h2 : p.2.castCorners (tableKind m) = p.2 := congrArg Prod.snd this
    have h3 : p.2.pmin.cast (tableKind m) = p.2.pmin := congrArg TReg.pmin h2
    have h4 : p.2.pmax.cast (tableKind m) = p.2.pmax := congrArg TReg.pmax h2
    exact ⟨(NumArr.cast_eq_self_iff _ _).mp h3, (NumArr.cast_eq_self_iff _ _).mp h4⟩
  · intro hsub
    unfold TMesh.loaded
    have : (m.subs.map fun p => (p.1, p.2.castCorners (tableKind m))) = m.subs := by
      conv_rhs => rw [← List.map_id m.subs]
      apply List.map_congr_left
      intro p hp
      obtain ⟨h1, h2⟩ := hsub p hp
      simp only [TReg.castCorners, id]
      rw [NumArr.cast_cast_of_kind _ _ h1, NumArr.cast_cast_of_kind _ _ h2]
    rw [this]

/-- **the reader's result is the field written iff** the unit is not the string `"None"`, labels
are present or the field has one component, every subregion corner array has the dtype of the
corner table, the data are not integers, and the component-to-axis mapping is the default one -/
theorem reread_eq_self_iff (f : TFld) : reread f = f ↔
    f.unit ≠ some "None" ∧ (f.vdims = none → f.nvdim = 1) ∧
    (∀ p ∈ f.mesh.subs, p.2.pmin.kind = tableKind f.mesh ∧ p.2.pmax.kind = tableKind f.mesh) ∧
    f.data.buf.kind ≠ .int ∧ f.vmap = defaultVmap f.nvdim f.mesh.region.dims f.vdims := by
  constructor
  · intro h
    have hu : decUnit (encUnit f.unit) = f.unit := congrArg TFld.unit h
    have hvd : rereadVdims f = f.vdims := congrArg TFld.vdims h
    have hvm : defaultVmap f.nvdim f.mesh.region.dims (rereadVdims f) = f.vmap := congrArg TFld.vmap h
    have hm : f.mesh.loaded = f.mesh := congrArg TFld.mesh h
    have hd : ({ f.data with buf := f.data.buf.upcast } : DArr) = f.data := congrArg TFld.data h
    refine ⟨(decUnit_encUnit _).mp hu, ?_, (mesh_loaded_eq_self_iff _).mp hm, ?_, ?_⟩
    · intro hnone
      have : rereadVdims f = f.vdims := hvd
      simp only [rereadVdims, hnone, recodeVdims, defaultVdims_none_iff] at this
      exact this
    · exact (DBuf.upcast_eq_self_iff _).mp (congrArg DArr.buf hd)
    · rw [← hvm, hvd]
  · rintro ⟨hu, hv, hsub, hdata, hmap⟩
    rw [reread_eq_loaded f hu hv, loaded_eq_self f hsub hdata hmap]

end DFV.C10
