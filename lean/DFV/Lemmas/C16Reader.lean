import DFV.Lemmas.C16Legacy2
/-! C16 helper lemmas, part 13: what `_from_vtk` returns on an arbitrary grid (index-level
spec of the reader, not only on grids `to_vtk` built). -/
namespace DFV.C16
open DFV DFV.Mesh

theorem mkField_fields (m : Mesh) (dim : Nat) (data : NDA (List Rat)) (valid : NDA Bool)
    (vd : Option (List String)) (f' : Fld) (h : mkField m dim data valid vd = .ok f') :
    f'.mesh = m ∧ f'.nvdim = dim ∧ f'.data = data ∧ f'.valid = valid ∧ 1 ≤ dim ∧ vdimsSet dim vd = .ok f'.vdims := by
  unfold mkField at h
  split at h
  · cases h
  · rename_i hd
    split at h
    · cases h
    · rename_i vd' hvd
      injection h with h
      subst h
      exact ⟨rfl, rfl, rfl, rfl, by omega, hvd⟩

theorem meshOf_spec (p1 p2 : List Rat) (n : List Nat) (m : Mesh) (h : meshOf p1 p2 n = .ok m) :
    m.n = n ∧ m.subs = [] ∧ n.length = p1.length ∧ (∀ k ∈ n, k ≠ 0) ∧
    m.region.pmin = (tab p1.length fun a => min (p1.getD a 0) (p2.getD a 0)) ∧
    m.region.pmax = (tab p1.length fun a => max (p1.getD a 0) (p2.getD a 0)) := by
  unfold meshOf at h
  split at h
  · cases h
  · rename_i r hr
    unfold Region.mk? at hr
    split at hr
    · cases hr
    · split at hr
      · cases hr
      · simp only [Region.dimsOk, Region.unitsOk] at hr
        split at hr
        · cases hr
        · injection hr with hr
          unfold Mesh.mkN? at h
          split at h
          · cases h
          · rename_i hl
            split at h
            · cases h
            · rename_i hz
              split at h
              · cases h
              · injection h with h
                subst h
                subst hr
                refine ⟨rfl, rfl, ?_, ?_, rfl, rfl⟩
                · simp only [Region.ndim, tab_length] at hl
                  omega
                · intro k hk hk0
                  apply hz
                  rw [List.any_eq_true]
                  exact ⟨k, hk, by simpa using hk0⟩

theorem validOf_spec (g : Grid) (nx ny nz : Nat) (hn : g.n = [nx, ny, nz]) (vi : Option Nat) (v : NDA Bool)
    (h : validOf g vi = .ok v) (i j k : Nat) :
    v.get [i, j, k] = readFlag g vi (flatF [nx, ny, nz] [i, j, k]) := by
  cases vi with
  | none =>
    injection h with h
    subst h
    rfl
  | some q =>
    simp only [validOf] at h
    split at h
    · cases h
    · rename_i arr harr
      injection h with h
      subst h
      rw [hn] at harr
      simp only [toBool, readFlag]
      rw [unflat3_get nx ny nz _ arr harr i j k]

/-- the index-level spec of `_from_vtk` on any grid that has cell data -/
theorem fromCells_spec (g : Grid) (sc : Option (List (String × Region))) (f' : Fld) (nx ny nz : Nat)
    (hn : g.n = [nx, ny, nz]) (h : fromCells g sc = .ok f') :
    ∃ fi, (scan g.cell 0 ⟨none, none, []⟩).fieldIdx = some fi ∧
      f'.mesh.n = [nx, ny, nz] ∧ 0 < nx ∧ 0 < ny ∧ 0 < nz ∧
      f'.mesh.region.pmin = (tab 3 fun a => min (g.p1.getD a 0) (g.p2.getD a 0)) ∧
      f'.mesh.region.pmax = (tab 3 fun a => max (g.p1.getD a 0) (g.p2.getD a 0)) ∧
      f'.nvdim = (g.cell.getD fi default).ncomp ∧ 1 ≤ f'.nvdim ∧
      (g.cell.getD fi default).vals.length = natProd [nx, ny, nz] * (g.cell.getD fi default).ncomp ∧
      (∀ i j k c, c < f'.nvdim → (f'.data.get [i, j, k]).getD c 0 =
        (g.cell.getD fi default).vals.getD (flatF [nx, ny, nz] [i, j, k] * f'.nvdim + c) 0) ∧
      (∀ i j k, f'.valid.get [i, j, k] =
        readFlag g (scan g.cell 0 ⟨none, none, []⟩).validIdx (flatF [nx, ny, nz] [i, j, k])) ∧
      vdimsSet (g.cell.getD fi default).ncomp
        (if (scan g.cell 0 ⟨none, none, []⟩).vdims.length ≠ (g.cell.getD fi default).ncomp then none
         else some (scan g.cell 0 ⟨none, none, []⟩).vdims) = .ok f'.vdims := by
  unfold fromCells at h
  split at h
  · cases h
  · rename_i fi hfi
    split at h
    · cases h
    · rename_i value hvalue
      split at h
      · cases h
      · rename_i valid hvalid
        split at h
        · cases h
        · rename_i m0 hm0
          split at h
          · cases h
          · rename_i m hm
            obtain ⟨e1, e2, e3, e4, e5, e6⟩ := mkField_fields _ _ _ _ _ _ h
            obtain ⟨g1, g2, g3, g4, g5, g6⟩ := meshOf_spec _ _ _ _ hm0
            obtain ⟨l1, l2, _⟩ := loadSubs_geom _ _ _ hm
            have hp1 : g.p1.length = 3 := by simp [Grid.p1]
            rw [hn] at hvalue g1 g4
            have hlen : (g.cell.getD fi default).vals.length = natProd [nx, ny, nz] * (g.cell.getD fi default).ncomp := by
              unfold unflat4 at hvalue
              split at hvalue
              · cases hvalue
              · rename_i hh; exact not_not.mp hh
            have hx : 0 < nx := Nat.pos_of_ne_zero (g4 nx (by simp))
            have hy : 0 < ny := Nat.pos_of_ne_zero (g4 ny (by simp))
            have hz : 0 < nz := Nat.pos_of_ne_zero (g4 nz (by simp))
            refine ⟨fi, hfi, by rw [e1, l2, g1], hx, hy, hz, by rw [e1, l1, g5, hp1], by rw [e1, l1, g6, hp1], e2, by rw [e2]; exact e5,
              hlen, ?_, ?_, e6⟩
            · intro i j k c hc
              rw [e3, e2]
              rw [e2] at hc
              simp only [cellsOf]
              rw [getD_tab _ _ _ _ hc]
              exact unflat4_get nx ny nz _ _ value hvalue i j k c
            · intro i j k
              rw [e4]
              exact validOf_spec g nx ny nz hn _ valid hvalid i j k

/-! ## the name scan -/

/-- the index the scan returns is that of an array called `field`, and no later array has that name -/
theorem scan_fieldIdx (l : List VArr) (i : Nat) (s : Scan) (fi : Nat) (h : (scan l i s).fieldIdx = some fi) :
    (s.fieldIdx = some fi ∧ ∀ a ∈ l, a.name ≠ "field") ∨
    (i ≤ fi ∧ fi - i < l.length ∧ (l.getD (fi - i) default).name = "field" ∧
      ∀ q, fi - i < q → q < l.length → (l.getD q default).name ≠ "field") := by
  induction l generalizing i s with
  | nil => left; exact ⟨by simpa [scan] using h, by simp⟩
  | cons a as ih =>
    simp only [scan] at h
    have shift : ∀ s', (scan as (i + 1) s').fieldIdx = some fi →
        ((s'.fieldIdx = some fi ∧ ∀ b ∈ as, b.name ≠ "field") ∨
         (i ≤ fi ∧ fi - i < (a :: as).length ∧ ((a :: as).getD (fi - i) default).name = "field" ∧
          ∀ q, fi - i < q → q < (a :: as).length → ((a :: as).getD q default).name ≠ "field")) := by
      intro s' hs'
      rcases ih (i + 1) s' hs' with h1 | ⟨h1, h2, h3, h4⟩
      · exact Or.inl h1
      · right
        have e : fi - i = (fi - (i + 1)) + 1 := by omega
        refine ⟨by omega, by simp only [List.length_cons]; omega, by rw [e, List.getD_cons_succ]; exact h3, ?_⟩
        intro q hq hql
        cases q with
        | zero => omega
        | succ q =>
          rw [List.getD_cons_succ]
          exact h4 q (by omega) (by simpa using hql)
    split at h
    · rename_i h1
      rcases shift _ h with ⟨h2, h3⟩ | h2
      · right
        simp only at h2
        injection h2 with h2
        subst h2
        refine ⟨le_refl _, by simp, by simpa using h1, ?_⟩
        intro q hq hql
        cases q with
        | zero => omega
        | succ q =>
          rw [List.getD_cons_succ]
          have hq' : q < as.length := by simpa using hql
          rw [List.getD_eq_getElem?_getD, List.getElem?_eq_getElem hq']
          exact h3 _ (List.getElem_mem hq')
      · exact Or.inr h2
    · rename_i h1
      have key : ∀ s', s'.fieldIdx = s.fieldIdx → (scan as (i + 1) s').fieldIdx = some fi →
          (s.fieldIdx = some fi ∧ ∀ b ∈ a :: as, b.name ≠ "field") ∨
          (i ≤ fi ∧ fi - i < (a :: as).length ∧ ((a :: as).getD (fi - i) default).name = "field" ∧
            ∀ q, fi - i < q → q < (a :: as).length → ((a :: as).getD q default).name ≠ "field") := by
        intro s' hs' hsc
        rcases shift s' hsc with ⟨h2, h3⟩ | h2
        · left
          refine ⟨by rw [← hs']; exact h2, ?_⟩
          intro b hb
          rcases List.mem_cons.mp hb with rfl | hb
          · exact h1
          · exact h3 b hb
        · exact Or.inr h2
      split at h
      · exact key { s with validIdx := some i } rfl h
      · split at h
        · exact key { s with vdims := s.vdims ++ [a.name] } rfl h
        · exact key s rfl h

end DFV.C16
