import DFV.Lemmas.C18Mat
import Mathlib.Tactic.LinearCombination
/-! `align_vector`: the rotation about `i × f` taking `i` to `f` (equal lengths). -/
namespace DFV.C18
open DFV

/-- action of the quaternion rotation, over the common denominator -/
theorem M3.ofQuat_apply (w x y z : Rat) (u : V3) :
    (M3.ofQuat w x y z).apply u =
      ⟨((w*w + x*x - y*y - z*z) * u.x + 2 * (x*y - w*z) * u.y + 2 * (x*z + w*y) * u.z) / (w*w + x*x + y*y + z*z),
       (2 * (x*y + w*z) * u.x + (w*w - x*x + y*y - z*z) * u.y + 2 * (y*z - w*x) * u.z) / (w*w + x*x + y*y + z*z),
       (2 * (x*z - w*y) * u.x + 2 * (y*z + w*x) * u.y + (w*w - x*x - y*y + z*z) * u.z) / (w*w + x*x + y*y + z*z)⟩ := by
  unfold M3.ofQuat M3.apply V3.dot
  ext <;> simp only <;> ring

theorem align_norm_ne (i f : V3) (hv : i.cross f ≠ ⟨0, 0, 0⟩) :
    (i.dot i + i.dot f) * (i.dot i + i.dot f) + (i.cross f).x * (i.cross f).x + (i.cross f).y * (i.cross f).y
      + (i.cross f).z * (i.cross f).z ≠ 0 := by
  intro h
  have h0 := mul_self_nonneg (i.dot i + i.dot f)
  have h1 := mul_self_nonneg (i.cross f).x
  have h2 := mul_self_nonneg (i.cross f).y
  have h3 := mul_self_nonneg (i.cross f).z
  have e1 : (i.cross f).x = 0 := by
    have : (i.cross f).x * (i.cross f).x = 0 := by linarith
    exact mul_self_eq_zero.mp this
  have e2 : (i.cross f).y = 0 := by
    have : (i.cross f).y * (i.cross f).y = 0 := by linarith
    exact mul_self_eq_zero.mp this
  have e3 : (i.cross f).z = 0 := by
    have : (i.cross f).z * (i.cross f).z = 0 := by linarith
    exact mul_self_eq_zero.mp this
  exact hv (V3.ext e1 e2 e3)

/-- **`align_vector`**: for vectors of equal length that are not parallel the model's matrix is a
proper rotation, takes `initial` to `final`, and keeps the cross product fixed -/
theorem ofAlign_spec (i f : V3) (hlen : i.dot i = f.dot f) (hv : i.cross f ≠ ⟨0, 0, 0⟩) :
    (M3.ofAlign i f).IsRot ∧ (M3.ofAlign i f).apply i = f ∧ (M3.ofAlign i f).apply (i.cross f) = i.cross f := by
  have hN := align_norm_ne i f hv
  refine ⟨M3.ofQuat_isRot _ _ _ _ hN, ?_, ?_⟩
  · unfold M3.ofAlign
    rw [M3.ofQuat_apply]
    have hc : f.x * f.x + f.y * f.y + f.z * f.z - (i.x * i.x + i.y * i.y + i.z * i.z) = 0 := by
      unfold V3.dot at hlen; linarith
    ext
    · simp only
      rw [div_eq_iff hN]
      unfold V3.cross V3.dot
      simp only
      linear_combination (-(f.x + i.x) * (i.x * i.x + i.y * i.y + i.z * i.z)) * hc
    · simp only
      rw [div_eq_iff hN]
      unfold V3.cross V3.dot
      simp only
      linear_combination (-(f.y + i.y) * (i.x * i.x + i.y * i.y + i.z * i.z)) * hc
    · simp only
      rw [div_eq_iff hN]
      unfold V3.cross V3.dot
      simp only
      linear_combination (-(f.z + i.z) * (i.x * i.x + i.y * i.y + i.z * i.z)) * hc
  · unfold M3.ofAlign
    rw [M3.ofQuat_apply]
    ext
    · simp only
      rw [div_eq_iff hN]
      unfold V3.cross V3.dot
      simp only
      ring
    · simp only
      rw [div_eq_iff hN]
      unfold V3.cross V3.dot
      simp only
      ring
    · simp only
      rw [div_eq_iff hN]
      unfold V3.cross V3.dot
      simp only
      ring

/-- aligning a vector with itself rotated back: `align(f, i)` is the inverse of `align(i, f)` -/
theorem ofAlign_swap (i f : V3) (hlen : i.dot i = f.dot f) : M3.ofAlign f i = (M3.ofAlign i f).tr := by
  unfold M3.ofAlign M3.ofQuat M3.tr V3.cross
  unfold V3.dot at *
  simp only
  rw [← hlen]
  ext <;> simp only <;> ring

end DFV.C18
