import DFV.Lemmas.C16Read
import DFV.Lemmas.C16Scan
/-! C16 helper lemmas, part 5: `_from_vtk (to_vtk f)`, files, the text writer's rounding. -/
namespace DFV.C16
open DFV DFV.Mesh

theorem mkField_ok (m : Mesh) (dim : Nat) (data : NDA (List Rat)) (valid : NDA Bool)
    (vin vd : Option (List String)) (h1 : 1 ≤ dim) (hv : vdimsSet dim vin = .ok vd) :
    mkField m dim data valid vin =
      .ok { mesh := m, nvdim := dim, data := data, valid := valid, vdims := vd,
            vmap := defaultVmap dim m.region.dims vd, unit := none } := by
  unfold mkField
  rw [if_neg (by omega), hv]

/-- the labels the reader hands to the constructor, and what the constructor makes of them -/
theorem vdims_read (f : Fld) (nx ny nz : Nat) (h : WF f nx ny nz) :
    vdimsSet f.nvdim
      (if ((comps f).map fun b => b.name).length ≠ f.nvdim then none else some ((comps f).map fun b => b.name)) =
      .ok (if f.nvdim = 1 then none else f.vdims) := by
  by_cases hnv : 1 < f.nvdim
  · obtain ⟨vs, hvs, hlen, hd, _⟩ := h.labels hnv
    rw [comps_names_eq f hnv vs hvs, if_neg (not_not.mpr hlen), if_neg (by omega), hvs]
    cases vs with
    | nil => simp at hlen; omega
    | cons x l =>
      simp only [vdimsSet]
      rw [if_neg (not_not.mpr hlen), hd]
      simp
  · have h1 : f.nvdim = 1 := by have := h.nv; omega
    rw [comps_scalar f hnv, h1]
    simp [vdimsSet, Fld.defaultVdims]

/-- `_from_vtk` applied to the grid `to_vtk` builds, with whatever the side-car loader
returns on the rebuilt mesh -/
theorem fromCells_toVtk (f : Fld) (nx ny nz : Nat) (h : WF f nx ny nz) (g : Grid) (hg : toVtk f = .ok g)
    (sidecar : Option (List (String × Region))) (m1 : Mesh)
    (hsub : loadSubs { region := plainRegion f.mesh.region.pmin f.mesh.region.pmax, n := [nx, ny, nz],
                       bc := "", subs := [] } sidecar = .ok m1) :
    ∃ f', fromCells g sidecar = .ok f' ∧ f'.mesh = m1 ∧ f'.nvdim = f.nvdim ∧
      f'.vdims = (if f.nvdim = 1 then none else f.vdims) ∧ f'.unit = none ∧
      f'.data.shape = [nx, ny, nz] ∧ f'.valid.shape = [nx, ny, nz] ∧
      ∀ idx, inRange [nx, ny, nz] idx = true →
        f'.data.get idx = (tab f.nvdim fun c => (f.data.get idx).getD c 0) ∧
        f'.valid.get idx = f.valid.get idx := by
  obtain ⟨hgn, hmesh⟩ := meshOf_toVtk f nx ny nz h g hg
  have hg' := hg
  rw [toVtk_ok f nx ny nz h] at hg'
  injection hg' with hg'
  have hcell : g.cell = normVArr f :: (comps f ++ [fieldVArr f, validVArr f]) := by rw [← hg']
  have hscan := scan_toVtk f nx ny nz h
  have hfl : (fieldVArr f).vals.length = natProd [nx, ny, nz] * f.nvdim :=
    flat4_length (array4 f) nx ny nz f.nvdim (array4_shape f nx ny nz h.dshape)
  have hvl : (validVArr f).vals.length = natProd [nx, ny, nz] :=
    flat3_length (validInt f) nx ny nz (by simp [validInt, NDA.map, h.vshape])
  obtain ⟨value, hvalue⟩ := unflat4_ok nx ny nz f.nvdim _ hfl
  obtain ⟨vld, hvld⟩ := unflat3_ok nx ny nz _ hvl
  have hmk := mkField_ok m1 f.nvdim (cellsOf value [nx, ny, nz] f.nvdim) (toBool vld [nx, ny, nz]) _ _ h.nv
    (vdims_read f nx ny nz h)
  refine ⟨{ mesh := m1, nvdim := f.nvdim, data := cellsOf value [nx, ny, nz] f.nvdim,
             valid := toBool vld [nx, ny, nz], vdims := if f.nvdim = 1 then none else f.vdims,
             vmap := defaultVmap f.nvdim m1.region.dims (if f.nvdim = 1 then none else f.vdims), unit := none },
    ?_, rfl, rfl, rfl, rfl, rfl, rfl, ?_⟩
  · unfold fromCells
    rw [hcell, hscan]
    simp only [getD_field]
    have e1 : (fieldVArr f).ncomp = f.nvdim := rfl
    rw [hgn, e1, hvalue]
    simp only [validOf, hcell, getD_valid, hgn, hvld]
    rw [hgn] at hmesh
    rw [hmesh]
    simp only [hsub]
    exact hmk
  · intro idx hi
    obtain ⟨i, j, k, rfl, _, _, _⟩ := inRange3_cases nx ny nz idx hi
    constructor
    · simp only [cellsOf]
      apply tab_congr
      intro c hc
      have := unflat4_get nx ny nz f.nvdim _ value hvalue i j k c
      simp only [List.cons_append, List.nil_append]
      rw [this]
      have h2 := flat4_getD (array4 f) nx ny nz f.nvdim (array4_shape f nx ny nz h.dshape) _ hi c hc 0
      have e : (fieldVArr f).vals = flat4 (array4 f) := rfl
      rw [e, h2]
      exact array4_get f nx ny nz h.dshape i j k c
    · simp only [toBool]
      rw [unflat3_get nx ny nz _ vld hvld i j k]
      have e : (validVArr f).vals = flat3 (validInt f) := rfl
      rw [e, flat3_getD (validInt f) nx ny nz (by simp [validInt, NDA.map, h.vshape]) _ hi]
      simp only [validInt, NDA.map]
      by_cases hb : f.valid.get [i, j, k] = true
      · simp [hb]
      · have hb' : f.valid.get [i, j, k] = false := by simpa using hb
        simp [hb']

/-! ## files -/

theorem repOf_cases (s : String) :
    (s = "xml" ∧ repOf s = .ok .xml) ∨ ((s = "bin" ∨ s = "bin8") ∧ repOf s = .ok .bin) ∨
    (s = "txt" ∧ repOf s = .ok .txt) ∨
    (s ≠ "xml" ∧ s ≠ "bin" ∧ s ≠ "bin8" ∧ s ≠ "txt" ∧ repOf s = .error .value) := by
  unfold repOf
  by_cases h1 : s = "xml"
  · left; simp [h1]
  · by_cases h2 : s = "txt"
    · right; right; left; subst h2; simp
    · by_cases h3 : s = "bin"
      · right; left; subst h3; simp
      · by_cases h4 : s = "bin8"
        · right; left; subst h4; simp
        · right; right; right
          simp [h1, h2, h3, h4]

/-! ## the text writer: value-wise rounding -/

theorem mapGrid_id (g : Grid) : mapGrid id g = g := by
  unfold mapGrid
  cases g with
  | mk dims coords cell =>
    simp only [List.map_id_fun', id_eq, Grid.mk.injEq, true_and]
    constructor
    · conv_rhs => rw [← List.map_id coords]
      apply List.map_congr_left
      intro X _; simp
    · conv_rhs => rw [← List.map_id cell]
      apply List.map_congr_left
      intro a _
      split <;> simp

/-- a grid whose floating numbers are all fixed by the rounding is written and read exactly -/
theorem mapGrid_fixed (r : Rat → Rat) (g : Grid)
    (hc : ∀ X ∈ g.coords, ∀ x ∈ X, r x = x)
    (ha : ∀ a ∈ g.cell, a.int = false → ∀ x ∈ a.vals, r x = x) : mapGrid r g = g := by
  unfold mapGrid
  cases g with
  | mk dims coords cell =>
    simp only [Grid.mk.injEq, true_and]
    constructor
    · conv_rhs => rw [← List.map_id coords]
      apply List.map_congr_left
      intro X hX
      conv_rhs => rw [id, ← List.map_id X]
      apply List.map_congr_left
      intro x hx
      exact hc X hX x hx
    · conv_rhs => rw [← List.map_id cell]
      apply List.map_congr_left
      intro a hA
      by_cases hi : a.int = true
      · simp [hi]
      · have hi' : a.int = false := by simpa using hi
        simp only [hi', Bool.false_eq_true, if_false, id]
        have : a.vals.map r = a.vals := by
          conv_rhs => rw [← List.map_id a.vals]
          apply List.map_congr_left
          intro x hx
          exact ha a hA hi' x hx
        rw [this]
        cases a
        simp_all

end DFV.C16
