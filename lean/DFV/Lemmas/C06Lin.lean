import DFV.Lemmas.C06Fld
/-! Lemmas for C06: the spec values `ival` are linear in the field, act per component and do
not depend on where the mesh sits. -/
namespace DFV.C06
open DFV

theorem cget_lin (α β : Rat) (f g : Fld) (i : List Nat) (c : Nat) (hc : c < f.nvdim) :
    cget (lin α f β g).data i c = α * cget f.data i c + β * cget g.data i c := by
  simp only [lin, cget]
  rw [getD_tab _ _ _ _ hc]

theorem ival_lin (α β : Rat) (f g : Fld) (hm : g.mesh = f.mesh) (hs : g.data.shape = f.data.shape)
    (dir : Dir) (cum : Bool) (i : List Nat) (c : Nat) (hc : c < f.nvdim) :
    ival (lin α f β g) dir cum i c = α * ival f dir cum i c + β * ival g dir cum i c := by
  have hcg : ∀ t, cget (lin α f β g).data t c = α * cget f.data t c + β * cget g.data t c :=
    fun t => cget_lin α β f g t c hc
  cases dir with
  | none =>
    simp only [ival, hm, hs]
    show dV f.mesh * nestSum f.data.shape (fun t => cget (lin α f β g).data t c) = _
    simp only [hcg]
    rw [nestSum_add, nestSum_mul_left, nestSum_mul_left]; ring
  | name d =>
    have hlm : (lin α f β g).mesh = f.mesh := rfl
    simp only [ival, hm, hlm]
    show (match f.mesh.region.dim2index d with
      | .ok ax => _
      | .error _ => (0 : Rat)) = _
    cases f.mesh.region.dim2index d with
    | error e => simp
    | ok ax =>
      simp only
      cases cum with
      | true =>
        simp only [if_true, hcg]
        rw [sumTo_lin]; ring
      | false =>
        simp only [Bool.false_eq_true, if_false, hcg]
        rw [sumTo_lin]; ring
  | names ds => simp [ival]
  | other => simp [ival]


theorem cget_compFld (f : Fld) (c : Nat) (i : List Nat) :
    cget (compFld f c).data i 0 = cget f.data i c := by
  simp [compFld, cget]

theorem ival_comp (f : Fld) (c : Nat) (dir : Dir) (cum : Bool) (i : List Nat) :
    ival (compFld f c) dir cum i 0 = ival f dir cum i c := by
  have hlm : (compFld f c).mesh = f.mesh := rfl
  have hls : (compFld f c).data.shape = f.data.shape := rfl
  cases dir with
  | none => simp only [ival, hlm, hls, cget_compFld]
  | name d =>
    simp only [ival, hlm, cget_compFld]
  | names ds => simp [ival]
  | other => simp [ival]

theorem shift_lo (t : List Rat) (r : Region) (a : Nat) (ha : a < r.pmin.length) :
    (shiftRegion t r).lo a = r.lo a + t.getD a 0 := by
  simp only [shiftRegion, Region.lo]
  rw [getD_tab _ _ _ _ ha]

theorem shift_hi (t : List Rat) (r : Region) (a : Nat) (ha : a < r.pmax.length) :
    (shiftRegion t r).hi a = r.hi a + t.getD a 0 := by
  simp only [shiftRegion, Region.hi]
  rw [getD_tab _ _ _ _ ha]

theorem translate_cellAt (t : List Rat) (f : Fld) (hf : f.mesh.Inv) (a : Nat) (ha : a < f.mesh.ndim) :
    (translate t f).mesh.cellAt a = f.mesh.cellAt a := by
  have h1 : a < f.mesh.region.pmin.length := ha
  have h2 : a < f.mesh.region.pmax.length := by rw [hf.1.2.1]; exact h1
  simp only [translate, Mesh.cellAt, Region.edge, Mesh.nAt]
  rw [shift_lo t _ a h1, shift_hi t _ a h2]
  ring_nf

theorem translate_dV (t : List Rat) (f : Fld) (hf : f.mesh.Inv) : dV (translate t f).mesh = dV f.mesh := by
  unfold dV Mesh.cell
  have : (translate t f).mesh.ndim = f.mesh.ndim := by
    simp [translate, Mesh.ndim, Region.ndim, shiftRegion]
  rw [this]
  congr 1
  exact tab_congr _ _ _ fun a ha => translate_cellAt t f hf a ha

theorem ival_translate (t : List Rat) (f : Fld) (hf : f.mesh.Inv) (dir : Dir) (cum : Bool) (i : List Nat) (c : Nat) :
    ival (translate t f) dir cum i c = ival f dir cum i c := by
  have hd : (translate t f).data = f.data := rfl
  cases dir with
  | none => simp only [ival, hd, translate_dV t f hf]
  | name d =>
    have hdi : (translate t f).mesh.region.dim2index d = f.mesh.region.dim2index d := rfl
    have hn : ∀ a, (translate t f).mesh.nAt a = f.mesh.nAt a := fun a => rfl
    simp only [ival, hd, hdi, hn]
    cases hax : f.mesh.region.dim2index d with
    | error e => rfl
    | ok ax =>
      obtain ⟨haxlt, _⟩ := dim2index_ok _ _ _ hax
      have : ax < f.mesh.ndim := by
        show ax < f.mesh.region.pmin.length
        rw [← hf.1.2.2.1]; exact haxlt
      simp only [translate_cellAt t f hf ax this]
  | names ds => simp [ival]
  | other => simp [ival]


theorem translate_wf (t : List Rat) (f : Fld) (hf : WF f) : WF (translate t f) := by
  obtain ⟨⟨⟨hpos, hmax, hdims, hunits, hdup, hlt⟩, hnlen, hnpos⟩, hs⟩ := hf
  refine ⟨⟨⟨?_, ?_, ?_, ?_, hdup, ?_⟩, ?_, ?_⟩, hs⟩
  · simp [translate, shiftRegion]; exact hpos
  · simp [translate, shiftRegion]; exact hmax
  · simp [translate, shiftRegion]; exact hdims
  · simp [translate, shiftRegion]; exact hunits
  · intro a ha
    have ha' : a < f.mesh.region.pmin.length := by simpa [translate, shiftRegion] using ha
    show (shiftRegion t f.mesh.region).lo a < (shiftRegion t f.mesh.region).hi a
    rw [shift_lo t _ a ha', shift_hi t _ a (by rw [hmax]; exact ha')]
    have := hlt a ha'
    linarith
  · show f.mesh.n.length = (shiftRegion t f.mesh.region).pmin.length
    simp [shiftRegion]; exact hnlen
  · intro a ha
    have ha' : a < f.mesh.ndim := by
      have : (translate t f).mesh.ndim = f.mesh.ndim := by
        simp [translate, Mesh.ndim, Region.ndim, shiftRegion]
      omega
    exact hnpos a ha'

end DFV.C06
