import DFV.Lemmas.C03n
/-! C03 helper lemmas, part r: `<<` accepts two fields on one mesh; labels are concatenated
when unique, the mappings merged when they cover all components. -/
namespace DFV.C03
open DFV

abbrev keys (m : VMap) : List String := m.map (·.1)

/-! ## `dict.update` -/

theorem keys_dictSet (m : VMap) (k : String) (v : Option String) :
    keys (dictSet m k v) = if k ∈ keys m then keys m else keys m ++ [k] := by
  unfold dictSet
  by_cases h : k ∈ keys m
  · have hany : m.any (fun p => p.1 == k) = true := by
      simp only [keys, List.mem_map] at h
      obtain ⟨p, hp, hk⟩ := h
      exact List.any_eq_true.mpr ⟨p, hp, by simp [hk]⟩
    rw [if_pos hany, if_pos h]
    simp only [keys, List.map_map]
    apply List.map_congr_left
    intro p _
    simp only [Function.comp]
    split
    · rename_i hpk; exact (by simpa using hpk : p.1 = k).symm
    · rfl
  · have hany : ¬ m.any (fun p => p.1 == k) = true := by
      intro ha
      obtain ⟨p, hp, hk⟩ := List.any_eq_true.mp ha
      exact h (List.mem_map.mpr ⟨p, hp, by simpa using hk⟩)
    rw [if_neg hany, if_neg h]
    simp [keys]

theorem dictSet_length (m : VMap) (k : String) (v : Option String) :
    (dictSet m k v).length = if k ∈ keys m then m.length else m.length + 1 := by
  have := congrArg List.length (keys_dictSet m k v)
  simp only [keys, List.length_map] at this
  rw [this]
  split <;> simp

theorem dictSet_new (m : VMap) (k : String) (v : Option String) (h : k ∉ keys m) : dictSet m k v = m ++ [(k, v)] := by
  unfold dictSet
  have hany : ¬ m.any (fun p => p.1 == k) = true := by
    intro ha
    obtain ⟨p, hp, hk⟩ := List.any_eq_true.mp ha
    exact h (List.mem_map.mpr ⟨p, hp, by simpa using hk⟩)
  rw [if_neg hany]

theorem dictUpdate_cons (m : VMap) (p : String × Option String) (u : VMap) :
    dictUpdate m (p :: u) = dictUpdate (dictSet m p.1 p.2) u := rfl

theorem dictUpdate_nil (m : VMap) : dictUpdate m [] = m := rfl

theorem dictUpdate_length_le (u : VMap) : ∀ m : VMap, (dictUpdate m u).length ≤ m.length + u.length := by
  induction u with
  | nil => intro m; simp [dictUpdate_nil]
  | cons p u ih =>
    intro m
    rw [dictUpdate_cons]
    have h1 := ih (dictSet m p.1 p.2)
    have h2 := dictSet_length m p.1 p.2
    simp only [List.length_cons]
    split at h2 <;> omega

/-- the merged dict has as many entries as both together only if no key repeats; then it is
the concatenation -/
theorem dictUpdate_full (u : VMap) : ∀ m : VMap, (dictUpdate m u).length = m.length + u.length →
    dictUpdate m u = m ++ u ∧ (keys u).Nodup ∧ ∀ x ∈ keys u, x ∉ keys m := by
  induction u with
  | nil => intro m _; simp [dictUpdate_nil]
  | cons p u ih =>
    intro m h
    rw [dictUpdate_cons] at h ⊢
    have h1 := dictUpdate_length_le u (dictSet m p.1 p.2)
    have h2 := dictSet_length m p.1 p.2
    simp only [List.length_cons] at h
    have hk : p.1 ∉ keys m := by
      intro hin
      rw [if_pos hin] at h2
      omega
    rw [dictSet_new m p.1 p.2 hk] at h ⊢
    obtain ⟨e, hnd, hdis⟩ := ih (m ++ [(p.1, p.2)]) (by simp only [List.length_append, List.length_cons, List.length_nil] at h ⊢; omega)
    refine ⟨by rw [e]; simp, ?_, ?_⟩
    · simp only [keys, List.map_cons, List.nodup_cons]
      refine ⟨?_, hnd⟩
      intro hin
      have := hdis p.1 hin
      simp [keys] at this
    · intro x hx
      simp only [keys, List.map_cons, List.mem_cons] at hx
      rcases hx with rfl | hx
      · exact hk
      · have := hdis x hx
        simp only [keys, List.map_append, List.map_cons, List.map_nil, List.mem_append, List.mem_singleton, not_or] at this
        exact this.1

/-! ## what `MetaStable` says about the mapping -/

theorem MetaStable.vmap_cases {f : CF} (hs : MetaStable f) :
    f.vmap = [] ∨ ∃ l, f.vdims = some l ∧ sameKeys (keys f.vmap) l = true := by
  have h := hs.2
  simp only [vmapSet] at h
  split at h
  · injection h with h; exact Or.inl h.symm
  · split at h
    · cases hv : f.vdims with
      | none => rw [hv] at h; simp at h
      | some l =>
        rw [hv] at h
        simp only at h
        split at h
        · rename_i hk; exact Or.inr ⟨l, rfl, hk⟩
        · cases h
    · rename_i h0
      left
      exact List.eq_nil_of_length_eq_zero (by omega)

theorem sameKeys_iff (ks vs : List String) :
    sameKeys ks vs = true ↔ ks.length = vs.length ∧ (∀ x ∈ ks, x ∈ vs) ∧ (∀ x ∈ vs, x ∈ ks) := by
  simp only [sameKeys, Bool.and_eq_true, decide_eq_true_eq, List.all_eq_true, List.contains_iff_mem, and_assoc]

theorem MetaStable.vmap_length {f : CF} (hs : MetaStable f) (hp : 0 < f.nvdim) : f.vmap.length ≤ f.nvdim := by
  rcases hs.vmap_cases with h | ⟨l, hl, hk⟩
  · rw [h]; simp
  · have := ((sameKeys_iff _ _).mp hk).1
    simp only [keys, List.length_map] at this
    rw [this, (hs.labels hp l hl).2.1]

/-! ## `np.stack` of the component arrays -/

theorem npStack_shape (n : List Nat) (A B : NDA GQ) (a b : Nat) (ha : 0 < a) (hA : A.shape.dropLast = n)
    (hB : B.shape.dropLast = n) :
    ∃ res, npStack ((List.range a).map (takeLast A) ++ (List.range b).map (takeLast B)) = .ok res ∧
      res.shape = n ++ [a + b] := by
  unfold npStack
  have hhead : ((List.range a).map (takeLast A) ++ (List.range b).map (takeLast B)).head? = some (takeLast A 0) := by
    cases a with
    | zero => omega
    | succ a' => simp [List.range_succ_eq_map]
  rw [hhead]
  simp only
  have hall : ((List.range a).map (takeLast A) ++ (List.range b).map (takeLast B)).all
      (fun q => decide (q.shape = (takeLast A 0).shape)) = true := by
    simp only [List.all_append, List.all_map, Bool.and_eq_true, List.all_eq_true, Function.comp, decide_eq_true_eq]
    refine ⟨fun c _ => rfl, fun c _ => ?_⟩
    show B.shape.dropLast = A.shape.dropLast
    rw [hA, hB]
  rw [if_pos hall]
  refine ⟨_, rfl, ?_⟩
  show A.shape.dropLast ++ [_] = _
  rw [hA]
  simp

/-- labels that `<<` hands to the constructor -/
def shlVdims (va vb : Option (List String)) : Option (List String) :=
  match va, vb with
  | some a, some b => if hasDup (a ++ b) then none else some (a ++ b)
  | _, _ => none

/-- labels of the result of `<<`: the concatenation, or the default labels -/
def shlLabels (va vb : Option (List String)) (nv : Nat) : Option (List String) :=
  match shlVdims va vb with
  | none => Fld.defaultVdims nv
  | some l => some l

theorem shlVdims_accepts (f o : CF) (hf : MetaStable f) (ho : MetaStable o) (hpf : 0 < f.nvdim) (hpo : 0 < o.nvdim) :
    ∃ vd', vdimsSet (f.nvdim + o.nvdim) (shlVdims f.vdims o.vdims) = .ok vd' ∧
      vd' = shlLabels f.vdims o.vdims (f.nvdim + o.nvdim) ∧ shlVdims f.vdims o.vdims ≠ some [] := by
  unfold shlLabels shlVdims
  cases hfv : f.vdims with
  | none => exact ⟨_, rfl, rfl, by simp⟩
  | some a =>
    cases hov : o.vdims with
    | none => exact ⟨_, rfl, rfl, by simp⟩
    | some b =>
      simp only
      obtain ⟨hane, halen, _⟩ := hf.labels hpf a hfv
      obtain ⟨_, hblen, _⟩ := ho.labels hpo b hov
      by_cases hd : hasDup (a ++ b) = true
      · rw [if_pos hd]; exact ⟨_, rfl, rfl, by simp⟩
      · rw [if_neg hd]
        have hne : a ++ b ≠ [] := by simp [hane]
        refine ⟨some (a ++ b), vdimsSet_some_ok _ _ hne (by simp [halen, hblen]) (by simpa using hd), rfl, ?_⟩
        intro h; injection h with h; exact hne h

/-- **`<<` accepts two fields on one mesh.**  The result has `k + l` components; its labels
are the concatenation when both operands are labelled and no label repeats, the default
labels otherwise; its mapping is the merged dict when that covers all `k + l` components,
the default mapping otherwise; no unit. -/
theorem shlFF_accepts (M : Mesh) (hM : MeshOk M) (f o : CF) (hf : Good M f) (ho : Good M o) :
    ∃ g, shlFF f o = .ok g ∧ Good M g ∧ g.nvdim = f.nvdim + o.nvdim ∧ g.unit = none ∧
      g.vdims = shlLabels f.vdims o.vdims (f.nvdim + o.nvdim) ∧
      (if (dictUpdate f.vmap o.vmap).length = f.nvdim + o.nvdim then g.vmap = dictUpdate f.vmap o.vmap
       else vmapSet (f.nvdim + o.nvdim) M.region.ndim g.vdims M.region.dims none = .ok g.vmap) ∧
      g.kind = (f.kind.join o.kind).ctor := by
  obtain ⟨hwf, hsf, hmf⟩ := hf
  obtain ⟨hwo, hso, hmo⟩ := ho
  have hpf := hwf.2.2
  have hpo := hwo.2.2
  have hme : meshEq f.mesh o.mesh = true := by rw [hmf, hmo]; exact meshEq_self M
  obtain ⟨res, hres, hrs⟩ := npStack_shape M.n f.data o.data f.nvdim o.nvdim hpf
    (by rw [hwf.1, hmf]; simp) (by rw [hwo.1, hmo]; simp)
  obtain ⟨vd', hvd, hvd', hvne⟩ := shlVdims_accepts f o hsf hso hpf hpo
  have hvshape : ∀ v, some (NDA.zipWith (fun x y => x && y) f.valid o.valid) = some v → v.shape = M.n := by
    intro v hv; injection hv with hv; subst hv; show f.valid.shape = _; rw [hwf.2.1, hmf]
  -- the mapping
  have hvm : ∃ vm', vmapSet (f.nvdim + o.nvdim) M.region.ndim vd' M.region.dims
      (if (dictUpdate f.vmap o.vmap).length ≠ f.nvdim + o.nvdim then none else some (dictUpdate f.vmap o.vmap)) = .ok vm' ∧
      (if (dictUpdate f.vmap o.vmap).length = f.nvdim + o.nvdim then vm' = dictUpdate f.vmap o.vmap
       else vmapSet (f.nvdim + o.nvdim) M.region.ndim vd' M.region.dims none = .ok vm') := by
    by_cases hlen : (dictUpdate f.vmap o.vmap).length = f.nvdim + o.nvdim
    · rw [if_neg (by simpa using hlen)]
      have h1 := hsf.vmap_length hpf
      have h2 := hso.vmap_length hpo
      have h3 := dictUpdate_length_le o.vmap f.vmap
      obtain ⟨heq, hnd, hdis⟩ := dictUpdate_full o.vmap f.vmap (by omega)
      have hfl : f.vmap.length = f.nvdim := by omega
      have hol : o.vmap.length = o.nvdim := by omega
      rcases hsf.vmap_cases with h0 | ⟨la, hla, hka⟩
      · rw [h0] at hfl; simp at hfl; omega
      rcases hso.vmap_cases with h0 | ⟨lb, hlb, hkb⟩
      · rw [h0] at hol; simp at hol; omega
      obtain ⟨ka1, ka2, ka3⟩ := (sameKeys_iff _ _).mp hka
      obtain ⟨kb1, kb2, kb3⟩ := (sameKeys_iff _ _).mp hkb
      obtain ⟨_, _, hda⟩ := hsf.labels hpf la hla
      obtain ⟨_, _, hdb⟩ := hso.labels hpo lb hlb
      have hnodup : hasDup (la ++ lb) = false := by
        rw [hasDup_false_iff, List.nodup_append]
        refine ⟨(hasDup_false_iff _).mp hda, (hasDup_false_iff _).mp hdb, ?_⟩
        intro x hx y hy hxy
        subst hxy
        exact hdis x (kb3 x hy) (ka3 x hx)
      have hvdv : vd' = some (la ++ lb) := by
        rw [hvd']; unfold shlLabels shlVdims; rw [hla, hlb]; simp only; rw [if_neg (by simp [hnodup])]
      refine ⟨dictUpdate f.vmap o.vmap, ?_, by rw [if_pos hlen]⟩
      have hsk : sameKeys (keys (dictUpdate f.vmap o.vmap)) (la ++ lb) = true := by
        rw [heq, sameKeys_iff]
        simp only [keys, List.map_append, List.length_append, List.mem_append]
        refine ⟨by simp only [keys] at ka1 kb1; rw [ka1, kb1], ?_, ?_⟩
        · rintro x (hx | hx)
          · exact Or.inl (ka2 x hx)
          · exact Or.inr (kb2 x hx)
        · rintro x (hx | hx)
          · exact Or.inl (ka3 x hx)
          · exact Or.inr (kb3 x hx)
      simp only [vmapSet]
      rw [if_neg (by omega), if_pos (by omega), hvdv]
      simp only [keys] at hsk
      simp only [hsk, if_true]
    · rw [if_pos (by simpa using hlen)]
      have hnone : vd' = none → f.nvdim + o.nvdim = 1 ∨ f.nvdim + o.nvdim ≠ M.region.ndim := by
        intro h0
        rw [hvd'] at h0
        unfold shlLabels at h0
        cases hsv : shlVdims f.vdims o.vdims with
        | some l => rw [hsv] at h0; cases h0
        | none =>
          rw [hsv] at h0
          simp only at h0
          rcases defaultVdims_spec (f.nvdim + o.nvdim) (by omega) with ⟨h1, _⟩ | ⟨_, x, l, hd, _⟩
          · omega
          · rw [hd] at h0; cases h0
      obtain ⟨m, hm⟩ := vmapSet_none_accepts _ _ _ _ hnone
      exact ⟨m, hm, by rw [if_neg hlen]; exact hm⟩
  obtain ⟨vm', hvm1, hvm2⟩ := hvm
  obtain ⟨g, hg, hgm, hgn, hgvd, hgvm, hgu, hgk, hgwf⟩ :=
    mkField_accepts M (f.nvdim + o.nvdim) res (f.kind.join o.kind) (shlVdims f.vdims o.vdims)
      (some (NDA.zipWith (fun x y => x && y) f.valid o.valid)) _ none (by omega) hrs hvshape vd' vm' hvd hvm1
  have hstable : MetaStable g := mkField_stable M _ _ _ _ _ _ _ g hM.1 hvne hg
  refine ⟨g, ?_, ⟨hgwf, hstable, hgm⟩, hgn, hgu, by rw [hgvd, hvd'], ?_, hgk⟩
  · unfold shlFF
    rw [if_neg (by simp [hme]), hres, hmf]
    exact hg
  · rw [hgvd, hgvm]; exact hvm2

/-- "stacking keeps labels when unique" -/
theorem shlLabels_unique (a b : List String) (nv : Nat) (hd : hasDup (a ++ b) = false) :
    shlLabels (some a) (some b) nv = some (a ++ b) := by
  unfold shlLabels shlVdims; simp [hd]

/-- mappings over disjoint label sets are concatenated -/
theorem dictUpdate_disjoint (u : VMap) : ∀ m : VMap, (keys u).Nodup → (∀ x ∈ keys u, x ∉ keys m) →
    dictUpdate m u = m ++ u := by
  induction u with
  | nil => intro m _ _; simp [dictUpdate_nil]
  | cons p u ih =>
    intro m hnd hdis
    rw [dictUpdate_cons, dictSet_new m p.1 p.2 (hdis p.1 (by simp [keys]))]
    simp only [keys, List.map_cons, List.nodup_cons] at hnd
    rw [ih (m ++ [(p.1, p.2)]) hnd.2 ?_]
    · simp
    · intro x hx
      simp only [keys, List.map_append, List.map_cons, List.map_nil, List.mem_append, List.mem_singleton, not_or]
      refine ⟨hdis x (by simp only [keys, List.map_cons, List.mem_cons]; exact Or.inr hx), ?_⟩
      rintro rfl
      exact hnd.1 hx

end DFV.C03
