import DFV.Model.C10Raw
import DFV.Lemmas.C10Weak
import DFV.Lemmas.C10Dict
import DFV.Lemmas.C10Num
import DFV.Lemmas.C10LegacyIff
/-! C10, raw layer: the reader's accesses on the file the writer leaves; missing, extra and
retyped entries; widths; a directory of files. -/
namespace DFV.C10
open DFV

/-! ## plumbing -/

theorem bind_error {α β : Type} (e : Err) (k : α → M β) : (Except.error e : M α).bind k = .error e := rfl

theorem bind_all_error {α β : Type} (x : M α) (k : α → M β) (h : ∀ a, ∃ e, k a = .error e) :
    ∃ e, x.bind k = .error e := by
  cases x with
  | error e => exact ⟨e, rfl⟩
  | ok a => exact h a

theorem bind_is_error {α β : Type} (x : M α) (k : α → M β) (h : ∃ e, x = .error e) : ∃ e, x.bind k = .error e := by
  obtain ⟨e, rfl⟩ := h
  exact ⟨e, rfl⟩

/-! ## every entry the writer emits is read back -/

theorem region_parse_toRaw (h : H5Region) : h.toRaw.parse = .ok h := rfl

theorem mesh_parse_toRaw (h : H5Mesh) : h.toRaw.parse = .ok h := by
  obtain ⟨region, n, bc, subs⟩ := h
  cases subs <;> rfl

theorem field_parse_toRaw (w : W) (h : H5Field) : (h.toRaw w).parse = .ok (w, h) := by
  unfold H5Field.toRaw RawField.parse
  simp only [AV.get, bind_ok, optGet, mesh_parse_toRaw]

/-- the reader on the raw view of a typed store is the typed reader -/
theorem rawLoad_toRaw (w : W) (ex : List String) (h : H5File) : rawLoad (h.toRaw w ex) = h5Load h := by
  cases h with
  | unversioned l => rfl
  | versioned v t fld =>
    unfold rawLoad H5File.toRaw RawFile.parse
    simp only [AV.get, bind_ok, optGet, field_parse_toRaw]
    by_cases ht : t = "discretisedfield.Field"
    · by_cases hv : v = "0.1"
      · simp [ht, hv]
      · simp [ht, hv, h5Load]
    · simp [ht, h5Load]

theorem parse_toRaw_kind (w : W) (ex : List String) (v t : String) (fld : H5Field) (wh : W × H5File)
    (h : (H5File.toRaw w ex (.versioned v t fld)).parse = .ok wh) : wh = (w, .versioned v t fld) := by
  unfold H5File.toRaw RawFile.parse at h
  simp only [AV.get, bind_ok, optGet, field_parse_toRaw] at h
  split at h
  · cases h
  · split at h
    · cases h
    · cases h; rfl

/-- with widths -/
theorem rawLoadW_rawSave (x : WFld) (hf : x.f.Inv) :
    rawLoadW (rawSave x) = .ok { f := reread x.f, w := widen x.f.data.buf.kind x.w } := by
  unfold rawLoadW rawSave h5Save H5File.toRaw RawFile.parse
  simp only [AV.get, bind_ok, optGet, field_parse_toRaw, ne_eq, not_true_eq_false, if_false]
  simp only [h5Load, ne_eq, not_true_eq_false, if_false, fieldLoad_fieldSave_gen x.f hf, bind_ok]
  rfl

/-! ## missing entries -/

theorem inv_drop_subs (f : TFld) (hf : f.Inv) : ({ f with mesh := { f.mesh with subs := [] } } : TFld).Inv := by
  obtain ⟨hm, h2, h3, h4, h5, h6, h7⟩ := (TFld.inv_iff f).mp hf
  obtain ⟨m1, m2, m3, m4, m5, _, _⟩ := (TMesh.inv_iff f.mesh).mp hm
  rw [TFld.inv_iff]
  refine ⟨?_, h2, h3, h4, h5, h6, h7⟩
  rw [TMesh.inv_iff]
  exact ⟨m1, m2, m3, m4, m5, rfl, fun p hp => by cases hp⟩

/-- deleting the corner table (with or without the names) leaves the file of the same field
without subregions -/
theorem del_table_eq (x : WFld) :
    ((rawSave x).del "field/mesh/subregions").parse =
      .ok (x.w, h5Save { x.f with mesh := { x.f.mesh with subs := [] } }) := by
  simp only [rawSave, h5Save, H5File.toRaw, RawFile.del, RawField.del, RawMesh.del, H5Field.toRaw, H5Mesh.toRaw,
    Option.map_some, String.reduceEq, if_false, if_true]
  unfold RawFile.parse
  simp only [AV.get, bind_ok, optGet, ne_eq, not_true_eq_false, if_false, RawField.parse, RawMesh.parse, RawMesh.subsParse,
    region_parse_toRaw]
  rfl

/-- deleting any of the names the reader needs makes the reader fail -/
theorem del_required_error (x : WFld) (name : String) (h : name ∈ requiredNames) :
    ∃ e, ((rawSave x).del name).parse = .error e := by
  simp only [requiredNames, List.mem_cons, List.not_mem_nil, or_false] at h
  rcases h with rfl | rfl | rfl | rfl | rfl | rfl | rfl | rfl | rfl | rfl | rfl | rfl | rfl | rfl | rfl | rfl | rfl | rfl
  all_goals
    first
    | (simp only [rawSave, h5Save, H5File.toRaw, RawFile.del, RawField.del, RawMesh.del, RawRegion.del, H5Field.toRaw, H5Mesh.toRaw,
        H5Region.toRaw, Option.map_some, String.reduceEq, if_false, if_true]
       exact ⟨_, rfl⟩)
    | (simp only [rawSave, h5Save, H5File.toRaw, RawFile.del, RawField.del, RawMesh.del, RawRegion.del, H5Field.toRaw, H5Mesh.toRaw,
        H5Region.toRaw, Option.map_some, String.reduceEq, if_false, if_true]
       generalize (fieldSave x.f).mesh.subs = s
       cases s <;> exact ⟨_, rfl⟩)

theorem parse_rawSave (x : WFld) : (rawSave x).parse = .ok (x.w, h5Save x.f) := by
  unfold rawSave h5Save H5File.toRaw RawFile.parse
  simp only [AV.get, bind_ok, optGet, field_parse_toRaw, ne_eq, not_true_eq_false, if_false]

/-- deleting only `subregion_names`: a `KeyError` when there is a corner table, nothing otherwise
(a file without subregions has neither dataset) -/
theorem del_names_eq (x : WFld) :
    ((rawSave x).del "field/mesh/subregion_names").parse =
      if x.f.mesh.subs = [] then (rawSave x).parse else .error .key := by
  rw [parse_rawSave]
  simp only [rawSave, h5Save, H5File.toRaw, RawFile.del, RawField.del, RawMesh.del, H5Field.toRaw, H5Mesh.toRaw,
    Option.map_some, String.reduceEq, if_false, if_true]
  unfold RawFile.parse
  simp only [AV.get, bind_ok, optGet, ne_eq, not_true_eq_false, if_false, RawField.parse, RawMesh.parse, RawMesh.subsParse,
    region_parse_toRaw]
  cases hs : x.f.mesh.subs with
  | nil =>
    have : (fieldSave x.f).mesh.subs = none := by simp [fieldSave, meshSave, subsSave, hs]
    simp only [this, Option.map_none, if_true]
    simp only [fieldSave, meshSave] at this ⊢
    rw [this]
    rfl
  | cons a t =>
    have : ∃ s, (fieldSave x.f).mesh.subs = some s := by simp [fieldSave, meshSave, subsSave, hs]
    obtain ⟨s, hs'⟩ := this
    simp only [hs', Option.map_some, if_false, reduceCtorEq]
    rfl

/-! ## retyped entries -/

theorem RawRegion.parse_other (r : RawRegion)
    (h : r.pmin = .other ∨ r.pmax = .other ∨ r.dims = .other ∨ r.units = .other ∨ r.tol = .other) :
    ∃ e, r.parse = .error e := by
  unfold RawRegion.parse
  rcases h with h | h | h | h | h
  · rw [h]; exact ⟨_, rfl⟩
  · refine bind_all_error _ _ fun _ => ?_
    rw [h]; exact ⟨_, rfl⟩
  · refine bind_all_error _ _ fun _ => bind_all_error _ _ fun _ => ?_
    rw [h]; exact ⟨_, rfl⟩
  · refine bind_all_error _ _ fun _ => bind_all_error _ _ fun _ => bind_all_error _ _ fun _ => bind_all_error _ _ fun _ => ?_
    rw [h]; exact ⟨_, rfl⟩
  · refine bind_all_error _ _ fun _ => bind_all_error _ _ fun _ => bind_all_error _ _ fun _ => bind_all_error _ _ fun _ =>
      bind_all_error _ _ fun _ => ?_
    rw [h]; exact ⟨_, rfl⟩

theorem RawMesh.parse_other (m : RawMesh)
    (h : m.n = .other ∨ m.bc = .other ∨ ∃ g, m.region = some g ∧
      (g.pmin = .other ∨ g.pmax = .other ∨ g.dims = .other ∨ g.units = .other ∨ g.tol = .other)) :
    ∃ e, m.parse = .error e := by
  unfold RawMesh.parse
  rcases h with h | h | ⟨g, hg, h⟩
  · refine bind_all_error _ _ fun _ => bind_all_error _ _ fun _ => bind_all_error _ _ fun _ => ?_
    rw [h]; exact ⟨_, rfl⟩
  · refine bind_all_error _ _ fun _ => bind_all_error _ _ fun _ => bind_all_error _ _ fun _ => bind_all_error _ _ fun _ => ?_
    rw [h]; exact ⟨_, rfl⟩
  · rw [hg]
    simp only [optGet, bind_ok]
    exact bind_is_error _ _ (RawRegion.parse_other g h)

theorem RawField.parse_other (f : RawField)
    (h : f.nvdim = .other ∨ f.vdims = .other ∨ f.unit = .other ∨ ∃ m, f.mesh = some m ∧
      (m.n = .other ∨ m.bc = .other ∨ ∃ g, m.region = some g ∧
        (g.pmin = .other ∨ g.pmax = .other ∨ g.dims = .other ∨ g.units = .other ∨ g.tol = .other))) :
    ∃ e, f.parse = .error e := by
  unfold RawField.parse
  rcases h with h | h | h | ⟨m, hm, h⟩
  · refine bind_all_error _ _ fun _ => bind_all_error _ _ fun _ => bind_all_error _ _ fun _ => bind_all_error _ _ fun _ => ?_
    rw [h]; exact ⟨_, rfl⟩
  · rw [h]; exact ⟨_, rfl⟩
  · refine bind_all_error _ _ fun _ => ?_
    rw [h]; exact ⟨_, rfl⟩
  · refine bind_all_error _ _ fun _ => bind_all_error _ _ fun _ => ?_
    rw [hm]
    simp only [optGet, bind_ok]
    exact bind_is_error _ _ (RawMesh.parse_other m h)

theorem RawFile.parse_other (r : RawFile) (hv : r.version ≠ .absent)
    (h : r.version = .other ∨ r.type = .other ∨ ∃ f, r.field = some f ∧
      (f.nvdim = .other ∨ f.vdims = .other ∨ f.unit = .other ∨ ∃ m, f.mesh = some m ∧
        (m.n = .other ∨ m.bc = .other ∨ ∃ g, m.region = some g ∧
          (g.pmin = .other ∨ g.pmax = .other ∨ g.dims = .other ∨ g.units = .other ∨ g.tol = .other)))) :
    ∃ e, r.parse = .error e := by
  unfold RawFile.parse
  cases hver : r.version with
  | absent => exact absurd hver hv
  | other =>
    simp only
    refine bind_all_error _ _ fun t => ?_
    split
    · exact ⟨_, rfl⟩
    · exact ⟨_, rfl⟩
  | ok v =>
    simp only
    rcases h with h | h | ⟨f, hf, h⟩
    · rw [hver] at h; cases h
    · rw [h]; exact ⟨_, rfl⟩
    · refine bind_all_error _ _ fun t => ?_
      split
      · exact ⟨_, rfl⟩
      · simp only [AV.get, bind_ok]
        split
        · exact ⟨_, rfl⟩
        · rw [hf]
          simp only [optGet, bind_ok]
          exact bind_is_error _ _ (RawField.parse_other f h)

/-- `ndim` is looked up and dropped: the typed reader never inspects it -/
theorem h5Load_ndim (v t : String) (fld : H5Field) (k : Nat) :
    h5Load (.versioned v t { fld with mesh := { fld.mesh with region := { fld.mesh.region with ndim := k } } }) =
      h5Load (.versioned v t fld) := rfl

theorem RawRegion.parse_ndim (r : RawRegion) (a : AV Nat) (ha : a ≠ .absent) :
    ({ r with ndim := a } : RawRegion).parse.bind regionLoad = ({ r with ndim := .ok 0 } : RawRegion).parse.bind regionLoad := by
  unfold RawRegion.parse
  cases a with
  | absent => exact absurd rfl ha
  | other =>
    simp only [needPresent, AV.present, if_true, bind_ok]
  | ok k =>
    simp only [needPresent, AV.present, if_true, bind_ok]
    cases r.pmin.get <;> simp only [bind_ok, bind_error]
    cases r.pmax.get <;> simp only [bind_ok, bind_error]
    cases r.dims.get <;> simp only [bind_ok, bind_error]
    cases r.units.get <;> simp only [bind_ok, bind_error]
    cases r.tol.get <;> simp only [bind_ok, bind_error]
    rfl

/-! ## a directory of files: the last write wins -/

/-- the field written last to `path` in a history of `to_file` calls -/
def lastWrite : List (String × WFld) → String → Option WFld
  | [], _ => none
  | w :: t, p => match lastWrite t p with
    | some x => some x
    | none => if w.1 = p then some w.2 else none

theorem fsGet_eq_dictGet (fs : List (String × RawFile)) (p : String) : fsGet fs p = dictGet fs p := rfl

theorem fsGet_fsRun (ws : List (String × WFld)) (fs : List (String × RawFile)) (p : String) :
    fsGet (fsRun fs ws) p = match lastWrite ws p with
      | some x => some (rawSave x)
      | none => fsGet fs p := by
  induction ws generalizing fs with
  | nil => rfl
  | cons w t ih =>
    have : fsRun fs (w :: t) = fsRun (fsWrite fs w.1 w.2) t := rfl
    rw [this, ih]
    simp only [lastWrite]
    cases lastWrite t p with
    | some x => rfl
    | none =>
      simp only [fsGet_eq_dictGet, fsWrite, dictGet_insert]
      by_cases h : w.1 = p <;> simp [h]

/-! ## widths -/

theorem widen_idem (k : DK) (w : W) : widen k (widen k w) = widen k w := by
  cases k <;> rfl

theorem bits_le (w : W) : w.bits ≤ 64 := by cases w <;> decide

/-- integers of a dtype narrower than 64 bits all survive the conversion to binary64 -/
theorem narrow_int_safe (w : W) (hw : w ≠ .b64) (b : DBuf) (h : b.exactB w = true) : b.IntSafe := by
  cases b with
  | floats v => rfl
  | complexes v => rfl
  | ints v =>
    unfold DBuf.IntSafe DBuf.intSafeB
    simp only [DBuf.exactB, List.all_eq_true, decide_eq_true_eq] at h ⊢
    intro i hi
    obtain ⟨h1, h2⟩ := h i hi
    apply rne53_of_le
    have hb : (2 : Int) ^ (w.bits - 1) ≤ 2 ^ 31 := by
      cases w
      · decide
      · decide
      · decide
      · exact absurd rfl hw
    have : i.natAbs ≤ 2 ^ 31 := by omega
    calc i.natAbs ≤ 2 ^ 31 := this
      _ ≤ 2 ^ 53 := by decide

/-! ## whatever the reader returns, for any file -/

/-- every dataset has as many entries as its shape says -/
def RawFile.WF (r : RawFile) : Prop :=
  (∀ f, r.field = some f → (∀ wa, f.array = some wa → wa.2.wf) ∧ (∀ v, f.valid = some v → v.buf.length = natProd v.shape)) ∧
  (∀ wl, r.legacy = some wl → wl.2.array.wf)

theorem RawField.parse_wf (f : RawField) (wh : W × H5Field) (h : f.parse = .ok wh)
    (h1 : ∀ wa, f.array = some wa → wa.2.wf) (h2 : ∀ v, f.valid = some v → v.buf.length = natProd v.shape) :
    wh.2.array.wf ∧ wh.2.valid.buf.length = natProd wh.2.valid.shape := by
  unfold RawField.parse at h
  obtain ⟨_, _, h⟩ := bind_eq_ok _ _ _ h
  obtain ⟨_, _, h⟩ := bind_eq_ok _ _ _ h
  obtain ⟨_, _, h⟩ := bind_eq_ok _ _ _ h
  obtain ⟨_, _, h⟩ := bind_eq_ok _ _ _ h
  obtain ⟨_, _, h⟩ := bind_eq_ok _ _ _ h
  obtain ⟨wa, hwa, h⟩ := bind_eq_ok _ _ _ h
  obtain ⟨v, hv, h⟩ := bind_eq_ok _ _ _ h
  cases h
  cases ha : f.array with
  | none => rw [ha] at hwa; cases hwa
  | some wa' =>
    rw [ha] at hwa
    cases hwa
    cases hv' : f.valid with
    | none => rw [hv'] at hv; cases hv
    | some v' =>
      rw [hv'] at hv
      cases hv
      exact ⟨h1 _ ha, h2 _ hv'⟩

/-- **whatever the reader returns for ANY file — either layout, entries missing, foreign or
retyped — satisfies the invariant** -/
theorem rawLoadW_inv (r : RawFile) (hwf : r.WF) (g : WFld) (h : rawLoadW r = .ok g) : g.f.Inv := by
  unfold rawLoadW at h
  obtain ⟨wh, hp, h⟩ := bind_eq_ok _ _ _ h
  obtain ⟨g', hg', h⟩ := bind_eq_ok _ _ _ h
  cases h
  simp only
  unfold RawFile.parse at hp
  cases hver : r.version with
  | absent =>
    rw [hver] at hp
    simp only at hp
    obtain ⟨wl, hwl, hp⟩ := bind_eq_ok _ _ _ hp
    cases hp
    cases hl : r.legacy with
    | none => rw [hl] at hwl; cases hwl
    | some wl' =>
      rw [hl] at hwl
      cases hwl
      exact legacyLoad_inv _ (hwf.2 _ hl) _ hg'
  | other =>
    rw [hver] at hp
    simp only at hp
    obtain ⟨t, _, hp⟩ := bind_eq_ok _ _ _ hp
    split at hp
    · cases hp
    · cases hp
  | ok v =>
    rw [hver] at hp
    simp only at hp
    obtain ⟨t, _, hp⟩ := bind_eq_ok _ _ _ hp
    split at hp
    · cases hp
    · rename_i ht
      simp only [AV.get, bind_ok] at hp
      split at hp
      · cases hp
      · rename_i hv
        have ht' : t = "discretisedfield.Field" := by simpa using ht
        have hv' : v = "0.1" := by simpa using hv
        subst ht'; subst hv'
        obtain ⟨rf, hrf, hp⟩ := bind_eq_ok _ _ _ hp
        obtain ⟨wh', hwh', hp⟩ := bind_eq_ok _ _ _ hp
        cases hp
        cases hf : r.field with
        | none => rw [hf] at hrf; cases hrf
        | some rf' =>
          rw [hf] at hrf
          cases hrf
          obtain ⟨w1, w2⟩ := RawField.parse_wf _ _ hwh' (hwf.1 _ hf).1 (hwf.1 _ hf).2
          simp only [h5Load, ne_eq, not_true_eq_false, if_false] at hg'
          exact fieldLoadAt_inv _ .all g' w1 w2 hg'

end DFV.C10
