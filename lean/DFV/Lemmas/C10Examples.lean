import DFV.Model.C10
/-! concrete states used by the non-vacuity `example`s of `Props/C10.lean` (data only) -/
namespace DFV.C10
open DFV

/-- an integer-cornered 2-d region (0,0)–(2,1) in 4×2 cells of size ½, a float-cornered
subregion with fractional corners (½,0)–(3/2,1), an overlapping integer-cornered one,
renamed dims/units, periodic bc, complex data with two labels; the two invalid cells hold
NaN / inf / −0 patterns -/
def exField : TFld :=
  { mesh := { region := { pmin := .ints [0, 0], pmax := .ints [2, 1], dims := ["a", "t"], units := ["nm", "s"],
                          tol := .float (1/1000) },
              n := [4, 2], bc := "a",
              subs := [("s", { pmin := .floats [1/2, 0], pmax := .floats [3/2, 1], dims := ["a", "t"], units := ["nm", "s"],
                               tol := .float (1/1000) }),
                       ("r", { pmin := .ints [0, 0], pmax := .ints [1, 1], dims := ["a", "t"], units := ["nm", "s"],
                               tol := .float (1/1000) })] },
    nvdim := 2,
    data := { shape := [4, 2, 2],
              buf := .complexes ((List.range 16).map fun (k : Nat) =>
                if k = 2 then (FV.nan true 7, FV.inf false) else if k = 9 then (FV.negZero, FV.inf true)
                else (FV.fin ((k : Rat) / 4), FV.fin (-(k : Rat)))) },
    valid := { shape := [4, 2], buf := [true, false, true, true, false, true, true, true] },
    vdims := some ["p", "None"],
    vmap := [("p", "a"), ("None", "t")],
    unit := some "A/m" }

/-- an all-float field meeting the hypotheses of the exact round trip (an invalid cell holding a NaN) -/
def exFloat : TFld :=
  { mesh := { region := { pmin := .floats [-1/4], pmax := .floats [5/4], dims := ["x"], units := ["m"],
                          tol := TReg.defaultTol },
              n := [3], bc := "",
              subs := [("core", { pmin := .floats [1/4], pmax := .floats [3/4], dims := ["x"], units := ["m"],
                                  tol := TReg.defaultTol })] },
    nvdim := 1, data := { shape := [3, 1], buf := .floats [.fin (1/2), .fin (-3), .nan false 1] },
    valid := { shape := [3], buf := [true, true, false] },
    vdims := none, vmap := [], unit := none }

/-- three components on a 1-d mesh without labels (`vdims=[]`): the D34 class -/
def exNoLabels : TFld :=
  { exFloat with nvdim := 3, data := { shape := [3, 3], buf := .floats ((List.range 9).map fun (k : Nat) => FV.fin k) } }

/-- integer data, one entry beyond 2^53 -/
def exBigInt : TFld :=
  { exFloat with data := { shape := [3, 1], buf := .ints [5, 2 ^ 53 + 1, -7] } }

/-- a legacy file meeting the hypotheses of `legacy_read` (p1/p2 unordered, int data) -/
def exLegacy : Legacy :=
  { p1 := .floats [2, 0], p2 := .floats [0, 1], n := [2, 1], dim := 3,
    array := { shape := [2, 1, 3], buf := .ints [1, 2, 3, 4, 5, 6] }, sidecar := none }

/-- the same file with the corners of the first axis exchanged and integer-typed `p2` -/
def exLegacySwapped : Legacy :=
  { exLegacy with p1 := .floats [0, 0], p2 := .ints [2, 1] }

/-- … and with a side-car holding one box (first cell), int/float corners mixed -/
def exLegacySide : Legacy :=
  { exLegacy with sidecar := some [("left", { pmin := .ints [0, 0], pmax := .floats [1, 1], dims := ["u", "v"],
                                              units := ["nm", "nm"], ndim := 2, tol := .float (1/1000) })] }

/-- a history of slot writes into a 3-slot series created for `exFloat`: slot 1, slot −1 (= 2),
slot 1 again -/
def exWrites : List (Int × TFld) :=
  [(1, { exFloat with data := { shape := [3, 1], buf := .floats [.fin 1, .fin 2, .fin 3] } }),
   (-1, { exFloat with data := { shape := [3, 1], buf := .floats [.negZero, .inf true, .fin 9] } }),
   (1, { exFloat with data := { shape := [3, 1], buf := .ints [4, 5, 6] } })]

/-! round 2: a candidate subregion accepted only thanks to its own tolerance factor (nm regime:
region (0)–(10 nm) in 10 cells, candidate (0)–(0.9995 nm) with `tolerance_factor=1e-2`) -/

def exTolRegion : TReg :=
  { pmin := .floats [0], pmax := .floats [1/100000000], dims := ["x"], units := ["m"], tol := TReg.defaultTol }

def exTolCand : TReg :=
  { pmin := .floats [0], pmax := .floats [1999/2000000000000], dims := ["x"], units := ["m"], tol := .float (1/100) }

/-- the mesh `Mesh(region=exTolRegion, n=10, subregions={"a": exTolCand})` returned BEFORE repo fix
5591fed0 (now the constructor refuses): the subregion re-stamped with the mesh's tolerance factor -/
def exTolMesh : TMesh :=
  { region := exTolRegion, n := [10], bc := "", subs := [("a", { exTolCand with tol := TReg.defaultTol })] }

def exTolField : TFld :=
  { mesh := exTolMesh, nvdim := 1, data := { shape := [10, 1], buf := .floats (List.replicate 10 (.fin 1)) },
    valid := { shape := [10], buf := List.replicate 10 true }, vdims := none, vmap := [], unit := none }

/-- the same region carrying `tolerance_factor=1e-2` itself -/
def exTolRegionLoose : TReg := { exTolRegion with tol := .float (1/100) }

/-- `Mesh(region=exTolRegionLoose, n=10, subregions={"a": exTolCand})` -/
def exTolMeshLoose : TMesh :=
  { region := exTolRegionLoose, n := [10], bc := "", subs := [("a", { exTolCand with tol := .float (1/100) })] }

def exTolFieldLoose : TFld := { exTolField with mesh := exTolMeshLoose }

/-- a legacy file whose array is a mesh-shaped scalar array (no component axis) -/
def exLegacyScalar : Legacy :=
  { p1 := .ints [0, 0], p2 := .ints [2, 1], n := [2, 1], dim := 1,
    array := { shape := [2, 1], buf := .ints [7, -3] }, sidecar := none }

/-- a legacy file whose array has to be broadcast along the first axis -/
def exLegacyBcast : Legacy :=
  { exLegacy with array := { shape := [1, 1, 3], buf := .floats [.fin 1, .negZero, .nan true 5] } }

/-- a legacy file (nm regime) whose side-car box is accepted only within the tolerances -/
def exLegacyTolSide : Legacy :=
  { p1 := .floats [0], p2 := .floats [1/100000000], n := [10], dim := 1,
    array := { shape := [10, 1], buf := .floats (List.replicate 10 (.fin 1)) },
    sidecar := some [("a", { pmin := .floats [0], pmax := .floats [1999/2000000000000], dims := ["x"], units := ["m"], ndim := 1,
                             tol := .float (1/100) })] }

end DFV.C10
