import DFV.Model.C10
/-! concrete states used by the non-vacuity `example`s of `Props/C10.lean` (data only) -/
namespace DFV.C10
open DFV

/-- an integer-cornered 2-d region (0,0)–(2,1) in 4×2 cells of size ½, a float-cornered
subregion with fractional corners (½,0)–(3/2,1), an overlapping integer-cornered one,
renamed dims/units, periodic bc, complex data with two labels -/
def exField : TFld :=
  { mesh := { region := { pmin := .ints [0, 0], pmax := .ints [2, 1], dims := ["a", "t"], units := ["nm", "s"],
                          tol := .float (1/1000) },
              n := [4, 2], bc := "a",
              subs := [("s", { pmin := .floats [1/2, 0], pmax := .floats [3/2, 1], dims := ["a", "t"], units := ["nm", "s"],
                               tol := .float (1/1000) }),
                       ("r", { pmin := .ints [0, 0], pmax := .ints [1, 1], dims := ["a", "t"], units := ["nm", "s"],
                               tol := .float (1/1000) })] },
    nvdim := 2,
    data := { shape := [4, 2, 2], buf := .complexes ((List.range 16).map fun (k : Nat) => ((k : Rat) / 4, -(k : Rat))) },
    valid := { shape := [4, 2], buf := [true, false, true, true, false, true, true, true] },
    vdims := some ["p", "None"],
    vmap := [("p", "a"), ("None", "t")],
    unit := some "A/m" }

/-- an all-float field meeting the hypotheses of the exact round trip -/
def exFloat : TFld :=
  { mesh := { region := { pmin := .floats [-1/4], pmax := .floats [5/4], dims := ["x"], units := ["m"],
                          tol := TReg.defaultTol },
              n := [3], bc := "",
              subs := [("core", { pmin := .floats [1/4], pmax := .floats [3/4], dims := ["x"], units := ["m"],
                                  tol := TReg.defaultTol })] },
    nvdim := 1, data := { shape := [3, 1], buf := .floats [1/2, -3, 7/8] },
    valid := { shape := [3], buf := [true, true, false] },
    vdims := none, vmap := [], unit := none }

/-- a legacy file meeting the hypotheses of `legacy_read` (p1/p2 unordered, int data) -/
def exLegacy : Legacy :=
  { p1 := .floats [2, 0], p2 := .floats [0, 1], n := [2, 1], dim := 3,
    array := { shape := [2, 1, 3], buf := .ints [1, 2, 3, 4, 5, 6] }, sidecar := none }

end DFV.C10
