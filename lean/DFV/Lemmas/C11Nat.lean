import DFV.Lemmas.Tab
import DFV.Model.C11
/-!
C11: the generic transform model is natural in its carrier.  For ANY map `φ : S → R` that
preserves `0 1 + *` (no ring law is needed on either side — `S` may be the driver's formal
`Poly`, which satisfies none structurally), running the code-shaped model over `S` and then
applying `φ` cell by cell is the same as running it over `R` on the `φ`-image of the input
with the `φ`-images of the root parameters.  Core Lean only.
-/
namespace DFV.C11
open DFV

section hom
variable {S R : Type} [Zero S] [One S] [Add S] [Mul S] [Zero R] [One R] [Add R] [Mul R]

/-- `φ` preserves the four operations the model uses -/
structure IsHom (φ : S → R) : Prop where
  map_zero : φ 0 = 0
  map_one : φ 1 = 1
  map_add : ∀ x y, φ (x + y) = φ x + φ y
  map_mul : ∀ x y, φ (x * y) = φ x * φ y

/-- image of the per-axis parameters -/
def Root.map (φ : S → R) (ρ : Root S) : Root R := ⟨φ ρ.w, φ ρ.wi, φ ρ.ninv⟩

/-- cell-by-cell, component-by-component image of an array -/
def mapA (φ : S → R) (a : NDA (List S)) : NDA (List R) := ⟨a.shape, fun i => (a.get i).map φ⟩

/-- image of a field: same mesh, labels, mapping, unit; data mapped -/
def CF.map (φ : S → R) (f : CF S) : CF R :=
  { mesh := f.mesh, nvdim := f.nvdim, data := mapA φ f.data, vdims := f.vdims, vmap := f.vmap, unit := f.unit }

/-- image of a result-or-error -/
def mapM (φ : S → R) : M (CF S) → M (CF R)
  | .ok g => .ok (g.map φ)
  | .error e => .error e

theorem tab_map {α β} (n : Nat) (f : Nat → α) (g : α → β) : (tab n f).map g = tab n (fun i => g (f i)) := by
  simp [tab, List.map_map, Function.comp_def]

variable {φ : S → R}

theorem IsHom.sumN (h : IsHom φ) (n : Nat) (f : Nat → S) : φ (sumN n f) = sumN n (fun i => φ (f i)) := by
  induction n with
  | zero => simp only [C11.sumN]; exact h.map_zero
  | succ n ih => simp only [C11.sumN]; rw [h.map_add, ih]

theorem IsHom.powN (h : IsHom φ) (x : S) (k : Nat) : φ (powN x k) = powN (φ x) k := by
  induction k with
  | zero => simp only [C11.powN]; exact h.map_one
  | succ k ih => simp only [C11.powN]; rw [h.map_mul, ih]

theorem IsHom.tw (h : IsHom φ) (w : S) (n m r : Nat) : φ (tw w n m r) = tw (φ w) n m r := by
  unfold C11.tw; exact h.powN _ _

theorem IsHom.headD (h : IsHom φ) (ρs : List (Root S)) :
    (ρs.map (Root.map φ)).headD ⟨1, 1, 1⟩ = Root.map φ (ρs.headD ⟨1, 1, 1⟩) := by
  cases ρs with
  | nil => simp only [List.map_nil, List.headD_nil, Root.map]; rw [h.map_one]
  | cons ρ ρs => simp

omit [Zero S] [One S] [Add S] [Mul S] [Zero R] [One R] [Add R] [Mul R] in
theorem map_tail' (ρs : List (Root S)) : (ρs.map (Root.map φ)).tail = ρs.tail.map (Root.map φ) := by
  cases ρs <;> simp

theorem dftN_nil' (ρs : List (Root R)) (f : List Nat → R) (m : List Nat) : dftN ρs [] f m = f [] := by
  simp [dftN]

theorem dftN_cons' (ρs : List (Root R)) (n : Nat) (ns : List Nat) (f : List Nat → R) (m : List Nat) :
    dftN ρs (n :: ns) f m =
      C11.sumN n fun r => dftN ρs.tail ns (fun rs => f (r :: rs)) m.tail * C11.tw (ρs.headD ⟨1, 1, 1⟩).w n (m.headD 0) r := by
  simp [dftN]

theorem idftN_nil' (ρs : List (Root R)) (F : List Nat → R) (j : List Nat) : idftN ρs [] F j = F [] := by
  simp [idftN]

theorem idftN_cons' (ρs : List (Root R)) (n : Nat) (ns : List Nat) (F : List Nat → R) (j : List Nat) :
    idftN ρs (n :: ns) F j =
      idftN ρs.tail ns (fun ms => (ρs.headD ⟨1, 1, 1⟩).ninv *
        C11.sumN n fun k => F (k :: ms) * C11.tw (ρs.headD ⟨1, 1, 1⟩).wi n (j.headD 0) k) j.tail := by
  simp [idftN]

/-- the forward DFT contract commutes with `φ` -/
theorem IsHom.dftN (h : IsHom φ) (ρs : List (Root S)) (ns : List Nat) (f : List Nat → S) (m : List Nat) :
    φ (dftN ρs ns f m) = dftN (ρs.map (Root.map φ)) ns (fun i => φ (f i)) m := by
  induction ns generalizing ρs f m with
  | nil => rw [dftN_nil', dftN_nil']
  | cons n ns ih =>
    rw [dftN_cons', dftN_cons', h.sumN]
    congr 1
    funext r
    rw [h.map_mul, ih, h.tw, h.headD, map_tail']
    rfl

/-- the inverse DFT contract commutes with `φ` -/
theorem IsHom.idftN (h : IsHom φ) (ρs : List (Root S)) (ns : List Nat) (F : List Nat → S) (j : List Nat) :
    φ (idftN ρs ns F j) = idftN (ρs.map (Root.map φ)) ns (fun i => φ (F i)) j := by
  induction ns generalizing ρs F j with
  | nil => rw [idftN_nil', idftN_nil']
  | cons n ns ih =>
    rw [idftN_cons', idftN_cons', ih, h.headD, map_tail']
    congr 1
    funext ms
    rw [h.map_mul, h.sumN]
    congr 2
    funext k
    rw [h.map_mul, h.tw]
    rfl

omit [Zero S] [One S] [Add S] [Mul S] [Zero R] [One R] [Add R] [Mul R] in
theorem hermExt_map (cS : S → S) (cR : R → R) (hc : ∀ x, φ (cS x) = cR (φ x))
    (shape : List Nat) (G : List Nat → S) (k : List Nat) :
    φ (hermExt cS shape G k) = hermExt cR shape (fun i => φ (G i)) k := by
  unfold C11.hermExt
  split
  · rfl
  · rw [hc]

theorem getD_map0 (h : IsHom φ) (l : List S) (c : Nat) : (l.map φ).getD c 0 = φ (l.getD c 0) := by
  induction l generalizing c with
  | nil => simp [h.map_zero]
  | cons x xs ih =>
    cases c with
    | zero => simp
    | succ c => simpa using ih c

theorem compA_mapA (h : IsHom φ) (a : NDA (List S)) (c : Nat) (i : List Nat) :
    compA (mapA φ a) c i = φ (compA a c i) := by
  simp only [compA, mapA]; exact getD_map0 h _ _

theorem IsHom.fftnArr (h : IsHom φ) (ρs : List (Root S)) (nv : Nat) (a : NDA (List S)) :
    fftnArr (ρs.map (Root.map φ)) nv (mapA φ a) = mapA φ (fftnArr ρs nv a) := by
  simp only [C11.fftnArr, mapA, NDA.mk.injEq, true_and]
  funext m
  rw [tab_map]
  apply tab_congr
  intro c _
  rw [h.dftN]
  congr 1
  funext i
  exact compA_mapA h a c i

theorem IsHom.rfftnArr (h : IsHom φ) (ρs : List (Root S)) (nv : Nat) (a : NDA (List S)) :
    rfftnArr (ρs.map (Root.map φ)) nv (mapA φ a) = mapA φ (rfftnArr ρs nv a) := by
  simp only [C11.rfftnArr, mapA, NDA.mk.injEq, true_and]
  funext m
  rw [tab_map]
  apply tab_congr
  intro c _
  rw [h.dftN]
  congr 1
  funext i
  exact compA_mapA h a c i

theorem IsHom.ifftnArr (h : IsHom φ) (ρs : List (Root S)) (nv : Nat) (a : NDA (List S)) :
    ifftnArr (ρs.map (Root.map φ)) nv (mapA φ a) = mapA φ (ifftnArr ρs nv a) := by
  simp only [C11.ifftnArr, mapA, NDA.mk.injEq, true_and]
  funext j
  rw [tab_map]
  apply tab_congr
  intro c _
  rw [h.idftN]
  congr 1
  funext i
  exact compA_mapA h a c _

theorem IsHom.irfftnArr (h : IsHom φ) (cS : S → S) (cR : R → R) (hc : ∀ x, φ (cS x) = cR (φ x))
    (ρs : List (Root S)) (nv : Nat) (s : List Nat) (a : NDA (List S)) :
    irfftnArr cR (ρs.map (Root.map φ)) nv s (mapA φ a) = mapA φ (irfftnArr cS ρs nv s a) := by
  simp only [C11.irfftnArr, mapA, NDA.mk.injEq, true_and]
  funext j
  rw [tab_map]
  apply tab_congr
  intro c _
  rw [h.idftN]
  congr 1
  funext k
  rw [hermExt_map cS cR hc]
  congr 1
  funext i
  exact compA_mapA h a c _

omit [Zero S] [One S] [Add S] [Mul S] [Zero R] [One R] [Add R] [Mul R] in
theorem mkCF_map (mesh : Mesh) (nv : Nat) (data : NDA (List S)) (vd : Option (List String))
    (vm : Option (List (String × String))) (u : Option String) :
    mkCF mesh nv (mapA φ data) vd vm u = mapM φ (mkCF mesh nv data vd vm u) := by
  unfold mkCF
  by_cases h1 : nv < 1
  · rw [if_pos h1, if_pos h1]; rfl
  · rw [if_neg h1, if_neg h1]
    by_cases h2 : data.shape ≠ mesh.n
    · rw [if_pos h2, if_pos (show (mapA φ data).shape ≠ mesh.n from h2)]; rfl
    · rw [if_neg h2, if_neg (show ¬ (mapA φ data).shape ≠ mesh.n from h2)]
      cases vdimsSetter nv vd with
      | error e => rfl
      | ok v =>
        simp only
        cases vmapSetter nv mesh.region.dims v vm with
        | error e => rfl
        | ok mp => rfl

omit [Zero S] [One S] [Add S] [Mul S] [Zero R] [One R] [Add R] [Mul R] in
theorem finish_map (f : CF S) (mesh : Mesh) (data : NDA (List S)) (inverse : Bool) :
    finish (f.map φ) mesh (mapA φ data) inverse = mapM φ (finish f mesh data inverse) := by
  unfold finish
  show (match f.vdims with
    | none => mkCF mesh f.nvdim (mapA φ data) none none f.unit
    | some vs => _) = _
  cases f.vdims with
  | none => exact mkCF_map ..
  | some vs =>
    simp only
    cases inverse with
    | true => exact mkCF_map ..
    | false => exact mkCF_map ..

/-- **`Field.fftn` commutes with `φ`** -/
theorem IsHom.fftn (h : IsHom φ) (ρs : List (Root S)) (f : CF S) :
    fftn (ρs.map (Root.map φ)) (f.map φ) = mapM φ (fftn ρs f) := by
  unfold C11.fftn
  show (match meshFftn f.mesh false with
    | .error e => (Except.error e : M (CF R))
    | .ok k => finish (f.map φ) k (C11.fftnArr (ρs.map (Root.map φ)) f.nvdim (mapA φ f.data)) false) = _
  cases meshFftn f.mesh false with
  | error e => rfl
  | ok k => simp only; rw [h.fftnArr, finish_map]

theorem IsHom.rfftn (h : IsHom φ) (ρs : List (Root S)) (f : CF S) :
    rfftn (ρs.map (Root.map φ)) (f.map φ) = mapM φ (rfftn ρs f) := by
  unfold C11.rfftn
  show (match meshFftn f.mesh true with
    | .error e => (Except.error e : M (CF R))
    | .ok k => finish (f.map φ) k (C11.rfftnArr (ρs.map (Root.map φ)) f.nvdim (mapA φ f.data)) false) = _
  cases meshFftn f.mesh true with
  | error e => rfl
  | ok k => simp only; rw [h.rfftnArr, finish_map]

theorem IsHom.ifftn (h : IsHom φ) (ρs : List (Root S)) (f : CF S) :
    ifftn (ρs.map (Root.map φ)) (f.map φ) = mapM φ (ifftn ρs f) := by
  unfold C11.ifftn
  show (match meshIfftn f.mesh false none with
    | .error e => (Except.error e : M (CF R))
    | .ok k => finish (f.map φ) k (C11.ifftnArr (ρs.map (Root.map φ)) f.nvdim (mapA φ f.data)) true) = _
  cases meshIfftn f.mesh false none with
  | error e => rfl
  | ok k => simp only; rw [h.ifftnArr, finish_map]

theorem IsHom.irfftn (h : IsHom φ) (cS : S → S) (cR : R → R) (hc : ∀ x, φ (cS x) = cR (φ x))
    (ρs : List (Root S)) (f : CF S) (shape : Option (List Nat)) :
    irfftn cR (ρs.map (Root.map φ)) (f.map φ) shape = mapM φ (irfftn cS ρs f shape) := by
  unfold C11.irfftn
  show (match meshIfftn f.mesh true shape with
    | .error e => (Except.error e : M (CF R))
    | .ok k => finish (f.map φ) k (C11.irfftnArr cR (ρs.map (Root.map φ)) f.nvdim k.n (mapA φ f.data)) true) = _
  cases meshIfftn f.mesh true shape with
  | error e => rfl
  | ok k => simp only; rw [h.irfftnArr cS cR hc, finish_map]

end hom

end DFV.C11
