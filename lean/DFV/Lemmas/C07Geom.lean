import DFV.Lemmas.RatFloor
import DFV.Lemmas.C07List
/-! Per-axis geometry over `Rat` and inversion lemmas for the constructor paths used by C07. -/
namespace DFV.C07
open DFV DFV.Mesh

/-! ## invariant projections -/

theorem inv_lo_lt_hi {m : Mesh} (h : m.Inv) {a : Nat} (ha : a < m.ndim) : m.region.lo a < m.region.hi a :=
  h.1.2.2.2.2.2 a ha

theorem inv_n_pos {m : Mesh} (h : m.Inv) {a : Nat} (ha : a < m.ndim) : 0 < m.nAt a := h.2.2 a ha

theorem inv_n_length {m : Mesh} (h : m.Inv) : m.n.length = m.ndim := h.2.1

theorem inv_pmax_length {m : Mesh} (h : m.Inv) : m.region.pmax.length = m.ndim := h.1.2.1
theorem inv_pmin_length (m : Mesh) : m.region.pmin.length = m.ndim := rfl
theorem inv_dims_length {m : Mesh} (h : m.Inv) : m.region.dims.length = m.ndim := h.1.2.2.1
theorem inv_units_length {m : Mesh} (h : m.Inv) : m.region.units.length = m.ndim := h.1.2.2.2.1
theorem inv_ndim_pos {m : Mesh} (h : m.Inv) : 0 < m.ndim := h.1.1

/-! ## one axis -/

theorem cover (m : Mesh) (a : Nat) (hn : 0 < m.nAt a) :
    (m.nAt a : Rat) * m.cellAt a = m.region.hi a - m.region.lo a := by
  unfold cellAt Region.edge
  have : (m.nAt a : Rat) ≠ 0 := by exact_mod_cast (Nat.pos_iff_ne_zero.mp hn)
  field_simp

theorem cell_pos (m : Mesh) (a : Nat) (hn : 0 < m.nAt a) (hr : m.region.lo a < m.region.hi a) :
    0 < m.cellAt a := by
  unfold cellAt Region.edge
  have : (0 : Rat) < (m.nAt a : Rat) := by exact_mod_cast hn
  exact div_pos (by linarith) this

theorem inv_cell_pos {m : Mesh} (h : m.Inv) {a : Nat} (ha : a < m.ndim) : 0 < m.cellAt a :=
  cell_pos m a (inv_n_pos h ha) (inv_lo_lt_hi h ha)

theorem hi_eq (m : Mesh) (a : Nat) (hn : 0 < m.nAt a) :
    m.region.hi a = m.region.lo a + (m.nAt a : Rat) * m.cellAt a := by
  rw [cover m a hn]; ring

/-- the index of a coordinate is always a valid index -/
theorem indexAx_lt (m : Mesh) (a : Nat) (x : Rat) (hn : 0 < m.nAt a) : m.indexAx a x < m.nAt a := by
  unfold indexAx clipInt
  split
  · simpa using hn
  · split <;> omega

/-- floor index of a coordinate, without the clip, for coordinates of the half-open edge -/
theorem indexAx_eq_of_bounds (m : Mesh) (a : Nat) (x : Rat) (k : Nat) (hk : k < m.nAt a)
    (hc : 0 < m.cellAt a)
    (h1 : m.region.lo a + (k : Rat) * m.cellAt a ≤ x)
    (h2 : x < m.region.lo a + ((k : Rat) + 1) * m.cellAt a) : m.indexAx a x = k := by
  unfold indexAx
  have hf : ((x - m.region.lo a) / m.cellAt a).floor = (k : Int) := by
    apply rat_floor_eq
    · rw [le_div_iff₀ hc]; push_cast; linarith
    · rw [div_lt_iff₀ hc]; push_cast; linarith
  rw [hf]
  unfold clipInt
  have h1 : ¬ ((k : Int) < 0) := by omega
  have h2 : ¬ ((m.nAt a : Int) - 1 < (k : Int)) := by omega
  simp [h1, h2]

/-- the upper end of the edge belongs to the last cell -/
theorem indexAx_hi (m : Mesh) (a : Nat) (hn : 0 < m.nAt a) (hc : 0 < m.cellAt a) :
    m.indexAx a (m.region.hi a) = m.nAt a - 1 := by
  unfold indexAx
  have hq : (m.region.hi a - m.region.lo a) / m.cellAt a = ((m.nAt a : Int) : Rat) := by
    rw [← cover m a hn]; field_simp; push_cast; ring
  rw [hq]
  have hf : (((m.nAt a : Int) : Rat)).floor = (m.nAt a : Int) := by
    apply rat_floor_eq <;> linarith
  rw [hf]
  unfold clipInt
  have h1 : ¬ ((m.nAt a : Int) < 0) := by omega
  have h2 : ((m.nAt a : Int) - 1 < (m.nAt a : Int)) := by omega
  simp only [h1, h2, if_false, if_true]
  omega

/-- index → centre → index (exact arithmetic) -/
theorem roundtrip (m : Mesh) (a : Nat) (i : Nat) (hi : i < m.nAt a) (hc : 0 < m.cellAt a) :
    m.indexAx a (m.centreAx a (i : Int)) = i := by
  apply indexAx_eq_of_bounds m a _ i hi hc
  · unfold centreAx; push_cast; nlinarith
  · unfold centreAx; push_cast; nlinarith

/-- a coordinate of the closed edge lies in the cell whose index it gets (last cell closed) -/
theorem index_contains (m : Mesh) (a : Nat) (x : Rat) (hn : 0 < m.nAt a)
    (hr : m.region.lo a < m.region.hi a) (hlo : m.region.lo a ≤ x) (hhi : x ≤ m.region.hi a) :
    m.region.lo a + (m.indexAx a x : Rat) * m.cellAt a ≤ x ∧
    (x < m.region.lo a + ((m.indexAx a x : Rat) + 1) * m.cellAt a ∨
      (m.indexAx a x = m.nAt a - 1 ∧ x = m.region.hi a)) := by
  have hc := cell_pos m a hn hr
  have hcov := cover m a hn
  by_cases hx : x = m.region.hi a
  · subst hx
    rw [indexAx_hi m a hn hc]
    have hcast : ((m.nAt a - 1 : Nat) : Rat) = (m.nAt a : Rat) - 1 := by
      push_cast [Nat.cast_sub (by omega : 1 ≤ m.nAt a)]; ring
    refine ⟨?_, Or.inr ⟨rfl, rfl⟩⟩
    rw [hcast]; nlinarith
  · have hlt : x < m.region.hi a := lt_of_le_of_ne hhi hx
    set c := m.cellAt a with hcdef
    set q := (x - m.region.lo a) / c with hq
    have hq0 : 0 ≤ q := div_nonneg (by linarith) hc.le
    have hxq : x = m.region.lo a + q * c := by rw [hq]; field_simp; ring
    have hqn : q < (m.nAt a : Rat) := by
      rw [hq, div_lt_iff₀ hc]; linarith
    have hf0 := rat_floor_nonneg q hq0
    have hfn : q.floor < (m.nAt a : Int) := rat_floor_lt q _ (by exact_mod_cast hqn)
    have hidx : m.indexAx a x = q.floor.toNat := by
      unfold indexAx
      rw [← hcdef, ← hq]
      unfold clipInt
      have h1 : ¬ (q.floor < 0) := by omega
      have h2 : ¬ ((m.nAt a : Int) - 1 < q.floor) := by omega
      simp [h1, h2]
    have hcast : ((q.floor.toNat : Nat) : Rat) = (q.floor : Rat) := by
      have : ((q.floor.toNat : Nat) : Int) = q.floor := Int.toNat_of_nonneg hf0
      exact_mod_cast this
    have hfl := rat_floor_le q
    have hfu := rat_lt_floor_add_one q
    rw [hidx, hcast]
    refine ⟨?_, Or.inl ?_⟩
    · rw [hxq]; nlinarith
    · rw [hxq]; nlinarith

/-- the index map is monotone -/
theorem indexAx_mono (m : Mesh) (a : Nat) (x y : Rat) (hc : 0 < m.cellAt a) (hxy : x ≤ y) :
    m.indexAx a x ≤ m.indexAx a y := by
  unfold indexAx
  have hq : (x - m.region.lo a) / m.cellAt a ≤ (y - m.region.lo a) / m.cellAt a :=
    div_le_div_of_nonneg_right (by linarith) hc.le
  have hf : ((x - m.region.lo a) / m.cellAt a).floor ≤ ((y - m.region.lo a) / m.cellAt a).floor :=
    rat_le_floor _ _ (le_trans (rat_floor_le _) hq)
  unfold clipInt
  split <;> split <;> (try split) <;> (try split) <;> omega

theorem centreAx_cast (m : Mesh) (a : Nat) (i : Nat) :
    m.centreAx a ((i : Nat) : Int) = m.region.lo a + ((i : Rat) + 1/2) * m.cellAt a := by
  unfold centreAx; push_cast; ring

/-! ## tolerant containment follows from exact containment -/

theorem containsAx_of_exact (r : Region) (a : Nat) (x : Rat) (h1 : r.lo a ≤ x) (h2 : x ≤ r.hi a) :
    r.containsAx a x = true := by
  unfold Region.containsAx
  simp [h1, h2]

theorem containsPt_of_exact (r : Region) (p : List Rat) (hl : p.length = r.ndim)
    (h : ∀ a, a < r.ndim → r.lo a ≤ p.getD a 0 ∧ p.getD a 0 ≤ r.hi a) : r.containsPt p = true := by
  unfold Region.containsPt
  simp only [hl, decide_true, Bool.true_and]
  rw [allLt_iff]
  intro a ha
  exact containsAx_of_exact r a _ (h a ha).1 (h a ha).2

/-! ## `point2index` / `index2point` in closed form -/

theorem point2index_eq (m : Mesh) (p : List Rat) (hl : p.length = m.ndim)
    (h : ∀ a, a < m.ndim → m.region.lo a ≤ p.getD a 0 ∧ p.getD a 0 ≤ m.region.hi a) :
    m.point2index p = .ok (tab m.ndim fun a => m.indexAx a (p.getD a 0)) := by
  unfold point2index
  have hc := containsPt_of_exact m.region p hl h
  simp [hl, hc]

theorem index2point_eq (m : Mesh) (idx : List Int) (hl : idx.length = m.ndim)
    (h : ∀ a, a < m.ndim → 0 ≤ idx.getD a 0 ∧ idx.getD a 0 < (m.nAt a : Int)) :
    m.index2point idx = .ok (tab m.ndim fun a => m.centreAx a (idx.getD a 0)) := by
  unfold index2point
  have hall : allLt m.ndim (fun a => decide (0 ≤ idx.getD a 0) && decide (idx.getD a 0 < (m.nAt a : Int))) = true := by
    rw [allLt_iff]; intro a ha
    have := h a ha
    simp only [Bool.and_eq_true, decide_eq_true_eq]; exact this
  simp only [hl, ne_eq, not_true_eq_false, ↓reduceIte, hall, Bool.not_true, Bool.false_eq_true]

theorem point2index_inv (m : Mesh) (p : List Rat) (i : List Nat) (h : m.point2index p = .ok i) :
    p.length = m.ndim ∧ m.region.containsPt p = true ∧ i = tab m.ndim fun a => m.indexAx a (p.getD a 0) := by
  unfold point2index at h
  split at h
  · cases h
  · split at h
    · cases h
    · injection h with h
      refine ⟨by omega, by simp_all, h.symm⟩

theorem index2point_inv (m : Mesh) (idx : List Int) (p : List Rat) (h : m.index2point idx = .ok p) :
    idx.length = m.ndim ∧ (∀ a, a < m.ndim → 0 ≤ idx.getD a 0 ∧ idx.getD a 0 < (m.nAt a : Int)) ∧
    p = tab m.ndim fun a => m.centreAx a (idx.getD a 0) := by
  unfold index2point at h
  split at h
  · cases h
  · split at h
    · cases h
    · injection h with h
      rename_i h1 h2
      refine ⟨by omega, ?_, h.symm⟩
      intro a ha
      have h2' : allLt m.ndim (fun a => decide (0 ≤ idx.getD a 0) && decide (idx.getD a 0 < (m.nAt a : Int))) = true := by
        simpa using h2
      have := (allLt_iff _ _).mp h2' a ha
      simpa using this

/-! ## rounding of an exact integer -/

theorem roundHalfEven_int (k : Int) : roundHalfEven (k : Rat) = k := by
  unfold roundHalfEven
  have hf : ((k : Rat)).floor = k := by apply rat_floor_eq <;> linarith
  rw [hf]
  norm_num

theorem roundHalfEven_nat (k : Nat) : (roundHalfEven (k : Rat)).toNat = k := by
  have := roundHalfEven_int (k : Int)
  push_cast at this
  rw [this]; simp

end DFV.C07
