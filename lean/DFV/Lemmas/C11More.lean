import DFV.Lemmas.C11Arr
import DFV.Lemmas.C11Nat
/-!
C11: further transform lemmas over a commutative ring — forward ∘ inverse = id, rotation
invariance of box sums, the inverse transform as one sum over the k-box, Plancherel/Parseval,
Hermitian symmetry in shifted coordinates, the transform of a single-cell field.
-/
namespace DFV.C11
open DFV

variable {R : Type} [CommRing R]

theorem tw_comm (w : R) (n m r : Nat) : tw w n m r = tw w n r m := by
  unfold tw; rw [Nat.mul_comm]

/-! ### more on finite sums -/

theorem sumN_split (a b : Nat) (f : Nat → R) : sumN (a + b) f = sumN a f + sumN b (fun i => f (a + i)) := by
  induction b with
  | zero => simp [sumN]
  | succ b ih =>
    have : a + (b + 1) = (a + b) + 1 := by omega
    rw [this]
    simp only [sumN, ih]; ring

/-- a sum over a full period does not change under rotation of the index -/
theorem sumN_rotate (n s : Nat) (hs : s ≤ n) (g : Nat → R) : sumN n (fun k => g ((k + s) % n)) = sumN n g := by
  have hL : ∀ F : Nat → R, sumN n F = sumN (n - s) F + sumN s (fun i => F (n - s + i)) := by
    intro F
    have h := sumN_split (n - s) s F
    rwa [Nat.sub_add_cancel hs] at h
  have hR : sumN n g = sumN s g + sumN (n - s) (fun i => g (s + i)) := by
    have h := sumN_split s (n - s) g
    rwa [Nat.add_sub_cancel' hs] at h
  rw [hL, hR]
  have e1 : sumN (n - s) (fun k => g ((k + s) % n)) = sumN (n - s) (fun i => g (s + i)) := by
    apply sumN_congr
    intro k hk
    rw [Nat.mod_eq_of_lt (by omega), Nat.add_comm]
  have e2 : sumN s (fun i => g ((n - s + i + s) % n)) = sumN s g := by
    apply sumN_congr
    intro i hi
    have : n - s + i + s = i + n := by omega
    rw [this, Nat.add_mod_right, Nat.mod_eq_of_lt (by omega)]
  rw [e1, e2]; ring

theorem sumN_mul_sumN (n m : Nat) (f g : Nat → R) :
    sumN n f * sumN m g = sumN n (fun i => sumN m (fun j => f i * g j)) := by
  rw [← sumN_mul_right]
  apply sumN_congr
  intro i _
  rw [sumN_mul_left]

theorem sumBox_mul_left (ns : List Nat) (f : List Nat → R) (c : R) :
    sumBox ns (fun i => c * f i) = c * sumBox ns f := by
  rw [mul_comm, ← sumBox_mul_right]
  apply sumBox_congr
  intro i _; ring

theorem sumBox_zero (ns : List Nat) : sumBox ns (fun _ => (0 : R)) = 0 := by
  induction ns with
  | nil => rfl
  | cons n ns ih => simp only [sumBox, ih, sumN_zero]

/-- a box sum and a finite sum commute -/
theorem sumBox_sumN (ns : List Nat) (n : Nat) (h : Nat → List Nat → R) :
    sumBox ns (fun ms => sumN n (fun k => h k ms)) = sumN n (fun k => sumBox ns (h k)) := by
  induction ns generalizing h with
  | nil => rfl
  | cons n' ns ih =>
    simp only [sumBox]
    rw [sumN_congr n' _ _ (fun r _ => ih (fun k rs => h k (r :: rs)))]
    exact sumN_comm n' n _

/-- a box sum with a single non-zero term -/
theorem sumBox_single (ns : List Nat) (f : List Nat → R) (j : List Nat) (hj : inRange ns j = true)
    (h : ∀ i, inRange ns i = true → i ≠ j → f i = 0) : sumBox ns f = f j := by
  induction ns generalizing f j with
  | nil =>
    cases j with
    | nil => rfl
    | cons x xs => simp [inRange] at hj
  | cons n ns ih =>
    cases j with
    | nil => simp [inRange] at hj
    | cons j0 js =>
      rw [inRange_cons] at hj
      simp only [sumBox]
      rw [sumN_single n _ j0 hj.1]
      · apply ih _ js hj.2
        intro i hi hne
        exact h (j0 :: i) (by rw [inRange_cons]; exact ⟨hj.1, hi⟩) (by simpa using hne)
      · intro r hr hne
        rw [sumBox_congr ns _ (fun _ => 0), sumBox_zero]
        intro i hi
        exact h (r :: i) (by rw [inRange_cons]; exact ⟨hr, hi⟩) (by simp [hne])

/-- the sum over all cells does not change under `ifftshift` of the index -/
theorem sumBox_ishift (ns : List Nat) (g : List Nat → R) : sumBox ns (fun m => g (ishift ns m)) = sumBox ns g := by
  induction ns generalizing g with
  | nil => simp [sumBox, ishift]
  | cons n ns ih =>
    simp only [sumBox, ishift]
    rw [sumN_congr n _ _ (fun r _ => ih (fun x => g (((r + n / 2) % n) :: x)))]
    exact sumN_rotate n (n / 2) (Nat.div_le_self n 2) (fun r' => sumBox ns fun rs => g (r' :: rs))

/-- the sum over all cells does not change under `fftshift` of the index -/
theorem sumBox_fshift (ns : List Nat) (g : List Nat → R) : sumBox ns (fun m => g (fshift ns m)) = sumBox ns g := by
  induction ns generalizing g with
  | nil => simp [sumBox, fshift]
  | cons n ns ih =>
    simp only [sumBox, fshift]
    rw [sumN_congr n _ _ (fun r _ => ih (fun x => g (((r + (n - n / 2)) % n) :: x)))]
    exact sumN_rotate n (n - n / 2) (Nat.sub_le n _) (fun r' => sumBox ns fun rs => g (r' :: rs))

/-! ### forward ∘ inverse = id -/

/-- orthogonality, summed over the real-space index -/
theorem IsRoot.orth_sum' {n : Nat} {ρ : Root R} (h : IsRoot n ρ) (m k : Nat) (hm : m < n) (hk : k < n) :
    sumN n (fun r => tw ρ.w n m r * tw ρ.wi n r k) = if m = k then (n : R) else 0 := by
  rw [← h.orth_sum m k hm hk]
  apply sumN_congr
  intro r _
  rw [tw_comm ρ.w, tw_comm ρ.wi]

/-- forward ∘ inverse = identity, from the orthogonality hypothesis, for any number of axes -/
theorem dftN_idftN (ρs : List (Root R)) (ns : List Nat) (hρ : Roots ns ρs) (F : List Nat → R)
    (m : List Nat) (hm : inRange ns m = true) : dftN ρs ns (idftN ρs ns F) m = F m := by
  induction ns generalizing ρs F m with
  | nil =>
    cases m with
    | nil => simp [idftN, dftN]
    | cons x xs => simp [inRange] at hm
  | cons n ns ih =>
    cases m with
    | nil => simp [inRange] at hm
    | cons m0 ms =>
      rw [inRange_cons] at hm
      obtain ⟨hr, hrs⟩ := hρ
      rw [dftN_cons]
      simp only [List.headD_cons, List.tail_cons]
      -- the inner transform undoes the inner inverse
      have hin : ∀ r, dftN ρs.tail ns (fun rs => idftN ρs (n :: ns) F (r :: rs)) ms
          = (ρs.headD ⟨1, 1, 1⟩).ninv * sumN n fun k => F (k :: ms) * tw (ρs.headD ⟨1, 1, 1⟩).wi n r k := by
        intro r
        have e : (fun rs => idftN ρs (n :: ns) F (r :: rs))
            = idftN ρs.tail ns (fun ks => (ρs.headD ⟨1, 1, 1⟩).ninv *
                sumN n fun k => F (k :: ks) * tw (ρs.headD ⟨1, 1, 1⟩).wi n r k) := by
          funext rs
          rw [idftN_cons]
          simp only [List.headD_cons, List.tail_cons]
        rw [e, ih ρs.tail hrs _ ms hm.2]
      rw [sumN_congr n _ _ (fun r _ => by rw [hin r])]
      -- exchange the sums and use orthogonality
      have e1 : (sumN n fun r => ((ρs.headD ⟨1, 1, 1⟩).ninv *
              sumN n fun k => F (k :: ms) * tw (ρs.headD ⟨1, 1, 1⟩).wi n r k) * tw (ρs.headD ⟨1, 1, 1⟩).w n m0 r)
          = (ρs.headD ⟨1, 1, 1⟩).ninv * sumN n fun k => F (k :: ms) *
              sumN n fun r => tw (ρs.headD ⟨1, 1, 1⟩).w n m0 r * tw (ρs.headD ⟨1, 1, 1⟩).wi n r k := by
        rw [← sumN_mul_left]
        rw [sumN_congr n _ (fun r => sumN n fun k => (ρs.headD ⟨1, 1, 1⟩).ninv *
            (F (k :: ms) * (tw (ρs.headD ⟨1, 1, 1⟩).w n m0 r * tw (ρs.headD ⟨1, 1, 1⟩).wi n r k)))
          (fun r _ => by
            rw [mul_assoc, ← sumN_mul_right, ← sumN_mul_left]
            apply sumN_congr; intro k _; ring)]
        rw [sumN_comm]
        apply sumN_congr
        intro k _
        rw [sumN_mul_left, sumN_mul_left]
      rw [e1]
      rw [sumN_congr n _ (fun k => if k = m0 then F (k :: ms) * (n : R) else 0)
        (fun k hk => by
          rw [hr.orth_sum' m0 k hm.1 hk]
          by_cases hkm : k = m0
          · rw [if_pos hkm, if_pos hkm.symm]
          · rw [if_neg hkm, if_neg (fun e => hkm e.symm), mul_zero])]
      rw [sumN_single n _ m0 hm.1 (fun i _ hne => by simp [hne])]
      simp only [if_true]
      have := hr.ninv
      calc (ρs.headD ⟨1, 1, 1⟩).ninv * (F (m0 :: ms) * (n : R))
          = ((ρs.headD ⟨1, 1, 1⟩).ninv * (n : R)) * F (m0 :: ms) := by ring
        _ = F (m0 :: ms) := by rw [this, one_mul]

/-- `fftshift(fftn(ifftn(ifftshift(A)))) = A` on every cell and component -/
theorem fftn_ifftn_arr (ρs : List (Root R)) (nv : Nat) (a : NDA (List R)) (hρ : Roots a.shape ρs)
    (m : List Nat) (hm : inRange a.shape m = true) (c : Nat) (hc : c < nv) :
    compA (fftnArr ρs nv (ifftnArr ρs nv a)) c m = compA a c m := by
  rw [fftnArr_get _ _ _ _ _ hc]
  have hs : (ifftnArr ρs nv a).shape = a.shape := rfl
  rw [hs, dftN_congr ρs a.shape _ (idftN ρs a.shape (fun m' => compA a c (ishift a.shape m'))) _
    (fun j _ => ifftnArr_get _ _ _ _ _ hc)]
  rw [dftN_idftN ρs a.shape hρ _ _ (fshift_inRange a.shape m hm), ishift_fshift a.shape m hm]

/-! ### the inverse transform as one sum over the k-box -/

/-- `Π_a (1/n_a)` -/
def ninvProd : List (Root R) → List Nat → R
  | _, [] => 1
  | ρs, _ :: ns => (ρs.headD ⟨1, 1, 1⟩).ninv * ninvProd ρs.tail ns

/-- `Π_a wi_a^(j_a·k_a)` (exponents reduced mod `n_a`) -/
def twProdI : List (Root R) → List Nat → List Nat → List Nat → R
  | _, [], _, _ => 1
  | ρs, n :: ns, j, k => tw (ρs.headD ⟨1, 1, 1⟩).wi n (j.headD 0) (k.headD 0) * twProdI ρs.tail ns j.tail k.tail

/-- the axis-by-axis inverse is `Π(1/n_a) · Σ_k F[k] · Π_a wi_a^(j_a k_a)` -/
theorem idftN_eq_sumBox (ρs : List (Root R)) (ns : List Nat) (F : List Nat → R) (j : List Nat) :
    idftN ρs ns F j = ninvProd ρs ns * sumBox ns fun k => F k * twProdI ρs ns j k := by
  induction ns generalizing ρs F j with
  | nil => simp [idftN, sumBox, twProdI, ninvProd]
  | cons n ns ih =>
    rw [idftN_cons, ih]
    have key : sumBox ns (fun k => ((ρs.headD ⟨1, 1, 1⟩).ninv *
          sumN n (fun k0 => F (k0 :: k) * tw (ρs.headD ⟨1, 1, 1⟩).wi n (j.headD 0) k0)) * twProdI ρs.tail ns j.tail k)
        = (ρs.headD ⟨1, 1, 1⟩).ninv * sumN n (fun r => sumBox ns (fun rs =>
            F (r :: rs) * (tw (ρs.headD ⟨1, 1, 1⟩).wi n (j.headD 0) r * twProdI ρs.tail ns j.tail rs))) := by
      have h2 := sumBox_sumN ns n (fun r rs =>
        F (r :: rs) * (tw (ρs.headD ⟨1, 1, 1⟩).wi n (j.headD 0) r * twProdI ρs.tail ns j.tail rs))
      rw [← h2, ← sumBox_mul_left]
      apply sumBox_congr
      intro k _
      rw [mul_assoc, ← sumN_mul_right]
      congr 1
      apply sumN_congr
      intro k0 _
      ring
    rw [key]
    simp only [ninvProd, sumBox, twProdI, List.headD_cons, List.tail_cons]
    ring

/-! ### the inverse roots form a root structure too -/

/-- the same parameters with the roles of `w` and `wi` exchanged -/
def Root.swap (ρ : Root R) : Root R := ⟨ρ.wi, ρ.w, ρ.ninv⟩

theorem IsRoot.wi_pow_eq {n : Nat} {ρ : Root R} (h : IsRoot n ρ) (j k : Nat) (hk : k ≤ n) :
    ρ.wi ^ (j * k) = ρ.w ^ (j * (n - k)) := by
  have h1 : ρ.w ^ (j * k) * ρ.wi ^ (j * k) = 1 := by rw [← mul_pow, h.inv, one_pow]
  have h2 : ρ.w ^ (j * (n - k)) * ρ.w ^ (j * k) = 1 := by
    rw [← pow_add, ← Nat.mul_add, Nat.sub_add_cancel hk, Nat.mul_comm, pow_mul, h.pow_n, one_pow]
  calc ρ.wi ^ (j * k) = (ρ.w ^ (j * (n - k)) * ρ.w ^ (j * k)) * ρ.wi ^ (j * k) := by rw [h2, one_mul]
    _ = ρ.w ^ (j * (n - k)) * (ρ.w ^ (j * k) * ρ.wi ^ (j * k)) := by ring
    _ = ρ.w ^ (j * (n - k)) := by rw [h1, mul_one]

theorem IsRoot.swap {n : Nat} {ρ : Root R} (h : IsRoot n ρ) : IsRoot n ρ.swap := by
  refine ⟨h.wi_pow_n, ?_, h.ninv, ?_⟩
  · show ρ.wi * ρ.w = 1
    rw [mul_comm]; exact h.inv
  · intro k hk hkn
    show sumN n (fun j => ρ.wi ^ (j * k)) = 0
    rw [sumN_congr n _ _ (fun j _ => h.wi_pow_eq j k (by omega))]
    exact h.orth (n - k) (by omega) (by omega)

theorem headD_swap (ρs : List (Root R)) :
    (ρs.map Root.swap).headD ⟨1, 1, 1⟩ = (ρs.headD ⟨1, 1, 1⟩).swap := by
  cases ρs <;> rfl

omit [CommRing R] in
theorem tail_swap (ρs : List (Root R)) : (ρs.map Root.swap).tail = ρs.tail.map Root.swap := by
  cases ρs <;> simp

theorem Roots.swap (ns : List Nat) (ρs : List (Root R)) (h : Roots ns ρs) : Roots ns (ρs.map Root.swap) := by
  induction ns generalizing ρs with
  | nil => trivial
  | cons n ns ih =>
    obtain ⟨hr, hrs⟩ := h
    refine ⟨?_, ?_⟩
    · rw [headD_swap]; exact hr.swap
    · rw [tail_swap]; exact ih ρs.tail hrs

theorem twProdI_eq (ρs : List (Root R)) (ns j k : List Nat) :
    twProdI ρs ns j k = twProd (ρs.map Root.swap) ns k j := by
  induction ns generalizing ρs j k with
  | nil => simp [twProdI, twProd]
  | cons n ns ih =>
    simp only [twProdI, twProd]
    rw [headD_swap, tail_swap, ih, tw_comm]
    rfl

/-- **the inverse transform at a real-space cell**: `ifftn(ifftshift(A))[j] = Π(1/n_a) · Σ_m
A[m] · Π_a wi_a^(m_a j_a) · w_a^(⌊n_a/2⌋ j_a)` — the sum over all k-cells `m` of
`A[m]·exp(+2πi k_m·r_j)` with `k_m` the centre of k-cell `m` -/
theorem ifftnArr_is_idft (ρs : List (Root R)) (nv : Nat) (a : NDA (List R)) (hρ : Roots a.shape ρs)
    (j : List Nat) (c : Nat) (hc : c < nv) :
    compA (ifftnArr ρs nv a) c j
      = ninvProd ρs a.shape * sumBox a.shape fun m => compA a c m * phase (ρs.map Root.swap) a.shape m j := by
  rw [ifftnArr_get _ _ _ _ _ hc, idftN_eq_sumBox]
  congr 1
  rw [← sumBox_ishift a.shape (fun m => compA a c m * phase (ρs.map Root.swap) a.shape m j)]
  apply sumBox_congr
  intro m hm
  rw [twProdI_eq, ← twProd_fshift _ _ (Roots.swap _ _ hρ) _ _ (ishift_inRange _ _ hm), fshift_ishift _ _ hm]

/-! ### Plancherel / Parseval -/

/-- `ρs'` carries as `w` the inverse roots of `ρs` -/
def InvOf : List Nat → List (Root R) → List (Root R) → Prop
  | [], _, _ => True
  | _ :: ns, ρs, ρs' => (ρs'.headD ⟨1, 1, 1⟩).w = (ρs.headD ⟨1, 1, 1⟩).wi ∧ InvOf ns ρs.tail ρs'.tail

theorem plancherel1 {n : Nat} {ρ : Root R} (h : IsRoot n ρ) (a b : Nat → R) :
    sumN n (fun k => sumN n (fun r => a r * tw ρ.w n k r) * sumN n (fun s => b s * tw ρ.wi n k s))
      = (n : R) * sumN n (fun r => a r * b r) := by
  have e1 : ∀ k, sumN n (fun r => a r * tw ρ.w n k r) * sumN n (fun s => b s * tw ρ.wi n k s)
      = sumN n (fun r => sumN n (fun s => (a r * b s) * (tw ρ.w n k r * tw ρ.wi n s k))) := by
    intro k
    rw [sumN_mul_sumN]
    apply sumN_congr; intro r _
    apply sumN_congr; intro s _
    rw [tw_comm ρ.wi n k s]; ring
  rw [sumN_congr n _ _ (fun k _ => e1 k), sumN_comm]
  rw [sumN_congr n _ (fun r => a r * b r * (n : R))]
  · rw [sumN_mul_right]; ring
  · intro r hr
    rw [sumN_comm]
    rw [sumN_congr n _ (fun s => if s = r then a r * b s * (n : R) else 0)]
    · rw [sumN_single n _ r hr (fun i _ hne => by simp [hne])]; simp
    · intro s hs
      rw [sumN_mul_left, h.orth_sum r s hr hs]
      by_cases hsr : s = r
      · rw [if_pos hsr, if_pos hsr.symm]
      · rw [if_neg hsr, if_neg (fun e => hsr e.symm), mul_zero]

/-- **Plancherel, bilinear form**: `Σ_k F[k]·G'[k] = N · Σ_r f[r]·g[r]` where `F` is the
transform of `f` and `G'` the transform of `g` with the inverse roots -/
theorem plancherel (ρs ρs' : List (Root R)) (ns : List Nat) (hρ : Roots ns ρs) (hi : InvOf ns ρs ρs')
    (f g : List Nat → R) :
    sumBox ns (fun k => dftN ρs ns f k * dftN ρs' ns g k) = (natProd ns : R) * sumBox ns (fun r => f r * g r) := by
  induction ns generalizing ρs ρs' f g with
  | nil => simp [sumBox, dftN, natProd]
  | cons n ns ih =>
    obtain ⟨hr, hrs⟩ := hρ
    obtain ⟨hi0, his⟩ := hi
    simp only [sumBox, dftN_cons, List.headD_cons, List.tail_cons]
    have h2 := sumBox_sumN ns n (fun k0 ks =>
      (sumN n fun r => dftN ρs.tail ns (fun rs => f (r :: rs)) ks * tw (ρs.headD ⟨1, 1, 1⟩).w n k0 r) *
      (sumN n fun r => dftN ρs'.tail ns (fun rs => g (r :: rs)) ks * tw (ρs'.headD ⟨1, 1, 1⟩).w n k0 r))
    rw [← h2]
    rw [sumBox_congr ns _ (fun ks => (n : R) * sumN n fun r =>
        dftN ρs.tail ns (fun rs => f (r :: rs)) ks * dftN ρs'.tail ns (fun rs => g (r :: rs)) ks)
      (fun ks _ => by rw [hi0]; exact plancherel1 hr _ _)]
    rw [sumBox_mul_left, sumBox_sumN]
    rw [sumN_congr n _ _ (fun r _ => ih ρs.tail ρs'.tail hrs his (fun rs => f (r :: rs)) (fun rs => g (r :: rs)))]
    rw [sumN_mul_left]
    simp only [natProd]
    push_cast
    ring

theorem IsConj.isHom {conj : R → R} (h : IsConj conj) : IsHom conj :=
  ⟨h.map_zero, h.map_one, h.map_add, h.map_mul⟩

theorem InvOf_conj (conj : R → R) (ns : List Nat) (ρs : List (Root R)) (hcr : ConjRoots conj ns ρs) :
    InvOf ns ρs (ρs.map (Root.map conj)) := by
  induction ns generalizing ρs with
  | nil => trivial
  | cons n ns ih =>
    obtain ⟨h0, hs⟩ := hcr
    refine ⟨?_, ?_⟩
    · cases ρs with
      | nil => rfl
      | cons ρ ρs => exact h0
    · rw [map_tail']; exact ih ρs.tail hs

/-- **Parseval / Plancherel with conjugation**: `Σ_k F[k]·conj G[k] = N · Σ_r f[r]·conj g[r]` -/
theorem parseval (conj : R → R) (hc : IsConj conj) (ρs : List (Root R)) (ns : List Nat) (hρ : Roots ns ρs)
    (hcr : ConjRoots conj ns ρs) (f g : List Nat → R) :
    sumBox ns (fun k => dftN ρs ns f k * conj (dftN ρs ns g k))
      = (natProd ns : R) * sumBox ns (fun r => f r * conj (g r)) := by
  rw [← plancherel ρs (ρs.map (Root.map conj)) ns hρ (InvOf_conj conj ns ρs hcr) f (fun r => conj (g r))]
  apply sumBox_congr
  intro k _
  rw [hc.isHom.dftN]

/-- Parseval for the shifted arrays `Field.fftn` holds -/
theorem parseval_fftnArr (conj : R → R) (hc : IsConj conj) (ρs : List (Root R)) (nv : Nat) (a b : NDA (List R))
    (hs : b.shape = a.shape) (hρ : Roots a.shape ρs) (hcr : ConjRoots conj a.shape ρs) (c : Nat) (hcv : c < nv) :
    sumBox a.shape (fun m => compA (fftnArr ρs nv a) c m * conj (compA (fftnArr ρs nv b) c m))
      = (natProd a.shape : R) * sumBox a.shape (fun r => compA a c r * conj (compA b c r)) := by
  rw [← parseval conj hc ρs a.shape hρ hcr]
  rw [← sumBox_fshift a.shape (fun k => dftN ρs a.shape (compA a c) k * conj (dftN ρs a.shape (compA b c) k))]
  apply sumBox_congr
  intro m _
  rw [fftnArr_get _ _ _ _ _ hcv, fftnArr_get _ _ _ _ _ hcv, hs]

/-! ### Hermitian symmetry in the shifted coordinates of `Field.fftn` -/

/-- the k-cell of the opposite frequency: unshift, negate mod the counts, shift back -/
def mirror (ns m : List Nat) : List Nat := ishift ns (negIdx ns (fshift ns m))

theorem mirror_inRange (ns m : List Nat) (hm : inRange ns m = true) : inRange ns (mirror ns m) = true :=
  ishift_inRange _ _ (negIdx_inRange _ _ (fshift_inRange _ _ hm))

/-- the spectrum of conj-fixed ("real") data is Hermitian: the cell of frequency `-k` holds the
conjugate of the cell of frequency `k` -/
theorem fftnArr_hermitian (conj : R → R) (hc : IsConj conj) (ρs : List (Root R)) (nv : Nat) (a : NDA (List R))
    (hρ : Roots a.shape ρs) (hcr : ConjRoots conj a.shape ρs) (hreal : ∀ i c, conj (compA a c i) = compA a c i)
    (m : List Nat) (hm : inRange a.shape m = true) (c : Nat) (hcv : c < nv) :
    conj (compA (fftnArr ρs nv a) c (mirror a.shape m)) = compA (fftnArr ρs nv a) c m := by
  rw [fftnArr_get _ _ _ _ _ hcv, fftnArr_get _ _ _ _ _ hcv]
  unfold mirror
  rw [fshift_ishift _ _ (negIdx_inRange _ _ (fshift_inRange _ _ hm))]
  exact conj_dftN_neg conj hc ρs a.shape hρ hcr (compA a c) (fun i => hreal i c) _ (fshift_inRange _ _ hm)

/-- per axis the mirror index is `(2⌊n/2⌋ - m) mod n`: frequency `(m - ⌊n/2⌋)/(n·cell)` goes to
`-(m - ⌊n/2⌋)/(n·cell)` (for even `n` the Nyquist cell `m = 0` is its own mirror) -/
theorem mirror1_closed (n m : Nat) (hm : m < n) :
    ((n - ((m + (n - n / 2)) % n) % n) % n + n / 2) % n = (2 * (n / 2) - m) % n := by
  by_cases h1 : m + (n - n / 2) < n
  · rw [Nat.mod_eq_of_lt h1, Nat.mod_eq_of_lt h1]
    have h2 : n - (m + (n - n / 2)) < n := by omega
    rw [Nat.mod_eq_of_lt h2]
    congr 1; omega
  · have e : (m + (n - n / 2)) % n = m - n / 2 := by
      rw [Nat.mod_eq_sub_mod (by omega), Nat.mod_eq_of_lt (by omega)]; omega
    rw [e, Nat.mod_eq_of_lt (by omega : m - n / 2 < n)]
    by_cases h3 : m = n / 2
    · have : n - (m - n / 2) = n := by omega
      rw [this, Nat.mod_self, h3]
      congr 1; omega
    · have h4 : n - (m - n / 2) < n := by omega
      rw [Nat.mod_eq_of_lt h4]
      have : n - (m - n / 2) + n / 2 = (2 * (n / 2) - m) + n := by omega
      rw [this, Nat.add_mod_right]

theorem mirror_getD (ns m : List Nat) (hm : inRange ns m = true) (a : Nat) (ha : a < ns.length) :
    (mirror ns m).getD a 0 = (2 * (ns.getD a 0 / 2) - m.getD a 0) % ns.getD a 0 := by
  unfold mirror
  induction ns generalizing m a with
  | nil => simp at ha
  | cons n ns ih =>
    cases m with
    | nil => simp [inRange] at hm
    | cons j js =>
      rw [inRange_cons] at hm
      cases a with
      | zero =>
        simp only [fshift, negIdx, ishift, List.getD_cons_zero]
        exact mirror1_closed n j hm.1
      | succ a =>
        simp only [fshift, negIdx, ishift, List.getD_cons_succ]
        exact ih js hm.2 a (by simpa using ha)

/-! ### the transform of a field that is non-zero in one cell -/

/-- a field that is `v` in cell `r0` and 0 elsewhere transforms to `v · Π_a w_a^(m_a·r0_a)` -/
theorem dftN_delta (ρs : List (Root R)) (ns : List Nat) (r0 : List Nat) (hr : inRange ns r0 = true) (v : R)
    (f : List Nat → R) (h0 : f r0 = v) (hf : ∀ i, inRange ns i = true → i ≠ r0 → f i = 0) (m : List Nat) :
    dftN ρs ns f m = v * twProd ρs ns m r0 := by
  rw [dftN_eq_sumBox, sumBox_single ns _ r0 hr (fun i hi hne => by rw [hf i hi hne, zero_mul]), h0]

/-! ### real forward ∘ real inverse = id -/

theorem inRange_of_getD (ns is : List Nat) (hl : is.length = ns.length)
    (h : ∀ a, a < ns.length → is.getD a 0 < ns.getD a 0) : inRange ns is = true := by
  induction ns generalizing is with
  | nil => cases is with
    | nil => rfl
    | cons x xs => simp at hl
  | cons n ns ih =>
    cases is with
    | nil => simp at hl
    | cons i is =>
      rw [inRange_cons]
      refine ⟨by simpa using h 0 (by simp), ih is (by simpa using hl) ?_⟩
      intro a ha
      simpa using h (a + 1) (by simpa using ha)

theorem getLastD_cons_getD (xs : List Nat) (x : Nat) : xs.getLastD x = (x :: xs).getD xs.length 0 := by
  induction xs generalizing x with
  | nil => rfl
  | cons y ys ih =>
    rw [List.getLastD_cons]
    show ys.getLastD y = (y :: ys).getD ys.length 0
    exact ih y

theorem getLastD_eq_getD (l : List Nat) : l.getLastD 0 = l.getD (l.length - 1) 0 := by
  cases l with
  | nil => rfl
  | cons x xs =>
    simp only [List.getLastD_cons, List.length_cons, Nat.add_sub_cancel]
    exact getLastD_cons_getD xs x

theorem fshiftR_getD (ns m : List Nat) (a : Nat) (ha : a < m.length) :
    (fshiftR ns m).getD a 0
      = if a + 1 = m.length then m.getD a 0 else (m.getD a 0 + (ns.getD a 0 - ns.getD a 0 / 2)) % ns.getD a 0 := by
  unfold fshiftR; rw [getD_tab _ _ _ _ ha]

theorem fshiftR_length (ns m : List Nat) : (fshiftR ns m).length = m.length := by simp [fshiftR]

/-- the half-spectrum index, unshifted, is an index of the full box -/
theorem fshiftR_inRange (ns m : List Nat) (hpos : ∀ n ∈ ns, 0 < n) (h : inRange (halfShape ns) m = true) :
    inRange ns (fshiftR ns m) = true := by
  have hlen : m.length = ns.length := by rw [inRange_length _ _ h, halfShape_length]
  apply inRange_of_getD _ _ (by rw [fshiftR_length, hlen])
  intro a ha
  rw [fshiftR_getD ns m a (by omega)]
  have hn := pos_getD ns hpos a ha
  by_cases hlast : a + 1 = m.length
  · rw [if_pos hlast]
    have hb := inRange_getD _ _ h a (by rw [halfShape_length]; exact ha)
    rw [halfShape_getD ns a ha, if_pos (by omega)] at hb
    omega
  · rw [if_neg hlast]; exact Nat.mod_lt _ hn

theorem ishiftR_fshiftR (ns m : List Nat) (h : inRange (halfShape ns) m = true) :
    ishiftR (halfShape ns) (fshiftR ns m) = m := by
  have hlen : m.length = ns.length := by rw [inRange_length _ _ h, halfShape_length]
  unfold ishiftR
  rw [fshiftR_length]
  symm
  apply eq_tab_of_getD m _ _ 0 rfl
  intro a ha
  rw [fshiftR_getD ns m a ha]
  by_cases hlast : a + 1 = m.length
  · rw [if_pos hlast, if_pos hlast]
  · rw [if_neg hlast, if_neg hlast, halfShape_getD ns a (by omega), if_neg (by omega)]
    have hb := inRange_getD _ _ h a (by rw [halfShape_length]; omega)
    rw [halfShape_getD ns a (by omega), if_neg (by omega)] at hb
    exact (shift1_inv' _ _ hb).symm

theorem fshiftR_last_le (ns m : List Nat) (h : inRange (halfShape ns) m = true) :
    (fshiftR ns m).getLastD 0 ≤ ns.getLastD 0 / 2 := by
  have hlen : m.length = ns.length := by rw [inRange_length _ _ h, halfShape_length]
  rw [getLastD_eq_getD, getLastD_eq_getD, fshiftR_length]
  by_cases h0 : m.length = 0
  · have : (fshiftR ns m) = [] := List.eq_nil_of_length_eq_zero (by rw [fshiftR_length]; exact h0)
    rw [this]; simp
  · rw [fshiftR_getD ns m _ (by omega), if_pos (by omega)]
    have hb := inRange_getD _ _ h (m.length - 1) (by rw [halfShape_length]; omega)
    rw [halfShape_getD ns _ (by omega), if_pos (by omega), hlen] at hb
    rw [hlen]
    omega

/-- `rfftn(irfftn(G, s)) = G` on every cell of a half spectrum `G` of shape `halfShape s`: the
real forward transform reads back exactly the half the inverse was built from -/
theorem rfftn_irfftn_arr (conj : R → R) (ρs : List (Root R)) (nv : Nat) (s : List Nat) (a : NDA (List R))
    (hs : a.shape = halfShape s) (hpos : ∀ n ∈ s, 0 < n) (hρ : Roots s ρs)
    (m : List Nat) (hm : inRange (halfShape s) m = true) (c : Nat) (hc : c < nv) :
    compA (rfftnArr ρs nv (irfftnArr conj ρs nv s a)) c m = compA a c m := by
  rw [rfftnArr_get _ _ _ _ _ hc]
  have hsh : (irfftnArr conj ρs nv s a).shape = s := rfl
  rw [hsh, dftN_congr ρs s _ (idftN ρs s (hermExt conj s fun m' => compA a c (ishiftR a.shape m'))) _
    (fun j _ => irfftnArr_get _ _ _ _ _ _ _ hc)]
  rw [dftN_idftN ρs s hρ _ _ (fshiftR_inRange s m hpos hm)]
  unfold hermExt
  rw [if_pos (fshiftR_last_le s m hm), hs]
  show compA a c (ishiftR (halfShape s) (fshiftR s m)) = _
  rw [ishiftR_fshiftR s m hm]

/-! ### the real forward transform as one sum -/

/-- phase of the real transform: like `phase` on every axis but the last, where the index is
not shifted: `Π_{a<last} w_a^(m_a r_a)·wi_a^(⌊n_a/2⌋ r_a) · w_last^(m_last r_last)` -/
def phaseR : List (Root R) → List Nat → List Nat → List Nat → R
  | _, [], _, _ => 1
  | ρs, n :: ns, m, r =>
    (if ns = [] then (ρs.headD ⟨1, 1, 1⟩).w ^ (m.headD 0 * r.headD 0)
     else (ρs.headD ⟨1, 1, 1⟩).w ^ (m.headD 0 * r.headD 0) * (ρs.headD ⟨1, 1, 1⟩).wi ^ (n / 2 * r.headD 0)) *
      phaseR ρs.tail ns m.tail r.tail

omit [CommRing R] in
theorem tab_succ' {α} (n : Nat) (f : Nat → α) : tab (n + 1) f = f 0 :: tab n (fun a => f (a + 1)) := by
  simp [tab, List.range_succ_eq_map, Function.comp_def]

theorem fshiftR_cons (n : Nat) (ns : List Nat) (j : Nat) (js : List Nat) :
    fshiftR (n :: ns) (j :: js) = (if js = [] then j else (j + (n - n / 2)) % n) :: fshiftR ns js := by
  unfold fshiftR
  rw [List.length_cons, tab_succ']
  congr 1
  · simp only [List.getD_cons_zero]
    by_cases h : js = []
    · subst h; simp
    · have : ¬ (0 + 1 = js.length + 1) := by
        intro e; apply h; exact List.eq_nil_of_length_eq_zero (by omega)
      rw [if_neg this, if_neg h]
  · apply tab_congr
    intro a _
    simp only [List.getD_cons_succ]
    by_cases h : a + 1 = js.length
    · rw [if_pos h, if_pos (by omega)]
    · rw [if_neg h, if_neg (by omega)]

theorem halfShape_cons (n : Nat) (ns : List Nat) (h : ns ≠ []) : halfShape (n :: ns) = n :: halfShape ns := by
  unfold halfShape
  rw [List.length_cons, tab_succ']
  congr 1
  · have : ¬ (0 + 1 = ns.length + 1) := by
      intro e; apply h; exact List.eq_nil_of_length_eq_zero (by omega)
    rw [if_neg this]; rfl
  · apply tab_congr
    intro a _
    simp only [List.getD_cons_succ]
    by_cases h : a + 1 = ns.length
    · rw [if_pos h, if_pos (by omega)]
    · rw [if_neg h, if_neg (by omega)]

theorem twProd_fshiftR (ρs : List (Root R)) (ns : List Nat) (hρ : Roots ns ρs) (m r : List Nat)
    (hm : inRange (halfShape ns) m = true) : twProd ρs ns (fshiftR ns m) r = phaseR ρs ns m r := by
  induction ns generalizing ρs m r with
  | nil => simp [twProd, phaseR]
  | cons n ns ih =>
    have hlen : m.length = (n :: ns).length := by rw [inRange_length _ _ hm, halfShape_length]
    cases m with
    | nil => simp at hlen
    | cons j js =>
      obtain ⟨hr, hrs⟩ := hρ
      rw [fshiftR_cons]
      simp only [twProd, phaseR, List.headD_cons, List.tail_cons]
      by_cases hns : ns = []
      · subst hns
        have hjs : js = [] := List.eq_nil_of_length_eq_zero (by simpa using hlen)
        subst hjs
        simp only [if_true, twProd, phaseR, mul_one]
        rw [tw_eq _ _ _ _ hr.pow_n]
      · have hjs : js ≠ [] := by
          intro e; subst e; apply hns; exact List.eq_nil_of_length_eq_zero (by simpa using hlen.symm)
        rw [if_neg hjs, if_neg hns]
        rw [halfShape_cons n ns hns, inRange_cons] at hm
        rw [tw_shift hr j _ hm.1, ih ρs.tail hrs js r.tail hm.2]

/-- `fftshift(rfftn(a), axes[:-1])[m] = Σ_r a[r] · phaseR(m, r)` -/
theorem rfftnArr_is_dft (ρs : List (Root R)) (nv : Nat) (a : NDA (List R)) (hρ : Roots a.shape ρs)
    (m : List Nat) (hm : inRange (halfShape a.shape) m = true) (c : Nat) (hc : c < nv) :
    compA (rfftnArr ρs nv a) c m = sumBox a.shape fun r => compA a c r * phaseR ρs a.shape m r := by
  rw [rfftnArr_get _ _ _ _ _ hc, dftN_eq_sumBox]
  apply sumBox_congr
  intro r _
  rw [twProd_fshiftR ρs a.shape hρ m r hm]

end DFV.C11
