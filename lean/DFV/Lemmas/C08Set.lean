import DFV.Lemmas.C08Prog
/-! C08 helper lemmas, part 4: the `'norm'` threshold, geometry-free nearest-cell lookup, data
and validity moved by one map, padding keeps the original cells, the field-level setter. -/
namespace DFV.C08
open DFV

/-! ## `~np.isclose(norm, 0)` on squared lengths -/

theorem atol_pos : (0 : Rat) < atol := by unfold atol; norm_num

theorem absR_nonneg_eq (r : Rat) (h : 0 ≤ r) : absR r = r := by
  unfold absR
  rw [if_neg (by linarith)]

theorem absR_zero : absR 0 = 0 := by unfold absR; simp

/-- `~np.isclose(r, 0)` for a length `r ≥ 0` (any `rtol`): true exactly when the SQUARED length
exceeds `atol²` -/
theorem not_isclose_zero_iff (r rtol : Rat) (hr : 0 ≤ r) :
    (!Region.isclose r 0 rtol atol) = decide (atol * atol < r * r) := by
  have ha := atol_pos
  unfold Region.isclose
  rw [sub_zero, absR_nonneg_eq r hr, absR_zero, mul_zero, add_zero]
  by_cases h : r ≤ atol
  · have : ¬ (atol * atol < r * r) := by nlinarith
    simp [h, this]
  · have h' : atol < r := lt_of_not_ge h
    have : atol * atol < r * r := by nlinarith
    simp [h, this]

/-! ## nearest-cell lookup does not depend on where the region lies or how long it is -/

theorem absR_scale (E y : Rat) (hE : 0 < E) : absR (E * y) = E * absR y := by
  unfold absR
  by_cases h : y < 0
  · have : E * y < 0 := by nlinarith
    rw [if_pos this, if_pos h]; ring
  · have : ¬ E * y < 0 := by
      have : 0 ≤ E * y := mul_nonneg hE.le (not_lt.mp h)
      linarith
    rw [if_neg this, if_neg h]

theorem nearestUpTo_affine (cs : Nat → Rat) (x lo E : Rat) (hE : 0 < E) (m : Nat) :
    nearestUpTo (fun k => lo + E * cs k) (lo + E * x) m = nearestUpTo cs x m := by
  induction m with
  | zero => rfl
  | succ k ih =>
    unfold nearestUpTo
    rw [ih]
    have e1 : lo + E * cs (k + 1) - (lo + E * x) = E * (cs (k + 1) - x) := by ring
    have e2 : lo + E * cs (nearestUpTo cs x k) - (lo + E * x) = E * (cs (nearestUpTo cs x k) - x) := by ring
    simp only [e1, e2, absR_scale _ _ hE]
    by_cases c : absR (cs (k + 1) - x) ≤ absR (cs (nearestUpTo cs x k) - x)
    · rw [if_pos c, if_pos (mul_le_mul_of_nonneg_left c hE.le)]
    · rw [if_neg c, if_neg (fun h => c (le_of_mul_le_mul_left h hE))]

/-- centre of cell `k` of `n` cells on the edge `[lo, lo + E]` -/
theorem centre_affine (lo E : Rat) (n k : Nat) :
    lo + ((k : Rat) + 1 / 2) * (E / (n : Rat)) = lo + E * centre01 n k := by
  unfold centre01; ring

/-! ## one map for values and validity -/

theorem zip_shape {τ} (data : NDA τ) (valid : Mask) : (NDA.zipWith Prod.mk data valid).shape = data.shape := rfl

theorem apply_zip {τ} (op : MapOp) (data : NDA τ) (valid : Mask) (fd : τ) (hsh : valid.shape = data.shape)
    (hok : op.ok data.shape = true) (j : List Nat) (hj : inRange (op.shape data.shape) j = true) :
    (op.apply (NDA.zipWith Prod.mk data valid) (fd, false)).get j =
      ((op.apply data fd).get j, (op.apply valid false).get j) := by
  rw [apply_get op (NDA.zipWith Prod.mk data valid) (fd, false) (by rw [zip_shape]; exact hok) j
        (by rw [zip_shape]; exact hj),
      apply_get op data fd hok j hj,
      apply_get op valid false (by rw [hsh]; exact hok) j (by rw [hsh]; exact hj)]
  rw [zip_shape, hsh]
  cases op.src data.shape j with
  | none => rfl
  | some i => rfl

/-! ## padding keeps the original cells -/

theorem pad_src_inside (mode : PadMode) (w : List (Nat × Nat)) (s j : List Nat) (hj : j.length = s.length)
    (hin : ∀ b, b < s.length → (w.getD b (0, 0)).1 ≤ j.getD b 0 ∧ j.getD b 0 < (w.getD b (0, 0)).1 + s.getD b 0) :
    (MapOp.pad mode w).src s j = some (tab s.length fun b => j.getD b 0 - (w.getD b (0, 0)).1) := by
  simp only [MapOp.src]
  have hall : allLt s.length (fun b => (padSrc mode (s.getD b 0) (w.getD b (0, 0)).1 (j.getD b 0)).isSome) = true := by
    rw [allLt_iff]
    intro b hb
    rw [padSrc_inside mode _ _ _ (hin b hb).1 (hin b hb).2]; rfl
  rw [if_pos hall]
  congr 1
  apply tab_congr
  intro b hb
  rw [padSrc_inside mode _ _ _ (hin b hb).1 (hin b hb).2]; rfl

/-- the index `j ++ [0]` of the `(*n, 1)`-shaped array the setter builds -/
theorem inRange_snoc_one (n j : List Nat) (h : inRange n j = true) : inRange (n ++ [1]) (j ++ [0]) = true := by
  induction n generalizing j with
  | nil =>
    cases j with
    | nil => simp [inRange]
    | cons y ys => simp [inRange] at h
  | cons x xs ih =>
    cases j with
    | nil => simp [inRange] at h
    | cons y ys =>
      simp only [List.cons_append, inRange, Bool.and_eq_true] at h ⊢
      exact ⟨h.1, ih ys h.2⟩

/-! ## the setter at field level -/

theorem setValid_ok (f g : Fld) (s : VSpec) (h : setValid f s = .ok g) :
    ∃ m, setMask f.mesh.n (toMSpec f s) = .ok m ∧ g = { f with valid := m } := by
  unfold setValid at h
  split at h
  · cases h
  · rename_i m hm
    simp only [Except.ok.injEq] at h
    exact ⟨m, hm, h.symm⟩

end DFV.C08
