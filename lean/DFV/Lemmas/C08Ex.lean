import DFV.Lemmas.C08Subst
/-! Concrete instances used by the non-vacuity `example`s of `Props/C08.lean`. -/
namespace DFV.C08
open DFV

/-- two input fields on a 2×3 mesh -/
def exEnv : Nat → Mask := fun k =>
  if k = 0 then NDA.ofList [2, 3] [true, false, true, true, true, false] false
  else NDA.ofList [2, 3] [true, true, false, true, false, false] false

/-- flat C-order listing of an evaluation result (`none` = rejected) -/
def run (p : Prog) : Option (List Nat × List Bool) :=
  match eval exEnv p with
  | .ok m => some (m.shape, m.toList)
  | .error _ => none

/-- a 3-d input for the VTK round trip -/
def exEnv3 : Nat → Mask := fun _ => NDA.ofList [2, 1, 2] [true, false, false, true] false

def exFld : Fld :=
  { mesh := { region := { pmin := [0, 0], pmax := [2, 1], dims := ["x", "y"], units := ["m", "m"], tol := 0 },
              n := [2, 1], bc := "", subs := [] },
    nvdim := 2,
    data := NDA.ofList [2, 1] [[3 / 1000000000, 4 / 1000000000], [6 / 1000000000, 9 / 1000000000]] [],
    valid := NDA.const [2, 1] true, vdims := none, vmap := [], unit := none }

end DFV.C08
