import DFV.Lemmas.C07SubsOk
/-! Helpers of the second round of `Props/C07.lean`: the invariant "every subregion consists of
whole cells", list / arithmetic lemmas for the composition laws stated on inputs only, the
multi-index map of `np.pad` from its per-axis maps, `region2slices` in closed form. -/
namespace DFV.C07
open DFV DFV.Mesh

/-- every subregion of the mesh is a box of whole cells (what the subregion setter enforces) -/
def SubsAligned (m : Mesh) : Prop := ∀ p, p ∈ m.subs → ∃ k1 k2, SubAligned m p.2 k1 k2

theorem forall2_mem_left {α β} {R : α → β → Prop} {l : List α} {u : List β} (h : List.Forall₂ R l u) :
    ∀ q, q ∈ l → ∃ p, p ∈ u ∧ R q p := by
  induction h with
  | nil => intro q hq; cases hq
  | cons hr _ ih =>
    intro q hq
    rcases List.mem_cons.mp hq with rfl | hq'
    · exact ⟨_, List.mem_cons_self .., hr⟩
    · obtain ⟨p, hp, hrp⟩ := ih q hq'
      exact ⟨p, List.mem_cons_of_mem _ hp, hrp⟩

theorem subsAligned_wf (m : Mesh) (hm : m.Inv) (h : SubsAligned m) : SubsWF m := by
  intro p hp
  obtain ⟨k1, k2, hal⟩ := h p hp
  obtain ⟨a1, a2, a3⟩ := aligned_wf m hm p.2 k1 k2 hal
  exact ⟨a1, a2, fun b hb => (a3 b hb).le⟩

/-- `⌊⌊a·(r·n) / 2q⌋ / r⌋ = ⌊a·n / 2q⌋` -/
theorem via_div (a n r q : Nat) (hr : 0 < r) : (a * (r * n)) / (2 * q) / r = (a * n) / (2 * q) := by
  rw [Nat.div_div_eq_div_mul]
  have : a * (r * n) = (a * n) * r := by ring
  rw [this, Nat.mul_div_mul_right _ _ hr]

theorem inRange_tab (ns : List Nat) (N : Nat) (hN : ns.length = N) (i : Nat → Nat)
    (h : ∀ b, b < N → i b < ns.getD b 0) : inRange ns (tab N i) = true := by
  apply inRange_of_getD _ _ (by rw [tab_length, hN])
  intro b hb
  rw [hN] at hb
  rw [getD_tab _ _ _ _ hb]; exact h b hb

/-! ### `np.pad` -/

/-- per-axis source indices -> the multi-index map of `np.pad` -/
theorem padSrcIdx_some (mode : PadMode) (shape : List Nat) (w : Nat → Int × Int) (j : List Nat) (i : Nat → Nat)
    (hi : ∀ b, b < shape.length → padSrc mode (shape.getD b 0) (w b).1.toNat (j.getD b 0) = some (i b)) :
    padSrcIdx mode shape w j = some (tab shape.length i) := by
  unfold padSrcIdx
  have hall : allLt shape.length (fun b =>
      (padSrc mode (shape.getD b 0) (w b).1.toNat (j.getD b 0)).isSome) = true := by
    rw [allLt_iff]; intro b hb; rw [hi b hb]; rfl
  rw [if_pos hall]
  congr 1
  apply tab_congr
  intro b hb
  rw [hi b hb]; rfl

/-- one axis on the constant fill -> the whole cell is fill -/
theorem padSrcIdx_none (mode : PadMode) (shape : List Nat) (w : Nat → Int × Int) (j : List Nat) (b : Nat)
    (hb : b < shape.length) (hn : padSrc mode (shape.getD b 0) (w b).1.toNat (j.getD b 0) = none) :
    padSrcIdx mode shape w j = none := by
  unfold padSrcIdx
  have hall : allLt shape.length (fun b =>
      (padSrc mode (shape.getD b 0) (w b).1.toNat (j.getD b 0)).isSome) = false := by
    apply allLt_false_of _ _ b hb
    rw [hn]; rfl
  rw [hall]; rfl

/-- value and validity of a padded cell from its per-axis source indices -/
theorem pad_pointwise_axes (f : Fld) (hf : FldWF f) (pw : List PadW) (hnd : (pw.map (·.dim)).Nodup)
    (mode : PadMode) (g : Fld) (h : padFld f pw mode = .ok g) (j : List Nat) (i : Nat → Nat)
    (hi : ∀ b, b < f.mesh.ndim →
      padSrc mode (f.mesh.nAt b) (sumW f.mesh (·.lo) pw b).toNat (j.getD b 0) = some (i b)) :
    g.data.get j = f.data.get (tab f.mesh.ndim i) ∧ g.valid.get j = f.valid.get (tab f.mesh.ndim i) := by
  obtain ⟨_, _, p3, p4⟩ := padFld_inv f hf pw hnd mode g h
  have hs := padSrcIdx_some mode f.mesh.n (fun b => (sumW f.mesh (·.lo) pw b, sumW f.mesh (·.hi) pw b)) j i
    (by rw [inv_n_length hf.1]; exact hi)
  rw [inv_n_length hf.1] at hs
  constructor
  · rw [p3]; unfold padNDA; simp only; rw [hf.2.1, hs]
  · rw [p4]; unfold padNDA; simp only; rw [hf.2.2, hs]

/-- a padded cell that hits the constant fill along one axis -/
theorem pad_fill_axis (f : Fld) (hf : FldWF f) (pw : List PadW) (hnd : (pw.map (·.dim)).Nodup)
    (mode : PadMode) (g : Fld) (h : padFld f pw mode = .ok g) (j : List Nat) (b : Nat) (hb : b < f.mesh.ndim)
    (hn : padSrc mode (f.mesh.nAt b) (sumW f.mesh (·.lo) pw b).toNat (j.getD b 0) = none) :
    g.data.get j = List.replicate f.nvdim 0 ∧ g.valid.get j = false := by
  obtain ⟨_, _, p3, p4⟩ := padFld_inv f hf pw hnd mode g h
  have hs := padSrcIdx_none mode f.mesh.n (fun b => (sumW f.mesh (·.lo) pw b, sumW f.mesh (·.hi) pw b)) j b
    (by rw [inv_n_length hf.1]; exact hb) hn
  constructor
  · rw [p3]; unfold padNDA; simp only; rw [hf.2.1, hs]
  · rw [p4]; unfold padNDA; simp only; rw [hf.2.2, hs]

/-- centre of a cell of the padded mesh in the source's coordinates -/
theorem pad_centre (f : Fld) (hf : FldWF f) (pw : List PadW) (hnd : (pw.map (·.dim)).Nodup)
    (mode : PadMode) (g : Fld) (h : padFld f pw mode = .ok g) (b : Nat) (hb : b < f.mesh.ndim) (j : Nat) :
    g.mesh.centreAx b ((j : Nat) : Int)
      = f.mesh.region.lo b + ((j : Rat) - ((sumW f.mesh (·.lo) pw b).toNat : Rat) + 1 / 2) * f.mesh.cellAt b := by
  obtain ⟨p1, p2, _, _⟩ := padFld_inv f hf pw hnd mode g h
  obtain ⟨_, _, _, _, _, _, _, e8⟩ :=
    padMesh_inv f.mesh hf.1 pw (fun b _ => (p2 b).1) (fun b _ => (p2 b).2) g.mesh p1
  obtain ⟨_, _, _, blk⟩ := e8 b hb
  rw [centreAx_cast, blk.lo, ← blk.cell]; ring

/-- generic form: if along every axis the mode's index map yields an in-range source index with
property `P`, the padded cell holds value and validity of the source cell with these indices -/
theorem pad_pointwise_gen (f : Fld) (hf : FldWF f) (pw : List PadW) (hnd : (pw.map (·.dim)).Nodup)
    (mode : PadMode) (g : Fld) (h : padFld f pw mode = .ok g) (j : List Nat) (P : Nat → Nat → Prop)
    (hex : ∀ b, b < f.mesh.ndim → ∃ i,
      padSrc mode (f.mesh.nAt b) (sumW f.mesh (·.lo) pw b).toNat (j.getD b 0) = some i ∧ i < f.mesh.nAt b ∧ P b i) :
    ∃ i, inRange f.mesh.n i = true ∧ (∀ b, b < f.mesh.ndim → P b (i.getD b 0)) ∧
      g.data.get j = f.data.get i ∧ g.valid.get j = f.valid.get i := by
  let i : Nat → Nat := fun b => (padSrc mode (f.mesh.nAt b) (sumW f.mesh (·.lo) pw b).toNat (j.getD b 0)).getD 0
  have hi : ∀ b, b < f.mesh.ndim →
      padSrc mode (f.mesh.nAt b) (sumW f.mesh (·.lo) pw b).toNat (j.getD b 0) = some (i b) := by
    intro b hb
    obtain ⟨i0, h0, _⟩ := hex b hb
    show _ = some ((padSrc mode (f.mesh.nAt b) (sumW f.mesh (·.lo) pw b).toNat (j.getD b 0)).getD 0)
    rw [h0]; rfl
  have hib : ∀ b, b < f.mesh.ndim → i b < f.mesh.nAt b ∧ P b (i b) := by
    intro b hb
    obtain ⟨i0, h0, h1, h2⟩ := hex b hb
    have : i b = i0 := by
      have := hi b hb; rw [h0] at this; injection this with this; exact this.symm
    rw [this]; exact ⟨h1, h2⟩
  obtain ⟨v1, v2⟩ := pad_pointwise_axes f hf pw hnd mode g h j i hi
  refine ⟨tab f.mesh.ndim i, ?_, ?_, v1, v2⟩
  · exact inRange_tab _ _ (inv_n_length hf.1) i (fun b hb => (hib b hb).1)
  · intro b hb
    rw [getD_tab _ _ _ _ hb]; exact (hib b hb).2

/-- the index map of `np.pad` depends on the position only through its offset from the source -/
theorem padSrc_shift (mode : PadMode) (n lo d j : Nat) :
    padSrc mode n (lo + d) (j + d) = padSrc mode n lo j := by
  unfold padSrc
  have e : ((j + d : Nat) : Int) - ((lo + d : Nat) : Int) = (j : Int) - (lo : Int) := by push_cast; ring
  by_cases h : lo ≤ j ∧ j < lo + n
  · rw [if_pos h, if_pos (by omega)]; congr 1; omega
  · rw [if_neg h, if_neg (by omega)]
    cases mode with
    | constant => rfl
    | edge =>
      simp only
      by_cases hlt : j < lo
      · rw [if_pos hlt, if_pos (by omega)]
      · rw [if_neg hlt, if_neg (by omega)]
    | wrap => simp only [e]
    | symmetric => simp only [e]
    | reflect => simp only [e]

theorem allLt_congr' (n : Nat) (p q : Nat → Bool) (h : ∀ a, a < n → p a = q a) : allLt n p = allLt n q := by
  rw [Bool.eq_iff_iff, allLt_iff, allLt_iff]
  exact ⟨fun hp a ha => by rw [← h a ha]; exact hp a ha, fun hq a ha => by rw [h a ha]; exact hq a ha⟩

/-! ### any point of a cell of a block -/

/-- a point of the half-open cell `j` of a block has index `j` in the block and `off + j` in the source -/
theorem block_any_point {g m : Mesh} {b off cnt : Nat} (blk : AxisBlock g m b b off cnt) (hc : 0 < m.cellAt b)
    (j : Nat) (hj : j < cnt) (x : Rat)
    (h1 : g.region.lo b + (j : Rat) * g.cellAt b ≤ x) (h2 : x < g.region.lo b + ((j : Rat) + 1) * g.cellAt b) :
    g.indexAx b x = j ∧ m.indexAx b x = off + j ∧
    g.region.lo b ≤ x ∧ x ≤ g.region.hi b ∧ m.region.lo b ≤ x ∧ x ≤ m.region.hi b := by
  have hgc : 0 < g.cellAt b := by rw [blk.cell]; exact hc
  have hfit := blk.fits
  have hmn : 0 < m.nAt b := by omega
  have h0 : (0 : Rat) ≤ (j : Rat) := by exact_mod_cast Nat.zero_le _
  have hoff : (0 : Rat) ≤ (off : Rat) := by exact_mod_cast Nat.zero_le _
  have hjc : (j : Rat) + 1 ≤ (cnt : Rat) := by exact_mod_cast hj
  have hfr : (off : Rat) + (cnt : Rat) ≤ (m.nAt b : Rat) := by exact_mod_cast hfit
  have hghi := block_hi blk (by omega)
  have hmhi := hi_eq m b hmn
  rw [blk.cell] at h1 h2
  refine ⟨?_, ?_, ?_, ?_, ?_, ?_⟩
  · apply indexAx_eq_of_bounds g b x j (by rw [blk.n]; exact hj) hgc
    · rw [blk.cell]; exact h1
    · rw [blk.cell]; exact h2
  · apply indexAx_eq_of_bounds m b x (off + j) (by omega) hc
    · rw [blk.lo] at h1; push_cast; linarith
    · rw [blk.lo] at h2; push_cast; linarith
  · nlinarith
  · rw [hghi]; rw [blk.lo] at h2; nlinarith
  · rw [blk.lo] at h1; nlinarith
  · rw [hmhi]; rw [blk.lo] at h2; nlinarith

/-- mesh level: any point of result cell `j` (half-open box) is looked up in cell `j` of the result
and in cell `off + j` of the source -/
theorem aligned_any_point (m g : Mesh) (hm : m.Inv) (hnd : g.ndim = m.ndim) (hnl : g.n.length = m.ndim)
    (off cnt : Nat → Nat) (hblk : ∀ b, b < m.ndim → AxisBlock g m b b (off b) (cnt b))
    (j : List Nat) (hj : inRange g.n j = true) (p : List Rat) (hp : p.length = m.ndim)
    (hin : ∀ b, b < m.ndim → g.region.lo b + (j.getD b 0 : Rat) * g.cellAt b ≤ p.getD b 0 ∧
      p.getD b 0 < g.region.lo b + ((j.getD b 0 : Rat) + 1) * g.cellAt b) :
    g.point2index p = .ok j ∧ m.point2index p = .ok (tab m.ndim fun b => off b + j.getD b 0) := by
  have hjl : j.length = m.ndim := by rw [inRange_length _ _ hj, hnl]
  have hfacts : ∀ b, b < m.ndim → _ := fun b hb =>
    block_any_point (hblk b hb) (inv_cell_pos hm hb) (j.getD b 0)
      (by
        have := inRange_getD _ _ hj b (by rw [hnl]; exact hb)
        have hn := (hblk b hb).n
        rw [nAt_def] at hn
        omega) (p.getD b 0) (hin b hb).1 (hin b hb).2
  constructor
  · rw [point2index_eq g p (by rw [hp, hnd]) (fun b hb => by
      obtain ⟨_, _, c3, c4, _, _⟩ := hfacts b (by omega)
      exact ⟨c3, c4⟩)]
    congr 1
    symm
    apply eq_tab_of_getD _ _ _ 0 (by rw [hjl, hnd])
    intro b hb
    exact (hfacts b (by omega)).1.symm
  · rw [point2index_eq m p hp (fun b hb => by
      obtain ⟨_, _, _, _, c5, c6⟩ := hfacts b hb
      exact ⟨c5, c6⟩)]
    congr 1
    exact tab_congr _ _ _ (fun b hb => (hfacts b hb).2.1)

/-! ### `region2slices` -/

/-- the slices an accepted `region2slices` returns -/
theorem region2slices_inv (m : Mesh) (r : Region) (s : List (Nat × Nat)) (h : region2slices m r = .ok s) :
    s = tab m.ndim fun a => (m.indexAx a (r.lo a + m.cellAt a / 2), m.indexAx a (r.hi a - m.cellAt a / 2) + 1) := by
  unfold region2slices at h
  split at h
  · cases h
  · split at h
    · cases h
    · rename_i i1 h1
      split at h
      · cases h
      · rename_i i2 h2
        injection h with h
        obtain ⟨_, _, e1⟩ := point2index_inv m _ _ h1
        obtain ⟨_, _, e2⟩ := point2index_inv m _ _ h2
        rw [← h]
        apply tab_congr
        intro a ha
        rw [e1, e2, getD_tab _ _ _ _ ha, getD_tab _ _ _ _ ha, getD_tab _ _ _ _ ha, getD_tab _ _ _ _ ha]

end DFV.C07
