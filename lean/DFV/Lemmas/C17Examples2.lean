import DFV.Lemmas.C17Examples
/-! More concrete instances for the non-vacuity `example`s of `Props/C17.lean` (second round). -/
namespace DFV.C17
open DFV

/-- 4-d vector DataArray with two single-cell axes (`y`, `w`), three labelled components, the
`cell` attribute only: `x = 1, 3`, `y = 5`, `z = -1, -½, 0`, `w = 7` -/
def ex4 : XA Nat :=
  { name := "four",
    axes := [{ name := "x", size := 2, coord := some { vals := [1, 3], units := some "nm" } },
             { name := "y", size := 1, coord := some { vals := [5], units := some "nm" } },
             { name := "z", size := 3, coord := some { vals := [-1, -1/2, 0], units := some "" } },
             { name := "w", size := 1, coord := some { vals := [7], units := some "s" } },
             { name := "vdims", size := 3, coord := none }],
    vdimsCoord := some ["a", "b", "c"], data := ⟨[2, 1, 3, 1, 3], fun i => flatC [2, 1, 3, 1, 3] i⟩,
    attrs := { units := some "T", cell := some [2, 4, 1/2, 10], pmin := none, pmax := none, nvdim := some (.int 3),
               tol := some (1/1000) },
    dtype := "float32" }

/-- `ex4` without its `cell` attribute -/
def ex4NoCell : XA Nat := { ex4 with attrs := { ex4.attrs with cell := none } }

/-- complete attributes that CONTRADICT the coordinates: coordinates `0, 1, 2` (step 1), attributes
`cell = 2`, `pmin = 10`, `pmax = 16`: the mesh is the attributes' (3 cells of size 2 from 10 to 16) -/
def exContra : XA Nat :=
  { name := "contra", axes := [{ name := "x", size := 3, coord := some { vals := [0, 1, 2], units := none } }],
    vdimsCoord := none, data := ⟨[3], fun i => 7 + i.getD 0 0⟩,
    attrs := { units := none, cell := some [2], pmin := some [10], pmax := some [16], nvdim := some (.int 1), tol := none },
    dtype := "int64" }

/-- attributes that contradict the DATA shape: `cell = 1` on a region of 6 cells, 3 data values:
refused (`np.full` cannot broadcast 3 values into 6 cells) -/
def exContraShape : XA Nat := { exContra with attrs := { exContra.attrs with cell := some [1] } }

/-- a scalar DataArray whose LAST geometric axis has a single coordinate and no `cell` attribute:
`xa.values.shape[:-1]` = `(2,)` has no 1, so the refusal is the `ValueError` of the NaN cell size -/
def exLastSingle : XA Nat :=
  { name := "ls", axes := [{ name := "x", size := 2, coord := some { vals := [0, 1], units := none } },
                           { name := "y", size := 1, coord := some { vals := [5], units := none } }],
    vdimsCoord := none, data := ⟨[2, 1], fun i => flatC [2, 1] i⟩,
    attrs := { units := none, cell := none, pmin := none, pmax := none, nvdim := some (.int 1), tol := none },
    dtype := "float64" }

/-- … and one whose FIRST axis is the single one: `KeyError` -/
def exFirstSingle : XA Nat :=
  { name := "fs", axes := [{ name := "x", size := 1, coord := some { vals := [5], units := none } },
                           { name := "y", size := 2, coord := some { vals := [0, 1], units := none } }],
    vdimsCoord := none, data := ⟨[1, 2], fun i => flatC [1, 2] i⟩,
    attrs := { units := none, cell := none, pmin := none, pmax := none, nvdim := some (.int 1), tol := none },
    dtype := "float64" }

/-- a long coordinate (1000 values, step ¼ from 7) for the linear-time forms -/
def exLong : List Rat := tab 1000 fun j => 7 + (j : Rat) / 4

end DFV.C17
