import DFV.Lemmas.C07SelMesh
import DFV.Lemmas.Index
/-! inversion of `selConvert` / `selMesh` / `selFld` -/
namespace DFV.C07
open DFV DFV.Mesh

theorem selOne_inv (m : Mesh) (hm : m.Inv) (a : Nat) (ha : a < m.ndim) (x : Rat) (ck : Rat × Nat)
    (h : selOne m a x = .ok ck) :
    m.region.lo a ≤ x ∧ x ≤ m.region.hi a ∧
    ck = (m.centreAx a ((m.indexAx a x : Nat) : Int), m.indexAx a x) := by
  by_cases hout : x < m.region.lo a ∨ m.region.hi a < x
  · rw [selOne_err m a x hout] at h; cases h
  · have h1 : m.region.lo a ≤ x := by by_contra hc; exact hout (Or.inl (lt_of_not_ge hc))
    have h2 : x ≤ m.region.hi a := by by_contra hc; exact hout (Or.inr (lt_of_not_ge hc))
    rw [selOne_eq m hm a ha x h1 h2] at h
    injection h with h
    exact ⟨h1, h2, h.symm⟩

theorem dim2index_ndim {m : Mesh} (hm : m.Inv) {d : String} {a : Nat} (h : m.region.dim2index d = .ok a) :
    a < m.ndim := by
  have := (dim2index_lt m.region d a h).1
  rw [inv_dims_length hm] at this; exact this

theorem selConvert_point_inv (m : Mesh) (hm : m.Inv) (dim : String) (x : Rat) (a : Nat) (s : SelIdx)
    (h : selConvert m dim (.point x) = .ok (a, s)) :
    m.region.dim2index dim = .ok a ∧ m.region.lo a ≤ x ∧ x ≤ m.region.hi a ∧
    s = .plane (m.centreAx a ((m.indexAx a x : Nat) : Int)) (m.indexAx a x) := by
  unfold selConvert at h
  split at h
  · cases h
  · rename_i a' hd
    simp only at h
    split at h
    · cases h
    · rename_i ck hck
      injection h with h
      injection h with h1 h2
      subst h1
      obtain ⟨i1, i2, i3⟩ := selOne_inv m hm a' (dim2index_ndim hm hd) x ck hck
      refine ⟨hd, i1, i2, ?_⟩
      rw [← h2, i3]

theorem center_getD (m : Mesh) (b : Nat) (hb : b < m.ndim) :
    m.region.center.getD b 0 = (m.region.lo b + m.region.hi b) / 2 := by
  unfold Region.center
  exact getD_tab _ _ _ _ hb

theorem center_length (m : Mesh) : m.region.center.length = m.ndim := by
  unfold Region.center; rw [tab_length]; rfl

theorem selConvert_centre_inv (m : Mesh) (hm : m.Inv) (dim : String) (a : Nat) (s : SelIdx)
    (h : selConvert m dim .centre = .ok (a, s)) :
    m.region.dim2index dim = .ok a ∧
    s = .plane (m.centreAx a ((m.indexAx a ((m.region.lo a + m.region.hi a) / 2) : Nat) : Int))
          (m.indexAx a ((m.region.lo a + m.region.hi a) / 2)) := by
  unfold selConvert at h
  split at h
  · cases h
  · rename_i a' hd
    simp only at h
    have ha := dim2index_ndim hm hd
    have hc := cellOf_eq m hm a' ha m.region.center (center_length m) (by
      intro b hb
      rw [center_getD m b hb]
      have := inv_lo_lt_hi hm hb
      constructor <;> linarith)
    rw [hc] at h
    simp only at h
    injection h with h
    injection h with h1 h2
    subst h1
    refine ⟨hd, ?_⟩
    rw [← h2, center_getD m a' ha]

theorem selConvert_range_inv (m : Mesh) (hm : m.Inv) (dim : String) (x y : Rat) (a : Nat) (s : SelIdx)
    (h : selConvert m dim (.range x y) = .ok (a, s)) :
    m.region.dim2index dim = .ok a ∧ m.region.lo a ≤ min x y ∧ max x y ≤ m.region.hi a ∧
    s = .range (m.centreAx a ((m.indexAx a (min x y) : Nat) : Int))
          (m.centreAx a ((m.indexAx a (max x y) : Nat) : Int))
          (m.indexAx a (min x y)) (m.indexAx a (max x y)) := by
  unfold selConvert at h
  split at h
  · cases h
  · rename_i a' hd
    simp only at h
    split at h
    · cases h
    · rename_i ck1 hck1
      split at h
      · cases h
      · rename_i ck2 hck2
        injection h with h
        injection h with h1 h2
        subst h1
        have ha := dim2index_ndim hm hd
        obtain ⟨i1, _, i3⟩ := selOne_inv m hm a' ha _ ck1 hck1
        obtain ⟨_, j2, j3⟩ := selOne_inv m hm a' ha _ ck2 hck2
        refine ⟨hd, i1, j2, ?_⟩
        rw [← h2, i3, j3]

end DFV.C07

namespace DFV.C07
open DFV DFV.Mesh

theorem selMesh_plane_inv (m : Mesh) (hm : m.Inv) (dim : String) (arg : SelArg) (a : Nat) (c : Rat) (k : Nat)
    (hconv : selConvert m dim arg = .ok (a, .plane c k)) (g : Mesh) (h : selMesh m dim arg = .ok g) :
    selPlaneMesh m a c = .ok g := by
  unfold selMesh at h
  rw [hconv] at h
  exact h

theorem selMesh_range_inv (m : Mesh) (dim : String) (arg : SelArg) (a : Nat) (c1 c2 : Rat) (k1 k2 : Nat)
    (hconv : selConvert m dim arg = .ok (a, .range c1 c2 k1 k2)) (g : Mesh) (h : selMesh m dim arg = .ok g) :
    selRangeMesh m a c1 c2 = .ok g := by
  unfold selMesh at h
  rw [hconv] at h
  exact h

/-- whole-axis block from equal corners and counts -/
theorem axisBlock_whole (g m : Mesh) (b s : Nat) (hn : 0 < m.nAt s)
    (hlo : g.region.lo b = m.region.lo s) (hhi : g.region.hi b = m.region.hi s)
    (hcnt : g.nAt b = m.nAt s) : AxisBlock g m b s 0 (m.nAt s) :=
  axisBlock_of g m b s 0 (m.nAt s) hn (by rw [hlo]; simp) (by rw [hhi, hi_eq m s hn]; simp) hcnt (by omega)

theorem centre_getD (g : Mesh) (j : List Nat) (b : Nat) (hb : b < g.ndim) :
    (g.centre j).getD b 0 = g.centreAx b ((j.getD b 0 : Nat) : Int) := by
  unfold Mesh.centre; rw [getD_tab _ _ _ _ hb]

theorem centre_length (g : Mesh) (j : List Nat) : (g.centre j).length = g.ndim := by
  unfold Mesh.centre; simp

/-- Plane selection, the geometric heart: if `g` is `m` with axis `a` removed, then the
point obtained by inserting the coordinate `x` (of cell `k`) at axis `a` into the centre of
`g`'s cell `j` lies in `m`'s cell `insertAt j a k`. -/
theorem plane_point2index (m g : Mesh) (hm : m.Inv) (a : Nat) (ha : a < m.ndim) (x : Rat)
    (hx1 : m.region.lo a ≤ x) (hx2 : x ≤ m.region.hi a)
    (hnd : g.ndim = m.ndim - 1) (hnl : g.n.length = m.ndim - 1)
    (hax : ∀ b, b < m.ndim - 1 → g.region.lo b = m.region.lo (skip a b) ∧
      g.region.hi b = m.region.hi (skip a b) ∧ g.nAt b = m.nAt (skip a b))
    (j : List Nat) (hj : inRange g.n j = true) :
    m.point2index (insertAt (g.centre j) a x) = .ok (insertAt j a (m.indexAx a x)) := by
  have hjl : j.length = m.ndim - 1 := by rw [inRange_length _ _ hj, hnl]
  have hcl : (g.centre j).length = m.ndim - 1 := by rw [centre_length, hnd]
  have hblk : ∀ b, b < m.ndim - 1 → AxisBlock g m b (skip a b) 0 (m.nAt (skip a b)) := by
    intro b hb
    obtain ⟨h1, h2, h3⟩ := hax b hb
    exact axisBlock_whole g m b (skip a b) (inv_n_pos hm (skip_lt a b m.ndim ha hb)) h1 h2 h3
  have hjb : ∀ b, b < m.ndim - 1 → j.getD b 0 < m.nAt (skip a b) := by
    intro b hb
    have := inRange_getD _ _ hj b (by rw [hnl]; exact hb)
    rw [← (hax b hb).2.2]; exact this
  -- every coordinate of the inserted point, by position relative to `a`
  have hcoord : ∀ b', b' < m.ndim →
      m.region.lo b' ≤ (insertAt (g.centre j) a x).getD b' 0 ∧
      (insertAt (g.centre j) a x).getD b' 0 ≤ m.region.hi b' ∧
      m.indexAx b' ((insertAt (g.centre j) a x).getD b' 0) = (insertAt j a (m.indexAx a x)).getD b' 0 := by
    intro b' hb'
    rcases Nat.lt_trichotomy b' a with hlt | heq | hgt
    · have hb : b' < m.ndim - 1 := by omega
      have hs : skip a b' = b' := by unfold skip; simp [hlt]
      rw [getD_insertAt_lt _ _ _ _ _ (by omega) hlt, getD_insertAt_lt _ _ _ _ _ (by omega) hlt,
        centre_getD g j b' (by omega)]
      have := block_index (hblk b' hb) (inv_cell_pos hm (by rw [hs]; exact hb')) (j.getD b' 0) (hjb b' hb)
      rw [hs] at this
      exact ⟨this.2.1, this.2.2, by rw [this.1]; simp⟩
    · subst heq
      rw [getD_insertAt_eq _ _ _ _ (by omega), getD_insertAt_eq _ _ _ _ (by omega)]
      exact ⟨hx1, hx2, rfl⟩
    · have hb : b' - 1 < m.ndim - 1 := by omega
      have hs : skip a (b' - 1) = b' := by unfold skip; split <;> omega
      rw [getD_insertAt_gt _ _ _ _ _ (by omega) hgt, getD_insertAt_gt _ _ _ _ _ (by omega) hgt,
        centre_getD g j (b' - 1) (by omega)]
      have := block_index (hblk (b' - 1) hb) (inv_cell_pos hm (by rw [hs]; exact hb')) (j.getD (b' - 1) 0)
        (hjb (b' - 1) hb)
      rw [hs] at this
      exact ⟨this.2.1, this.2.2, by rw [this.1]; simp⟩
  have hlen : (insertAt (g.centre j) a x).length = m.ndim := by
    rw [length_insertAt _ _ _ (by omega), hcl]; omega
  rw [point2index_eq m _ hlen (fun b hb => ⟨(hcoord b hb).1, (hcoord b hb).2.1⟩)]
  congr 1
  symm
  apply eq_tab_of_getD _ _ _ 0
  · rw [length_insertAt _ _ _ (by omega), hjl]; omega
  · intro b hb
    exact ((hcoord b hb).2.2).symm

end DFV.C07

namespace DFV.C07
open DFV DFV.Mesh

/-- Same-dimension results (range selection, extraction by region or name): if every axis of `g`
is a block of whole cells of the same axis of `m`, the centre of `g`'s cell `j` lies in `m`'s
cell `j + off`. -/
theorem block_point2index (m g : Mesh) (hm : m.Inv) (hnd : g.ndim = m.ndim) (hnl : g.n.length = m.ndim)
    (off cnt : Nat → Nat) (hblk : ∀ b, b < m.ndim → AxisBlock g m b b (off b) (cnt b))
    (j : List Nat) (hj : inRange g.n j = true) :
    m.point2index (g.centre j) = .ok (tab m.ndim fun b => off b + j.getD b 0) := by
  have hfacts : ∀ b, b < m.ndim →
      m.indexAx b ((g.centre j).getD b 0) = off b + j.getD b 0 ∧
      m.region.lo b ≤ (g.centre j).getD b 0 ∧ (g.centre j).getD b 0 ≤ m.region.hi b := by
    intro b hb
    rw [centre_getD g j b (by omega)]
    have hjb : j.getD b 0 < cnt b := by
      have := inRange_getD _ _ hj b (by rw [hnl]; exact hb)
      rw [← (hblk b hb).n]; exact this
    exact block_index (hblk b hb) (inv_cell_pos hm hb) (j.getD b 0) hjb
  rw [point2index_eq m _ (by rw [centre_length, hnd]) (fun b hb => (hfacts b hb).2)]
  congr 1
  exact tab_congr _ _ _ (fun b hb => (hfacts b hb).1)

end DFV.C07
