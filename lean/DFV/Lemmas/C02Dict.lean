import DFV.Lemmas.C02Basic
/-! C02 helper lemmas, part 6: the dictionary overload — the reversed loop over the subregions
and the default pass. -/
namespace DFV.C02
open DFV

variable {V : Type} [Inhabited V]

/-- what the loop body for subregion `p` writes at entry `j` (`none`: it does not touch `j`) -/
def patchVal (isZero : V → Bool) (items : List (String × Leaf V)) (m : Mesh) (nv : Nat)
    (p : String × Region) (j : List Nat) : Option V :=
  match Mesh.mkCell? p.2 m.cell with
  | .error _ => none
  | .ok sm =>
    match lookupLeaf items p.1 with
    | none => none
    | some l =>
      match region2slices m sm.region with
      | .error _ => none
      | .ok sl =>
        match asLeaf isZero l sm nv with
        | .error _ => none
        | .ok sub =>
          match bcast (boxShape sl.1 sl.2 ++ [nv]) sub with
          | .error _ => none
          | .ok sb => if inBox sl.1 sl.2 j then some (sb.get (localIdx sl.1 j)) else none

omit [Inhabited V] in
theorem paint_ok (a a' : NDA (Option V)) (lo hi : List Nat) (nv : Nat) (sub : NDA V)
    (h : paint a lo hi nv sub = .ok a') :
    ∃ sb, bcast (boxShape lo hi ++ [nv]) sub = .ok sb ∧ a'.shape = a.shape ∧
      ∀ j, a'.get j = if inBox lo hi j then some (sb.get (localIdx lo j)) else a.get j := by
  unfold paint at h
  split at h
  · cases h
  · rename_i sb hsb
    injection h with h; subst h
    exact ⟨sb, hsb, rfl, fun _ => rfl⟩

/-- the reversed loop: the entry is written by the LAST processed subregion that touches it,
i.e. (the caller passing the reversed list) by the FIRST listed one -/
theorem dictLoop_get (isZero : V → Bool) (items : List (String × Leaf V)) (m : Mesh) (nv : Nat)
    (l : List (String × Region)) (a0 a : NDA (Option V))
    (h : dictLoop isZero items m nv l a0 = .ok a) :
    a.shape = a0.shape ∧
    ∀ j, a.get j = (l.reverse.findSome? fun p => patchVal isZero items m nv p j).or (a0.get j) := by
  induction l generalizing a0 with
  | nil => simp [dictLoop] at h; subst h; simp
  | cons p rest ih =>
    obtain ⟨name, reg⟩ := p
    simp only [dictLoop] at h
    split at h
    · cases h
    · rename_i sm hsm
      split at h
      · rename_i hlk
        obtain ⟨hs, hg⟩ := ih a0 h
        refine ⟨hs, fun j => ?_⟩
        rw [hg j, List.reverse_cons, List.findSome?_append]
        have : patchVal isZero items m nv (name, reg) j = none := by simp [patchVal, hsm, hlk]
        simp [this]
      · rename_i l' hlk
        split at h
        · cases h
        · rename_i sl hsl
          split at h
          · cases h
          · rename_i sub hsub
            split at h
            · cases h
            · rename_i a' ha'
              obtain ⟨sb, hsb, hshape, hget⟩ := paint_ok _ _ _ _ _ _ ha'
              obtain ⟨hs, hg⟩ := ih a' h
              refine ⟨hs.trans hshape, fun j => ?_⟩
              rw [hg j, List.reverse_cons, List.findSome?_append, hget j]
              have : patchVal isZero items m nv (name, reg) j =
                  if inBox sl.1 sl.2 j then some (sb.get (localIdx sl.1 j)) else none := by
                simp [patchVal, hsm, hlk, hsl, hsub, hsb]
              simp only [List.findSome?_cons, List.findSome?_nil, this]
              cases (rest.reverse.findSome? fun p => patchVal isZero items m nv p j) with
              | some v => simp
              | none => by_cases hb : inBox sl.1 sl.2 j = true <;> simp [hb]

theorem dictLoop_err_of (isZero : V → Bool) (items : List (String × Leaf V)) (m : Mesh) (nv : Nat)
    (l : List (String × Region)) (a0 : NDA (Option V)) (p : String × Region) (hp : p ∈ l)
    (lf : Leaf V) (hl : lookupLeaf items p.1 = some lf)
    (sm : Mesh) (hsm : Mesh.mkCell? p.2 m.cell = .ok sm) (e : Err)
    (hsl : ∃ sl, region2slices m sm.region = .ok sl)
    (herr : asLeaf isZero lf sm nv = .error e) :
    ∃ e', dictLoop isZero items m nv l a0 = .error e' := by
  induction l generalizing a0 with
  | nil => simp at hp
  | cons q rest ih =>
    obtain ⟨name, reg⟩ := q
    rcases List.mem_cons.mp hp with rfl | hp'
    · obtain ⟨sl, hsl⟩ := hsl
      simp only [dictLoop, hsm, hl, hsl, herr]
      exact ⟨e, rfl⟩
    · simp only [dictLoop]
      split
      · exact ⟨_, rfl⟩
      · split
        · exact ih a0 hp'
        · split
          · exact ⟨_, rfl⟩
          · split
            · exact ⟨_, rfl⟩
            · split
              · exact ⟨_, rfl⟩
              · exact ih _ hp'

/-! ### the default pass -/

omit [Inhabited V] in
theorem setCellO_get [Inhabited V] (a : NDA (Option V)) (idx : List Nat) (vs : List V) (i : List Nat) (c : Nat) :
    (setCellO a idx vs).get (i ++ [c]) = if i = idx then some (vs.getD c default) else a.get (i ++ [c]) := by
  simp [setCellO, List.getLastD_eq_getLast?]

theorem dfltLoop_get (d : Dflt V) (m : Mesh) (nv : Nat) (l : List (List Nat)) (a b : NDA (Option V))
    (h : dfltLoop d m nv l a = .ok b) :
    b.shape = a.shape ∧ ∀ i c,
      (i ∈ l → ∃ vs, dfltCell d m i = .ok vs ∧ vs.length = nv ∧ b.get (i ++ [c]) = some (vs.getD c default)) ∧
      (i ∉ l → b.get (i ++ [c]) = a.get (i ++ [c])) := by
  induction l generalizing a with
  | nil => simp [dfltLoop] at h; subst h; simp
  | cons i0 rest ih =>
    simp only [dfltLoop] at h
    split at h
    · cases h
    · rename_i vs0 hvs0
      split at h
      · cases h
      · rename_i hlen
        obtain ⟨hs, hg⟩ := ih _ h
        refine ⟨hs.trans rfl, fun i c => ⟨fun hi => ?_, fun hi => ?_⟩⟩
        · by_cases hr : i ∈ rest
          · exact (hg i c).1 hr
          · have hi0 : i = i0 := by
              rcases List.mem_cons.mp hi with h1 | h1
              · exact h1
              · exact absurd h1 hr
            subst hi0
            refine ⟨vs0, hvs0, by simpa using hlen, ?_⟩
            rw [(hg i c).2 hr, setCellO_get]; simp
        · have h1 : i ≠ i0 := fun e => hi (by simp [e])
          have h2 : i ∉ rest := fun e => hi (by simp [e])
          rw [(hg i c).2 h2, setCellO_get]; simp [h1]

omit [Inhabited V] in
theorem anyNone_false (a : NDA (Option V)) (h : anyNone a = false) (j : List Nat)
    (hj : inRange a.shape j = true) : (a.get j).isSome = true := by
  unfold anyNone at h
  rw [List.any_eq_false] at h
  have := h j (mem_indicesC _ _ hj)
  cases hh : a.get j <;> simp_all

omit [Inhabited V] in
theorem anyNone_true (a : NDA (Option V)) (j : List Nat) (hj : inRange a.shape j = true)
    (h : a.get j = none) : anyNone a = true := by
  unfold anyNone
  rw [List.any_eq_true]
  exact ⟨j, mem_indicesC _ _ hj, by simp [h]⟩

omit [Inhabited V] in
theorem mem_nanCells (m : Mesh) (a : NDA (Option V)) (i : List Nat) :
    i ∈ nanCells m a ↔ i ∈ indicesC m.n ∧ (a.get (i ++ [0])).isNone = true := by
  simp [nanCells, List.mem_filter]

/-! ### slices only look at the spatial part of an index -/

theorem inBox_append (lo hi i r : List Nat) (h : lo.length ≤ i.length) :
    inBox lo hi (i ++ r) = inBox lo hi i := by
  unfold inBox
  rw [Bool.eq_iff_iff, allLt_iff, allLt_iff]
  constructor
  · intro hh a ha
    have := hh a ha
    rwa [getD_append_left' _ _ _ _ (by omega)] at this
  · intro hh a ha
    rw [getD_append_left' _ _ _ _ (by omega)]
    exact hh a ha

theorem region2slices_len (m : Mesh) (r : Region) (sl : List Nat × List Nat)
    (h : region2slices m r = .ok sl) : sl.1.length = m.ndim := by
  unfold region2slices at h
  split at h
  · cases h
  · rename_i i1 h1
    split at h
    · cases h
    · injection h with h; subst h
      unfold Mesh.point2index at h1
      split at h1
      · cases h1
      · split at h1
        · cases h1
        · injection h1 with h1; subst h1; simp

theorem patchVal_isSome_comp (isZero : V → Bool) (items : List (String × Leaf V)) (m : Mesh) (nv : Nat)
    (p : String × Region) (i : List Nat) (hi : i.length = m.ndim) (c c' : Nat) :
    (patchVal isZero items m nv p (i ++ [c])).isSome = (patchVal isZero items m nv p (i ++ [c'])).isSome := by
  unfold patchVal
  split
  · rfl
  · split
    · rfl
    · split
      · rfl
      · rename_i sl hsl
        split
        · rfl
        · split
          · rfl
          · have hl := region2slices_len _ _ _ hsl
            rw [inBox_append _ _ _ _ (by omega), inBox_append _ _ _ _ (by omega)]
            split <;> rfl

omit [Inhabited V] in
theorem findSome?_isSome_congr {α β} (l : List α) (f g : α → Option β)
    (h : ∀ p, (f p).isSome = (g p).isSome) : (l.findSome? f).isSome = (l.findSome? g).isSome := by
  induction l with
  | nil => rfl
  | cons x xs ih =>
    simp only [List.findSome?_cons]
    have := h x
    cases hf : f x <;> cases hg : g x <;> simp_all

end DFV.C02
