import DFV.Lemmas.C06Mesh
/-! Field-level lemmas for C06: well-formed fields, what the successful branches of
`integrate` / `mean` return, component values of the array operations. -/
namespace DFV.C06
open DFV

/-- well-formed field: well-formed mesh, value array of the mesh's shape -/
def WF (f : Fld) : Prop := f.mesh.Inv ∧ f.data.shape = f.mesh.n

theorem mkFld_ok (m : Mesh) (nv : Nat) (data : NDA (List Rat)) (vd : Option (List String))
    (vm : List (String × String)) (u : Option String) (g : Fld) (h : mkFld m nv data vd vm u = .ok g) :
    data.shape = m.n ∧
    g = { mesh := m, nvdim := nv, data := data.force [], valid := NDA.const m.n true,
          vdims := vd, vmap := vm, unit := u } := by
  unfold mkFld at h
  split at h
  · cases h
  · rename_i hs
    injection h with h
    exact ⟨by simpa using hs, h.symm⟩

theorem cget_scaleBy (nv : Nat) (h : Rat) (a : NDA (List Rat)) (i : List Nat) (c : Nat) (hc : c < nv) :
    cget (scaleBy nv h a) i c = cget a i c * h := by
  simp only [cget, scaleBy]
  rw [getD_tab _ _ _ _ hc]

theorem cget_divBy (nv : Nat) (h : Rat) (a : NDA (List Rat)) (i : List Nat) (c : Nat) (hc : c < nv) :
    cget (divBy nv h a) i c = cget a i c / h := by
  simp only [cget, divBy]
  rw [getD_tab _ _ _ _ hc]

theorem cget_sumAxis (nv : Nat) (a : NDA (List Rat)) (ax : Nat) (i : List Nat) (c : Nat) (hc : c < nv) :
    cget (sumAxis nv a ax) i c = sumTo (a.shape.getD ax 0) fun j => cget a (insertAt i ax j) c := by
  simp only [cget, sumAxis]
  rw [getD_tab _ _ _ _ hc]

theorem cget_force (a : NDA (List Rat)) (i : List Nat) (c : Nat) (h : inRange a.shape i = true) :
    cget (a.force []) i c = cget a i c := by
  unfold cget; rw [force_get a [] i h]

/-- unpacking a successful non-cumulative directional integral that returns a field -/
theorem integrate_dir_unpack (f : Fld) (d : String) (g : Fld)
    (h : integrate f (.name d) false = .ok (.field g)) :
    ∃ ax m', f.mesh.region.dim2index d = .ok ax ∧ f.mesh.ndim ≠ 1 ∧ sel f.mesh d = .ok m' ∧
      removeAt f.data.shape ax = m'.n ∧
      g = { mesh := m', nvdim := f.nvdim,
            data := (scaleBy f.nvdim (f.mesh.cellAt ax) (sumAxis f.nvdim f.data ax)).force [],
            valid := NDA.const m'.n true, vdims := f.vdims, vmap := f.vmap, unit := none } := by
  unfold integrate at h
  simp only at h
  split at h
  · cases h
  · rename_i ax hax
    simp only [Bool.false_eq_true, if_false] at h
    split at h
    · cases h
    · rename_i hne1
      split at h
      · cases h
      · rename_i m' hm'
        split at h
        · cases h
        · rename_i g' hg'
          injection h with h
          injection h with h
          subst h
          obtain ⟨hs, hg⟩ := mkFld_ok _ _ _ _ _ _ _ hg'
          exact ⟨ax, m', hax, hne1, hm', hs, hg⟩

theorem cget_cumAxis (nv : Nat) (h : Rat) (a : NDA (List Rat)) (ax : Nat) (i : List Nat) (c : Nat) (hc : c < nv) :
    cget (cumAxis nv h a ax) i c =
      (if i.getD ax 0 = 0 then cget a i c / 2
       else cget a i c / 2 + cumTo (fun l => cget a (setAt i ax l) c) (i.getD ax 0 - 1)) * h := by
  simp only [cget, cumAxis]
  rw [getD_tab _ _ _ _ hc]

/-- the 1-d non-cumulative directional integral returns the bare array -/
theorem integrate_dir_1d_unpack (f : Fld) (d : String) (v : List Rat)
    (h : integrate f (.name d) false = .ok (.vals v)) :
    ∃ ax, f.mesh.region.dim2index d = .ok ax ∧ f.mesh.ndim = 1 ∧
      v = (scaleBy f.nvdim (f.mesh.cellAt ax) (sumAxis f.nvdim f.data ax)).get [] := by
  unfold integrate at h
  simp only at h
  split at h
  · cases h
  · rename_i ax hax
    simp only [Bool.false_eq_true, if_false] at h
    split at h
    · rename_i h1
      injection h with h
      injection h with h
      exact ⟨ax, hax, h1, h.symm⟩
    · split at h
      · cases h
      · split at h
        · cases h
        · injection h with h
          cases h

/-- unpacking a successful cumulative integral -/
theorem integrate_cum_unpack (f : Fld) (d : String) (r : Res)
    (h : integrate f (.name d) true = .ok r) :
    ∃ ax, f.mesh.region.dim2index d = .ok ax ∧ f.data.shape = f.mesh.n ∧
      r = .field { mesh := f.mesh, nvdim := f.nvdim,
                   data := (cumAxis f.nvdim (f.mesh.cellAt ax) f.data ax).force [],
                   valid := NDA.const f.mesh.n true, vdims := f.vdims, vmap := f.vmap, unit := none } := by
  unfold integrate at h
  simp only at h
  split at h
  · cases h
  · rename_i ax hax
    simp only [if_true] at h
    split at h
    · cases h
    · rename_i g' hg'
      injection h with h
      obtain ⟨hs, hg⟩ := mkFld_ok _ _ _ _ _ _ _ hg'
      subst h
      exact ⟨ax, hax, hs, by rw [hg]⟩

/-- unpacking a successful mean along one named direction -/
theorem mean_name_unpack (f : Fld) (d : String) (r : Res) (h : mean f (.name d) = .ok r) :
    ∃ ax m', f.mesh.region.dim2index d = .ok ax ∧ sel f.mesh d = .ok m' ∧
      removeAt f.data.shape ax = m'.n ∧
      r = .field
        { mesh := m', nvdim := f.nvdim,
          data := (divBy f.nvdim ((f.data.shape.getD ax 0 : Nat) : Rat) (sumAxis f.nvdim f.data ax)).force [],
          valid := NDA.const m'.n true, vdims := f.vdims, vmap := f.vmap, unit := f.unit } := by
  unfold mean at h
  simp only at h
  split at h
  · cases h
  · rename_i ax hax
    split at h
    · cases h
    · rename_i m' hm'
      split at h
      · cases h
      · rename_i g' hg'
        injection h with h
        subst h
        obtain ⟨hs, hg⟩ := mkFld_ok _ _ _ _ _ _ _ hg'
        exact ⟨ax, m', hax, hm', hs, by rw [hg]⟩

/-! ## products over a mesh -/

theorem ratProd_append (xs : List Rat) (y : Rat) : ratProd (xs ++ [y]) = ratProd xs * y := by
  induction xs with
  | nil => simp [ratProd]
  | cons x xs ih => simp only [List.cons_append, ratProd, ih]; ring

theorem natProd_append (xs : List Nat) (y : Nat) : natProd (xs ++ [y]) = natProd xs * y := by
  induction xs with
  | nil => simp [natProd]
  | cons x xs ih => simp only [List.cons_append, natProd, ih]; ring

theorem tab_succ {α} (k : Nat) (f : Nat → α) : tab (k + 1) f = tab k f ++ [f k] := by
  unfold tab; rw [List.range_succ, List.map_append]; rfl

theorem ratProd_tab_pos (k : Nat) (f : Nat → Rat) (h : ∀ a, a < k → 0 < f a) : 0 < ratProd (tab k f) := by
  induction k with
  | zero => simp [tab, ratProd]
  | succ k ih =>
    rw [tab_succ, ratProd_append]
    exact mul_pos (ih fun a ha => h a (by omega)) (h k (by omega))

/-- `Π (e a / n a) · Π n a = Π e a` -/
theorem prod_cells_count (k : Nat) (e : Nat → Rat) (n : Nat → Nat) (hn : ∀ a, a < k → 0 < n a) :
    ratProd (tab k fun a => e a / (n a : Rat)) * (natProd (tab k n) : Rat) = ratProd (tab k e) := by
  induction k with
  | zero => simp [tab, ratProd, natProd]
  | succ k ih =>
    rw [tab_succ, tab_succ, tab_succ, ratProd_append, ratProd_append, natProd_append]
    have h0 : ((n k : Nat) : Rat) ≠ 0 := by exact_mod_cast (Nat.pos_iff_ne_zero.mp (hn k (by omega)))
    rw [← ih fun a ha => hn a (by omega)]
    push_cast
    field_simp

theorem cell_pos' (m : Mesh) (hm : m.Inv) (a : Nat) (ha : a < m.ndim) : 0 < m.cellAt a := by
  obtain ⟨⟨_, _, _, _, _, hlt⟩, _, hnpos⟩ := hm
  unfold Mesh.cellAt Region.edge
  have : (0 : Rat) < (m.nAt a : Rat) := by exact_mod_cast hnpos a ha
  exact div_pos (by have := hlt a ha; linarith) this

theorem dV_pos (m : Mesh) (hm : m.Inv) : 0 < dV m := by
  unfold dV Mesh.cell
  exact ratProd_tab_pos _ _ fun a ha => cell_pos' m hm a ha

/-- cell volume × number of cells = volume of the region -/
theorem dV_mul_count (m : Mesh) (hm : m.Inv) : dV m * (natProd m.n : Rat) = ratProd m.region.edges := by
  obtain ⟨_, hnlen, hnpos⟩ := hm
  have hn : m.n = tab m.ndim m.nAt := eq_tab_of_getD _ _ _ 0 hnlen fun i _ => rfl
  have := prod_cells_count m.ndim m.region.edge m.nAt hnpos
  rw [← hn] at this
  exact this

theorem cells_cover (m : Mesh) (hm : m.Inv) (a : Nat) (ha : a < m.ndim) :
    (m.nAt a : Rat) * m.cellAt a = m.region.edge a := by
  unfold Mesh.cellAt
  have : (m.nAt a : Rat) ≠ 0 := by exact_mod_cast (Nat.pos_iff_ne_zero.mp (hm.2.2 a ha))
  field_simp

/-- full description of a successful `integrate(d)` on a mesh with more than one dimension -/
theorem integrate_dir_spec (f : Fld) (hf : WF f) (d : String) (g : Fld)
    (h : integrate f (.name d) false = .ok (.field g)) :
    ∃ ax, f.mesh.region.dim2index d = .ok ax ∧ ax < f.mesh.ndim ∧
      g.mesh.region.pmin = removeAt f.mesh.region.pmin ax ∧
      g.mesh.region.pmax = removeAt f.mesh.region.pmax ax ∧
      g.mesh.region.dims = removeAt f.mesh.region.dims ax ∧
      g.mesh.region.units = removeAt f.mesh.region.units ax ∧
      g.mesh.n = removeAt f.mesh.n ax ∧ g.data.shape = removeAt f.mesh.n ax ∧
      g.nvdim = f.nvdim ∧ g.vdims = f.vdims ∧ g.vmap = f.vmap ∧ g.unit = none ∧
      (∀ i, g.valid.get i = true) ∧
      ∀ i c, inRange (removeAt f.mesh.n ax) i = true → c < f.nvdim →
        cget g.data i c = f.mesh.cellAt ax * sumTo (f.mesh.nAt ax) fun j => cget f.data (insertAt i ax j) c := by
  obtain ⟨ax, m', hax, _, hsel, hshape, hg⟩ := integrate_dir_unpack f d g h
  obtain ⟨ax', hax', haxlt, _, hpmin, hpmax, hdims, hunits, _, hn, _, _⟩ := sel_spec f.mesh hf.1 d m' hsel
  rw [hax] at hax'; injection hax' with hax'; subst hax'
  subst hg
  refine ⟨ax, hax, haxlt, hpmin, hpmax, hdims, hunits, hn, ?_, rfl, rfl, rfl, rfl, fun _ => rfl, ?_⟩
  · show removeAt f.data.shape ax = _
    rw [hf.2]
  · intro i c hi hc
    have hi' : inRange (scaleBy f.nvdim (f.mesh.cellAt ax) (sumAxis f.nvdim f.data ax)).shape i = true := by
      show inRange (removeAt f.data.shape ax) i = true
      rw [hf.2]; exact hi
    simp only
    rw [cget_force _ _ _ hi', cget_scaleBy _ _ _ _ _ hc, cget_sumAxis _ _ _ _ _ hc, mul_comm, hf.2]
    rfl

end DFV.C06
