import DFV.Lemmas.C03v
/-! C03 helper lemmas, part x: **the metadata table** `binTy` of all 16 binary operations
between two fields and its two halves: what the table accepts the code accepts with exactly
the tabulated component count, labels, mapping, unit and dtype kind; what the table refuses
the code refuses. -/
namespace DFV.C03
open DFV

/-- **the table**: component count, labels, mapping, unit and dtype kind of `l ∘ r` for two
fields on the mesh `M` with static descriptions `tl`, `tr` — `none` = the combination is
refused.  One row per operator family:
* `+ - * / **`: counts must broadcast; labels and mapping of the vector operand (of the left
  one when the counts agree); no unit;
* `dot`, `angle`: equal counts; unlabelled scalar without mapping; `angle` has unit `rad`;
* `cross`: three components each; labels of the left operand, default mapping;
* `<<`: always; concatenated labels / merged mapping when unique, defaults otherwise;
* ufunc calls: the result must have the first field's count — or the first field is an
  unlabelled scalar (then default labels, empty mapping); no unit. -/
def binTy (M : Mesh) (b : BinOp) (tl tr : Ty) : Option Ty :=
  match b with
  | .add | .sub | .mul | .div | .pow =>
    if (bdim tl.nv tr.nv).isSome then some ((if tl.nv = 1 ∧ 1 < tr.nv then tr else tl).res (kindFF tl tr)) else none
  | .dot => if tl.nv = tr.nv then some ⟨1, none, [], none, kindFF tl tr⟩ else none
  | .cross =>
    if tl.nv = 3 ∧ tr.nv = 3 then
      some ⟨3, tl.vdims, vmapDefault 3 M.region.ndim tl.vdims M.region.dims, none, kindFF tl tr⟩
    else none
  | .shl => some ⟨tl.nv + tr.nv, shlLabels tl.vdims tr.vdims (tl.nv + tr.nv), shlMap M tl tr, none, kindFF tl tr⟩
  | .angle => if tl.nv = tr.nv then some ⟨1, none, [], some "rad", .float⟩ else none
  | .uadd | .usub | .umul | .udiv | .umax | .umin | .upow =>
    if bdim tl.nv tr.nv = some tl.nv then some (tl.res (kindFF tl tr))
    else if tl.nv = 1 ∧ 1 < tr.nv ∧ tl.vdims = none then
      some ⟨tr.nv, Fld.defaultVdims tr.nv, [], none, kindFF tl tr⟩
    else none

theorem tyOf_eq_of_hasMeta (M : Mesh) (g : CF) (t : Ty) (h : HasMeta M g t) : tyOf g = t := by
  obtain ⟨_, h1, h2, h3, h4, h5⟩ := h
  cases t
  simp only [tyOf] at *
  subst h1 h2 h3 h4 h5
  rfl

theorem negIntPow_notpow (b : BinOp) (h : isPow b = false) (kb ke : Kind) (e : NDA GQ) :
    negIntPow (isPow b) kb ke e = false := by
  rw [h]; exact negIntPow_false _ _ _

/-- operator-path arithmetic between two fields, any of `+ - * / **` -/
theorem applyBin_arithpow_ff (env : Env) (b : BinOp) (hb : isArith b = true ∨ b = .pow) (M : Mesh) (hM : MeshOk M)
    (f o : CF) (hf : Good M f) (ho : Good M o) (d : Nat) (hd : bdim f.nvdim o.nvdim = some d)
    (hpw : negIntPow (isPow b) f.kind o.kind o.data = false) :
    ∃ g, applyBin env b (.fld f) (.fld o) = .ok (.fld g) ∧ Good M g ∧ g.nvdim = d ∧
      g.vdims = (metaSrc f o).vdims ∧ g.vmap = (metaSrc f o).vmap ∧ g.unit = none ∧
      g.kind = (f.kind.join o.kind).ctor := by
  obtain ⟨g, h, hg, h1, h2, h3, h4, h5⟩ :=
    applyOperator_fld_accepts (binFn b) (isPow b) M hM f o hf ho d hd hpw
  refine ⟨g, ?_, hg, h1, h2, h3, h4, h5⟩
  rcases hb with hb | rfl
  · cases b <;> simp [isArith] at hb <;> simp only [applyBin, forwardOp, h]
  · simp only [applyBin, forwardOp, h]

/-- a field result as a value -/
def liftFld (x : M CF) : M Val :=
  match x with
  | .error e => .error e
  | .ok g => .ok (.fld g)

theorem liftFld_error (x : M CF) (h : ∃ e, x = .error e) : ∃ e, liftFld x = .error e := by
  obtain ⟨e, he⟩ := h
  subst he
  exact ⟨e, rfl⟩

theorem applyBin_arithpow_eq (env : Env) (b : BinOp) (hb : isArith b = true ∨ b = .pow) (f : CF) (v : Val) :
    applyBin env b (.fld f) v = liftFld (applyOperator (binFn b) (isPow b) f v) := by
  rcases hb with hb | rfl
  · cases b <;> simp [isArith] at hb <;> simp only [applyBin, forwardOp] <;> rfl
  · simp only [applyBin, forwardOp]; rfl

theorem applyBin_ufunc_eq (env : Env) (b : BinOp) (hb : isUfuncBin b = true) (l r : Val) :
    applyBin env b l r = liftFld (ufunc2 (binFn b) (isPow b) l r) := by
  cases b <;> simp [isUfuncBin] at hb <;> simp only [applyBin] <;> rfl

/-- binary ufunc call on two fields, `np.power` included -/
theorem applyBin_ufuncpow_ff (env : Env) (b : BinOp) (hb : isUfuncBin b = true) (M : Mesh) (hM : MeshOk M)
    (f o : CF) (hf : Good M f) (ho : Good M o) (hd : bdim f.nvdim o.nvdim = some f.nvdim)
    (hpw : negIntPow (isPow b) f.kind o.kind o.data = false) :
    ∃ g, applyBin env b (.fld f) (.fld o) = .ok (.fld g) ∧ Good M g ∧ g.nvdim = f.nvdim ∧
      g.vdims = f.vdims ∧ g.vmap = f.vmap ∧ g.unit = none ∧ g.kind = (f.kind.join o.kind).ctor := by
  obtain ⟨g, h, hrest⟩ := ufunc2_ff_accepts (binFn b) (isPow b) M hM f o hf ho hd hpw
  exact ⟨g, by rw [applyBin_ufunc_eq env b hb, h]; rfl, hrest⟩

/-- **what the table accepts, the code accepts — with the tabulated metadata** -/
theorem binTy_accepts (env : Env) (M : Mesh) (hM : MeshOk M) (f o : CF) (hf : Good M f) (ho : Good M o)
    (b : BinOp) (hpw : negIntPow (isPow b) f.kind o.kind o.data = false) (t : Ty)
    (ht : binTy M b (tyOf f) (tyOf o) = some t) :
    ∃ g, applyBin env b (.fld f) (.fld o) = .ok (.fld g) ∧ HasMeta M g t := by
  have harith : ∀ b', (isArith b' = true ∨ b' = .pow) →
      negIntPow (isPow b') f.kind o.kind o.data = false →
      (if (bdim f.nvdim o.nvdim).isSome then
        some ((if f.nvdim = 1 ∧ 1 < o.nvdim then tyOf o else tyOf f).res (kindFF (tyOf f) (tyOf o))) else none) = some t →
      ∃ g, applyBin env b' (.fld f) (.fld o) = .ok (.fld g) ∧ HasMeta M g t := by
    intro b' hb' hpw' ht'
    cases hd : bdim f.nvdim o.nvdim with
    | none => rw [hd] at ht'; simp at ht'
    | some d =>
      rw [hd] at ht'
      simp only [Option.isSome_some, if_true, Option.some.injEq] at ht'
      obtain ⟨g, h, hg, h1, h2, h3, h4, h5⟩ := applyBin_arithpow_ff env b' hb' M hM f o hf ho d hd hpw'
      refine ⟨g, h, hg, ?_⟩
      subst ht'
      have hnv := metaSrc_nvdim f o d hf.1.2.2 ho.1.2.2 hd
      unfold metaSrc at h2 h3 hnv
      by_cases hc : f.nvdim = 1 ∧ 1 < o.nvdim
      · rw [if_pos hc] at h2 h3 hnv ⊢
        exact ⟨by rw [h1]; exact hnv.symm, h2, h3, h4, h5⟩
      · rw [if_neg hc] at h2 h3 hnv ⊢
        exact ⟨by rw [h1]; exact hnv.symm, h2, h3, h4, h5⟩
  have hufunc : ∀ b', isUfuncBin b' = true →
      negIntPow (isPow b') f.kind o.kind o.data = false →
      (if bdim f.nvdim o.nvdim = some f.nvdim then some ((tyOf f).res (kindFF (tyOf f) (tyOf o)))
       else if f.nvdim = 1 ∧ 1 < o.nvdim ∧ f.vdims = none then
         some ⟨o.nvdim, Fld.defaultVdims o.nvdim, [], none, kindFF (tyOf f) (tyOf o)⟩
       else none) = some t →
      ∃ g, applyBin env b' (.fld f) (.fld o) = .ok (.fld g) ∧ HasMeta M g t := by
    intro b' hb' hpw' ht'
    by_cases hd : bdim f.nvdim o.nvdim = some f.nvdim
    · rw [if_pos hd] at ht'
      injection ht' with ht'
      obtain ⟨g, h, hg, h1, h2, h3, h4, h5⟩ := applyBin_ufuncpow_ff env b' hb' M hM f o hf ho hd hpw'
      subst ht'
      exact ⟨g, h, hg, h1, h2, h3, h4, h5⟩
    · rw [if_neg hd] at ht'
      by_cases hc : f.nvdim = 1 ∧ 1 < o.nvdim ∧ f.vdims = none
      · rw [if_pos hc] at ht'
        injection ht' with ht'
        obtain ⟨g, h, hg, h1, h2, h3, h4, h5⟩ :=
          ufunc2_sf_accepts (binFn b') (isPow b') M hM f o hf ho hc.1 hc.2.2 hpw'
        subst ht'
        exact ⟨g, by rw [applyBin_ufunc_eq env b' hb', h]; rfl, hg, h1, h2, h3, h4, h5⟩
      · rw [if_neg hc] at ht'; cases ht'
  cases b
  case add => exact harith .add (Or.inl rfl) hpw ht
  case sub => exact harith .sub (Or.inl rfl) hpw ht
  case mul => exact harith .mul (Or.inl rfl) hpw ht
  case div => exact harith .div (Or.inl rfl) hpw ht
  case pow => exact harith .pow (Or.inr rfl) hpw ht
  case uadd => exact hufunc .uadd rfl hpw ht
  case usub => exact hufunc .usub rfl hpw ht
  case umul => exact hufunc .umul rfl hpw ht
  case udiv => exact hufunc .udiv rfl hpw ht
  case umax => exact hufunc .umax rfl hpw ht
  case umin => exact hufunc .umin rfl hpw ht
  case upow => exact hufunc .upow rfl hpw ht
  case dot =>
    have ht : (if f.nvdim = o.nvdim then some (⟨1, none, [], none, kindFF (tyOf f) (tyOf o)⟩ : Ty) else none) = some t := ht
    by_cases hn : f.nvdim = o.nvdim
    · rw [if_pos hn] at ht
      injection ht with ht
      obtain ⟨g, h, hg, h1, h2, h3, h4, h5⟩ := dotOp_fld_accepts M hM f o hf ho hn
      subst ht
      exact ⟨g, by simp only [applyBin, forwardOp, h], hg, h1, h2, h3, h4, h5⟩
    · rw [if_neg hn] at ht; cases ht
  case cross =>
    have ht : (if f.nvdim = 3 ∧ o.nvdim = 3 then
        some (⟨3, f.vdims, vmapDefault 3 M.region.ndim f.vdims M.region.dims, none, kindFF (tyOf f) (tyOf o)⟩ : Ty)
      else none) = some t := ht
    by_cases hn : f.nvdim = 3 ∧ o.nvdim = 3
    · rw [if_pos hn] at ht
      injection ht with ht
      obtain ⟨g, h, hg, h1, h2, h3, h4, h5⟩ := crossOp_fld_accepts M hM f o hf ho hn.1 hn.2
      rw [vmapSet_none_eq] at h3
      injection h3 with h3
      subst ht
      exact ⟨g, by simp only [applyBin, forwardOp, h], hg, h1, h2, h3.symm, h4, h5⟩
    · rw [if_neg hn] at ht; cases ht
  case shl =>
    have ht : some (⟨f.nvdim + o.nvdim, shlLabels f.vdims o.vdims (f.nvdim + o.nvdim), shlMap M (tyOf f) (tyOf o),
        none, kindFF (tyOf f) (tyOf o)⟩ : Ty) = some t := ht
    injection ht with ht
    obtain ⟨g, h, hg, h1, h2, h3, h4, h5⟩ := applyBin_shl_ff env M hM f o hf ho
    subst ht
    refine ⟨g, h, hg, h1, h3, ?_, h2, h5⟩
    show g.vmap = if (dictUpdate f.vmap o.vmap).length = f.nvdim + o.nvdim then dictUpdate f.vmap o.vmap
      else vmapDefault (f.nvdim + o.nvdim) M.region.ndim (shlLabels f.vdims o.vdims (f.nvdim + o.nvdim)) M.region.dims
    by_cases hl : (dictUpdate f.vmap o.vmap).length = f.nvdim + o.nvdim
    · rw [if_pos hl] at h4 ⊢; exact h4
    · rw [if_neg hl] at h4 ⊢
      rw [vmapSet_none_eq, h3] at h4
      injection h4 with h4
      exact h4.symm
  case angle =>
    have ht : (if f.nvdim = o.nvdim then some (⟨1, none, [], some "rad", .float⟩ : Ty) else none) = some t := ht
    by_cases hn : f.nvdim = o.nvdim
    · rw [if_pos hn] at ht
      injection ht with ht
      obtain ⟨g, h, hg, h1, h2, h3, h4, h5⟩ := applyBin_angle_ff env M hM f o hf ho hn
      subst ht
      exact ⟨g, h, hg, h1, h2, h3, h4, h5⟩
    · rw [if_neg hn] at ht; cases ht

/-- **what the table refuses, the code refuses** (and so does NumPy's integer-power rule) -/
theorem binTy_rejects (env : Env) (M : Mesh) (f o : CF) (hf : Good M f) (ho : Good M o) (b : BinOp)
    (h : binTy M b (tyOf f) (tyOf o) = none ∨ negIntPow (isPow b) f.kind o.kind o.data = true) :
    ∃ e, applyBin env b (.fld f) (.fld o) = .error e := by
  have hn : f.mesh.n = o.mesh.n := by rw [hf.2.2, ho.2.2]
  have harith : ∀ b', (isArith b' = true ∨ b' = .pow) →
      ((if (bdim f.nvdim o.nvdim).isSome then
        some ((if f.nvdim = 1 ∧ 1 < o.nvdim then tyOf o else tyOf f).res (kindFF (tyOf f) (tyOf o))) else none) = none ∨
        negIntPow (isPow b') f.kind o.kind o.data = true) →
      ∃ e, applyBin env b' (.fld f) (.fld o) = .error e := by
    intro b' hb' h'
    rw [applyBin_arithpow_eq env b' hb']
    apply liftFld_error
    rcases h' with h' | h'
    · cases hd : bdim f.nvdim o.nvdim with
      | none => exact applyOperator_fld_nvdim_rejected _ _ f o hd
      | some d => rw [hd] at h'; simp at h'
    · exact applyOperator_fld_negpow_rejected _ _ f o h'
  have hufunc : ∀ b', isUfuncBin b' = true →
      ((if bdim f.nvdim o.nvdim = some f.nvdim then some ((tyOf f).res (kindFF (tyOf f) (tyOf o)))
       else if f.nvdim = 1 ∧ 1 < o.nvdim ∧ f.vdims = none then
         some ⟨o.nvdim, Fld.defaultVdims o.nvdim, [], none, kindFF (tyOf f) (tyOf o)⟩
       else none) = none ∨ negIntPow (isPow b') f.kind o.kind o.data = true) →
      ∃ e, applyBin env b' (.fld f) (.fld o) = .error e := by
    intro b' hb' h'
    rw [applyBin_ufunc_eq env b' hb']
    apply liftFld_error
    rcases h' with h' | h'
    · by_cases hd : bdim f.nvdim o.nvdim = some f.nvdim
      · rw [if_pos hd] at h'; cases h'
      · rw [if_neg hd] at h'
        by_cases hc : f.nvdim = 1 ∧ 1 < o.nvdim ∧ f.vdims = none
        · rw [if_pos hc] at h'; cases h'
        · cases hb : bdim f.nvdim o.nvdim with
          | none =>
            obtain ⟨h1, h2, h3⟩ := bdim_eq_none _ _ hb
            exact ufunc2_nvdim_rejected _ _ f o hf.1 ho.1 h1 h2 h3
          | some d =>
            obtain ⟨hd1, hd2⟩ := bdim_some _ _ _ hb
            have hf1 : f.nvdim = 1 := by
              by_contra hne
              rw [if_neg hne] at hd1
              exact hd (by rw [hb, hd1])
            rw [if_pos hf1] at hd1
            have ho1 : 1 < o.nvdim := by
              have := ho.1.2.2
              have hne : o.nvdim ≠ 1 := by
                intro h1; apply hd; rw [hb, hd1, h1, hf1]
              omega
            cases hvd : f.vdims with
            | none => exact absurd ⟨hf1, ho1, hvd⟩ hc
            | some l => exact ufunc2_sf_rejected _ _ f o hf.1 hf.2.1 ho.1 hn hf1 ho1 l hvd
    · exact ufunc2_ff_negpow_rejected _ _ f o h'
  cases b
  case add => exact harith .add (Or.inl rfl) h
  case sub => exact harith .sub (Or.inl rfl) h
  case mul => exact harith .mul (Or.inl rfl) h
  case div => exact harith .div (Or.inl rfl) h
  case pow => exact harith .pow (Or.inr rfl) h
  case uadd => exact hufunc .uadd rfl h
  case usub => exact hufunc .usub rfl h
  case umul => exact hufunc .umul rfl h
  case udiv => exact hufunc .udiv rfl h
  case umax => exact hufunc .umax rfl h
  case umin => exact hufunc .umin rfl h
  case upow => exact hufunc .upow rfl h
  case dot =>
    have h' : binTy M .dot (tyOf f) (tyOf o) = none := by
      rcases h with h | h
      · exact h
      · simp [isPow, negIntPow] at h
    have h' : (if f.nvdim = o.nvdim then some (⟨1, none, [], none, kindFF (tyOf f) (tyOf o)⟩ : Ty) else none) = none := h'
    by_cases hne : f.nvdim = o.nvdim
    · rw [if_pos hne] at h'; cases h'
    · obtain ⟨e, he⟩ := checkSame_nvdim_strict f o hne
      exact ⟨e, by simp only [applyBin, forwardOp, dotOp, he]⟩
  case cross =>
    have h' : binTy M .cross (tyOf f) (tyOf o) = none := by
      rcases h with h | h
      · exact h
      · simp [isPow, negIntPow] at h
    have h' : (if f.nvdim = 3 ∧ o.nvdim = 3 then
        some (⟨3, f.vdims, vmapDefault 3 M.region.ndim f.vdims M.region.dims, none, kindFF (tyOf f) (tyOf o)⟩ : Ty)
      else none) = none := h'
    by_cases hne : f.nvdim = 3 ∧ o.nvdim = 3
    · rw [if_pos hne] at h'; cases h'
    · have h3 : f.nvdim ≠ 3 ∨ o.nvdim ≠ 3 := by
        by_cases h1 : f.nvdim = 3
        · exact Or.inr (fun h2 => hne ⟨h1, h2⟩)
        · exact Or.inl h1
      have : ∃ e, crossOp f (.fld o) = .error e := by
        simp only [crossOp]
        cases checkSame f o false with
        | error e => exact ⟨e, rfl⟩
        | ok u => exact ⟨.value, by simp [h3]⟩
      obtain ⟨e, he⟩ := this
      exact ⟨e, by simp only [applyBin, forwardOp, he]⟩
  case shl =>
    rcases h with h | h
    · simp [binTy] at h
    · simp [isPow, negIntPow] at h
  case angle =>
    have h' : binTy M .angle (tyOf f) (tyOf o) = none := by
      rcases h with h | h
      · exact h
      · simp [isPow, negIntPow] at h
    have h' : (if f.nvdim = o.nvdim then some (⟨1, none, [], some "rad", .float⟩ : Ty) else none) = none := h'
    by_cases hne : f.nvdim = o.nvdim
    · rw [if_pos hne] at h'; cases h'
    · obtain ⟨e, he⟩ := checkSame_nvdim_strict f o hne
      exact ⟨e, by simp only [applyBin, forwardOp, angleOp, angleVec, he]⟩

end DFV.C03
