import DFV.Lemmas.C19QuarterAll
import DFV.Lemmas.C05Rot
import DFV.Lemmas.C13Bc
import DFV.Lemmas.C19Examples
/-!
# C19 — `Field.rotate90` of a 2-d field on a PERIODIC mesh is a quarter turn in the sense of `QTurn`

`Mesh.rotate90` rewrites the `bc` string (for odd `k`, unless it is `neumann` / `dirichlet` / empty, the two
axis names are exchanged if both are single lower-case characters — repo fix be43fa9b) and hands it to
the constructor, which lower-cases and checks it.  `C05.periodic_turn` shows that the periodicity flags
`Field.diff` reads (`C04.periodicBc`) turn with the mesh; here this is tied to the object-level model
`T.rotate90F` of C12/C13 and to `QTurn`.
-/
namespace DFV.C19
open DFV DFV.T

/-- C19's and C05's periodicity flags are the same function -/
theorem periodic_eq_C05 (f : Fld) (ax : Nat) : periodic f ax = C05.periodic f ax := rfl

/-- for odd `k` the `bc` rewriting of `Mesh.rotate90` is the exchange of the two axis names -/
theorem rotBc_odd (bc da db : String) (k : Int) (hk : isOdd k = true) : rotBc bc da db k = C05.rotBc1 bc da db := by
  unfold rotBc C05.rotBc1 C05.swapChar
  rw [hk]
  simp only [Bool.true_and]
  rfl

/-- the exchanged `bc` of a lower-case `bc` is lower case -/
theorem rotBc1_lower (bc da db : String) (k : Int) (hk : isOdd k = true) (hl : bc.toLower = bc) :
    (C05.rotBc1 bc da db).toLower = C05.rotBc1 bc da db := by
  by_cases hsw : C05.swapCond bc da db = true
  · obtain ⟨_, _, _, _, _, l1, l2⟩ := C05.swapCond_parts hsw
    rw [← rotBc_odd bc da db k hk]
    exact rotBc_lower bc da db k hl (fun _ => l1) (fun _ => l2)
  · rw [C05.rotBc1_noswap _ _ _ hsw]; exact hl

/-- THE PERIODICITY FLAGS TURN WITH THE MESH.  `g` carries the mesh `Mesh.rotate90(a1, a2, k)` (odd `k`, the two
axes of a 2-d mesh in either order) makes of `f`'s mesh: same axis names, `bc` rewritten and lower-cased.  If
`f`'s `bc` is what the `bc` setter guarantees (lower case, accepted) and the plane can turn (`C05.BcTurns`:
both names single lower-case characters, or both axes periodic alike), axis 0 of `g` is periodic iff axis 1 of `f`
is, and vice versa. -/
theorem periodic_after_turn (f g : Fld) (a1 a2 : String) (k : Int) (i1 i2 : Nat)
    (hd : f.mesh.region.dims.length = f.mesh.ndim) (hdup : hasDup f.mesh.region.dims = false) (h2 : f.mesh.ndim = 2)
    (hbl : f.mesh.bc.toLower = f.mesh.bc) (hbok : Mesh.bcOk f.mesh.region.dims f.mesh.bc = true)
    (hi1 : f.mesh.region.dim2index a1 = .ok i1) (hi2 : f.mesh.region.dim2index a2 = .ok i2)
    (hord : (i1 = 0 ∧ i2 = 1) ∨ (i1 = 1 ∧ i2 = 0)) (hk : k % 2 = 1) (ht : C05.BcTurns f 0 1)
    (hdims : g.mesh.region.dims = f.mesh.region.dims) (hbc : g.mesh.bc = (rotBc f.mesh.bc a1 a2 k).toLower) :
    periodic g 0 = periodic f 1 ∧ periodic g 1 = periodic f 0 := by
  have hodd : isOdd k = true := by unfold isOdd; simp; omega
  have e1 : f.mesh.region.dims.getD i1 "" = a1 := by
    unfold Region.dim2index at hi1
    split at hi1
    · rename_i i h; injection hi1 with hi1; subst hi1; exact (C04.indexOf?_some _ _ _ h).2
    · cases hi1
  have e2 : f.mesh.region.dims.getD i2 "" = a2 := by
    unfold Region.dim2index at hi2
    split at hi2
    · rename_i i h; injection hi2 with hi2; subst hi2; exact (C04.indexOf?_some _ _ _ h).2
    · cases hi2
  rw [rotBc_odd _ _ _ _ hodd, rotBc1_lower _ _ _ k hodd hbl] at hbc
  simp only [periodic_eq_C05]
  rcases hord with ⟨rfl, rfl⟩ | ⟨rfl, rfl⟩
  · rw [← e1, ← e2] at hbc
    obtain ⟨p1, p2, _⟩ := C05.periodic_turn f g 0 1 ⟨hd, hdup⟩ hbok (by omega) (by omega) (by omega) ht hdims hbc
    exact ⟨p1, p2⟩
  · rw [← e1, ← e2] at hbc
    have ht' : C05.BcTurns f 1 0 := by
      rcases ht with ⟨s1, s2, l1, l2⟩ | hp
      · exact Or.inl ⟨s2, s1, l2, l1⟩
      · exact Or.inr hp.symm
    obtain ⟨p1, p2, _⟩ := C05.periodic_turn f g 1 0 ⟨hd, hdup⟩ hbok (by omega) (by omega) (by omega) ht' hdims hbc
    exact ⟨p2, p1⟩

/-- the mesh `Field.rotate90` returns keeps the axis names -/
theorem rotate90F_dims (f recv g : Fld) (a1 a2 : String) (k : Int) (ref : Option (List Rat)) (b : Bool)
    (hf : FldInv f) (h : rotate90F f a1 a2 k ref b = .ok (recv, g)) :
    g.mesh.region.dims = f.mesh.region.dims ∧ g.mesh.bc = (rotBc f.mesh.bc a1 a2 k).toLower := by
  obtain ⟨⟨x, hs⟩, _, _⟩ := rotate90F_mesh f recv g a1 a2 k ref b h
  refine ⟨?_, stepM_rot_bc _ _ _ _ _ _ _ hs⟩
  obtain ⟨_, _, _, x', hreg⟩ := stepM_keeps f.mesh hf.1 _ x g.mesh hs
  simp only [stepR] at hreg
  obtain ⟨_, _, j1, j2, _, _, _, _, _, _, hret, _⟩ := rotate90R_inv _ _ _ _ _ _ _ _ hreg
  rw [hret]
  rfl

/-- EVERY QUARTER TURN, ANY BOUNDARY CONDITIONS.  `Field.rotate90` with odd `k` in the plane of the two axes
(either order) of a 2-d three-component field whose `bc` is lower case and accepted by the mesh (what the `bc`
setter guarantees) and whose plane can turn (`C05.BcTurns`) returns a quarter turn of `f` (or `f` is a
quarter turn of the result) in the sense of `QTurn` — periodicity flags included. -/
theorem rotate90F_quarter_bc (f recv g : Fld) (a1 a2 : String) (k : Int) (ref : Option (List Rat)) (b : Bool)
    (hf : FldInv f) (h2 : f.mesh.ndim = 2) (h3 : f.nvdim = 3) (hlen : ∀ i, (f.data.get i).length = 3)
    (hbl : f.mesh.bc.toLower = f.mesh.bc) (hbok : Mesh.bcOk f.mesh.region.dims f.mesh.bc = true)
    (ht : C05.BcTurns f 0 1) (i1 i2 : Nat)
    (hi1 : f.mesh.region.dim2index a1 = .ok i1) (hi2 : f.mesh.region.dim2index a2 = .ok i2)
    (hord : (i1 = 0 ∧ i2 = 1) ∨ (i1 = 1 ∧ i2 = 0)) (hk : k % 2 = 1)
    (hvd : ∀ vs, f.vdims = some vs → vs.length = 3)
    (hc : (f.rDim a1).bind f.vdimIndex ≠ (f.rDim a2).bind f.vdimIndex)
    (h : rotate90F f a1 a2 k ref b = .ok (recv, g)) :
    g.nvdim = 3 ∧ g.mesh.ndim = 2 ∧ g.data.shape = [g.mesh.nAt 0, g.mesh.nAt 1] ∧
    ((∃ Q : M3, Q.IsRot ∧ QTurn Q f g) ∨ (∃ Q : M3, Q.IsRot ∧ QTurn Q g f)) := by
  obtain ⟨hdims, hbc⟩ := rotate90F_dims f recv g a1 a2 k ref b hf h
  have hper := periodic_after_turn f g a1 a2 k i1 i2 hf.1.1.2.2.1 hf.1.1.2.2.2.2.1 h2 hbl hbok hi1 hi2 hord hk ht hdims hbc
  exact rotate90F_quarter_of f recv g a1 a2 k ref b hf h2 h3 hlen hper i1 i2 hi1 hi2 hord hk hvd hc h

/-- a field on a mesh periodic along `x` (4 × 3 cells of size 1 × 2; cell `(i, j)` holds `(i, j+1, 2)`) -/
def fQp : Fld := { fQ with mesh := { mEx with bc := "x" } }

end DFV.C19
