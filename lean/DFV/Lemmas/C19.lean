import Mathlib.Tactic.Ring
import Mathlib.Tactic.Linarith
import Mathlib.Tactic.FieldSimp
import Mathlib.Tactic.Push
import Mathlib.Tactic.LinearCombination
import DFV.Model.C19
import DFV.Lemmas.Tab
import DFV.Lemmas.RatFloor
/-! helper lemmas for C19: vector algebra under orthogonal matrices, orientation, triangles -/
namespace DFV.C19
open DFV

/-! ## vectors -/

@[ext] theorem V3.ext' {a b : V3} (hx : a.x = b.x) (hy : a.y = b.y) (hz : a.z = b.z) : a = b := by
  cases a; cases b; simp_all

@[simp] theorem V3.ofList_toList (v : V3) : V3.ofList v.toList = v := by
  cases v; simp [V3.ofList, V3.toList]

theorem V3.toList_inj {a b : V3} (h : a.toList = b.toList) : a = b := by
  cases a; cases b; simp [V3.toList] at h; simp [h]

theorem mulVec_zero (q : M3) : q.mulVec V3.zero = V3.zero := by
  simp [M3.mulVec, V3.zero]

theorem mulVec_sdiv (q : M3) (v : V3) (s : Rat) : q.mulVec (v.sdiv s) = (q.mulVec v).sdiv s := by
  apply V3.ext' <;> simp only [M3.mulVec, V3.sdiv] <;> ring

theorem mulVec_neg (q : M3) (v : V3) : q.mulVec v.neg = (q.mulVec v).neg := by
  apply V3.ext' <;> simp only [M3.mulVec, V3.neg] <;> ring

/-- `Qa · Qb = a · b` for `QᵀQ = 1` -/
theorem dot_mulVec (q : M3) (h : q.IsOrth) (a b : V3) : V3.dot (q.mulVec a) (q.mulVec b) = V3.dot a b := by
  obtain ⟨h1, h2, h3, h4, h5, h6⟩ := h
  simp only [V3.dot, M3.mulVec]
  linear_combination (a.x * b.x) * h1 + (a.y * b.y) * h2 + (a.z * b.z) * h3 + (a.x * b.y + a.y * b.x) * h4
    + (a.x * b.z + a.z * b.x) * h5 + (a.y * b.z + a.z * b.y) * h6

/-- the triple product picks up the determinant -/
theorem triple_mulVec (q : M3) (a b c : V3) :
    V3.triple (q.mulVec a) (q.mulVec b) (q.mulVec c) = q.det * V3.triple a b c := by
  simp only [V3.triple, V3.dot, V3.cross, M3.mulVec, M3.det]
  ring

/-- cofactors of a proper rotation are its entries (`adj Q = Qᵀ`) -/
theorem cofactors (q : M3) (h : q.IsRot) :
    q.a22 * q.a33 - q.a23 * q.a32 = q.a11 ∧ q.a23 * q.a31 - q.a21 * q.a33 = q.a12 ∧
    q.a21 * q.a32 - q.a22 * q.a31 = q.a13 ∧ q.a13 * q.a32 - q.a12 * q.a33 = q.a21 ∧
    q.a11 * q.a33 - q.a13 * q.a31 = q.a22 ∧ q.a12 * q.a31 - q.a11 * q.a32 = q.a23 ∧
    q.a12 * q.a23 - q.a13 * q.a22 = q.a31 ∧ q.a13 * q.a21 - q.a11 * q.a23 = q.a32 ∧
    q.a11 * q.a22 - q.a12 * q.a21 = q.a33 := by
  obtain ⟨⟨h1, h2, h3, h4, h5, h6⟩, hd⟩ := h
  simp only [M3.det] at hd
  refine ⟨?_, ?_, ?_, ?_, ?_, ?_, ?_, ?_, ?_⟩
  · linear_combination (-(q.a22 * q.a33 - q.a23 * q.a32)) * h1 + (-(q.a23 * q.a31 - q.a21 * q.a33)) * h4
      + (-(q.a21 * q.a32 - q.a22 * q.a31)) * h5 + q.a11 * hd
  · linear_combination (-(q.a22 * q.a33 - q.a23 * q.a32)) * h4 + (-(q.a23 * q.a31 - q.a21 * q.a33)) * h2
      + (-(q.a21 * q.a32 - q.a22 * q.a31)) * h6 + q.a12 * hd
  · linear_combination (-(q.a22 * q.a33 - q.a23 * q.a32)) * h5 + (-(q.a23 * q.a31 - q.a21 * q.a33)) * h6
      + (-(q.a21 * q.a32 - q.a22 * q.a31)) * h3 + q.a13 * hd
  · linear_combination (-(q.a13 * q.a32 - q.a12 * q.a33)) * h1 + (-(q.a11 * q.a33 - q.a13 * q.a31)) * h4
      + (-(q.a12 * q.a31 - q.a11 * q.a32)) * h5 + q.a21 * hd
  · linear_combination (-(q.a13 * q.a32 - q.a12 * q.a33)) * h4 + (-(q.a11 * q.a33 - q.a13 * q.a31)) * h2
      + (-(q.a12 * q.a31 - q.a11 * q.a32)) * h6 + q.a22 * hd
  · linear_combination (-(q.a13 * q.a32 - q.a12 * q.a33)) * h5 + (-(q.a11 * q.a33 - q.a13 * q.a31)) * h6
      + (-(q.a12 * q.a31 - q.a11 * q.a32)) * h3 + q.a23 * hd
  · linear_combination (-(q.a12 * q.a23 - q.a13 * q.a22)) * h1 + (-(q.a13 * q.a21 - q.a11 * q.a23)) * h4
      + (-(q.a11 * q.a22 - q.a12 * q.a21)) * h5 + q.a31 * hd
  · linear_combination (-(q.a12 * q.a23 - q.a13 * q.a22)) * h4 + (-(q.a13 * q.a21 - q.a11 * q.a23)) * h2
      + (-(q.a11 * q.a22 - q.a12 * q.a21)) * h6 + q.a32 * hd
  · linear_combination (-(q.a12 * q.a23 - q.a13 * q.a22)) * h5 + (-(q.a13 * q.a21 - q.a11 * q.a23)) * h6
      + (-(q.a11 * q.a22 - q.a12 * q.a21)) * h3 + q.a33 * hd

/-- `Qa × Qb = Q(a × b)` for a proper rotation -/
theorem cross_mulVec (q : M3) (h : q.IsRot) (a b : V3) :
    V3.cross (q.mulVec a) (q.mulVec b) = q.mulVec (V3.cross a b) := by
  obtain ⟨c11, c12, c13, c21, c22, c23, c31, c32, c33⟩ := cofactors q h
  apply V3.ext' <;> simp only [V3.cross, M3.mulVec]
  · linear_combination (a.y * b.z - a.z * b.y) * c11 + (a.z * b.x - a.x * b.z) * c12 + (a.x * b.y - a.y * b.x) * c13
  · linear_combination (a.y * b.z - a.z * b.y) * c21 + (a.z * b.x - a.x * b.z) * c22 + (a.x * b.y - a.y * b.x) * c23
  · linear_combination (a.y * b.z - a.z * b.y) * c31 + (a.x * b.y - a.y * b.x) * c33 + (a.z * b.x - a.x * b.z) * c32

theorem normSq_mulVec (q : M3) (h : q.IsOrth) (v : V3) : (q.mulVec v).normSq = v.normSq :=
  dot_mulVec q h v v

theorem normSq_neg (v : V3) : v.neg.normSq = v.normSq := by
  simp only [V3.normSq, V3.dot, V3.neg]; ring

theorem normSq_smul (s : Rat) (v : V3) : (v.smul s).normSq = s * s * v.normSq := by
  simp only [V3.normSq, V3.dot, V3.smul]; ring

/-! ## orientation of one cell -/

theorem orient_mulVec (sq : Rat → Rat) (q : M3) (h : q.IsOrth) (v : V3) :
    orient sq (q.mulVec v) = q.mulVec (orient sq v) := by
  unfold orient
  rw [normSq_mulVec q h]
  split
  · exact (mulVec_zero q).symm
  · exact (mulVec_sdiv q v _).symm

theorem orient_neg (sq : Rat → Rat) (v : V3) : orient sq v.neg = (orient sq v).neg := by
  unfold orient
  rw [normSq_neg]
  split
  · simp [V3.neg, V3.zero]
  · apply V3.ext' <;> simp only [V3.neg, V3.sdiv] <;> ring

/-- rescaling a vector by `s > 0` does not change its orientation, provided the square root
is positively homogeneous on the value at hand and both lengths are on the same side of
the zero-norm threshold -/
theorem orient_smul (sq : Rat → Rat) (s : Rat) (v : V3) (hs : s ≠ 0)
    (hsq : sq (s * s * v.normSq) = s * sq v.normSq)
    (hz : isZeroNorm (s * sq v.normSq) = isZeroNorm (sq v.normSq)) :
    orient sq (v.smul s) = orient sq v := by
  unfold orient
  rw [normSq_smul, hsq, hz]
  split
  · rfl
  · apply V3.ext' <;> simp only [V3.smul, V3.sdiv] <;> rw [mul_div_mul_left _ _ hs]

/-- the orientation of a vector with a non-negligible norm is a unit vector (for a square
root that squares back on the value at hand) -/
theorem orient_unit (sq : Rat → Rat) (v : V3) (hsq : sq v.normSq * sq v.normSq = v.normSq)
    (hz : isZeroNorm (sq v.normSq) = false) : (orient sq v).normSq = 1 := by
  unfold orient
  rw [hz]
  simp only [Bool.false_eq_true, if_false]
  have hne : sq v.normSq ≠ 0 := by
    intro h0
    simp [isZeroNorm, h0, absR] at hz
  have hnn : sq v.normSq * sq v.normSq ≠ 0 := mul_ne_zero hne hne
  have e : (v.sdiv (sq v.normSq)).normSq = v.normSq / (sq v.normSq * sq v.normSq) := by
    simp only [V3.normSq, V3.dot, V3.sdiv]
    field_simp
  rw [e, hsq]
  rw [hsq] at hnn
  exact div_self hnn

/-! ## field-level: orientation commutes with the transformations -/

theorem orientation_rotF (sq : Rat → Rat) (q : M3) (h : q.IsOrth) (f : Fld) :
    orientation sq (rotF q f) = rotF q (orientation sq f) := by
  simp only [orientation, rotF, NDA.map]
  congr 2
  funext i
  simp [orient_mulVec sq q h]

theorem orientation_negF (sq : Rat → Rat) (f : Fld) :
    orientation sq (negF f) = negF (orientation sq f) := by
  simp only [orientation, negF, NDA.map]
  congr 2
  funext i
  simp [orient_neg sq]

theorem cellV_rotF (q : M3) (f : Fld) (i : List Nat) : cellV (rotF q f) i = q.mulVec (cellV f i) := by
  simp [cellV, rotF, NDA.map]

theorem cellV_negF (f : Fld) (i : List Nat) : cellV (negF f) i = (cellV f i).neg := by
  simp [cellV, negF, NDA.map]

theorem cellV_orientation (sq : Rat → Rat) (f : Fld) (i : List Nat) :
    cellV (orientation sq f) i = orient sq (cellV f i) := by
  simp [cellV, orientation, NDA.map]

/-! ## triangles -/

theorem triOf_mulVec (q : M3) (h : q.IsRot) (a b c : V3) :
    triOf (q.mulVec a) (q.mulVec b) (q.mulVec c) = triOf a b c := by
  unfold triOf
  rw [dot_mulVec q h.1, dot_mulVec q h.1, dot_mulVec q h.1, cross_mulVec q h, dot_mulVec q h.1]

/-- reversal keeps the three dot products and flips the triple product -/
theorem triOf_neg (a b c : V3) :
    triOf a.neg b.neg c.neg = ⟨(triOf a b c).d12, (triOf a b c).d23, (triOf a b c).d31, -(triOf a b c).t⟩ := by
  simp only [triOf, V3.dot, V3.cross, V3.neg, Tri.mk.injEq]
  refine ⟨by ring, by ring, by ring, by ring⟩

theorem triOf_same (v : V3) : (triOf v v v).t = 0 := by
  simp only [triOf, V3.dot, V3.cross]; ring

theorem lsum_map_neg (xs : List Rat) : lsum (xs.map fun x => -x) = -lsum xs := by
  induction xs with
  | nil => simp [lsum]
  | cons x xs ih => simp only [List.map_cons, lsum, ih]; ring

theorem lsum_zero (xs : List Rat) (h : ∀ x ∈ xs, x = 0) : lsum xs = 0 := by
  induction xs with
  | nil => rfl
  | cons x xs ih =>
    simp only [lsum]
    rw [h x (by simp), ih (fun y hy => h y (by simp [hy]))]; ring

/-- `|a · b| ≤ 1` for unit vectors: the clip in `neighbouring_cell_angle` only guards rounding -/
theorem dot_unit_range (a b : V3) (ha : a.normSq = 1) (hb : b.normSq = 1) :
    -1 ≤ V3.dot a b ∧ V3.dot a b ≤ 1 := by
  simp only [V3.normSq, V3.dot] at *
  constructor
  · nlinarith [sq_nonneg (a.x + b.x), sq_nonneg (a.y + b.y), sq_nonneg (a.z + b.z)]
  · nlinarith [sq_nonneg (a.x - b.x), sq_nonneg (a.y - b.y), sq_nonneg (a.z - b.z)]

theorem clip1_range (x : Rat) : -1 ≤ clip1 x ∧ clip1 x ≤ 1 := by
  unfold clip1
  split
  · constructor <;> linarith
  · split
    · constructor <;> linarith
    · constructor <;> linarith

theorem clip1_id (x : Rat) (h1 : -1 ≤ x) (h2 : x ≤ 1) : clip1 x = x := by
  unfold clip1
  have a : ¬ x < -1 := by linarith
  have b : ¬ 1 < x := by linarith
  simp [a, b]

end DFV.C19
