import DFV.Lemmas.C18Interp
import DFV.Lemmas.RatFloor
/-! The integer search behind the automatic cell counts of C18. -/
namespace DFV.C18
open DFV

theorem cube_mono (a b : Rat) (ha : 0 ≤ a) (hab : a ≤ b) : cube a ≤ cube b := by
  unfold cube
  have hb : 0 ≤ b := le_trans ha hab
  have h1 : a * a ≤ b * b := mul_le_mul hab hab ha hb
  exact mul_le_mul h1 hab ha (mul_nonneg hb hb)

theorem cube_strict (a b : Rat) (ha : 0 ≤ a) (hab : a < b) : cube a < cube b := by
  unfold cube
  have hb : 0 < b := lt_of_le_of_lt ha hab
  have h1 : a * a ≤ b * b := mul_le_mul hab.le hab.le ha hb.le
  have h2 : a * a * a ≤ b * b * a := mul_le_mul_of_nonneg_right h1 ha
  have h3 : b * b * a < b * b * b := mul_lt_mul_of_pos_left hab (mul_pos hb hb)
  linarith

/-- `roundCbrt q = k` means `(k − ½)³ ≤ q < (k + ½)³` (the lower bound only for `k ≥ 1`) -/
theorem roundCbrt_bounds (q : Rat) (hq : 0 ≤ q) :
    (1 ≤ roundCbrt q → cube ((roundCbrt q : Rat) - 1/2) ≤ q) ∧ q < cube ((roundCbrt q : Rat) + 1/2) := by
  unfold roundCbrt
  generalize hF : q.floor.toNat + 2 = F
  have hfl : (0 : Int) ≤ q.floor := rat_floor_nonneg q hq
  have hFq : q < (F : Rat) - 1 := by
    have h1 := rat_lt_floor_add_one q
    have h2 : ((q.floor.toNat : Int) : Rat) = (q.floor : Rat) := by
      rw [Int.toNat_of_nonneg hfl]
    have h3 : (F : Rat) = (q.floor.toNat : Rat) + 2 := by rw [← hF]; push_cast; ring
    have h4 : ((q.floor.toNat : Nat) : Rat) = (q.floor : Rat) := by exact_mod_cast h2
    rw [h3, h4]; linarith
  constructor
  · intro h1
    rcases findIdx_spec (fun k => cube ((k : Rat) - 1/2)) q F with h0 | h0
    · omega
    · exact h0
  · have hle := findIdx_le (fun k => cube ((k : Rat) - 1/2)) q F
    by_cases hk : findIdx (fun k => cube ((k : Rat) - 1/2)) q F = F
    · rw [hk]
      have hF1 : (1 : Rat) ≤ (F : Rat) + 1/2 := by linarith
      have : (F : Rat) + 1/2 ≤ cube ((F : Rat) + 1/2) := by
        unfold cube
        have h1 : (1 : Rat) ≤ ((F : Rat) + 1/2) * ((F : Rat) + 1/2) := by nlinarith
        nlinarith
      linarith
    · have := findIdx_upper (fun k => cube ((k : Rat) - 1/2)) q F
        (findIdx (fun k => cube ((k : Rat) - 1/2)) q F + 1) (Nat.lt_succ_self _) (by omega)
      have e : (((findIdx (fun k => cube ((k : Rat) - 1/2)) q F + 1 : Nat) : Rat) - 1/2)
          = ((findIdx (fun k => cube ((k : Rat) - 1/2)) q F : Nat) : Rat) + 1/2 := by
        push_cast; ring
      rw [e] at this
      exact this

/-- the exact cube root, when it is an integer, is found -/
theorem roundCbrt_unique (q : Rat) (hq : 0 ≤ q) (k : Nat)
    (h1 : 1 ≤ k → cube ((k : Rat) - 1/2) ≤ q) (h2 : q < cube ((k : Rat) + 1/2)) : roundCbrt q = k := by
  obtain ⟨b1, b2⟩ := roundCbrt_bounds q hq
  rcases Nat.lt_trichotomy (roundCbrt q) k with h | h | h
  · -- roundCbrt q + 1 ≤ k : (k − ½) ≥ roundCbrt + ½
    have hk : 1 ≤ k := by omega
    have hc : ((roundCbrt q : Nat) : Rat) + 1 ≤ (k : Rat) := by exact_mod_cast h
    have := cube_mono ((roundCbrt q : Rat) + 1/2) ((k : Rat) - 1/2)
      (by have : (0 : Rat) ≤ (roundCbrt q : Rat) := Nat.cast_nonneg _; linarith) (by linarith)
    have := h1 hk
    linarith
  · exact h
  · have hk : 1 ≤ roundCbrt q := by omega
    have hc : (k : Rat) + 1 ≤ ((roundCbrt q : Nat) : Rat) := by exact_mod_cast h
    have := cube_mono ((k : Rat) + 1/2) ((roundCbrt q : Rat) - 1/2)
      (by have : (0 : Rat) ≤ (k : Rat) := Nat.cast_nonneg _; linarith) (by linarith)
    have := b1 hk
    linarith

/-- perfect cubes are their own rounded cube roots -/
theorem roundCbrt_cube' (k : Nat) : roundCbrt (cube (k : Rat)) = k := by
  have hk : (0 : Rat) ≤ (k : Rat) := Nat.cast_nonneg k
  apply roundCbrt_unique _ (by unfold cube; positivity) k
  · intro h1
    have : (1 : Rat) ≤ (k : Rat) := by exact_mod_cast h1
    exact cube_mono _ _ (by linarith) (by linarith)
  · exact cube_strict _ _ hk (by linarith)

end DFV.C18
