import DFV.Lemmas.C20Accept
/-!
C20 helper lemmas, seventh part: the scalar image inside the default plot `field.mpl()`.
-/
namespace DFV.C20
open DFV

/-- the scalar part of `field.mpl()`: `scalar` is called on a field `f'` that shares mesh and
validity with the plotted field `f` and whose value is component `c` of `f` (the field itself,
`c = 0`, or `getattr(field, label)`), with the multiplier of the call and the filter in force -/
theorem default_scalar_image (f' f : Fld) (o : Opts) (m : Rat) (c : Nat) (cs : List PlotCall)
    (hinv : f.mesh.Inv) (hm : f'.mesh = f.mesh) (hv : f'.valid = f.valid)
    (hd : ∀ i, (f'.data.get i).getD 0 0 = (f.data.get i).getD c 0)
    (hgeo : ∀ g, o.filter = some g → AuxGeom f g)
    (h : mplScalar f' { o with mult := some m, filter := some (filterOf f o) } = .ok cs) :
    0 < m ∧ ∃ img lab, axisLabels f.mesh.region m = .ok lab ∧
      cs = [.imshow img "lower"
        [f.mesh.region.lo 0 / m, f.mesh.region.hi 0 / m, f.mesh.region.lo 1 / m, f.mesh.region.hi 1 / m],
        lab] ∧ img.shape = [f.mesh.nAt 1, f.mesh.nAt 0] ∧
      ∀ i j, i < f.mesh.nAt 0 → j < f.mesh.nAt 1 →
        img.get [j, i] = if keptBy f o.filter [i, j] then some ((f.data.get [i, j]).getD c 0) else none := by
  obtain ⟨h2, _, m2, hm2, hcore⟩ := mplScalar_ok_inv _ _ cs h
  have hmm : m2 = m := by
    simp only [setupMultiplier] at hm2
    injection hm2 with hm2
    exact hm2.symm
  subst hmm
  obtain ⟨ext, keep, lab, he, hk, hl, hc⟩ := scalarCore_ok_inv _ _ m2 cs hcore
  rw [hm] at h2 he hl hc
  have hpos := axisLabels_pos _ _ _ hl
  rw [extent_eq f.mesh.region hinv.1 h2 m2 hpos] at he
  injection he with he
  subst he
  have hfo : filterOf f' { o with mult := some m2, filter := some (filterOf f o) } = filterOf f o := rfl
  rw [hfo, filterKeep_congr f f' _ hm hv] at hk
  have hn : f.mesh.n.length = 2 := by rw [hinv.2.1, h2]
  refine ⟨hpos, _, lab, hl, hc, by rw [imgOf_shape]; rfl, fun i j hi hj => ?_⟩
  rw [imgOf_get _ hn, filterKeep_keptBy f o h2 hgeo keep hk i j hi hj, hd]

end DFV.C20
