import DFV.Lemmas.C18QuarterK
/-! Algebra of the pieces of `FieldRotator`: cell values through the component permutation,
ordered products of rotations, quarter turns and the rational parameterisations. -/
namespace DFV.C18
open DFV DFV.Mesh

/-! ## cell values through the permutation -/

theorem rotVal3_def (R : M3) (ord : List Nat) (v : List Rat) :
    rotVal 3 R ord v = tab 3 fun c => (R.apply (spatial ord v)).get (invAt ord c) := by
  unfold rotVal; rw [if_neg (by decide)]; rfl

/-- the stored value read back in spatial order is `R` applied to the original in spatial order -/
theorem spatial_rotVal (R : M3) {ord : List Nat} (h : PermOrd ord) (v : List Rat) :
    spatial ord (rotVal 3 R ord v) = R.apply (spatial ord v) := by
  ext
  · have := rotVal_spatial' R h v 0 (by omega); simpa [spatial, V3.get] using this
  · have := rotVal_spatial' R h v 1 (by omega); simpa [spatial, V3.get] using this
  · have := rotVal_spatial' R h v 2 (by omega); simpa [spatial, V3.get] using this

/-- the identity rotation leaves every cell value alone -/
theorem rotVal_one {ord : List Nat} (h : PermOrd ord) (v : List Rat) (hv : v.length = 3) : rotVal 3 M3.one ord v = v := by
  rw [rotVal3_def]
  symm
  apply eq_tab_of_getD _ _ _ 0 hv
  intro c hc
  obtain ⟨a, ha, rfl⟩ := h.surj c hc
  rw [invAt_ord h a ha, M3.apply_one, spatial_get _ _ a ha]

/-- rotating cell values by a product is rotating twice -/
theorem rotVal_mul (A B : M3) {ord : List Nat} (h : PermOrd ord) (v : List Rat) :
    rotVal 3 (A.mul B) ord v = rotVal 3 A ord (rotVal 3 B ord v) := by
  rw [rotVal3_def, rotVal3_def A, spatial_rotVal B h, M3.apply_mul]

/-- a rotation followed by its inverse gives back the cell value -/
theorem rotVal_inverse {R : M3} (hR : R.IsRot) {ord : List Nat} (h : PermOrd ord) (v : List Rat) (hv : v.length = 3) :
    rotVal 3 R.tr ord (rotVal 3 R ord v) = v := by
  rw [← rotVal_mul _ _ h, hR.1, rotVal_one h v hv]

/-- scalar products of cell values (in spatial order) are preserved -/
theorem rotVal_dot {R : M3} (hR : R.IsRot) {ord : List Nat} (h : PermOrd ord) (v w : List Rat) :
    (spatial ord (rotVal 3 R ord v)).dot (spatial ord (rotVal 3 R ord w)) = (spatial ord v).dot (spatial ord w) := by
  rw [spatial_rotVal R h, spatial_rotVal R h, hR.dot_apply]

/-- the sum of squares of the three components does not depend on the order they are listed in -/
theorem spatial_normsq {ord : List Nat} (h : PermOrd ord) (v : List Rat) :
    (spatial ord v).dot (spatial ord v) = v.getD 0 0 * v.getD 0 0 + v.getD 1 0 * v.getD 1 0 + v.getD 2 0 * v.getD 2 0 := by
  obtain ⟨l0, l1, l2, d01, d02, d12⟩ := h
  unfold spatial V3.dot
  simp only
  have c0 : ord.getD 0 0 = 0 ∨ ord.getD 0 0 = 1 ∨ ord.getD 0 0 = 2 := by omega
  have c1 : ord.getD 1 0 = 0 ∨ ord.getD 1 0 = 1 ∨ ord.getD 1 0 = 2 := by omega
  have c2 : ord.getD 2 0 = 0 ∨ ord.getD 2 0 = 1 ∨ ord.getD 2 0 = 2 := by omega
  rcases c0 with e0 | e0 | e0 <;> rcases c1 with e1 | e1 | e1 <;> rcases c2 with e2 | e2 | e2 <;>
    first
      | (exfalso; omega)
      | (rw [e0, e1, e2] <;> ring)

/-! ## ordered products -/

/-- the ordered product acts as the rotations one after the other, in call order -/
theorem prodL_apply (Qs : List M3) (v : V3) : (prodL Qs).apply v = Qs.foldl (fun u Q => Q.apply u) v := by
  induction Qs generalizing v with
  | nil => simp [prodL, M3.apply_one]
  | cons Q Qs ih => simp only [prodL, List.foldl_cons, M3.apply_mul, ih]

/-- the inverse of the ordered product undoes the rotations in reverse call order -/
theorem prodL_tr_apply (Qs : List M3) (v : V3) : (prodL Qs).tr.apply v = Qs.foldr (fun Q u => Q.tr.apply u) v := by
  induction Qs generalizing v with
  | nil => simp [prodL, M3.tr_one, M3.apply_one]
  | cons Q Qs ih => simp only [prodL, List.foldr_cons, M3.tr_mul, M3.apply_mul, ih]

theorem prodL_isRot (Qs : List M3) (h : ∀ Q ∈ Qs, Q.IsRot) : (prodL Qs).IsRot := by
  induction Qs with
  | nil => exact M3.isRot_one
  | cons Q Qs ih =>
    simp only [prodL]
    exact (ih fun Q' h' => h Q' (List.mem_cons_of_mem _ h')).mul (h Q List.mem_cons_self)

/-! ## quarter turns as matrices -/

theorem Rcs_isRot_k0 : ∀ p, p < 3 → ∀ q, q < 3 → p ≠ q → (Rcs p q 1 0).IsRot := by decide +kernel
theorem Rcs_isRot_k1 : ∀ p, p < 3 → ∀ q, q < 3 → p ≠ q → (Rcs p q 0 1).IsRot := by decide +kernel
theorem Rcs_isRot_k2 : ∀ p, p < 3 → ∀ q, q < 3 → p ≠ q → (Rcs p q (-1) 0).IsRot := by decide +kernel
theorem Rcs_isRot_k3 : ∀ p, p < 3 → ∀ q, q < 3 → p ≠ q → (Rcs p q 0 (-1)).IsRot := by decide +kernel

/-- every quarter turn is a proper rotation -/
theorem Rq_isRot (p q : Nat) (k : Int) (hp : p < 3) (hq : q < 3) (hpq : p ≠ q) : (Rq p q k).IsRot := by
  unfold Rq
  rcases T.quarter_cases' k with ⟨hc, hs⟩ | ⟨hc, hs⟩ | ⟨hc, hs⟩ | ⟨hc, hs⟩ <;> rw [hc, hs]
  · exact Rcs_isRot_k0 p hp q hq hpq
  · exact Rcs_isRot_k1 p hp q hq hpq
  · exact Rcs_isRot_k2 p hp q hq hpq
  · exact Rcs_isRot_k3 p hp q hq hpq

theorem M3.ext_e (A B : M3) (h : ∀ i j, i < 3 → j < 3 → A.e i j = B.e i j) : A = B := by
  have e00 := h 0 0 (by omega) (by omega)
  have e01 := h 0 1 (by omega) (by omega)
  have e02 := h 0 2 (by omega) (by omega)
  have e10 := h 1 0 (by omega) (by omega)
  have e11 := h 1 1 (by omega) (by omega)
  have e12 := h 1 2 (by omega) (by omega)
  have e20 := h 2 0 (by omega) (by omega)
  have e21 := h 2 1 (by omega) (by omega)
  have e22 := h 2 2 (by omega) (by omega)
  simp only [M3.e, M3.row, V3.get] at e00 e01 e02 e10 e11 e12 e20 e21 e22
  ext <;> assumption

theorem M3.apply_eq_imp (A B : M3) (h : ∀ v, A.apply v = B.apply v) : A = B := by
  have hx := h ⟨1, 0, 0⟩
  have hy := h ⟨0, 1, 0⟩
  have hz := h ⟨0, 0, 1⟩
  simp only [M3.apply, V3.dot, V3.mk.injEq] at hx hy hz
  ext
  · linarith [hx.1]
  · linarith [hy.1]
  · linarith [hz.1]
  · linarith [hx.2.1]
  · linarith [hy.2.1]
  · linarith [hz.2.1]
  · linarith [hx.2.2]
  · linarith [hy.2.2]
  · linarith [hz.2.2]

theorem V3.ext_get (u v : V3) (h : ∀ a, a < 3 → u.get a = v.get a) : u = v := by
  ext
  · exact h 0 (by omega)
  · exact h 1 (by omega)
  · exact h 2 (by omega)

/-- plane rotations in the same plane multiply by the angle-addition formulas -/
theorem Rcs_mul (p q : Nat) (hp : p < 3) (hq : q < 3) (hpq : p ≠ q) (c s c' s' : Rat) :
    (Rcs p q c s).mul (Rcs p q c' s') = Rcs p q (c * c' - s * s') (s * c' + c * s') := by
  apply M3.apply_eq_imp
  intro v
  rw [M3.apply_mul]
  apply V3.ext_get
  intro a ha
  rw [Rcs_apply_get p q _ _ hp hq hpq _ a ha, Rcs_apply_get p q _ _ hp hq hpq _ a ha,
      Rcs_apply_get p q _ _ hp hq hpq _ p hp, Rcs_apply_get p q _ _ hp hq hpq _ q hq,
      Rcs_apply_get p q _ _ hp hq hpq _ a ha]
  rw [if_pos rfl, if_neg (Ne.symm hpq), if_pos rfl]
  by_cases e1 : a = p
  · rw [if_pos e1, if_pos e1]; ring
  · rw [if_neg e1, if_neg e1, if_neg e1]
    by_cases e2 : a = q
    · rw [if_pos e2, if_pos e2]; ring
    · rw [if_neg e2, if_neg e2, if_neg e2]

theorem quarter_add' (k l : Int) :
    T.cosq (k + l) = T.cosq k * T.cosq l - T.sinq k * T.sinq l ∧ T.sinq (k + l) = T.sinq k * T.cosq l + T.cosq k * T.sinq l := by
  unfold T.cosq T.sinq
  have hk : k % 4 = 0 ∨ k % 4 = 1 ∨ k % 4 = 2 ∨ k % 4 = 3 := by omega
  have hl : l % 4 = 0 ∨ l % 4 = 1 ∨ l % 4 = 2 ∨ l % 4 = 3 := by omega
  rcases hk with hk | hk | hk | hk <;> rcases hl with hl | hl | hl | hl <;>
    (have hkl : (k + l) % 4 = (k % 4 + l % 4) % 4 := Int.add_emod k l 4
     rw [hk, hl] at hkl
     norm_num at hkl
     simp [hk, hl, hkl])

/-- **quarter turns compose by adding `k`**: turning by `k` and then by `l` in the same plane is
the single matrix `Rq p q (k + l)` (the later turn multiplies from the left) -/
theorem Rq_mul (p q : Nat) (hp : p < 3) (hq : q < 3) (hpq : p ≠ q) (k l : Int) :
    (Rq p q l).mul (Rq p q k) = Rq p q (k + l) := by
  unfold Rq
  rw [Rcs_mul p q hp hq hpq, (quarter_add' k l).1, (quarter_add' k l).2]
  congr 1 <;> ring

theorem Rq_mod4 (p q : Nat) (k : Int) : Rq p q (k % 4) = Rq p q k := by
  unfold Rq T.cosq T.sinq
  have : k % 4 % 4 = k % 4 := Int.emod_emod_of_dvd k (by norm_num)
  rw [this]

theorem Rq_zero : ∀ p, p < 3 → ∀ q, q < 3 → p ≠ q → Rq p q 0 = M3.one := by decide +kernel

/-- a multiple of four quarter turns is the identity matrix -/
theorem Rq_four (p q : Nat) (hp : p < 3) (hq : q < 3) (hpq : p ≠ q) (k : Int) (hk : k % 4 = 0) : Rq p q k = M3.one := by
  rw [← Rq_mod4, hk]; exact Rq_zero p hp q hq hpq

/-- the reverse turn is the transpose (inverse) -/
theorem Rq_neg (p q : Nat) (hp : p < 3) (hq : q < 3) (hpq : p ≠ q) (k : Int) : Rq p q (-k) = (Rq p q k).tr := by
  have h1 : (Rq p q (-k)).mul (Rq p q k) = M3.one := by
    rw [Rq_mul p q hp hq hpq]; exact Rq_four p q hp hq hpq _ (by omega)
  have hR := Rq_isRot p q k hp hq hpq
  calc Rq p q (-k) = (Rq p q (-k)).mul M3.one := (M3.mul_one _).symm
    _ = (Rq p q (-k)).mul ((Rq p q k).mul (Rq p q k).tr) := by rw [hR.mul_tr]
    _ = ((Rq p q (-k)).mul (Rq p q k)).mul (Rq p q k).tr := (M3.mul_assoc _ _ _).symm
    _ = (Rq p q k).tr := by rw [h1, M3.one_mul]

theorem Raxis_isRot (a : Nat) (k : Int) : (Raxis a k).IsRot := by
  unfold Raxis
  exact Rq_isRot _ _ k (Nat.mod_lt _ (by omega)) (Nat.mod_lt _ (by omega)) (by omega)

/-- every quarter-angle Euler sequence, intrinsic or extrinsic, is a proper rotation -/
theorem eulerQ_isRot (intr : Bool) (seq : List (Nat × Int)) : (eulerQ intr seq).IsRot := by
  induction seq with
  | nil => exact M3.isRot_one
  | cons x rest ih =>
    obtain ⟨a, k⟩ := x
    unfold eulerQ
    cases intr
    · exact ih.mul (Raxis_isRot a k)
    · exact (Raxis_isRot a k).mul ih

theorem eulerQ_append (intr : Bool) (s t : List (Nat × Int)) :
    eulerQ intr (s ++ t) = if intr then (eulerQ intr s).mul (eulerQ intr t) else (eulerQ intr t).mul (eulerQ intr s) := by
  induction s with
  | nil => cases intr <;> simp [eulerQ, M3.one_mul, M3.mul_one]
  | cons x rest ih =>
    obtain ⟨a, k⟩ := x
    cases intr
    · simp only [List.cons_append, eulerQ, Bool.false_eq_true, if_false] at ih ⊢
      rw [ih, M3.mul_assoc]
    · simp only [List.cons_append, eulerQ, if_true] at ih ⊢
      rw [ih, M3.mul_assoc]

/-- the classical duality: an intrinsic sequence is the reversed extrinsic sequence -/
theorem eulerQ_intrinsic_reverse (seq : List (Nat × Int)) : eulerQ true seq = eulerQ false seq.reverse := by
  induction seq with
  | nil => rfl
  | cons x rest ih =>
    obtain ⟨a, k⟩ := x
    rw [List.reverse_cons, eulerQ_append]
    simp only [Bool.false_eq_true, if_false, eulerQ, if_true, M3.one_mul]
    rw [ih]

/-- the extrinsic sequence is the ordered product of its axis rotations (later on the left):
what a history of `rotate` calls with the single rotations accumulates -/
theorem eulerQ_extrinsic_prodL (seq : List (Nat × Int)) : eulerQ false seq = prodL (seq.map fun x => Raxis x.1 x.2) := by
  induction seq with
  | nil => rfl
  | cons x rest ih =>
    obtain ⟨a, k⟩ := x
    simp only [eulerQ, Bool.false_eq_true, if_false, List.map_cons, prodL, ih]

/-! ## modified Rodrigues parameters -/

/-- every rational MRP vector gives a proper rotation (the quaternion norm is `(1 + |p|²)²`) -/
theorem ofMrp_isRot (p : V3) : (M3.ofMrp p).IsRot := by
  unfold M3.ofMrp
  apply M3.ofQuat_isRot
  have h : (1 - p.dot p) * (1 - p.dot p) + 2 * p.x * (2 * p.x) + 2 * p.y * (2 * p.y) + 2 * p.z * (2 * p.z)
      = (1 + p.dot p) * (1 + p.dot p) := by unfold V3.dot; ring
  rw [h]
  have : 0 ≤ p.dot p := by
    unfold V3.dot
    have := mul_self_nonneg p.x
    have := mul_self_nonneg p.y
    have := mul_self_nonneg p.z
    linarith
  have h1 : 0 < 1 + p.dot p := by linarith
  exact (mul_pos h1 h1).ne' 

/-- `p = 0` is the identity; `−p` is the inverse rotation -/
theorem ofMrp_zero : M3.ofMrp ⟨0, 0, 0⟩ = M3.one := by decide +kernel

theorem ofMrp_neg (p : V3) : M3.ofMrp ⟨-p.x, -p.y, -p.z⟩ = (M3.ofMrp p).tr := by
  unfold M3.ofMrp M3.ofQuat M3.tr V3.dot
  ext <;> simp only <;> ring

end DFV.C18
